import Ecal.Model.ParserWF
import Ecal.Lemmas.C04Wiring
/-!
Bridge from C07's `WellFormed` (Model/ParserWF.lean) to the node shapes the C04 wiring lemmas ask for:
`WellFormed n → n.name = "<kind>" → the children of n have the shape of that kind`.
-/
namespace Ecal.Ev
open Ecal.Lex Ecal.Parse

theorem wf_unfold (n : Node) : WellFormed n = (nodeOk n && kidsWF n.children) := by
  cases n; simp [WellFormed, Node.children]

theorem kidsWF_map_some : ∀ (cs : List (Option Node)), kidsWF cs = true →
    ∃ l : List Node, cs = l.map some ∧ ∀ c ∈ l, WellFormed c = true
  | [], _ => ⟨[], rfl, by simp⟩
  | none :: _, h => by simp [kidsWF] at h
  | some c :: r, h => by
    simp only [kidsWF, Bool.and_eq_true] at h
    obtain ⟨l, hl, hw⟩ := kidsWF_map_some r h.2
    exact ⟨c :: l, by simp [hl], by intro x hx; rcases List.mem_cons.1 hx with rfl | hx; exact h.1; exact hw x hx⟩

theorem wf_parts {n : Node} (h : WellFormed n = true) :
    (n.tok.isSome || tokenless n.name) = true ∧ shapeOk n.name (n.children.map sigOf) = true ∧
    ∃ l : List Node, n.children = l.map some ∧ ∀ c ∈ l, WellFormed c = true := by
  rw [wf_unfold] at h
  simp only [nodeOk, Bool.and_eq_true] at h
  exact ⟨h.1.1, h.1.2, kidsWF_map_some _ h.2⟩

theorem sigOf_some (l : List Node) : (l.map some).map sigOf = l.map fun c => (c.name, c.children.length) := by
  simp [List.map_map, Function.comp_def, sigOf]

/-- every statement node with a keyword has a token -/
theorem wf_tok {n : Node} (h : WellFormed n = true) (hn : tokenless n.name = false) : ∃ t, n.tok = some t := by
  have := (wf_parts h).1
  simp only [hn, Bool.or_false] at this
  exact Option.isSome_iff_exists.1 this

/-- **try**: block first, then only except / otherwise / finally clauses; all well-formed -/
theorem wf_try_shape {n : Node} (h : WellFormed n = true) (hn : n.name = "try") :
    ∃ (body : Node) (clauses : List Node), n.children = some body :: clauses.map some ∧ body.name = "statements" ∧
      WellFormed body = true ∧
      ∀ c ∈ clauses, (c.name = "except" ∨ c.name = "otherwise" ∨ c.name = "finally") ∧ WellFormed c = true := by
  obtain ⟨_, hs, l, hl, hw⟩ := wf_parts h
  rw [hl, sigOf_some, hn] at hs
  have hk : kindOf "try" = .try_ := by decide
  simp only [shapeOk, hk] at hs
  cases l with
  | nil => simp at hs
  | cons b cs =>
    simp only [List.map_cons, Bool.and_eq_true, decide_eq_true_eq, List.all_eq_true, List.mem_map,
      Bool.or_eq_true] at hs
    refine ⟨b, cs, by simp [hl], hs.1, hw b (by simp), ?_⟩
    intro c hc
    refine ⟨?_, hw c (by simp [hc])⟩
    have := hs.2 (c.name, c.children.length) ⟨c, hc, rfl⟩
    simpa [or_assoc] using this

/-- **otherwise / finally**: exactly one child, the block; the clause has a token -/
theorem wf_block_shape {c : Node} (h : WellFormed c = true) (hn : c.name = "finally" ∨ c.name = "otherwise") :
    ∃ (st : Node) (t : Tok), c.children = [some st] ∧ st.name = "statements" ∧ c.tok = some t ∧ WellFormed st = true := by
  obtain ⟨_, hs, l, hl, hw⟩ := wf_parts h
  have htk : tokenless c.name = false := by rcases hn with hn | hn <;> simp [hn, tokenless]
  obtain ⟨t, ht⟩ := wf_tok h htk
  have hk : kindOf c.name = .blockOnly := by rcases hn with hn | hn <;> rw [hn] <;> decide
  rw [hl, sigOf_some] at hs
  simp only [shapeOk, hk, List.map_map, decide_eq_true_eq] at hs
  match l, hs, hl, hw with
  | [st], hs, hl, hw =>
    simp [Function.comp_def] at hs
    exact ⟨st, t, by simp [hl], hs, ht, hw st (by simp)⟩
  | [], hs, _, _ => simp at hs
  | _ :: _ :: _, hs, _, _ => simp at hs

/-- **return**: no child or one; it has a token -/
theorem wf_return_shape {n : Node} (h : WellFormed n = true) (hn : n.name = "return") :
    ∃ t, n.tok = some t ∧ (n.children = [] ∨ ∃ c, n.children = [some c] ∧ WellFormed c = true) := by
  obtain ⟨_, hs, l, hl, hw⟩ := wf_parts h
  obtain ⟨t, ht⟩ := wf_tok h (by simp [hn, tokenless])
  have hk : kindOf "return" = .return_ := by decide
  rw [hl, sigOf_some, hn] at hs
  simp only [shapeOk, hk, List.length_map, decide_eq_true_eq] at hs
  refine ⟨t, ht, ?_⟩
  match l, hs, hl, hw with
  | [], _, hl, _ => left; simp [hl]
  | [c], _, hl, hw => right; exact ⟨c, by simp [hl], hw c (by simp)⟩
  | _ :: _ :: _, hs, _, _ => simp at hs

/-- **loop**: [guard with one child | `in` with two children, block] -/
theorem wf_loop_shape {n : Node} (h : WellFormed n = true) (hn : n.name = "loop") :
    ∃ (c0 body : Node) (t : Tok), n.children = [some c0, some body] ∧ body.name = "statements" ∧ n.tok = some t ∧
      WellFormed c0 = true ∧ WellFormed body = true ∧
      ((c0.name = "guard" ∧ c0.children.length = 1) ∨ (c0.name = "in" ∧ c0.children.length = 2)) := by
  obtain ⟨_, hs, l, hl, hw⟩ := wf_parts h
  obtain ⟨t, ht⟩ := wf_tok h (by simp [hn, tokenless])
  have hk : kindOf "loop" = .loop := by decide
  rw [hl, sigOf_some, hn] at hs
  simp only [shapeOk, hk] at hs
  match l, hs, hl, hw with
  | [c0, b], hs, hl, hw =>
    simp only [List.map_cons, List.map_nil, Bool.and_eq_true, decide_eq_true_eq, Bool.or_eq_true] at hs
    exact ⟨c0, b, t, by simp [hl], hs.1, ht, hw c0 (by simp), hw b (by simp), hs.2⟩
  | [], hs, _, _ => simp at hs
  | [_], hs, _, _ => simp at hs
  | _ :: _ :: _ :: _, hs, _, _ => simp at hs

theorem ifShape_pairs : ∀ (l : List Node), ifShape (l.map fun c => (c.name, c.children.length)) = true →
    (∀ c ∈ l, WellFormed c = true) →
    ∃ ps : List (Node × Node), l.map some = flatPairs ps ∧
      ∀ p ∈ ps, p.1.name = "guard" ∧ p.1.children.length = 1 ∧ p.2.name = "statements" ∧
        WellFormed p.1 = true ∧ WellFormed p.2 = true
  | [], _, _ => ⟨[], rfl, by simp⟩
  | [_], hs, _ => by simp [ifShape] at hs
  | g :: b :: r, hs, hw => by
    simp only [List.map_cons, ifShape, Bool.and_eq_true, decide_eq_true_eq] at hs
    obtain ⟨ps, hps, hp⟩ := ifShape_pairs r hs.2 (fun c hc => hw c (by simp [hc]))
    refine ⟨(g, b) :: ps, by simp [flatPairs, hps], ?_⟩
    intro p hp'
    rcases List.mem_cons.1 hp' with rfl | hp'
    · exact ⟨hs.1.1.1, hs.1.1.2, hs.1.2, hw _ (by simp), hw _ (by simp)⟩
    · exact hp p hp'

/-- **if**: (guard with one child, block) pairs -/
theorem wf_if_shape {n : Node} (h : WellFormed n = true) (hn : n.name = "if") :
    ∃ (ps : List (Node × Node)) (t : Tok), n.children = flatPairs ps ∧ n.tok = some t ∧
      ∀ p ∈ ps, p.1.name = "guard" ∧ p.1.children.length = 1 ∧ p.2.name = "statements" ∧
        WellFormed p.1 = true ∧ WellFormed p.2 = true := by
  obtain ⟨_, hs, l, hl, hw⟩ := wf_parts h
  obtain ⟨t, ht⟩ := wf_tok h (by simp [hn, tokenless])
  have hk : kindOf "if" = .if_ := by decide
  rw [hl, sigOf_some, hn] at hs
  simp only [shapeOk, hk] at hs
  obtain ⟨ps, hps, hp⟩ := ifShape_pairs l hs hw
  exact ⟨ps, t, by rw [hl, hps], ht, hp⟩

end Ecal.Ev
