import Ecal.Lemmas.EngineBasic
/-!
The index tree refines the reference matcher, stated with counts: adding rule `r` under pattern
`pat` adds exactly one occurrence of `r` to the match result of the events whose kind matches `pat`
and whose state `r` admits. Parametric in the invariant `LI` of state leaves (`LeafLaw`), which
`EngineLeaf.lean` instantiates with the bit-level invariant.
-/
namespace Ecal.Engine

/-- what the tree proof needs to know about state leaves -/
structure LeafLaw (rx : Nat → Val → Bool) (LI : List Rule → List (String × KeyMatcher) → Prop) : Prop where
  empty : LI [] []
  add : ∀ (r : Rule) rules keys, LI rules keys → rules.length < capacity →
    ((r.state.getD []).map (·.1)).Nodup →
    LI (rules ++ [r]) ((r.state.getD []).foldl (keyAdd ((1 : W) <<< rules.length)) keys)
  sem : ∀ ev rules keys, LI rules keys →
    stateMatch rx ev rules keys = .ok (rules.filter (Spec.stateOK rx · ev))

/-- every state leaf of the tree satisfies the leaf invariant -/
inductive Idx.Inv (LI : List Rule → List (String × KeyMatcher) → Prop) : Idx → Prop where
  | kind {all single} : (∀ i ∈ all, Idx.Inv LI i) → (∀ p ∈ single, ∀ i ∈ p.2, Idx.Inv LI i) →
      Idx.Inv LI (.kind all single)
  | state {rules keys} : LI rules keys → Idx.Inv LI (.state rules keys)
  | allLeaf {rules} : Idx.Inv LI (.allLeaf rules)

/-- the index type a rule needs below a node when `pat` is what is left of its pattern -/
def tyFor (r : Rule) : List Seg → Ty
  | [] => leafTy r
  | _ :: _ => .kind

/-- the contribution of (rule `r`, pattern `pat`) to the count of `x` -/
def delta (rx : Nat → Val → Bool) (r : Rule) (pat ks : List Seg) (ev : Event) (x : Rule) : Nat :=
  if x = r ∧ Spec.patMatch pat ks = true ∧ Spec.stateOK rx r ev = true then 1 else 0

theorem mem_aset [DecidableEq κ] {k : κ} {v : β} {l : List (κ × β)} {p : κ × β} (h : p ∈ aset k v l) :
    p = (k, v) ∨ p ∈ l := by
  induction l with
  | nil => simp [aset] at h; exact Or.inl h
  | cons kv rest ih =>
    obtain ⟨k', v'⟩ := kv
    simp only [aset] at h
    split at h
    · simp only [List.mem_cons] at h
      rcases h with h | h
      · exact Or.inl h
      · exact Or.inr (List.mem_cons_of_mem _ h)
    · simp only [List.mem_cons] at h
      rcases h with h | h
      · exact Or.inr (by simp [h])
      · rcases ih h with h | h
        · exact Or.inl h
        · exact Or.inr (List.mem_cons_of_mem _ h)

theorem alookup_mem [DecidableEq κ] {k : κ} {v : β} {l : List (κ × β)} (h : alookup k l = some v) :
    (k, v) ∈ l := by
  induction l with
  | nil => simp [alookup] at h
  | cons kv rest ih =>
    obtain ⟨k', v'⟩ := kv
    simp only [alookup] at h
    split at h
    · next hk => simp at h; simp [hk, h]
    · exact List.mem_cons_of_mem _ (ih h)

theorem Out.flat_append {A B : List (Out (List α))} {l : List α} (h : Out.flat (A ++ B) = .ok l) :
    ∃ a b, Out.flat A = .ok a ∧ Out.flat B = .ok b ∧ l = a ++ b := by
  induction A generalizing l with
  | nil => exact ⟨[], l, rfl, h, rfl⟩
  | cons o rest ih =>
    obtain ⟨a, b, ha, hb, hl⟩ := Out.flat_ok_cons h
    obtain ⟨a', b', ha', hb', hl'⟩ := ih hb
    exact ⟨a ++ a', b', by rw [ha, Out.flat_cons_ok ha'], hb', by simp [hl, hl']⟩

theorem Out.flat_append_ok {A B : List (Out (List α))} {a b : List α} (ha : Out.flat A = .ok a)
    (hb : Out.flat B = .ok b) : Out.flat (A ++ B) = .ok (a ++ b) := by
  induction A generalizing a with
  | nil => simp [Out.flat] at ha; simp [← ha, hb]
  | cons o rest ih =>
    obtain ⟨a1, a2, h1, h2, h3⟩ := Out.flat_ok_cons ha
    rw [List.cons_append, h1, Out.flat_cons_ok (ih h2), h3, List.append_assoc]

section
variable {rx : Nat → Val → Bool} {LI : List Rule → List (String × KeyMatcher) → Prop}

theorem newIdx_accepts (ty : Ty) : (newIdx ty).accepts ty = true := by
  cases ty <;> simp [newIdx, Idx.accepts, capacity]

theorem newIdx_inv (law : LeafLaw rx LI) (ty : Ty) : Idx.Inv LI (newIdx ty) := by
  cases ty
  · exact .kind (by simp) (by simp)
  · exact .state law.empty
  · exact .allLeaf

theorem matchAt_newIdx (law : LeafLaw rx LI) (ev : Event) (ks : List Seg) (ty : Ty) :
    matchAt rx ev ks (newIdx ty) = .ok [] := by
  cases ty <;> cases ks <;> simp [newIdx, matchAt, alookup, Out.flat, law.sem _ _ _ law.empty]

/-- the step property of `f = addAt r rest` that `updFirst` lifts to a list of sub-indexes -/
def StepOK (rx : Nat → Val → Bool) (LI : List Rule → List (String × KeyMatcher) → Prop)
    (ty : Ty) (f : Idx → Idx) (d : Event → List Seg → Rule → Nat) : Prop :=
  ∀ i, Idx.Inv LI i → i.accepts ty = true →
    Idx.Inv LI (f i) ∧ ∀ ev ks l, matchAt rx ev ks i = .ok l →
      ∃ l', matchAt rx ev ks (f i) = .ok l' ∧ ∀ x, l'.count x = l.count x + d ev ks x

theorem updFirst_inv (law : LeafLaw rx LI) {ty f d} (hf : StepOK rx LI ty f d) :
    ∀ (L : List Idx), (∀ i ∈ L, Idx.Inv LI i) →
      ∀ i ∈ updFirst (Idx.accepts ty) f (newIdx ty) L, Idx.Inv LI i := by
  intro L
  induction L with
  | nil =>
    intro _ i hi
    simp only [updFirst, List.mem_singleton] at hi
    subst hi
    exact (hf _ (newIdx_inv law ty) (newIdx_accepts ty)).1
  | cons j rest ih =>
    intro hL i hi
    simp only [updFirst] at hi
    split at hi
    · next hp =>
      simp only [List.mem_cons] at hi
      rcases hi with rfl | hi
      · exact (hf j (hL j (List.mem_cons_self ..)) hp).1
      · exact hL i (List.mem_cons_of_mem _ hi)
    · simp only [List.mem_cons] at hi
      rcases hi with rfl | hi
      · exact hL _ (List.mem_cons_self ..)
      · exact ih (fun i hi => hL i (List.mem_cons_of_mem _ hi)) i hi

theorem updFirst_match (law : LeafLaw rx LI) {ty f d} (hf : StepOK rx LI ty f d) (ev : Event) (ks : List Seg) :
    ∀ (L : List Idx), (∀ i ∈ L, Idx.Inv LI i) → ∀ l, Out.flat (L.map (matchAt rx ev ks)) = .ok l →
      ∃ l', Out.flat ((updFirst (Idx.accepts ty) f (newIdx ty) L).map (matchAt rx ev ks)) = .ok l' ∧
        ∀ x, l'.count x = l.count x + d ev ks x := by
  intro L
  induction L with
  | nil =>
    intro _ l hl
    simp [Out.flat] at hl
    subst hl
    obtain ⟨l', h1, h2⟩ := (hf _ (newIdx_inv law ty) (newIdx_accepts ty)).2 ev ks [] (matchAt_newIdx law ev ks ty)
    exact ⟨l' ++ [], by simp [updFirst, Out.flat, h1], by simpa using h2⟩
  | cons j rest ih =>
    intro hL l hl
    simp only [List.map_cons] at hl
    obtain ⟨a, b, ha, hb, rfl⟩ := Out.flat_ok_cons hl
    simp only [updFirst]
    split
    · next hp =>
      obtain ⟨a', h1, h2⟩ := (hf j (hL j (List.mem_cons_self ..)) hp).2 ev ks a ha
      refine ⟨a' ++ b, by simp only [List.map_cons, h1]; exact Out.flat_cons_ok hb, ?_⟩
      intro x; simp only [List.count_append, h2]; omega
    · obtain ⟨b', h1, h2⟩ := ih (fun i hi => hL i (List.mem_cons_of_mem _ hi)) b hb
      refine ⟨a ++ b', by simp only [List.map_cons, ha]; exact Out.flat_cons_ok h1, ?_⟩
      intro x; simp only [List.count_append, h2]; omega

theorem count_filter_snoc (P : Rule → Bool) (rules : List Rule) (r x : Rule) :
    ((rules ++ [r]).filter P).count x = (rules.filter P).count x + (if x = r ∧ P r = true then 1 else 0) := by
  simp only [List.filter_append, List.count_append, List.filter_cons, List.filter_nil]
  by_cases hP : P r = true
  · by_cases hx : x = r
    · subst hx; simp [hP]
    · have : ¬ r = x := fun c => hx c.symm
      simp [hP, hx, List.count_cons, this]
  · simp [hP]

/-- `addRuleAtLevel` adds one occurrence of the rule exactly where pattern and state match -/
theorem addAt_step (law : LeafLaw rx LI) (r : Rule) (hwf : ((r.state.getD []).map (·.1)).Nodup) :
    ∀ pat, StepOK rx LI (tyFor r pat) (addAt r pat) (fun ev ks x => delta rx r pat ks ev x) := by
  intro pat
  induction pat with
  | nil =>
    intro i hinv hacc
    cases i with
    | kind all single =>
      simp [Idx.accepts, tyFor, leafTy] at hacc
      split at hacc <;> simp at hacc
    | state rules keys =>
      simp only [Idx.accepts, tyFor, Bool.and_eq_true, decide_eq_true_eq] at hacc
      cases hinv with
      | state hli =>
        have hnew := law.add r rules keys hli hacc.2 hwf
        refine ⟨by simp only [addAt, stateAdd]; exact .state hnew, ?_⟩
        intro ev ks l hl
        cases ks with
        | nil =>
          simp only [matchAt, law.sem ev _ _ hli] at hl
          simp only [addAt, stateAdd, matchAt, law.sem ev _ _ hnew]
          refine ⟨_, rfl, ?_⟩
          intro x
          injection hl with hl
          subst hl
          rw [count_filter_snoc]
          simp [delta, Spec.patMatch]
        | cons k ks =>
          simp only [matchAt] at hl
          injection hl with hl
          subst hl
          exact ⟨[], by simp [addAt, stateAdd, matchAt], by simp [delta, Spec.patMatch]⟩
    | allLeaf rules =>
      have hst : r.state = none := by
        simp only [Idx.accepts, tyFor, leafTy, decide_eq_true_eq] at hacc
        cases hs : r.state with
        | none => rfl
        | some v => simp [hs] at hacc
      refine ⟨by simp only [addAt]; exact .allLeaf, ?_⟩
      intro ev ks l hl
      cases ks with
      | nil =>
        simp only [matchAt] at hl
        injection hl with hl
        subst hl
        refine ⟨rules ++ [r], by simp [addAt, matchAt], ?_⟩
        intro x
        simp only [List.count_append, delta, Spec.patMatch, Spec.stateOK, hst]
        by_cases hx : x = r
        · subst hx; simp
        · have : ¬ r = x := fun c => hx c.symm
          simp [hx, List.count_cons, this]
      | cons k ks =>
        simp only [matchAt] at hl
        injection hl with hl
        subst hl
        exact ⟨[], by simp [addAt, matchAt], by simp [delta, Spec.patMatch]⟩
  | cons item rest ih =>
    intro i hinv hacc
    cases i with
    | state rules keys => simp [Idx.accepts, tyFor] at hacc
    | allLeaf rules => simp [Idx.accepts, tyFor] at hacc
    | kind all single =>
      cases hinv with
      | kind hall hsingle =>
        have hty : (if rest.isEmpty = true then leafTy r else Ty.kind) = tyFor r rest := by
          cases rest <;> simp [tyFor]
        have hB : ∀ i ∈ (alookup item single).getD [], Idx.Inv LI i := by
          intro i hi
          cases hl : alookup item single with
          | none => simp [hl] at hi
          | some v => simp [hl] at hi; exact hsingle _ (alookup_mem hl) i hi
        simp only [addAt, hty]
        refine ⟨?_, ?_⟩
        · split
          · exact .kind (updFirst_inv law ih all hall) hsingle
          · refine .kind hall ?_
            intro p hp j hj
            rcases mem_aset hp with rfl | hp
            · exact updFirst_inv law ih _ hB j hj
            · exact hsingle p hp j hj
        · intro ev ks l hl
          cases ks with
          | nil =>
            simp only [matchAt] at hl
            injection hl with hl
            subst hl
            refine ⟨[], ?_, by simp [delta, Spec.patMatch]⟩
            split <;> simp [matchAt]
          | cons k ks =>
            simp only [matchAt, List.map_append] at hl
            obtain ⟨a, b, ha, hb, rfl⟩ := Out.flat_append hl
            split
            · next hstar =>
              obtain ⟨a', h1, h2⟩ := updFirst_match law ih ev ks all hall a ha
              refine ⟨a' ++ b, by simp only [matchAt, List.map_append]; exact Out.flat_append_ok h1 hb, ?_⟩
              intro x
              simp only [List.count_append, h2, delta, Spec.patMatch, hstar]
              simp; omega
            · next hstar =>
              simp only [matchAt, alookup_aset, List.map_append]
              by_cases hk : k = item
              · subst hk
                simp only [if_true, Option.getD_some]
                obtain ⟨b', h1, h2⟩ := updFirst_match law ih ev ks _ hB b hb
                refine ⟨a ++ b', Out.flat_append_ok ha h1, ?_⟩
                intro x
                simp only [List.count_append, h2, delta, Spec.patMatch]
                simp [hstar]; omega
              · simp only [hk, if_false]
                refine ⟨a ++ b, Out.flat_append_ok ha hb, ?_⟩
                intro x
                have : ¬ item = k := fun c => hk c.symm
                simp [delta, Spec.patMatch, hstar, this]

theorem addAt_cons_kind (r : Rule) (item : Seg) (rest : List Seg) (all single) :
    (addAt r (item :: rest) (.kind all single)).accepts .kind = true := by
  simp only [addAt]; split <;> simp [Idx.accepts]

theorem addPats_step (law : LeafLaw rx LI) (r : Rule) (hwf : ((r.state.getD []).map (·.1)).Nodup) :
    ∀ (pats : List (List Seg)), (∀ p ∈ pats, p ≠ []) → ∀ t, Idx.Inv LI t → t.accepts .kind = true →
      Idx.Inv LI (pats.foldl (fun i k => addAt r k i) t) ∧
      (pats.foldl (fun i k => addAt r k i) t).accepts .kind = true ∧
      ∀ ev ks l, matchAt rx ev ks t = .ok l →
        ∃ l', matchAt rx ev ks (pats.foldl (fun i k => addAt r k i) t) = .ok l' ∧
          ∀ x, l'.count x = l.count x + (pats.map (fun p => delta rx r p ks ev x)).sum := by
  intro pats
  induction pats with
  | nil => intro _ t hinv hk; exact ⟨hinv, hk, fun ev ks l hl => ⟨l, hl, by simp⟩⟩
  | cons p rest ih =>
    intro hne t hinv hk
    have hp : p ≠ [] := hne p (List.mem_cons_self ..)
    obtain ⟨item, ps, rfl⟩ : ∃ item ps, p = item :: ps := by
      cases p with
      | nil => exact absurd rfl hp
      | cons a b => exact ⟨a, b, rfl⟩
    have hstep := addAt_step law r hwf (item :: ps) t hinv (by simpa [tyFor] using hk)
    have hk' : (addAt r (item :: ps) t).accepts .kind = true := by
      cases t with
      | kind all single => exact addAt_cons_kind r item ps all single
      | state _ _ => simp [Idx.accepts] at hk
      | allLeaf _ => simp [Idx.accepts] at hk
    obtain ⟨h1, h2, h3⟩ := ih (fun q hq => hne q (List.mem_cons_of_mem _ hq)) _ hstep.1 hk'
    refine ⟨h1, h2, ?_⟩
    intro ev ks l hl
    obtain ⟨l1, hl1, hc1⟩ := hstep.2 ev ks l hl
    obtain ⟨l2, hl2, hc2⟩ := h3 ev ks l1 hl1
    refine ⟨l2, hl2, ?_⟩
    intro x
    simp only [List.foldl_cons, List.map_cons, List.sum_cons, hc2, hc1]; omega

theorem sum_delta (r : Rule) (ks : List Seg) (ev : Event) (x : Rule) (pats : List (List Seg)) :
    (pats.map (fun p => delta rx r p ks ev x)).sum =
      if x = r ∧ Spec.stateOK rx r ev = true then pats.countP (Spec.patMatch · ks) else 0 := by
  induction pats with
  | nil => simp
  | cons p rest ih =>
    simp only [List.map_cons, List.sum_cons, List.countP_cons]
    rw [ih]
    simp only [delta]
    by_cases h1 : x = r ∧ Spec.stateOK rx r ev = true
    · by_cases h2 : Spec.patMatch p ks = true
      · simp [h1, h2]; omega
      · simp [h1, h2]
    · have : ¬ (x = r ∧ Spec.patMatch p ks = true ∧ Spec.stateOK rx r ev = true) := fun c => h1 ⟨c.1, c.2.2⟩
      simp [h1, this]

theorem sum_rules (ks : List Seg) (ev : Event) (x : Rule) (rules : List Rule) :
    (rules.map (fun r => if x = r ∧ Spec.stateOK rx r ev = true then r.kinds.countP (Spec.patMatch · ks) else 0)).sum =
      if Spec.stateOK rx x ev = true then rules.count x * x.kinds.countP (Spec.patMatch · ks) else 0 := by
  induction rules with
  | nil => simp
  | cons r rest ih =>
    simp only [List.map_cons, List.sum_cons, ih, List.count_cons]
    by_cases hx : x = r
    · subst hx
      by_cases hs : Spec.stateOK rx x ev = true
      · simp [hs, Nat.add_mul]; omega
      · simp [hs]
    · have : ¬ r = x := fun c => hx c.symm
      simp [hx, this]

/-- the whole index: every rule comes back once per matching kind pattern iff its state matches -/
theorem buildIdx_spec (law : LeafLaw rx LI) (rules : List Rule) (hwf : ∀ r ∈ rules, r.WF) (ev : Event) :
    ∃ l, matchAt rx ev ev.kind (buildIdx rules) = .ok l ∧ ∀ x, l.count x = Spec.matchCount rx rules ev x := by
  suffices h : ∀ (rules : List Rule), (∀ r ∈ rules, r.WF) → ∀ t, Idx.Inv LI t → t.accepts .kind = true →
      ∀ ks l, matchAt rx ev ks t = .ok l →
        ∃ l', matchAt rx ev ks (rules.foldl addRuleIdx t) = .ok l' ∧ ∀ x, l'.count x = l.count x +
          (rules.map (fun r => if x = r ∧ Spec.stateOK rx r ev = true then r.kinds.countP (Spec.patMatch · ks) else 0)).sum by
    obtain ⟨l, h1, h2⟩ := h rules hwf (.kind [] []) (.kind (by simp) (by simp)) (by simp [Idx.accepts]) ev.kind []
      (by cases ev.kind <;> simp [matchAt, alookup, Out.flat])
    refine ⟨l, h1, ?_⟩
    intro x
    rw [h2 x, sum_rules]
    simp [Spec.matchCount]
  intro rules
  induction rules with
  | nil => intro _ t _ _ ks l hl; exact ⟨l, hl, by simp⟩
  | cons r rest ih =>
    intro hwf t hinv hk ks l hl
    have hr := hwf r (List.mem_cons_self ..)
    obtain ⟨h1, h2, h3⟩ := addPats_step law r hr.2 r.kinds hr.1 t hinv hk
    obtain ⟨l1, hl1, hc1⟩ := h3 ev ks l hl
    obtain ⟨l2, hl2, hc2⟩ := ih (fun q hq => hwf q (List.mem_cons_of_mem _ hq)) _ h1 h2 ks l1 hl1
    refine ⟨l2, hl2, ?_⟩
    intro x
    simp only [List.map_cons, List.sum_cons, hc2, hc1, sum_delta]; omega

end
end Ecal.Engine
