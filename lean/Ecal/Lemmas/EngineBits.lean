import Ecal.Model.Engine
/-! Bit-level facts about `RuleMatcherKey.match/unmatch` and the collection loop (no `bv_decide`). -/
namespace Ecal.Engine

theorem kmUnmatch_bit (km : KeyMatcher) (cur : W) (i : Nat) :
    (kmUnmatch km cur).getLsbD i = (cur.getLsbD i && !km.bits.getLsbD i) := by
  simp only [kmUnmatch, BitVec.getLsbD_xor, BitVec.getLsbD_and]
  cases cur.getLsbD i <;> cases km.bits.getLsbD i <;> rfl

/-- `cur ^ (cur & ((bitsAny | add) ^ bits))`, per rule bit -/
theorem matchStep_bit (bits bitsAny add cur : W) (i : Nat)
    (hAny : bitsAny &&& bits = bitsAny) (hAdd : add &&& bits = add) :
    (cur ^^^ (cur &&& ((bitsAny ||| add) ^^^ bits))).getLsbD i =
      (cur.getLsbD i && (!bits.getLsbD i || bitsAny.getLsbD i || add.getLsbD i)) := by
  have h1 : (bitsAny.getLsbD i && bits.getLsbD i) = bitsAny.getLsbD i := by
    have := congrArg (·.getLsbD i) hAny; simpa using this
  have h2 : (add.getLsbD i && bits.getLsbD i) = add.getLsbD i := by
    have := congrArg (·.getLsbD i) hAdd; simpa using this
  simp only [BitVec.getLsbD_xor, BitVec.getLsbD_and, BitVec.getLsbD_or]
  generalize cur.getLsbD i = c at *
  generalize bits.getLsbD i = b at *
  generalize bitsAny.getLsbD i = a at *
  generalize add.getLsbD i = d at *
  cases c <;> cases b <;> cases a <;> cases d <;> simp_all

theorem onehot_bit (i j : Nat) (hj : j < 64) : ((1 : W) <<< i).getLsbD j = decide (j = i) := by
  simp only [BitVec.getLsbD_shiftLeft, BitVec.getLsbD_one]
  by_cases h : j = i
  · subst h; simp [hj]
  · by_cases h2 : j < i
    · simp [h, h2, hj]
    · have : j - i ≠ 0 := by omega
      simp [h, h2, hj, this]

theorem and_onehot_ne_zero {mb : W} {i : Nat} (h : mb &&& ((1 : W) <<< i) ≠ 0) : mb.getLsbD i = true := by
  cases hb : mb.getLsbD i with
  | true => rfl
  | false =>
    exfalso; apply h
    apply BitVec.eq_of_getLsbD_eq
    intro j hj
    simp only [BitVec.getLsbD_and, onehot_bit i j hj, BitVec.getLsbD_zero]
    by_cases hji : j = i
    · subst hji; simp [hb]
    · simp [hji]

/-- with bit 63 clear and no bit beyond the rules, the collection loop ends within 64 rounds -/
theorem collect_ok (rules : List Rule) (mb : W) (hmsb : mb.getLsbD 63 = false)
    (hlen : ∀ i, mb.getLsbD i = true → i < rules.length) :
    ∀ (k i fuel : Nat) (acc : List Rule), i + k = 63 → k + 1 ≤ fuel →
      ∃ l, collect rules mb fuel i ((1 : W) <<< i) acc = .ok l := by
  intro k
  induction k with
  | zero =>
    intro i fuel acc hi hf
    have : i = 63 := by omega
    subst this
    obtain ⟨f, rfl⟩ : ∃ f, fuel = f + 1 := ⟨fuel - 1, by omega⟩
    have h1 : mb.msb = false := by rw [BitVec.msb_eq_getLsbD_last]; exact hmsb
    rw [BitVec.msb_eq_decide] at h1
    have h2 : mb.toNat < 2 ^ 63 := by simpa using h1
    have hnot : ¬ ((1 : W) <<< 63 ≤ mb) := by
      intro hle
      rw [BitVec.le_def] at hle
      have : ((1 : W) <<< 63).toNat = 2 ^ 63 := by decide
      omega
    exact ⟨acc, by rw [collect, if_neg hnot]⟩
  | succ k ih =>
    intro i fuel acc hi hf
    obtain ⟨f, rfl⟩ : ∃ f, fuel = f + 1 := ⟨fuel - 1, by omega⟩
    simp only [collect]
    have hs : ((1 : W) <<< i) <<< 1 = (1 : W) <<< (i + 1) := by rw [BitVec.shiftLeft_add]
    split
    · rw [hs]
      split
      · next hne =>
        have hb := and_onehot_ne_zero hne
        have hl := hlen i hb
        rw [List.getElem?_eq_getElem hl]
        exact ih (i + 1) f _ (by omega) (by omega)
      · exact ih (i + 1) f _ (by omega) (by omega)
    · exact ⟨acc, rfl⟩

end Ecal.Engine
