import Ecal.Model.Engine
/-! Bit-level facts about `RuleMatcherKey.match/unmatch` and the collection loop (no `bv_decide`). -/
namespace Ecal.Engine

theorem kmUnmatch_bit (km : KeyMatcher) (cur : W) (i : Nat) :
    (kmUnmatch km cur).getLsbD i = (cur.getLsbD i && !km.bits.getLsbD i) := by
  simp only [kmUnmatch, BitVec.getLsbD_xor, BitVec.getLsbD_and]
  cases cur.getLsbD i <;> cases km.bits.getLsbD i <;> rfl

/-- `cur ^ (cur & ((bitsAny | add) ^ bits))`, per rule bit -/
theorem matchStep_bit (bits bitsAny add cur : W) (i : Nat)
    (hAny : bitsAny &&& bits = bitsAny) (hAdd : add &&& bits = add) :
    (cur ^^^ (cur &&& ((bitsAny ||| add) ^^^ bits))).getLsbD i =
      (cur.getLsbD i && (!bits.getLsbD i || bitsAny.getLsbD i || add.getLsbD i)) := by
  have h1 : (bitsAny.getLsbD i && bits.getLsbD i) = bitsAny.getLsbD i := by
    have := congrArg (·.getLsbD i) hAny; simpa using this
  have h2 : (add.getLsbD i && bits.getLsbD i) = add.getLsbD i := by
    have := congrArg (·.getLsbD i) hAdd; simpa using this
  simp only [BitVec.getLsbD_xor, BitVec.getLsbD_and, BitVec.getLsbD_or]
  generalize cur.getLsbD i = c at *
  generalize bits.getLsbD i = b at *
  generalize bitsAny.getLsbD i = a at *
  generalize add.getLsbD i = d at *
  cases c <;> cases b <;> cases a <;> cases d <;> simp_all

theorem onehot_bit (i j : Nat) (hj : j < 64) : ((1 : W) <<< i).getLsbD j = decide (j = i) := by
  simp only [BitVec.getLsbD_shiftLeft, BitVec.getLsbD_one]
  by_cases h : j = i
  · subst h; simp [hj]
  · by_cases h2 : j < i
    · simp [h, h2, hj]
    · have : j - i ≠ 0 := by omega
      simp [h, h2, hj, this]

theorem and_onehot_ne_zero {mb : W} {i : Nat} (h : mb &&& ((1 : W) <<< i) ≠ 0) : mb.getLsbD i = true := by
  cases hb : mb.getLsbD i with
  | true => rfl
  | false =>
    exfalso; apply h
    apply BitVec.eq_of_getLsbD_eq
    intro j hj
    simp only [BitVec.getLsbD_and, onehot_bit i j hj, BitVec.getLsbD_zero]
    by_cases hji : j = i
    · subst hji; simp [hb]
    · simp [hji]

/-- with bit 63 clear and no bit beyond the rules, the collection loop ends within 64 rounds -/
theorem collect_ok (rules : List Rule) (mb : W) (hmsb : mb.getLsbD 63 = false)
    (hlen : ∀ i, mb.getLsbD i = true → i < rules.length) :
    ∀ (k i fuel : Nat) (acc : List Rule), i + k = 63 → k + 1 ≤ fuel →
      ∃ l, collect rules mb fuel i ((1 : W) <<< i) acc = .ok l := by
  intro k
  induction k with
  | zero =>
    intro i fuel acc hi hf
    have : i = 63 := by omega
    subst this
    obtain ⟨f, rfl⟩ : ∃ f, fuel = f + 1 := ⟨fuel - 1, by omega⟩
    have h1 : mb.msb = false := by rw [BitVec.msb_eq_getLsbD_last]; exact hmsb
    rw [BitVec.msb_eq_decide] at h1
    have h2 : mb.toNat < 2 ^ 63 := by simpa using h1
    have hnot : ¬ ((1 : W) <<< 63 ≤ mb) := by
      intro hle
      rw [BitVec.le_def] at hle
      have : ((1 : W) <<< 63).toNat = 2 ^ 63 := by decide
      omega
    exact ⟨acc, by rw [collect, if_neg hnot]⟩
  | succ k ih =>
    intro i fuel acc hi hf
    obtain ⟨f, rfl⟩ : ∃ f, fuel = f + 1 := ⟨fuel - 1, by omega⟩
    simp only [collect]
    have hs : ((1 : W) <<< i) <<< 1 = (1 : W) <<< (i + 1) := by rw [BitVec.shiftLeft_add]
    split
    · rw [hs]
      split
      · next hne =>
        have hb := and_onehot_ne_zero hne
        have hl := hlen i hb
        rw [List.getElem?_eq_getElem hl]
        exact ih (i + 1) f _ (by omega) (by omega)
      · exact ih (i + 1) f _ (by omega) (by omega)
    · exact ⟨acc, rfl⟩

theorem initMask_bit (n : Nat) (h : n ≤ 63) (i : Nat) :
    (((1 : W) <<< n) - 1).getLsbD i = decide (i < n) := by
  have h1 : (((1 : W) <<< n) - 1).toNat = 2 ^ n - 1 := by
    rw [BitVec.toNat_sub, BitVec.toNat_shiftLeft]
    have : (2:Nat)^n < 2^64 := Nat.pow_lt_pow_right (by omega) (by omega)
    have hp : 0 < (2:Nat)^n := Nat.pow_pos (by omega)
    simp [Nat.shiftLeft_eq, Nat.mod_eq_of_lt this]
    omega
  rw [← BitVec.testBit_toNat, h1, Nat.testBit_two_pow_sub_one]

theorem or_onehot_bit (x : W) (n i : Nat) (hn : n < 64) :
    (x ||| ((1 : W) <<< n)).getLsbD i = (x.getLsbD i || decide (i = n)) := by
  by_cases hi : i < 64
  · rw [BitVec.getLsbD_or, onehot_bit n i hi]
  · have hne : ¬ i = n := by omega
    simp [BitVec.getLsbD_of_ge _ i (by omega : 64 ≤ i), hne]

theorem onehot_inj {i j : Nat} (hi : i < 64) (h : (1 : W) <<< i = (1 : W) <<< j) : i = j := by
  have h1 := onehot_bit i i hi
  rw [h, onehot_bit j i hi] at h1
  simpa using h1

theorem and_onehot_ne_zero_of_bit {mb : W} {i : Nat} (hi : i < 64) (h : mb.getLsbD i = true) :
    mb &&& ((1 : W) <<< i) ≠ 0 := by
  intro hc
  have := congrArg (·.getLsbD i) hc
  simp only [BitVec.getLsbD_and, onehot_bit i i hi, h] at this
  simp at this

/-- per-bit form of the mask step with per-bit side conditions -/
theorem matchStep_bit' (bits bitsAny add cur : W) (i : Nat)
    (h1 : bitsAny.getLsbD i = true → bits.getLsbD i = true)
    (h2 : add.getLsbD i = true → bits.getLsbD i = true) :
    (cur ^^^ (cur &&& ((bitsAny ||| add) ^^^ bits))).getLsbD i =
      (cur.getLsbD i && (!bits.getLsbD i || bitsAny.getLsbD i || add.getLsbD i)) := by
  simp only [BitVec.getLsbD_xor, BitVec.getLsbD_and, BitVec.getLsbD_or]
  generalize cur.getLsbD i = c at *
  generalize bits.getLsbD i = b at *
  generalize bitsAny.getLsbD i = a at *
  generalize add.getLsbD i = d at *
  cases c <;> cases b <;> cases a <;> cases d <;> simp_all

/-- the rules whose bit is set, in rule order (bit `i` belongs to the head of the list) -/
def pick (mb : W) : List Rule → Nat → List Rule
  | [], _ => []
  | r :: rest, i => (if mb.getLsbD i then [r] else []) ++ pick mb rest (i + 1)

theorem pick_nil (mb : W) : ∀ (l : List Rule) (i : Nat), (∀ j, i ≤ j → mb.getLsbD j = false) → pick mb l i = [] := by
  intro l
  induction l with
  | nil => intro i _; rfl
  | cons r rest ih =>
    intro i h
    simp [pick, h i (Nat.le_refl _), ih (i + 1) (fun j hj => h j (by omega))]

theorem pick_eq_filter (mb : W) (P : Rule → Bool) : ∀ (l : List Rule) (i : Nat),
    (∀ j (h : j < l.length), mb.getLsbD (i + j) = P l[j]) → pick mb l i = l.filter P := by
  intro l
  induction l with
  | nil => intro i _; rfl
  | cons r rest ih =>
    intro i h
    have h0 := h 0 (by simp)
    simp only [Nat.add_zero, List.getElem_cons_zero] at h0
    have hr := ih (i + 1) (fun j hj => by
      have := h (j + 1) (by simp; omega)
      simpa [Nat.add_assoc, Nat.add_comm 1 j] using this)
    simp only [pick, h0, hr, List.filter_cons]
    cases P r <;> simp

theorem drop_cons {l : List Rule} : ∀ {i : Nat} {r : Rule} {suf : List Rule}, l.drop i = r :: suf →
    l[i]? = some r ∧ l.drop (i + 1) = suf := by
  induction l with
  | nil => intro i r suf h; simp at h
  | cons a rest ih =>
    intro i r suf h
    cases i with
    | zero => simp at h; simp [h.1, h.2]
    | succ i => simp at h; simpa using ih h

/-- the collection loop returns exactly the rules whose bit is set, in rule order -/
theorem collect_spec (rules : List Rule) (mb : W) (hmsb : mb.getLsbD 63 = false)
    (hlen : ∀ i, mb.getLsbD i = true → i < rules.length) :
    ∀ (k i fuel : Nat) (acc : List Rule), i + k = 63 → k + 1 ≤ fuel →
      collect rules mb fuel i ((1 : W) <<< i) acc = .ok (acc ++ pick mb (rules.drop i) i) := by
  have hsmall : mb.toNat < 2 ^ 63 := by
    have h1 : mb.msb = false := by rw [BitVec.msb_eq_getLsbD_last]; exact hmsb
    rw [BitVec.msb_eq_decide] at h1
    simpa using h1
  -- all bits from `i` on are clear when `1 <<< i` exceeds the mask
  have hclear : ∀ i, i ≤ 63 → ¬ ((1 : W) <<< i ≤ mb) → ∀ j, i ≤ j → mb.getLsbD j = false := by
    intro i hi hnot j hj
    rw [BitVec.not_le, BitVec.lt_def, BitVec.toNat_shiftLeft] at hnot
    have h2 : (2:Nat)^i < 2^64 := Nat.pow_lt_pow_right (by omega) (by omega)
    simp [Nat.shiftLeft_eq, Nat.mod_eq_of_lt h2] at hnot
    rw [← BitVec.testBit_toNat]
    apply Nat.testBit_lt_two_pow
    exact Nat.lt_of_lt_of_le hnot (Nat.pow_le_pow_right (by omega) hj)
  intro k
  induction k with
  | zero =>
    intro i fuel acc hi hf
    have : i = 63 := by omega
    subst this
    obtain ⟨f, rfl⟩ : ∃ f, fuel = f + 1 := ⟨fuel - 1, by omega⟩
    have hnot : ¬ ((1 : W) <<< 63 ≤ mb) := by
      intro hle
      rw [BitVec.le_def] at hle
      have : ((1 : W) <<< 63).toNat = 2 ^ 63 := by decide
      omega
    rw [collect, if_neg hnot, pick_nil mb _ 63 (hclear 63 (by omega) hnot)]
    simp
  | succ k ih =>
    intro i fuel acc hi hf
    obtain ⟨f, rfl⟩ : ∃ f, fuel = f + 1 := ⟨fuel - 1, by omega⟩
    have hi64 : i < 64 := by omega
    rw [collect]
    have hs : ((1 : W) <<< i) <<< 1 = (1 : W) <<< (i + 1) := by rw [BitVec.shiftLeft_add]
    by_cases hle : (1 : W) <<< i ≤ mb
    · rw [if_pos hle, hs]
      by_cases hne : mb &&& ((1 : W) <<< i) ≠ 0
      · rw [if_pos hne]
        have hb := and_onehot_ne_zero hne
        have hl := hlen i hb
        have hd := List.drop_eq_getElem_cons hl
        rw [List.getElem?_eq_getElem hl]
        simp only
        rw [ih (i + 1) f _ (by omega) (by omega), hd]
        simp [pick, hb]
      · rw [if_neg hne]
        have hb : mb.getLsbD i = false := by
          cases hbb : mb.getLsbD i with
          | false => rfl
          | true => exact absurd (and_onehot_ne_zero_of_bit hi64 hbb) hne
        rw [ih (i + 1) f _ (by omega) (by omega)]
        cases hd : rules.drop i with
        | nil =>
          have : rules.drop (i + 1) = [] := by
            have := List.drop_eq_nil_iff.mp hd
            exact List.drop_eq_nil_iff.mpr (by omega)
          simp [this, pick]
        | cons r suf =>
          rw [(drop_cons hd).2]
          simp [pick, hb]
    · rw [if_neg hle, pick_nil mb _ i (hclear i (by omega) hle)]
      simp

end Ecal.Engine
