import Ecal.Model.Lexer
/-!
Number tokens (C18, end of lexing): a text that strconv.ParseFloat's model `validFloat` accepts
consists of digits, `.`, `e`, `+` only; lower-casing such a text does not change its length.
-/
namespace Ecal.Lex

def numByte (b : Nat) : Prop := (48 ≤ b ∧ b ≤ 57) ∨ b = 46 ∨ b = 101 ∨ b = 43

theorem takeWhile_digits : ∀ (s : List Nat),
    ∀ b ∈ s.takeWhile (fun c => decide (48 ≤ c) && decide (c ≤ 57)), 48 ≤ b ∧ b ≤ 57
  | [], b, hb => by simp at hb
  | c :: cs, b, hb => by
    by_cases hc : (decide (48 ≤ c) && decide (c ≤ 57)) = true
    · simp only [List.takeWhile, hc] at hb
      rcases List.mem_cons.mp hb with rfl | hb
      · simpa using hc
      · exact takeWhile_digits cs b hb
    · have hc' : (decide (48 ≤ c) && decide (c ≤ 57)) = false := by simpa using hc
      simp only [List.takeWhile, hc'] at hb; simp at hb

theorem all_digits {e : List Nat} (h : e.all (fun c => decide (48 ≤ c) && decide (c ≤ 57)) = true) :
    ∀ b ∈ e, 48 ≤ b ∧ b ≤ 57 := by
  intro b hb
  have := List.all_eq_true.mp h b hb
  simpa using this

/-- the tail after the fraction: empty or `e+digits` -/
theorem tail_bytes {rest : List Nat} {m f : Nat}
    (h : (match rest with
      | [] => !overflows m 0 f
      | 101 :: 43 :: e =>
        !e.isEmpty && e.all (fun c => decide (48 ≤ c) && decide (c ≤ 57)) &&
          !(if (e.dropWhile (· = 48)).length > 6 then m != 0 else overflows m (digitsVal e) f)
      | _ => false) = true) : ∀ b ∈ rest, numByte b := by
  split at h
  · intro b hb; simp at hb
  · rename_i e
    simp only [Bool.and_eq_true] at h
    intro b hb
    simp only [List.mem_cons] at hb
    rcases hb with rfl | rfl | hb
    · exact Or.inr (Or.inr (Or.inl rfl))
    · exact Or.inr (Or.inr (Or.inr rfl))
    · exact Or.inl (all_digits h.1.2 b hb)
  · simp at h

theorem validFloat_bytes {s : List Nat} (h : validFloat s = true) : ∀ b ∈ s, numByte b := by
  unfold validFloat at h
  simp only [] at h
  split at h
  · simp at h
  · have hs := (List.takeWhile_append_dropWhile (p := fun c => decide (48 ≤ c) && decide (c ≤ 57)) (l := s)).symm
    intro b hb
    rw [hs] at hb
    rcases List.mem_append.mp hb with hb | hb
    · exact Or.inl (takeWhile_digits s b hb)
    · -- the rest
      revert hb
      generalize s.dropWhile (fun c => decide (48 ≤ c) && decide (c ≤ 57)) = rest at h ⊢
      intro hb
      cases rest with
      | nil => simp at hb
      | cons c r =>
        by_cases hc : c = 46
        · subst hc
          simp only [] at h
          have hr := (List.takeWhile_append_dropWhile (p := fun c => decide (48 ≤ c) && decide (c ≤ 57)) (l := r)).symm
          rcases List.mem_cons.mp hb with rfl | hb
          · exact Or.inr (Or.inl rfl)
          · rw [hr] at hb
            rcases List.mem_append.mp hb with hb | hb
            · exact Or.inl (takeWhile_digits r b hb)
            · exact tail_bytes h b hb
        · split at h
          · rename_i heq
            split at heq
            · rename_i h46; simp at h46; exact absurd h46.1 hc
            · simp at heq
          · rename_i e heq
            split at heq
            · rename_i h46; simp at h46; exact absurd h46.1 hc
            · simp only [List.cons.injEq] at heq
              obtain ⟨rfl, rfl⟩ := heq
              simp only [Bool.and_eq_true] at h
              simp only [List.mem_cons] at hb
              rcases hb with rfl | rfl | hb
              · exact Or.inr (Or.inr (Or.inl rfl))
              · exact Or.inr (Or.inr (Or.inr rfl))
              · exact Or.inl (all_digits h.1.2 b hb)
          · simp at h

/-- lower-casing changes the length only where it produces `i` (from `İ`) or `k` (from `K`) -/
theorem lowerGo_length (s : List Nat) (h : ∀ b ∈ lowerGo s, b ≠ 105 ∧ b ≠ 107) :
    (lowerGo s).length = s.length := by
  fun_induction lowerGo s with
  | case1 r ih => exact absurd rfl (h 105 (by simp [lowerGo])).1
  | case2 r ih => exact absurd rfl (h 107 (by simp [lowerGo])).2
  | case3 c r h1 h2 ih =>
    simp only [List.length_cons]
    rw [ih (fun b hb => h b (List.mem_cons_of_mem _ hb))]
  | case4 => rfl

end Ecal.Lex
