import Ecal.Lemmas.PriorityHeap
/-!
`heap.Pop` of `container/heap` on a slice in heap order returns a least element and leaves a
slice in heap order (used for `sortutil.PriorityQueue.Pop`, whose `Less` is `Item.lt`).
-/
namespace Ecal.Priority.Heap
variable {α : Type}

/-- `down(h, i, n)` never touches positions `≥ n` -/
theorem down_getElem?_ge (lt : α → α → Bool) : ∀ fuel (l : List α) i0 i n k, n ≤ l.length → i < n → n ≤ k →
    (down lt fuel l i0 i n).1[k]? = l[k]? := by
  intro fuel
  induction fuel with
  | zero => intro l i0 i n k _ _ _; rfl
  | succ f ih =>
    intro l i0 i n k hn hi hk
    unfold down
    simp only
    split
    · rfl
    · rename_i hj1
      generalize hjdef : (if 2 * i + 1 + 1 < n && lessAt lt l (2 * i + 1 + 1) (2 * i + 1)
        then 2 * i + 1 + 1 else 2 * i + 1) = j
      have hjn : j < n := by
        split at hjdef
        · rename_i hc
          simp only [Bool.and_eq_true, decide_eq_true_eq] at hc
          omega
        · omega
      split
      · rfl
      · rw [ih _ _ _ _ _ (by simpa using hn) hjn hk]
        rw [getElem?_swp l (by omega) (by omega)]
        have h1 : k ≠ j := by omega
        have h2 : k ≠ i := by omega
        simp [h1, h2]

/-- heap order only looks at the first `n` elements -/
theorem ok_take {lt : α → α → Bool} (l : List α) (n : Nat) (h : Ok lt l n 0) :
    Ok lt (l.take n) n 0 := by
  intro p c hp hc hpc x y hx hy
  rw [List.getElem?_take_of_lt (by omega)] at hx
  rw [List.getElem?_take_of_lt hc] at hy
  exact h p c hp hc hpc x y hx hy

/-- **`heap.Pop` returns a least element**: on a slice in heap order it returns the root, which is
    not greater than any element, and leaves the other elements in heap order. -/
theorem pop_spec {lt : α → α → Bool} (ho : StrictTotal lt) (l l' : List α) (x : α)
    (hok : Ok lt l l.length 0) (hp : pop lt l = some (x, l')) :
    l[0]? = some x ∧ (∀ y ∈ l, lt y x = false) ∧ (x :: l').Perm l ∧ Ok lt l' l'.length 0 := by
  unfold pop at hp
  split at hp
  · cases hp
  · rename_i a as
    simp only at hp
    generalize hl : a :: as = l0 at hp hok
    have hpos : 0 < l0.length := by rw [← hl]; simp
    generalize hn : l0.length - 1 = n at hp
    have hnl : n < l0.length := by omega
    -- the slice after Swap(0, n) and down(0, n)
    generalize hl1 : (down lt n (swp l0 0 n) 0 0 n).1 = l1 at hp
    have hperm1 : l1.Perm l0 := by
      rw [← hl1]; exact (down_perm _ _ _ _ _ _).trans (swp_perm _ _ _)
    have hlen1 : l1.length = n + 1 := by rw [hperm1.length_eq]; omega
    split at hp
    · rename_i x' hx'
      cases hp
      -- the returned element is the old root
      have hroot : l0[0]? = some x := by
        by_cases hn0 : n = 0
        · subst hn0
          rw [← hl1] at hx'
          simp only [down] at hx'
          rw [getElem?_swp l0 hpos hpos] at hx'
          simpa using hx'
        · rw [← hl1, down_getElem?_ge lt _ _ _ _ _ _ (by simp; omega) (by omega) (Nat.le_refl _),
            getElem?_swp l0 hpos hnl] at hx'
          simpa using hx'
      have hmin : ∀ y ∈ l0, lt y x = false := by
        intro y hy
        obtain ⟨k, hk, rfl⟩ := List.mem_iff_getElem.mp hy
        exact rootMin_of_ok ho l0 hok x k _ hroot (List.getElem?_eq_getElem hk)
      have hsplit : l1 = l1.take n ++ [x] := by
        have : l1.drop n = [x] := by
          apply List.ext_getElem?
          intro k
          cases k with
          | zero => simp [hx']
          | succ k => simp; omega
        rw [← this, List.take_append_drop]
      refine ⟨hroot, hmin, ?_, ?_⟩
      · refine List.Perm.trans ?_ hperm1
        rw [hsplit, List.take_left' (by simp [List.length_take]; omega)]
        exact List.perm_append_comm (l₁ := [x])
      · have hlt : (l1.take n).length = n := by simp [List.length_take]; omega
        rw [hlt]
        apply ok_take
        rw [← hl1]
        by_cases hn0 : n = 0
        · subst hn0; intro p c hp hc; omega
        · apply down_ok ho 0
          · simp; omega
          · exact Nat.le_refl _
          · omega
          · constructor
            · intro p c hp hp0 hc hpc y z hy hz
              rw [getElem?_swp l0 hpos hnl] at hy hz
              have h1 : p ≠ n := by omega
              have h2 : c ≠ n := by omega
              have h3 : c ≠ 0 := by omega
              simp only [h1, h2, h3, hp0, if_false] at hy hz
              exact hok p c hp (by omega) hpc y z hy hz
            · intro g c hg hg0; omega
    · cases hp

end Ecal.Priority.Heap
