import Ecal.Lemmas.ParserShape
import Ecal.Model.ParserWFS
/-!
The strict well-formedness invariant (`WellFormedS`, Model/ParserWFS.lean): the induction of
`Lemmas/ParserShape.lean` once more, with child signatures that record whether the child carries a token.
Same structure (`Ext`, `SpecsW`), in the namespace `Ecal.Parse.S`.
-/
namespace Ecal.Parse.S
open Ecal.Lex Ecal.Parse
variable {ts : List Tok}

/-- child signatures of a node -/
def sigs (n : Node) : List SigS := n.children.map sigOfS

/-- a node under construction: all children so far are well formed -/
def KW (n : Node) : Prop := kidsWFS n.children = true

theorem wf_iff (n : Node) : WellFormedS n = true ↔ KW n ∧ shapeOkS n.name (sigs n) = true := by
  cases n
  simp only [WellFormedS, KW, sigs, Node.children, Node.name, Bool.and_eq_true]
  constructor
  · rintro ⟨a, b⟩; exact ⟨b, a⟩
  · rintro ⟨b, a⟩; exact ⟨a, b⟩

theorem kidsWF_append (cs : List (Option Node)) (c : Node) :
    kidsWFS (cs ++ [some c]) = (kidsWFS cs && WellFormedS c) := by
  induction cs with
  | nil => simp [kidsWFS]
  | cons x xs ih => cases x <;> simp [kidsWFS, ih, Bool.and_assoc]

theorem KW.add {n c : Node} (hn : KW n) (hc : WellFormedS c = true) : KW (n.add (some c)) := by
  unfold KW at *
  simp [kidsWF_append, hn, hc]

/-- signature of a child -/
abbrev sgOf (c : Node) : SigS := (c.name, c.children.length, c.tok.isSome)

@[simp] theorem sigs_add (n c : Node) : sigs (n.add (some c)) = sigs n ++ [sgOf c] := by
  simp [sigs, sigOfS]

@[simp] theorem sigs_addMeta (n : Node) (ms) : sigs (n.addMeta ms) = sigs n := by simp [sigs]

theorem KW.addMeta {n : Node} (h : KW n) (ms) : KW (n.addMeta ms) := by
  unfold KW at *; simpa using h

theorem freshSigs {n : Node} (h : Fresh n) : sigs n = [] := by simp [Ecal.Parse.S.sigs, h.children]

theorem freshKW {n : Node} (h : Fresh n) : KW n := by
  unfold Ecal.Parse.S.KW
  simp [h.children, kidsWFS]

/-- `r` is `acc` with further well-formed children whose signatures are `extra` -/
structure Ext (acc r : Node) (extra : List SigS) : Prop where
  tok : r.tok = acc.tok
  name : r.name = acc.name
  kw : KW r
  sg : sigs r = sigs acc ++ extra

theorem Ext.refl {acc : Node} (h : KW acc) : Ext acc acc [] := ⟨rfl, rfl, h, by simp⟩

theorem Ext.of_add {acc c r : Node} {e : List SigS} (h : Ext (acc.add (some c)) r e) :
    Ext acc r (sgOf c :: e) :=
  ⟨by simpa using h.tok, by simpa using h.name, h.kw, by simpa using h.sg⟩

theorem Ext.trans {a m r : Node} {e1 e2 : List SigS} (h1 : Ext a m e1) (h2 : Ext m r e2) : Ext a r (e1 ++ e2) :=
  ⟨h2.tok.trans h1.tok, h2.name.trans h1.name, h2.kw, by rw [h2.sg, h1.sg]; simp⟩

/-- a node built on a fresh node is well formed if its signatures fit its kind -/
theorem Ext.wf {acc r : Node} {e : List SigS} (h : Ext acc r e) (hs : shapeOkS r.name (Ecal.Parse.S.sigs r) = true) :
    WellFormedS r = true := (wf_iff r).2 ⟨h.kw, hs⟩

theorem ifShapeS_append : ∀ (a b : List SigS), ifShapeS a = true → ifShapeS (a ++ b) = ifShapeS b
  | [], _, _ => rfl
  | [_], _, h => by simp [ifShapeS] at h
  | (g, k, _) :: (s, j, _) :: r, b, h => by
    simp only [ifShapeS, Bool.and_eq_true] at h
    simp only [List.cons_append, ifShapeS]
    rw [ifShapeS_append r b h.2]
    simp [h.1]

/-- a childless node -/
theorem KW.mk0 (nm : String) (t : Option Tok) (b x l ms) : KW (.mk nm t b x l [] ms) := by
  unfold KW; simp [Node.children, kidsWFS]


/-- result of an expression parse -/
def ResW (r : Node) : Prop := (∃ t, r.tok = some t) ∧ WellFormedS r = true ∧ InOk r


def identSig (s : SigS) : Bool := (s.1 = "identifier" && s.2.2) || s.1 = "funccall" || (s.1 = "compaccess" && s.2.1 = 1)
def exceptSig (s : SigS) : Bool := s.1 = "except" && s.2.2
def strSig (s : SigS) : Bool := s.1 = "string" && s.2.2

theorem opOk_append (a b : List SigS) : opOk (a ++ b) = (opOk a && opOk b) := by simp [opOk, List.all_append]
theorem opOk_cons (a : SigS) (b : List SigS) : opOk (a :: b) = (a.2.2 && opOk b) := by simp [opOk]
theorem opOk_sg {c : Node} {t : Tok} (h : c.tok = some t) : (sgOf c).2.2 = true := by simp [sgOf, h]

structure SpecsW (ts : List Tok) (f : Nat) : Prop where
  run : ∀ rbp p, Cur ts p → Sat (run f rbp) p (fun r p' => Cur ts p' ∧ ResW r) ET
  loopLed : ∀ rbp left p, Cur ts p → ResW left → Sat (loopLed f rbp left) p (fun r p' => Cur ts p' ∧ ResW r) ET
  nudOf : ∀ self p, Cur ts p → Fresh self → self.nud ≠ .none → Sat (nudOf f self) p (fun r p' => Cur ts p' ∧ ResW r) ET
  exprList : ∀ stop acc p, Cur ts p → KW acc → Sat (exprList f stop acc) p
    (fun r p' => Cur ts p' ∧ ∃ e, Ext acc r e ∧ opOk e = true) ET
  sinkAttrs : ∀ acc p, Cur ts p → KW acc → Sat (sinkAttrs f acc) p
    (fun r p' => Cur ts p' ∧ ∃ e, Ext acc r e ∧ opOk e = true) ET
  guardAndStatements : ∀ acc p, Cur ts p → KW acc → Sat (guardAndStatements f acc) p
    (fun r p' => Cur ts p' ∧ ∃ k, Ext acc r [("guard", 1, false), ("statements", k, false)]) ET
  elifs : ∀ acc p, Cur ts p → KW acc → Sat (elifs f acc) p
    (fun r p' => Cur ts p' ∧ ∃ e, Ext acc r e ∧ ifShapeS e = true) ET
  excepts : ∀ acc p, Cur ts p → KW acc → Sat (excepts f acc) p
    (fun r p' => Cur ts p' ∧ ∃ e, Ext acc r e ∧ e.all exceptSig = true) ET
  exceptTypes : ∀ acc p, Cur ts p → KW acc → Sat (exceptTypes f acc) p
    (fun r p' => Cur ts p' ∧ ∃ e, Ext acc r e ∧ e.all strSig = true) ET
  parseMore : ∀ self acc p, Cur ts p → (∃ t, self.tok = some t) → KW acc → Sat (parseMore f self acc) p
    (fun r p' => Cur ts p' ∧ ∃ e, Ext acc r e ∧ e.all identSig = true) ET
  innerStatements : ∀ acc p, Cur ts p → KW acc → Sat (innerStatements f acc) p
    (fun r p' => Cur ts p' ∧ ∃ k, Ext acc r [("statements", k, false)]) ET
  moreStatements : ∀ acc n p, Cur ts p → (∃ t, n.tok = some t) → KW acc → Sat (moreStatements f acc n) p
    (fun r p' => Cur ts p' ∧ ∃ e, Ext acc r e ∧ opOk e = true) ET
  topLoop : ∀ acc n p, Cur ts p → (∃ t, n.tok = some t) → KW acc → Sat (topLoop f acc n) p
    (fun r p' => Cur ts p' ∧ ∃ e, Ext acc r e ∧ opOk e = true) ET

theorem specsW_zero : SpecsW ts 0 := by
  constructor <;> intros <;>
    first
    | (rw [run]; exact Sat.throw trivial)
    | (rw [loopLed]; exact Sat.throw trivial)
    | (rw [nudOf]; exact Sat.throw trivial)
    | (rw [exprList]; exact Sat.throw trivial)
    | (rw [sinkAttrs]; exact Sat.throw trivial)
    | (rw [guardAndStatements]; exact Sat.throw trivial)
    | (rw [elifs]; exact Sat.throw trivial)
    | (rw [excepts]; exact Sat.throw trivial)
    | (rw [exceptTypes]; exact Sat.throw trivial)
    | (rw [parseMore]; exact Sat.throw trivial)
    | (rw [innerStatements]; exact Sat.throw trivial)
    | (rw [moreStatements]; exact Sat.throw trivial)
    | (rw [topLoop]; exact Sat.throw trivial)

theorem Ext.add1 {acc c : Node} (hacc : KW acc) (hc : WellFormedS c = true) :
    Ext acc (acc.add (some c)) [sgOf c] := (Ext.refl (hacc.add hc)).of_add

theorem shapeOk_container {nm : String} {cs : List SigS} (h : kindOf nm = .container) (ho : opOk cs = true) :
    shapeOkS nm cs = true := by
  simp [shapeOkS, h, ho]

theorem kw_statements (bb) : KW (instanceOf bb T_STATEMENTS none) := by
  rw [inst_statements]; exact KW.mk0 _ _ _ _ _ _

theorem sigs_statements (bb t) : sigs (instanceOf bb T_STATEMENTS t) = [] := by rw [inst_statements]; rfl
theorem name_statements (bb t) : (instanceOf bb T_STATEMENTS t).name = "statements" := by rw [inst_statements]; rfl

/-- a finished statements node -/
theorem wf_statements {bb : Nat} {st : Node} {e : List SigS} (h : Ext (instanceOf bb T_STATEMENTS none) st e)
    (ho : opOk e = true) : WellFormedS st = true ∧ st.name = "statements" ∧ st.tok = none := by
  have hn : st.name = "statements" := by rw [h.name, name_statements]
  refine ⟨h.wf (by rw [hn, h.sg, sigs_statements]; exact shapeOk_container (by decide) (by simpa using ho)), hn, ?_⟩
  rw [h.tok, instanceOf_tok]

theorem exprListW {f : Nat} (ih : SpecsW ts f) (stop : List Nat) (acc : Node) (p : P) (hc : Cur ts p) (hacc : KW acc) :
    Sat (exprList (f+1) stop acc) p (fun r p' => Cur ts p' ∧ ∃ e, Ext acc r e ∧ opOk e = true) ET := by
  rw [exprList]
  wpr (isNotEndAndNotTokens_spec _ hc)
  rintro b _ rfl
  split
  · wpr (ih.run _ _ hc)
    intro e p1 ⟨hc1, hr1⟩
    wpr (skipComma_spec hc1)
    intro _ p2 ⟨hc2, _⟩
    wlast (ih.exprList _ _ _ hc2 (hacc.add hr1.2.1))
    intro r p3 ⟨hc3, e', he, ho⟩
    obtain ⟨t1, ht1⟩ := hr1.1
    exact ⟨hc3, _, he.of_add, by rw [opOk_cons, opOk_sg ht1, ho]; rfl⟩
  · exact Sat.pure ⟨hc, [], Ext.refl hacc, rfl⟩

theorem sinkAttrsW {f : Nat} (ih : SpecsW ts f) (acc : Node) (p : P) (hc : Cur ts p) (hacc : KW acc) :
    Sat (sinkAttrs (f+1) acc) p (fun r p' => Cur ts p' ∧ ∃ e, Ext acc r e ∧ opOk e = true) ET := by
  rw [sinkAttrs]
  wpr (isNotEndAndNotTokens_spec _ hc)
  rintro b _ rfl
  split
  · wpr (ih.run _ _ hc)
    intro e p1 ⟨hc1, hr1⟩
    wpr (skipComma_spec hc1)
    intro _ p2 ⟨hc2, _⟩
    wlast (ih.sinkAttrs _ _ hc2 (hacc.add hr1.2.1))
    intro r p3 ⟨hc3, e', he, ho⟩
    obtain ⟨t1, ht1⟩ := hr1.1
    exact ⟨hc3, _, he.of_add, by rw [opOk_cons, opOk_sg ht1, ho]; rfl⟩
  · exact Sat.pure ⟨hc, [], Ext.refl hacc, rfl⟩

theorem Ext.of_add_op {acc c r : Node} {e : List SigS} {t : Tok} (h : Ext (acc.add (some c)) r e)
    (ho : opOk e = true) (ht : c.tok = some t) : ∃ e', Ext acc r e' ∧ opOk e' = true :=
  ⟨_, h.of_add, by rw [opOk_cons, opOk_sg ht, ho]; rfl⟩

/-- an accepted string or identifier token is a complete node -/
theorem accept_wf {c : Node} {id : Nat} (h : Fresh c) (hid : ∃ t, c.tok = some t ∧ t.id = id)
    (ha : id = 5 ∨ id = 7) :
    WellFormedS c = true ∧ c.name = (if id = 5 then "string" else "identifier") ∧ c.tok.isSome = true := by
  obtain ⟨t, ht, hidt⟩ := hid
  subst hidt
  have hne : t.id ≠ 26 := by omega
  rcases ha with ha | ha
  · have hn := h.name_of_id ht hne (by rw [ha]; rfl)
    refine ⟨(wf_iff c).2 ⟨freshKW h, ?_⟩, by simp [ha, hn], by simp [ht]⟩
    rw [freshSigs h, hn]; decide
  · have hn := h.name_of_id ht hne (by rw [ha]; rfl)
    refine ⟨(wf_iff c).2 ⟨freshKW h, ?_⟩, by simp [ha, hn], by simp [ht]⟩
    rw [freshSigs h, hn]; decide

theorem exceptTypesW {f : Nat} (ih : SpecsW ts f) (acc : Node) (p : P) (hc : Cur ts p) (hacc : KW acc) :
    Sat (exceptTypes (f+1) acc) p (fun r p' => Cur ts p' ∧ ∃ e, Ext acc r e ∧ e.all strSig = true) ET := by
  rw [exceptTypes]
  wpr (isNotEndAndNotTokens_spec _ hc)
  rintro b _ rfl
  split
  · wpr (acceptChild_spec _ hc)
    intro s p1 ⟨hc1, _, hf1, hid1⟩
    wpr (skipComma_spec hc1)
    intro _ p2 ⟨hc2, _⟩
    obtain ⟨hw1, hn1, htk1⟩ := accept_wf hf1 hid1 (Or.inl rfl)
    wlast (ih.exceptTypes _ _ hc2 (hacc.add hw1))
    intro r p3 ⟨hc3, e', he, hall⟩
    refine ⟨hc3, _, he.of_add, ?_⟩
    simp [T_STRING] at hn1
    simp [strSig, sgOf, hn1, htk1] at hall ⊢
    exact hall
  · exact Sat.pure ⟨hc, [], Ext.refl hacc, rfl⟩

theorem moreStatementsW {f : Nat} (ih : SpecsW ts f) (acc n : Node) (p : P) (hc : Cur ts p)
    (hn : ∃ t, n.tok = some t) (hacc : KW acc) :
    Sat (moreStatements (f+1) acc n) p (fun r p' => Cur ts p' ∧ ∃ e, Ext acc r e ∧ opOk e = true) ET := by
  rw [moreStatements]
  obtain ⟨nt, hnt⟩ := hn
  wpr (hasMoreStatements_spec hnt hc)
  rintro b _ rfl
  split
  · wpr (curId_spec hc)
    rintro id _ ⟨rfl, _⟩
    split
    · wpr (skipToken_spec _ hc)
      intro _ p1 ⟨hc1, _⟩
      wpr (ih.run _ _ hc1)
      intro e p2 ⟨hc2, hr2⟩
      wlast (ih.moreStatements _ _ _ hc2 hr2.1 (hacc.add hr2.2.1))
      intro r p3 ⟨hc3, e', he, ho⟩
      obtain ⟨t2, ht2⟩ := hr2.1
      exact ⟨hc3, he.of_add_op ho ht2⟩
    · split
      · exact Sat.pure ⟨hc, [], Ext.refl hacc, rfl⟩
      · wpr (ih.run _ _ hc)
        intro e p2 ⟨hc2, hr2⟩
        wlast (ih.moreStatements _ _ _ hc2 hr2.1 (hacc.add hr2.2.1))
        intro r p3 ⟨hc3, e', he, ho⟩
        obtain ⟨t2, ht2⟩ := hr2.1
        exact ⟨hc3, he.of_add_op ho ht2⟩
  · exact Sat.pure ⟨hc, [], Ext.refl hacc, rfl⟩

theorem topLoopW {f : Nat} (ih : SpecsW ts f) (acc n : Node) (p : P) (hc : Cur ts p)
    (hn : ∃ t, n.tok = some t) (hacc : KW acc) :
    Sat (topLoop (f+1) acc n) p (fun r p' => Cur ts p' ∧ ∃ e, Ext acc r e ∧ opOk e = true) ET := by
  rw [topLoop]
  obtain ⟨nt, hnt⟩ := hn
  wpr (hasMoreStatements_spec hnt hc)
  rintro b _ rfl
  split
  · wpr (skipOpt_spec _ hc)
    intro _ p1 ⟨hc1, _⟩
    wpr (ih.run _ _ hc1)
    intro e p2 ⟨hc2, hr2⟩
    wlast (ih.topLoop _ _ _ hc2 hr2.1 (hacc.add hr2.2.1))
    intro r p3 ⟨hc3, e', he, ho⟩
    obtain ⟨t2, ht2⟩ := hr2.1
    exact ⟨hc3, he.of_add_op ho ht2⟩
  · exact Sat.pure ⟨hc, [], Ext.refl hacc, rfl⟩

theorem innerStatementsW {f : Nat} (ih : SpecsW ts f) (acc : Node) (p : P) (hc : Cur ts p) (hacc : KW acc) :
    Sat (innerStatements (f+1) acc) p (fun r p' => Cur ts p' ∧ ∃ k, Ext acc r [("statements", k, false)]) ET := by
  rw [innerStatements]
  wpr (skipToken_spec _ hc)
  intro _ p1 ⟨hc1, _⟩
  smk
  wpr (curIsNot_spec _ hc1)
  rintro nr _ rfl
  apply Sat.bind (Q1 := fun st q => Cur ts q ∧ ∃ e, Ext (instanceOf p1.braceBlock T_STATEMENTS none) st e ∧ opOk e = true)
    (E1 := ET) ?_ (fun _ he => he)
  · intro st p2 ⟨hc2, e, hst, ho⟩
    wpr (skipToken_spec _ hc2)
    intro _ p3 ⟨hc3, _⟩
    obtain ⟨hwf, hname, htok⟩ := wf_statements hst ho
    exact Sat.pure ⟨hc3, st.children.length, by simpa [sgOf, hname, htok] using Ext.add1 hacc hwf⟩
  · split
    · wpr (ih.run _ _ hc1)
      intro e p2 ⟨hc2, hr2⟩
      wpr (curIsNot_spec _ hc2)
      rintro pr _ rfl
      split
      · wlast (ih.moreStatements _ _ _ hc2 hr2.1 ((kw_statements _).add hr2.2.1))
        intro r p3 ⟨hc3, e', he, ho⟩
        obtain ⟨t2, ht2⟩ := hr2.1
        exact ⟨hc3, he.of_add_op ho ht2⟩
      · exact Sat.pure ⟨hc2, [], Ext.refl (kw_statements _), rfl⟩
    · exact Sat.pure ⟨hc1, [], Ext.refl (kw_statements _), rfl⟩


theorem sg_mk_add (nm : String) (t : Option Tok) (b x l ms) (c : Node) :
    sgOf ((Node.mk nm t b x l [] ms).add (some c)) = (nm, 1, t.isSome) := by
  simp [sgOf, Node.add, Node.name, Node.children, Node.tok]

/-- `guard(c)`: constructed node with exactly one well-formed child which carries a token -/
theorem wf_guard1 (bb : Nat) {c : Node} {t : Tok} (hc : WellFormedS c = true) (ht : c.tok = some t) :
    WellFormedS ((instanceOf bb T_GUARD none).add (some c)) = true ∧
    sgOf ((instanceOf bb T_GUARD none).add (some c)) = ("guard", 1, false) := by
  rw [inst_guard]
  refine ⟨(wf_iff _).2 ⟨(KW.mk0 _ _ _ _ _ _).add hc, ?_⟩, sg_mk_add _ _ _ _ _ _ _⟩
  simp only [Node.add_name, sigs_add]
  simp [shapeOkS, show kindOf "guard" = .one by decide, sigs, Node.name, Node.children, sgOf, ht]

/-- `guard(true)` of an `else`: the only place of a token-less `true` -/
theorem wf_guard_true (bb bb' : Nat) :
    WellFormedS ((instanceOf bb T_GUARD none).add (some (instanceOf bb' T_TRUE none))) = true ∧
    sgOf ((instanceOf bb T_GUARD none).add (some (instanceOf bb' T_TRUE none))) = ("guard", 1, false) := by
  rw [inst_guard, inst_true]
  exact ⟨by decide, sg_mk_add _ _ _ _ _ _ _⟩

theorem wf_compaccess1 (bb : Nat) {c : Node} {t : Tok} (hc : WellFormedS c = true) (ht : c.tok = some t) :
    WellFormedS ((instanceOf bb T_COMPACCESS none).add (some c)) = true ∧
    sgOf ((instanceOf bb T_COMPACCESS none).add (some c)) = ("compaccess", 1, false) := by
  rw [inst_compaccess]
  refine ⟨(wf_iff _).2 ⟨(KW.mk0 _ _ _ _ _ _).add hc, ?_⟩, sg_mk_add _ _ _ _ _ _ _⟩
  simp only [Node.add_name, sigs_add]
  simp [shapeOkS, show kindOf "compaccess" = .one by decide, sigs, Node.name, Node.children, sgOf, ht, opOk]

theorem braced_runW {f : Nat} (ih : SpecsW ts f) (p : P) (hc : Cur ts p) :
    Sat (withBraceBlock (run f 0)) p (fun a p' => Cur ts p' ∧ p'.toks.length < p'.toks.length + 1 ∧ ResW a) ET := by
  unfold withBraceBlock
  apply Sat.bind (Sat.modifyP (Q := fun _ q => Cur ts q) hc) (fun _ h => h)
  intro _ q hq
  apply Sat.bind (E1 := fun _ => False) (Q1 := fun r q' => match r with
      | .ok a => Cur ts q' ∧ ResW a
      | .error _ => True) _ (fun _ h => h.elim)
  · rintro r q' hr
    apply Sat.bind (Sat.modifyP (Q := fun _ q'' => match r with
      | .ok a => Cur ts q'' ∧ ResW a
      | .error _ => True) (by cases r <;> exact hr)) (fun _ h => h)
    rintro _ q'' hr'
    cases r with
    | ok a => exact Sat.pure ⟨hr'.1, by omega, hr'.2⟩
    | error e => exact Sat.throw trivial
  · exact Sat.attempt (E' := ET) (ih.run 0 q hq) (fun e _ _ => trivial)

theorem guardAndStatementsW {f : Nat} (ih : SpecsW ts f) (acc : Node) (p : P) (hc : Cur ts p) (hacc : KW acc) :
    Sat (guardAndStatements (f+1) acc) p
      (fun r p' => Cur ts p' ∧ ∃ k, Ext acc r [("guard", 1, false), ("statements", k, false)]) ET := by
  rw [guardAndStatements]
  wpr (braced_runW ih p hc)
  intro e p1 ⟨hc1, _, hr1⟩
  smk
  obtain ⟨et, het⟩ := hr1.1
  obtain ⟨hwf, hsg⟩ := wf_guard1 p1.braceBlock hr1.2.1 het
  wlast (ih.innerStatements _ _ hc1 (hacc.add hwf))
  intro r p3 ⟨hc3, k, he⟩
  have h4 := he.of_add
  rw [hsg] at h4
  exact ⟨hc3, k, h4⟩

theorem elifsW {f : Nat} (ih : SpecsW ts f) (acc : Node) (p : P) (hc : Cur ts p) (hacc : KW acc) :
    Sat (elifs (f+1) acc) p (fun r p' => Cur ts p' ∧ ∃ e, Ext acc r e ∧ ifShapeS e = true) ET := by
  rw [elifs]
  wpr (isNotEndAndToken_spec _ hc)
  rintro b _ rfl
  split
  · wpr (skipToken_spec _ hc)
    intro _ p1 ⟨hc1, _⟩
    wpr (ih.guardAndStatements _ _ hc1 hacc)
    intro s p2 ⟨hc2, k, hs2⟩
    wlast (ih.elifs _ _ hc2 hs2.kw)
    intro r p3 ⟨hc3, e, he, hsh⟩
    exact ⟨hc3, _, hs2.trans he, by simp [ifShapeS, hsh]⟩
  · exact Sat.pure ⟨hc, [], Ext.refl hacc, rfl⟩

theorem shapeOk_infix {nm : String} {a b : SigS} (h : kindOf nm = .binary ∨ kindOf nm = .plusminus)
    (ha : a.2.2 = true) (hb : b.2.2 = true) : shapeOkS nm [a, b] = true := by
  rcases h with h | h <;> simp [shapeOkS, h, opOk, ha, hb]

theorem compat_infix {k : Kind} {x : Nud} (h : kindCompat k x .infix = true) : k = .binary ∨ k = .plusminus := by
  cases k <;> cases x <;> simp_all [kindCompat]

theorem loopLedW {f : Nat} (ih : SpecsW ts f) (rbp : Nat) (left : Node) (p : P) (hc : Cur ts p) (hl : ResW left) :
    Sat (loopLed (f+1) rbp left) p (fun r p' => Cur ts p' ∧ ResW r) ET := by
  rw [loopLed]
  wpr (cur_spec hc)
  rintro nx _ ⟨rfl, hnx, hfx, _⟩
  split
  · split
    · obtain ⟨lt, hlt⟩ := hl.1
      wpr (tokOf_spec (ts := ts) _ hlt)
      rintro _ _ ⟨rfl, rfl⟩
      obtain ⟨nt, hnt⟩ := hfx.tok
      wpr (tokOf_spec (ts := ts) _ hnt)
      rintro _ _ ⟨rfl, rfl⟩
      split
      · exact Sat.pure ⟨hc, hl⟩
      · exact Sat.throw trivial
    · next hled =>
      wpr (advance_spec _ (Cur.toks (by assumption)))
      intro post p1 ⟨hc1, _⟩
      wpr (ih.run _ _ hc1)
      intro right p2 ⟨hc2, hr2⟩
      have hfx' := hfx.addMeta post
      have hres : ResW (((nx.addMeta post).add (some left)).add (some right)) := by
        obtain ⟨t, ht⟩ := hfx'.tok
        refine ⟨⟨t, by simp [ht]⟩, (wf_iff _).2 ⟨((freshKW hfx').add hl.2.1).add hr2.2.1, ?_⟩, ?_⟩
        · have hk : kindOf nx.name = .binary ∨ kindOf nx.name = .plusminus := by
            rcases hfx.compat with h | h
            · cases hl' : nx.led
              · exact absurd hl' hled
              · rw [hl'] at h; exact compat_infix h
            · exact absurd h.2 hled
          simp only [Node.add_name, Node.addMeta_name, sigs_add, sigs_addMeta, (freshSigs hfx), List.nil_append,
            List.cons_append]
          obtain ⟨lt, hlt⟩ := hl.1
          obtain ⟨rt, hrt⟩ := hr2.1
          exact shapeOk_infix hk (opOk_sg hlt) (opOk_sg hrt)
        · exact hfx'.inOk.of_eq (by simp) (by simp)
      wlast (ih.loopLed _ _ _ hc2 hres)
      intro r p3 h3
      exact h3
  · exact Sat.pure ⟨hc, hl⟩

theorem runW {f : Nat} (ih : SpecsW ts f) (rbp : Nat) (p : P) (hc : Cur ts p) :
    Sat (run (f+1) rbp) p (fun r p' => Cur ts p' ∧ ResW r) ET := by
  rw [run]
  sget
  wpr (advance_spec _ (Cur.toks (by assumption)))
  intro post p1 ⟨hc1, _⟩
  obtain ⟨hi, n, hn⟩ := hc
  simp only [hn]
  have hf := (hi.fresh n hn).addMeta post
  split
  · obtain ⟨t, ht⟩ := hf.tok
    wpr (tokOf_spec (ts := ts) _ ht)
    rintro _ _ ⟨rfl, rfl⟩
    exact Sat.throw trivial
  · next hnud =>
    wpr (ih.nudOf _ _ hc1 hf hnud)
    intro left p2 ⟨hc2, hr2⟩
    wlast (ih.loopLed _ _ _ hc2 hr2)
    intro r p3 h3
    exact h3


theorem Ext.wf_container {acc r : Node} {e : List SigS} (h : Ext acc r e) (hk : kindOf acc.name = .container)
    (hs : sigs acc = []) (ho : opOk e = true) :
    WellFormedS r = true := h.wf (by rw [h.name, h.sg, hs]; exact shapeOk_container hk (by simpa using ho))

theorem sigs_inst (bb id t) : sigs (instanceOf bb id t) = [] := by simp [sigs, instanceOf_children]

theorem kw_funccall (bb) : KW (instanceOf bb T_FUNCCALL none) := by
  rw [inst_funccall]; exact KW.mk0 _ _ _ _ _ _
theorem name_funccall (bb t) : (instanceOf bb T_FUNCCALL t).name = "funccall" := by rw [inst_funccall]; rfl
theorem kw_params (bb) : KW (instanceOf bb T_PARAMS none) := by
  rw [inst_params]; exact KW.mk0 _ _ _ _ _ _
theorem name_params (bb t) : (instanceOf bb T_PARAMS t).name = "params" := by rw [inst_params]; rfl
theorem name_list (bb t) : (instanceOf bb T_LIST t).name = "list" := by rw [inst_list]; rfl
theorem name_map (bb t) : (instanceOf bb T_MAP t).name = "map" := by rw [inst_map]; rfl

theorem shapeOk_identifier {nm : String} {cs : List SigS} (h : kindOf nm = .identifier) :
    shapeOkS nm cs = cs.all identSig := by
  simp only [shapeOkS, h]; rfl

theorem exceptShape_strs : ∀ (strs tail : List SigS), strs.all strSig = true → tail ≠ [] →
    exceptShape tail = true → exceptShape (strs ++ tail) = true
  | [], tail, _, _, h => by simpa using h
  | [s], tail, hs, hne, h => by
    simp [strSig] at hs
    match tail, hne, h with
    | [b], _, h => simp [exceptShape] at h ⊢; simp [hs, h]
    | b :: c :: r, _, h => rw [List.singleton_append, exceptShape]; simp [hs]; exact h
  | s :: s2 :: rest, tail, hs, hne, h => by
    simp only [List.all_cons, Bool.and_eq_true] at hs
    have ih := exceptShape_strs (s2 :: rest) tail (by simp [hs.2.1, hs.2.2]) hne h
    have h1 := hs.1
    simp [strSig] at h1
    have hne' : (rest ++ tail).isEmpty = false := by
      cases rest <;> cases tail <;> simp_all
    simp only [List.cons_append] at ih ⊢
    simp only [exceptShape, hne']
    simp [h1]
    exact ih

/-- what follows the error types of an except clause: nothing, `as(identifier)`, or an identifier -/
def MidOk (mid : List SigS) : Prop := mid = [] ∨ ∃ n, mid = [("as", n, true)] ∨ mid = [("identifier", n, true)]

theorem shapeOk_except {nm : String} {strs mid : List SigS} {k : Nat} (h : kindOf nm = .except)
    (hs : strs.all strSig = true) (hm : MidOk mid) :
    shapeOkS nm (strs ++ (mid ++ [("statements", k, false)])) = true := by
  simp only [shapeOkS, h]
  apply exceptShape_strs _ _ hs (by simp)
  rcases hm with rfl | ⟨n, rfl | rfl⟩ <;> simp [exceptShape]

/-- name of an accepted token -/
theorem accept_name {c : Node} {id : Nat} {nm : String} {b x l} (h : Fresh c) (hid : ∃ t, c.tok = some t ∧ t.id = id)
    (hne : id ≠ 26) (htab : table id = some (nm, b, x, l)) : c.name = nm := by
  obtain ⟨t, ht, hidt⟩ := hid
  subst hidt
  exact h.name_of_id ht hne htab

theorem exceptsW {f : Nat} (ih : SpecsW ts f) (acc : Node) (p : P) (hc : Cur ts p) (hacc : KW acc) :
    Sat (excepts (f+1) acc) p (fun r p' => Cur ts p' ∧ ∃ e, Ext acc r e ∧ e.all exceptSig = true) ET := by
  rw [excepts]
  wpr (isNotEndAndToken_spec _ hc)
  rintro b _ rfl
  split
  · wpr (acceptChild_spec _ hc)
    intro ex p1 ⟨hc1, _, hf1, hid1⟩
    have hexn : ex.name = "except" := accept_name hf1 hid1 (by decide) (by rfl)
    wpr (ih.exceptTypes _ _ hc1 (freshKW hf1))
    intro ex2 p2 ⟨hc2, e2, hs2, hstr2⟩
    wpr (curId_spec hc2)
    rintro id _ ⟨rfl, _⟩
    apply Sat.bind (Q1 := fun ex3 q => Cur ts q ∧ ∃ mid, Ext ex2 ex3 mid ∧ MidOk mid) (E1 := ET) ?_ (fun _ he => he)
    · intro ex3 p3 ⟨hc3, mid, hs3, hmid⟩
      wpr (ih.innerStatements _ _ hc3 hs3.kw)
      intro ex4 p4 ⟨hc4, k, hs4⟩
      have h4 := hs2.trans (hs3.trans hs4)
      have hn4 : ex4.name = "except" := h4.name.trans hexn
      have hwf4 : WellFormedS ex4 = true := h4.wf (by
        rw [h4.sg, (freshSigs hf1), hn4, List.nil_append]; exact shapeOk_except (by decide) hstr2 hmid)
      obtain ⟨t1, ht1, _⟩ := hid1
      have htk4 : ex4.tok.isSome = true := by rw [h4.tok, ht1]; rfl
      wlast (ih.excepts _ _ hc4 (hacc.add hwf4))
      intro r p5 ⟨hc5, e5, he5, hall⟩
      refine ⟨hc5, _, he5.of_add, ?_⟩
      simp only [List.all_cons, hall, Bool.and_true]
      simp [exceptSig, sgOf, hn4, htk4]
    · split
      · wpr (acceptChild_spec _ hc2)
        intro a p3 ⟨hc3, _, hf3, hid3⟩
        wpr (acceptChild_spec _ hc3)
        intro i p4 ⟨hc4, _, hf4, hid4⟩
        have han : a.name = "as" := accept_name hf3 hid3 (by decide) (by rfl)
        obtain ⟨hwi, hni, htki⟩ := accept_wf hf4 hid4 (Or.inr rfl)
        simp [T_IDENTIFIER] at hni
        have hwa : WellFormedS (a.add (some i)) = true := (wf_iff _).2
          ⟨(freshKW hf3).add hwi, by
            simp only [Node.add_name, sigs_add, (freshSigs hf3), List.nil_append, han]
            simp [shapeOkS, show kindOf "as" = .one by decide, sgOf, hni, htki, opOk]⟩
        obtain ⟨ta, hta, _⟩ := hid3
        have hsga : sgOf (a.add (some i)) = ("as", 1, true) := by
          simp [sgOf, han, hta, (hf3.children)]
        exact Sat.pure ⟨hc4, _, Ext.add1 hs2.kw hwa, Or.inr ⟨1, Or.inl (by rw [hsga])⟩⟩
      · split
        · wpr (acceptChild_spec _ hc2)
          intro i p3 ⟨hc3, _, hf3, hid3⟩
          obtain ⟨hwi, hni, htki⟩ := accept_wf hf3 hid3 (Or.inr rfl)
          simp [T_IDENTIFIER] at hni
          have hsgi : sgOf i = ("identifier", i.children.length, true) := by simp [sgOf, hni, htki]
          exact Sat.pure ⟨hc3, _, Ext.add1 hs2.kw hwi, Or.inr ⟨_, Or.inr (by rw [hsgi])⟩⟩
        · exact Sat.pure ⟨hc2, _, Ext.refl hs2.kw, Or.inl rfl⟩
  · exact Sat.pure ⟨hc, [], Ext.refl hacc, rfl⟩

theorem parseMoreW {f : Nat} (ih : SpecsW ts f) (self acc : Node) (p : P) (hc : Cur ts p)
    (hself : ∃ t, self.tok = some t) (hacc : KW acc) :
    Sat (parseMore (f+1) self acc) p (fun r p' => Cur ts p' ∧ ∃ e, Ext acc r e ∧ e.all identSig = true) ET := by
  rw [parseMore]
  wpr (curId_spec hc)
  rintro id _ ⟨rfl, _⟩
  split
  · wpr (skipToken_spec _ hc)
    intro _ p1 ⟨hc1, _⟩
    wpr (acceptChild_spec _ hc1)
    intro nx p2 ⟨hc2, _, hf2, hid2⟩
    have hnn : nx.name = "identifier" := accept_name hf2 hid2 (by decide) (by rfl)
    wpr (ih.parseMore _ _ _ hc2 hself (freshKW hf2))
    intro nx' p3 ⟨hc3, e, hs3, hall⟩
    have hn' : nx'.name = "identifier" := hs3.name.trans hnn
    have hwf : WellFormedS nx' = true := hs3.wf (by
      rw [hs3.sg, (freshSigs hf2), hn', shapeOk_identifier (by decide)]; simpa using hall)
    obtain ⟨t2, ht2, _⟩ := hid2
    have htk : nx'.tok.isSome = true := by rw [hs3.tok, ht2]; rfl
    refine Sat.pure ⟨hc3, _, Ext.add1 hacc hwf, ?_⟩
    simp [identSig, sgOf, hn', htk]
  · split
    · wpr (skipToken_spec _ hc)
      intro _ p1 ⟨hc1, _⟩
      smk
      wpr (ih.exprList _ _ _ hc1 (kw_funccall _))
      intro fc p2 ⟨hc2, e2, hs2, ho2⟩
      wpr (skipToken_spec _ hc2)
      intro _ p3 ⟨hc3, _⟩
      have hwf : WellFormedS fc = true := hs2.wf_container (by rw [name_funccall]; decide) (sigs_inst _ _ _) ho2
      have hfn : fc.name = "funccall" := hs2.name.trans (name_funccall _ _)
      wlast (ih.parseMore _ _ _ hc3 hself (hacc.add hwf))
      intro r p4 ⟨hc4, e4, hs4, hall⟩
      refine ⟨hc4, _, hs4.of_add, ?_⟩
      simp only [List.all_cons, hall, Bool.and_true]
      simp [identSig, sgOf, hfn]
    · wpr (cur_spec hc)
      rintro cn _ ⟨rfl, hcn, hfc, _⟩
      obtain ⟨ct, hct⟩ := hfc.tok
      wpr (tokOf_spec (ts := ts) _ hct)
      rintro _ _ ⟨rfl, rfl⟩
      have hself' := hself
      obtain ⟨st, hst⟩ := hself
      wpr (tokOf_spec (ts := ts) _ hst)
      rintro _ _ ⟨rfl, rfl⟩
      split
      · wpr (skipToken_spec _ hc)
        intro _ p1 ⟨hc1, _⟩
        smk
        wpr (ih.run _ _ hc1)
        intro e p2 ⟨hc2, hr2⟩
        wpr (skipToken_spec _ hc2)
        intro _ p3 ⟨hc3, _⟩
        obtain ⟨et, het⟩ := hr2.1
        obtain ⟨hwf, hsg⟩ := wf_compaccess1 p1.braceBlock hr2.2.1 het
        wlast (ih.parseMore _ _ _ hc3 hself' (hacc.add hwf))
        intro r p4 ⟨hc4, e4, hs4, hall⟩
        have h5 := hs4.of_add
        rw [hsg] at h5
        refine ⟨hc4, _, h5, ?_⟩
        simp only [List.all_cons, hall, Bool.and_true]
        simp [identSig]
      · exact Sat.pure ⟨hc, [], Ext.refl hacc, rfl⟩


theorem compat_term {k : Kind} {l : Led} (h : kindCompat k .term l = true) : k = .terminal := by
  cases k <;> cases l <;> simp_all [kindCompat]
theorem compat_prefix {k : Kind} {l : Led} (h : kindCompat k .prefix l = true) : k = .plusminus ∨ k = .prefix1 := by
  cases k <;> cases l <;> simp_all [kindCompat]
theorem compat_import {k : Kind} {l : Led} (h : kindCompat k .import_ l = true) : k = .import_ := by
  cases k <;> cases l <;> simp_all [kindCompat]
theorem compat_sink {k : Kind} {l : Led} (h : kindCompat k .sink l = true) : k = .sink := by
  cases k <;> cases l <;> simp_all [kindCompat]
theorem compat_func {k : Kind} {l : Led} (h : kindCompat k .func l = true) : k = .function := by
  cases k <;> cases l <;> simp_all [kindCompat]
theorem compat_return {k : Kind} {l : Led} (h : kindCompat k .return_ l = true) : k = .return_ := by
  cases k <;> cases l <;> simp_all [kindCompat]
theorem compat_identifier {k : Kind} {l : Led} (h : kindCompat k .identifier l = true) : k = .identifier := by
  cases k <;> cases l <;> simp_all [kindCompat]
theorem compat_guard {k : Kind} {l : Led} (h : kindCompat k .guard l = true) : k = .if_ := by
  cases k <;> cases l <;> simp_all [kindCompat]
theorem compat_loop {k : Kind} {l : Led} (h : kindCompat k .loop l = true) : k = .loop := by
  cases k <;> cases l <;> simp_all [kindCompat]
theorem compat_try {k : Kind} {l : Led} (h : kindCompat k .try_ l = true) : k = .try_ := by
  cases k <;> cases l <;> simp_all [kindCompat]
theorem compat_mutex {k : Kind} {l : Led} (h : kindCompat k .mutex l = true) : k = .mutex := by
  cases k <;> cases l <;> simp_all [kindCompat]
theorem compat_block {k : Kind} {l : Led} (h : kindCompat k .block l = true) : False := by
  cases k <;> cases l <;> simp_all [kindCompat]

def tryRestSig (c : SigS) : Bool := (c.1 = "except" || c.1 = "otherwise" || c.1 = "finally") && c.2.2

theorem all_except_tryRest {e : List SigS} (h : e.all exceptSig = true) : e.all tryRestSig = true := by
  simp only [List.all_eq_true] at h ⊢
  intro x hx
  have := h x hx
  simp [exceptSig] at this
  simp [tryRestSig, this.1, this.2]

theorem shapeOk_try {nm : String} {k : Nat} {r : List SigS} (h : kindOf nm = .try_) :
    shapeOkS nm (("statements", k, false) :: r) = r.all tryRestSig := by
  simp only [shapeOkS, h]; simp; rfl

theorem wf_in_len {n : Node} (h : WellFormedS n = true) (hn : n.name = "in") : n.children.length = 2 := by
  have := ((wf_iff n).1 h).2
  rw [hn] at this
  simp [shapeOkS, show kindOf "in" = .binary by decide, sigs] at this
  exact this.1

/-- a finished `otherwise { … }` / `finally { … }` clause -/
theorem wf_blockOnly {o r : Node} {k : Nat} (hf : Fresh o) (hk : kindOf o.name = .blockOnly)
    (h : Ext o r [("statements", k, false)]) : WellFormedS r = true := by
  refine h.wf ?_
  rw [h.sg, (freshSigs hf), h.name]
  simp [shapeOkS, hk]

/-- a node built on the fresh node `self` -/
theorem resW_of_ext {self r : Node} {e : List SigS} (hf : Fresh self) (h : Ext self r e)
    (hs : shapeOkS self.name e = true) : ResW r := by
  obtain ⟨t, ht⟩ := hf.tok
  refine ⟨⟨t, h.tok.trans ht⟩, h.wf ?_, hf.inOk.of_eq h.tok h.name⟩
  rw [h.sg, (freshSigs hf), h.name]; simpa using hs


theorem nudOfW {f : Nat} (ih : SpecsW ts f) (self : Node) (p : P) (hc : Cur ts p) (hf : Fresh self)
    (hnud : self.nud ≠ .none) :
    Sat (nudOf (f+1) self) p (fun r p' => Cur ts p' ∧ ResW r) ET := by
  rw [nudOf]
  obtain ⟨stok, hstok⟩ := hf.tok
  have hcompat : kindCompat (kindOf self.name) self.nud self.led = true := by
    rcases hf.compat with h | h
    · exact h
    · exact absurd h.1 hnud
  split
  · next h => exact absurd h hnud
  · -- term
    next hx =>
    rw [hx] at hcompat
    have hk := compat_term hcompat
    exact Sat.pure ⟨hc, resW_of_ext hf (Ext.refl (freshKW hf)) (by simp [shapeOkS, hk])⟩
  · -- inner
    wpr (ih.run _ _ hc)
    intro e p1 ⟨hc1, hr1⟩
    wpr (skipToken_spec _ hc1)
    intro _ p2 ⟨hc2, _⟩
    exact Sat.pure ⟨hc2, hr1⟩
  · -- prefix
    next hx =>
    rw [hx] at hcompat
    have hk := compat_prefix hcompat
    wpr (ih.run _ _ hc)
    intro e p1 ⟨hc1, hr1⟩
    obtain ⟨t1, ht1⟩ := hr1.1
    exact Sat.pure ⟨hc1, resW_of_ext hf (Ext.add1 (freshKW hf) hr1.2.1)
      (by rcases hk with hk | hk <;> simp [shapeOkS, hk, opOk, sgOf, ht1])⟩
  · -- import
    next hx =>
    rw [hx] at hcompat
    have hk := compat_import hcompat
    wpr (acceptChild_spec _ hc)
    intro s p1 ⟨hc1, _, hf1, hid1⟩
    wpr (skipToken_spec _ hc1)
    intro _ p2 ⟨hc2, _⟩
    wpr (acceptChild_spec _ hc2)
    intro i p3 ⟨hc3, _, hf3, hid3⟩
    obtain ⟨hw1, hn1, htk1⟩ := accept_wf hf1 hid1 (Or.inl rfl)
    obtain ⟨hw3, hn3, htk3⟩ := accept_wf hf3 hid3 (Or.inr rfl)
    have hx1 := Ext.add1 (freshKW hf) hw1
    have hx3 := hx1.trans (Ext.add1 hx1.kw hw3)
    exact Sat.pure ⟨hc3, resW_of_ext hf hx3 (by
      simp [T_STRING, T_IDENTIFIER] at hn1 hn3
      simp [shapeOkS, hk, sgOf, opOk, hn1, hn3, htk1, htk3])⟩
  · -- sink
    next hx =>
    rw [hx] at hcompat
    have hk := compat_sink hcompat
    wpr (acceptChild_spec _ hc)
    intro nm p1 ⟨hc1, _, hf1, hid1⟩
    obtain ⟨hw1, hn1, htk1⟩ := accept_wf hf1 hid1 (Or.inr rfl)
    have hx1 := Ext.add1 (freshKW hf) hw1
    wpr (ih.sinkAttrs _ _ hc1 hx1.kw)
    intro s2 p2 ⟨hc2, e2, hs2, ho2⟩
    wlast (ih.innerStatements _ _ hc2 hs2.kw)
    intro r p3 ⟨hc3, k, hs3⟩
    refine ⟨hc3, resW_of_ext hf ((hx1.trans hs2).trans hs3) ?_⟩
    simp [T_IDENTIFIER] at hn1
    simp only [shapeOkS, hk, List.singleton_append, List.cons_append, sgOf, hn1, htk1]
    simp [List.getLast?_append, List.dropLast_concat, ho2]
  · -- func
    next hx =>
    rw [hx] at hcompat
    have hk := compat_func hcompat
    apply Sat.bind (Q1 := fun s1 q => Cur ts q ∧ ∃ e, Ext self s1 e ∧ (e = [] ∨ ∃ n, e = [("identifier", n, true)]))
      (E1 := ET) ?_ (fun _ he => he)
    · intro s1 p1 ⟨hc1, e1, hs1, he1⟩
      wpr (skipToken_spec _ hc1)
      intro _ p2 ⟨hc2, _⟩
      smk
      wpr (ih.exprList _ _ _ hc2 (kw_params _))
      intro ps p3 ⟨hc3, e3, hs3, ho3⟩
      wpr (skipToken_spec _ hc3)
      intro _ p4 ⟨hc4, _⟩
      have hwp : WellFormedS ps = true := hs3.wf_container (by rw [name_params]; decide) (sigs_inst _ _ _) ho3
      have hpn : ps.name = "params" := hs3.name.trans (name_params _ _)
      wlast (ih.innerStatements _ _ hc4 (hs1.kw.add hwp))
      intro r p5 ⟨hc5, k, hs5⟩
      refine ⟨hc5, resW_of_ext hf (hs1.trans hs5.of_add) ?_⟩
      rcases he1 with rfl | ⟨n, rfl⟩ <;> simp [shapeOkS, hk, sgOf, hpn, opOk]
    · wpr (curId_spec hc)
      rintro id _ ⟨rfl, _⟩
      split
      · wpr (acceptChild_spec _ hc)
        intro i p1 ⟨hc1, _, hf1, hid1⟩
        obtain ⟨hw1, hn1, htk1⟩ := accept_wf hf1 hid1 (Or.inr rfl)
        simp [T_IDENTIFIER] at hn1
        exact Sat.pure ⟨hc1, _, Ext.add1 (freshKW hf) hw1, Or.inr ⟨i.children.length, by simp [sgOf, hn1, htk1]⟩⟩
      · exact Sat.pure ⟨hc, [], Ext.refl (freshKW hf), Or.inl rfl⟩
  · -- return
    next hx =>
    rw [hx] at hcompat
    have hk := compat_return hcompat
    wpr (tokOf_spec (ts := ts) _ hstok)
    rintro _ _ ⟨rfl, rfl⟩
    wpr (cur_spec hc)
    rintro cn _ ⟨rfl, hcn, hfc, _⟩
    obtain ⟨ct, hct⟩ := hfc.tok
    wpr (tokOf_spec (ts := ts) _ hct)
    rintro _ _ ⟨rfl, rfl⟩
    split
    · wpr (ih.run _ _ hc)
      intro e p1 ⟨hc1, hr1⟩
      obtain ⟨t1, ht1⟩ := hr1.1
      exact Sat.pure ⟨hc1, resW_of_ext hf (Ext.add1 (freshKW hf) hr1.2.1) (by simp [shapeOkS, hk, opOk, sgOf, ht1])⟩
    · exact Sat.pure ⟨hc, resW_of_ext hf (Ext.refl (freshKW hf)) (by simp [shapeOkS, hk, opOk])⟩
  · -- identifier
    next hx =>
    rw [hx] at hcompat
    have hk := compat_identifier hcompat
    wlast (ih.parseMore _ _ _ hc ⟨stok, hstok⟩ (freshKW hf))
    intro r p1 ⟨hc1, e, hs1, hall⟩
    exact ⟨hc1, resW_of_ext hf hs1 (by rw [shapeOk_identifier hk]; exact hall)⟩
  · -- list
    next hx =>
    smk
    have hkw : KW (instanceOf p.braceBlock T_LIST self.tok) := by
      rw [inst_list]; exact KW.mk0 _ _ _ _ _ _
    wpr (ih.exprList _ _ _ hc hkw)
    intro st p1 ⟨hc1, e1, hs1, ho1⟩
    wpr (skipToken_spec _ hc1)
    intro _ p2 ⟨hc2, _⟩
    have htok : st.tok = some stok := by rw [hs1.tok, instanceOf_tok]; exact hstok
    refine Sat.pure ⟨hc2, ⟨stok, htok⟩, hs1.wf_container (by rw [name_list]; decide) (sigs_inst _ _ _) ho1, ?_⟩
    intro t' ht' hid
    obtain ⟨t, ht, h | ⟨b, htab⟩⟩ := hf.entry'
    · exact absurd h.1 hnud
    · rw [hx] at htab
      have := table_list_id htab
      rw [ht] at hstok; cases hstok
      rw [htok] at ht'; cases ht'
      omega
  · -- map
    next hx =>
    smk
    have hkw : KW (instanceOf p.braceBlock T_MAP self.tok) := by
      rw [inst_map]; exact KW.mk0 _ _ _ _ _ _
    wpr (ih.exprList _ _ _ hc hkw)
    intro st p1 ⟨hc1, e1, hs1, ho1⟩
    wpr (skipToken_spec _ hc1)
    intro _ p2 ⟨hc2, _⟩
    have htok : st.tok = some stok := by rw [hs1.tok, instanceOf_tok]; exact hstok
    refine Sat.pure ⟨hc2, ⟨stok, htok⟩, hs1.wf_container (by rw [name_map]; decide) (sigs_inst _ _ _) ho1, ?_⟩
    intro t' ht' hid
    obtain ⟨t, ht, h | ⟨b, htab⟩⟩ := hf.entry'
    · exact absurd h.1 hnud
    · rw [hx] at htab
      have := table_map_id htab
      rw [ht] at hstok; cases hstok
      rw [htok] at ht'; cases ht'
      omega
  · -- guard (if)
    next hx =>
    rw [hx] at hcompat
    have hk := compat_guard hcompat
    wpr (ih.guardAndStatements _ _ hc (freshKW hf))
    intro s1 p1 ⟨hc1, k1, hs1⟩
    wpr (ih.elifs _ _ hc1 hs1.kw)
    intro s2 p2 ⟨hc2, e2, hs2, hsh2⟩
    wpr (curId_spec hc2)
    rintro id _ ⟨rfl, _⟩
    split
    · wpr (skipToken_spec _ hc2)
      intro _ p3 ⟨hc3, _⟩
      smk
      smk
      obtain ⟨hwf, hsg⟩ := wf_guard_true p3.braceBlock p3.braceBlock
      wlast (ih.innerStatements _ _ hc3 (hs2.kw.add hwf))
      intro r p4 ⟨hc4, k4, hs4⟩
      have h5 := hs4.of_add
      rw [hsg] at h5
      refine ⟨hc4, resW_of_ext hf ((hs1.trans hs2).trans h5) ?_⟩
      simp [shapeOkS, hk, ifShapeS, ifShapeS_append _ _ hsh2]
    · refine Sat.pure ⟨hc2, resW_of_ext hf (hs1.trans hs2) ?_⟩
      simp [shapeOkS, hk, ifShapeS, hsh2]
  · -- loop
    next hx =>
    rw [hx] at hcompat
    have hk := compat_loop hcompat
    wpr (braced_runW ih p hc)
    intro e p1 ⟨hc1, _, hr1⟩
    obtain ⟨et, het⟩ := hr1.1
    wpr (tokOf_spec (ts := ts) _ het)
    rintro _ _ ⟨rfl, rfl⟩
    apply Sat.bind (Q1 := fun g q => q = p1 ∧ WellFormedS g = true ∧
        (sgOf g = ("guard", 1, false) ∨ sgOf g = ("in", 2, true)))
      (E1 := ET) ?_ (fun _ he => he)
    · rintro g _ ⟨rfl, hwg, hg⟩
      wlast (ih.innerStatements _ _ hc1 ((freshKW hf).add hwg))
      intro r p3 ⟨hc3, k, hs3⟩
      refine ⟨hc3, resW_of_ext hf hs3.of_add ?_⟩
      rcases hg with h1 | h1 <;> (simp only [sgOf, Prod.mk.injEq] at h1; simp [shapeOkS, hk, h1])
    · split
      · smk
        obtain ⟨hwf, hsg⟩ := wf_guard1 p1.braceBlock hr1.2.1 het
        exact Sat.pure ⟨rfl, hwf, Or.inl hsg⟩
      · next hid =>
        have hin : e.name = "in" := hr1.2.2 _ het (by simpa [T_IN] using hid)
        exact Sat.pure ⟨rfl, hr1.2.1, Or.inr (by simp [sgOf, hin, wf_in_len hr1.2.1 hin, het])⟩
  · -- try
    next hx =>
    rw [hx] at hcompat
    have hk := compat_try hcompat
    wpr (ih.innerStatements _ _ hc (freshKW hf))
    intro t1 p1 ⟨hc1, k1, hs1⟩
    wpr (ih.excepts _ _ hc1 hs1.kw)
    intro t2 p2 ⟨hc2, e2, hs2, hall2⟩
    apply Sat.bind (Q1 := fun t3 q => Cur ts q ∧ ∃ e, Ext self t3 (("statements", k1, false) :: e) ∧ e.all tryRestSig = true)
      (E1 := ET) ?_ (fun _ he => he)
    · intro t3 p3 ⟨hc3, e3, hs3, hall3⟩
      wpr (curId_spec hc3)
      rintro id _ ⟨rfl, _⟩
      split
      · wpr (acceptChild_spec _ hc3)
        intro fi p4 ⟨hc4, _, hf4, hid4⟩
        have hfn : fi.name = "finally" := accept_name hf4 hid4 (by decide) (by rfl)
        wpr (ih.innerStatements _ _ hc4 (freshKW hf4))
        intro fi2 p5 ⟨hc5, k5, hs5⟩
        have hwf : WellFormedS fi2 = true := wf_blockOnly hf4 (by rw [hfn]; decide) hs5
        have hn2 : fi2.name = "finally" := hs5.name.trans hfn
        obtain ⟨t4, ht4, _⟩ := hid4
        have htk2 : fi2.tok.isSome = true := by rw [hs5.tok, ht4]; rfl
        refine Sat.pure ⟨hc5, resW_of_ext hf (hs3.trans (Ext.add1 hs3.kw hwf)) ?_⟩
        rw [List.cons_append, shapeOk_try hk]
        simp [List.all_append, hall3, tryRestSig, sgOf, hn2, htk2]
      · refine Sat.pure ⟨hc3, resW_of_ext hf hs3 ?_⟩
        rw [shapeOk_try hk]; exact hall3
    · wpr (curId_spec hc2)
      rintro id _ ⟨rfl, _⟩
      split
      · wpr (acceptChild_spec _ hc2)
        intro o p3 ⟨hc3, _, hf3, hid3⟩
        have hon : o.name = "otherwise" := accept_name hf3 hid3 (by decide) (by rfl)
        wpr (ih.innerStatements _ _ hc3 (freshKW hf3))
        intro o2 p4 ⟨hc4, k4, hs4⟩
        have hwf : WellFormedS o2 = true := wf_blockOnly hf3 (by rw [hon]; decide) hs4
        have hn2 : o2.name = "otherwise" := hs4.name.trans hon
        obtain ⟨t3, ht3, _⟩ := hid3
        have htk2 : o2.tok.isSome = true := by rw [hs4.tok, ht3]; rfl
        refine Sat.pure ⟨hc4, _, (hs1.trans hs2).trans (Ext.add1 hs2.kw hwf), ?_⟩
        simp [List.all_append, all_except_tryRest hall2, tryRestSig, sgOf, hn2, htk2]
      · exact Sat.pure ⟨hc2, _, hs1.trans hs2, all_except_tryRest hall2⟩
  · -- mutex
    next hx =>
    rw [hx] at hcompat
    have hk := compat_mutex hcompat
    wpr (acceptChild_spec _ hc)
    intro i p1 ⟨hc1, _, hf1, hid1⟩
    obtain ⟨hw1, hn1, htk1⟩ := accept_wf hf1 hid1 (Or.inr rfl)
    simp [T_IDENTIFIER] at hn1
    wlast (ih.innerStatements _ _ hc1 ((freshKW hf).add hw1))
    intro r p2 ⟨hc2, k, hs2⟩
    refine ⟨hc2, resW_of_ext hf hs2.of_add ?_⟩
    simp [shapeOkS, hk, sgOf, opOk, hn1, htk1]
  · -- block: a fresh node never has this null denotation
    next hx =>
    rw [hx] at hcompat
    exact (compat_block hcompat).elim

theorem specsW : ∀ f, SpecsW ts f
  | 0 => specsW_zero
  | f+1 =>
    have ih := specsW f
    { run := runW ih, loopLed := loopLedW ih, nudOf := nudOfW ih, exprList := exprListW ih,
      sinkAttrs := sinkAttrsW ih, guardAndStatements := guardAndStatementsW ih, elifs := elifsW ih,
      excepts := exceptsW ih, exceptTypes := exceptTypesW ih, parseMore := parseMoreW ih,
      innerStatements := innerStatementsW ih, moreStatements := moreStatementsW ih, topLoop := topLoopW ih }


/-- ParseWithRuntime's body: a returned tree is well formed (any token list, any fuel) -/
theorem parseBody_wf (fuel : Nat) (toks : List Tok) :
    Sat (parseBody fuel) { toks := toks, node := none } (fun r _ => WellFormedRoot r = true) ET := by
  have ih := specsW (ts := toks) fuel
  unfold parseBody
  wpr (advance_spec (ts := toks) _ (fun t ht => ht))
  intro _ p1 ⟨hc1, _⟩
  wpr (ih.run _ _ hc1)
  intro n p2 ⟨hc2, hr2⟩
  apply Sat.bind (Q1 := fun n' q => Cur toks q ∧ WellFormedRoot n' = true) (E1 := ET) ?_ (fun _ he => he)
  · intro n' p3 ⟨hc3, hn3⟩
    apply Sat.bind (Sat.getP (Q := fun a p' => p3 = a ∧ p3 = p') ⟨rfl, rfl⟩) (fun _ he => he)
    rintro _ _ ⟨rfl, rfl⟩
    obtain ⟨hi, nx, hnx⟩ := hc3
    simp only [hnx]
    obtain ⟨t, ht⟩ := (hi.fresh nx hnx).tok
    wpr (tokOf_spec (ts := toks) _ ht)
    rintro _ _ ⟨rfl, rfl⟩
    split
    · exact Sat.throw trivial
    · exact Sat.pure hn3
  · obtain ⟨nt, hnt⟩ := hr2.1
    wpr (hasMoreStatements_spec hnt hc2)
    rintro b _ rfl
    split
    · smk
      wlast (ih.topLoop _ _ _ hc2 hr2.1 ((kw_statements _).add hr2.2.1))
      intro r p3 ⟨hc3, e, he, ho⟩
      have hw := wf_statements he.of_add (by rw [opOk_cons, opOk_sg hnt, ho]; rfl)
      exact ⟨hc3, by simp [WellFormedRoot, hw.1, hw.2.1]⟩
    · exact Sat.pure ⟨hc2, by simp [WellFormedRoot, hr2.2.1, hnt]⟩


end Ecal.Parse.S
