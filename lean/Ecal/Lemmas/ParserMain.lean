import Ecal.Lemmas.ParserWFLemmas
/-!
The invariant of the whole parser, proved by one induction on the fuel for all mutually recursive
functions at once: no nil dereference, the fuel marker is impossible when the fuel covers
`4·(tokens left) + c`, tokens are consumed, results carry a token and contain no nil child.
-/
namespace Ecal.Parse
open Ecal.Lex
variable {ts : List Tok}

/-- result of an expression parse: has a token; no nil child and only known node names anywhere -/
def ResOk (r : Node) : Prop := (∃ t, r.tok = some t) ∧ okTree r = true
/-- result of a function which only appends children to `acc` -/
def Same (acc r : Node) : Prop := r.tok = acc.tok ∧ okTree r = true

macro "spr " h:term : tactic => `(tactic| apply Sat.bind $h (fun _ he => ⟨he.1, fun _ => he.2.1, he.2.2⟩))
macro "sih " h:term : tactic => `(tactic| apply Sat.bind $h (fun _ he => ⟨he.1, fun hf => he.2.1 (by omega), he.2.2⟩))
macro "spr_last " h:term : tactic => `(tactic| apply Sat.mono $h (fun _ he => ⟨he.1, fun _ => he.2.1, he.2.2⟩))
macro "sih_last " h:term : tactic => `(tactic| apply Sat.mono $h (fun _ he => ⟨he.1, fun hf => he.2.1 (by omega), he.2.2⟩))
macro "sget" : tactic => `(tactic| (apply Sat.bind (Sat.getP (Q := fun a p' => _ = a ∧ _ = p') ⟨rfl, rfl⟩) (fun _ he => he); intro _ _ hget; obtain ⟨hget1, hget2⟩ := hget; subst hget1; subst hget2))

structure Specs (ts : List Tok) (f : Nat) : Prop where
  run : ∀ rbp p, Cur ts p → Sat (run f rbp) p
    (fun r p' => Cur ts p' ∧ p'.toks.length < p.toks.length ∧ ResOk r) (EFuel ts p 1 f)
  loopLed : ∀ rbp left p, Cur ts p → ResOk left → Sat (loopLed f rbp left) p
    (fun r p' => Cur ts p' ∧ p'.toks.length ≤ p.toks.length ∧ ResOk r) (EFuel ts p 1 f)
  nudOf : ∀ self p, Cur ts p → Fresh self → self.nud ≠ .none → Sat (nudOf f self) p
    (fun r p' => Cur ts p' ∧ p'.toks.length ≤ p.toks.length ∧ ResOk r) (EFuel ts p 3 f)
  exprList : ∀ stop acc p, Cur ts p → okTree acc = true → Sat (exprList f stop acc) p
    (fun r p' => Cur ts p' ∧ p'.toks.length ≤ p.toks.length ∧ Same acc r) (EFuel ts p 2 f)
  sinkAttrs : ∀ acc p, Cur ts p → okTree acc = true → Sat (sinkAttrs f acc) p
    (fun r p' => Cur ts p' ∧ p'.toks.length ≤ p.toks.length ∧ Same acc r) (EFuel ts p 2 f)
  guardAndStatements : ∀ acc p, Cur ts p → okTree acc = true → Sat (guardAndStatements f acc) p
    (fun r p' => Cur ts p' ∧ p'.toks.length ≤ p.toks.length ∧ Same acc r) (EFuel ts p 2 f)
  elifs : ∀ acc p, Cur ts p → okTree acc = true → Sat (elifs f acc) p
    (fun r p' => Cur ts p' ∧ p'.toks.length ≤ p.toks.length ∧ Same acc r) (EFuel ts p 1 f)
  excepts : ∀ acc p, Cur ts p → okTree acc = true → Sat (excepts f acc) p
    (fun r p' => Cur ts p' ∧ p'.toks.length ≤ p.toks.length ∧ Same acc r) (EFuel ts p 1 f)
  exceptTypes : ∀ acc p, Cur ts p → okTree acc = true → Sat (exceptTypes f acc) p
    (fun r p' => Cur ts p' ∧ p'.toks.length ≤ p.toks.length ∧ Same acc r) (EFuel ts p 1 f)
  parseMore : ∀ self acc p, Cur ts p → (∃ t, self.tok = some t) → okTree acc = true → Sat (parseMore f self acc) p
    (fun r p' => Cur ts p' ∧ p'.toks.length ≤ p.toks.length ∧ Same acc r) (EFuel ts p 1 f)
  innerStatements : ∀ acc p, Cur ts p → okTree acc = true → Sat (innerStatements f acc) p
    (fun r p' => Cur ts p' ∧ p'.toks.length ≤ p.toks.length ∧ Same acc r) (EFuel ts p 1 f)
  moreStatements : ∀ acc n p, Cur ts p → (∃ t, n.tok = some t) → okTree acc = true → Sat (moreStatements f acc n) p
    (fun r p' => Cur ts p' ∧ p'.toks.length ≤ p.toks.length ∧ Same acc r) (EFuel ts p 2 f)
  topLoop : ∀ acc n p, Cur ts p → (∃ t, n.tok = some t) → okTree acc = true → Sat (topLoop f acc n) p
    (fun r p' => Cur ts p' ∧ p'.toks.length ≤ p.toks.length ∧ Same acc r) (EFuel ts p 2 f)

theorem specs_zero : Specs ts 0 := by
  constructor <;> intros <;>
    first
    | (rw [run]; exact Sat.throw ⟨by decide, fun hf => by omega, trivial⟩)
    | (rw [loopLed]; exact Sat.throw ⟨by decide, fun hf => by omega, trivial⟩)
    | (rw [nudOf]; exact Sat.throw ⟨by decide, fun hf => by omega, trivial⟩)
    | (rw [exprList]; exact Sat.throw ⟨by decide, fun hf => by omega, trivial⟩)
    | (rw [sinkAttrs]; exact Sat.throw ⟨by decide, fun hf => by omega, trivial⟩)
    | (rw [guardAndStatements]; exact Sat.throw ⟨by decide, fun hf => by omega, trivial⟩)
    | (rw [elifs]; exact Sat.throw ⟨by decide, fun hf => by omega, trivial⟩)
    | (rw [excepts]; exact Sat.throw ⟨by decide, fun hf => by omega, trivial⟩)
    | (rw [exceptTypes]; exact Sat.throw ⟨by decide, fun hf => by omega, trivial⟩)
    | (rw [parseMore]; exact Sat.throw ⟨by decide, fun hf => by omega, trivial⟩)
    | (rw [innerStatements]; exact Sat.throw ⟨by decide, fun hf => by omega, trivial⟩)
    | (rw [moreStatements]; exact Sat.throw ⟨by decide, fun hf => by omega, trivial⟩)
    | (rw [topLoop]; exact Sat.throw ⟨by decide, fun hf => by omega, trivial⟩)

theorem run_step {f : Nat} (ih : Specs ts f) (rbp : Nat) (p : P) (hc : Cur ts p) :
    Sat (run (f+1) rbp) p (fun r p' => Cur ts p' ∧ p'.toks.length < p.toks.length ∧ ResOk r) (EFuel ts p 1 (f+1)) := by
  rw [run]
  sget
  spr (advance_spec _ (Cur.toks (by assumption)))
  intro post p1 ⟨hc1, hl1⟩
  obtain ⟨hi, n, hn⟩ := hc
  simp only [hn]
  have hf := (hi.fresh n hn).addMeta post
  split
  · next hnone =>
    obtain ⟨t, ht⟩ := hf.tok
    have hmem : t ∈ ts := hi.nodeIn n hn t (by simpa using ht)
    have hnc := hf.not_comment ht
    have hkt : kindTok "Term cannot start an expression" t := by
      have h0 := hf.nud_none_tok ht hnone
      simp only [kindTok]
      exact ⟨by simp, by simp, fun _ => h0, by simp⟩
    spr (tokOf_spec _ ht)
    rintro _ _ ⟨rfl, rfl⟩
    exact Sat.throw ⟨by simp [errAt], fun _ => by simp [errAt], EPos.at hmem hnc (by simp [sixKinds]) hkt⟩
  · next hnud =>
    sih (ih.nudOf _ _ hc1 hf hnud)
    intro left p2 ⟨hc2, hl2, hr2⟩
    sih_last (ih.loopLed _ _ _ hc2 hr2)
    intro r p3 ⟨hc3, hl3, hr3⟩
    exact ⟨hc3, by omega, hr3⟩

theorem loopLed_step {f : Nat} (ih : Specs ts f) (rbp : Nat) (left : Node) (p : P) (hc : Cur ts p) (hl : ResOk left) :
    Sat (loopLed (f+1) rbp left) p (fun r p' => Cur ts p' ∧ p'.toks.length ≤ p.toks.length ∧ ResOk r)
      (EFuel ts p 1 (f+1)) := by
  rw [loopLed]
  spr (cur_spec hc)
  rintro nx _ ⟨rfl, hnx, hfx, hinx⟩
  split
  · next hbind =>
    split
    · next hlednone =>
      obtain ⟨lt, hlt⟩ := hl.1
      spr (tokOf_spec _ hlt)
      rintro _ _ ⟨rfl, rfl⟩
      obtain ⟨nt, hnt⟩ := hfx.tok
      have hmem : nt ∈ ts := hinx nt hnt
      have hnc := hfx.not_comment hnt
      have hkt : kindTok "Term can only start an expression" nt := by
        obtain ⟨nm, b, x, h1, h2⟩ := hfx.led_none_tok hnt hlednone (by omega)
        simp only [kindTok]
        refine ⟨by simp, by simp, by simp, fun _ => ⟨nm, b, x, h1, h2⟩⟩
      spr (tokOf_spec _ hnt)
      rintro _ _ ⟨rfl, rfl⟩
      split
      · exact Sat.pure ⟨hc, Nat.le_refl _, hl⟩
      · exact Sat.throw ⟨by simp [errAt], fun _ => by simp [errAt], EPos.at hmem hnc (by simp [sixKinds]) hkt⟩
    · next hled =>
      spr (advance_spec _ (Cur.toks (by assumption)))
      intro post p1 ⟨hc1, hl1⟩
      sih (ih.run _ _ hc1)
      intro right p2 ⟨hc2, hl2, hr2⟩
      have hfx' := hfx.addMeta post
      have hres : ResOk (((nx.addMeta post).add (some left)).add (some right)) := by
        obtain ⟨t, ht⟩ := hfx'.tok
        exact ⟨⟨t, by simp [ht]⟩, okTree_add (okTree_add (hfx'.ok_of_led (by simpa using hled)) hl.2) hr2.2⟩
      sih_last (ih.loopLed _ _ _ hc2 hres)
      intro r p3 ⟨hc3, hl3, hr3⟩
      exact ⟨hc3, by omega, hr3⟩
  · exact Sat.pure ⟨hc, Nat.le_refl _, hl⟩

end Ecal.Parse

namespace Ecal.Parse
open Ecal.Lex
variable {ts : List Tok}

macro "smk" : tactic => `(tactic| (apply Sat.bind (Sat.mkNode (Q := fun g q => _ = q ∧ g = instanceOf _ _ _) ⟨rfl, rfl⟩) (fun _ he => he); intro _ _ hmk; obtain ⟨hmk1, hmk2⟩ := hmk; subst hmk1; subst hmk2))

theorem Same.of_add {acc c r : Node} (h : Same (acc.add c) r) : Same acc r := by
  simpa [Same] using h

theorem exprList_step {f : Nat} (ih : Specs ts f) (stop : List Nat) (acc : Node) (p : P) (hc : Cur ts p)
    (hacc : okTree acc = true) :
    Sat (exprList (f+1) stop acc) p (fun r p' => Cur ts p' ∧ p'.toks.length ≤ p.toks.length ∧ Same acc r)
      (EFuel ts p 2 (f+1)) := by
  rw [exprList]
  spr (isNotEndAndNotTokens_spec _ hc)
  rintro b _ rfl
  split
  · sih (ih.run _ _ hc)
    intro e p1 ⟨hc1, hl1, hr1⟩
    spr (skipComma_spec hc1)
    intro _ p2 ⟨hc2, hl2⟩
    sih_last (ih.exprList _ _ _ hc2 (okTree_add hacc hr1.2))
    intro r p3 ⟨hc3, hl3, hs3⟩
    exact ⟨hc3, by omega, hs3.of_add⟩
  · exact Sat.pure ⟨hc, Nat.le_refl _, rfl, hacc⟩

theorem sinkAttrs_step {f : Nat} (ih : Specs ts f) (acc : Node) (p : P) (hc : Cur ts p)
    (hacc : okTree acc = true) :
    Sat (sinkAttrs (f+1) acc) p (fun r p' => Cur ts p' ∧ p'.toks.length ≤ p.toks.length ∧ Same acc r)
      (EFuel ts p 2 (f+1)) := by
  rw [sinkAttrs]
  spr (isNotEndAndNotTokens_spec _ hc)
  rintro b _ rfl
  split
  · sih (ih.run _ _ hc)
    intro e p1 ⟨hc1, hl1, hr1⟩
    spr (skipComma_spec hc1)
    intro _ p2 ⟨hc2, hl2⟩
    sih_last (ih.sinkAttrs _ _ hc2 (okTree_add hacc hr1.2))
    intro r p3 ⟨hc3, hl3, hs3⟩
    exact ⟨hc3, by omega, hs3.of_add⟩
  · exact Sat.pure ⟨hc, Nat.le_refl _, rfl, hacc⟩

theorem exceptTypes_step {f : Nat} (ih : Specs ts f) (acc : Node) (p : P) (hc : Cur ts p)
    (hacc : okTree acc = true) :
    Sat (exceptTypes (f+1) acc) p (fun r p' => Cur ts p' ∧ p'.toks.length ≤ p.toks.length ∧ Same acc r)
      (EFuel ts p 1 (f+1)) := by
  rw [exceptTypes]
  spr (isNotEndAndNotTokens_spec _ hc)
  rintro b _ rfl
  split
  · spr (acceptChild_spec _ hc)
    intro e p1 ⟨hc1, hl1, hf1, hid1⟩
    spr (skipComma_spec hc1)
    intro _ p2 ⟨hc2, hl2⟩
    sih_last (ih.exceptTypes _ _ hc2 (okTree_add hacc (accept_ok hf1 hid1 (by decide))))
    intro r p3 ⟨hc3, hl3, hs3⟩
    exact ⟨hc3, by omega, hs3.of_add⟩
  · exact Sat.pure ⟨hc, Nat.le_refl _, rfl, hacc⟩

theorem braced_run {f : Nat} (ih : Specs ts f) (p : P) (hc : Cur ts p) :
    Sat (withBraceBlock (run f 0)) p (fun a p' => Cur ts p' ∧ p'.toks.length < p.toks.length ∧ ResOk a)
      (EFuel ts p 1 f) := by
  apply withBraceBlock_spec hc
  intro q hq hqt
  exact Sat.mono (ih.run 0 q hq) (fun e he => ⟨he.1, fun hf => he.2.1 (by rw [hqt]; exact hf), he.2.2⟩)
    (fun a q' h => ⟨h.1, by rw [← hqt]; exact h.2.1, h.2.2⟩)

theorem guardAndStatements_step {f : Nat} (ih : Specs ts f) (acc : Node) (p : P) (hc : Cur ts p)
    (hacc : okTree acc = true) :
    Sat (guardAndStatements (f+1) acc) p (fun r p' => Cur ts p' ∧ p'.toks.length ≤ p.toks.length ∧ Same acc r)
      (EFuel ts p 2 (f+1)) := by
  rw [guardAndStatements]
  sih (braced_run ih p hc)
  intro e p1 ⟨hc1, hl1, hr1⟩
  smk
  sih_last (ih.innerStatements _ _ hc1 (okTree_add hacc (okTree_add (okInst (by decide)) hr1.2)))
  intro r p3 ⟨hc3, hl3, hs3⟩
  exact ⟨hc3, by omega, hs3.of_add⟩

theorem elifs_step {f : Nat} (ih : Specs ts f) (acc : Node) (p : P) (hc : Cur ts p)
    (hacc : okTree acc = true) :
    Sat (elifs (f+1) acc) p (fun r p' => Cur ts p' ∧ p'.toks.length ≤ p.toks.length ∧ Same acc r)
      (EFuel ts p 1 (f+1)) := by
  rw [elifs]
  spr (isNotEndAndToken_spec _ hc)
  rintro b _ rfl
  split
  · spr (skipToken_spec _ hc)
    intro _ p1 ⟨hc1, hl1⟩
    sih (ih.guardAndStatements _ _ hc1 hacc)
    intro s p2 ⟨hc2, hl2, hs2⟩
    sih_last (ih.elifs _ _ hc2 hs2.2)
    intro r p3 ⟨hc3, hl3, hs3⟩
    exact ⟨hc3, by omega, hs3.1.trans hs2.1, hs3.2⟩
  · exact Sat.pure ⟨hc, Nat.le_refl _, rfl, hacc⟩

theorem moreStatements_step {f : Nat} (ih : Specs ts f) (acc n : Node) (p : P) (hc : Cur ts p)
    (hn : ∃ t, n.tok = some t) (hacc : okTree acc = true) :
    Sat (moreStatements (f+1) acc n) p (fun r p' => Cur ts p' ∧ p'.toks.length ≤ p.toks.length ∧ Same acc r)
      (EFuel ts p 2 (f+1)) := by
  rw [moreStatements]
  obtain ⟨nt, hnt⟩ := hn
  spr (hasMoreStatements_spec hnt hc)
  rintro b _ rfl
  split
  · spr (curId_spec hc)
    rintro id _ ⟨rfl, _⟩
    split
    · spr (skipToken_spec _ hc)
      intro _ p1 ⟨hc1, hl1⟩
      sih (ih.run _ _ hc1)
      intro e p2 ⟨hc2, hl2, hr2⟩
      sih_last (ih.moreStatements _ _ _ hc2 hr2.1 (okTree_add hacc hr2.2))
      intro r p3 ⟨hc3, hl3, hs3⟩
      exact ⟨hc3, by omega, hs3.of_add⟩
    · split
      · exact Sat.pure ⟨hc, Nat.le_refl _, rfl, hacc⟩
      · sih (ih.run _ _ hc)
        intro e p2 ⟨hc2, hl2, hr2⟩
        sih_last (ih.moreStatements _ _ _ hc2 hr2.1 (okTree_add hacc hr2.2))
        intro r p3 ⟨hc3, hl3, hs3⟩
        exact ⟨hc3, by omega, hs3.of_add⟩
  · exact Sat.pure ⟨hc, Nat.le_refl _, rfl, hacc⟩

theorem topLoop_step {f : Nat} (ih : Specs ts f) (acc n : Node) (p : P) (hc : Cur ts p)
    (hn : ∃ t, n.tok = some t) (hacc : okTree acc = true) :
    Sat (topLoop (f+1) acc n) p (fun r p' => Cur ts p' ∧ p'.toks.length ≤ p.toks.length ∧ Same acc r)
      (EFuel ts p 2 (f+1)) := by
  rw [topLoop]
  obtain ⟨nt, hnt⟩ := hn
  spr (hasMoreStatements_spec hnt hc)
  rintro b _ rfl
  split
  · spr (skipOpt_spec _ hc)
    intro _ p1 ⟨hc1, hl1⟩
    sih (ih.run _ _ hc1)
    intro e p2 ⟨hc2, hl2, hr2⟩
    sih_last (ih.topLoop _ _ _ hc2 hr2.1 (okTree_add hacc hr2.2))
    intro r p3 ⟨hc3, hl3, hs3⟩
    exact ⟨hc3, by omega, hs3.of_add⟩
  · exact Sat.pure ⟨hc, Nat.le_refl _, rfl, hacc⟩

theorem innerStatements_step {f : Nat} (ih : Specs ts f) (acc : Node) (p : P) (hc : Cur ts p)
    (hacc : okTree acc = true) :
    Sat (innerStatements (f+1) acc) p (fun r p' => Cur ts p' ∧ p'.toks.length ≤ p.toks.length ∧ Same acc r)
      (EFuel ts p 1 (f+1)) := by
  rw [innerStatements]
  spr (skipToken_spec _ hc)
  intro _ p1 ⟨hc1, hl1⟩
  smk
  spr (curIsNot_spec _ hc1)
  rintro nr _ rfl
  apply Sat.bind (Q1 := fun st q => Cur ts q ∧ q.toks.length ≤ p1.toks.length ∧ okTree st = true)
    (E1 := EFuel ts p 1 (f+1)) ?_ (fun _ he => he)
  · intro st p2 ⟨hc2, hl2, hst⟩
    spr (skipToken_spec _ hc2)
    intro _ p3 ⟨hc3, hl3⟩
    exact Sat.pure ⟨hc3, by omega, by simp, okTree_add hacc hst⟩
  · split
    · sih (ih.run _ _ hc1)
      intro e p2 ⟨hc2, hl2, hr2⟩
      spr (curIsNot_spec _ hc2)
      rintro pr _ rfl
      split
      · sih_last (ih.moreStatements _ _ _ hc2 hr2.1 (okTree_add (okInst (by decide)) hr2.2))
        intro r p3 ⟨hc3, hl3, hs3⟩
        exact ⟨hc3, by omega, hs3.2⟩
      · exact Sat.pure ⟨hc2, by omega, okInst (by decide)⟩
    · exact Sat.pure ⟨hc1, Nat.le_refl _, okInst (by decide)⟩

end Ecal.Parse

namespace Ecal.Parse
open Ecal.Lex
variable {ts : List Tok}

theorem excepts_step {f : Nat} (ih : Specs ts f) (acc : Node) (p : P) (hc : Cur ts p)
    (hacc : okTree acc = true) :
    Sat (excepts (f+1) acc) p (fun r p' => Cur ts p' ∧ p'.toks.length ≤ p.toks.length ∧ Same acc r)
      (EFuel ts p 1 (f+1)) := by
  rw [excepts]
  spr (isNotEndAndToken_spec _ hc)
  rintro b _ rfl
  split
  · spr (acceptChild_spec _ hc)
    intro ex p1 ⟨hc1, hl1, hf1, hid1⟩
    sih (ih.exceptTypes _ _ hc1 (accept_ok hf1 hid1 (by decide)))
    intro ex2 p2 ⟨hc2, hl2, hs2⟩
    spr (curId_spec hc2)
    rintro id _ ⟨rfl, _⟩
    apply Sat.bind (Q1 := fun ex3 q => Cur ts q ∧ q.toks.length ≤ p2.toks.length ∧ okTree ex3 = true)
      (E1 := EFuel ts p 1 (f+1)) ?_ (fun _ he => he)
    · intro ex3 p3 ⟨hc3, hl3, hn3⟩
      sih (ih.innerStatements _ _ hc3 hn3)
      intro ex4 p4 ⟨hc4, hl4, hs4⟩
      sih_last (ih.excepts _ _ hc4 (okTree_add hacc hs4.2))
      intro r p5 ⟨hc5, hl5, hs5⟩
      exact ⟨hc5, by omega, hs5.of_add⟩
    · split
      · spr (acceptChild_spec _ hc2)
        intro a p3 ⟨hc3, hl3, hf3, hid3⟩
        spr (acceptChild_spec _ hc3)
        intro i p4 ⟨hc4, hl4, hf4, hid4⟩
        exact Sat.pure ⟨hc4, by omega, okTree_add hs2.2 (okTree_add (accept_ok hf3 hid3 (by decide)) (accept_ok hf4 hid4 (by decide)))⟩
      · split
        · spr (acceptChild_spec _ hc2)
          intro i p3 ⟨hc3, hl3, hf3, hid3⟩
          exact Sat.pure ⟨hc3, by omega, okTree_add hs2.2 (accept_ok hf3 hid3 (by decide))⟩
        · exact Sat.pure ⟨hc2, Nat.le_refl _, hs2.2⟩
  · exact Sat.pure ⟨hc, Nat.le_refl _, rfl, hacc⟩

theorem parseMore_step {f : Nat} (ih : Specs ts f) (self acc : Node) (p : P) (hc : Cur ts p)
    (hself : ∃ t, self.tok = some t) (hacc : okTree acc = true) :
    Sat (parseMore (f+1) self acc) p (fun r p' => Cur ts p' ∧ p'.toks.length ≤ p.toks.length ∧ Same acc r)
      (EFuel ts p 1 (f+1)) := by
  rw [parseMore]
  spr (curId_spec hc)
  rintro id _ ⟨rfl, _⟩
  split
  · spr (skipToken_spec _ hc)
    intro _ p1 ⟨hc1, hl1⟩
    spr (acceptChild_spec _ hc1)
    intro nx p2 ⟨hc2, hl2, hf2, hid2⟩
    sih (ih.parseMore _ _ _ hc2 hself (accept_ok hf2 hid2 (by decide)))
    intro nx' p3 ⟨hc3, hl3, hs3⟩
    exact Sat.pure ⟨hc3, by omega, by simp, okTree_add hacc hs3.2⟩
  · split
    · spr (skipToken_spec _ hc)
      intro _ p1 ⟨hc1, hl1⟩
      smk
      sih (ih.exprList _ _ _ hc1 (okInst (by decide)))
      intro fc p2 ⟨hc2, hl2, hs2⟩
      spr (skipToken_spec _ hc2)
      intro _ p3 ⟨hc3, hl3⟩
      sih_last (ih.parseMore _ _ _ hc3 hself (okTree_add hacc hs2.2))
      intro r p4 ⟨hc4, hl4, hs4⟩
      exact ⟨hc4, by omega, hs4.of_add⟩
    · spr (cur_spec hc)
      rintro cn _ ⟨rfl, hcn, hfc, _⟩
      obtain ⟨ct, hct⟩ := hfc.tok
      spr (tokOf_spec _ hct)
      rintro _ _ ⟨rfl, rfl⟩
      have hself' := hself
      obtain ⟨st, hst⟩ := hself
      spr (tokOf_spec _ hst)
      rintro _ _ ⟨rfl, rfl⟩
      split
      · spr (skipToken_spec _ hc)
        intro _ p1 ⟨hc1, hl1⟩
        smk
        sih (ih.run _ _ hc1)
        intro e p2 ⟨hc2, hl2, hr2⟩
        spr (skipToken_spec _ hc2)
        intro _ p3 ⟨hc3, hl3⟩
        sih_last (ih.parseMore _ _ _ hc3 hself' (okTree_add hacc (okTree_add (okInst (by decide)) hr2.2)))
        intro r p4 ⟨hc4, hl4, hs4⟩
        exact ⟨hc4, by omega, hs4.of_add⟩
      · exact Sat.pure ⟨hc, Nat.le_refl _, rfl, hacc⟩

theorem ResOk.of_same {self r : Node} (hf : Fresh self) (h : Same self r) : ResOk r := by
  obtain ⟨t, ht⟩ := hf.tok
  exact ⟨⟨t, h.1.trans ht⟩, h.2⟩

theorem Same.trans_add {self c r : Node} (h : Same (self.add c) r) : Same self r := h.of_add

end Ecal.Parse

namespace Ecal.Parse
open Ecal.Lex
variable {ts : List Tok}

theorem nudOf_step {f : Nat} (ih : Specs ts f) (self : Node) (p : P) (hc : Cur ts p) (hf : Fresh self)
    (hnud : self.nud ≠ .none) :
    Sat (nudOf (f+1) self) p (fun r p' => Cur ts p' ∧ p'.toks.length ≤ p.toks.length ∧ ResOk r)
      (EFuel ts p 3 (f+1)) := by
  rw [nudOf]
  obtain ⟨stok, hstok⟩ := hf.tok
  have hok : ∀ k, self.nud = k → k ≠ .none → k ≠ .inner → k ≠ .list → k ≠ .map → okTree self = true :=
    fun k hk h1 h2 h3 h4 => hf.ok_of_nud k hk h1 h2 h3 h4
  split
  · next h => exact absurd h hnud
  · -- term
    exact Sat.pure ⟨hc, Nat.le_refl _, ⟨_, hstok⟩, (hok _ (by assumption) (by decide) (by decide) (by decide) (by decide))⟩
  · -- inner
    sih (ih.run _ _ hc)
    intro e p1 ⟨hc1, hl1, hr1⟩
    spr (skipToken_spec _ hc1)
    intro _ p2 ⟨hc2, hl2⟩
    exact Sat.pure ⟨hc2, by omega, hr1⟩
  · -- prefix
    sih (ih.run _ _ hc)
    intro e p1 ⟨hc1, hl1, hr1⟩
    exact Sat.pure ⟨hc1, by omega, ⟨stok, by simp [hstok]⟩, okTree_add (hok _ (by assumption) (by decide) (by decide) (by decide) (by decide)) hr1.2⟩
  · -- import
    spr (acceptChild_spec _ hc)
    intro s p1 ⟨hc1, hl1, hf1, hid1⟩
    spr (skipToken_spec _ hc1)
    intro _ p2 ⟨hc2, hl2⟩
    spr (acceptChild_spec _ hc2)
    intro i p3 ⟨hc3, hl3, hf3, hid3⟩
    exact Sat.pure ⟨hc3, by omega, ⟨stok, by simp [hstok]⟩, okTree_add (okTree_add (hok _ (by assumption) (by decide) (by decide) (by decide) (by decide)) (accept_ok hf1 hid1 (by decide))) (accept_ok hf3 hid3 (by decide))⟩
  · -- sink
    spr (acceptChild_spec _ hc)
    intro nm p1 ⟨hc1, hl1, hf1, hid1⟩
    sih (ih.sinkAttrs _ _ hc1 (okTree_add (hok _ (by assumption) (by decide) (by decide) (by decide) (by decide)) (accept_ok hf1 hid1 (by decide))))
    intro s2 p2 ⟨hc2, hl2, hs2⟩
    sih_last (ih.innerStatements _ _ hc2 hs2.2)
    intro r p3 ⟨hc3, hl3, hs3⟩
    exact ⟨hc3, by omega, ⟨stok, by rw [hs3.1, hs2.1]; simp [hstok]⟩, hs3.2⟩
  · -- func
    apply Sat.bind (Q1 := fun s1 q => Cur ts q ∧ q.toks.length ≤ p.toks.length ∧ s1.tok = self.tok ∧ okTree s1 = true)
      (E1 := EFuel ts p 3 (f+1)) ?_ (fun _ he => he)
    · intro s1 p1 ⟨hc1, hl1, ht1, hn1⟩
      spr (skipToken_spec _ hc1)
      intro _ p2 ⟨hc2, hl2⟩
      smk
      sih (ih.exprList _ _ _ hc2 (okInst (by decide)))
      intro ps p3 ⟨hc3, hl3, hs3⟩
      spr (skipToken_spec _ hc3)
      intro _ p4 ⟨hc4, hl4⟩
      sih_last (ih.innerStatements _ _ hc4 (okTree_add hn1 hs3.2))
      intro r p5 ⟨hc5, hl5, hs5⟩
      exact ⟨hc5, by omega, ⟨stok, by rw [hs5.1]; simp [ht1, hstok]⟩, hs5.2⟩
    · spr (curId_spec hc)
      rintro id _ ⟨rfl, _⟩
      split
      · spr (acceptChild_spec _ hc)
        intro i p1 ⟨hc1, hl1, hf1, hid1⟩
        exact Sat.pure ⟨hc1, by omega, by simp, okTree_add (hok _ (by assumption) (by decide) (by decide) (by decide) (by decide)) (accept_ok hf1 hid1 (by decide))⟩
      · exact Sat.pure ⟨hc, Nat.le_refl _, rfl, (hok _ (by assumption) (by decide) (by decide) (by decide) (by decide))⟩
  · -- return
    spr (tokOf_spec _ hstok)
    rintro _ _ ⟨rfl, rfl⟩
    spr (cur_spec hc)
    rintro cn _ ⟨rfl, hcn, hfc, _⟩
    obtain ⟨ct, hct⟩ := hfc.tok
    spr (tokOf_spec _ hct)
    rintro _ _ ⟨rfl, rfl⟩
    split
    · sih (ih.run _ _ hc)
      intro e p1 ⟨hc1, hl1, hr1⟩
      exact Sat.pure ⟨hc1, by omega, ⟨_, by simp; exact hstok⟩, okTree_add (hok _ (by assumption) (by decide) (by decide) (by decide) (by decide)) hr1.2⟩
    · exact Sat.pure ⟨hc, Nat.le_refl _, ⟨_, hstok⟩, (hok _ (by assumption) (by decide) (by decide) (by decide) (by decide))⟩
  · -- identifier
    sih_last (ih.parseMore _ _ _ hc ⟨stok, hstok⟩ (hok _ (by assumption) (by decide) (by decide) (by decide) (by decide)))
    intro r p1 ⟨hc1, hl1, hs1⟩
    exact ⟨hc1, hl1, ResOk.of_same hf hs1⟩
  · -- list
    smk
    sih (ih.exprList _ _ _ hc (okInst (by decide)))
    intro st p1 ⟨hc1, hl1, hs1⟩
    spr (skipToken_spec _ hc1)
    intro _ p2 ⟨hc2, hl2⟩
    exact Sat.pure ⟨hc2, by omega, ⟨stok, by rw [hs1.1, instanceOf_tok]; exact hstok⟩, hs1.2⟩
  · -- map
    smk
    sih (ih.exprList _ _ _ hc (okInst (by decide)))
    intro st p1 ⟨hc1, hl1, hs1⟩
    spr (skipToken_spec _ hc1)
    intro _ p2 ⟨hc2, hl2⟩
    exact Sat.pure ⟨hc2, by omega, ⟨stok, by rw [hs1.1, instanceOf_tok]; exact hstok⟩, hs1.2⟩
  · -- guard (if)
    sih (ih.guardAndStatements _ _ hc (hok _ (by assumption) (by decide) (by decide) (by decide) (by decide)))
    intro s1 p1 ⟨hc1, hl1, hs1⟩
    sih (ih.elifs _ _ hc1 hs1.2)
    intro s2 p2 ⟨hc2, hl2, hs2⟩
    spr (curId_spec hc2)
    rintro id _ ⟨rfl, _⟩
    split
    · spr (skipToken_spec _ hc2)
      intro _ p3 ⟨hc3, hl3⟩
      smk
      smk
      sih_last (ih.innerStatements _ _ hc3
        (okTree_add hs2.2 (okTree_add (okInst (by decide)) (okInst (by decide)))))
      intro r p4 ⟨hc4, hl4, hs4⟩
      exact ⟨hc4, by omega, ⟨stok, by rw [hs4.1]; simp [hs2.1, hs1.1, hstok]⟩, hs4.2⟩
    · exact Sat.pure ⟨hc2, by omega, ⟨stok, by rw [hs2.1, hs1.1, hstok]⟩, hs2.2⟩
  · -- loop
    sih (braced_run ih p hc)
    intro e p1 ⟨hc1, hl1, hr1⟩
    obtain ⟨et, het⟩ := hr1.1
    spr (tokOf_spec _ het)
    rintro _ _ ⟨rfl, rfl⟩
    apply Sat.bind (Q1 := fun g q => q = p1 ∧ okTree g = true) (E1 := EFuel ts p 3 (f+1)) ?_ (fun _ he => he)
    · rintro g _ ⟨rfl, hg⟩
      sih_last (ih.innerStatements _ _ hc1 (okTree_add (hok _ (by assumption) (by decide) (by decide) (by decide) (by decide)) hg))
      intro r p3 ⟨hc3, hl3, hs3⟩
      exact ⟨hc3, by omega, ⟨stok, by rw [hs3.1]; simp [hstok]⟩, hs3.2⟩
    · split
      · smk
        exact Sat.pure ⟨rfl, okTree_add (okInst (by decide)) hr1.2⟩
      · exact Sat.pure ⟨rfl, hr1.2⟩
  · -- try
    sih (ih.innerStatements _ _ hc (hok _ (by assumption) (by decide) (by decide) (by decide) (by decide)))
    intro t1 p1 ⟨hc1, hl1, hs1⟩
    sih (ih.excepts _ _ hc1 hs1.2)
    intro t2 p2 ⟨hc2, hl2, hs2⟩
    apply Sat.bind (Q1 := fun t3 q => Cur ts q ∧ q.toks.length ≤ p2.toks.length ∧ t3.tok = self.tok ∧ okTree t3 = true)
      (E1 := EFuel ts p 3 (f+1)) ?_ (fun _ he => he)
    · intro t3 p3 ⟨hc3, hl3, ht3, hn3⟩
      spr (curId_spec hc3)
      rintro id _ ⟨rfl, _⟩
      split
      · spr (acceptChild_spec _ hc3)
        intro fi p4 ⟨hc4, hl4, hf4, hid4⟩
        sih (ih.innerStatements _ _ hc4 (accept_ok hf4 hid4 (by decide)))
        intro fi2 p5 ⟨hc5, hl5, hs5⟩
        exact Sat.pure ⟨hc5, by omega, ⟨stok, by simp [ht3, hstok]⟩, okTree_add hn3 hs5.2⟩
      · exact Sat.pure ⟨hc3, by omega, ⟨stok, by rw [ht3, hstok]⟩, hn3⟩
    · spr (curId_spec hc2)
      rintro id _ ⟨rfl, _⟩
      split
      · spr (acceptChild_spec _ hc2)
        intro o p3 ⟨hc3, hl3, hf3, hid3⟩
        sih (ih.innerStatements _ _ hc3 (accept_ok hf3 hid3 (by decide)))
        intro o2 p4 ⟨hc4, hl4, hs4⟩
        exact Sat.pure ⟨hc4, by omega, by simp [hs2.1, hs1.1], okTree_add hs2.2 hs4.2⟩
      · exact Sat.pure ⟨hc2, Nat.le_refl _, by rw [hs2.1, hs1.1], hs2.2⟩
  · -- mutex
    spr (acceptChild_spec _ hc)
    intro i p1 ⟨hc1, hl1, hf1, hid1⟩
    sih_last (ih.innerStatements _ _ hc1 (okTree_add (hok _ (by assumption) (by decide) (by decide) (by decide) (by decide)) (accept_ok hf1 hid1 (by decide))))
    intro r p2 ⟨hc2, hl2, hs2⟩
    exact ⟨hc2, by omega, ⟨stok, by rw [hs2.1]; simp [hstok]⟩, hs2.2⟩
  · -- block
    sih_last (ih.innerStatements _ _ hc (hok _ (by assumption) (by decide) (by decide) (by decide) (by decide)))
    intro r p1 ⟨hc1, hl1, hs1⟩
    exact ⟨hc1, hl1, ResOk.of_same hf hs1⟩

theorem specs : ∀ f, Specs ts f
  | 0 => specs_zero
  | f+1 =>
    have ih := specs f
    { run := run_step ih, loopLed := loopLed_step ih, nudOf := nudOf_step ih, exprList := exprList_step ih,
      sinkAttrs := sinkAttrs_step ih, guardAndStatements := guardAndStatements_step ih, elifs := elifs_step ih,
      excepts := excepts_step ih, exceptTypes := exceptTypes_step ih, parseMore := parseMore_step ih,
      innerStatements := innerStatements_step ih, moreStatements := moreStatements_step ih,
      topLoop := topLoop_step ih }

end Ecal.Parse

namespace Ecal.Parse
open Ecal.Lex
variable {ts : List Tok}

/-- ParseWithRuntime's body on any token list with any fuel -/
theorem parseBody_spec (fuel : Nat) (toks : List Tok) :
    Sat (parseBody fuel) { toks := toks, node := none } (fun r _ => okTree r = true)
      (fun e => e ≠ .panic ∧ (4 * toks.length + 4 ≤ fuel → e ≠ .fuel) ∧ EPos toks e) := by
  have ih := specs (ts := toks) fuel
  unfold parseBody
  apply Sat.bind (advance_spec (ts := toks) _ (fun t ht => ht)) (fun _ he => ⟨he.1, fun _ => he.2.1, he.2.2⟩)
  intro _ p1 ⟨hc1, hl1⟩
  simp only at hl1
  apply Sat.bind (ih.run _ _ hc1) (fun _ he => ⟨he.1, fun hf => he.2.1 (by omega), he.2.2⟩)
  intro n p2 ⟨hc2, hl2, hr2⟩
  apply Sat.bind (Q1 := fun n' q => Cur toks q ∧ okTree n' = true)
    (E1 := fun e => e ≠ .panic ∧ (4 * toks.length + 4 ≤ fuel → e ≠ .fuel) ∧ EPos toks e) ?_ (fun _ he => he)
  · intro n' p3 ⟨hc3, hn3⟩
    apply Sat.bind (Sat.getP (Q := fun a p' => p3 = a ∧ p3 = p') ⟨rfl, rfl⟩) (fun _ he => he)
    rintro _ _ ⟨rfl, rfl⟩
    obtain ⟨hi, nx, hnx⟩ := hc3
    simp only [hnx]
    obtain ⟨t, ht⟩ := (hi.fresh nx hnx).tok
    have hmem : t ∈ toks := hi.nodeIn nx hnx t ht
    have hnc := (hi.fresh nx hnx).not_comment ht
    apply Sat.bind (tokOf_spec _ ht) (fun _ he => ⟨he.1, fun _ => he.2.1, he.2.2⟩)
    rintro _ _ ⟨rfl, rfl⟩
    split
    · exact Sat.throw ⟨by simp [errAt], fun _ => by simp [errAt], EPos.at hmem hnc (by simp [sixKinds]) (by simp [kindTok])⟩
    · exact Sat.pure hn3
  · obtain ⟨nt, hnt⟩ := hr2.1
    apply Sat.bind (hasMoreStatements_spec hnt hc2) (fun _ he => ⟨he.1, fun _ => he.2.1, he.2.2⟩)
    rintro b _ rfl
    split
    · smk
      apply Sat.mono (ih.topLoop _ _ _ hc2 hr2.1 (okTree_add (okInst (by decide)) hr2.2))
        (fun _ he => ⟨he.1, fun hf => he.2.1 (by omega), he.2.2⟩)
      intro r p3 ⟨hc3, _, hs3⟩
      exact ⟨hc3, hs3.2⟩
    · exact Sat.pure ⟨hc2, hr2.2⟩

end Ecal.Parse
