import Ecal.Lemmas.C08Templates
import Ecal.Lemmas.C08Pratt
import Ecal.Model.PrattTable
/-!
C08: admissibly parenthesised operator trees are read back by the REAL parser model (`Ecal.Parse.run`, the model
C07 proves `parse_wellformed` for) — by induction on the tree from the five building blocks of C08Templates
(terminal, keyword + operand, one infix step, parentheses, loop stop).
-/
namespace Ecal.C08.RP
open Ecal.Lex Ecal.Parse Ecal.C08.TP

/-- real tokens for the abstract tokens -/
structure RealToks where
  bb : Nat
  atom : Nat → Lex.Tok
  op : Nat → Lex.Tok
  pre : Nat → Lex.Tok
  lp : Lex.Tok
  rp : Lex.Tok

variable (R : RealToks)

/-- first real token of the printed tree -/
def hdT : PExpr → Lex.Tok
  | .atom n => R.atom n
  | .bin _ l _ => hdT l
  | .pre k _ => R.pre k
  | .paren _ => R.lp

/-- the remaining real tokens of the printed tree -/
def tlT : PExpr → List Lex.Tok
  | .atom _ => []
  | .bin k l r => tlT l ++ R.op k :: (hdT R r :: tlT r)
  | .pre _ x => hdT R x :: tlT x
  | .paren x => hdT R x :: (tlT x ++ [R.rp])

/-- the real tokens are the abstract tokens of `flat`, one by one -/
def realOf : Ecal.C08.Tok → Lex.Tok
  | .atom n => R.atom n | .op k => R.op k | .pre k => R.pre k | .lp => R.lp | .rp => R.rp

theorem toks_flat (p : PExpr) : hdT R p :: tlT R p = p.flat.map (realOf R) := by
  induction p with
  | atom n => rfl
  | bin k l r ihl ihr =>
    simp only [hdT, tlT, PExpr.flat, List.map_append, List.map_cons]
    rw [← ihl, ← ihr]; simp [realOf]
  | pre k x ih => simp only [hdT, tlT, PExpr.flat, List.map_cons]; rw [← ih]; rfl
  | paren x ih =>
    simp only [hdT, tlT, PExpr.flat, List.map_cons, List.map_append, List.map_nil]
    rw [← ih]; simp [realOf]

/-- the node the real parser builds for an operator tree -/
def nodeE : Expr → Node
  | .atom n => TP.nodeOf R.bb (R.atom n)
  | .bin k l r => ((TP.nodeOf R.bb (R.op k)).add (some (nodeE l))).add (some (nodeE r))
  | .pre k x => (TP.nodeOf R.bb (R.pre k)).add (some (nodeE x))

/-- all operator indices of the printed tree satisfy `okB` / `okP` -/
def pIn (okB okP : Nat → Bool) : PExpr → Bool
  | .atom _ => true
  | .bin k l r => okB k && pIn okB okP l && pIn okB okP r
  | .pre k x => okP k && pIn okB okP x
  | .paren x => pIn okB okP x

/-- a token that may follow an identifier atom without being taken for a segment, call or access -/
def FOK (bb : Nat) (nx : Lex.Tok) : Prop :=
  nx.id ≠ T_DOT ∧ nx.id ≠ T_LPAREN ∧ nx.id ≠ T_LBRACK ∧ (TP.nodeOf bb nx).tok = some nx

/-- the real tokens fit the binding powers `P` on the operators satisfying `okB` / `okP`; an atom is a terminal
    (number, string, true / false / null) or an identifier -/
structure Good (P : Powers) (okB okP : Nat → Bool) : Prop where
  atom : ∀ n, Real (R.atom n) ∧ ((TP.nodeOf R.bb (R.atom n)).nud = .term ∨
    ((TP.nodeOf R.bb (R.atom n)).nud = .identifier ∧ (TP.nodeOf R.bb (R.atom n)).tok = some (R.atom n)))
  op : ∀ k, okB k = true → Real (R.op k) ∧ (TP.nodeOf R.bb (R.op k)).led ≠ Led.none ∧
    (TP.nodeOf R.bb (R.op k)).binding = P.bp k ∧ FOK R.bb (R.op k)
  pre : ∀ k, okP k = true → Real (R.pre k) ∧ (TP.nodeOf R.bb (R.pre k)).nud = .prefix ∧
    (TP.nodeOf R.bb (R.pre k)).binding + 20 = P.pbp k
  lp : Real R.lp ∧ (TP.nodeOf R.bb R.lp).nud = .inner
  rp : Real R.rp ∧ (TP.nodeOf R.bb R.rp).tok = some R.rp ∧ R.rp.id = T_RPAREN ∧ (TP.nodeOf R.bb R.rp).binding = 0 ∧
    FOK R.bb R.rp

theorem real_hd (P : Powers) (okB okP : Nat → Bool) (G : Good R P okB okP) :
    ∀ p, pIn okB okP p = true → Real (hdT R p)
  | .atom n, _ => (G.atom n).1
  | .bin k l r, h => by
    simp only [pIn, Bool.and_eq_true] at h
    exact real_hd P okB okP G l h.1.2
  | .pre k x, h => by
    simp only [pIn, Bool.and_eq_true] at h
    exact (G.pre k h.1).1
  | .paren x, _ => G.lp.1

/-- fuel that suffices for a printed tree -/
def cost : PExpr → Nat
  | .atom _ => 3
  | .bin _ l r => cost l + cost r + 2
  | .pre _ x => cost x + 3
  | .paren x => cost x + 3

/-- **Admissible parentheses are read back by the real parser model**, in any continuation: if the loop, standing at
    the follower `nx` with the tree's node as left operand, returns `res` (for all fuels ≥ c), then `run` on the
    tree's real tokens followed by `nx` returns `res` (for all fuels ≥ c + cost). -/
theorem real_ok_parses (P : Powers) (okB okP : Nat → Bool) (G : Good R P okB okP) :
    ∀ (p : PExpr) (m m' f : Nat), m ≤ m' → Ok P p m' f → pIn okB okP p = true →
    ∀ (nx : Lex.Tok) (rest : List Lex.Tok) (res : Res Node) (c : Nat), Real nx → FOK R.bb nx →
    (TP.nodeOf R.bb nx).binding ≤ f →
    (∀ F, c ≤ F → loopLed F m (nodeE R p.strip) (st R.bb (TP.nodeOf R.bb nx) rest) = res) →
    ∀ F, c + cost p ≤ F → Ecal.Parse.run F m (st R.bb (TP.nodeOf R.bb (hdT R p)) (tlT R p ++ nx :: rest)) = res := by
  intro p
  induction p with
  | atom n =>
    intro m m' f _ _ _ nx rest res c hn hfo _ hk F hF
    obtain ⟨F', rfl⟩ : ∃ F', F = F' + 3 := ⟨F - 3, by simp only [cost] at hF; omega⟩
    simp only [hdT, tlT, List.nil_append]
    rcases (G.atom n).2 with hterm | ⟨hid, htok⟩
    · exact run_term_k (F' + 1) m R.bb (R.atom n) nx rest res hn hterm (hk _ (by simp only [cost] at hF; omega))
    · exact run_identifier_k F' m R.bb (R.atom n) nx rest res hn hid htok hfo.2.2.2 hfo.1 hfo.2.1 hfo.2.2.1
        (hk _ (by simp only [cost] at hF; omega))
  | bin k l r ihl ihr =>
    intro m m' f hmm hok hin nx rest res c hn hfo hb hk F hF
    obtain ⟨hm, hf, okl, okr⟩ := hok
    simp only [pIn, Bool.and_eq_true] at hin
    obtain ⟨⟨hk1, hinl⟩, hinr⟩ := hin
    obtain ⟨hro, hled, hbo, hfop⟩ := G.op k hk1
    simp only [hdT, tlT, List.append_assoc, List.cons_append, cost] at hF ⊢
    -- the left operand, followed by the operator
    apply ihl m (P.bp k - 1) (P.bp k) (by omega) okl hinl (R.op k) _ res (c + cost r + 2) hro hfop (by omega)
    · intro F1 hF1
      obtain ⟨f1, rfl⟩ : ∃ f1, F1 = f1 + 1 := ⟨F1 - 1, by omega⟩
      -- one infix step: the right operand, then the outer continuation
      apply loopLed_infix f1 m R.bb (nodeE R l.strip) (R.op k) (hdT R r) (tlT R r ++ nx :: rest)
        (nodeE R r.strip) (TP.nodeOf R.bb nx) rest res (real_hd R P okB okP G r hinr) hled (by omega)
      · rw [hbo]
        apply ihr (P.bp k) (P.bp k) f (Nat.le_refl _) okr hinr nx rest _ 1 hn hfo hb
        · intro F2 hF2
          obtain ⟨f2, rfl⟩ : ∃ f2, F2 = f2 + 1 := ⟨F2 - 1, by omega⟩
          exact loopLed_stop f2 (P.bp k) R.bb _ _ rest (by omega)
        · omega
      · exact hk f1 (by omega)
    · omega
  | pre k x ih =>
    intro m m' f hmm hok hin nx rest res c hn hfo hb hk F hF
    obtain ⟨hf, okx⟩ := hok
    simp only [pIn, Bool.and_eq_true] at hin
    obtain ⟨hk1, hinx⟩ := hin
    obtain ⟨hrp, hnud, hbp⟩ := G.pre k hk1
    simp only [cost] at hF
    obtain ⟨f0, rfl⟩ : ∃ f0, F = f0 + 3 := ⟨F - 3, by omega⟩
    simp only [hdT, tlT, List.cons_append]
    apply run_prefix_k f0 m R.bb (R.pre k) (hdT R x) (tlT R x ++ nx :: rest) (nodeE R x.strip) (TP.nodeOf R.bb nx) rest res
      (real_hd R P okB okP G x hinx) hnud
    · rw [hbp]
      apply ih (P.pbp k) (P.pbp k) f (Nat.le_refl _) okx hinx nx rest _ 1 hn hfo hb
      · intro F2 hF2
        obtain ⟨f2, rfl⟩ : ∃ f2, F2 = f2 + 1 := ⟨F2 - 1, by omega⟩
        exact loopLed_stop f2 (P.pbp k) R.bb _ _ rest (by omega)
      · omega
    · exact hk _ (by omega)
  | paren x ih =>
    intro m m' f hmm hok hin nx rest res c hn hfo hb hk F hF
    simp only [pIn] at hin
    obtain ⟨hrl, hnud⟩ := G.lp
    obtain ⟨hrr, htok, hid, hb0, hforp⟩ := G.rp
    simp only [cost] at hF
    obtain ⟨f0, rfl⟩ : ∃ f0, F = f0 + 2 := ⟨F - 2, by omega⟩
    simp only [hdT, tlT, List.cons_append, List.append_assoc, List.nil_append]
    apply run_inner f0 m R.bb R.lp (hdT R x) R.rp nx (tlT R x ++ R.rp :: nx :: rest) rest (nodeE R x.strip) res
      (real_hd R P okB okP G x hin) hn hnud htok hid
    · have := ih 0 0 0 (Nat.le_refl _) hok hin R.rp (nx :: rest)
        (.ok (nodeE R x.strip) (st R.bb (TP.nodeOf R.bb R.rp) (nx :: rest))) 1 hrr hforp (by omega)
        (by
          intro F2 hF2
          obtain ⟨f2, rfl⟩ : ∃ f2, F2 = f2 + 1 := ⟨F2 - 1, by omega⟩
          exact loopLed_stop f2 0 R.bb _ _ (nx :: rest) (by omega))
        f0 (by omega)
      simpa using this
    · exact hk _ (by omega)

end Ecal.C08.RP

/-! ### the real table -/
namespace Ecal.C08.RP
open Ecal.Lex Ecal.Parse Ecal.C08.TP

/-- a token of the given kind on line 1 (positions play no role for operator expressions) -/
def mkTok (id : Nat) : Lex.Tok := ⟨id, 0, [], false, false, 0, 1, 1⟩

/-- token id whose table entry has the given node name and an infix left denotation -/
def infixId (name : String) : Nat :=
  ((List.range 80).find? fun id => match table id with
    | some (n, _, _, l) => n = name && l = Led.infix | none => false).getD 0

/-- token id whose table entry has the given node name and the null denotation ndPrefix -/
def prefixId (name : String) : Nat :=
  ((List.range 80).find? fun id => match table id with
    | some (n, _, x, _) => n = name && x = Nud.prefix | none => false).getD 0

/-- real tokens for the operators of the real table; atoms are number tokens (even index) and identifier tokens (odd) -/
def realToks : RealToks where
  bb := 0
  atom n := if n % 2 = 0 then ⟨6, 0, [48 + n / 2 % 10], false, false, 0, 1, 1⟩
            else ⟨7, 0, [97 + n / 2 % 26], true, false, 0, 1, 1⟩   -- even: a number token, odd: an identifier token
  op k := mkTok (infixId (((infixOps[k]?).map (·.1)).getD ""))
  pre k := mkTok (prefixId (((prefixOps[k]?).map (·.1)).getD ""))
  lp := mkTok T_LPAREN
  rp := mkTok T_RPAREN

def okB (k : Nat) : Bool := decide (k < infixOps.length)
def okP (k : Nat) : Bool := decide (k < prefixOps.length) && !realPowers.stmt k

def checkOp (k : Nat) : Bool :=
  let t := realToks.op k
  t.id != 0 && t.id != 3 && t.id != 4 && (table t.id).isSome &&
    (TP.nodeOf 0 t).led != Led.none && (TP.nodeOf 0 t).binding == realPowers.bp k

def checkPre (k : Nat) : Bool :=
  let t := realToks.pre k
  realPowers.stmt k || (t.id != 0 && t.id != 3 && t.id != 4 && (table t.id).isSome &&
    (TP.nodeOf 0 t).nud == Nud.prefix && (TP.nodeOf 0 t).binding + 20 == realPowers.pbp k)

/-- the parser model's own table (Parser.lean, C07 — a hand copy of astNodeMap) agrees with the operator table
    regenerated from parser.go: every infix / prefix operator has a token with that node name, denotation and
    binding. NOT an obligation (a harmless renumbering of the bindings in parser.go makes it false without any
    change of behaviour): it is the HYPOTHESIS under which the theorems on `Ecal.Parse.run` speak about the code; the
    check reports its value in the evidence (`parser_model_table_agrees`). -/
def tablesAgree : Bool :=
  (List.range infixOps.length).all checkOp && (List.range prefixOps.length).all checkPre

def checkOpF (k : Nat) : Bool :=
  let t := realToks.op k
  t.id != T_DOT && t.id != T_LPAREN && t.id != T_LBRACK && (TP.nodeOf 0 t).tok == some t

/-- no infix operator token of the table can be taken for the continuation of an identifier (`.`, `(`, `[`) -/
theorem op_followers_ok : (List.range infixOps.length).all checkOpF = true := by decide

theorem good_realToks (table_agrees : tablesAgree = true) : Good realToks realPowers okB okP where
  atom n := by
    by_cases h : n % 2 = 0
    · refine ⟨?_, Or.inl ?_⟩
      · show TP.Real (if n % 2 = 0 then _ else _)
        rw [if_pos h]
        show (6 : Nat) ≠ 0 ∧ (6 : Nat) ≠ 3 ∧ (6 : Nat) ≠ 4 ∧ (table 6).isSome = true
        decide
      · show (TP.nodeOf 0 (if n % 2 = 0 then _ else _)).nud = _
        rw [if_pos h]; rfl
    · refine ⟨?_, Or.inr ⟨?_, ?_⟩⟩
      · show TP.Real (if n % 2 = 0 then _ else _)
        rw [if_neg h]
        show (7 : Nat) ≠ 0 ∧ (7 : Nat) ≠ 3 ∧ (7 : Nat) ≠ 4 ∧ (table 7).isSome = true
        decide
      · show (TP.nodeOf 0 (if n % 2 = 0 then _ else _)).nud = _
        rw [if_neg h]; rfl
      · show (TP.nodeOf 0 (if n % 2 = 0 then _ else _)).tok = some (if n % 2 = 0 then _ else _)
        rw [if_neg h]; rfl
  op k hk := by
    have hk' : k < infixOps.length := by simpa [okB] using hk
    have := List.all_eq_true.mp (Bool.and_eq_true_iff.mp table_agrees).1 k (List.mem_range.mpr hk')
    simp only [checkOp, Bool.and_eq_true, bne_iff_ne, ne_eq, beq_iff_eq] at this
    obtain ⟨⟨⟨⟨⟨h0, h3⟩, h4⟩, hs⟩, hl⟩, hb⟩ := this
    have hf := List.all_eq_true.mp op_followers_ok k (List.mem_range.mpr hk')
    simp only [checkOpF, Bool.and_eq_true, bne_iff_ne, ne_eq, beq_iff_eq] at hf
    obtain ⟨⟨⟨f1, f2⟩, f3⟩, f4⟩ := hf
    exact ⟨⟨h0, h3, h4, hs⟩, hl, hb, f1, f2, f3, f4⟩
  pre k hk := by
    simp only [okP, Bool.and_eq_true, decide_eq_true_eq, Bool.not_eq_true'] at hk
    have := List.all_eq_true.mp (Bool.and_eq_true_iff.mp table_agrees).2 k (List.mem_range.mpr hk.1)
    simp only [checkPre, hk.2, Bool.false_or, Bool.and_eq_true, bne_iff_ne, ne_eq, beq_iff_eq] at this
    obtain ⟨⟨⟨⟨⟨h0, h3⟩, h4⟩, hs⟩, hl⟩, hb⟩ := this
    exact ⟨⟨h0, h3, h4, hs⟩, hl, hb⟩
  lp := ⟨by unfold Real; decide, by decide⟩
  rp := ⟨by unfold Real; decide, by decide, by decide, by decide, by unfold FOK; decide⟩

end Ecal.C08.RP
