import Ecal.Lemmas.C03LexNumber
/-!
# C03 — the lexer model only ever APPENDS tokens

`Pre l l'`: the token list of `l'` extends that of `l`. Carried through every function of the
lexer model (the loops that never touch the token list are in `C03LexNumber`).
-/
namespace Ecal.Lex

def Pre (l l' : L) : Prop := ∃ more, l'.toks.toList = l.toks.toList ++ more

theorem Pre.refl (l : L) : Pre l l := ⟨[], by simp⟩
theorem Pre.of_eq {l l' : L} (h : l'.toks = l.toks) : Pre l l' := ⟨[], by simp [h]⟩
theorem Pre.trans {a b c : L} (h1 : Pre a b) (h2 : Pre b c) : Pre a c := by
  obtain ⟨m1, e1⟩ := h1
  obtain ⟨m2, e2⟩ := h2
  exact ⟨m1 ++ m2, by rw [e2, e1, List.append_assoc]⟩
theorem Pre.emit (l : L) (id : Nat) (val : List Nat) (ident ae : Bool) : Pre l (l.emit id val ident ae) :=
  ⟨[Tok.mk id l.start val ident ae l.skippedNl l.stamp.1 l.stamp.2], by simp [L.emit]⟩
theorem Pre.next (l : L) : Pre l (l.next).1 := Pre.of_eq (next_toks l)

theorem emitToken_pre (l : L) (id : Nat) : Pre l (l.emitToken id) := by
  unfold L.emitToken; split <;> exact Pre.emit _ _ _ _ _
theorem emitError_pre (l : L) (msg : String) : Pre l (l.emitError msg) := Pre.emit _ _ _ _ _

theorem sws_loop_pre (fuel : Nat) : ∀ (l : L) (r : Option Nat), Pre l (skipWhiteSpace.loop fuel l r).1 := by
  induction fuel with
  | zero => intro l r; exact Pre.refl l
  | succ n ih =>
    intro l r
    simp only [skipWhiteSpace.loop]
    by_cases hb : blank r = true
    · simp only [hb, if_true]
      have h1 : Pre l (if r = some 10 then { l.track r with skippedNl := l.skippedNl + 1 } else l) := by
        split
        · exact Pre.of_eq rfl
        · exact Pre.refl l
      generalize (if r = some 10 then ({ l.track r with skippedNl := l.skippedNl + 1 } : L) else l) = l1 at h1 ⊢
      by_cases hn : (l1.next).2 = none
      · simp only [hn, if_true]
        exact (h1.trans (Pre.next l1)).trans (emitToken_pre _ tEOF)
      · simp only [hn, if_false]
        exact (h1.trans (Pre.next l1)).trans (ih _ _)
    · simp only [hb]
      exact Pre.of_eq rfl

theorem sws_pre (l : L) : Pre l (skipWhiteSpace l).1 := by
  simp only [skipWhiteSpace]
  exact ((Pre.next l).trans (Pre.of_eq rfl)).trans (sws_loop_pre _ _ _)

theorem lexValue_pre (l : L) : Pre l (lexValue l).1 := by
  simp only [lexValue]
  have h0 : ((lexValueOpen l).1.next).1.toks = l.toks := by rw [next_toks, valueOpen_toks]
  generalize hres : lexValueLoop _ _ _ _ _ _ _ _ = res
  cases res with
  | none =>
    simp only [lexValueClose]
    exact (Pre.of_eq (l' := { ((lexValueOpen l).1.next).1 with pos := ((lexValueOpen l).1.next).1.inp.size }) h0).trans
      (emitError_pre _ _)
  | some x =>
    obtain ⟨l', a', b'⟩ := x
    have h1 : l'.toks = l.toks := (valueLoop_toks _ _ _ _ _ _ _ _ _ _ _ hres).trans h0
    simp only [lexValueClose]
    split
    · split
      · exact (Pre.of_eq h1).trans (emitError_pre _ _)
      · exact (Pre.of_eq h1).trans ((Pre.emit l' tSTRING _ false true).trans (Pre.of_eq rfl))
    · exact (Pre.of_eq h1).trans ((Pre.emit l' tSTRING _ false false).trans (Pre.of_eq rfl))

theorem lexCommentHash_pre (l : L) : Pre l (lexCommentHash l).1 := by
  simp only [lexCommentHash]
  have h1 : (hashLoop ({ l with start := l.pos } : L).inp.size.succ.succ { l with start := l.pos } (some 35)).1.toks = l.toks :=
    hashLoop_toks _ _ _
  split
  · exact (Pre.of_eq h1).trans (Pre.emit _ tPOSTCOMMENT _ false false)
  · exact (Pre.of_eq h1).trans ((Pre.emit _ tPOSTCOMMENT _ false false).trans (Pre.of_eq rfl))

theorem lexCommentBlock_pre (l : L) : Pre l (lexCommentBlock l).1 := by
  simp only [lexCommentBlock]
  split
  · exact (Pre.of_eq (by simp [next_toks])).trans (emitError_pre _ _)
  · rename_i l' a' b' hres
    have h1 : l'.toks = l.toks := by
      rw [blockLoop_toks _ _ _ _ _ _ _ _ hres]; simp [next_toks]
    exact (Pre.of_eq h1).trans ((Pre.emit l' tPRECOMMENT (l'.slice l'.start (l'.pos - 1)) false false).trans
      (Pre.of_eq (by simp [next_toks])))

theorem lexComment_pre (l : L) : Pre l (lexComment l).1 := by
  simp only [lexComment]
  split
  · exact (Pre.next l).trans (lexCommentHash_pre _)
  · exact (Pre.next l).trans (lexCommentBlock_pre _)

theorem lexWordText_pre (l : L) : Pre l (lexWordText l).1 := by
  simp only [lexWordText]
  have h0 : Pre l (lexTextBlock l) := Pre.of_eq (textBlock_toks l)
  split
  · exact h0.trans (emitToken_pre _ _)
  · split
    · exact h0.trans (emitError_pre _ _)
    · exact h0.trans (Pre.emit _ tIDENTIFIER _ true false)

theorem lexWord_pre (l : L) : Pre l (lexWord l).1 := by
  simp only [lexWord]
  have h0 : Pre l (lexNumberBlock l) := Pre.of_eq (numberBlock_toks l)
  split
  · exact h0.trans (Pre.emit _ tNUMBER _ false false)
  · refine h0.trans ?_
    split
    · exact (Pre.of_eq (backup_toks _ _)).trans (lexWordText_pre _)
    · exact lexWordText_pre _

theorem lexToken_pre (l : L) : Pre l (lexToken l).1 := by
  simp only [lexToken]
  split
  · split
    · exact (sws_pre l).trans (lexComment_pre _)
    · exact sws_pre l
  · split
    · split
      · exact (sws_pre l).trans (lexValue_pre _)
      · exact sws_pre l
    · exact (Pre.of_eq (l := l) (l' := { l with start := l.pos }) rfl).trans (lexWord_pre _)

theorem lex_loop_pre (fuel : Nat) : ∀ (l : L), Pre l (lex.loop fuel l) := by
  induction fuel with
  | zero => intro l; exact Pre.refl l
  | succ n ih =>
    intro l
    simp only [lex.loop]
    have h1 := (lexToken_pre l).trans (sws_pre (lexToken l).1)
    split
    · exact h1
    · exact h1.trans (ih _)

/-- the tokens of the first round stay at the front -/
theorem lex_loop_first_pre (n : Nat) (l : L) : Pre (lexToken l).1 (lex.loop (n + 1) l) := by
  simp only [lex.loop]
  have h1 := sws_pre (lexToken l).1
  split
  · exact h1
  · exact h1.trans (lex_loop_pre _ _)

end Ecal.Lex
