import Ecal.Lemmas.PriorityHeap
/-!
The invariant of the root monitor's priority bookkeeping (current code, `Book.current`):
`incomplete` counts the active monitors per priority, `priorities` holds exactly the priorities
with an active monitor, each once, and its root is a minimum.
-/
namespace Ecal.Priority.Book
open Ecal.Priority.Heap

theorem ilt_strict : StrictTotal ilt :=
  ⟨by intro a b h; simp [ilt] at *; omega, by intro a b c h1 h2; simp [ilt] at *; omega⟩

theorem removeFirst_perm (h : List Int) (r : Int) : (removeFirst h r).Perm (h.erase r) := by
  unfold removeFirst
  simp only
  split
  · rename_i hi
    rw [List.erase_eq_eraseIdx_of_idxOf (i := h.idxOf r) rfl]
    split
    · exact fix_perm _ _ _
    · rename_i hl
      rw [List.eraseIdx_eq_take_drop_succ]
      have : List.drop (h.idxOf r + 1) h = [] := List.drop_eq_nil_of_le (by omega)
      rw [this]; simp
  · rename_i hi
    have : r ∉ h := by
      intro hm; exact hi (List.idxOf_lt_length_iff.mpr hm)
    rw [List.erase_of_not_mem this]

/-- a monitor counts for priority `p` -/
def isAct (p : Int) (m : Mon) : Bool := m.active && m.prio == p

theorem cnt_def (s : RM) (p : Int) : cnt s p = s.mons.countP (isAct p) := rfl

structure Inv (s : RM) : Prop where
  counts  : ∀ p, s.incomplete p = if cnt s p = 0 then none else some (cnt s p : Int)
  mem     : ∀ p, p ∈ s.priorities ↔ 0 < cnt s p
  nodup   : s.priorities.Nodup
  rootMin : RootMin ilt s.priorities
  flags   : ∀ m ∈ s.mons, m.skipped = true → m.finished = true

theorem inv_init : Inv {} := by
  refine ⟨?_, ?_, ?_, ?_, ?_⟩
  · intro p; simp [cnt, Mon.active]
  · intro p; simp [cnt, Mon.active]
  · simp
  · intro r k x hr; simp at hr
  · intro m hm; simp at hm; subst hm; simp

theorem cnt_set (s : RM) (k : Nat) (m m' : Mon) (hk : s.mons[k]? = some m) (p : Int)
    (f : Int → Option Int) (h : List Int) :
    cnt { incomplete := f, priorities := h, mons := s.mons.set k m' } p
      = cnt s p - (if isAct p m then 1 else 0) + (if isAct p m' then 1 else 0) := by
  obtain ⟨hlt, rfl⟩ := List.getElem?_eq_some_iff.mp hk
  simp only [cnt_def]
  exact List.countP_set hlt

theorem cnt_pos_of (s : RM) (k : Nat) (m : Mon) (hk : s.mons[k]? = some m) (p : Int)
    (h : isAct p m = true) : 0 < cnt s p := by
  rw [cnt_def, List.countP_pos_iff]
  exact ⟨m, List.mem_of_getElem? hk, h⟩

theorem flags_set (s : RM) (k : Nat) (m' : Mon)
    (hf : ∀ m ∈ s.mons, m.skipped = true → m.finished = true)
    (h' : m'.skipped = true → m'.finished = true) :
    ∀ m ∈ s.mons.set k m', m.skipped = true → m.finished = true := by
  intro m hm
  rcases List.mem_or_eq_of_mem_set hm with h | h
  · exact hf m h
  · subst h; exact h'

theorem inv_step (s s' : RM) (op : Op) (h : Inv s) (hs : step current s op = some s') : Inv s' := by
  cases op with
  | newChild p =>
    simp only [step, Option.some.injEq] at hs
    subst hs
    have hc : ∀ q, cnt { s with mons := s.mons ++ [{ prio := p }] } q = cnt s q := by
      intro q; simp [cnt, Mon.active]
    refine ⟨?_, ?_, h.nodup, h.rootMin, ?_⟩
    · intro q; rw [hc]; exact h.counts q
    · intro q; rw [hc]; exact h.mem q
    · intro m hm
      simp only [List.mem_append, List.mem_singleton] at hm
      rcases hm with hm | hm
      · exact h.flags m hm
      · subst hm; simp
  | activate k =>
    simp only [step] at hs
    split at hs
    · cases hs
    · rename_i m hk
      split at hs
      · cases hs
      · rename_i hfl
        simp only [Bool.or_eq_true, not_or, Bool.not_eq_true] at hfl
        obtain ⟨hfin, hact⟩ := hfl
        simp only [Option.some.injEq] at hs
        have hsk : m.skipped = false := by
          cases hsk : m.skipped with
          | false => rfl
          | true => have := h.flags m (List.mem_of_getElem? hk) hsk; simp_all
        -- counts after the call
        have hc : ∀ (f : Int → Option Int) (hp : List Int) q,
            cnt { incomplete := f, priorities := hp,
                  mons := s.mons.set k { m with activated := true } } q
              = cnt s q + (if q = m.prio then 1 else 0) := by
          intro f hp q
          rw [cnt_set s k m _ hk]
          by_cases hq : q = m.prio
          · subst hq; simp [isAct, Mon.active, hact, hsk, hfin]
          · have hq' : ¬ m.prio = q := fun e => hq e.symm
            simp [isAct, Mon.active, hact, hsk, hfin, hq, hq']
        have hfl' : ∀ x ∈ s.mons.set k { m with activated := true },
            x.skipped = true → x.finished = true :=
          flags_set s k _ h.flags (by simp [hsk])
        unfold descActivated at hs
        have hcm := h.counts m.prio
        split at hs
        · -- first monitor of this priority: heap.Push
          rename_i hnone
          have hz : cnt s m.prio = 0 := by
            rw [hnone] at hcm
            by_cases hne : cnt s m.prio = 0
            · exact hne
            · simp [hne] at hcm
          dsimp only at hs
          subst hs
          refine ⟨?_, ?_, ?_, ?_, hfl'⟩
          · intro q
            simp only [hc, upd]
            by_cases hq : q = m.prio
            · subst hq; simp [hz]
            · simp [hq, h.counts q]
          · intro q
            simp only [hc]
            rw [(push_perm ilt s.priorities m.prio).mem_iff, List.mem_cons, h.mem q]
            by_cases hq : q = m.prio
            · subst hq; simp
            · simp [hq]
          · rw [(push_perm ilt s.priorities m.prio).nodup_iff, List.nodup_cons]
            refine ⟨?_, h.nodup⟩
            intro hm; have := (h.mem m.prio).mp hm; omega
          · exact push_rootMin ilt_strict _ _ h.rootMin
        · rename_i v hsome
          have hpos : cnt s m.prio ≠ 0 := by
            intro hz; rw [hsome] at hcm; simp [hz] at hcm
          have hv : v = (cnt s m.prio : Int) := by
            rw [hsome] at hcm; simp [hpos] at hcm; exact hcm
          dsimp only at hs
          subst hs
          refine ⟨?_, ?_, h.nodup, h.rootMin, hfl'⟩
          · intro q
            simp only [hc, upd]
            by_cases hq : q = m.prio
            · subst hq; simp [hv]
            · simp [hq, h.counts q]
          · intro q
            simp only [hc]
            rw [h.mem q]
            by_cases hq : q = m.prio
            · subst hq; simp; omega
            · simp [hq]
  | skip k =>
    simp only [step] at hs
    split at hs
    · cases hs
    · rename_i m hk
      split at hs
      · cases hs
      · rename_i hfl
        simp only [Bool.or_eq_true, not_or, Bool.not_eq_true] at hfl
        obtain ⟨hfin, hact⟩ := hfl
        simp only [Option.some.injEq] at hs
        simp only [descFinished, current, Bool.true_and, Bool.not_true, Bool.and_false,
          Bool.false_eq_true, if_false] at hs
        subst hs
        have hc : ∀ q,
            cnt { incomplete := s.incomplete, priorities := s.priorities,
                  mons := s.mons.set k { m with activated := true, skipped := true, finished := true } } q
              = cnt s q := by
          intro q
          rw [cnt_set s k m _ hk]
          simp [isAct, Mon.active, hact]
        refine ⟨?_, ?_, h.nodup, h.rootMin, flags_set s k _ h.flags (by simp)⟩
        · intro q; rw [hc]; exact h.counts q
        · intro q; rw [hc]; exact h.mem q
  | finish k =>
    simp only [step] at hs
    split at hs
    · cases hs
    · rename_i m hk
      split at hs
      · cases hs
      · rename_i hfl
        simp only [Bool.or_eq_true, not_or, Bool.not_eq_true, Bool.not_eq_eq_eq_not,
          Bool.not_true, Bool.not_false] at hfl
        obtain ⟨hact, hfin⟩ := hfl
        have hact : m.activated = true := by simpa using hact
        simp only [Option.some.injEq] at hs
        have hsk : m.skipped = false := by
          cases hsk : m.skipped with
          | false => rfl
          | true => have := h.flags m (List.mem_of_getElem? hk) hsk; simp_all
        have hma : isAct m.prio m = true := by simp [isAct, Mon.active, hact, hsk, hfin]
        have hpos : 0 < cnt s m.prio := cnt_pos_of s k m hk _ hma
        have hc : ∀ (f : Int → Option Int) (hp : List Int) q,
            cnt { incomplete := f, priorities := hp,
                  mons := s.mons.set k { prio := m.prio, activated := true, finished := true } } q
              = cnt s q - (if q = m.prio then 1 else 0) := by
          intro f hp q
          rw [cnt_set s k m _ hk]
          by_cases hq : q = m.prio
          · subst hq; simp [isAct, Mon.active, hact, hsk, hfin]
          · have hq' : ¬ m.prio = q := fun e => hq e.symm
            simp [isAct, Mon.active, hact, hsk, hfin, hq, hq']
        have hfl' : ∀ x ∈ s.mons.set k { prio := m.prio, activated := true, finished := true },
            x.skipped = true → x.finished = true :=
          flags_set s k _ h.flags (by simp)
        have hcm := h.counts m.prio
        have hne : cnt s m.prio ≠ 0 := by omega
        simp only [hne, if_false] at hcm
        simp only [descFinished, current, hact, hsk, Bool.true_and, Bool.not_false,
          Bool.and_false, if_true, hcm, Option.getD_some] at hs
        split at hs
        · -- last monitor of this priority: RemoveFirst, Init, delete
          rename_i hv
          have h1 : cnt s m.prio = 1 := by
            simp only [beq_iff_eq] at hv; omega
          dsimp only at hs
          subst hs
          have hperm : (Heap.init ilt (removeFirst s.priorities m.prio)).Perm
              (s.priorities.erase m.prio) :=
            (init_perm _ _).trans (removeFirst_perm _ _)
          refine ⟨?_, ?_, ?_, ?_, hfl'⟩
          · intro q
            simp only [hc, upd]
            by_cases hq : q = m.prio
            · subst hq; simp [h1]
            · simp [hq, h.counts q]
          · intro q
            simp only [hc]
            rw [hperm.mem_iff, h.nodup.mem_erase_iff, h.mem q]
            by_cases hq : q = m.prio
            · subst hq; simp [h1]
            · simp [hq]
          · rw [hperm.nodup_iff]; exact h.nodup.erase _
          · exact init_rootMin ilt_strict _
        · rename_i hv
          have h1 : cnt s m.prio ≠ 1 := by
            simp only [beq_iff_eq] at hv; omega
          dsimp only at hs
          subst hs
          refine ⟨?_, ?_, h.nodup, h.rootMin, hfl'⟩
          · intro q
            simp only [hc, upd]
            by_cases hq : q = m.prio
            · subst hq
              have : cnt s m.prio - 1 ≠ 0 := by omega
              simp [this]; omega
            · simp [hq, h.counts q]
          · intro q
            simp only [hc]
            rw [h.mem q]
            by_cases hq : q = m.prio
            · subst hq; simp; omega
            · simp [hq]

theorem inv_run : ∀ (ops : List Op) (s s' : RM), Inv s → run current s ops = some s' → Inv s' := by
  intro ops
  induction ops with
  | nil => intro s s' h hr; simp [run] at hr; subst hr; exact h
  | cons op ops ih =>
    intro s s' h hr
    simp only [run] at hr
    split at hr
    · cases hr
    · rename_i s1 hs1
      exact ih s1 s' (inv_step s s1 op h hs1) hr

end Ecal.Priority.Book
