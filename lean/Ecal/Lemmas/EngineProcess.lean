import Ecal.Lemmas.EngineBasic
/-! `ProcessEvent`: de-duplication by name, scope filter, suppression, sort. -/
namespace Ecal.Engine

theorem triggering_names (sc : Scope) : ∀ (cands : List Rule) (seen : List String),
    ((triggering sc cands seen).map (·.name)).Nodup ∧ ∀ r ∈ triggering sc cands seen, r.name ∉ seen := by
  intro cands
  induction cands with
  | nil => intro seen; simp [triggering]
  | cons c rest ih =>
    intro seen
    simp only [triggering]
    split
    · exact ih seen
    · next hc =>
      have h2 := ih (c.name :: seen)
      split
      · refine ⟨?_, ?_⟩
        · simp only [List.map_cons, List.nodup_cons]
          refine ⟨?_, h2.1⟩
          intro hm
          obtain ⟨r, hr, hn⟩ := List.mem_map.mp hm
          exact h2.2 r hr (by simp [hn])
        · intro r hr
          simp only [List.mem_cons] at hr
          rcases hr with rfl | hr
          · exact hc
          · intro hs; exact h2.2 r hr (by simp [hs])
      · exact ⟨h2.1, fun r hr hs => h2.2 r hr (by simp [hs])⟩

theorem mem_triggering (sc : Scope) : ∀ (cands : List Rule) (seen : List String),
    (∀ a ∈ cands, ∀ b ∈ cands, a.name = b.name → a = b) →
    ∀ r, r ∈ triggering sc cands seen ↔ (r.name ∉ seen ∧ r ∈ cands ∧ sc.isAllowedAll r.scope = true) := by
  intro cands
  induction cands with
  | nil => intro seen _ r; simp [triggering]
  | cons c rest ih =>
    intro seen H r
    have H' : ∀ a ∈ rest, ∀ b ∈ rest, a.name = b.name → a = b :=
      fun a ha b hb => H a (List.mem_cons_of_mem _ ha) b (List.mem_cons_of_mem _ hb)
    have Hc : ∀ b ∈ rest, b.name = c.name → b = c :=
      fun b hb hn => H b (List.mem_cons_of_mem _ hb) c (List.mem_cons_self ..) hn
    simp only [triggering]
    split
    · next hc =>
      rw [ih seen H' r]
      constructor
      · rintro ⟨h1, h2, h3⟩; exact ⟨h1, List.mem_cons_of_mem _ h2, h3⟩
      · rintro ⟨h1, h2, h3⟩
        simp only [List.mem_cons] at h2
        rcases h2 with rfl | h2
        · exact absurd hc h1
        · exact ⟨h1, h2, h3⟩
    · next hc =>
      split
      · next hal =>
        simp only [List.mem_cons, ih (c.name :: seen) H' r]
        constructor
        · rintro (rfl | ⟨h1, h2, h3⟩)
          · exact ⟨hc, Or.inl rfl, hal⟩
          · exact ⟨fun hs => h1 (by simp [hs]), Or.inr h2, h3⟩
        · rintro ⟨h1, h2 | h2, h3⟩
          · exact Or.inl h2
          · by_cases hn : r.name = c.name
            · exact Or.inl (Hc r h2 hn)
            · exact Or.inr ⟨by simp [hn, h1], h2, h3⟩
      · next hal =>
        simp only [List.mem_cons, ih (c.name :: seen) H' r]
        constructor
        · rintro ⟨h1, h2, h3⟩
          exact ⟨fun hs => h1 (by simp [hs]), Or.inr h2, h3⟩
        · rintro ⟨h1, h2 | h2, h3⟩
          · subst h2; exact absurd h3 hal
          · by_cases hn : r.name = c.name
            · have := Hc r h2 hn; subst this; exact absurd h3 hal
            · exact ⟨by simp [hn, h1], h2, h3⟩

/-- what runs for a candidate list in which a name determines the rule -/
theorem execOrder_spec (sc : Scope) (cands : List Rule)
    (H : ∀ a ∈ cands, ∀ b ∈ cands, a.name = b.name → a = b) :
    ((execOrder sc cands).map (·.name)).Nodup ∧
    ∀ r, r ∈ execOrder sc cands ↔
      (r ∈ cands ∧ sc.isAllowedAll r.scope = true ∧
        ¬ ∃ r' ∈ cands, sc.isAllowedAll r'.scope = true ∧ r.name ∈ r'.suppress) := by
  have hperm := List.mergeSort_perm (executing (triggering sc cands [])) (fun a b => decide (a.prio ≤ b.prio))
  have hmem := mem_triggering sc cands [] H
  refine ⟨?_, ?_⟩
  · have h1 := (triggering_names sc cands []).1
    have h2 : ((executing (triggering sc cands [])).map (·.name)).Nodup :=
      List.Nodup.sublist (List.Sublist.map _ List.filter_sublist) h1
    exact (List.Perm.nodup_iff (List.Perm.map _ hperm)).mpr h2
  · intro r
    unfold execOrder
    rw [List.Perm.mem_iff hperm]
    simp only [executing, List.mem_filter, hmem, List.mem_flatMap, decide_eq_true_eq]
    constructor
    · rintro ⟨⟨_, h2, h3⟩, h4⟩
      refine ⟨h2, h3, ?_⟩
      rintro ⟨r', hr', hal, hs⟩
      exact h4 ⟨r', ⟨by simp, hr', hal⟩, hs⟩
    · rintro ⟨h2, h3, h4⟩
      refine ⟨⟨by simp, h2, h3⟩, ?_⟩
      rintro ⟨r', ⟨_, hr', hal⟩, hs⟩
      exact h4 ⟨r', hr', hal, hs⟩

/-! ### the execution loop -/

theorem runRules_off (fails : Rule → Bool) (l : List Rule) : runRules false fails l = l := by
  induction l with
  | nil => rfl
  | cons r rest ih => simp [runRules, ih]

theorem runRules_noerr (ff : Bool) (fails : Rule → Bool) (l : List Rule) (h : ∀ r ∈ l, fails r = false) :
    runRules ff fails l = l := by
  induction l with
  | nil => rfl
  | cons r rest ih =>
    simp [runRules, h r (List.mem_cons_self ..), ih (fun q hq => h q (List.mem_cons_of_mem _ hq))]

theorem runRules_on (fails : Rule → Bool) (l : List Rule) :
    runRules true fails l =
      l.takeWhile (fun r => !fails r) ++ (l.dropWhile (fun r => !fails r)).take 1 := by
  induction l with
  | nil => rfl
  | cons r rest ih =>
    simp only [runRules, Bool.true_and, List.takeWhile_cons, List.dropWhile_cons]
    cases hf : fails r <;> simp [ih]

theorem runRules_prefix (ff : Bool) (fails : Rule → Bool) (l : List Rule) : runRules ff fails l <+: l := by
  induction l with
  | nil => exact List.prefix_refl _
  | cons r rest ih =>
    simp only [runRules]
    split
    · exact ⟨rest, rfl⟩
    · exact (List.prefix_cons_inj r).mpr ih

/-! ### the executable specification -/

theorem mem_firesList (rx : Nat → Val → Bool) (rules : List Rule) (allowed : List Seg → Bool) (ev : Event) (n : String) :
    n ∈ Spec.firesList rx rules allowed ev ↔ Spec.fires rx rules allowed ev n := by
  simp only [Spec.firesList, Spec.fires, List.mem_filter, List.mem_map, List.mem_flatMap, decide_eq_true_eq]
  constructor
  · rintro ⟨⟨r, ⟨hr, ht⟩, rfl⟩, hno⟩
    exact ⟨⟨r, hr, rfl, ht⟩, fun ⟨r', hr', ht', hs⟩ => hno ⟨r', ⟨hr', ht'⟩, hs⟩⟩
  · rintro ⟨⟨r, hr, rfl, ht⟩, hno⟩
    exact ⟨⟨r, ⟨hr, ht⟩, rfl⟩, fun ⟨r', ⟨hr', ht'⟩, hs⟩ => hno ⟨r', hr', ht', hs⟩⟩

end Ecal.Engine
