import Ecal.Lemmas.EngineBits
import Ecal.Lemmas.EngineIndex
/-!
The bit-level invariant of a state leaf and the instance of `LeafLaw` for it.

`P : Nat → Option Pat` is the column of one state key: the pattern that rule number `i` of the leaf
has for that key (none: the rule does not constrain the key, or there is no rule `i`).
-/
namespace Ecal.Engine

def isAnyRx : Option Pat → Bool
  | some .any => true
  | some (.rx _) => true
  | _ => false

/-- the masks of a key matcher say exactly what the column says -/
structure KMOK (P : Nat → Option Pat) (km : KeyMatcher) : Prop where
  bits : ∀ i, km.bits.getLsbD i = (P i).isSome
  any : ∀ i, km.bitsAny.getLsbD i = isAnyRx (P i)
  value : ∀ c i, ((alookup c km.bitsValue).getD 0).getLsbD i = decide (P i = some (.atom c))
  deep : ∀ c i, ((alookup c km.bitsDeep).getD 0).getLsbD i = decide (P i = some (.deep c))
  rx1 : ∀ e ∈ km.bitsRegexes, ∃ i, i < 64 ∧ e.1 = (1 : W) <<< i ∧ P i = some (.rx e.2)
  rx2 : ∀ i id, P i = some (.rx id) → ((1 : W) <<< i, id) ∈ km.bitsRegexes

theorem KMOK.lt {P km} (h : KMOK P km) {i : Nat} (hs : (P i).isSome = true) : i < 64 := by
  by_cases hi : i < 64
  · exact hi
  · have := h.bits i
    rw [BitVec.getLsbD_of_ge _ i (by omega), hs] at this
    exact absurd this (by simp)

theorem KMOK.empty : KMOK (fun _ => none) {} := by
  refine ⟨?_, ?_, ?_, ?_, ?_, ?_⟩ <;> simp [isAnyRx, alookup]

/-! ### the meaning of `unmatch` and `match` for one rule bit -/

theorem kmUnmatch_sem {P km} (h : KMOK P km) (cur : W) (i : Nat) :
    (kmUnmatch km cur).getLsbD i = (cur.getLsbD i && (P i).isNone) := by
  rw [kmUnmatch_bit, h.bits]
  cases P i <;> simp

/-- the mask stored for the value of the event (0 if none) -/
def addOf (km : KeyMatcher) : Val → W
  | .null => 0
  | .atom c => (alookup c km.bitsValue).getD 0
  | .deep c => (alookup c km.bitsDeep).getD 0

theorem kmToRemove_eq (km : KeyMatcher) (v : Val) :
    kmToRemove km v = (km.bitsAny ||| addOf km v) ^^^ km.bits := by
  cases v with
  | null => simp [kmToRemove, addOf]
  | atom c => simp only [kmToRemove, addOf]; cases alookup c km.bitsValue <;> simp
  | deep c => simp only [kmToRemove, addOf]; cases alookup c km.bitsDeep <;> simp

theorem rxStep_bit (rx : Nat → Val → Bool) (v : Val) (acc : W) (e : W × Nat) (j : Nat) (hj : j < 64)
    (he : e.1 = (1 : W) <<< j) (i : Nat) :
    (rxStep rx v acc e).getLsbD i = (acc.getLsbD i && !(decide (i = j) && !rx e.2 v)) := by
  by_cases hi : i < 64
  · unfold rxStep
    rw [he]
    by_cases hb : acc.getLsbD j = true
    · have hne := and_onehot_ne_zero_of_bit hj hb
      cases hr : rx e.2 v with
      | true => simp [hr]
      | false =>
        simp only [hne, hr, ne_eq, not_false_eq_true, and_self, if_true, BitVec.getLsbD_xor, BitVec.getLsbD_and,
          onehot_bit j i hi]
        by_cases hij : i = j
        · subst hij; simp [hb]
        · simp [hij]
    · have hz : ¬ (acc &&& (1 : W) <<< j ≠ 0) := fun hne => hb (and_onehot_ne_zero hne)
      have hb' : acc.getLsbD j = false := by simpa using hb
      simp only [hz, false_and, if_false]
      by_cases hij : i = j
      · subst hij; simp [hb']
      · simp [hij]
  · have h64 : 64 ≤ i := by omega
    simp [BitVec.getLsbD_of_ge _ i h64]

theorem rxFold_bit (rx : Nat → Val → Bool) (v : Val) (i : Nat) : ∀ (es : List (W × Nat)) (acc : W),
    (∀ e ∈ es, ∃ j, j < 64 ∧ e.1 = (1 : W) <<< j) →
    (es.foldl (rxStep rx v) acc).getLsbD i =
      (acc.getLsbD i && !(es.any fun e => decide (e.1 = (1 : W) <<< i) && !rx e.2 v)) := by
  intro es
  induction es with
  | nil => intro acc _; simp
  | cons e rest ih =>
    intro acc h
    obtain ⟨j, hj, he⟩ := h e (List.mem_cons_self ..)
    rw [List.foldl_cons, ih _ (fun e' he' => h e' (List.mem_cons_of_mem _ he')), rxStep_bit rx v acc e j hj he i]
    simp only [List.any_cons]
    by_cases hi : i < 64
    · have hd : decide (e.1 = (1 : W) <<< i) = decide (i = j) := by
        rw [he]
        by_cases hij : i = j
        · subst hij; simp
        · have : ¬ ((1 : W) <<< j = (1 : W) <<< i) := fun hc => hij (onehot_inj hj hc).symm
          rw [decide_eq_false this, decide_eq_false hij]
      rw [hd]
      cases acc.getLsbD i <;> cases decide (i = j) <;> cases rx e.2 v <;> simp
    · simp [BitVec.getLsbD_of_ge _ i (by omega : 64 ≤ i)]

theorem rxAny_eq {P km} (h : KMOK P km) (rx : Nat → Val → Bool) (v : Val) (i : Nat) :
    (km.bitsRegexes.any fun e => decide (e.1 = (1 : W) <<< i) && !rx e.2 v) =
      (match P i with | some (.rx id) => !rx id v | _ => false) := by
  -- an entry for bit `i` carries the regex of rule `i`
  have key : ∀ e ∈ km.bitsRegexes, e.1 = (1 : W) <<< i → P i = some (.rx e.2) := by
    intro e he hei
    obtain ⟨j, hj, hej, hp⟩ := h.rx1 e he
    have : j = i := onehot_inj hj (hej.symm.trans hei)
    subst this; exact hp
  cases hb : (km.bitsRegexes.any fun e => decide (e.1 = (1 : W) <<< i) && !rx e.2 v) with
  | true =>
    obtain ⟨e, he, hc⟩ := List.any_eq_true.mp hb
    simp only [Bool.and_eq_true, decide_eq_true_eq] at hc
    rw [key e he hc.1]
    exact hc.2.symm
  | false =>
    cases hp : P i with
    | none => rfl
    | some p =>
      cases p with
      | rx id =>
        have hm := h.rx2 i id hp
        have := List.any_eq_false.mp hb _ hm
        simpa using this
      | any => rfl
      | atom c => rfl
      | deep c => rfl

theorem kmMatch_sem {P km} (h : KMOK P km) (rx : Nat → Val → Bool) (cur : W) (v : Val) (i : Nat) :
    (kmMatch rx km cur v).getLsbD i =
      (cur.getLsbD i && (match P i with | none => true | some p => Spec.admits rx p v)) := by
  unfold kmMatch
  have hform : ∀ e ∈ km.bitsRegexes, ∃ j, j < 64 ∧ e.1 = (1 : W) <<< j := by
    intro e he
    obtain ⟨j, hj, hej, _⟩ := h.rx1 e he
    exact ⟨j, hj, hej⟩
  have h1 : km.bitsAny.getLsbD i = true → km.bits.getLsbD i = true := by
    rw [h.any, h.bits]; cases P i with
    | none => simp [isAnyRx]
    | some p => simp
  have h2 : (addOf km v).getLsbD i = true → km.bits.getLsbD i = true := by
    rw [h.bits]
    cases v with
    | null => simp [addOf]
    | atom c => simp only [addOf, h.value]; intro hc; simp at hc; simp [hc]
    | deep c => simp only [addOf, h.deep]; intro hc; simp at hc; simp [hc]
  simp only
  rw [rxFold_bit rx v i _ _ hform, kmToRemove_eq, matchStep_bit' _ _ _ _ i h1 h2, rxAny_eq h rx v i, h.bits, h.any]
  cases hp : P i with
  | none => simp [isAnyRx]
  | some p =>
    cases p with
    | any => simp [isAnyRx, Spec.admits]
    | rx id => simp [isAnyRx, Spec.admits]
    | atom c =>
      cases v with
      | null => simp [isAnyRx, Spec.admits, addOf]
      | atom c' =>
        have hv := h.value c' i
        rw [hp] at hv
        simp only [addOf, hv, isAnyRx, Spec.admits]; simp [eq_comm]
      | deep c' =>
        have hv := h.deep c' i
        rw [hp] at hv
        simp only [addOf, hv, isAnyRx, Spec.admits]; simp
    | deep c =>
      cases v with
      | null => simp [isAnyRx, Spec.admits, addOf]
      | atom c' =>
        have hv := h.value c' i
        rw [hp] at hv
        simp only [addOf, hv, isAnyRx, Spec.admits]; simp
      | deep c' =>
        have hv := h.deep c' i
        rw [hp] at hv
        simp only [addOf, hv, isAnyRx, Spec.admits]; simp [eq_comm]

/-! ### `addRule` keeps the masks in step with the column -/

theorem mem_aset_self [DecidableEq κ] (k : κ) (v : β) (l : List (κ × β)) : (k, v) ∈ aset k v l := by
  induction l with
  | nil => simp [aset]
  | cons kv rest ih =>
    obtain ⟨k', v'⟩ := kv
    simp only [aset]
    split <;> simp [ih]

theorem mem_aset_of_ne [DecidableEq κ] {k : κ} {v : β} {l : List (κ × β)} {p : κ × β} (hp : p ∈ l) (hne : p.1 ≠ k) :
    p ∈ aset k v l := by
  induction l with
  | nil => simp at hp
  | cons kv rest ih =>
    obtain ⟨k', v'⟩ := kv
    simp only [aset]
    simp only [List.mem_cons] at hp
    split
    · next hk =>
      rcases hp with rfl | hp
      · exact absurd hk hne
      · exact List.mem_cons_of_mem _ hp
    · rcases hp with rfl | hp
      · exact List.mem_cons_self ..
      · exact List.mem_cons_of_mem _ (ih hp)

theorem getD_alookup_aset (c c0 : Nat) (x : W) (l : List (Nat × W)) :
    (alookup c (aset c0 x l)).getD 0 = if c = c0 then x else (alookup c l).getD 0 := by
  rw [alookup_aset]; split <;> rfl

theorem kmAdd_bits (km : KeyMatcher) (bit : W) (p : Pat) : (kmAdd km bit p).bits = km.bits ||| bit := by
  cases p <;> rfl

/-- the column after rule number `n` got pattern `p0` for this key -/
def updCol (P : Nat → Option Pat) (n : Nat) (p0 : Pat) : Nat → Option Pat :=
  fun i => if i = n then some p0 else P i

theorem kmAdd_ok {P km} (h : KMOK P km) (n : Nat) (hn : n < 64) (hP : P n = none) (p0 : Pat) :
    KMOK (updCol P n p0) (kmAdd km ((1 : W) <<< n) p0) := by
  have hbits : ∀ i, (kmAdd km ((1 : W) <<< n) p0).bits.getLsbD i = (updCol P n p0 i).isSome := by
    intro i
    rw [kmAdd_bits, or_onehot_bit _ _ _ hn, h.bits, updCol]
    by_cases hi : i = n <;> simp [hi]
  -- an old regex entry is about a rule before `n`
  have hold : ∀ e ∈ km.bitsRegexes, ∃ i, i < 64 ∧ e.1 = (1 : W) <<< i ∧ updCol P n p0 i = some (.rx e.2) := by
    intro e he
    obtain ⟨i, hi, hei, hp⟩ := h.rx1 e he
    have hne : i ≠ n := fun hc => by rw [hc, hP] at hp; exact absurd hp (by simp)
    exact ⟨i, hi, hei, by simp [updCol, hne, hp]⟩
  cases p0 with
  | any =>
    refine ⟨hbits, ?_, ?_, ?_, hold, ?_⟩
    · intro i
      show (km.bitsAny ||| (1 : W) <<< n).getLsbD i = _
      rw [or_onehot_bit _ _ _ hn, h.any, updCol]
      by_cases hi : i = n <;> simp [hi, isAnyRx]
    · intro c i
      show ((alookup c km.bitsValue).getD 0).getLsbD i = _
      rw [h.value, updCol]
      by_cases hi : i = n
      · subst hi; simp [hP]
      · simp [hi]
    · intro c i
      show ((alookup c km.bitsDeep).getD 0).getLsbD i = _
      rw [h.deep, updCol]
      by_cases hi : i = n
      · subst hi; simp [hP]
      · simp [hi]
    · intro i id hp
      show _ ∈ km.bitsRegexes
      simp only [updCol] at hp
      by_cases hi : i = n
      · simp [hi] at hp
      · simp only [hi, if_false] at hp; exact h.rx2 i id hp
  | atom c0 =>
    refine ⟨hbits, ?_, ?_, ?_, hold, ?_⟩
    · intro i
      show km.bitsAny.getLsbD i = _
      rw [h.any, updCol]
      by_cases hi : i = n
      · subst hi; simp [hP, isAnyRx]
      · simp [hi]
    · intro c i
      show ((alookup c (aset c0 (((alookup c0 km.bitsValue).getD 0) ||| (1 : W) <<< n) km.bitsValue)).getD 0).getLsbD i = _
      rw [getD_alookup_aset, updCol]
      by_cases hc : c = c0
      · subst hc
        rw [if_pos rfl, or_onehot_bit _ _ _ hn, h.value]
        by_cases hi : i = n <;> simp [hi]
      · rw [if_neg hc, h.value]
        by_cases hi : i = n
        · subst hi; simp [hP]; exact fun hcc => hc hcc.symm
        · simp [hi]
    · intro c i
      show ((alookup c km.bitsDeep).getD 0).getLsbD i = _
      rw [h.deep, updCol]
      by_cases hi : i = n
      · subst hi; simp [hP]
      · simp [hi]
    · intro i id hp
      show _ ∈ km.bitsRegexes
      simp only [updCol] at hp
      by_cases hi : i = n
      · simp [hi] at hp
      · simp only [hi, if_false] at hp; exact h.rx2 i id hp
  | deep c0 =>
    refine ⟨hbits, ?_, ?_, ?_, hold, ?_⟩
    · intro i
      show km.bitsAny.getLsbD i = _
      rw [h.any, updCol]
      by_cases hi : i = n
      · subst hi; simp [hP, isAnyRx]
      · simp [hi]
    · intro c i
      show ((alookup c km.bitsValue).getD 0).getLsbD i = _
      rw [h.value, updCol]
      by_cases hi : i = n
      · subst hi; simp [hP]
      · simp [hi]
    · intro c i
      show ((alookup c (aset c0 (((alookup c0 km.bitsDeep).getD 0) ||| (1 : W) <<< n) km.bitsDeep)).getD 0).getLsbD i = _
      rw [getD_alookup_aset, updCol]
      by_cases hc : c = c0
      · subst hc
        rw [if_pos rfl, or_onehot_bit _ _ _ hn, h.deep]
        by_cases hi : i = n <;> simp [hi]
      · rw [if_neg hc, h.deep]
        by_cases hi : i = n
        · subst hi; simp [hP]; exact fun hcc => hc hcc.symm
        · simp [hi]
    · intro i id hp
      show _ ∈ km.bitsRegexes
      simp only [updCol] at hp
      by_cases hi : i = n
      · simp [hi] at hp
      · simp only [hi, if_false] at hp; exact h.rx2 i id hp
  | rx id0 =>
    refine ⟨hbits, ?_, ?_, ?_, ?_, ?_⟩
    · intro i
      show (km.bitsAny ||| (1 : W) <<< n).getLsbD i = _
      rw [or_onehot_bit _ _ _ hn, h.any, updCol]
      by_cases hi : i = n <;> simp [hi, isAnyRx]
    · intro c i
      show ((alookup c km.bitsValue).getD 0).getLsbD i = _
      rw [h.value, updCol]
      by_cases hi : i = n
      · subst hi; simp [hP]
      · simp [hi]
    · intro c i
      show ((alookup c km.bitsDeep).getD 0).getLsbD i = _
      rw [h.deep, updCol]
      by_cases hi : i = n
      · subst hi; simp [hP]
      · simp [hi]
    · intro e he
      have he' : e ∈ aset ((1 : W) <<< n) id0 km.bitsRegexes := he
      rcases mem_aset he' with rfl | hm
      · exact ⟨n, hn, rfl, by simp [updCol]⟩
      · exact hold e hm
    · intro i id hp
      show _ ∈ aset ((1 : W) <<< n) id0 km.bitsRegexes
      simp only [updCol] at hp
      by_cases hi : i = n
      · simp only [hi, if_true, Option.some.injEq, Pat.rx.injEq] at hp
        subst hp; rw [hi]; exact mem_aset_self ..
      · simp only [hi, if_false] at hp
        have hm := h.rx2 i id hp
        have hi64 : i < 64 := h.lt (by simp [hp])
        exact mem_aset_of_ne hm (fun hc => hi (onehot_inj hi64 hc))

/-! ### all keys of a leaf -/

/-- the pattern of rule number `i` for key `k` -/
def patAt (rules : List Rule) (k : String) (i : Nat) : Option Pat :=
  match rules[i]? with
  | some r => alookup k (r.state.getD [])
  | none => none

def KeysOK (T : String → Nat → Option Pat) (keys : List (String × KeyMatcher)) : Prop :=
  (keys.map (·.1)).Nodup ∧ ∀ k, KMOK (T k) ((alookup k keys).getD {})

def updTab (n : Nat) (T : String → Nat → Option Pat) (e : String × Pat) : String → Nat → Option Pat :=
  fun k => if k = e.1 then updCol (T k) n e.2 else T k

theorem map_fst_aset [DecidableEq κ] (k : κ) (v : β) (l : List (κ × β)) :
    (aset k v l).map (·.1) = if k ∈ l.map (·.1) then l.map (·.1) else l.map (·.1) ++ [k] := by
  induction l with
  | nil => simp [aset]
  | cons kv rest ih =>
    obtain ⟨k', v'⟩ := kv
    simp only [aset]
    by_cases hk : k' = k
    · subst hk; simp
    · have hk' : ¬ k = k' := fun c => hk c.symm
      simp only [hk, if_false, List.map_cons, ih, List.mem_cons, hk', false_or]
      split <;> simp

theorem nodup_aset [DecidableEq κ] (k : κ) (v : β) (l : List (κ × β)) (h : (l.map (·.1)).Nodup) :
    ((aset k v l).map (·.1)).Nodup := by
  rw [map_fst_aset]
  split
  · exact h
  · next hk =>
    refine List.nodup_append.mpr ⟨h, by simp, ?_⟩
    intro a ha b hb
    simp only [List.mem_singleton] at hb
    subst hb
    intro hab; subst hab; exact hk ha

theorem keyAdd_ok {T ks} (n : Nat) (hn : n < 64) (h : KeysOK T ks) (e : String × Pat) (hT : T e.1 n = none) :
    KeysOK (updTab n T e) (keyAdd ((1 : W) <<< n) ks e) := by
  refine ⟨nodup_aset _ _ _ h.1, ?_⟩
  intro k
  simp only [keyAdd, alookup_aset, updTab]
  by_cases hk : k = e.1
  · subst hk
    simp only [if_true, Option.getD_some]
    exact kmAdd_ok (h.2 _) n hn hT e.2
  · simp only [hk, if_false]
    exact h.2 k

theorem foldKeys_ok (n : Nat) (hn : n < 64) : ∀ (es : List (String × Pat)) (T : String → Nat → Option Pat) ks,
    KeysOK T ks → (es.map (·.1)).Nodup → (∀ e ∈ es, T e.1 n = none) →
    KeysOK (es.foldl (updTab n) T) (es.foldl (keyAdd ((1 : W) <<< n)) ks) := by
  intro es
  induction es with
  | nil => intro T ks h _ _; exact h
  | cons e rest ih =>
    intro T ks h hnd hT
    simp only [List.map_cons, List.nodup_cons] at hnd
    simp only [List.foldl_cons]
    refine ih _ _ (keyAdd_ok n hn h e (hT e (List.mem_cons_self ..))) hnd.2 ?_
    intro e' he'
    have hne : e'.1 ≠ e.1 := by
      intro hc
      exact hnd.1 (List.mem_map.mpr ⟨e', he', hc⟩)
    simp only [updTab, hne, if_false]
    exact hT e' (List.mem_cons_of_mem _ he')

theorem foldTab_eq (n : Nat) : ∀ (es : List (String × Pat)) (T : String → Nat → Option Pat),
    (es.map (·.1)).Nodup → ∀ k i, (es.foldl (updTab n) T) k i =
      if i = n then (match alookup k es with | some p => some p | none => T k n) else T k i := by
  intro es
  induction es with
  | nil => intro T _ k i; simp only [List.foldl_nil, alookup]; split <;> simp_all
  | cons e rest ih =>
    intro T hnd k i
    obtain ⟨k0, p0⟩ := e
    simp only [List.map_cons, List.nodup_cons] at hnd
    simp only [List.foldl_cons, ih _ hnd.2, alookup]
    by_cases hi : i = n
    · subst hi
      simp only [if_true]
      by_cases hk : k0 = k
      · subst hk
        have hnone : alookup k0 rest = none := by
          cases hl : alookup k0 rest with
          | none => rfl
          | some p => exact absurd (List.mem_map.mpr ⟨(k0, p), alookup_mem hl, rfl⟩) hnd.1
        simp [hnone, updTab, updCol]
      · have hk' : ¬ k = k0 := fun c => hk c.symm
        simp [hk, updTab, hk']
    · simp only [hi, if_false, updTab]
      split
      · simp [updCol, hi]
      · rfl

theorem patAt_ge (rules : List Rule) (k : String) (i : Nat) (h : rules.length ≤ i) : patAt rules k i = none := by
  simp [patAt, List.getElem?_eq_none h]

theorem patAt_snoc (rules : List Rule) (r : Rule) (k : String) (i : Nat) :
    patAt (rules ++ [r]) k i =
      if i = rules.length then alookup k (r.state.getD []) else patAt rules k i := by
  unfold patAt
  by_cases hi : i < rules.length
  · have : ¬ i = rules.length := by omega
    simp [List.getElem?_append_left hi, this]
  · by_cases he : i = rules.length
    · subst he; simp
    · have h1 : rules.length ≤ i := by omega
      have h2 : (rules ++ [r]).length ≤ i := by simp; omega
      simp [List.getElem?_eq_none h1, List.getElem?_eq_none h2, he]

/-- the invariant of a state leaf -/
structure LeafInv (rules : List Rule) (keys : List (String × KeyMatcher)) : Prop where
  len : rules.length ≤ 63
  wf : ∀ r ∈ rules, ((r.state.getD []).map (·.1)).Nodup
  keys : KeysOK (patAt rules) keys

theorem LeafInv.empty : LeafInv [] [] := by
  refine ⟨by simp, by simp, by simp, ?_⟩
  intro k
  have : patAt [] k = fun _ => none := by funext i; simp [patAt]
  rw [this]
  exact KMOK.empty

theorem LeafInv.add (r : Rule) (rules : List Rule) (keys : List (String × KeyMatcher))
    (h : LeafInv rules keys) (hlen : rules.length < capacity)
    (hwf : ((r.state.getD []).map (·.1)).Nodup) :
    LeafInv (rules ++ [r]) ((r.state.getD []).foldl (keyAdd ((1 : W) <<< rules.length)) keys) := by
  have hn : rules.length < 63 := hlen
  refine ⟨by simp; omega, ?_, ?_⟩
  · intro q hq
    simp only [List.mem_append, List.mem_singleton] at hq
    rcases hq with hq | rfl
    · exact h.wf q hq
    · exact hwf
  · have hfold := foldKeys_ok rules.length (by omega) (r.state.getD []) (patAt rules) keys h.keys hwf
      (fun e _ => patAt_ge rules e.1 _ (Nat.le_refl _))
    have htab : (r.state.getD []).foldl (updTab rules.length) (patAt rules) = patAt (rules ++ [r]) := by
      funext k i
      rw [foldTab_eq _ _ _ hwf, patAt_snoc, patAt_ge rules k _ (Nat.le_refl _)]
      split
      · cases alookup k (r.state.getD []) <;> rfl
      · rfl
    rw [htab] at hfold
    exact hfold

/-! ### `match` of a leaf = the filter of admitted rules -/

/-- rule `i` survives the round of key `k` -/
def stepOK (rx : Nat → Val → Bool) (ev : Event) (T : String → Nat → Option Pat) (i : Nat) (k : String) : Bool :=
  match alookup k ev.state with
  | some v => (match T k i with | none => true | some p => Spec.admits rx p v)
  | none => (T k i).isNone

theorem matchKeys_bit (rx : Nat → Val → Bool) (ev : Event) (T : String → Nat → Option Pat) (i : Nat) :
    ∀ (ks : List (String × KeyMatcher)) (mb : W), (∀ e ∈ ks, KMOK (T e.1) e.2) →
      (matchKeys rx ev ks mb).getLsbD i = (mb.getLsbD i && ks.all fun e => stepOK rx ev T i e.1) := by
  intro ks
  induction ks with
  | nil => intro mb _; simp [matchKeys]
  | cons e rest ih =>
    intro mb h
    obtain ⟨k, km⟩ := e
    have hk : KMOK (T k) km := h (k, km) (List.mem_cons_self ..)
    -- one round, whichever branch is taken
    have hround : ∀ mb' : W, mb'.getLsbD i = (mb.getLsbD i && stepOK rx ev T i k) →
        (if mb' = 0 then (0 : W) else matchKeys rx ev rest mb').getLsbD i =
          (mb.getLsbD i && (stepOK rx ev T i k && rest.all fun e => stepOK rx ev T i e.1)) := by
      intro mb' hs
      by_cases hz : mb' = 0
      · rw [if_pos hz]
        rw [hz] at hs
        have h0 : (0 : W).getLsbD i = false := by simp
        rw [h0] at hs ⊢
        rw [← Bool.and_assoc, ← hs]; rfl
      · rw [if_neg hz, ih _ (fun e he => h e (List.mem_cons_of_mem _ he)), hs, Bool.and_assoc]
    simp only [List.all_cons]
    cases hv : alookup k ev.state with
    | some v =>
      have hs : (kmMatch rx km mb v).getLsbD i = (mb.getLsbD i && stepOK rx ev T i k) := by
        rw [kmMatch_sem hk rx mb v i]; simp [stepOK, hv]
      simpa only [matchKeys, hv] using hround _ hs
    | none =>
      have hs : (kmUnmatch km mb).getLsbD i = (mb.getLsbD i && stepOK rx ev T i k) := by
        rw [kmUnmatch_sem hk mb i]; simp [stepOK, hv]
      simpa only [matchKeys, hv] using hround _ hs

theorem alookup_of_mem_nodup [DecidableEq κ] {l : List (κ × β)} (hnd : (l.map (·.1)).Nodup) {k : κ} {v : β}
    (h : (k, v) ∈ l) : alookup k l = some v := by
  induction l with
  | nil => simp at h
  | cons kv rest ih =>
    obtain ⟨k', v'⟩ := kv
    simp only [List.map_cons, List.nodup_cons] at hnd
    simp only [List.mem_cons, Prod.mk.injEq] at h
    simp only [alookup]
    rcases h with ⟨rfl, rfl⟩ | h
    · simp
    · have : ¬ k' = k := by
        intro hc; subst hc
        exact hnd.1 (List.mem_map.mpr ⟨(k', v), h, rfl⟩)
      simp [this, ih hnd.2 h]

theorem keysAll_eq_stateOK (rx : Nat → Val → Bool) (ev : Event) {rules keys} (h : LeafInv rules keys)
    (i : Nat) (hi : i < rules.length) :
    (keys.all fun e => stepOK rx ev (patAt rules) i e.1) = Spec.stateOK rx rules[i] ev := by
  have hr : rules[i]? = some rules[i] := List.getElem?_eq_getElem hi
  have hpat : ∀ k, patAt rules k i = alookup k (rules[i].state.getD []) := by
    intro k; simp [patAt, hr]
  have hwf := h.wf rules[i] (List.getElem_mem hi)
  rw [Bool.eq_iff_iff, List.all_eq_true]
  unfold Spec.stateOK
  rw [List.all_eq_true]
  constructor
  · intro hall kp hkp
    obtain ⟨k, p⟩ := kp
    have hp : patAt rules k i = some p := by rw [hpat]; exact alookup_of_mem_nodup hwf hkp
    -- the key has a matcher
    have hin : ∃ km, (k, km) ∈ keys := by
      cases hl : alookup k keys with
      | some km => exact ⟨km, alookup_mem hl⟩
      | none =>
        have hb := (h.keys.2 k).bits i
        rw [hl, hp] at hb
        simp at hb
    obtain ⟨km, hkm⟩ := hin
    have hs := hall (k, km) hkm
    simp only [stepOK, hp] at hs
    cases hv : alookup k ev.state with
    | some v => rw [hv] at hs; simpa using hs
    | none => rw [hv] at hs; simp at hs
  · intro hall e he
    simp only [stepOK]
    cases hp : patAt rules e.1 i with
    | none => cases alookup e.1 ev.state <;> simp
    | some p =>
      have hmem : (e.1, p) ∈ rules[i].state.getD [] := alookup_mem (by rw [← hpat]; exact hp)
      have := hall (e.1, p) hmem
      simp only at this
      cases hv : alookup e.1 ev.state with
      | some v => rw [hv] at this; simpa using this
      | none => rw [hv] at this; simp at this

theorem LeafInv.sem (rx : Nat → Val → Bool) (ev : Event) (rules : List Rule) (keys : List (String × KeyMatcher))
    (h : LeafInv rules keys) :
    stateMatch rx ev rules keys = .ok (rules.filter (Spec.stateOK rx · ev)) := by
  have hent : ∀ e ∈ keys, KMOK (patAt rules e.1) e.2 := by
    intro e he
    have := h.keys.2 e.1
    rw [alookup_of_mem_nodup h.keys.1 (show (e.1, e.2) ∈ keys from he)] at this
    exact this
  have hbit : ∀ i, (matchKeys rx ev keys (((1 : W) <<< rules.length) - 1)).getLsbD i =
      (decide (i < rules.length) && keys.all fun e => stepOK rx ev (patAt rules) i e.1) := by
    intro i
    rw [matchKeys_bit rx ev (patAt rules) i keys _ hent, initMask_bit _ h.len]
  unfold stateMatch
  simp only
  generalize hmb : matchKeys rx ev keys (((1 : W) <<< rules.length) - 1) = mb at hbit
  have hpick : pick mb rules 0 = rules.filter (Spec.stateOK rx · ev) := by
    apply pick_eq_filter
    intro j hj
    rw [Nat.zero_add, hbit, keysAll_eq_stateOK rx ev h j hj]
    simp [hj]
  split
  · next hz =>
    rw [← hpick, hz, pick_nil]
    intro j _; simp
  · have hmsb : mb.getLsbD 63 = false := by
      rw [hbit]
      have : ¬ 63 < rules.length := by have := h.len; omega
      simp [this]
    have hlen : ∀ i, mb.getLsbD i = true → i < rules.length := by
      intro i hi
      rw [hbit] at hi
      simp only [Bool.and_eq_true, decide_eq_true_eq] at hi
      exact hi.1
    have := collect_spec rules mb hmsb hlen 63 0 collectFuel [] (by omega) (by simp [collectFuel])
    simp only [BitVec.shiftLeft_zero, List.nil_append, List.drop_zero] at this
    rw [this, hpick]

/-! ### Go iterates `keyMap` and `bitsRegexes` in random order: the result does not depend on it -/

theorem alookup_perm [DecidableEq κ] {l l' : List (κ × β)} (hnd : (l.map (·.1)).Nodup) (hp : l.Perm l') (k : κ) :
    alookup k l = alookup k l' := by
  have hnd' : (l'.map (·.1)).Nodup := (List.Perm.nodup_iff (List.Perm.map _ hp)).mp hnd
  cases h : alookup k l with
  | some v => exact (alookup_of_mem_nodup hnd' ((List.Perm.mem_iff hp).mp (alookup_mem h))).symm
  | none =>
    cases h' : alookup k l' with
    | none => rfl
    | some v' =>
      have := alookup_of_mem_nodup hnd ((List.Perm.mem_iff hp).mpr (alookup_mem h'))
      rw [h] at this; exact absurd this (by simp)

theorem LeafInv.perm {rules keys keys'} (h : LeafInv rules keys) (hp : keys.Perm keys') : LeafInv rules keys' := by
  refine ⟨h.len, h.wf, (List.Perm.nodup_iff (List.Perm.map _ hp)).mp h.keys.1, ?_⟩
  intro k
  rw [← alookup_perm h.keys.1 hp k]
  exact h.keys.2 k

theorem KMOK.permRx {P km} (h : KMOK P km) {es : List (W × Nat)} (hp : km.bitsRegexes.Perm es) :
    KMOK P { km with bitsRegexes := es } :=
  ⟨h.bits, h.any, h.value, h.deep,
   fun e he => h.rx1 e ((List.Perm.mem_iff hp).mpr he),
   fun i id hi => (List.Perm.mem_iff hp).mp (h.rx2 i id hi)⟩

theorem kmMatch_permRx {P km} (h : KMOK P km) {es : List (W × Nat)} (hp : km.bitsRegexes.Perm es)
    (rx : Nat → Val → Bool) (cur : W) (v : Val) :
    kmMatch rx { km with bitsRegexes := es } cur v = kmMatch rx km cur v := by
  apply BitVec.eq_of_getLsbD_eq
  intro i _
  rw [kmMatch_sem (h.permRx hp) rx cur v i, kmMatch_sem h rx cur v i]

/-- the state leaves of the model satisfy the law the tree proof needs -/
theorem leafLaw (rx : Nat → Val → Bool) : LeafLaw rx LeafInv :=
  ⟨LeafInv.empty, LeafInv.add, fun ev rules keys h => LeafInv.sem rx ev rules keys h⟩

end Ecal.Engine
