import Ecal.Model.Priority
/-!
Lemmas about the model of `container/heap` (`Ecal.Priority.Heap`): every routine permutes the
slice; `up` keeps "the root is a minimum"; `Init` (heapify) establishes the heap order, hence
"the root is a minimum", on **every** slice.
-/
namespace Ecal.Priority.Heap
variable {α : Type}

/-- what is assumed of a `Less` function: asymmetric, and `¬Less(b,a)` ("a ≤ b") is transitive -/
structure StrictTotal (lt : α → α → Bool) : Prop where
  asymm : ∀ a b, lt a b = true → lt b a = false
  le_trans : ∀ a b c, lt b a = false → lt c b = false → lt c a = false

theorem StrictTotal.irrefl {lt : α → α → Bool} (h : StrictTotal lt) (a : α) : lt a a = false := by
  cases hc : lt a a with
  | false => rfl
  | true => have := h.asymm a a hc; simp_all

@[simp] theorem length_swp (l : List α) (i j : Nat) : (swp l i j).length = l.length := by
  unfold swp; split <;> simp

theorem swp_perm (l : List α) (i j : Nat) : (swp l i j).Perm l := by
  unfold swp
  split
  · rename_i x y hx hy
    obtain ⟨hi, rfl⟩ := List.getElem?_eq_some_iff.mp hx
    obtain ⟨hj, rfl⟩ := List.getElem?_eq_some_iff.mp hy
    exact List.set_set_perm hi hj
  · exact List.Perm.refl _

theorem getElem?_swp (l : List α) {i j : Nat} (hi : i < l.length) (hj : j < l.length) (k : Nat) :
    (swp l i j)[k]? = if k = j then l[i]? else if k = i then l[j]? else l[k]? := by
  unfold swp
  rw [List.getElem?_eq_getElem hi, List.getElem?_eq_getElem hj]
  simp only [List.getElem?_set]
  grind

/-! ### permutation -/

theorem up_perm (lt : α → α → Bool) : ∀ fuel (l : List α) j, (up lt fuel l j).Perm l := by
  intro fuel
  induction fuel with
  | zero => intro l j; exact List.Perm.refl _
  | succ f ih =>
    intro l j
    unfold up
    simp only
    split
    · exact List.Perm.refl _
    · exact (ih _ _).trans (swp_perm _ _ _)

theorem down_perm (lt : α → α → Bool) : ∀ fuel (l : List α) i0 i n, (down lt fuel l i0 i n).1.Perm l := by
  intro fuel
  induction fuel with
  | zero => intro l i0 i n; exact List.Perm.refl _
  | succ f ih =>
    intro l i0 i n
    unfold down
    simp only
    repeat' split
    all_goals first
      | exact List.Perm.refl _
      | exact (ih _ _ _ _).trans (swp_perm _ _ _)

theorem initLoop_perm (lt : α → α → Bool) : ∀ k (l : List α), (initLoop lt k l).Perm l := by
  intro k
  induction k with
  | zero => intro l; exact List.Perm.refl _
  | succ k ih => intro l; unfold initLoop; exact (ih _).trans (down_perm _ _ _ _ _ _)

theorem init_perm (lt : α → α → Bool) (l : List α) : (init lt l).Perm l := initLoop_perm _ _ _

theorem push_perm (lt : α → α → Bool) (l : List α) (x : α) : (push lt l x).Perm (x :: l) := by
  unfold push
  exact (up_perm _ _ _ _).trans (List.perm_append_comm)

theorem fix_perm (lt : α → α → Bool) (l : List α) (i : Nat) : (fix lt l i).Perm l := by
  unfold fix
  simp only
  split
  · exact down_perm _ _ _ _ _ _
  · exact (up_perm _ _ _ _).trans (down_perm _ _ _ _ _ _)

/-! ### the root is a minimum -/

/-- `l[0]` is not greater than any element -/
def RootMin (lt : α → α → Bool) (l : List α) : Prop :=
  ∀ (r : α) (k : Nat) (x : α), l[0]? = some r → l[k]? = some x → lt x r = false

/-- … any element except possibly the one at position `j` -/
def RootMinExcept (lt : α → α → Bool) (l : List α) (j : Nat) : Prop :=
  ∀ (r : α) (k : Nat) (x : α), l[0]? = some r → l[k]? = some x → k ≠ j → lt x r = false

theorem up_rootMin {lt : α → α → Bool} (ho : StrictTotal lt) :
    ∀ fuel (l : List α) j, j < fuel → j < l.length → RootMinExcept lt l j →
      RootMin lt (up lt fuel l j) := by
  intro fuel
  induction fuel with
  | zero => intro l j h; omega
  | succ f ih =>
    intro l j hf hj hP
    unfold up
    simp only
    have hi : (j - 1) / 2 < l.length := by omega
    split
    · -- loop ends here
      rename_i hc
      intro r k x hr hk
      by_cases hkj : k = j
      · subst hkj
        simp only [Bool.or_eq_true, beq_iff_eq, Bool.not_eq_eq_eq_not, Bool.not_true] at hc
        rcases hc with hc | hc
        · have : k = 0 := by omega
          subst this
          rw [hr] at hk; cases hk
          exact ho.irrefl _
        · -- ¬ l[j] < l[parent]; the parent is not below the root
          unfold lessAt at hc
          rw [hk] at hc
          obtain ⟨y, hy⟩ : ∃ y, l[(k - 1) / 2]? = some y := ⟨l[(k - 1) / 2], List.getElem?_eq_getElem hi⟩
          rw [hy] at hc
          simp only at hc
          by_cases hp : (k - 1) / 2 = k
          · have : k = 0 := by omega
            subst this
            rw [hr] at hk; cases hk
            exact ho.irrefl _
          · have h1 : lt y r = false := hP r _ y hr hy hp
            exact ho.le_trans r y x h1 hc
      · exact hP r k x hr hk hkj
    · rename_i hc
      simp only [Bool.or_eq_true, beq_iff_eq, Bool.not_eq_eq_eq_not, Bool.not_true, not_or,
        Bool.not_eq_false] at hc
      obtain ⟨hne, hlt⟩ := hc
      have hij : (j - 1) / 2 < j := by omega
      apply ih
      · omega
      · simpa using hi
      · -- the invariant after the swap
        unfold lessAt at hlt
        obtain ⟨xj, hxj⟩ : ∃ y, l[j]? = some y := ⟨l[j], List.getElem?_eq_getElem hj⟩
        obtain ⟨xi, hxi⟩ : ∃ y, l[(j - 1) / 2]? = some y := ⟨l[(j - 1) / 2], List.getElem?_eq_getElem hi⟩
        rw [hxj, hxi] at hlt
        simp only at hlt
        intro r k x hr hk hki
        rw [getElem?_swp l hi hj] at hr hk
        by_cases hi0 : (j - 1) / 2 = 0
        · -- the parent is the root: the new root is l[j]
          rw [hi0] at hr hk hxi hki
          have hj0 : (0 : Nat) ≠ j := by omega
          simp only [hj0, if_false, if_true] at hr
          rw [hxj] at hr; cases hr
          by_cases hkj : k = j
          · simp only [hkj, if_true] at hk
            rw [hxi] at hk; cases hk
            exact ho.asymm _ _ hlt
          · simp only [hkj, hki, if_false] at hk
            have h1 : lt x xi = false := hP xi k x hxi hk hkj
            exact ho.le_trans _ xi x (ho.asymm _ _ hlt) h1
        · have h0j : (0 : Nat) ≠ j := by omega
          have h0i : (0 : Nat) ≠ (j - 1) / 2 := by omega
          simp only [h0j, h0i, if_false] at hr
          by_cases hkj : k = j
          · simp only [hkj, if_true] at hk
            exact hP r _ x hr hk (by omega)
          · simp only [hkj, hki, if_false] at hk
            exact hP r k x hr hk hkj

theorem push_rootMin {lt : α → α → Bool} (ho : StrictTotal lt) (l : List α) (x : α)
    (h : RootMin lt l) : RootMin lt (push lt l x) := by
  unfold push
  apply up_rootMin ho
  · omega
  · simp
  · intro r k y hr hk hne
    by_cases hl : l = []
    · subst hl
      have : k = 0 := by
        have := (List.getElem?_eq_some_iff.mp hk).1
        simp at this; omega
      simp at hne; omega
    · have hlen : 0 < l.length := List.length_pos_iff.mpr hl
      have hk' := (List.getElem?_eq_some_iff.mp hk).1
      simp at hk'
      rw [List.getElem?_append_left (by omega)] at hk
      rw [List.getElem?_append_left hlen] at hr
      exact h r k y hr hk

/-! ### `Init` establishes the heap order -/

/-- `l[p] ≤ l[c]` -/
def leAt (lt : α → α → Bool) (l : List α) (p c : Nat) : Prop :=
  ∀ (x y : α), l[p]? = some x → l[c]? = some y → lt y x = false

/-- heap order on `l[0:n]` for all parents at index `≥ lo` -/
def Ok (lt : α → α → Bool) (l : List α) (n lo : Nat) : Prop :=
  ∀ p c, lo ≤ p → c < n → (c = 2 * p + 1 ∨ c = 2 * p + 2) → leAt lt l p c

/-- heap order except at the parent `i`, whose children are not below `i`'s parent -/
def Hole (lt : α → α → Bool) (l : List α) (n lo i : Nat) : Prop :=
  (∀ p c, lo ≤ p → p ≠ i → c < n → (c = 2 * p + 1 ∨ c = 2 * p + 2) → leAt lt l p c) ∧
  (∀ g c, lo ≤ g → (i = 2 * g + 1 ∨ i = 2 * g + 2) → c < n → (c = 2 * i + 1 ∨ c = 2 * i + 2) →
    leAt lt l g c)

theorem down_ok {lt : α → α → Bool} (ho : StrictTotal lt) (lo : Nat) :
    ∀ fuel (l : List α) i0 i n, n ≤ l.length → lo ≤ i → n ≤ fuel + i → Hole lt l n lo i →
      Ok lt (down lt fuel l i0 i n).1 n lo := by
  intro fuel
  induction fuel with
  | zero =>
    intro l i0 i n hn hlo hf hH
    unfold down
    intro p c hp hc hpc
    by_cases hpi : p = i
    · omega
    · exact hH.1 p c hp hpi hc hpc
  | succ f ih =>
    intro l i0 i n hn hlo hf hH
    unfold down
    simp only
    split
    · -- no child
      intro p c hp hc hpc
      by_cases hpi : p = i
      · omega
      · exact hH.1 p c hp hpi hc hpc
    · rename_i hj1
      have hj1 : 2 * i + 1 < n := by omega
      have hil : i < l.length := by omega
      obtain ⟨xi, hxi⟩ : ∃ y, l[i]? = some y := ⟨l[i], List.getElem?_eq_getElem hil⟩
      obtain ⟨x1, hx1⟩ : ∃ y, l[2 * i + 1]? = some y :=
        ⟨l[2 * i + 1], List.getElem?_eq_getElem (by omega)⟩
      -- the chosen child j is a child of i, is < n, and is ≤ the other child
      generalize hjdef : (if 2 * i + 1 + 1 < n && lessAt lt l (2 * i + 1 + 1) (2 * i + 1)
        then 2 * i + 1 + 1 else 2 * i + 1) = j
      have hjprop : (j = 2 * i + 1 ∨ j = 2 * i + 2) ∧ j < n ∧
          ∀ c, c < n → (c = 2 * i + 1 ∨ c = 2 * i + 2) → leAt lt l j c := by
        split at hjdef
        · rename_i hc
          simp only [Bool.and_eq_true, decide_eq_true_eq] at hc
          obtain ⟨hc1, hc2⟩ := hc
          subst hjdef
          refine ⟨Or.inr rfl, hc1, ?_⟩
          intro c hc hcc x y hx hy
          rcases hcc with rfl | rfl
          · unfold lessAt at hc2
            rw [hx, hy] at hc2
            exact ho.asymm _ _ hc2
          · rw [hx] at hy; cases hy; exact ho.irrefl _
        · rename_i hc
          subst hjdef
          refine ⟨Or.inl rfl, hj1, ?_⟩
          intro c hcn hcc x y hx hy
          rcases hcc with rfl | rfl
          · rw [hx] at hy; cases hy; exact ho.irrefl _
          · simp only [Bool.and_eq_true, decide_eq_true_eq, not_and, Bool.not_eq_true] at hc
            have := hc (by omega)
            unfold lessAt at this
            rw [hy, hx] at this
            exact this
      obtain ⟨hjc, hjn, hjmin⟩ := hjprop
      have hjl : j < l.length := by omega
      obtain ⟨xj, hxj⟩ : ∃ y, l[j]? = some y := ⟨l[j], List.getElem?_eq_getElem hjl⟩
      split
      · -- l[i] ≤ l[j]: done
        rename_i hc
        simp only [Bool.not_eq_eq_eq_not, Bool.not_true] at hc
        unfold lessAt at hc
        rw [hxj, hxi] at hc
        simp only at hc
        intro p c hp hcn hpc
        by_cases hpi : p = i
        · subst hpi
          intro x y hx hy
          rw [hxi] at hx; cases hx
          have := hjmin c hcn hpc xj y hxj hy
          exact ho.le_trans _ _ _ hc this
        · exact hH.1 p c hp hpi hcn hpc
      · -- swap and continue at j
        rename_i hc
        simp only [Bool.not_eq_eq_eq_not, Bool.not_true, Bool.not_eq_false] at hc
        unfold lessAt at hc
        rw [hxj, hxi] at hc
        simp only at hc
        apply ih
        · simpa using hn
        · omega
        · omega
        · constructor
          · intro p c hp hpj hcn hpc x y hx hy
            rw [getElem?_swp l hil hjl] at hx hy
            by_cases hpi : p = i
            · subst hpi
              have hpj' : p ≠ j := by omega
              simp only [hpj', if_false, if_true] at hx
              rw [hxj] at hx; cases hx
              by_cases hcj : c = j
              · simp only [hcj, if_true] at hy
                rw [hxi] at hy; cases hy
                exact ho.asymm _ _ hc
              · have hcp : c ≠ p := by omega
                simp only [hcj, hcp, if_false] at hy
                exact hjmin c hcn hpc _ y hxj hy
            · simp only [hpj, hpi, if_false] at hx
              have hcj : c ≠ j := by omega
              by_cases hci : c = i
              · subst hci
                simp only [hcj, if_false, if_true] at hy
                rw [hxj] at hy; cases hy
                exact hH.2 p j hp hpc hjn hjc _ _ hx hxj
              · simp only [hcj, hci, if_false] at hy
                exact hH.1 p c hp hpi hcn hpc x y hx hy
          · intro g c hg hgj hcn hcc x y hx hy
            have hgi : g = i := by omega
            subst hgi
            rw [getElem?_swp l hil hjl] at hx hy
            have h1 : g ≠ j := by omega
            have h2 : c ≠ j := by omega
            have h3 : c ≠ g := by omega
            simp only [h1, h2, h3, if_false, if_true] at hx hy
            rw [hxj] at hx; cases hx
            exact hH.1 j c (by omega) (by omega) hcn hcc _ _ hxj hy

theorem initLoop_ok {lt : α → α → Bool} (ho : StrictTotal lt) :
    ∀ k (l : List α), Ok lt l l.length k → Ok lt (initLoop lt k l) (initLoop lt k l).length 0 := by
  intro k
  induction k with
  | zero => intro l h; exact h
  | succ k ih =>
    intro l h
    unfold initLoop
    apply ih
    have hlen : (down lt l.length l k k l.length).1.length = l.length :=
      (down_perm lt _ _ _ _ _).length_eq
    rw [hlen]
    apply down_ok ho k
    · exact Nat.le_refl _
    · exact Nat.le_refl _
    · omega
    · constructor
      · intro p c hp hpk hc hpc
        exact h p c (by omega) hc hpc
      · intro g c hg hgk; omega

theorem init_ok {lt : α → α → Bool} (ho : StrictTotal lt) (l : List α) :
    Ok lt (init lt l) (init lt l).length 0 := by
  unfold init
  apply initLoop_ok ho
  intro p c hp hc hpc; omega

theorem rootMin_of_ok {lt : α → α → Bool} (ho : StrictTotal lt) (l : List α)
    (h : Ok lt l l.length 0) : RootMin lt l := by
  intro r k
  induction k using Nat.strongRecOn with
  | _ k ih =>
    intro x hr hk
    by_cases hk0 : k = 0
    · subst hk0; rw [hr] at hk; cases hk; exact ho.irrefl _
    · have hkl := (List.getElem?_eq_some_iff.mp hk).1
      have hp : (k - 1) / 2 < k := by omega
      obtain ⟨y, hy⟩ : ∃ y, l[(k - 1) / 2]? = some y :=
        ⟨l[(k - 1) / 2], List.getElem?_eq_getElem (by omega)⟩
      have h1 := ih _ hp y hr hy
      have h2 := h ((k - 1) / 2) k (Nat.zero_le _) hkl (by omega) y x hy hk
      exact ho.le_trans _ _ _ h1 h2

/-- `heap.Init` makes the root a minimum, whatever the slice looked like before -/
theorem init_rootMin {lt : α → α → Bool} (ho : StrictTotal lt) (l : List α) :
    RootMin lt (init lt l) := rootMin_of_ok ho _ (init_ok ho l)

end Ecal.Priority.Heap
