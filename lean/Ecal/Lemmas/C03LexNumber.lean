import Ecal.Model.Lexer
/-!
# C03 — every NUMBER token of the lexer model is a number

`numberCandidate` is the test of `lexToken` in lexer.go: the (lower-cased) text starts with a
digit, contains no line end, and `strconv.ParseFloat` (model: `validFloat`) accepts it. The only
place of the lexer model that emits a NUMBER token is `lexWord`, guarded by that test; everything
else either leaves the token list alone or pushes a token of another kind. `Grow l l'` says
just that about two lexer states, and it is carried through every function and loop of the model.
-/
namespace Ecal.Lex

/-- a NUMBER token carries a text that passed the number test -/
def NumOK (t : Tok) : Prop := t.id = tNUMBER → numberCandidate t.val = true

/-- every token of `l'` is a token of `l` or satisfies `NumOK` -/
def Grow (l l' : L) : Prop := ∀ t ∈ l'.toks.toList, t ∈ l.toks.toList ∨ NumOK t

theorem Grow.refl (l : L) : Grow l l := fun _ h => Or.inl h

theorem Grow.of_eq {l l' : L} (h : l'.toks = l.toks) : Grow l l' := fun t ht => Or.inl (by rw [← h]; exact ht)

theorem Grow.trans {a b c : L} (h1 : Grow a b) (h2 : Grow b c) : Grow a c := by
  intro t ht
  rcases h2 t ht with h | h
  · exact h1 t h
  · exact Or.inr h

theorem Grow.emit (l : L) (id : Nat) (val : List Nat) (ident ae : Bool)
    (h : id = tNUMBER → numberCandidate val = true) : Grow l (l.emit id val ident ae) := by
  intro t ht
  simp only [L.emit, Array.toList_push, List.mem_append, List.mem_singleton] at ht
  rcases ht with ht | ht
  · exact Or.inl ht
  · right; subst ht; exact h

theorem Grow.emit_ne (l : L) (id : Nat) (val : List Nat) (ident ae : Bool) (h : id ≠ tNUMBER) :
    Grow l (l.emit id val ident ae) := Grow.emit l id val ident ae (fun h' => absurd h' h)

theorem ne_error : tERROR ≠ tNUMBER := by decide
theorem ne_eof : tEOF ≠ tNUMBER := by decide
theorem ne_string : tSTRING ≠ tNUMBER := by decide
theorem ne_ident : tIDENTIFIER ≠ tNUMBER := by decide
theorem ne_pre : tPRECOMMENT ≠ tNUMBER := by decide
theorem ne_post : tPOSTCOMMENT ≠ tNUMBER := by decide

theorem backup_toks (l : L) (w : Nat) : (l.backup w).toks = l.toks := rfl

theorem next_toks (l : L) : (l.next).1.toks = l.toks := by
  unfold L.next; split <;> rfl

theorem Grow.next (l : L) : Grow l (l.next).1 := Grow.of_eq (next_toks l)

theorem emitToken_grow (l : L) (id : Nat) (h : id ≠ tNUMBER) : Grow l (l.emitToken id) := by
  unfold L.emitToken
  split
  · exact Grow.emit_ne _ _ _ _ _ ne_eof
  · exact Grow.emit_ne _ _ _ _ _ h

theorem emitError_grow (l : L) (msg : String) : Grow l (l.emitError msg) :=
  Grow.emit_ne _ _ _ _ _ ne_error

/-! ### loops that never touch the token list -/

theorem sws_loop_grow (fuel : Nat) : ∀ (l : L) (r : Option Nat), Grow l (skipWhiteSpace.loop fuel l r).1 := by
  induction fuel with
  | zero => intro l r; exact Grow.refl l
  | succ n ih =>
    intro l r
    simp only [skipWhiteSpace.loop]
    by_cases hb : blank r = true
    · simp only [hb, if_true]
      have h1 : Grow l (if r = some 10 then { l.track r with skippedNl := l.skippedNl + 1 } else l) := by
        split
        · exact Grow.of_eq rfl
        · exact Grow.refl l
      generalize (if r = some 10 then ({ l.track r with skippedNl := l.skippedNl + 1 } : L) else l) = l1 at h1 ⊢
      by_cases hn : (l1.next).2 = none
      · simp only [hn, if_true]
        exact (h1.trans (Grow.next l1)).trans (emitToken_grow _ tEOF ne_eof)
      · simp only [hn, if_false]
        exact (h1.trans (Grow.next l1)).trans (ih _ _)
    · simp only [hb]
      exact Grow.of_eq rfl

theorem sws_grow (l : L) : Grow l (skipWhiteSpace l).1 := by
  simp only [skipWhiteSpace]
  exact ((Grow.next l).trans (Grow.of_eq rfl)).trans (sws_loop_grow _ _ _)

theorem numberBlock_loop_toks (fuel : Nat) : ∀ (l : L) (r : Option Nat),
    (lexNumberBlock.loop fuel l r).1.toks = l.toks := by
  induction fuel with
  | zero => intro l r; rfl
  | succ n ih =>
    intro l r
    simp only [lexNumberBlock.loop]
    repeat' split
    all_goals (first | rfl | (rw [ih]; simp [next_toks]))

theorem numberBlock_toks (l : L) : (lexNumberBlock l).toks = l.toks := by
  simp only [lexNumberBlock]
  split <;> simp [L.backup, numberBlock_loop_toks, next_toks]

theorem textBlock_loop_toks (fuel : Nat) : ∀ (l : L) (r : Option Nat),
    (lexTextBlock.loop fuel l r).1.toks = l.toks := by
  induction fuel with
  | zero => intro l r; rfl
  | succ n ih =>
    intro l r
    simp only [lexTextBlock.loop]
    repeat' split
    all_goals (first | rfl | (rw [ih]; simp [next_toks]))

theorem textBlock_toks (l : L) : (lexTextBlock l).toks = l.toks := by
  simp only [lexTextBlock]
  repeat' split
  all_goals (simp [L.backup, textBlock_loop_toks, next_toks])

theorem valueLoop_toks (ae : Bool) (endTok : Option Nat) (fuel : Nat) :
    ∀ (l : L) (r : Option Nat) (esc : Bool) (a b : Nat) (l' : L) (a' b' : Nat),
    lexValueLoop ae endTok fuel l r esc a b = some (l', a', b') → l'.toks = l.toks := by
  induction fuel with
  | zero => intro l r esc a b l' a' b' h; simp [lexValueLoop] at h
  | succ n ih =>
    intro l r esc a b l' a' b' h
    simp only [lexValueLoop] at h
    split at h
    · split at h
      · cases h
      · rw [ih _ _ _ _ _ _ _ _ h]; exact next_toks l
    · simp only [Option.some.injEq, Prod.mk.injEq] at h
      obtain ⟨rfl, _, _⟩ := h
      rfl

theorem hashLoop_toks (fuel : Nat) : ∀ (l : L) (r : Option Nat), (hashLoop fuel l r).1.toks = l.toks := by
  induction fuel with
  | zero => intro l r; rfl
  | succ n ih =>
    intro l r
    simp only [hashLoop]
    split
    · rw [ih]; exact next_toks l
    · rfl

theorem blockLoop_toks (fuel : Nat) : ∀ (l : L) (r : Option Nat) (a b : Nat) (l' : L) (a' b' : Nat),
    blockLoop fuel l r a b = some (l', a', b') → l'.toks = l.toks := by
  induction fuel with
  | zero => intro l r a b l' a' b' h; simp [blockLoop] at h
  | succ n ih =>
    intro l r a b l' a' b' h
    simp only [blockLoop] at h
    split at h
    · split at h
      · cases h
      · rw [ih _ _ _ _ _ _ _ h]; exact next_toks l
    · simp only [Option.some.injEq, Prod.mk.injEq] at h
      obtain ⟨rfl, _, _⟩ := h
      rfl

/-! ### the token phases -/

theorem valueOpen_toks (l : L) : (lexValueOpen l).1.toks = l.toks := by
  simp only [lexValueOpen]
  split <;> simp [next_toks]

theorem lexValue_grow (l : L) : Grow l (lexValue l).1 := by
  simp only [lexValue]
  have h0 : ((lexValueOpen l).1.next).1.toks = l.toks := by rw [next_toks, valueOpen_toks]
  generalize hres : lexValueLoop _ _ _ _ _ _ _ _ = res
  cases res with
  | none =>
    simp only [lexValueClose]
    exact (Grow.of_eq (l' := { ((lexValueOpen l).1.next).1 with pos := ((lexValueOpen l).1.next).1.inp.size }) h0).trans
      (emitError_grow _ _)
  | some x =>
    obtain ⟨l', a', b'⟩ := x
    have h1 : l'.toks = l.toks := (valueLoop_toks _ _ _ _ _ _ _ _ _ _ _ hres).trans h0
    simp only [lexValueClose]
    split
    · split
      · exact (Grow.of_eq h1).trans (emitError_grow _ _)
      · exact (Grow.of_eq h1).trans ((Grow.emit_ne l' tSTRING _ false true ne_string).trans (Grow.of_eq rfl))
    · exact (Grow.of_eq h1).trans ((Grow.emit_ne l' tSTRING _ false false ne_string).trans (Grow.of_eq rfl))

theorem lexCommentHash_grow (l : L) : Grow l (lexCommentHash l).1 := by
  simp only [lexCommentHash]
  have h1 : (hashLoop ({ l with start := l.pos } : L).inp.size.succ.succ { l with start := l.pos } (some 35)).1.toks = l.toks :=
    hashLoop_toks _ _ _
  split
  · exact (Grow.of_eq h1).trans (Grow.emit_ne _ tPOSTCOMMENT _ false false ne_post)
  · exact (Grow.of_eq h1).trans ((Grow.emit_ne _ tPOSTCOMMENT _ false false ne_post).trans (Grow.of_eq rfl))

theorem lexCommentBlock_grow (l : L) : Grow l (lexCommentBlock l).1 := by
  simp only [lexCommentBlock]
  split
  · exact (Grow.of_eq (by simp [next_toks])).trans (emitError_grow _ _)
  · rename_i l' a' b' hres
    have h1 : l'.toks = l.toks := by
      rw [blockLoop_toks _ _ _ _ _ _ _ _ hres]; simp [next_toks]
    exact (Grow.of_eq h1).trans ((Grow.emit_ne l' tPRECOMMENT (l'.slice l'.start (l'.pos - 1)) false false ne_pre).trans
      (Grow.of_eq (by simp [next_toks])))

theorem lexComment_grow (l : L) : Grow l (lexComment l).1 := by
  simp only [lexComment]
  split
  · exact (Grow.next l).trans (lexCommentHash_grow _)
  · exact (Grow.next l).trans (lexCommentBlock_grow _)

/-- the keyword and symbol tables hold no NUMBER id -/
theorem lookup_ne_number (tab : List (List Nat × Nat)) (htab : ∀ p ∈ tab, p.2 ≠ tNUMBER) (k : List Nat) (t : Nat)
    (h : lookupTab tab k = some t) : t ≠ tNUMBER := by
  simp only [lookupTab, Option.map_eq_some_iff] at h
  obtain ⟨p, hp, rfl⟩ := h
  exact htab p (List.mem_of_find?_eq_some hp)

theorem keyword_ids : ∀ p ∈ keywordBytes, p.2 ≠ tNUMBER := by decide
theorem symbol_ids : ∀ p ∈ symbolBytes, p.2 ≠ tNUMBER := by decide

theorem lexWordText_grow (l : L) : Grow l (lexWordText l).1 := by
  simp only [lexWordText]
  have h0 : Grow l (lexTextBlock l) := Grow.of_eq (textBlock_toks l)
  split
  · rename_i t ht
    refine h0.trans (emitToken_grow _ _ ?_)
    simp only [Option.orElse] at ht
    split at ht
    · rename_i t' hk
      simp only [Option.some.injEq] at ht
      subst ht
      exact lookup_ne_number _ keyword_ids _ _ hk
    · exact lookup_ne_number _ symbol_ids _ _ ht
  · split
    · exact h0.trans (emitError_grow _ _)
    · exact h0.trans (Grow.emit_ne _ tIDENTIFIER _ true false ne_ident)

theorem lexWord_grow (l : L) : Grow l (lexWord l).1 := by
  simp only [lexWord]
  have h0 : Grow l (lexNumberBlock l) := Grow.of_eq (numberBlock_toks l)
  split
  · rename_i hc
    exact h0.trans (Grow.emit _ tNUMBER _ false false (fun _ => hc))
  · refine h0.trans ?_
    split
    · exact (Grow.of_eq (backup_toks _ _)).trans (lexWordText_grow _)
    · exact lexWordText_grow _

theorem lexToken_grow (l : L) : Grow l (lexToken l).1 := by
  simp only [lexToken]
  split
  · split
    · exact (sws_grow l).trans (lexComment_grow _)
    · exact sws_grow l
  · split
    · split
      · exact (sws_grow l).trans (lexValue_grow _)
      · exact sws_grow l
    · exact (Grow.of_eq (l := l) (l' := { l with start := l.pos }) rfl).trans (lexWord_grow _)

theorem lex_loop_grow (fuel : Nat) : ∀ (l : L), Grow l (lex.loop fuel l) := by
  induction fuel with
  | zero => intro l; exact Grow.refl l
  | succ n ih =>
    intro l
    simp only [lex.loop]
    have h1 := (lexToken_grow l).trans (sws_grow (lexToken l).1)
    split
    · exact h1
    · exact h1.trans (ih _)

/-- every NUMBER token the lexer model emits, for every input, carries a text that passed the
    number test of `lexToken` -/
theorem number_tokens_pass_number_test (input : List Nat) :
    ∀ t ∈ (lex input).toList, t.id = tNUMBER → numberCandidate t.val = true := by
  intro t ht hid
  have key : t ∈ ({ inp := input.toArray } : L).toks.toList ∨ NumOK t := by
    simp only [lex] at ht
    split at ht
    · exact sws_grow _ t ht
    · exact ((sws_grow _).trans (lex_loop_grow _ _)) t ht
  rcases key with h | h
  · simp at h
  · exact h hid

end Ecal.Lex
