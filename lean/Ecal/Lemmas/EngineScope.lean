import Ecal.Lemmas.EngineBasic
/-! The `RuleScope` trie: `Add` defines exactly one path, `IsAllowed` finds the longest defined prefix. -/
namespace Ecal.Engine

theorem Scope.flagAt_empty (p : List Seg) : Scope.flagAt Scope.empty p = none := by
  cases p <;> simp [Scope.flagAt, Scope.empty, alookup]

theorem Scope.flagAt_add (b : Bool) : ∀ (q : List Seg) (s : Scope) (p : List Seg),
    Scope.flagAt (Scope.add b q s) p = if p = q then some b else Scope.flagAt s p := by
  intro q
  induction q with
  | nil =>
    intro s p
    obtain ⟨f, ch⟩ := s
    cases p <;> simp [Scope.add, Scope.flagAt]
  | cons x qs ih =>
    intro s p
    obtain ⟨f, ch⟩ := s
    cases p with
    | nil => simp [Scope.add, Scope.flagAt]
    | cons y ps =>
      simp only [Scope.add, Scope.flagAt, alookup_aset]
      by_cases hy : y = x
      · subst hy
        simp only [if_true, ih]
        cases hl : alookup y ch with
        | none => simp [Scope.flagAt_empty]
        | some c => simp
      · simp [hy]

theorem Spec.longest_none (p : List Seg) : ∀ (d : List Seg → Option Bool), (∀ q, d q = none) →
    Spec.longest d p = none := by
  induction p with
  | nil => intro d h; simp [Spec.longest, h]
  | cons x r ih =>
    intro d h
    simp only [Spec.longest, h]
    rw [ih (fun _ => none) (fun _ => rfl)]; rfl

theorem Scope.walk_eq : ∀ (p : List Seg) (n : Scope) (a0 : Bool),
    Scope.walk p n ((Scope.flagAt n []).getD a0) = (Spec.longest (Scope.flagAt n) p).getD a0 := by
  intro p
  induction p with
  | nil => intro n a0; obtain ⟨f, ch⟩ := n; simp [Scope.walk, Spec.longest]
  | cons x r ih =>
    intro n a0
    obtain ⟨f, ch⟩ := n
    simp only [Scope.walk, Spec.longest, Scope.flagAt]
    cases hl : alookup x ch with
    | none =>
      simp only
      rw [Spec.longest_none]
      · simp
      · intro q; simp
    | some c =>
      obtain ⟨f', ch'⟩ := c
      simp only
      have := ih (.node f' ch') (f.getD a0)
      simp only [Scope.flagAt] at this
      rw [this]
      cases Spec.longest (Scope.flagAt (Scope.node f' ch')) r <;> simp

theorem Scope.isAllowed_eq (s : Scope) (p : List Seg) :
    s.isAllowed p = (Spec.longest (Scope.flagAt s) p).getD false := by
  obtain ⟨f, ch⟩ := s
  have := Scope.walk_eq p (.node f ch) false
  simpa [Scope.isAllowed, Scope.flagAt] using this

theorem Scope.flagAt_foldl (defs : List (List Seg × Bool)) : ∀ (s : Scope) (q : List Seg),
    Scope.flagAt (defs.foldl (fun sc d => sc.add d.2 d.1) s) q = (Spec.lastDef defs q).or (Scope.flagAt s q) := by
  induction defs with
  | nil => intro s q; simp [Spec.lastDef]
  | cons d rest ih =>
    intro s q
    simp only [List.foldl_cons, ih, Scope.flagAt_add, Spec.lastDef]
    by_cases h : q = d.1
    · subst h; cases Spec.lastDef rest d.1 <;> simp
    · have h' : ¬ d.1 = q := fun c => h c.symm
      cases Spec.lastDef rest q <;> simp [h, h']

end Ecal.Engine
