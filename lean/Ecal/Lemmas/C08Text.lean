import Ecal.Model.PrattTable
/-!
C08, text level: on operator trees the FULL printer model (`Ecal.Print.visitF`, the function the driver runs) writes
exactly the text `renderP (annotW …)` of the expression-level model the theorems are about.
Part 1: the per-line trimming of ppPostProcessing is the identity on clean ASCII text.
-/
namespace Ecal.C08.TX
open Ecal.Lex Ecal.Print

/-- clean text: ASCII, no newline, not empty, not ending in white space -/
def Clean (t : Txt) : Prop :=
  (∀ c ∈ t, c < 0x80) ∧ (∀ c ∈ t, c ≠ 10) ∧ ∃ t' c, t = t' ++ [c] ∧ isSpace c = false

theorem decodeRune_ascii (t : Txt) (i : Nat) (hi : i < t.length) (h : t[i] < 0x80) :
    decodeRune t.toArray i = (t[i], 1) := by
  have : t.toArray.getD i 0 = t[i] := by simp [Array.getD, hi]
  simp only [decodeRune, this, decodeBytes, h, if_true]

theorem runes_go_ascii (t : Txt) (hasc : ∀ c ∈ t, c < 0x80) :
    ∀ (fuel i : Nat), t.length - i < fuel → runes.go t.toArray fuel i = (t.drop i).map fun c => (c, 1)
  | 0, i, h => by omega
  | fuel+1, i, h => by
    rw [runes.go]
    by_cases hi : i ≥ t.toArray.size
    · have : t.drop i = [] := List.drop_eq_nil_of_le (by simpa using hi)
      have hi2 : t.length ≤ i := by simpa using hi
      simp [hi2]
    · have hi' : i < t.length := by simpa using hi
      rw [if_neg hi, decodeRune_ascii t i hi' (hasc _ (List.getElem_mem hi'))]
      have ih := runes_go_ascii t hasc fuel (i + 1) (by omega)
      simp only
      rw [ih]
      conv => rhs; rw [List.drop_eq_getElem_cons hi']
      simp only [List.map_cons]

theorem runes_ascii (t : Txt) (hasc : ∀ c ∈ t, c < 0x80) : runes t = t.map fun c => (c, 1) := by
  have := runes_go_ascii t hasc (t.length + 1) 0 (by omega)
  simpa [runes] using this

theorem sum_widths (l : List Nat) (a : Nat) :
    (l.map fun c => (c, 1)).foldl (fun (a : Nat) (p : Nat × Nat) => a + p.2) a = a + l.length := by
  induction l generalizing a with
  | nil => simp
  | cons c l ih => simp only [List.map_cons, List.foldl_cons, List.length_cons]; rw [ih]; omega

theorem trimRight_clean (t : Txt) (h : Clean t) : trimRightSpace t = t := by
  obtain ⟨hasc, _, t', c, rfl, hc⟩ := h
  unfold trimRightSpace
  rw [runes_ascii _ hasc]
  simp only [List.map_append, List.map_cons, List.map_nil, List.reverse_append, List.reverse_cons, List.reverse_nil,
    List.nil_append, List.cons_append, List.dropWhile_cons, hc, Bool.false_eq_true, if_false]
  simp only [List.reverse_cons, List.reverse_reverse]
  have : ((t'.map fun c => (c, 1)) ++ [(c, 1)]) = (t' ++ [c]).map fun c => (c, 1) := by simp
  rw [this, sum_widths]
  have e : 0 + (t' ++ [c]).length = (t' ++ [c]).length := by omega
  rw [e, List.take_length]

theorem splitOn_go_noNl (t acc : Txt) (h : ∀ c ∈ t, c ≠ 10) : splitOn.go 10 t acc = [acc.reverse ++ t] := by
  induction t generalizing acc with
  | nil => simp [splitOn.go]
  | cons c cs ih =>
    have hc : c ≠ 10 := h c (by simp)
    rw [splitOn.go, if_neg hc, ih _ (fun x hx => h x (by simp [hx]))]
    simp

/-- the last step of ppPostProcessing (trim trailing white space on every line) is the identity on clean text -/
theorem trimLines_clean (t : Txt) (h : Clean t) : joinWith [10] ((splitOn 10 t).map trimRightSpace) = t := by
  have : splitOn 10 t = [t] := by
    have := splitOn_go_noNl t [] h.2.1
    simpa [splitOn] using this
  rw [this]
  simp only [List.map_cons, List.map_nil, joinWith]
  exact trimRight_clean t h

/-! Part 2: ppPostProcessing is the identity for a comment-free node that is not indented, on clean text -/

theorem post_clean (ast : Ecal.Parse.Node) (parent : Option Ecal.Parse.Node) (t : Txt)
    (hm : ast.metas = []) (htok : ∀ tk, ast.tok = some tk → tk.prefixNl ≤ 1)
    (hind : indentNames.contains ast.name = false) (h : Clean t) :
    ppPostProcessing ast parent t = .ok t := by
  unfold ppPostProcessing ppMetaData
  rw [hm]
  simp only [List.foldlM, bind, Except.bind, pure, Except.pure, hind, Bool.false_eq_true, if_false]
  have e1 : (match parent with
      | some par => (Except.ok t : Except PErr Txt)
      | none => Except.ok t) = Except.ok t := by cases parent <;> rfl
  cases parent with
  | none =>
    simp only
    cases htk : ast.tok with
    | none => simp only; rw [trimLines_clean t h]
    | some tk =>
      have := htok tk htk
      have hn : ¬ tk.prefixNl > 1 := by omega
      simp only [hn, if_false]; rw [trimLines_clean t h]
  | some par =>
    simp only
    cases htk : ast.tok with
    | none => simp only; rw [trimLines_clean t h]
    | some tk =>
      have := htok tk htk
      have hn : ¬ tk.prefixNl > 1 := by omega
      simp only [hn, if_false]; rw [trimLines_clean t h]

/-! Part 3: one unfolding step of the printer for an operator node -/

open Ecal.Parse in
/-- names whose nodes PrettyPrint handles in code instead of with a template -/
def specials : List String :=
  ["funccall", "sink", "statements", "try", "except", "list", "map", "identifier", "params", "if"]

/-- the text a template writes for the (already parenthesised) child texts `ps` -/
def piecesText (ps : List Txt) (pieces : List (String ⊕ Nat)) : Txt :=
  pieces.flatMap fun pc => match pc with
    | .inl t => s t
    | .inr k => c ps k

/-- the template only contains literal text and the children 1 … ar (no `.val` / `.qval`) -/
def piecesOk (ar : Nat) (pieces : List (String ⊕ Nat)) : Bool :=
  pieces.all fun pc => match pc with
    | .inl _ => true
    | .inr k => decide (1 ≤ k) && decide (k ≤ ar) && decide (k ≠ 100)

theorem foldlM_pieces (f : Txt → (String ⊕ Nat) → Except PErr Txt) (ps : List Txt) (ar : Nat)
    (h1 : ∀ acc t, f acc (.inl t) = .ok (acc ++ s t))
    (h2 : ∀ acc k, 1 ≤ k → k ≠ 100 → f acc (.inr k) = .ok (acc ++ c ps k)) :
    ∀ (pieces : List (String ⊕ Nat)) (acc : Txt), piecesOk ar pieces = true →
      List.foldlM f acc pieces = .ok (acc ++ piecesText ps pieces)
  | [], acc, _ => by simp [piecesText, List.foldlM, pure, Except.pure]
  | pc :: rest, acc, h => by
    simp only [piecesOk, List.all_cons, Bool.and_eq_true] at h
    have ih := foldlM_pieces f ps ar h1 h2 rest
    cases pc with
    | inl t =>
      simp only [List.foldlM, bind, Except.bind, h1]
      rw [ih _ (by simpa [piecesOk] using h.2)]
      simp [piecesText, List.append_assoc]
    | inr k =>
      have hk := h.1
      simp only [Bool.and_eq_true, decide_eq_true_eq] at hk
      simp only [List.foldlM, bind, Except.bind, h2 acc k hk.1.1 hk.2]
      rw [ih _ (by simpa [piecesOk] using h.2)]
      simp [piecesText, List.append_assoc]

open Ecal.Parse in
/-- **One step of `visit` for a node with two children** whose name has a template: if the children print to `tl`, `tr`,
    the node prints to its template filled with the children's texts — each parenthesised iff `bracketRule` says so —
    run through ppPostProcessing. (`q` = the quoting function of string tokens; no string token is involved here.) -/
theorem visit_bin (q : Txt → Txt) (fuel : Nat) (name : String) (tok : Option Lex.Tok) (binding : Nat) (nud : Nud) (led : Led)
    (L R : Node) (parent : Option Node) (tl tr : Txt) (pieces : List (String ⊕ Nat))
    (hL : visitFQ q fuel (some L) (some (Node.mk name tok binding nud led [some L, some R] [])) = .ok tl)
    (hR : visitFQ q fuel (some R) (some (Node.mk name tok binding nud led [some L, some R] [])) = .ok tr)
    (hsp : ∀ x ∈ specials, name ≠ x) (htm : tmpl (name ++ "_" ++ toString 2) = some pieces)
    (hpo : piecesOk 2 pieces = true) :
    visitFQ q (fuel+1) (some (Node.mk name tok binding nud led [some L, some R] [])) parent =
      ppPostProcessing (Node.mk name tok binding nud led [some L, some R] []) parent
        (piecesText
          [if bracketRule (Node.mk name tok binding nud led [some L, some R] []) L 0 = true then s "(" ++ tl ++ s ")" else tl,
           if bracketRule (Node.mk name tok binding nud led [some L, some R] []) R 1 = true then s "(" ++ tr ++ s ")" else tr]
          pieces) := by
  rw [visitFQ]
  dsimp only [Node.children, Node.name, List.length_cons, List.length_nil]
  simp only [List.zipIdx, List.mapM_cons, List.mapM_nil, bind, Except.bind, pure, Except.pure, hL, hR]
  split
  all_goals first
    | exact absurd rfl (hsp "funccall" (by simp [specials]))
    | exact absurd rfl (hsp "sink" (by simp [specials]))
    | exact absurd rfl (hsp "statements" (by simp [specials]))
    | exact absurd rfl (hsp "try" (by simp [specials]))
    | exact absurd rfl (hsp "except" (by simp [specials]))
    | exact absurd rfl (hsp "list" (by simp [specials]))
    | exact absurd rfl (hsp "map" (by simp [specials]))
    | exact absurd rfl (hsp "identifier" (by simp [specials]))
    | exact absurd rfl (hsp "params" (by simp [specials]))
    | exact absurd rfl (hsp "if" (by simp [specials]))
    | skip
  have hk : (if [some L, some R].length > 0 then name ++ "_" ++ toString [some L, some R].length else name) =
      name ++ "_" ++ toString 2 := by simp
  rw [hk, htm]
  dsimp only
  rw [foldlM_pieces _
    [if bracketRule (Node.mk name tok binding nud led [some L, some R] []) L 0 = true then s "(" ++ tl ++ s ")" else tl,
     if bracketRule (Node.mk name tok binding nud led [some L, some R] []) R (0 + 1) = true then s "(" ++ tr ++ s ")" else tr]
    2 (fun acc t => rfl) (fun acc k hk1 hk100 => by
      split
      · rename_i h; cases h
      · rename_i h; injection h with h; omega
      · rename_i h; injection h with h; exact absurd h hk100
      · rename_i h; injection h with h; subst h; rfl) pieces [] hpo]
  simp

open Ecal.Parse in
/-- **One step of `visit` for a node with one child** whose name has a template (prefix operators, `let`, `return x`,
    sink attributes …). -/
theorem visit_pre (q : Txt → Txt) (fuel : Nat) (name : String) (tok : Option Lex.Tok) (binding : Nat) (nud : Nud) (led : Led)
    (X : Node) (parent : Option Node) (tx : Txt) (pieces : List (String ⊕ Nat))
    (hX : visitFQ q fuel (some X) (some (Node.mk name tok binding nud led [some X] [])) = .ok tx)
    (hsp : ∀ x ∈ specials, name ≠ x) (htm : tmpl (name ++ "_" ++ toString 1) = some pieces)
    (hpo : piecesOk 1 pieces = true) :
    visitFQ q (fuel+1) (some (Node.mk name tok binding nud led [some X] [])) parent =
      ppPostProcessing (Node.mk name tok binding nud led [some X] []) parent
        (piecesText
          [if bracketRule (Node.mk name tok binding nud led [some X] []) X 0 = true then s "(" ++ tx ++ s ")" else tx]
          pieces) := by
  rw [visitFQ]
  dsimp only [Node.children, Node.name, List.length_cons, List.length_nil]
  simp only [List.zipIdx, List.mapM_cons, List.mapM_nil, bind, Except.bind, pure, Except.pure, hX]
  split
  all_goals first
    | exact absurd rfl (hsp "funccall" (by simp [specials]))
    | exact absurd rfl (hsp "sink" (by simp [specials]))
    | exact absurd rfl (hsp "statements" (by simp [specials]))
    | exact absurd rfl (hsp "try" (by simp [specials]))
    | exact absurd rfl (hsp "except" (by simp [specials]))
    | exact absurd rfl (hsp "list" (by simp [specials]))
    | exact absurd rfl (hsp "map" (by simp [specials]))
    | exact absurd rfl (hsp "identifier" (by simp [specials]))
    | exact absurd rfl (hsp "params" (by simp [specials]))
    | exact absurd rfl (hsp "if" (by simp [specials]))
    | skip
  have hk : (if [some X].length > 0 then name ++ "_" ++ toString [some X].length else name) =
      name ++ "_" ++ toString 1 := by simp
  rw [hk, htm]
  dsimp only
  rw [foldlM_pieces _
    [if bracketRule (Node.mk name tok binding nud led [some X] []) X 0 = true then s "(" ++ tx ++ s ")" else tx]
    1 (fun acc t => rfl) (fun acc k hk1 hk100 => by
      split
      · rename_i h; cases h
      · rename_i h; injection h with h; omega
      · rename_i h; injection h with h; exact absurd h hk100
      · rename_i h; injection h with h; subst h; rfl) pieces [] hpo]
  simp

/-- name-side hypotheses of `visit_bin` / `visit_pre` hold for an operator name such as `plus` (the template-side
    hypotheses `htm`, `hpo` are about the regenerated table, whose lookup the kernel cannot evaluate by `decide`; the
    driver evaluates the same `tmpl` on every case) -/
example : (∀ x ∈ specials, "plus" ≠ x) ∧ "plus" ++ "_" ++ toString 2 = "plus_2" := by decide

/-! Part 4: on the nodes of operator trees the bracket rule the printer model runs is the rule `realBr` of the
expression-level model -/

open Ecal.Parse in
/-- the node tree of an operator tree (atoms given): names, bindings and left denotations of the real table -/
def ofExpr (atomN : Nat → Node) : Expr → Node
  | .atom n => atomN n
  | .bin k l r =>
    Node.mk (((infixOps[k]?).map (·.1)).getD "") none (realPowers.bp k) .none .infix
      [some (ofExpr atomN l), some (ofExpr atomN r)] []
  | .pre k x =>
    Node.mk (((prefixOps[k]?).map (·.1)).getD "") none (realPowers.pb k) .none
      (if ((prefixOps[k]?).map (·.2.2)).getD false then .infix else .none) [some (ofExpr atomN x)] []

/-- length of the left spine -/
def spine : Expr → Nat
  | .bin _ l _ => spine l + 1
  | _ => 0

/-- in the table, the node names `times` / `div` belong to exactly the indices `iTimes` / `iDiv` -/
theorem times_div_names :
    ((List.range infixOps.length).all fun k =>
      (((infixOps[k]?).map (·.1)).getD "" == "times") == decide (k = iTimes) &&
      (((infixOps[k]?).map (·.1)).getD "" == "div") == decide (k = iDiv)) = true := by decide

open Ecal.Parse in
/-- **ppIsProductChain on nodes = chainPure on trees** (for the parent `times`): the printer model's `isProductChainF` on
    the node tree of `c` computes `chainPure` of the expression-level model, given enough fuel for the left spine and
    operators of the real table. Atoms must not look like infix nodes. -/
theorem chain_eq (atomN : Nat → Node) (hat : ∀ n, (atomN n).children.length ≠ 2) :
    ∀ (c : Expr) (f : Nat), spine c < f → headsIn inTable c = true →
      isProductChainF f (ofExpr atomN c) (realPowers.bp iTimes) =
        chainPure realPowers realExc iTimes (realPowers.bp iTimes) c := by
  intro c
  induction c with
  | atom n =>
    intro f hf _
    cases f with
    | zero => omega
    | succ f => simp [isProductChainF, ofExpr, chainPure, hat n]
  | pre k x _ =>
    intro f hf _
    cases f with
    | zero => omega
    | succ f => simp [isProductChainF, ofExpr, chainPure, Node.children]
  | bin k l r ihl _ =>
    intro f hf hin
    cases f with
    | zero => omega
    | succ f =>
      simp only [headsIn, Bool.and_eq_true] at hin
      have hk : k < infixOps.length := by
        have := hin.1.1
        simp only [inTable, allHeads, List.contains_eq_mem, List.mem_cons, List.mem_append, List.mem_map, List.mem_range,
          decide_eq_true_eq] at this
        rcases this with h | ⟨a, ha, h⟩ | ⟨a, _, h⟩
        · cases h
        · injection h with h; omega
        · cases h
      have hn := List.all_eq_true.mp times_div_names k (List.mem_range.mpr hk)
      simp only [Bool.and_eq_true, beq_iff_eq] at hn
      have ih := ihl f (by simp only [spine] at hf; omega) hin.1.2
      simp only [isProductChainF, ofExpr, chainPure, Node.children, Node.led, Node.binding, Node.name, List.length_cons,
        List.length_nil]
      by_cases hb : realPowers.bp k = realPowers.bp iTimes
      · simp only [hb, if_true]
        rw [ih]
        simp only [realExc, decide_true, Bool.true_and]
        have h1 : decide (((infixOps[k]?).map (·.1)).getD "" = "times") = decide (k = iTimes) := hn.1
        have h2 : decide (((infixOps[k]?).map (·.1)).getD "" = "div") = decide (k = iDiv) := hn.2
        have p1 := decide_eq_decide.mp h1
        have p2 := decide_eq_decide.mp h2
        simp [p1, p2]
      · simp [hb]

/-- what ppNeedsBrackets reads of the node of an operator tree = what the expression-level model reads of its head
    (atoms must look like identifiers to the rule: `hatom`) -/
theorem bnOfNode_ofExpr (atomN : Nat → Ecal.Parse.Node) (hatom : ∀ n x, bnOfNode (atomN n) x = bnOf .atom x)
    (e : Expr) (x : Bool) : bnOfNode (ofExpr atomN e) x = bnOf e.head x := by
  cases e with
  | atom n => exact hatom n x
  | bin k l r =>
    simp [bnOfNode, ofExpr, bnOf, Expr.head, Ecal.Parse.Node.name, Ecal.Parse.Node.binding, Ecal.Parse.Node.led,
      Ecal.Parse.Node.children]
  | pre k y =>
    cases hb : ((prefixOps[k]?).map (·.2.2)).getD false <;>
      simp [bnOfNode, ofExpr, bnOf, Expr.head, hb, Ecal.Parse.Node.name, Ecal.Parse.Node.binding, Ecal.Parse.Node.led,
        Ecal.Parse.Node.children]

/-- **step 3 of the plan: the printer model's `bracketRule` on the nodes of an operator tree is the expression-level
    model's `realBr` on the heads**, with the purity flag the printer computes (`isProductChain`); needs the extracted
    rule to be in force (`shapeOk`). Independent of the shape of the extracted rule. -/
theorem bracketRule_ofExpr (hs : Ecal.Gen.C08.shapeOk = true) (atomN : Nat → Ecal.Parse.Node)
    (hatom : ∀ n x, bnOfNode (atomN n) x = bnOf .atom x) (p c : Expr) (i : Nat) :
    bracketRule (ofExpr atomN p) (ofExpr atomN c) i =
      realBr p.head c.head i (isProductChain (ofExpr atomN c) (ofExpr atomN p).binding) := by
  simp only [bracketRule, realBr, hs, if_true, needsBracketsGen, genBr, bnOfNode_ofExpr atomN hatom]

open Ecal.Parse in
/-- under a product, the printer model's decision for an operand is exactly the one `annotW realBr` takes: the flag
    is `chainPure` (by `chain_eq`) -/
theorem bracketRule_times (hs : Ecal.Gen.C08.shapeOk = true) (atomN : Nat → Ecal.Parse.Node)
    (hatom : ∀ n x, bnOfNode (atomN n) x = bnOf .atom x) (hat : ∀ n, (atomN n).children.length ≠ 2)
    (l r c : Expr) (i : Nat) (hsp : spine c < 100000) (hin : headsIn inTable c = true) :
    bracketRule (ofExpr atomN (.bin iTimes l r)) (ofExpr atomN c) i =
      realBr (.bin iTimes) c.head i (chainPure realPowers realExc iTimes (realPowers.bp iTimes) c) := by
  rw [bracketRule_ofExpr hs atomN hatom]
  have : (ofExpr atomN (.bin iTimes l r)).binding = realPowers.bp iTimes := rfl
  rw [this, isProductChain, chain_eq atomN hat c 100000 hsp hin]
  rfl

/-- the atom hypotheses of `chain_eq` / `bracketRule_ofExpr` / `bracketRule_times` hold for identifier atoms -/
example :
    let atomN : Nat → Ecal.Parse.Node := fun _ => Ecal.Parse.Node.mk "identifier" none 0 .none .none [] []
    (∀ n x, bnOfNode (atomN n) x = bnOf .atom x) ∧ (∀ n, (atomN n).children.length ≠ 2) := by
  exact ⟨fun n x => rfl, fun n => by simp [Ecal.Parse.Node.children]⟩

/-! ## Part 5 (step 3′): the purity flag only matters under a product -/

/-- the check behind `flag_irrelevant`: for every parent head of the table other than `times`, every child head and
    both child positions the extracted rule gives the same answer for both values of the ppIsProductChain flag -/
def flagCheck (br : Head → Head → Nat → Bool → Bool) : Bool :=
  allHeads.all fun p => p == .bin iTimes ||
    allHeads.all fun c => [0, 1].all fun i => br p c i true == br p c i false

/-- **step 3′: under any parent other than `times` the extracted rule ignores the purity flag** (a `decide` over the
    regenerated rule and table, like `generated_rule_suffices`; it stays true for any rewrite of ppNeedsBrackets that
    consults ppIsProductChain only under a product) -/
theorem flag_irrelevant_check : Ecal.Gen.C08.shapeOk = true → flagCheck genBr = true := by decide

theorem flag_irrelevant (hs : Ecal.Gen.C08.shapeOk = true) (p c : Head) (i : Nat) (b1 b2 : Bool)
    (hp : inTable p = true) (hc : inTable c = true) (hi : i < 2) (hne : p ≠ .bin iTimes) :
    genBr p c i b1 = genBr p c i b2 := by
  have h := flag_irrelevant_check hs
  simp only [flagCheck, List.all_eq_true, Bool.or_eq_true, beq_iff_eq] at h
  have hp' : p ∈ allHeads := by simpa [inTable] using hp
  have hc' : c ∈ allHeads := by simpa [inTable] using hc
  have hi' : i ∈ [0, 1] := by
    have : i = 0 ∨ i = 1 := by omega
    rcases this with h | h <;> simp [h]
  have := (h p hp').resolve_left hne c hc' i hi'
  cases b1 <;> cases b2 <;> simp [this]

/-- the purity flag `annotW` hands to the rule for an operand `c` of `p` -/
def annotFlag : Expr → Expr → Bool
  | .bin k _ _, c => chainPure realPowers realExc k (realPowers.bp k) c
  | _, _ => true

theorem inTable_head_of_headsIn (c : Expr) (h : headsIn inTable c = true) : inTable c.head = true := by
  cases c with
  | atom n => exact (by decide : inTable .atom = true)
  | bin k l r => simp only [headsIn, Bool.and_eq_true] at h; exact h.1.1
  | pre k x => simp only [headsIn, Bool.and_eq_true] at h; exact h.1

open Ecal.Parse in
/-- **step 3 complete: for EVERY parent of the real table, the printer model's `bracketRule` on the nodes of an operator
    tree takes exactly the decision `annotW realBr` takes** (`annotW` wraps operand `c` of `p` iff
    `realBr p.head c.head i (annotFlag p c)`): under a product by `bracketRule_times`, elsewhere because the rule ignores
    the flag (`flag_irrelevant`). Hypotheses: the extracted rule is in force, atoms look like identifiers to the rule,
    heads of the table, child position 0 or 1, fuel of `isProductChain` above the left spine. -/
theorem bracketRule_annotW (hs : Ecal.Gen.C08.shapeOk = true) (atomN : Nat → Ecal.Parse.Node)
    (hatom : ∀ n x, bnOfNode (atomN n) x = bnOf .atom x) (hat : ∀ n, (atomN n).children.length ≠ 2)
    (p c : Expr) (i : Nat) (hi : i < 2) (hp : inTable p.head = true) (hsp : spine c < 100000)
    (hin : headsIn inTable c = true) :
    bracketRule (ofExpr atomN p) (ofExpr atomN c) i = realBr p.head c.head i (annotFlag p c) := by
  by_cases hpt : p.head = .bin iTimes
  · cases p with
    | bin k l r =>
      simp only [Expr.head, Head.bin.injEq] at hpt
      subst hpt
      exact bracketRule_times hs atomN hatom hat l r c i hsp hin
    | atom n => simp [Expr.head] at hpt
    | pre k x => simp [Expr.head] at hpt
  · rw [bracketRule_ofExpr hs atomN hatom]
    have hr : realBr = genBr := by simp [realBr, hs]
    rw [hr]
    exact flag_irrelevant hs _ _ i _ _ hp (inTable_head_of_headsIn c hin) hi hpt

/-- `annotFlag` is literally the flag in `annotW` -/
example (br : Head → Head → Nat → Bool → Bool) (k : Nat) (l r : Expr) :
    annotW realPowers realExc br (.bin k l r) =
      .bin k (wrap (br (.bin k) l.head 0 (annotFlag (.bin k l r) l)) (annotW realPowers realExc br l))
        (wrap (br (.bin k) r.head 1 (annotFlag (.bin k l r) r)) (annotW realPowers realExc br r)) := rfl

/-- `bracketRule_annotW` is not vacuous: all its hypotheses hold for identifier atoms, the current tables and e.g. the
    right operand of the first infix operator of the table -/
example :
    let atomN : Nat → Ecal.Parse.Node := fun _ => Ecal.Parse.Node.mk "identifier" none 0 .none .none [] []
    bracketRule (ofExpr atomN (.bin 0 (.atom 0) (.atom 1))) (ofExpr atomN (.atom 1)) 1 =
      realBr (.bin 0) .atom 1 (annotFlag (.bin 0 (.atom 0) (.atom 1)) (.atom 1)) :=
  bracketRule_annotW rfl _ (fun _ _ => rfl) (fun _ => by simp [Ecal.Parse.Node.children]) _ _ 1 (by decide) (by decide)
    (by decide) (by decide)

end Ecal.C08.TX
