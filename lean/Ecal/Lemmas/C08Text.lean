import Ecal.Model.PrattTable
/-!
C08, text level: on operator trees the FULL printer model (`Ecal.Print.visitF`, the function the driver runs) writes
exactly the text `renderP (annotW …)` of the expression-level model the theorems are about.
Part 1: the per-line trimming of ppPostProcessing is the identity on clean ASCII text.
-/
namespace Ecal.C08.TX
open Ecal.Lex Ecal.Print

/-- clean text: ASCII, no newline, not empty, not ending in white space -/
def Clean (t : Txt) : Prop :=
  (∀ c ∈ t, c < 0x80) ∧ (∀ c ∈ t, c ≠ 10) ∧ ∃ t' c, t = t' ++ [c] ∧ isSpace c = false

theorem decodeRune_ascii (t : Txt) (i : Nat) (hi : i < t.length) (h : t[i] < 0x80) :
    decodeRune t.toArray i = (t[i], 1) := by
  have : t.toArray.getD i 0 = t[i] := by simp [Array.getD, hi]
  simp only [decodeRune, this, decodeBytes, h, if_true]

theorem runes_go_ascii (t : Txt) (hasc : ∀ c ∈ t, c < 0x80) :
    ∀ (fuel i : Nat), t.length - i < fuel → runes.go t.toArray fuel i = (t.drop i).map fun c => (c, 1)
  | 0, i, h => by omega
  | fuel+1, i, h => by
    rw [runes.go]
    by_cases hi : i ≥ t.toArray.size
    · have : t.drop i = [] := List.drop_eq_nil_of_le (by simpa using hi)
      have hi2 : t.length ≤ i := by simpa using hi
      simp [hi2]
    · have hi' : i < t.length := by simpa using hi
      rw [if_neg hi, decodeRune_ascii t i hi' (hasc _ (List.getElem_mem hi'))]
      have ih := runes_go_ascii t hasc fuel (i + 1) (by omega)
      simp only
      rw [ih]
      conv => rhs; rw [List.drop_eq_getElem_cons hi']
      simp only [List.map_cons]

theorem runes_ascii (t : Txt) (hasc : ∀ c ∈ t, c < 0x80) : runes t = t.map fun c => (c, 1) := by
  have := runes_go_ascii t hasc (t.length + 1) 0 (by omega)
  simpa [runes] using this

theorem sum_widths (l : List Nat) (a : Nat) :
    (l.map fun c => (c, 1)).foldl (fun (a : Nat) (p : Nat × Nat) => a + p.2) a = a + l.length := by
  induction l generalizing a with
  | nil => simp
  | cons c l ih => simp only [List.map_cons, List.foldl_cons, List.length_cons]; rw [ih]; omega

theorem trimRight_clean (t : Txt) (h : Clean t) : trimRightSpace t = t := by
  obtain ⟨hasc, _, t', c, rfl, hc⟩ := h
  unfold trimRightSpace
  rw [runes_ascii _ hasc]
  simp only [List.map_append, List.map_cons, List.map_nil, List.reverse_append, List.reverse_cons, List.reverse_nil,
    List.nil_append, List.cons_append, List.dropWhile_cons, hc, Bool.false_eq_true, if_false]
  simp only [List.reverse_cons, List.reverse_reverse]
  have : ((t'.map fun c => (c, 1)) ++ [(c, 1)]) = (t' ++ [c]).map fun c => (c, 1) := by simp
  rw [this, sum_widths]
  have e : 0 + (t' ++ [c]).length = (t' ++ [c]).length := by omega
  rw [e, List.take_length]

theorem splitOn_go_noNl (t acc : Txt) (h : ∀ c ∈ t, c ≠ 10) : splitOn.go 10 t acc = [acc.reverse ++ t] := by
  induction t generalizing acc with
  | nil => simp [splitOn.go]
  | cons c cs ih =>
    have hc : c ≠ 10 := h c (by simp)
    rw [splitOn.go, if_neg hc, ih _ (fun x hx => h x (by simp [hx]))]
    simp

/-- the last step of ppPostProcessing (trim trailing white space on every line) is the identity on clean text -/
theorem trimLines_clean (t : Txt) (h : Clean t) : joinWith [10] ((splitOn 10 t).map trimRightSpace) = t := by
  have : splitOn 10 t = [t] := by
    have := splitOn_go_noNl t [] h.2.1
    simpa [splitOn] using this
  rw [this]
  simp only [List.map_cons, List.map_nil, joinWith]
  exact trimRight_clean t h

/-! Part 2: ppPostProcessing is the identity for a comment-free node that is not indented, on clean text -/

theorem post_clean (ast : Ecal.Parse.Node) (parent : Option Ecal.Parse.Node) (t : Txt)
    (hm : ast.metas = []) (htok : ∀ tk, ast.tok = some tk → tk.prefixNl ≤ 1)
    (hind : indentNames.contains ast.name = false) (h : Clean t) :
    ppPostProcessing ast parent t = .ok t := by
  unfold ppPostProcessing ppMetaData
  rw [hm]
  simp only [List.foldlM, bind, Except.bind, pure, Except.pure, hind, Bool.false_eq_true, if_false]
  have e1 : (match parent with
      | some par => (Except.ok t : Except PErr Txt)
      | none => Except.ok t) = Except.ok t := by cases parent <;> rfl
  cases parent with
  | none =>
    simp only
    cases htk : ast.tok with
    | none => simp only; rw [trimLines_clean t h]
    | some tk =>
      have := htok tk htk
      have hn : ¬ tk.prefixNl > 1 := by omega
      simp only [hn, if_false]; rw [trimLines_clean t h]
  | some par =>
    simp only
    cases htk : ast.tok with
    | none => simp only; rw [trimLines_clean t h]
    | some tk =>
      have := htok tk htk
      have hn : ¬ tk.prefixNl > 1 := by omega
      simp only [hn, if_false]; rw [trimLines_clean t h]

end Ecal.C08.TX
