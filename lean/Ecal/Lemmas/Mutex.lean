import Ecal.Model.Mutex
/-! Invariant of the mutex-block transition system (`Ecal.Mutex.Inv`) and its preservation. -/
namespace Ecal.Mutex

@[simp] theorem setThr_thr (s : State) (t : Nat) (th : Thread) (x : Nat) :
    (setThr s t th).thr x = if x = t then th else s.thr x := rfl
@[simp] theorem setThr_mtx (s : State) (t : Nat) (th : Thread) : (setThr s t th).mtx = s.mtx := rfl
@[simp] theorem setMtx_mtx (s : State) (a : Nat) (m : MState) (b : Nat) :
    (setMtx s a m).mtx b = if b = a then m else s.mtx b := rfl
@[simp] theorem setMtx_thr (s : State) (a : Nat) (m : MState) : (setMtx s a m).thr = s.thr := rfl

@[simp] theorem hasAcq_nil (a : Nat) : hasAcq [] a = false := rfl
@[simp] theorem hasAcq_cons (f : Frame) (r : List Frame) (a : Nat) :
    hasAcq (f :: r) a = ((f.name == a && f.acquired) || hasAcq r a) := by simp [hasAcq]
@[simp] theorem inBlock_nil (a : Nat) : inBlock [] a = false := rfl
@[simp] theorem inBlock_cons (f : Frame) (r : List Frame) (a : Nat) :
    inBlock (f :: r) a = ((f.name == a) || inBlock r a) := by simp [inBlock]

/-- in a well-formed stack every frame of name `a` sits above an acquired frame of name `a` -/
theorem inBlock_hasAcq {st : List Frame} {a : Nat} (hw : stackWf st = true) (hi : inBlock st a = true) :
    hasAcq st a = true := by
  induction st with
  | nil => simp at hi
  | cons f r ih =>
    simp [stackWf] at hw
    simp at hi
    simp
    rcases hi with e | hr
    · subst e
      cases hf : f.acquired <;> simp_all
    · right; exact ih hw.2 hr

theorem inv_init : Inv init := by
  constructor <;> simp [init, idle, Thread.holds, Thread.ownerReg, pcHolds, pcOwner]
  · intro x; constructor <;> simp [stackWf, pcWf]

theorem inv_look {s s' : State} {t a : Nat} (h : Inv s) (hs : step s (.look t a) = some s') : Inv s' := by
  simp only [step] at hs
  split at hs
  · rename_i hc
    obtain ⟨ht, hp⟩ := hc
    cases hs
    constructor
    · intro b x
      have := h.hold b x
      by_cases hx : x = t <;> by_cases hb : b = a <;> simp_all [Thread.holds, pcHolds]
    · intro b
      have := h.lock b
      by_cases hb : b = a <;> simp_all
    · intro b x
      have := h.own b x
      by_cases hx : x = t <;> by_cases hb : b = a <;> simp_all [Thread.ownerReg, pcOwner]
    · have := h.zero
      simp_all [Ne.symm ht]
    · intro x
      have hw := h.wf x
      have ho := h.own a x
      by_cases hx : x = t
      · subst hx
        constructor
        · simpa using hw.st
        · simp_all [pcWf, Thread.ownerReg, pcOwner]
        · simpa using hw.rmw
      · simpa [hx] using hw
    · intro b
      have := h.ctr b
      by_cases hb : b = a <;> simp_all
    · intro x b v
      have := h.rmwv x b v
      by_cases hx : x = t <;> by_cases hb : b = a <;> simp_all
  · cases hs

theorem ne_zero_of_pc {s : State} (h : Inv s) {t : Nat} (hp : (s.thr t).pc ≠ .run) : t ≠ 0 := by
  intro e; subst e; rw [h.zero] at hp; exact hp rfl

theorem inv_decide {s s' : State} {t : Nat} (h : Inv s) (hs : step s (.decide t) = some s') : Inv s' := by
  simp only [step] at hs
  split at hs
  · rename_i a o hp
    have ht : t ≠ 0 := ne_zero_of_pc h (by simp [hp])
    have hwt := h.wf t
    have hpc := hwt.pc
    simp only [hp, pcWf] at hpc
    split at hs <;> cases hs
    · -- re-entrant: push a frame that did not acquire
      rename_i hot
      constructor
      · intro b x
        have := h.hold b x
        by_cases hx : x = t <;> simp_all [Thread.holds, pcHolds]
      · exact h.lock
      · intro b x
        have := h.own b x
        by_cases hx : x = t <;> simp_all [Thread.ownerReg, pcOwner]
      · have := h.zero
        simp_all [Ne.symm ht]
      · intro x
        have hw := h.wf x
        by_cases hx : x = t
        · subst hx
          constructor
          · have := hw.st; simp_all [stackWf]
          · simp [pcWf]
          · intro b v hb; have := hw.rmw b v; simp_all
        · simpa [hx] using hw
      · exact h.ctr
      · intro x b v
        have := h.rmwv x b v
        by_cases hx : x = t <;> simp_all
    · rename_i hot
      constructor
      · intro b x
        have := h.hold b x
        by_cases hx : x = t <;> simp_all [Thread.holds, pcHolds]
      · exact h.lock
      · intro b x
        have := h.own b x
        by_cases hx : x = t <;> simp_all [Thread.ownerReg, pcOwner]
      · have := h.zero
        simp_all [Ne.symm ht]
      · intro x
        have hw := h.wf x
        by_cases hx : x = t
        · subst hx
          constructor
          · simpa using hw.st
          · simp_all [pcWf]
          · simpa using hw.rmw
        · simpa [hx] using hw
      · exact h.ctr
      · intro x b v
        have := h.rmwv x b v
        by_cases hx : x = t <;> simp_all
  · cases hs

theorem inv_lock {s s' : State} {t : Nat} (h : Inv s) (hs : step s (.lock t) = some s') : Inv s' := by
  simp only [step] at hs
  split at hs
  · rename_i a hp
    have ht : t ≠ 0 := ne_zero_of_pc h (by simp [hp])
    split at hs <;> cases hs
    rename_i hl
    have hg : (s.mtx a).holder = none := by
      cases hgh : (s.mtx a).holder with
      | none => rfl
      | some y => have := (h.lock a).mpr (by simp [hgh]); simp [hl] at this
    constructor
    · intro b x
      have := h.hold b x
      by_cases hx : x = t <;> by_cases hb : b = a <;> simp_all [Thread.holds, pcHolds]
      all_goals (intro e; omega)
    · intro b
      have := h.lock b
      by_cases hb : b = a <;> simp_all
    · intro b x
      have := h.own b x
      by_cases hx : x = t <;> by_cases hb : b = a <;> simp_all [Thread.ownerReg, pcOwner]
    · have := h.zero
      simp_all [Ne.symm ht]
    · intro x
      have hw := h.wf x
      by_cases hx : x = t
      · subst hx
        have hh := h.hold a x
        constructor
        · simpa using hw.st
        · simp_all [pcWf, Thread.holds, pcHolds]
        · simpa using hw.rmw
      · simpa [hx] using hw
    · intro b
      have := h.ctr b
      by_cases hb : b = a <;> simp_all
    · intro x b v
      have := h.rmwv x b v
      by_cases hx : x = t <;> by_cases hb : b = a <;> simp_all
  · cases hs

theorem ownerReg_holds {th : Thread} {a : Nat} (h : th.ownerReg a = true) : th.holds a = true := by
  unfold Thread.ownerReg at h
  unfold Thread.holds
  cases hp : th.pc <;> simp_all [pcOwner, pcHolds]

theorem inv_setOwner {s s' : State} {t : Nat} (h : Inv s) (hs : step s (.setOwner t) = some s') : Inv s' := by
  simp only [step] at hs
  split at hs
  · rename_i a hp
    have ht : t ≠ 0 := ne_zero_of_pc h (by simp [hp])
    cases hs
    have hgt : (s.mtx a).holder = some t := (h.hold a t).mp (by simp [Thread.holds, hp, pcHolds])
    have hwt := h.wf t
    have hpc := hwt.pc
    simp only [hp, pcWf] at hpc
    constructor
    · intro b x
      have := h.hold b x
      by_cases hx : x = t <;> by_cases hb : b = a <;> simp_all [Thread.holds, pcHolds]
    · intro b
      have := h.lock b
      by_cases hb : b = a <;> simp_all
    · intro b x
      have := h.own b x
      by_cases hx : x = t
      · by_cases hb : b = a <;> simp_all [Thread.ownerReg, pcOwner]
        intro e; omega
      · by_cases hb : b = a
        · subst hb
          have hno : (s.thr x).ownerReg b = false := by
            cases ho : (s.thr x).ownerReg b with
            | false => rfl
            | true =>
              have := (h.hold b x).mp (ownerReg_holds ho)
              rw [hgt] at this
              exact absurd (Option.some.inj this).symm hx
          simp [hx, hno]; omega
        · simp_all
    · have := h.zero
      simp_all [Ne.symm ht]
    · intro x
      have hw := h.wf x
      by_cases hx : x = t
      · subst hx
        constructor
        · have := hw.st; simp_all [stackWf]
        · simp [pcWf]
        · intro b v hb; have := hw.rmw b v; simp_all
      · simpa [hx] using hw
    · intro b
      have := h.ctr b
      by_cases hb : b = a <;> simp_all
    · intro x b v
      have := h.rmwv x b v
      by_cases hx : x = t <;> by_cases hb : b = a <;> simp_all
  · cases hs

theorem inv_resetOwner {s s' : State} {t : Nat} (h : Inv s) (hs : step s (.resetOwner t) = some s') : Inv s' := by
  simp only [step] at hs
  split at hs
  · rename_i a hp
    have ht : t ≠ 0 := ne_zero_of_pc h (by simp [hp])
    cases hs
    have hot : (s.mtx a).owner = t := ((h.own a t).mp (by simp [Thread.ownerReg, hp, pcOwner])).1
    have hwt := h.wf t
    have hpc := hwt.pc
    simp only [hp, pcWf] at hpc
    constructor
    · intro b x
      have := h.hold b x
      by_cases hx : x = t <;> by_cases hb : b = a <;> simp_all [Thread.holds, pcHolds]
    · intro b
      have := h.lock b
      by_cases hb : b = a <;> simp_all
    · intro b x
      have := h.own b x
      by_cases hx : x = t
      · by_cases hb : b = a <;> simp_all [Thread.ownerReg, pcOwner]
        all_goals (first | omega | (have hab : ¬ a = b := fun e => hb e.symm; simpa [hab] using this))
      · by_cases hb : b = a
        · subst hb
          have hno : (s.thr x).ownerReg b = false := by
            cases ho : (s.thr x).ownerReg b with
            | false => rfl
            | true => have := ((h.own b x).mp ho).1; omega
          simp [hx, hno]; omega
        · simp_all
    · have := h.zero
      simp_all [Ne.symm ht]
    · intro x
      have hw := h.wf x
      by_cases hx : x = t
      · subst hx
        constructor
        · simpa using hw.st
        · simp_all [pcWf]
        · simpa using hw.rmw
      · simpa [hx] using hw
    · intro b
      have := h.ctr b
      by_cases hb : b = a <;> simp_all
    · intro x b v
      have := h.rmwv x b v
      by_cases hx : x = t <;> by_cases hb : b = a <;> simp_all
  · cases hs

theorem inv_unlock {s s' : State} {t : Nat} (h : Inv s) (hs : step s (.unlock t) = some s') : Inv s' := by
  simp only [step] at hs
  split at hs
  · rename_i a hp
    have ht : t ≠ 0 := ne_zero_of_pc h (by simp [hp])
    cases hs
    have hgt : (s.mtx a).holder = some t := (h.hold a t).mp (by simp [Thread.holds, hp, pcHolds])
    have hwt := h.wf t
    have hpc := hwt.pc
    simp only [hp, pcWf] at hpc
    constructor
    · intro b x
      have := h.hold b x
      by_cases hx : x = t
      · by_cases hb : b = a <;> simp_all [Thread.holds, pcHolds]
        all_goals (first | omega | (have hab : ¬ a = b := fun e => hb e.symm; simpa [hab] using this))
      · by_cases hb : b = a
        · subst hb
          have hno : (s.thr x).holds b = false := by
            cases ho : (s.thr x).holds b with
            | false => rfl
            | true =>
              have := (h.hold b x).mp ho
              rw [hgt] at this
              exact absurd (Option.some.inj this).symm hx
          simp [hx, hno]
        · simp_all
    · intro b
      have := h.lock b
      by_cases hb : b = a <;> simp_all
    · intro b x
      have := h.own b x
      by_cases hx : x = t <;> by_cases hb : b = a <;> simp_all [Thread.ownerReg, pcOwner]
    · have := h.zero
      simp_all [Ne.symm ht]
    · intro x
      have hw := h.wf x
      by_cases hx : x = t
      · subst hx
        constructor
        · simpa using hw.st
        · simp_all [pcWf]
        · simpa using hw.rmw
      · simpa [hx] using hw
    · intro b
      have := h.ctr b
      by_cases hb : b = a <;> simp_all
    · intro x b v
      have := h.rmwv x b v
      by_cases hx : x = t <;> by_cases hb : b = a <;> simp_all
  · cases hs

theorem inv_read {s s' : State} {t a : Nat} (h : Inv s) (hs : step s (.read t a) = some s') : Inv s' := by
  simp only [step] at hs
  split at hs
  · rename_i hc
    obtain ⟨hp, hin⟩ := hc
    cases hs
    constructor
    · intro b x
      have := h.hold b x
      by_cases hx : x = t <;> simp_all [Thread.holds, pcHolds]
    · exact h.lock
    · intro b x
      have := h.own b x
      by_cases hx : x = t <;> simp_all [Thread.ownerReg, pcOwner]
    · have := h.zero
      by_cases ht : t = 0
      · subst ht; simp_all [idle]
      · simp_all [Ne.symm ht]
    · intro x
      have hw := h.wf x
      by_cases hx : x = t
      · subst hx
        constructor
        · simpa using hw.st
        · simpa using hw.pc
        · intro b v hb
          simp at hb
          obtain ⟨rfl, _⟩ := hb
          simpa using inBlock_hasAcq hw.st hin
      · simpa [hx] using hw
    · exact h.ctr
    · intro x b v
      have := h.rmwv x b v
      by_cases hx : x = t <;> simp_all
  · cases hs

theorem inv_write {s s' : State} {t : Nat} (h : Inv s) (hs : step s (.write t) = some s') : Inv s' := by
  simp only [step] at hs
  split at hs
  · rename_i a v hp hr
    cases hs
    have hv : v = (s.mtx a).ctr := h.rmwv t a v hr
    have hat : hasAcq (s.thr t).stack a = true := (h.wf t).rmw a v hr
    have hgt : (s.mtx a).holder = some t := (h.hold a t).mp (by simp [Thread.holds, hat])
    have ht : t ≠ 0 := by
      intro e; subst e; rw [h.zero] at hr; simp [idle] at hr
    constructor
    · intro b x
      have := h.hold b x
      by_cases hx : x = t <;> by_cases hb : b = a <;> simp_all [Thread.holds, pcHolds]
    · intro b
      have := h.lock b
      by_cases hb : b = a <;> simp_all
    · intro b x
      have := h.own b x
      by_cases hx : x = t <;> by_cases hb : b = a <;> simp_all [Thread.ownerReg, pcOwner]
    · have := h.zero
      simp_all [Ne.symm ht]
    · intro x
      have hw := h.wf x
      by_cases hx : x = t
      · subst hx
        constructor
        · simpa using hw.st
        · simpa using hw.pc
        · simp
      · simpa [hx] using hw
    · intro b
      have := h.ctr b
      by_cases hb : b = a <;> simp_all
    · intro x b w hxr
      by_cases hx : x = t
      · simp [hx] at hxr
      · simp [hx] at hxr
        have := h.rmwv x b w hxr
        by_cases hb : b = a
        · subst hb
          have hax : hasAcq (s.thr x).stack b = true := (h.wf x).rmw b w hxr
          have := (h.hold b x).mp (by simp [Thread.holds, hax])
          rw [hgt] at this
          exact absurd (Option.some.inj this).symm hx
        · simp [hb]; exact this
  · cases hs

theorem clearRmw_some {r : Option (Nat × Nat)} {a b v : Nat} (h : clearRmw r a = some (b, v)) :
    r = some (b, v) ∧ b ≠ a := by
  unfold clearRmw at h
  split at h
  · split at h
    · cases h
    · rename_i hne; cases h; exact ⟨rfl, hne⟩
  · cases h

theorem inv_bodyEnd {s s' : State} {t : Nat} {k : Outcome} (h : Inv s)
    (hs : step s (.bodyEnd t k) = some s') : Inv s' := by
  simp only [step] at hs
  split at hs
  · rename_i f rest hp hst
    have hwt := h.wf t
    have hws := hwt.st
    simp only [hst, stackWf] at hws
    have ht : t ≠ 0 := by
      intro e; subst e; rw [h.zero] at hst; simp [idle] at hst
    split at hs <;> cases hs
    · -- the frame acquired the lock: the deferred release starts
      rename_i hacq
      simp [hacq] at hws
      constructor
      · intro b x
        have := h.hold b x
        by_cases hx : x = t <;> simp_all [Thread.holds, pcHolds]
      · exact h.lock
      · intro b x
        have := h.own b x
        by_cases hx : x = t <;> simp_all [Thread.ownerReg, pcOwner]
      · have := h.zero
        simp_all [Ne.symm ht]
      · intro x
        have hw := h.wf x
        by_cases hx : x = t
        · subst hx
          constructor
          · simpa using hws.2
          · simpa [pcWf] using hws.1
          · intro b v hb
            simp at hb
            obtain ⟨hr, hne⟩ := clearRmw_some hb
            have := hw.rmw b v hr
            simp [hst] at this
            rcases this with ⟨e, _⟩ | h2
            · exact absurd e.symm hne
            · simpa using h2
        · simpa [hx] using hw
      · exact h.ctr
      · intro x b v hxr
        by_cases hx : x = t
        · simp [hx] at hxr
          exact h.rmwv t b v (clearRmw_some hxr).1
        · simp [hx] at hxr
          exact h.rmwv x b v hxr
    · -- re-entrant frame: nothing to release
      rename_i hacq
      simp [hacq] at hws
      constructor
      · intro b x
        have := h.hold b x
        by_cases hx : x = t <;> simp_all [Thread.holds, pcHolds]
      · exact h.lock
      · intro b x
        have := h.own b x
        by_cases hx : x = t <;> simp_all [Thread.ownerReg, pcOwner]
      · have := h.zero
        simp_all [Ne.symm ht]
      · intro x
        have hw := h.wf x
        by_cases hx : x = t
        · subst hx
          constructor
          · simpa using hws.2
          · simp [hp, pcWf]
          · intro b v hb
            simp at hb
            have := hw.rmw b v hb
            simp [hst, hacq] at this
            simpa using this
        · simpa [hx] using hw
      · exact h.ctr
      · intro x b v
        have := h.rmwv x b v
        by_cases hx : x = t <;> simp_all
  · cases hs

theorem inv_step {s s' : State} {e : Event} (h : Inv s) (hs : step s e = some s') : Inv s' := by
  cases e with
  | look t a => exact inv_look h hs
  | decide t => exact inv_decide h hs
  | lock t => exact inv_lock h hs
  | setOwner t => exact inv_setOwner h hs
  | bodyEnd t k => exact inv_bodyEnd h hs
  | resetOwner t => exact inv_resetOwner h hs
  | unlock t => exact inv_unlock h hs
  | read t a => exact inv_read h hs
  | write t => exact inv_write h hs

theorem inv_reach {s : State} (h : Reach s) : Inv s := by
  induction h with
  | init => exact inv_init
  | step _ hs ih => exact inv_step ih hs
end Ecal.Mutex
