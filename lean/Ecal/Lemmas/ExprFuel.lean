import Ecal.Lemmas.ExprParse
/-!
# C03 — from the relational loop to the executable parser

A derivation of `Run`/`Loop`/`ItemsR` over token kinds is followed by the executable
fuel-indexed functions on ANY lexer token list with those kinds (whatever the line
numbers are), with fuel `2 · (tokens consumed)`; so `Impl.parse`'s fuel
`2 · length + 4` always suffices.
-/
namespace Ecal.Expr
open Spec

theorem opensAfter_false (line : Nat) (tt : List LTok) (h : notOpen (tt.map (·.tk))) :
    opensAfter line tt = false := by
  match tt with
  | [] => rfl
  | ⟨tk, l⟩ :: _ =>
    cases tk <;> simp_all [opensAfter, notOpen]

theorem dropComma_map (ts : List LTok) : (dropComma ts).map (·.tk) = dropCommaK (ts.map (·.tk)) := by
  match ts with
  | [] => rfl
  | ⟨tk, l⟩ :: _ => cases tk <;> simp [dropComma, dropCommaK]

theorem dropCommaK_length (ks : List TK) : (dropCommaK ks).length ≤ ks.length := by
  match ks with
  | [] => simp [dropCommaK]
  | k :: _ => cases k <;> simp [dropCommaK]

theorem startsItem_tk {t : LTok} {tt : List LTok} (h : startsItem ((t :: tt).map (·.tk))) :
    t.tk ≠ .rb ∧ t.tk ≠ .eof := by
  simp only [List.map_cons] at h
  generalize t.tk = k at h
  cases k <;> simp_all [startsItem]

section
variable {T : Table}

mutual
theorem Run.toFun (H : Compat T) : ∀ {m ks e krest}, Run T m ks e krest →
    krest.length < ks.length ∧ ∀ ts : List LTok, ts.map (·.tk) = ks →
      ∃ ln rest, rest.map (·.tk) = krest ∧
        ∀ f, 2 * ks.length ≤ f + 2 * krest.length → Impl.run T f m ts = .ok (e, ln, rest)
  | m, _, e, krest, @Run.atom _ _ a ts' _ _ hno hl => by
    obtain ⟨hlen, hL⟩ := Loop.toFun H hl
    refine ⟨by simp only [List.length_cons]; omega, fun ts hmap => ?_⟩
    obtain ⟨t, tt, rfl, htk, hmap'⟩ := List.map_eq_cons_iff.1 hmap
    obtain ⟨ln, rest, hr, hf⟩ := hL t.line tt hmap'
    refine ⟨ln, rest, hr, fun f hfuel => ?_⟩
    obtain ⟨g, rfl⟩ : ∃ g, f = g + 1 := ⟨f - 1, by simp only [List.length_cons] at hfuel; omega⟩
    have hopen := opensAfter_false t.line tt (by rw [hmap']; exact hno)
    have hg := hf g (by simp only [List.length_cons] at hfuel; omega)
    simp only [Impl.run, htk]
    cases a <;> simp [Atom.kind, H.nudNum, H.nudStr, H.nudIdent, H.nudTru, H.nudFls, H.nudNull, hopen, hg]
  | m, _, e, krest, @Run.paren _ _ ts0 e1 ts' _ _ hr hl => by
    obtain ⟨hlen1, hR⟩ := Run.toFun H hr
    obtain ⟨hlen2, hL⟩ := Loop.toFun H hl
    simp only [List.length_cons] at hlen1
    refine ⟨by simp only [List.length_cons]; omega, fun ts hmap => ?_⟩
    obtain ⟨t, tt, rfl, htk, hmap'⟩ := List.map_eq_cons_iff.1 hmap
    obtain ⟨ln1, rest1, hr1, hf1⟩ := hR tt hmap'
    obtain ⟨t2, tt2, rfl, htk2, hmap2⟩ := List.map_eq_cons_iff.1 hr1
    obtain ⟨ln, rest, hr2, hf2⟩ := hL ln1 tt2 hmap2
    refine ⟨ln, rest, hr2, fun f hfuel => ?_⟩
    obtain ⟨g, rfl⟩ : ∃ g, f = g + 1 := ⟨f - 1, by simp only [List.length_cons] at hfuel; omega⟩
    have hg1 := hf1 g (by simp only [List.length_cons] at hfuel ⊢; omega)
    have hg2 := hf2 g (by simp only [List.length_cons] at hfuel; omega)
    obtain ⟨tk2, l2⟩ := t2
    simp only at htk2
    subst htk2
    simp only [Impl.run, htk, H.nudLp, H.inner0, hg1, hg2, if_true]
  | m, _, e, krest, @Run.list _ _ ts0 its ts' _ _ hi hl => by
    obtain ⟨hlen1, hI⟩ := ItemsR.toFun H hi
    obtain ⟨hlen2, hL⟩ := Loop.toFun H hl
    refine ⟨by simp only [List.length_cons]; omega, fun ts hmap => ?_⟩
    obtain ⟨t, tt, rfl, htk, hmap'⟩ := List.map_eq_cons_iff.1 hmap
    obtain ⟨rest1, hr1, hf1⟩ := hI tt hmap'
    obtain ⟨ln, rest, hr2, hf2⟩ := hL t.line rest1 hr1
    refine ⟨ln, rest, hr2, fun f hfuel => ?_⟩
    obtain ⟨g, rfl⟩ : ∃ g, f = g + 1 := ⟨f - 1, by simp only [List.length_cons] at hfuel; omega⟩
    have hg1 := hf1 g (by simp only [List.length_cons] at hfuel ⊢; omega)
    have hg2 := hf2 g (by simp only [List.length_cons] at hfuel; omega)
    simp only [Impl.run, htk, H.nudLb, hg1, hg2, if_true]
  | m, _, e, krest, @Run.pre _ _ tk p txt ts0 x ts' _ _ hpre hr hl => by
    obtain ⟨hlen1, hR⟩ := Run.toFun H hr
    obtain ⟨hlen2, hL⟩ := Loop.toFun H hl
    refine ⟨by simp only [List.length_cons]; omega, fun ts hmap => ?_⟩
    obtain ⟨t, tt, rfl, htk, hmap'⟩ := List.map_eq_cons_iff.1 hmap
    obtain ⟨ln1, rest1, hr1, hf1⟩ := hR tt hmap'
    obtain ⟨ln, rest, hr2, hf2⟩ := hL t.line rest1 hr1
    refine ⟨ln, rest, hr2, fun f hfuel => ?_⟩
    obtain ⟨g, rfl⟩ : ∃ g, f = g + 1 := ⟨f - 1, by simp only [List.length_cons] at hfuel; omega⟩
    have hg1 := hf1 g (by simp only [List.length_cons] at hfuel ⊢; omega)
    have hg2 := hf2 g (by simp only [List.length_cons] at hfuel; omega)
    have hk := preOf_some hpre
    subst hk
    have hnud := H.nudPre p
    simp only [pbp] at hg1
    cases p <;>
      simp only [preKind] at hnud hg1 <;>
      simp [Impl.run, htk, preTok, TK.kind, hnud, preOf, hg1, hg2]
theorem Loop.toFun (H : Compat T) : ∀ {m left ks e krest}, Loop T m left ks e krest →
    krest.length ≤ ks.length ∧ ∀ (ll : Nat) (ts : List LTok), ts.map (·.tk) = ks →
      ∃ ln rest, rest.map (·.tk) = krest ∧
        ∀ f, 2 * ks.length + 1 ≤ f + 2 * krest.length → Impl.loop T f m left ll ts = .ok (e, ln, rest)
  | m, left, ks, _, _, .stop hn => by
    refine ⟨Nat.le_refl _, fun ll ts hmap => ⟨ll, ts, hmap, fun f hfuel => ?_⟩⟩
    obtain ⟨g, rfl⟩ : ∃ g, f = g + 1 := ⟨f - 1, by omega⟩
    match ts, hmap with
    | [], _ => simp [Impl.loop]
    | t :: tt, hmap =>
      subst hmap
      simp only [List.map_cons, lbp] at hn
      simp [Impl.loop, hn]
  | m, left, _, e, krest, @Loop.op _ _ o txt _ ts0 r ts' _ _ hlt hr hl => by
    obtain ⟨hlen1, hR⟩ := Run.toFun H hr
    obtain ⟨hlen2, hL⟩ := Loop.toFun H hl
    refine ⟨by simp only [List.length_cons]; omega, fun ll ts hmap => ?_⟩
    obtain ⟨t, tt, rfl, htk, hmap'⟩ := List.map_eq_cons_iff.1 hmap
    obtain ⟨ln1, rest1, hr1, hf1⟩ := hR tt hmap'
    obtain ⟨ln, rest, hr2, hf2⟩ := hL t.line rest1 hr1
    refine ⟨ln, rest, hr2, fun f hfuel => ?_⟩
    obtain ⟨g, rfl⟩ : ∃ g, f = g + 1 := ⟨f - 1, by simp only [List.length_cons] at hfuel; omega⟩
    have hg1 := hf1 g (by simp only [List.length_cons] at hfuel ⊢; omega)
    have hg2 := hf2 g (by simp only [List.length_cons] at hfuel; omega)
    simp only [bp] at hlt hg1
    simp [Impl.loop, htk, TK.kind, hlt, H.ledOp, H.infix0, H.infixSub0, hg1, hg2]
theorem ItemsR.toFun (H : Compat T) : ∀ {ks its krest}, ItemsR T ks its krest →
    krest.length < ks.length ∧ ∀ ts : List LTok, ts.map (·.tk) = ks →
      ∃ rest, rest.map (·.tk) = krest ∧
        ∀ f, 2 * ks.length ≤ f + 2 * krest.length → Impl.items T f ts = .ok (its, rest)
  | _, _, krest, .done => by
    refine ⟨by simp, fun ts hmap => ?_⟩
    obtain ⟨t, tt, rfl, htk, hmap'⟩ := List.map_eq_cons_iff.1 hmap
    refine ⟨tt, hmap', fun f hfuel => ?_⟩
    obtain ⟨g, rfl⟩ : ∃ g, f = g + 1 := ⟨f - 1, by simp only [List.length_cons] at hfuel; omega⟩
    simp [Impl.items, htk]
  | ks, _, krest, @ItemsR.cons _ _ e ts1 irest _ hst hr hi => by
    obtain ⟨hlen1, hR⟩ := Run.toFun H hr
    obtain ⟨hlen2, hI⟩ := ItemsR.toFun H hi
    have hdc := dropCommaK_length ts1
    refine ⟨by omega, fun ts hmap => ?_⟩
    obtain ⟨ln1, rest1, hr1, hf1⟩ := hR ts hmap
    obtain ⟨rest, hr2, hf2⟩ := hI (dropComma rest1) (by rw [dropComma_map, hr1])
    refine ⟨rest, hr2, fun f hfuel => ?_⟩
    obtain ⟨g, rfl⟩ : ∃ g, f = g + 1 := ⟨f - 1, by omega⟩
    have hg1 := hf1 g (by omega)
    have hg2 := hf2 g (by omega)
    match ts, hmap with
    | [], hmap => subst hmap; simp at hlen1
    | t :: tt, hmap =>
      subst hmap
      obtain ⟨h1, h2⟩ := startsItem_tk hst
      simp [Impl.items, h1, h2, H.list0, hg1, hg2]
end

/-- every admissible print of `e`, lexed with whatever line numbers, followed by the EOF
    token, is parsed to `e` by the executable parser -/
theorem parse_prints (H : Compat T) (heof : T.binding .eof = 0) {e : Expr} {ks : List TK}
    (hp : Prints e .top .none ks) (ts : List LTok) (eofLine : Nat)
    (hts : ts.map (·.tk) = ks) :
    Impl.parse T (ts ++ [⟨.eof, eofLine⟩]) = .ok e := by
  have hrun := run_prints H hp [.eof] (by simp [lbp, TK.kind, heof])
  obtain ⟨_, hR⟩ := Run.toFun H hrun
  obtain ⟨ln, rest, hr, hf⟩ := hR (ts ++ [LTok.mk .eof eofLine]) (by simp [hts])
  have hlen : (ks ++ [TK.eof]).length = (ts ++ [LTok.mk .eof eofLine]).length := by simp [← hts]
  have hrun' := hf (2 * (ts ++ [LTok.mk .eof eofLine]).length + 4) (by omega)
  obtain ⟨t, tt, rfl, htk, _⟩ := List.map_eq_cons_iff.1 hr
  simp only [Impl.parse, Impl.parseFuel, hrun', htk, if_true]

end
end Ecal.Expr
