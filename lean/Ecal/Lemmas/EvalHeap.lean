import Ecal.Lemmas.EvalScope
/-!
Map cells of the heap of `Model/Eval.lean`: `mapStore` / `mapLookup` / `mapFieldLookup` and the key that
`setValue` chooses for a path segment (`fieldKey`: an existing number key wins, else the string — the
repaired rule of fix 5e0a7a5).  Number keys need `keyEq k k` (false only for NaN; Lean's `Float` is
opaque, so reflexivity of `==` on `Float.ofInt i` is a hypothesis).
-/
namespace Ecal.Ev

theorem mapLookup_map_same (kvs : List (Val × Val)) (k v : Val) (hk : keyEq k k = true)
    (h : (kvs.find? fun p => keyEq p.1 k).isSome = true) :
    (kvs.map fun p => if keyEq p.1 k then (k, v) else p).find? (fun p => keyEq p.1 k) = some (k, v) := by
  induction kvs with
  | nil => simp at h
  | cons p rest ih =>
    simp only [List.map_cons, List.find?_cons] at h ⊢
    cases hp : keyEq p.1 k with
    | true => simp only [if_true, hk]
    | false =>
      simp only [hp] at h
      simp only [Bool.false_eq_true, if_false, hp]
      exact ih h

theorem mapLookup_mapStore_same (kvs : List (Val × Val)) (k v : Val) (hk : keyEq k k = true) :
    mapLookup (mapStore kvs k v) k = some v := by
  unfold mapStore
  split
  · rename_i h
    simp only [mapLookup, Option.isSome_map] at h
    simp only [mapLookup, mapLookup_map_same kvs k v hk h, Option.map_some]
  · rename_i h
    simp only [mapLookup, Option.isSome_map, Bool.not_eq_true, Option.isSome_eq_false_iff, Option.isNone_iff_eq_none] at h
    simp only [mapLookup, List.find?_append, h, Option.none_or, List.find?_cons, hk, Option.map_some]

theorem mapLookup_mapStore_other (kvs : List (Val × Val)) (k k' v : Val) (hkk : keyEq k k' = false)
    (hdis : ∀ a : Val, keyEq a k = true → keyEq a k' = false) :
    mapLookup (mapStore kvs k v) k' = mapLookup kvs k' := by
  unfold mapStore
  split
  · rename_i h
    clear h
    simp only [mapLookup]
    congr 1
    induction kvs with
    | nil => rfl
    | cons p rest ih =>
      simp only [List.map_cons, List.find?_cons]
      cases hp : keyEq p.1 k with
      | true => simp only [if_true, hkk, hdis p.1 hp]; exact ih
      | false =>
        simp only [Bool.false_eq_true, if_false]
        cases hq : keyEq p.1 k' with
        | true => rfl
        | false => exact ih
  · simp only [mapLookup, List.find?_append, List.find?_cons, hkk, List.find?_nil, Option.or_none]

/-- the key `setValue` writes for the last path segment `fld` of a map -/
def fieldKey (kvs : List (Val × Val)) (fld : List Nat) : Val :=
  match atoi fld with
  | some i => if (mapLookup kvs (.num (Float.ofInt i))).isSome then .num (Float.ofInt i) else .str fld
  | none => .str fld

theorem keyEq_str_self (s : List Nat) : keyEq (.str s) (.str s) = true := by simp [keyEq]

theorem keyEq_str_num (a : Val) (s : List Nat) (x : Float) (h : keyEq a (.str s) = true) : keyEq a (.num x) = false := by
  cases a <;> simp_all [keyEq]

/-- one map cell: after writing `x` under the key chosen for the segment, the segment reads `x` -/
theorem mapField_read_after_write (kvs : List (Val × Val)) (fld : List Nat) (x : Val)
    (hnum : ∀ i, atoi fld = some i → keyEq (.num (Float.ofInt i)) (.num (Float.ofInt i)) = true) :
    mapFieldLookup (mapStore kvs (fieldKey kvs fld) x) fld = some x := by
  unfold mapFieldLookup fieldKey
  cases ha : atoi fld with
  | none => simp only [mapLookup_mapStore_same kvs (.str fld) x (keyEq_str_self fld)]
  | some i =>
    simp only
    by_cases hex : (mapLookup kvs (.num (Float.ofInt i))).isSome = true
    · simp only [hex, if_true, mapLookup_mapStore_same kvs _ x (hnum i ha)]
    · simp only [hex, Bool.false_eq_true, if_false]
      have hother : mapLookup (mapStore kvs (.str fld) x) (.num (Float.ofInt i)) = mapLookup kvs (.num (Float.ofInt i)) :=
        mapLookup_mapStore_other kvs _ _ x (by simp [keyEq]) (fun a h => keyEq_str_num a fld _ h)
      have hnone : mapLookup kvs (.num (Float.ofInt i)) = none := by
        cases h : mapLookup kvs (.num (Float.ofInt i)) with
        | none => rfl
        | some _ => simp [h] at hex
      simp only [hother, hnone, mapLookup_mapStore_same kvs (.str fld) x (keyEq_str_self fld)]

/-- what the unrepaired code wrote: always the string key -/
def fieldKeyOld (fld : List Nat) : Val := .str fld

end Ecal.Ev
