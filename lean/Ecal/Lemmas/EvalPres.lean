import Ecal.Lemmas.EvalWF
import Ecal.Lemmas.EvalNew
/-!
Invariant preservation through the control-flow combinators of `Model/Eval.lean` (`ifChain`, `guardLoop`, `iterLoop`,
`dispatchExcept`, `tryCore`, `tryFinally`, `callCore`, `withFreshIs`, `attemptE`): whatever state invariant `I` the
parts of a statement preserve — for EVERY outcome, errors and control signals included — the statement preserves.
These are the combinators the mutual evaluator calls with closures over itself; the lemmas are the skeleton of the
open induction "the evaluator preserves `ScopesWF`".
-/
namespace Ecal.Ev

/-- `m` preserves the state invariant `I`, whatever its outcome -/
def Pres (I : St → Prop) {α : Type} (m : M α) : Prop := ∀ s r s', I s → runM m s = (r, s') → I s'

theorem Pres.pure (I : St → Prop) {α : Type} (a : α) : Pres I (pure a : M α) := by
  intro s r s' h hr; simp only [runM_pure] at hr; injection hr with _ h2; rw [← h2]; exact h
theorem Pres.throw (I : St → Prop) {α : Type} (e : Sig) : Pres I (throw e : M α) := by
  intro s r s' h hr; simp only [runM_throw] at hr; injection hr with _ h2; rw [← h2]; exact h

theorem Pres.bind (I : St → Prop) {α β : Type} (m : M α) (k : α → M β) (hm : Pres I m) (hk : ∀ a, Pres I (k a)) :
    Pres I (m >>= k) := by
  intro s r s' h hr
  rw [runM_bind] at hr
  cases h1 : runM m s with
  | mk r1 s1 =>
    rw [h1] at hr
    have i1 := hm s r1 s1 h h1
    cases r1 with
    | ok a => exact hk a s1 r s' i1 hr
    | error e => simp only at hr; injection hr with _ h2; rw [← h2]; exact i1

theorem Pres.attemptE (I : St → Prop) {α : Type} (m : M α) (hm : Pres I m) : Pres I (attemptE m) := by
  intro s r s' h hr
  rw [runM_attemptE] at hr
  cases h1 : runM m s with
  | mk r1 s1 =>
    rw [h1] at hr
    have i1 := hm s r1 s1 h h1
    cases r1 <;> (simp only at hr; injection hr with _ h2; rw [← h2]; exact i1)

/-- `if … elif … else`: guards and blocks -/
theorem Pres.ifChain (I : St → Prop) : ∀ (l : List (M Val × M Val)),
    (∀ gb ∈ l, Pres I gb.1 ∧ Pres I gb.2) → Pres I (ifChain l) := by
  intro l
  induction l with
  | nil => intro _; unfold Ecal.Ev.ifChain; exact Pres.pure I _
  | cons gb rest ih =>
    intro h
    obtain ⟨g, b⟩ := gb
    unfold Ecal.Ev.ifChain
    refine Pres.bind I _ _ (h (g, b) (by simp)).1 (fun v => ?_)
    have hb := (h (g, b) (by simp)).2
    have hr := ih (fun x hx => h x (by simp [hx]))
    cases v with
    | bool t => cases t <;> first | exact hb | exact hr
    | _ => exact hr

/-- condition loops -/
theorem Pres.guardLoop (I : St → Prop) (guard body : M Val) (hg : Pres I guard) (hb : Pres I body) :
    ∀ f, Pres I (guardLoop guard body f) := by
  intro f
  induction f with
  | zero => unfold Ecal.Ev.guardLoop; exact Pres.throw I _
  | succ f ih =>
    unfold Ecal.Ev.guardLoop
    refine Pres.bind I _ _ (Pres.attemptE I _ hg) (fun r => ?_)
    cases r with
    | error e => simp only; split <;> first | exact Pres.pure I _ | exact Pres.throw I _
    | ok v =>
      cases v with
      | bool t =>
        cases t with
        | false => exact Pres.pure I _
        | true =>
          refine Pres.bind I _ _ (Pres.attemptE I _ hb) (fun r2 => ?_)
          cases r2 with
          | ok _ => exact ih
          | error e =>
            simp only
            split
            · exact ih
            · split <;> first | exact Pres.pure I _ | exact Pres.throw I _
      | _ => exact Pres.pure I _

/-- `for … in` loops over an iterator -/
theorem Pres.iterLoop (I : St → Prop) {σ : Type} (next : σ → M (Val × σ)) (bnd : Val → M Unit) (body : M Val)
    (hn : ∀ s, Pres I (next s)) (hbd : ∀ v, Pres I (bnd v)) (hb : Pres I body) :
    ∀ f s, Pres I (iterLoop next bnd body f s) := by
  intro f
  induction f with
  | zero => intro s; unfold Ecal.Ev.iterLoop; exact Pres.throw I _
  | succ f ih =>
    intro s
    unfold Ecal.Ev.iterLoop
    refine Pres.bind I _ _ (Pres.attemptE I _ (hn s)) (fun r => ?_)
    cases r with
    | error e =>
      simp only
      split
      · exact ih s
      · split <;> first | exact Pres.pure I _ | exact Pres.throw I _
    | ok vs =>
      obtain ⟨v, s2⟩ := vs
      simp only
      refine Pres.bind I _ _ (hbd v) (fun _ => ?_)
      refine Pres.bind I _ _ (Pres.attemptE I _ hb) (fun r2 => ?_)
      cases r2 with
      | ok _ => exact ih s2
      | error e =>
        simp only
        split
        · exact ih s2
        · split <;> first | exact Pres.pure I _ | exact Pres.throw I _

/-- the except clauses of a `try` -/
theorem Pres.dispatchExcept (I : St → Prop) : ∀ (hs : List Handler) (e : Sig),
    (∀ h ∈ hs, ∀ e, Pres I (h e)) → Pres I (dispatchExcept hs e) := by
  intro hs
  induction hs with
  | nil => intro e _; unfold Ecal.Ev.dispatchExcept; exact Pres.throw I _
  | cons h rest ih =>
    intro e hh
    unfold Ecal.Ev.dispatchExcept
    refine Pres.bind I _ _ (hh h (by simp) e) (fun o => ?_)
    cases o with
    | some v => exact Pres.pure I _
    | none => exact ih e (fun h' hm => hh h' (by simp [hm]))

theorem Pres.tryCore (I : St → Prop) (body : M Val) (handlers : List Handler) (otherwise : Option (M Val))
    (hb : Pres I body) (hh : ∀ h ∈ handlers, ∀ e, Pres I (h e)) (ho : ∀ o, otherwise = some o → Pres I o) :
    Pres I (tryCore body handlers otherwise) := by
  unfold Ecal.Ev.tryCore
  refine Pres.bind I _ _ (Pres.attemptE I _ hb) (fun r => ?_)
  cases r with
  | ok v =>
    cases otherwise with
    | none => exact Pres.pure I _
    | some o => exact Pres.bind I _ _ (ho o rfl) (fun _ => Pres.pure I _)
  | error e =>
    simp only
    split
    · exact Pres.throw I _
    · exact Pres.dispatchExcept I handlers e hh

theorem Pres.tryFinally (I : St → Prop) (main : M Val) (fin : Option (M Val)) (hm : Pres I main)
    (hf : ∀ f, fin = some f → Pres I f) : Pres I (tryFinally main fin) := by
  unfold Ecal.Ev.tryFinally
  refine Pres.bind I _ _ (Pres.attemptE I _ hm) (fun r => ?_)
  cases fin with
  | none => cases r <;> first | exact Pres.pure I _ | exact Pres.throw I _
  | some fi =>
    have hfi := Pres.attemptE I _ (hf fi rfl)
    cases r with
    | ok v =>
      simp only
      repeat' (first
        | exact Pres.pure I _
        | exact Pres.throw I _
        | exact hfi
        | split
        | refine Pres.bind I _ _ ?_ (fun _ => ?_))
    | error e =>
      simp only
      repeat' (first
        | exact Pres.pure I _
        | exact Pres.throw I _
        | exact hfi
        | split
        | refine Pres.bind I _ _ ?_ (fun _ => ?_))

/-- the body of a call: a return signal becomes the value -/
theorem Pres.callCore (I : St → Prop) (body : M Val) (hb : Pres I body) : Pres I (callCore body) := by
  unfold Ecal.Ev.callCore
  refine Pres.bind I _ _ (Pres.attemptE I _ hb) (fun r => ?_)
  cases r with
  | ok v => exact Pres.pure I _
  | error e => cases e <;> first | exact Pres.pure I _ | exact Pres.throw I _

end Ecal.Ev
