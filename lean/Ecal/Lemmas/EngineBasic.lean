import Ecal.Model.Engine
/-! Helper lemmas about the engine model: association lists, `Out.flat`, the trigger cache. -/
namespace Ecal.Engine

theorem alookup_aset_same [DecidableEq κ] (k : κ) (v : β) (l : List (κ × β)) :
    alookup k (aset k v l) = some v := by
  induction l with
  | nil => simp [aset, alookup]
  | cons kv rest ih =>
    obtain ⟨k', v'⟩ := kv
    by_cases h : k' = k <;> simp [aset, alookup, h, ih]

theorem alookup_aset_other [DecidableEq κ] (k k' : κ) (v : β) (l : List (κ × β)) (h : k' ≠ k) :
    alookup k' (aset k v l) = alookup k' l := by
  induction l with
  | nil => simp [aset, alookup, Ne.symm h]
  | cons kv rest ih =>
    obtain ⟨k₀, v₀⟩ := kv
    by_cases hk : k₀ = k
    · subst hk; simp [aset, alookup, Ne.symm h]
    · by_cases hk' : k₀ = k'
      · subst hk'; simp [aset, alookup, hk]
      · simp [aset, alookup, hk, hk', ih]

theorem alookup_aset [DecidableEq κ] (k k' : κ) (v : β) (l : List (κ × β)) :
    alookup k' (aset k v l) = if k' = k then some v else alookup k' l := by
  by_cases h : k' = k
  · subst h; simp [alookup_aset_same]
  · simp [h, alookup_aset_other _ _ _ _ h]

/-! ### `Out.flat` -/

theorem Out.flat_ok_cons {o : Out (List α)} {rest : List (Out (List α))} {l : List α}
    (h : Out.flat (o :: rest) = .ok l) : ∃ a b, o = .ok a ∧ Out.flat rest = .ok b ∧ l = a ++ b := by
  cases o with
  | ok a =>
    simp only [Out.flat] at h
    cases hr : Out.flat rest with
    | ok b => rw [hr] at h; simp at h; exact ⟨a, b, rfl, rfl, h.symm⟩
    | panic => rw [hr] at h; simp at h
    | hang => rw [hr] at h; simp at h
  | panic => simp [Out.flat] at h
  | hang => simp [Out.flat] at h

theorem Out.flat_cons_ok {a b : List α} {rest : List (Out (List α))} (h : Out.flat rest = .ok b) :
    Out.flat (.ok a :: rest) = .ok (a ++ b) := by
  simp [Out.flat, h]

end Ecal.Engine
