import Ecal.Lemmas.ParserMain
/-! Partial nodes, child signatures and the facts about `shapeOk` used by the well-formedness induction. -/
namespace Ecal.Parse
open Ecal.Lex
variable {ts : List Tok}

/-- child signatures of a node -/
def sigs (n : Node) : List Sig := n.children.map sigOf

/-- a node under construction: all children so far are well formed and the token clause holds -/
def KW (n : Node) : Prop := kidsWF n.children = true ∧ (n.tok.isSome || tokenless n.name) = true

theorem wf_iff (n : Node) : WellFormed n = true ↔ KW n ∧ shapeOk n.name (sigs n) = true := by
  cases n
  simp only [WellFormed, nodeOk, KW, sigs, Node.children, Node.tok, Node.name, Bool.and_eq_true]
  constructor
  · rintro ⟨⟨a, b⟩, c⟩; exact ⟨⟨c, a⟩, b⟩
  · rintro ⟨⟨c, a⟩, b⟩; exact ⟨⟨a, b⟩, c⟩

theorem kidsWF_append (cs : List (Option Node)) (c : Node) :
    kidsWF (cs ++ [some c]) = (kidsWF cs && WellFormed c) := by
  induction cs with
  | nil => simp [kidsWF]
  | cons x xs ih => cases x <;> simp [kidsWF, ih, Bool.and_assoc]

theorem KW.add {n c : Node} (hn : KW n) (hc : WellFormed c = true) : KW (n.add (some c)) := by
  unfold KW at *
  simp [kidsWF_append, hn.1, hc]
  simpa using hn.2

@[simp] theorem sigs_add (n c : Node) : sigs (n.add (some c)) = sigs n ++ [(c.name, c.children.length)] := by
  simp [sigs, sigOf]

@[simp] theorem sigs_addMeta (n : Node) (ms) : sigs (n.addMeta ms) = sigs n := by simp [sigs]

theorem KW.addMeta {n : Node} (h : KW n) (ms) : KW (n.addMeta ms) := by
  unfold KW at *; simpa using h

theorem Fresh.sigs {n : Node} (h : Fresh n) : sigs n = [] := by simp [Ecal.Parse.sigs, h.children]

theorem Fresh.KW {n : Node} (h : Fresh n) : KW n := by
  obtain ⟨t, ht⟩ := h.tok
  unfold Ecal.Parse.KW
  simp [h.children, kidsWF, ht]

/-- `r` is `acc` with further well-formed children whose signatures are `extra` -/
structure Ext (acc r : Node) (extra : List Sig) : Prop where
  tok : r.tok = acc.tok
  name : r.name = acc.name
  kw : KW r
  sg : sigs r = sigs acc ++ extra

theorem Ext.refl {acc : Node} (h : KW acc) : Ext acc acc [] := ⟨rfl, rfl, h, by simp⟩

theorem Ext.of_add {acc c r : Node} {e : List Sig} (h : Ext (acc.add (some c)) r e) :
    Ext acc r ((c.name, c.children.length) :: e) :=
  ⟨by simpa using h.tok, by simpa using h.name, h.kw, by simpa using h.sg⟩

theorem Ext.trans {a m r : Node} {e1 e2 : List Sig} (h1 : Ext a m e1) (h2 : Ext m r e2) : Ext a r (e1 ++ e2) :=
  ⟨h2.tok.trans h1.tok, h2.name.trans h1.name, h2.kw, by rw [h2.sg, h1.sg]; simp⟩

/-- a node built on a fresh node is well formed if its signatures fit its kind -/
theorem Ext.wf {acc r : Node} {e : List Sig} (h : Ext acc r e) (hs : shapeOk r.name (Ecal.Parse.sigs r) = true) :
    WellFormed r = true := (wf_iff r).2 ⟨h.kw, hs⟩

theorem ifShape_append : ∀ (a b : List Sig), ifShape a = true → ifShape (a ++ b) = ifShape b
  | [], _, _ => rfl
  | [_], _, h => by simp [ifShape] at h
  | (g, k) :: (s, j) :: r, b, h => by
    simp only [ifShape, Bool.and_eq_true] at h
    simp only [List.cons_append, ifShape]
    rw [ifShape_append r b h.2]
    simp [h.1]

/-! ### the constructed nodes -/
theorem inst_statements (bb t) : instanceOf bb T_STATEMENTS t = .mk "statements" t 0 .none .none [] [] := by
  simp [instanceOf, T_STATEMENTS, T_LBRACE, table]
theorem inst_funccall (bb t) : instanceOf bb T_FUNCCALL t = .mk "funccall" t 0 .none .none [] [] := by
  simp [instanceOf, T_FUNCCALL, T_LBRACE, table]
theorem inst_compaccess (bb t) : instanceOf bb T_COMPACCESS t = .mk "compaccess" t 0 .none .none [] [] := by
  simp [instanceOf, T_COMPACCESS, T_LBRACE, table]
theorem inst_list (bb t) : instanceOf bb T_LIST t = .mk "list" t 0 .none .none [] [] := by
  simp [instanceOf, T_LIST, T_LBRACE, table]
theorem inst_map (bb t) : instanceOf bb T_MAP t = .mk "map" t 0 .none .none [] [] := by
  simp [instanceOf, T_MAP, T_LBRACE, table]
theorem inst_params (bb t) : instanceOf bb T_PARAMS t = .mk "params" t 0 .none .none [] [] := by
  simp [instanceOf, T_PARAMS, T_LBRACE, table]
theorem inst_guard (bb t) : instanceOf bb T_GUARD t = .mk "guard" t 0 .none .none [] [] := by
  simp [instanceOf, T_GUARD, T_LBRACE, table]
theorem inst_true (bb t) : instanceOf bb T_TRUE t = .mk "true" t 0 .term .none [] [] := by
  simp [instanceOf, T_TRUE, T_LBRACE, table]

/-- a childless node whose name is exempt from the token clause, or which has a token -/
theorem KW.mk0 (nm : String) (t : Option Tok) (b x l ms) (h : (t.isSome || tokenless nm) = true) :
    KW (.mk nm t b x l [] ms) := by
  unfold KW; simp [Node.children, Node.tok, Node.name, kidsWF]; simpa using h

/-! ### the grammar table -/
theorem table_list_id {id nm b l} (h : table id = some (nm, b, .list, l)) : id = 24 := by
  unfold table at h
  split at h <;> first | rfl | (simp at h)

theorem table_map_id {id nm b l} (h : table id = some (nm, b, .map, l)) : id = 26 := by
  unfold table at h
  split at h <;> first | rfl | (simp at h)

/-- name, nud, led of a fresh node, linked to its own token -/
theorem Fresh.entry' {n : Node} (h : Fresh n) :
    ∃ t, n.tok = some t ∧ ((n.nud = .none ∧ n.led = .none) ∨ ∃ b, table t.id = some (n.name, b, n.nud, n.led)) := by
  obtain ⟨bb, t, ms, ht, rfl⟩ := h
  refine ⟨t, by simp [instanceOf_tok], ?_⟩
  unfold instanceOf
  split
  · left; simp [Node.nud, Node.led, Node.addMeta]
  · cases htab : table t.id with
    | none => simp [htab] at ht
    | some v =>
      obtain ⟨nm, b, x, l⟩ := v
      right
      exact ⟨b, by simp [Node.name, Node.nud, Node.led, Node.addMeta]⟩

/-- kind of a fresh node from its null denotation -/
theorem Fresh.compat {n : Node} (h : Fresh n) : kindCompat (kindOf n.name) n.nud n.led = true ∨ (n.nud = .none ∧ n.led = .none) := by
  obtain ⟨t, _, h1 | ⟨b, h2⟩⟩ := h.entry'
  · exact Or.inr h1
  · exact Or.inl (table_kind _ h2)

/-- the `in` clause of expression results: a node carrying an `in` token is named "in" -/
def InOk (r : Node) : Prop := ∀ t, r.tok = some t → t.id = 56 → r.name = "in"

theorem Fresh.inOk {n : Node} (h : Fresh n) : InOk n := by
  intro t ht hid
  exact h.name_of_id ht (by omega) (by rw [hid]; rfl)

theorem InOk.of_eq {a r : Node} (h : InOk a) (ht : r.tok = a.tok) (hn : r.name = a.name) : InOk r := by
  intro t h1 h2; rw [hn]; exact h t (ht ▸ h1) h2

end Ecal.Parse
