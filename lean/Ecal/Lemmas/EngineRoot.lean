import Ecal.Lemmas.EngineIndex
import Ecal.Lemmas.EngineProcess
/-! `ruleIndexRoot`: the rules that entered the tree have distinct names; the tree is `buildIdx` of them. -/
namespace Ecal.Engine

structure RootInv (S : List Rule) (rt : Root) : Prop where
  idx : rt.idx = buildIdx rt.indexed
  nodup : (rt.indexed.map (·.name)).Nodup
  names : ∀ r ∈ rt.indexed, r.name ∈ rt.names
  sub : ∀ r ∈ rt.indexed, r ∈ S

theorem Root.addRule_inv (S : List Rule) (rt : Root) (r : Rule) (hr : r ∈ S) (h : RootInv S rt) :
    RootInv S (rt.addRule r).1 := by
  unfold Root.addRule
  split
  · exact h
  · next hn =>
    split
    · exact h
    · refine ⟨?_, ?_, ?_, ?_⟩
      · simp [buildIdx, List.foldl_append, h.idx]
      · simp only [List.map_append, List.map_cons, List.map_nil]
        refine List.nodup_append.mpr ⟨h.nodup, by simp, ?_⟩
        intro a ha b hb
        simp only [List.mem_singleton] at hb
        subst hb
        obtain ⟨q, hq, rfl⟩ := List.mem_map.mp ha
        intro heq
        exact hn (heq ▸ h.names q hq)
      · intro q hq
        simp only [List.mem_append, List.mem_singleton] at hq
        rcases hq with hq | rfl
        · exact List.mem_cons_of_mem _ (h.names q hq)
        · exact List.mem_cons_self ..
      · intro q hq
        simp only [List.mem_append, List.mem_singleton] at hq
        rcases hq with hq | rfl
        · exact h.sub q hq
        · exact hr

theorem Root.build_inv (rules : List Rule) : RootInv rules (Root.build rules) := by
  suffices h : ∀ (l : List Rule) (rt : Root), (∀ r ∈ l, r ∈ rules) → RootInv rules rt →
      RootInv rules (l.foldl (fun rt r => (rt.addRule r).1) rt) from
    h rules {} (fun _ h => h) ⟨rfl, by simp, by simp, by simp⟩
  intro l
  induction l with
  | nil => intro rt _ h; exact h
  | cons r rest ih =>
    intro rt hl h
    exact ih _ (fun q hq => hl q (List.mem_cons_of_mem _ hq))
      (Root.addRule_inv rules rt r (hl r (List.mem_cons_self ..)) h)

/-- which rules of the list enter the tree -/
theorem Root.indexed_foldl : ∀ (l : List Rule) (rt : Root),
    (l.foldl (fun rt r => (rt.addRule r).1) rt).indexed = rt.indexed ++ Spec.accepted l rt.names := by
  intro l
  induction l with
  | nil => intro rt; simp [Spec.accepted]
  | cons r rest ih =>
    intro rt
    simp only [List.foldl_cons]
    rw [ih]
    simp only [Spec.accepted]
    unfold Root.addRule
    split
    · rfl
    · split
      · rfl
      · simp

theorem Root.indexed_accepted (rules : List Rule) : (Root.build rules).indexed = Spec.accepted rules [] := by
  have := Root.indexed_foldl rules {}
  simpa [Root.build] using this

theorem Spec.accepted_all : ∀ (l : List Rule) (seen : List String), (l.map (·.name)).Nodup →
    (∀ r ∈ l, r.name ∉ seen) → (∀ r ∈ l, r.kinds ≠ [] ∧ r.scopeNil = false) → Spec.accepted l seen = l := by
  intro l
  induction l with
  | nil => intro _ _ _ _; rfl
  | cons r rest ih =>
    intro seen hnd hs hv
    simp only [List.map_cons, List.nodup_cons] at hnd
    have h1 := hs r (List.mem_cons_self ..)
    have h2 := hv r (List.mem_cons_self ..)
    simp only [Spec.accepted, h1, if_false, h2.1, h2.2, false_or, Bool.false_eq_true]
    rw [ih (r.name :: seen) hnd.2 ?_ (fun q hq => hv q (List.mem_cons_of_mem _ hq))]
    intro q hq
    simp only [List.mem_cons, not_or]
    refine ⟨?_, hs q (List.mem_cons_of_mem _ hq)⟩
    intro hc
    exact hnd.1 (List.mem_map.mpr ⟨q, hq, hc⟩)

/-- a rule set as the property means it (distinct names, each with a kind and a scope match): all of it is indexed -/
theorem Root.indexed_eq (rules : List Rule) (hn : (rules.map (·.name)).Nodup)
    (hk : ∀ r ∈ rules, r.kinds ≠ [] ∧ r.scopeNil = false) :
    (Root.build rules).indexed = rules := by
  rw [Root.indexed_accepted, Spec.accepted_all rules [] hn (by simp) hk]

theorem eq_of_name_eq {l : List Rule} (h : (l.map (·.name)).Nodup) :
    ∀ a ∈ l, ∀ b ∈ l, a.name = b.name → a = b := by
  induction l with
  | nil => intro a ha; simp at ha
  | cons c rest ih =>
    simp only [List.map_cons, List.nodup_cons] at h
    intro a ha b hb hab
    simp only [List.mem_cons] at ha hb
    rcases ha with rfl | ha <;> rcases hb with rfl | hb
    · rfl
    · exact absurd (List.mem_map.mpr ⟨b, hb, hab.symm⟩) h.1
    · exact absurd (List.mem_map.mpr ⟨a, ha, hab⟩) h.1
    · exact ih h.2 a ha b hb hab

end Ecal.Engine
