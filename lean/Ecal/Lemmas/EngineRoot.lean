import Ecal.Lemmas.EngineIndex
import Ecal.Lemmas.EngineProcess
/-! `ruleIndexRoot`: the rules that entered the tree have distinct names; the tree is `buildIdx` of them. -/
namespace Ecal.Engine

structure RootInv (S : List Rule) (rt : Root) : Prop where
  idx : rt.idx = buildIdx rt.indexed
  nodup : (rt.indexed.map (·.name)).Nodup
  names : ∀ r ∈ rt.indexed, r.name ∈ rt.names
  sub : ∀ r ∈ rt.indexed, r ∈ S

theorem Root.addRule_inv (S : List Rule) (rt : Root) (r : Rule) (hr : r ∈ S) (h : RootInv S rt) :
    RootInv S (rt.addRule r).1 := by
  unfold Root.addRule
  split
  · exact h
  · next hn =>
    split
    · exact ⟨h.idx, h.nodup, fun q hq => List.mem_cons_of_mem _ (h.names q hq), h.sub⟩
    · refine ⟨?_, ?_, ?_, ?_⟩
      · simp [buildIdx, List.foldl_append, h.idx]
      · simp only [List.map_append, List.map_cons, List.map_nil]
        refine List.nodup_append.mpr ⟨h.nodup, by simp, ?_⟩
        intro a ha b hb
        simp only [List.mem_singleton] at hb
        subst hb
        obtain ⟨q, hq, rfl⟩ := List.mem_map.mp ha
        intro heq
        exact hn (heq ▸ h.names q hq)
      · intro q hq
        simp only [List.mem_append, List.mem_singleton] at hq
        rcases hq with hq | rfl
        · exact List.mem_cons_of_mem _ (h.names q hq)
        · exact List.mem_cons_self ..
      · intro q hq
        simp only [List.mem_append, List.mem_singleton] at hq
        rcases hq with hq | rfl
        · exact h.sub q hq
        · exact hr

theorem Root.build_inv (rules : List Rule) : RootInv rules (Root.build rules) := by
  suffices h : ∀ (l : List Rule) (rt : Root), (∀ r ∈ l, r ∈ rules) → RootInv rules rt →
      RootInv rules (l.foldl (fun rt r => (rt.addRule r).1) rt) from
    h rules {} (fun _ h => h) ⟨rfl, by simp, by simp, by simp⟩
  intro l
  induction l with
  | nil => intro rt _ h; exact h
  | cons r rest ih =>
    intro rt hl h
    exact ih _ (fun q hq => hl q (List.mem_cons_of_mem _ hq))
      (Root.addRule_inv rules rt r (hl r (List.mem_cons_self ..)) h)

/-- a rule set as the property means it (distinct names, each with a kind match): all of it is indexed -/
theorem Root.indexed_eq (rules : List Rule) (hn : (rules.map (·.name)).Nodup) (hk : ∀ r ∈ rules, r.kinds ≠ []) :
    (Root.build rules).indexed = rules := by
  suffices h : ∀ (l : List Rule) (rt : Root), ((rt.indexed ++ l).map (·.name)).Nodup → (∀ r ∈ l, r.kinds ≠ []) →
      (∀ n ∈ rt.names, n ∈ rt.indexed.map (·.name)) →
      (l.foldl (fun rt r => (rt.addRule r).1) rt).indexed = rt.indexed ++ l by
    have := h rules {} (by simpa using hn) hk (by simp)
    simpa [Root.build] using this
  intro l
  induction l with
  | nil => intro rt _ _ _; simp
  | cons r rest ih =>
    intro rt hnd hk hnames
    have hnot : r.name ∉ rt.names := by
      intro hc
      have h1 := hnames _ hc
      simp only [List.map_append, List.map_cons] at hnd
      have := (List.nodup_append.mp hnd).2.2 _ h1 r.name (List.mem_cons_self ..)
      exact this rfl
    have hkr := hk r (List.mem_cons_self ..)
    simp only [List.foldl_cons]
    have hstep : (rt.addRule r).1 = { idx := addRuleIdx rt.idx r, names := r.name :: rt.names, indexed := rt.indexed ++ [r] } := by
      simp [Root.addRule, hnot, hkr]
    rw [hstep, ih]
    · simp
    · simpa using hnd
    · exact fun q hq => hk q (List.mem_cons_of_mem _ hq)
    · intro n hn
      simp only [List.mem_cons] at hn
      rcases hn with rfl | hn
      · simp
      · have := hnames n hn
        simp only [List.map_append, List.mem_append]
        exact Or.inl this

theorem eq_of_name_eq {l : List Rule} (h : (l.map (·.name)).Nodup) :
    ∀ a ∈ l, ∀ b ∈ l, a.name = b.name → a = b := by
  induction l with
  | nil => intro a ha; simp at ha
  | cons c rest ih =>
    simp only [List.map_cons, List.nodup_cons] at h
    intro a ha b hb hab
    simp only [List.mem_cons] at ha hb
    rcases ha with rfl | ha <;> rcases hb with rfl | hb
    · rfl
    · exact absurd (List.mem_map.mpr ⟨b, hb, hab.symm⟩) h.1
    · exact absurd (List.mem_map.mpr ⟨a, ha, hab⟩) h.1
    · exact ih h.2 a ha b hb hab

end Ecal.Engine
