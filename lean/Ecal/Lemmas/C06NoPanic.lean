import Ecal.Model.Eval
/-!
C06 — the evaluator model (`Ecal.Ev.eval`) never yields `Sig.panic` on the sub-language `Frag`.

Technique: a Hoare-style predicate `NPQ m Q` on the evaluator monad ("`m` never ends in `panic`, a normal
result satisfies `Q`") with rules for `pure`, `throw`, `>>=`; strong induction on the fuel with one case
per construct (the operator helpers `numVal numOp boolOp` of the mutual block take the fuel one lower
and call `eval` one lower again).
-/
namespace Ecal.Lemmas.C06
open Ecal.Ev
open Ecal.Parse (Node)
open Ecal.Lex (Tok)

/-- `m` never ends in `panic`; a normal result satisfies `Q` -/
def NPQ {α : Type} (m : M α) (Q : α → Prop) : Prop :=
  ∀ s, match (m.run.run s).1 with
    | .ok a => Q a
    | .error e => e ≠ Sig.panic

abbrev NP {α : Type} (m : M α) : Prop := NPQ m (fun _ => True)

theorem NPQ.pure {α : Type} (a : α) (Q : α → Prop) (h : Q a) : NPQ (pure a : M α) Q := by
  intro s; exact h

theorem NPQ.throw {α : Type} (e : Sig) (Q : α → Prop) (h : e ≠ Sig.panic) : NPQ (throw e : M α) Q := by
  intro s; exact h

theorem NPQ.bind {α β : Type} (m : M α) (f : α → M β) (Q : α → Prop) (R : β → Prop)
    (hm : NPQ m Q) (hf : ∀ a, Q a → NPQ (f a) R) : NPQ (m >>= f) R := by
  intro s
  have h1 := hm s
  rw [ExceptT.run_bind, StateT.run_bind]
  cases hr : m.run.run s with
  | mk r s' =>
    rw [hr] at h1
    cases r with
    | ok a => exact hf a h1 s'
    | error e => exact h1

theorem NPQ.mono {α : Type} (m : M α) (Q R : α → Prop) (hm : NPQ m Q) (h : ∀ a, Q a → R a) : NPQ m R := by
  intro s; have := hm s; split at this <;> simp_all

theorem rtErr_ne_panic (t : String) (n : Node) : rtErr t n ≠ Sig.panic := by
  unfold rtErr; split <;> simp

/-- the sub-language of `eval_never_panics_partial` -/
inductive Frag : Node → Prop
  | const (n : Node) (h : n.name = "true" ∨ n.name = "false" ∨ n.name = "null") : Frag n
  | number (n : Node) (t : Tok) (h : n.name = "number") (ht : n.tok = some t) : Frag n
  | rawString (n : Node) (t : Tok) (h : n.name = "string") (ht : n.tok = some t) (hr : t.allowEscapes = false) : Frag n
  | unary (n c : Node) (h : n.name = "plus" ∨ n.name = "minus" ∨ n.name = "not" ∨ n.name = "guard")
      (hc : n.children = [some c]) (fc : Frag c) : Frag n
  | binary (n a b : Node)
      (h : n.name = "plus" ∨ n.name = "minus" ∨ n.name = "times" ∨ n.name = "div" ∨ n.name = "divint" ∨
           n.name = "modint" ∨ n.name = "and" ∨ n.name = "or")
      (hc : n.children = [some a, some b]) (fa : Frag a) (fb : Frag b) : Frag n
  | signal (n : Node) (h : n.name = "break" ∨ n.name = "continue") : Frag n
  | ret0 (n : Node) (h : n.name = "return") (hc : n.children = []) : Frag n
  | ret1 (n c : Node) (h : n.name = "return") (hc : n.children = [some c]) (fc : Frag c) : Frag n
  | statements (n : Node) (kids : List Node) (h : n.name = "statements") (hc : n.children = kids.map some)
      (hk : ∀ c, c ∈ kids → Frag c) : Frag n

theorem NPQ.forIn {α β : Type} (l : List α) (body : α → β → M (ForInStep β))
    (h : ∀ a, a ∈ l → ∀ b, NP (body a b)) : ∀ init, NP (forIn l init body) := by
  induction l with
  | nil => intro init; simp only [List.forIn_nil]; exact NPQ.pure _ (fun _ => True) trivial
  | cons x xs ih =>
    intro init
    simp only [List.forIn_cons]
    refine NPQ.bind _ _ (fun _ => True) _ (h x (by simp) init) (fun r _ => ?_)
    cases r with
    | done b => exact NPQ.pure _ (fun _ => True) trivial
    | yield b => exact ih (fun a ha => h a (by simp [ha])) b

theorem NPQ.foldlM {α β : Type} (l : List α) (g : β → α → M β)
    (h : ∀ a, a ∈ l → ∀ b, NP (g b a)) : ∀ init, NP (l.foldlM g init) := by
  induction l with
  | nil => intro init; simp only [List.foldlM_nil]; exact NPQ.pure _ (fun _ => True) trivial
  | cons x xs ih =>
    intro init
    simp only [List.foldlM_cons]
    exact NPQ.bind _ _ (fun _ => True) _ (h x (by simp) init) (fun r _ => ih (fun a ha => h a (by simp [ha])) r)

macro "np_bind" : tactic => `(tactic| refine NPQ.bind _ _ (fun _ => True) _ ?_ (fun _ _ => ?_))

theorem numberOf_np (t : Tok) : NP (numberOf t) := by
  unfold numberOf
  simp only
  repeat' split
  all_goals exact NPQ.pure _ (fun _ => True) trivial

theorem goInt_np (x : Float) : NP (goInt x) := by
  unfold goInt; split
  · exact NPQ.throw _ _ (by simp)
  · exact NPQ.pure _ _ trivial

section
variable (f : Nat) (ih : ∀ sc n, Frag n → NP (eval f sc n))
include ih

theorem numVal_step (sc : Nat) (n c : Node) (hc : n.children = [some c]) (fc : Frag c) (op : Float → Float) :
    NP (numVal (f+1) sc n op) := by
  unfold numVal
  simp [hc, child]
  np_bind
  · exact ih sc c fc
  · split
    · exact NPQ.pure _ _ trivial
    · exact NPQ.throw _ _ (rtErr_ne_panic _ _)

theorem numOp_step (sc : Nat) (n a b : Node) (hc : n.children = [some a, some b]) (fa : Frag a) (fb : Frag b)
    (op : Float → Float → Val) : NP (numOp (f+1) sc n op) := by
  unfold numOp
  simp [hc, child]
  np_bind
  · exact ih sc a fa
  · np_bind
    · exact ih sc b fb
    · split
      · exact NPQ.pure _ _ trivial
      · exact NPQ.throw _ _ (rtErr_ne_panic _ _)
      · exact NPQ.throw _ _ (rtErr_ne_panic _ _)

theorem boolOp_step (sc : Nat) (n a b : Node) (hc : n.children = [some a, some b]) (fa : Frag a) (fb : Frag b)
    (op : Bool → Bool → Bool) : NP (boolOp (f+1) sc n op) := by
  unfold boolOp
  simp [hc, child]
  np_bind
  · exact ih sc a fa
  · np_bind
    · exact ih sc b fb
    · split
      · exact NPQ.pure _ _ trivial
      · exact NPQ.throw _ _ (rtErr_ne_panic _ _)
      · exact NPQ.throw _ _ (rtErr_ne_panic _ _)
end

theorem eval_zero_np (sc : Nat) (n : Node) : NP (eval 0 sc n) := by
  unfold eval; exact NPQ.throw _ _ (by simp)

abbrev IH (g : Nat) : Prop := ∀ g', g' < g → ∀ sc n, Frag n → NP (eval g' sc n)

theorem numVal_any (g : Nat) (ih : IH g) (sc : Nat) (n c : Node) (hc : n.children = [some c]) (fc : Frag c)
    (op : Float → Float) : NP (numVal g sc n op) := by
  cases g with
  | zero => unfold numVal; exact NPQ.throw _ _ (by simp)
  | succ g => exact numVal_step g (ih g (by omega)) sc n c hc fc op

theorem numOp_any (g : Nat) (ih : IH g) (sc : Nat) (n a b : Node) (hc : n.children = [some a, some b])
    (fa : Frag a) (fb : Frag b) (op : Float → Float → Val) : NP (numOp g sc n op) := by
  cases g with
  | zero => unfold numOp; exact NPQ.throw _ _ (by simp)
  | succ g => exact numOp_step g (ih g (by omega)) sc n a b hc fa fb op

theorem boolOp_any (g : Nat) (ih : IH g) (sc : Nat) (n a b : Node) (hc : n.children = [some a, some b])
    (fa : Frag a) (fb : Frag b) (op : Bool → Bool → Bool) : NP (boolOp g sc n op) := by
  cases g with
  | zero => unfold boolOp; exact NPQ.throw _ _ (by simp)
  | succ g => exact boolOp_step g (ih g (by omega)) sc n a b hc fa fb op

theorem eval_frag_np : ∀ (f sc : Nat) (n : Node), Frag n → NP (eval f sc n) := by
  intro f
  induction f using Nat.strongRecOn with
  | _ f ih =>
    intro sc n hn
    cases f with
    | zero => exact eval_zero_np sc n
    | succ f =>
      have ihf : IH f := fun g' hg => ih g' (by omega)
      have ih0 : ∀ sc n, Frag n → NP (eval f sc n) := ih f (by omega)
      cases hn with
      | const n h => rcases h with h | h | h <;> (unfold eval; simp [h]; exact NPQ.pure _ (fun _ => True) trivial)
      | number n t h ht =>
        unfold eval; simp [h, tokOf, ht]
        exact NPQ.bind _ _ (fun _ => True) _ (numberOf_np t) (fun _ _ => NPQ.pure _ (fun _ => True) trivial)
      | rawString n t h ht hr =>
        unfold eval; simp [h, tokOf, ht, hr]; exact NPQ.pure _ (fun _ => True) trivial
      | unary n c h hc fc =>
        rcases h with h | h | h | h
        · unfold eval; simp [h, hc]; exact numVal_any f ihf sc n c hc fc _
        · unfold eval; simp [h, hc]; exact numVal_any f ihf sc n c hc fc _
        · unfold eval; simp [h, hc, child]
          np_bind
          · exact ih0 sc c fc
          · split
            · exact NPQ.pure _ (fun _ => True) trivial
            · exact NPQ.throw _ _ (rtErr_ne_panic _ _)
        · unfold eval; simp [h, hc, child]
          np_bind
          · exact ih0 sc c fc
          · exact NPQ.pure _ (fun _ => True) trivial
      | signal n h =>
        rcases h with h | h <;> (unfold eval; simp [h]; exact NPQ.throw _ _ (rtErr_ne_panic _ _))
      | ret0 n h hc =>
        unfold eval; simp [h, hc]
        split
        · exact NPQ.throw _ _ (by simp)
        · next hne => exact NPQ.throw _ _ (by intro hp; have := rtErr_ne_panic tReturn n; simp_all)
      | ret1 n c h hc fc =>
        unfold eval; simp [h, hc, child]
        np_bind
        · exact ih0 sc c fc
        · split
          · exact NPQ.throw _ _ (by simp)
          · next hne => exact NPQ.throw _ _ (by intro hp; have := rtErr_ne_panic tReturn n; simp_all)
      | statements n kids h hc hk =>
        unfold eval; simp [h, hc]
        exact NPQ.foldlM kids _ (fun a ha _ => ih0 sc a (hk a ha)) _
      | binary n a b h hc fa fb =>
        rcases h with h | h | h | h | h | h | h | h
        · unfold eval; simp [h, hc]; exact numOp_any f ihf sc n a b hc fa fb _
        · unfold eval; simp [h, hc]; exact numOp_any f ihf sc n a b hc fa fb _
        · unfold eval; simp [h]; exact numOp_any f ihf sc n a b hc fa fb _
        · unfold eval; simp [h]; exact numOp_any f ihf sc n a b hc fa fb _
        · unfold eval; simp [h]; exact numOp_any f ihf sc n a b hc fa fb _
        · unfold eval; simp [h, hc, child]
          np_bind
          · exact ih0 sc a fa
          · np_bind
            · exact ih0 sc b fb
            · split
              · np_bind
                · exact goInt_np _
                · np_bind
                  · exact goInt_np _
                  · split
                    · exact NPQ.throw _ _ (rtErr_ne_panic _ _)
                    · exact NPQ.pure _ (fun _ => True) trivial
              · exact NPQ.throw _ _ (rtErr_ne_panic _ _)
              · exact NPQ.throw _ _ (rtErr_ne_panic _ _)
        · unfold eval; simp [h]; exact boolOp_any f ihf sc n a b hc fa fb _
        · unfold eval; simp [h]; exact boolOp_any f ihf sc n a b hc fa fb _

/-- the statement in the shape used by `Props/C06.lean` -/
theorem eval_frag_no_panic (f sc : Nat) (n : Node) (hn : Frag n) (s : St) :
    ((eval f sc n).run.run s).1 ≠ .error Sig.panic := by
  have h := eval_frag_np f sc n hn s
  intro he
  rw [he] at h
  exact h rfl

def exTok (v : List Nat) : Tok :=
  { id := 0, pos := 0, val := v, identifier := false, allowEscapes := false, prefixNl := 0, line := 1, col := 1 }
def exNode (name : String) (v : List Nat) (kids : List (Option Node)) : Node :=
  Node.mk name (some (exTok v)) 0 default default kids []
/-- `not (5 % true)` -/
def fragExample : Node :=
  exNode "not" [] [some (exNode "modint" [37] [some (exNode "number" [53] []), some (exNode "true" [] [])])]

theorem fragExample_ok : Frag fragExample :=
  Frag.unary _ _ (Or.inr (Or.inr (Or.inl rfl))) rfl
    (Frag.binary _ _ _ (Or.inr (Or.inr (Or.inr (Or.inr (Or.inr (Or.inl rfl)))))) rfl
      (Frag.number _ (exTok [53]) rfl rfl) (Frag.const _ (Or.inl rfl)))

end Ecal.Lemmas.C06
