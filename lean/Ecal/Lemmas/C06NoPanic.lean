import Ecal.Model.Eval
/-!
C06 — the evaluator model (`Ecal.Ev.eval`) never yields `Sig.panic` on the sub-language `Frag`.

* `Frag` (mutual with `FragEntry`): per node kind, the shape the evaluator relies on (token present, child
  count, children themselves in the fragment). It grows construct by construct.
* `Inv : St → Prop`: the declarations in the function table and the trees in the interpolation table are in
  `Frag` (nothing about list / map / scope references or function ids is needed: every lookup in the model
  has a default, and a dangling function id is an `unsupported` outcome).
* `NPQ m Q`: from a state satisfying `Inv`, `m` never ends in `panic`, leaves a state satisfying `Inv`, and a
  normal result satisfies `Q` — with rules for `pure throw >>= <$> get set modify attemptE forIn foldlM mapM`
  and the tactic `np` (syntax-directed, unification at reducible transparency, lemmas registered with
  `macro_rules | `(tactic| np_lem)`).
* helper lemmas: every heap / scope primitive and access-path function (`getValue setValue containerGet
  containerWalk listIndex …`, i.e. the three repaired negative-index sites), the printer (`sprint`), deep
  equality (`deepEq goEq`).
* `eval_frag_np`: strong induction on the fuel, one case per construct.
-/
namespace Ecal.Lemmas.C06
open Ecal.Ev
open Ecal.Parse (Node)
open Ecal.Lex (Tok)

mutual
/-- the sub-language of `eval_never_panics_partial`: shape conditions per node kind (what the parser
    guarantees and the evaluator relies on) -/
inductive Frag : Node → Prop
  | const (n : Node) (h : n.name = "true" ∨ n.name = "false" ∨ n.name = "null") : Frag n
  | number (n : Node) (t : Tok) (ht : n.tok = some t) (h : n.name = "number") : Frag n
  | rawString (n : Node) (t : Tok) (ht : n.tok = some t) (h : n.name = "string") (hr : t.allowEscapes = false) : Frag n
  | unary (n : Node) (t : Tok) (c : Node) (ht : n.tok = some t)
      (h : n.name = "plus" ∨ n.name = "minus" ∨ n.name = "not")
      (hc : n.children = [some c]) (fc : Frag c) : Frag n
  | guardN (n c : Node) (h : n.name = "guard") (hc : n.children = [some c]) (fc : Frag c) : Frag n
  | binary (n : Node) (t : Tok) (a b : Node) (ht : n.tok = some t)
      (h : n.name = "plus" ∨ n.name = "minus" ∨ n.name = "times" ∨ n.name = "div" ∨ n.name = "divint" ∨
           n.name = "modint" ∨ n.name = "and" ∨ n.name = "or" ∨ n.name = "==" ∨ n.name = "!=" ∨
           n.name = ">=" ∨ n.name = ">" ∨ n.name = "<=" ∨ n.name = "<" ∨ n.name = "in" ∨ n.name = "notin" ∨
           n.name = "hasprefix" ∨ n.name = "hassuffix")
      (hc : n.children = [some a, some b]) (fa : Frag a) (fb : Frag b) : Frag n
  | signal (n : Node) (t : Tok) (ht : n.tok = some t) (h : n.name = "break" ∨ n.name = "continue") : Frag n
  | ret0 (n : Node) (t : Tok) (ht : n.tok = some t) (h : n.name = "return") (hc : n.children = []) : Frag n
  | ret1 (n : Node) (t : Tok) (c : Node) (ht : n.tok = some t) (h : n.name = "return") (hc : n.children = [some c]) (fc : Frag c) : Frag n
  | statements (n : Node) (kids : List Node) (h : n.name = "statements")
      (hc : n.children = kids.map some) (hk : ∀ c, c ∈ kids → Frag c) : Frag n
  | list (n : Node) (t : Tok) (kids : List Node) (ht : n.tok = some t) (h : n.name = "list")
      (hc : n.children = kids.map some) (hk : ∀ c, c ∈ kids → Frag c)
      (hkt : ∀ c, c ∈ kids → ∃ tc, c.tok = some tc) : Frag n
  | map (n : Node) (t : Tok) (kids : List Node) (ht : n.tok = some t) (h : n.name = "map")
      (hc : n.children = kids.map some) (hk : ∀ c, c ∈ kids → FragEntry c) : Frag n
  | ident (n : Node) (t : Tok) (kids : List Node) (ht : n.tok = some t) (h : n.name = "identifier")
      (hc : n.children = kids.map some) (hl : ∀ c, c ∈ kids → Link c) : Frag n
  | assign (n : Node) (t : Tok) (lhs rhs : Node) (ht : n.tok = some t) (h : n.name = ":=")
      (hc : n.children = [some lhs, some rhs]) (fl : Frag lhs) (fr : Frag rhs) : Frag n
  | letN (n : Node) (t : Tok) (lv : Node) (ht : n.tok = some t) (h : n.name = "let")
      (hc : n.children = [some lv]) (fl : Frag lv) : Frag n
  | ifN (n : Node) (t : Tok) (pairs : List (Node × Node)) (ht : n.tok = some t) (h : n.name = "if")
      (hc : n.children = pairs.flatMap (fun p => [some p.1, some p.2]))
      (hg : ∀ p, p ∈ pairs → Frag p.1) (hb : ∀ p, p ∈ pairs → Frag p.2) : Frag n
  | loop (n : Node) (t : Tok) (c0 body : Node) (ht : n.tok = some t) (h : n.name = "loop")
      (hc : n.children = [some c0, some body]) (f0 : Frag c0) (fb : Frag body) : Frag n
  | istring (n : Node) (t : Tok) (ht : n.tok = some t) (h : n.name = "string") : Frag n
  | asN (n : Node) (t : Tok) (v : Node) (ht : n.tok = some t) (h : n.name = "as") (hc : n.children = [some v])
      (fv : Frag v) (hvt : ∃ tv, v.tok = some tv) : Frag n
  | tryN (n : Node) (t : Tok) (body : Node) (clauses : List Node) (ht : n.tok = some t) (h : n.name = "try")
      (hc : n.children = some body :: clauses.map some) (fb : Frag body) (hbn : body.name ≠ "finally")
      (hcl : ∀ c, c ∈ clauses → Clause c) : Frag n
  | funcNamed (n : Node) (t t0 : Tok) (c0 params body : Node) (ps : List Node) (ht : n.tok = some t)
      (h : n.name = "function") (hc : n.children = [some c0, some params, some body])
      (h0 : c0.name = "identifier") (ht0 : c0.tok = some t0)
      (hp : params.children = ps.map some) (hps : ∀ p, p ∈ ps → Param p) (fb : Frag body) : Frag n
  | funcAnon (n : Node) (t : Tok) (params body : Node) (ps : List Node) (ht : n.tok = some t)
      (h : n.name = "function") (hc : n.children = [some params, some body]) (h0 : params.name ≠ "identifier")
      (hp : params.children = ps.map some) (hps : ∀ p, p ∈ ps → Param p) (fb : Frag body) : Frag n
  | inert (n : Node)
      (h : n.name = "like" ∨ n.name = "kvp" ∨ n.name = "preset" ∨ n.name = "params" ∨ n.name = "funccall" ∨
           n.name = "compaccess" ∨ n.name = "except" ∨ n.name = "otherwise" ∨ n.name = "finally" ∨
           n.name = "sink" ∨ n.name = "import" ∨ n.name = "mutex" ∨ n.name = "kindmatch" ∨ n.name = "scopematch" ∨
           n.name = "statematch" ∨ n.name = "priority" ∨ n.name = "suppresses" ∨ n.name = "EOF") : Frag n
/-- a link of an access path `a.b[c]…`: index expression, field (with its own continuation), anything else -/
inductive Link : Node → Prop
  | comp (c e : Node) (hn : c.name = "compaccess") (hc : c.children = [some e]) (fe : Frag e) : Link c
  | field (c : Node) (t : Tok) (kids : List Node) (hn : c.name = "identifier") (ht : c.tok = some t)
      (hc : c.children = kids.map some) (hl : ∀ k, k ∈ kids → Link k) : Link c
  | call (c : Node) (args : List Node) (hn : c.name = "funccall") (hc : c.children = args.map some)
      (ha : ∀ a, a ∈ args → Frag a) : Link c
  | other (c : Node) (hn : c.name ≠ "compaccess" ∧ c.name ≠ "identifier" ∧ c.name ≠ "funccall") : Link c
/-- a parameter of a function declaration: a name, a name with a default expression, anything else (ignored) -/
inductive Param : Node → Prop
  | name (p : Node) (t : Tok) (hn : p.name = "identifier") (ht : p.tok = some t) : Param p
  | preset (p nm d : Node) (t : Tok) (hn : p.name = "preset") (hc : p.children = [some nm, some d])
      (ht : nm.tok = some t) (fd : Frag d) : Param p
  | other (p : Node) (hn : p.name ≠ "identifier" ∧ p.name ≠ "preset") : Param p
/-- a clause of `try`: an except clause (any of its shapes: its children are `Frag`), an otherwise / finally
    block, anything else (ignored by the evaluator) -/
inductive Clause : Node → Prop
  | exc (c : Node) (t : Tok) (kids : List Node) (hn : c.name = "except") (ht : c.tok = some t)
      (hc : c.children = kids.map some) (hne : kids ≠ []) (hk : ∀ k, k ∈ kids → Frag k)
      (hfirst : ∀ k0 k1 rest, kids = k0 :: k1 :: rest → ∃ t0, k0.tok = some t0) : Clause c
  | blk (c : Node) (t : Tok) (b : Node) (hn : c.name = "otherwise" ∨ c.name = "finally") (ht : c.tok = some t)
      (hc : c.children = [some b]) (fb : Frag b) : Clause c
  | other (c : Node) (hn : c.name ≠ "except" ∧ c.name ≠ "otherwise" ∧ c.name ≠ "finally") : Clause c
/-- an entry of a map literal: not a key-value pair (the evaluator answers with an error), or a pair of expressions -/
inductive FragEntry : Node → Prop
  | bad (c : Node) (h : c.name ≠ "kvp" ∨ c.children.length ≠ 2) : FragEntry c
  | kvp (c k v : Node) (hc : c.children = [some k, some v]) (fk : Frag k) (fv : Frag v) : FragEntry c
end

def Inv (s : St) : Prop :=
  (∀ fr, fr ∈ s.funcs.toList → Frag fr.decl ∧ fr.decl.name = "function") ∧ (∀ code n, (code, InterpEntry.ast n) ∈ s.interp → Frag n)

/-- from a state satisfying `Inv`, `m` never ends in `panic`, leaves a state satisfying `Inv`, and a normal result satisfies `Q` -/
def NPQ {α : Type} (m : M α) (Q : α → Prop) : Prop :=
  ∀ s, Inv s → Inv (m.run.run s).2 ∧
    match (m.run.run s).1 with
    | .ok a => Q a
    | .error e => e ≠ Sig.panic

abbrev NP {α : Type} (m : M α) : Prop := NPQ m (fun _ => True)

theorem NPQ.pure {α : Type} (a : α) (Q : α → Prop) (h : Q a) : NPQ (pure a : M α) Q := by
  intro s hs; exact ⟨hs, h⟩

theorem NPQ.throw {α : Type} (e : Sig) (Q : α → Prop) (h : e ≠ Sig.panic) : NPQ (throw e : M α) Q := by
  intro s hs; exact ⟨hs, h⟩

theorem NPQ.bind {α β : Type} (m : M α) (f : α → M β) (Q : α → Prop) (R : β → Prop)
    (hm : NPQ m Q) (hf : ∀ a, Q a → NPQ (f a) R) : NPQ (m >>= f) R := by
  intro s hs
  have h1 := hm s hs
  rw [ExceptT.run_bind, StateT.run_bind]
  cases hr : m.run.run s with
  | mk r s' =>
    rw [hr] at h1
    cases r with
    | ok a => exact hf a h1.2 s' h1.1
    | error e => exact h1

theorem NPQ.mono {α : Type} (m : M α) (Q R : α → Prop) (hm : NPQ m Q) (h : ∀ a, Q a → R a) : NPQ m R := by
  intro s hs
  have := hm s hs
  refine ⟨this.1, ?_⟩
  have h2 := this.2
  split at h2 <;> simp_all

theorem NPQ.get : NPQ (get : M St) Inv := by
  intro s hs; exact ⟨hs, hs⟩

theorem NPQ.set (s' : St) (h : Inv s') : NPQ (set s' : M Unit) (fun _ => True) := by
  intro s hs; exact ⟨h, trivial⟩

theorem NPQ.modify (f : St → St) (h : ∀ s, Inv s → Inv (f s)) : NPQ (modify f : M Unit) (fun _ => True) := by
  intro s hs; exact ⟨h s hs, trivial⟩

theorem NPQ.attemptE {α : Type} (m : M α) (Q : α → Prop) (hm : NPQ m Q) :
    NPQ (attemptE m) (fun r => match r with | .ok a => Q a | .error e => e ≠ Sig.panic) := by
  intro s hs
  have h1 := hm s hs
  show Inv (m.run.run s).2 ∧ _
  refine ⟨h1.1, ?_⟩
  show (match (m.run.run s).1 with | .ok a => Q a | .error e => e ≠ Sig.panic)
  exact h1.2

theorem NPQ.get' : NP (MonadState.get : M St) := NPQ.mono _ _ _ NPQ.get (fun _ _ => trivial)

theorem rtErr_ne_panic (t : String) (n : Node) : rtErr t n ≠ Sig.panic := by
  unfold rtErr; split <;> simp

theorem NPQ.foldlM {α β : Type} (l : List α) (g : β → α → M β)
    (h : ∀ a, a ∈ l → ∀ b, NP (g b a)) : ∀ init, NP (l.foldlM g init) := by
  induction l with
  | nil => intro init; simp only [List.foldlM_nil]; exact NPQ.pure _ (fun _ => True) trivial
  | cons x xs ih =>
    intro init
    simp only [List.foldlM_cons]
    exact NPQ.bind _ _ (fun _ => True) _ (h x (by simp) init) (fun r _ => ih (fun a ha => h a (by simp [ha])) r)

theorem NPQ.forIn {α β : Type} (l : List α) (body : α → β → M (ForInStep β))
    (h : ∀ a, a ∈ l → ∀ b, NP (body a b)) : ∀ init, NP (forIn l init body) := by
  induction l with
  | nil => intro init; simp only [List.forIn_nil]; exact NPQ.pure _ (fun _ => True) trivial
  | cons x xs ih =>
    intro init
    simp only [List.forIn_cons]
    refine NPQ.bind _ _ (fun _ => True) _ (h x (by simp) init) (fun r _ => ?_)
    cases r with
    | done b => exact NPQ.pure _ (fun _ => True) trivial
    | yield b => exact ih (fun a ha => h a (by simp [ha])) b

theorem NPQ.mapMQ {α β : Type} (Q : β → Prop) (l : List α) (g : α → M β) (h : ∀ a, a ∈ l → NPQ (g a) Q) :
    NPQ (l.mapM g) (fun r => ∀ b, b ∈ r → Q b) := by
  induction l with
  | nil => simp only [List.mapM_nil]; exact NPQ.pure _ _ (by intro b hb; cases hb)
  | cons x xs ih =>
    simp only [List.mapM_cons]
    refine NPQ.bind _ _ Q _ (h x (by simp)) (fun r hr => ?_)
    refine NPQ.bind _ _ _ _ (ih (fun a ha => h a (by simp [ha]))) (fun rs hrs => ?_)
    refine NPQ.pure _ _ ?_
    intro b hb
    simp only [List.mem_cons] at hb
    rcases hb with hb | hb
    · subst hb; exact hr
    · exact hrs b hb

def stepVal {β : Type} : ForInStep β → β
  | .done b => b
  | .yield b => b

/-- `forIn` with a loop invariant `P` on the loop state -/
theorem NPQ.forInP {α β : Type} (P : β → Prop) (l : List α) (body : α → β → M (ForInStep β))
    (h : ∀ a, a ∈ l → ∀ b, P b → NPQ (body a b) (fun r => P (stepVal r))) : ∀ init, P init → NPQ (ForIn.forIn l init body) P := by
  induction l with
  | nil => intro init hi; simp only [List.forIn_nil]; exact NPQ.pure _ _ hi
  | cons x xs ih =>
    intro init hi
    simp only [List.forIn_cons]
    refine NPQ.bind _ _ _ _ (h x (by simp) init hi) (fun r hr => ?_)
    cases r with
    | done b => exact NPQ.pure _ _ hr
    | yield b => exact ih (fun a ha => h a (by simp [ha])) b hr

theorem NPQ.mapM {α β : Type} (l : List α) (g : α → M β) (h : ∀ a, a ∈ l → NP (g a)) : NP (l.mapM g) := by
  induction l with
  | nil => simp only [List.mapM_nil]; exact NPQ.pure _ (fun _ => True) trivial
  | cons x xs ih =>
    simp only [List.mapM_cons]
    refine NPQ.bind _ _ (fun _ => True) _ (h x (by simp)) (fun r _ => ?_)
    refine NPQ.bind _ _ (fun _ => True) _ (ih (fun a ha => h a (by simp [ha]))) (fun r _ => ?_)
    exact NPQ.pure _ (fun _ => True) trivial

theorem NPQ.map {α β : Type} (f : α → β) (m : M α) (h : NP m) : NP (f <$> m) := by
  rw [map_eq_pure_bind]
  exact NPQ.bind _ _ (fun _ => True) _ h (fun _ _ => NPQ.pure _ (fun _ => True) trivial)

/-- extensible: lemmas about helper functions (`macro_rules` alternatives are tried in turn) -/
syntax "np_lem" : tactic
macro_rules | `(tactic| np_lem) => `(tactic| fail "no lemma")

/-- one step of the syntax-directed proof search (unification at reducible transparency only: the
    shape of the goal decides, nothing is unfolded) -/
macro "np1" : tactic => `(tactic| first
  | with_reducible np_lem
  | with_reducible exact NPQ.pure _ (fun _ => True) trivial
  | (with_reducible refine NPQ.throw _ _ ?_) <;> (first | exact rtErr_ne_panic _ _ | assumption | simp [plain, raiseSig] | (simp only [] at *; assumption) | (exfalso; simp_all))
  | with_reducible exact NPQ.get'
  | (with_reducible refine NPQ.set _ ?_) <;> assumption
  | (with_reducible refine NPQ.modify _ ?_) <;> exact fun _ h => h
  | with_reducible refine NPQ.map _ _ ?_
  | with_reducible refine NPQ.forIn _ _ (fun _ _ _ => ?_) _
  | with_reducible refine NPQ.foldlM _ _ (fun _ _ _ => ?_) _
  | with_reducible refine NPQ.mapM _ _ (fun _ _ => ?_)
  | (with_reducible refine NPQ.bind (throw _) _ (fun _ => False) _ (NPQ.throw _ _ ?_) (fun _ h => h.elim)) <;>
      (first | exact rtErr_ne_panic _ _ | assumption | simp [plain, raiseSig] | (simp only [] at *; assumption))
  | with_reducible refine NPQ.bind (get : M St) _ Inv _ NPQ.get (fun _ _ => ?_)
  | with_reducible refine NPQ.bind (attemptE _) _ _ _ (NPQ.attemptE _ (fun _ => True) ?_) (fun _ _ => ?_)
  | with_reducible refine NPQ.bind _ _ (fun _ => True) _ ?_ (fun _ _ => ?_)
  | with_reducible solve_by_elim (maxDepth := 6)
  | split
  | dsimp only [Function.comp_apply])
macro "np" : tactic => `(tactic| repeat' np1)
/-- after `unfold` of a fuel-recursive function at fuel `g+1`: identify the matched fuel with `g` -/
macro "np_fuel" : tactic => `(tactic| all_goals (simp only [Nat.succ_eq_add_one, Nat.add_right_cancel_iff] at *; subst_vars; np))

theorem getBacking_np (r : Nat) : NP (getBacking r) := by unfold getBacking; np
theorem setBacking_np (r : Nat) (b : List Val) : NP (setBacking r b) := by unfold setBacking; np
theorem newBacking_np (b : List Val) : NP (newBacking b) := by unfold newBacking; np
theorem getMap_np (r : Nat) : NP (getMap r) := by unfold getMap; np
theorem setMap_np (r : Nat) (k : List (Val × Val)) : NP (setMap r k) := by unfold setMap; np
theorem newMap_np (k : List (Val × Val)) : NP (newMap k) := by unfold newMap; np
theorem getScope_np (i : Nat) : NP (getScope i) := by unfold getScope; np
theorem setScope_np (i : Nat) (sc : Scope) : NP (setScope i sc) := by unfold setScope; np
theorem newScope_np (nm : String) (p : Option Nat) : NP (newScope nm p) := by unfold newScope; np
macro_rules | `(tactic| np_lem) => `(tactic| exact getBacking_np _)
macro_rules | `(tactic| np_lem) => `(tactic| exact setBacking_np _ _)
macro_rules | `(tactic| np_lem) => `(tactic| exact newBacking_np _)
macro_rules | `(tactic| np_lem) => `(tactic| exact getMap_np _)
macro_rules | `(tactic| np_lem) => `(tactic| exact setMap_np _ _)
macro_rules | `(tactic| np_lem) => `(tactic| exact newMap_np _)
macro_rules | `(tactic| np_lem) => `(tactic| exact getScope_np _)
macro_rules | `(tactic| np_lem) => `(tactic| exact setScope_np _ _)
macro_rules | `(tactic| np_lem) => `(tactic| exact newScope_np _ _)

theorem getList_np (r l : Nat) : NP (getList r l) := by unfold getList; np
macro_rules | `(tactic| np_lem) => `(tactic| exact getList_np _ _)
theorem appendVals_np (r l : Nat) (vs : List Val) : NP (appendVals r l vs) := by unfold appendVals; np
macro_rules | `(tactic| np_lem) => `(tactic| exact appendVals_np _ _ _)
theorem newListExact_np (vs : List Val) : NP (newListExact vs) := by unfold newListExact; np
macro_rules | `(tactic| np_lem) => `(tactic| exact newListExact_np _)
theorem appendEach_np : ∀ (vs : List Val) (r l : Nat), NP (appendEach vs r l)
  | [], r, l => by unfold appendEach; exact NPQ.pure _ _ trivial
  | v :: vs, r, l => by
    unfold appendEach
    refine NPQ.bind _ _ (fun _ => True) _ (appendVals_np r l [v]) (fun x _ => ?_)
    cases x <;> first | exact appendEach_np vs _ _ | exact NPQ.pure _ _ trivial
theorem newListLit_np (vs : List Val) : NP (newListLit vs) := by
  unfold newListLit; exact appendEach_np _ _ _
macro_rules | `(tactic| np_lem) => `(tactic| exact newListLit_np _)
theorem newChild_np (p : Nat) (nm : String) : NP (newChild p nm) := by unfold newChild; np
macro_rules | `(tactic| np_lem) => `(tactic| exact newChild_np _ _)
theorem scopeFor_np : ∀ (g sc : Nat) (v : String), NP (scopeFor g sc v) := by
  intro g; induction g with
  | zero => intro sc v; unfold scopeFor; np
  | succ g ih => intro sc v; unfold scopeFor; np; np_fuel
macro_rules | `(tactic| np_lem) => `(tactic| exact scopeFor_np _ _ _)
theorem listIndex_np (fld : List Nat) (len : Nat) : NP (listIndex fld len) := by unfold listIndex; np
macro_rules | `(tactic| np_lem) => `(tactic| exact listIndex_np _ _)
theorem containerGet_np : ∀ (g : Nat) (p : List (List Nat)) (c : Val), NP (containerGet g p c) := by
  intro g; induction g with
  | zero => intro p c; unfold containerGet; np
  | succ g ih => intro p c; unfold containerGet; np; np_fuel
macro_rules | `(tactic| np_lem) => `(tactic| exact containerGet_np _ _ _)
theorem lookupVar_np (sc : Nat) (v : String) : NP (lookupVar sc v) := by unfold lookupVar; np
macro_rules | `(tactic| np_lem) => `(tactic| exact lookupVar_np _ _)
theorem getValue_np (sc : Nat) (nm : List Nat) : NP (getValue sc nm) := by unfold getValue; np
macro_rules | `(tactic| np_lem) => `(tactic| exact getValue_np _ _)
theorem setVar_np (sc : Nat) (v : String) (x : Val) : NP (setVar sc v x) := by unfold setVar; np
macro_rules | `(tactic| np_lem) => `(tactic| exact setVar_np _ _ _)
theorem containerWalk_np : ∀ (g : Nat) (p : List (List Nat)) (c : Val), NP (containerWalk g p c) := by
  intro g; induction g with
  | zero => intro p c; unfold containerWalk; np
  | succ g ih => intro p c; unfold containerWalk; np; np_fuel
macro_rules | `(tactic| np_lem) => `(tactic| exact containerWalk_np _ _ _)
theorem setValue_np (sc : Nat) (nm : List Nat) (x : Val) : NP (setValue sc nm x) := by unfold setValue; np
macro_rules | `(tactic| np_lem) => `(tactic| exact setValue_np _ _ _)
theorem setLocalValue_np (sc : Nat) (nm : List Nat) (x : Val) : NP (setLocalValue sc nm x) := by unfold setLocalValue; np
macro_rules | `(tactic| np_lem) => `(tactic| exact setLocalValue_np _ _ _)

/-! ### `Except`-level: the printer -/
def EN {α : Type} (x : Except Sig α) : Prop := ∀ e, x = .error e → e ≠ Sig.panic

theorem EN.ok {α : Type} (a : α) : EN (Except.ok a : Except Sig α) := by intro e h; cases h
theorem EN.pure {α : Type} (a : α) : EN (Pure.pure a : Except Sig α) := by intro e h; cases h
theorem EN.error {α : Type} (e : Sig) (h : e ≠ Sig.panic) : EN (Except.error e : Except Sig α) := by
  intro e' h'; cases h'; exact h
theorem EN.throw {α : Type} (e : Sig) (h : e ≠ Sig.panic) : EN (throw e : Except Sig α) := EN.error e h
theorem EN.bind {α β : Type} (x : Except Sig α) (f : α → Except Sig β) (hx : EN x) (hf : ∀ a, EN (f a)) : EN (x >>= f) := by
  cases x with
  | ok a => exact hf a
  | error e => intro e' h'; cases h'; exact hx e rfl
theorem EN.mapM {α β : Type} (f : α → Except Sig β) (h : ∀ a, EN (f a)) : ∀ l : List α, EN (l.mapM f) := by
  intro l; induction l with
  | nil => simp only [List.mapM_nil]; exact EN.pure _
  | cons x xs ih =>
    simp only [List.mapM_cons]
    exact EN.bind _ _ (h x) (fun _ => EN.bind _ _ ih (fun _ => EN.pure _))

theorem sprintNum_en (f : Float) : EN (sprintNum f) := by
  unfold sprintNum; split
  · exact EN.ok _
  · exact EN.error _ (by simp)

theorem sprintD_en (lists : Array (List Val)) (maps : Array (List (Val × Val))) : ∀ (d : Nat) (v : Val), EN (sprintD lists maps d v) := by
  intro d; induction d with
  | zero => intro v; unfold sprintD; exact EN.error _ (by simp)
  | succ d ih =>
    intro v
    unfold sprintD
    split
    · exact EN.ok _
    · exact EN.ok _
    · exact EN.ok _
    · exact EN.ok _
    · exact sprintNum_en _
    · exact EN.error _ (by simp)
    · exact EN.bind _ _ (EN.mapM _ (ih) _) (fun _ => EN.pure _)
    · dsimp only []
      repeat' (first
        | with_reducible exact EN.pure _
        | with_reducible exact ih _
        | (with_reducible refine EN.throw _ ?_) <;> simp
        | with_reducible refine EN.mapM _ (fun _ => ?_) _
        | with_reducible refine EN.bind _ _ ?_ (fun _ => ?_)
        | split)
    · exact EN.error _ (by simp)

theorem sprint_np (v : Val) : NP (sprint v) := by
  unfold sprint
  refine NPQ.bind (get : M St) _ Inv _ NPQ.get (fun st _ => ?_)
  have h := sprintD_en st.lists st.maps 60 v
  split
  · np
  · next e he => exact NPQ.throw _ _ (h e he)
macro_rules | `(tactic| np_lem) => `(tactic| exact sprint_np _)

/-! ### values -/
theorem deepEq_np : ∀ (g : Nat) (a b : Val), NP (deepEq g a b) := by
  intro g; induction g with
  | zero => intro a b; unfold deepEq; np
  | succ g ih => intro a b; unfold deepEq; np
macro_rules | `(tactic| np_lem) => `(tactic| exact deepEq_np _ _ _)
theorem goEq_np (a b : Val) : NP (goEq a b) := by unfold goEq; np
macro_rules | `(tactic| np_lem) => `(tactic| exact goEq_np _ _)
theorem goInt_np (x : Float) : NP (goInt x) := by unfold goInt; np
macro_rules | `(tactic| np_lem) => `(tactic| exact goInt_np _)
theorem numberOf_np (t : Tok) : NP (numberOf t) := by unfold numberOf; np
macro_rules | `(tactic| np_lem) => `(tactic| exact numberOf_np _)

theorem Frag.ident_inv {n : Node} (h : Frag n) (hn : n.name = "identifier") :
    ∃ (t : Tok) (kids : List Node), n.tok = some t ∧ n.children = kids.map some ∧ ∀ c, c ∈ kids → Link c := by
  cases h <;> first | exact ⟨_, _, by assumption, by assumption, by assumption⟩ | simp_all

/-- a node on which a call can be resolved: an access path one of whose links is a call -/
def Good (cn : Node) : Prop :=
  ∃ (t : Tok) (kids : List Node), cn.tok = some t ∧ cn.children = kids.map some ∧ (∀ c, c ∈ kids → Link c) ∧
    ∃ fc, fc ∈ kids ∧ fc.name = "funccall"
def AccQ (r : Option Node × List Nat) : Prop := ∀ cn, r.1 = some cn → Good cn
/-- loop invariant of `accessString` (the early-return slot of the loop state) -/
def AccP (st : Option (Option Node × List Nat) × List Nat × Nat) : Prop := ∀ r, st.1 = some r → AccQ r

theorem Frag.list_inv {n : Node} (h : Frag n) (hn : n.name = "list") :
    ∃ kids : List Node, n.children = kids.map some ∧ (∀ c, c ∈ kids → Frag c) ∧
      (∀ c, c ∈ kids → ∃ tc, c.tok = some tc) := by
  cases h <;> first | exact ⟨_, by assumption, by assumption, by assumption⟩ | simp_all
theorem Frag.let_inv {n : Node} (h : Frag n) (hn : n.name = "let") : ∃ lv, n.children = [some lv] ∧ Frag lv := by
  cases h <;> simp_all
theorem tokOf_np (n : Node) (h : ∃ t, n.tok = some t) : NP (tokOf n) := by
  obtain ⟨t, ht⟩ := h
  simp [tokOf, ht]; np
macro_rules | `(tactic| np_lem) => `(tactic| exact tokOf_np _ (by solve_by_elim (maxDepth := 4)))
theorem Frag.ident_tok {n : Node} (h : Frag n) (hn : n.name = "identifier") : ∃ t, n.tok = some t := by
  obtain ⟨t, _, ht, _⟩ := Frag.ident_inv h hn
  exact ⟨t, ht⟩
macro_rules | `(tactic| np_lem) => `(tactic| exact tokOf_np _ (Frag.ident_tok (by solve_by_elim (maxDepth := 4)) (by assumption)))

/-! ### control-flow combinators -/
theorem ifChain_np : ∀ (l : List (M Val × M Val)), (∀ p, p ∈ l → NP p.1 ∧ NP p.2) → NP (ifChain l) := by
  intro l; induction l with
  | nil => intro _; unfold ifChain; np
  | cons p rest ih =>
    intro h
    obtain ⟨g, b⟩ := p
    unfold ifChain
    refine NPQ.bind _ _ (fun _ => True) _ (h (g, b) (by simp)).1 (fun v _ => ?_)
    split
    · exact (h (g, b) (by simp)).2
    · exact ih (fun p hp => h p (by simp [hp]))

theorem guardLoop_np (guard body : M Val) (hg : NP guard) (hb : NP body) : ∀ k, NP (guardLoop guard body k) := by
  intro k; induction k with
  | zero => unfold guardLoop; np
  | succ k ih =>
    unfold guardLoop
    refine NPQ.bind _ _ _ _ (NPQ.attemptE _ _ hg) (fun r hr => ?_)
    split
    · refine NPQ.bind _ _ _ _ (NPQ.attemptE _ _ hb) (fun r2 hr2 => ?_)
      split
      · exact ih
      · next e =>
        have he : e ≠ Sig.panic := hr2
        np
    · np
    · next e =>
      have he : e ≠ Sig.panic := hr
      np

/-- `match ← attemptE m with | .ok _ => … | .error e => …` where the error branch may rethrow `e` -/
macro "np_att " h:term : tactic => `(tactic| (
  refine NPQ.bind _ _ _ _ (NPQ.attemptE _ _ $h) (fun r hr => ?_)
  cases r with
  | ok a => dsimp only []; np
  | error e => have he : e ≠ Sig.panic := hr; dsimp only []; np))

theorem iterLoop_np {σ : Type} (next : σ → M (Val × σ)) (bnd : Val → M Unit) (body : M Val)
    (hn : ∀ s, NP (next s)) (hb : ∀ v, NP (bnd v)) (hbody : NP body) : ∀ k s, NP (iterLoop next bnd body k s) := by
  intro k; induction k with
  | zero => intro s; unfold iterLoop; np
  | succ k ih =>
    intro s
    unfold iterLoop
    refine NPQ.bind _ _ _ _ (NPQ.attemptE _ _ (hn s)) (fun r hr => ?_)
    cases r with
    | ok p =>
      obtain ⟨v, s'⟩ := p
      dsimp only []
      refine NPQ.bind _ _ (fun _ => True) _ (hb v) (fun _ _ => ?_)
      np_att hbody
    | error e => have he : e ≠ Sig.panic := hr; dsimp only []; np

theorem bindLoopVars_np (ls : Nat) (n : Node) (vars : List (List Nat)) (item : Val) : NP (bindLoopVars ls n vars item) := by
  unfold bindLoopVars; np

theorem dispatchExcept_np : ∀ (hs : List Handler), (∀ h, h ∈ hs → ∀ e, NP (h e)) → ∀ e, e ≠ Sig.panic → NP (dispatchExcept hs e) := by
  intro hs; induction hs with
  | nil => intro _ e he; unfold dispatchExcept; exact NPQ.throw _ _ he
  | cons h hs ih =>
    intro hh e he
    unfold dispatchExcept
    refine NPQ.bind _ _ (fun _ => True) _ (hh h (by simp) e) (fun r _ => ?_)
    split
    · np
    · exact ih (fun h' hm => hh h' (by simp [hm])) e he

theorem tryCore_np (body : M Val) (handlers : List Handler) (oth : Option (M Val)) (hb : NP body)
    (hh : ∀ h, h ∈ handlers → ∀ e, NP (h e)) (ho : ∀ o, oth = some o → NP o) : NP (tryCore body handlers oth) := by
  unfold tryCore
  refine NPQ.bind _ _ _ _ (NPQ.attemptE _ _ hb) (fun r hr => ?_)
  cases r with
  | ok v =>
    dsimp only []
    split
    · rename_i o; exact NPQ.bind _ _ (fun _ => True) _ (ho o rfl) (fun _ _ => NPQ.pure _ _ trivial)
    · np
  | error e =>
    have he : e ≠ Sig.panic := hr
    dsimp only []
    split
    · np
    · exact dispatchExcept_np handlers hh e he

theorem tryFinally_np (main : M Val) (fin : Option (M Val)) (hm : NP main) (hf : ∀ fi, fin = some fi → NP fi) :
    NP (Ecal.Ev.tryFinally main fin) := by
  unfold Ecal.Ev.tryFinally
  refine NPQ.bind _ _ _ _ (NPQ.attemptE _ _ hm) (fun r hr => ?_)
  dsimp only []
  cases r with
  | ok v =>
    split
    · rename_i fi; have hfi := hf fi rfl; np
    · np
  | error e =>
    have he : e ≠ Sig.panic := hr
    split
    · rename_i fi; have hfi := hf fi rfl; np
    · np

theorem typedMatch_np (ty : String) (f : List Nat → String) : ∀ (l : List (M Val)), (∀ m, m ∈ l → NP m) → NP (typedMatch ty f l) := by
  intro l; induction l with
  | nil => intro _; unfold typedMatch; np
  | cons m ms ih =>
    intro h
    have hm := h m (by simp)
    have ih' := ih (fun m' hm' => h m' (by simp [hm']))
    unfold typedMatch; np

theorem errObject_np (e : Sig) : NP (errObject e) := by unfold errObject; np
macro_rules | `(tactic| np_lem) => `(tactic| exact errObject_np _)

theorem withFreshIs_np {α : Type} (m : M α) (hm : NP m) : NP (withFreshIs m) := by
  unfold withFreshIs
  refine NPQ.bind (get : M St) _ Inv _ NPQ.get (fun s hs => ?_)
  dsimp only []
  refine NPQ.bind _ _ (fun _ => True) _ (NPQ.set _ hs) (fun _ _ => ?_)
  refine NPQ.bind _ _ _ _ (NPQ.attemptE _ _ hm) (fun r hr => ?_)
  refine NPQ.bind _ _ (fun _ => True) _ (NPQ.modify _ (fun _ h => h)) (fun _ _ => ?_)
  cases r with
  | ok v => np
  | error e =>
    have he : e ≠ Sig.panic := hr
    np

theorem scopeName_np (n : Node) (t : Tok) (ht : n.tok = some t) : NP (scopeName n) := by
  unfold scopeName; simp [tokOf, ht]; np

theorem Frag.in_inv {n : Node} (h : Frag n) (hn : n.name = "in") :
    ∃ a b : Node, n.children = [some a, some b] ∧ Frag a ∧ Frag b := by
  cases h <;> first | exact ⟨_, _, by assumption, by assumption, by assumption⟩ | simp_all

theorem Frag.as_inv {n : Node} (h : Frag n) (hn : n.name = "as") :
    ∃ v : Node, n.children = [some v] ∧ Frag v ∧ ∃ tv, v.tok = some tv := by
  cases h <;> first | exact ⟨_, by assumption, by assumption, by assumption⟩ | simp_all

theorem getLast?_cons_append_singleton {α : Type} (a : α) (l : List α) (x : α) : (a :: (l ++ [x])).getLast? = some x := by
  induction l generalizing a with
  | nil => rfl
  | cons b l ih => rw [List.cons_append, List.getLast?_cons_cons]; exact ih b

/-! ### builtins on the heap (the Eval-side builtins the correspondence compares) -/
theorem prettyArg_np (v : Val) : NP (prettyArg v) := by unfold prettyArg; np
macro_rules | `(tactic| np_lem) => `(tactic| exact prettyArg_np _)
theorem goSyntax_np : ∀ (g : Nat) (v : Val), NP (goSyntax g v) := by
  intro g; induction g with
  | zero => intro v; unfold goSyntax; np
  | succ g ih => intro v; unfold goSyntax; np
macro_rules | `(tactic| np_lem) => `(tactic| exact goSyntax_np _ _)
theorem numParamB_np (i : Nat) (v : Val) : NP (numParamB i v) := by unfold numParamB; np
macro_rules | `(tactic| np_lem) => `(tactic| exact numParamB_np _ _)
theorem lenB_np (args : List Val) : NP (lenB args) := by unfold lenB; np
theorem delAt_np (r l i : Nat) : NP (delAt r l i) := by unfold delAt; np
macro_rules | `(tactic| np_lem) => `(tactic| exact delAt_np _ _ _)
theorem delB_np (args : List Val) : NP (delB args) := by unfold delB; np
theorem insertAt_np (r l : Nat) (v : Val) (i : Nat) : NP (insertAt r l v i) := by unfold insertAt; np
macro_rules | `(tactic| np_lem) => `(tactic| exact insertAt_np _ _ _ _)
theorem appendNew_np (r l : Nat) (v : Val) : NP (appendNew r l v) := by unfold appendNew; np
macro_rules | `(tactic| np_lem) => `(tactic| exact appendNew_np _ _ _)
theorem addB_np (args : List Val) : NP (addB args) := by unfold addB; np
theorem concatGo_np : ∀ (l : List Val) (cur : Val), NP (concatGo l cur) := by
  intro l; induction l with
  | nil => intro cur; unfold concatGo; np
  | cons a rest ih => intro cur; unfold concatGo; np
macro_rules | `(tactic| np_lem) => `(tactic| exact concatGo_np _ _)
theorem concatB_np (args : List Val) : NP (concatB args) := by unfold concatB; np

theorem bindToObject_np (obj : Nat) (sup : Option Val) (id : Nat) : NP (bindToObject obj sup id) := by
  unfold bindToObject
  refine NPQ.bind (get : M St) _ Inv _ NPQ.get (fun s hs => ?_)
  split
  · rename_i fr hfr
    have hmem : fr ∈ s.funcs.toList := Array.mem_toList_iff.mpr (Array.mem_of_getElem? hfr)
    have hfd := hs.1 fr hmem
    refine NPQ.bind _ _ (fun x => x = fr) _ (NPQ.pure _ _ rfl) (fun fr' hfr' => ?_)
    subst hfr'
    refine NPQ.bind (get : M St) _ Inv _ NPQ.get (fun s2 hs2 => ?_)
    refine NPQ.bind _ _ (fun _ => True) _ (NPQ.set _ ?_) (fun _ _ => by np)
    refine ⟨?_, hs2.2⟩
    intro fr2 hfr2
    simp only [Array.toList_push, List.mem_append, List.mem_singleton] at hfr2
    rcases hfr2 with h | h
    · exact hs2.1 fr2 h
    · subst h; exact hfd
  · exact NPQ.bind _ _ (fun _ => False) _ (NPQ.throw _ _ (by simp)) (fun _ h => h.elim)
macro_rules | `(tactic| np_lem) => `(tactic| exact bindToObject_np _ _ _)
theorem copyProp_np (obj : Nat) (is : List Val) (k v : Val) : NP (copyProp obj is k v) := by unfold copyProp; np
macro_rules | `(tactic| np_lem) => `(tactic| exact copyProp_np _ _ _ _)
theorem copyProps_np (obj : Nat) (is : List Val) : ∀ (l : List (Val × Val)) (i : Val), NP (copyProps obj is l i) := by
  intro l; induction l with
  | nil => intro i; unfold copyProps; np
  | cons p rest ih => intro i; obtain ⟨k, v⟩ := p; unfold copyProps; np
macro_rules | `(tactic| np_lem) => `(tactic| exact copyProps_np _ _ _ _)

/-- the Go error variable carried through `new`: never a panic -/
def ErrOK (o : Option Sig) : Prop := ∀ e, o = some e → e ≠ Sig.panic

theorem superLoop_np (rec : Nat → M (Val × Option Sig)) (hrec : ∀ sr, NPQ (rec sr) (fun r => ErrOK r.2)) :
    ∀ (l : List Val) (err : Option Sig) (acc : List Val), ErrOK err → NPQ (superLoop rec l err acc) (fun r => ErrOK r.1) := by
  intro l; induction l with
  | nil => intro err acc he; unfold superLoop; exact NPQ.pure _ _ he
  | cons x rest ih =>
    intro err acc he
    cases x with
    | map sr =>
      unfold superLoop
      refine NPQ.bind _ _ _ _ (hrec sr) (fun r hr => ?_)
      exact ih _ _ hr
    | null => unfold superLoop; exact ih _ _ he
    | bool b => unfold superLoop; exact ih _ _ he
    | num f => unfold superLoop; exact ih _ _ he
    | str s => unfold superLoop; exact ih _ _ he
    | list r l => unfold superLoop; exact ih _ _ he
    | func id => unfold superLoop; exact ih _ _ he
    | builtin n => unfold superLoop; exact ih _ _ he
    | «opaque» w => unfold superLoop; exact ih _ _ he

theorem addSuperClasses_np : ∀ (g obj : Nat) (path : List Nat) (tr : Nat),
    NPQ (addSuperClasses g obj path tr) (fun r => ErrOK r.2) := by
  intro g; induction g with
  | zero => intro obj path tr; unfold addSuperClasses; exact NPQ.throw _ _ (by simp)
  | succ g ih =>
    intro obj path tr
    unfold addSuperClasses
    split
    · exact NPQ.pure _ _ (by intro e h; cases h; simp [plain])
    · refine NPQ.bind _ _ (fun _ => True) _ (getMap_np _) (fun tkvs _ => ?_)
      refine NPQ.bind _ _ (fun r => ErrOK r.1) _ ?_ (fun r hr => ?_)
      · split
        · refine NPQ.bind _ _ (fun _ => True) _ (getList_np _ _) (fun xs _ => ?_)
          exact superLoop_np _ (ih obj (tr :: path)) _ _ _ (by intro e h; cases h)
        · exact NPQ.pure _ _ (by intro e h; cases h; simp [plain])
        · exact NPQ.pure _ _ (by intro e h; cases h)
      · obtain ⟨err, initSuper⟩ := r
        refine NPQ.bind _ _ (fun _ => True) _ (copyProps_np _ _ _ _) (fun _ _ => ?_)
        exact NPQ.pure _ _ hr

theorem newB_np (runInit : Nat → List Val → M Val) (hinit : ∀ id rest, NP (runInit id rest)) (args : List Val) :
    NP (newB runInit args) := by
  unfold newB
  split
  · refine NPQ.bind _ _ (fun _ => True) _ (newMap_np _) (fun obj _ => ?_)
    dsimp only []
    refine NPQ.bind _ _ (fun r => ErrOK r.2) _ (addSuperClasses_np _ _ _ _) (fun r hr => ?_)
    obtain ⟨x, err⟩ := r
    refine NPQ.bind _ _ (fun _ => True) _ (getMap_np _) (fun kvs _ => ?_)
    refine NPQ.bind _ _ ErrOK _ ?_ (fun err2 herr2 => ?_)
    · split
      · refine NPQ.bind _ _ _ _ (NPQ.attemptE _ _ (hinit _ _)) (fun r2 hr2 => ?_)
        cases r2 with
        | ok v => exact NPQ.pure _ _ (by intro e h; cases h)
        | error e =>
          have he : e ≠ Sig.panic := hr2
          dsimp only []
          split
          · exact NPQ.throw _ _ he
          · exact NPQ.pure _ _ (by intro e' h; cases h; exact he)
      · exact NPQ.pure _ _ hr
    · split
      · rename_i e; exact NPQ.throw _ _ (herr2 e rfl)
      · np
  · np
  · np

theorem Frag.func_inv {n : Node} (h : Frag n) (hn : n.name = "function") :
    ∃ (params body : Node) (ps : List Node), params.children = ps.map some ∧ (∀ p, p ∈ ps → Param p) ∧ Frag body ∧
      ((∃ c0 : Node, n.children = [some c0, some params, some body] ∧ c0.name = "identifier") ∨
       (n.children = [some params, some body] ∧ params.name ≠ "identifier")) := by
  cases h <;> first
    | exact ⟨_, _, _, by assumption, by assumption, by assumption, Or.inl ⟨_, by assumption, by assumption⟩⟩
    | exact ⟨_, _, _, by assumption, by assumption, by assumption, Or.inr ⟨by assumption, by assumption⟩⟩
    | simp_all

theorem callCore_np (body : M Val) (hb : NP body) : NP (callCore body) := by
  unfold callCore; np

theorem bindParamNodes_np (evalDefault : Node → M Val) (hd : ∀ d, Frag d → NP (evalDefault d)) (fvs : Nat) :
    ∀ (ps : List Node), (∀ p, p ∈ ps → Param p) → ∀ i args, NP (bindParamNodes evalDefault fvs (ps.map some) i args) := by
  intro ps; induction ps with
  | nil => intro _ i args; simp only [List.map_nil]; unfold bindParamNodes; np
  | cons p ps ih =>
    intro hps i args
    simp only [List.map_cons]
    unfold bindParamNodes
    refine NPQ.bind _ _ (fun _ => True) _ ?_ (fun _ _ => ih (fun q hq => hps q (by simp [hq])) _ _)
    unfold bindParamNode
    cases hps p (by simp) with
    | name p t hn ht => simp [hn, tokOf, ht]; np
    | preset p nm d t hn hc ht fd =>
      have hdd := hd d fd
      simp [hn, hc, child, tokOf, ht]; np
    | other p hn => simp [hn.1, hn.2]; np

theorem buildFrame_np (evalDefault : Node → M Val) (hd : ∀ d, Frag d → NP (evalDefault d)) (fr : FuncRec)
    (ps : List Node) (hps : ∀ p, p ∈ ps → Param p) (args : List Val) : NP (buildFrame evalDefault fr (ps.map some) args) := by
  have hb := bindParamNodes_np evalDefault hd
  unfold buildFrame bindContext
  np

/-- the call link of a resolvable node, for any predicate `p` that recognises `funccall` children: what
    `find? p` returns is a call link whose arguments are in the fragment … -/
theorem Good.find_some {cn : Node} (h : Good cn) (p : Option Node → Bool) (hp : ∀ c, p (some c) = (c.name == "funccall"))
    (fc : Node) (hf : cn.children.find? p = some (some fc)) :
    ∃ args : List Node, fc.children = args.map some ∧ ∀ a, a ∈ args → Frag a := by
  obtain ⟨t, kids, _, hc, hl, _⟩ := h
  have hmem := List.mem_of_find?_eq_some hf
  have hpx := List.find?_some hf
  rw [hc] at hmem
  obtain ⟨fc', hfcm, hfe⟩ := List.mem_map.mp hmem
  cases hfe
  have hn : fc.name = "funccall" := by rw [hp] at hpx; simpa using hpx
  cases hl fc hfcm with
  | comp c e hn' hc' fe => simp_all
  | field c t kids hn' ht hc' hl' => simp_all
  | call c args hn' hc' ha => exact ⟨args, hc', ha⟩
  | other c hn' => exact absurd hn hn'.2.2

/-- … and it always returns one -/
theorem Good.find_none {cn : Node} (h : Good cn) (p : Option Node → Bool) (hp : ∀ c, p (some c) = (c.name == "funccall"))
    (hne : ∀ fc, cn.children.find? p = some (some fc) → False) : False := by
  obtain ⟨t, kids, _, hc, hl, fc0, hfc0, hn0⟩ := h
  cases hf : cn.children.find? p with
  | none =>
    have := List.find?_eq_none.mp hf (some fc0) (by rw [hc]; exact List.mem_map.mpr ⟨fc0, hfc0, rfl⟩)
    rw [hp] at this
    simp [hn0] at this
  | some x =>
    cases x with
    | some fc => exact hne fc hf
    | none =>
      have hmem := List.mem_of_find?_eq_some hf
      rw [hc] at hmem
      obtain ⟨_, _, hfe⟩ := List.mem_map.mp hmem
      cases hfe

theorem wrapCallErr_ne_panic (node : Node) (e : Sig) (he : e ≠ Sig.panic) : wrapCallErr node e ≠ Sig.panic := by
  unfold wrapCallErr
  split
  · split <;> exact rtErr_ne_panic _ _
  · exact he

abbrev IH (g : Nat) : Prop := ∀ g', g' < g → ∀ sc n, Frag n → NP (eval g' sc n)

section ops
variable (g : Nat) (ihs : ∀ g', g' ≤ g → ∀ sc n, Frag n → NP (eval g' sc n))
include ihs

theorem numVal_step (sc : Nat) (n c : Node) (hc : n.children = [some c]) (fc : Frag c) (op : Float → Float) :
    NP (numVal (g+1) sc n op) := by
  have ih := ihs g (Nat.le_refl g)
  unfold numVal; simp [hc, child]; np
theorem numOp_step (sc : Nat) (n a b : Node) (hc : n.children = [some a, some b]) (fa : Frag a) (fb : Frag b)
    (op : Float → Float → Val) : NP (numOp (g+1) sc n op) := by
  have ih := ihs g (Nat.le_refl g)
  unfold numOp; simp [hc, child]; np
theorem numOp_any (sc : Nat) (n a b : Node) (hc : n.children = [some a, some b]) (fa : Frag a) (fb : Frag b)
    (op : Float → Float → Val) : NP (numOp g sc n op) := by
  cases g with
  | zero => unfold numOp; np
  | succ g' => exact numOp_step g' (fun g'' h => ihs g'' (by omega)) sc n a b hc fa fb op
theorem boolOp_step (sc : Nat) (n a b : Node) (hc : n.children = [some a, some b]) (fa : Frag a) (fb : Frag b)
    (op : Bool → Bool → Bool) : NP (boolOp (g+1) sc n op) := by
  have ih := ihs g (Nat.le_refl g)
  unfold boolOp; simp [hc, child]; np
theorem strOp_step (sc : Nat) (n a b : Node) (hc : n.children = [some a, some b]) (fa : Frag a) (fb : Frag b)
    (op : List Nat → List Nat → Bool) : NP (strOp (g+1) sc n op) := by
  have ih := ihs g (Nat.le_refl g)
  unfold strOp; simp [hc, child]; np
theorem inOp_step (sc : Nat) (n a b : Node) (hc : n.children = [some a, some b]) (fa : Frag a) (fb : Frag b) :
    NP (inOp (g+1) sc n) := by
  have ih := ihs g (Nat.le_refl g)
  unfold inOp; simp [hc, child]; np
theorem cmpOp_step (sc : Nat) (n a b : Node) (hc : n.children = [some a, some b]) (fa : Frag a) (fb : Frag b)
    (nop : Float → Float → Bool) (sop : List Nat → List Nat → Bool) : NP (cmpOp (g+1) sc n nop sop) := by
  have ih := ihs g (Nat.le_refl g)
  unfold cmpOp
  refine NPQ.bind _ _ _ _ (NPQ.attemptE _ _ (numOp_any g ihs sc n a b hc fa fb _)) (fun r hr => ?_)
  cases r with
  | ok v => np
  | error e =>
    have he : e ≠ Sig.panic := hr
    simp [hc, child]; np
theorem numVal_any (sc : Nat) (n c : Node) (hc : n.children = [some c]) (fc : Frag c) (op : Float → Float) : NP (numVal g sc n op) := by
  cases g with
  | zero => unfold numVal; np
  | succ g' => exact numVal_step g' (fun g'' h => ihs g'' (by omega)) sc n c hc fc op
theorem boolOp_any (sc : Nat) (n a b : Node) (hc : n.children = [some a, some b]) (fa : Frag a) (fb : Frag b) (op : Bool → Bool → Bool) : NP (boolOp g sc n op) := by
  cases g with
  | zero => unfold boolOp; np
  | succ g' => exact boolOp_step g' (fun g'' h => ihs g'' (by omega)) sc n a b hc fa fb op
theorem strOp_any (sc : Nat) (n a b : Node) (hc : n.children = [some a, some b]) (fa : Frag a) (fb : Frag b) (op : List Nat → List Nat → Bool) : NP (strOp g sc n op) := by
  cases g with
  | zero => unfold strOp; np
  | succ g' => exact strOp_step g' (fun g'' h => ihs g'' (by omega)) sc n a b hc fa fb op
theorem cmpOp_any (sc : Nat) (n a b : Node) (hc : n.children = [some a, some b]) (fa : Frag a) (fb : Frag b) (nop : Float → Float → Bool) (sop : List Nat → List Nat → Bool) : NP (cmpOp g sc n nop sop) := by
  cases g with
  | zero => unfold cmpOp; np
  | succ g' => exact cmpOp_step g' (fun g'' h => ihs g'' (by omega)) sc n a b hc fa fb nop sop
theorem inOp_any (sc : Nat) (n a b : Node) (hc : n.children = [some a, some b]) (fa : Frag a) (fb : Frag b) : NP (inOp g sc n) := by
  cases g with
  | zero => unfold inOp; np
  | succ g' => exact inOp_step g' (fun g'' h => ihs g'' (by omega)) sc n a b hc fa fb
omit ihs in
theorem accP_done (cn : Node) (p res : List Nat) (i : Nat) (h : Good cn) :
    AccP (stepVal (ForInStep.done (some (some cn, p), res, i))) := by
  intro r hr c hc
  simp only [stepVal, Option.some.injEq] at hr
  subst hr
  simp only [Option.some.injEq] at hc
  subst hc
  exact h
theorem accessString_any (sc : Nat) : ∀ k, k ≤ g + 1 → ∀ (n : Node) (tn : Tok) (kids : List Node) (pre : List Nat),
    n.tok = some tn → n.children = kids.map some → (∀ c, c ∈ kids → Link c) → NPQ (accessString k sc n pre) AccQ := by
  intro k; induction k with
  | zero => intro _ n tn kids pre _ _ _; unfold accessString; exact NPQ.throw _ _ (by simp)
  | succ k ihk =>
    intro hk n tn kids pre htn hc hl
    have ihk' := ihk (by omega)
    have ihe := ihs k (by omega)
    unfold accessString
    refine NPQ.bind _ _ AccP _ ?_ (fun st hst => ?_)
    · rw [hc]
      refine NPQ.forInP AccP _ _ (fun a ha b hb => ?_) _ (by intro r hr; cases hr)
      obtain ⟨c, hcm, rfl⟩ := List.mem_map.mp ha
      have hyield : ∀ (res : List Nat) (i : Nat), AccP (stepVal (ForInStep.yield ((none : Option (Option Node × List Nat)), res, i))) := by
        intro res i r hr; cases hr
      cases hl c hcm with
      | comp c e hn hcc fe =>
        simp [hn, hcc, child]
        np
        all_goals first | exact NPQ.pure _ _ (hyield _ _) | skip
        rename_i nx heq hfc
        have hm : nx ∈ kids := by
          have : kids[b.snd.snd + 1]? = some nx := by simpa using heq
          exact List.mem_of_getElem? this
        exact NPQ.pure _ _ (accP_done _ _ _ _ ⟨tn, kids, htn, hc, hl, nx, hm, hfc⟩)
      | field c t ckids hn ht hcc hlc =>
        simp [hn, hcc, tokOf, ht]
        cases ckids with
        | nil => simp; exact NPQ.pure _ _ (hyield _ _)
        | cons g0 rest =>
          simp
          split
          · rename_i hfc
            exact NPQ.pure _ _ (accP_done _ _ _ _ ⟨t, g0 :: rest, ht, hcc, hlc, g0, by simp, hfc⟩)
          · refine NPQ.bind _ _ AccQ _ (ihk' c t (g0 :: rest) _ ht hcc hlc) (fun x hx => ?_)
            split
            · refine NPQ.pure _ _ ?_
              intro r hr
              simp only [stepVal, Option.some.injEq] at hr
              subst hr
              exact hx
            · exact NPQ.pure _ _ (hyield _ _)
      | call c args hn hcc ha =>
        simp [hn]
        exact NPQ.pure _ _ (hyield _ _)
      | other c hn =>
        simp [hn.1, hn.2.1]
        exact NPQ.pure _ _ (hyield _ _)
    · dsimp only []
      split
      · next r hr => exact NPQ.pure _ _ (hst r hr)
      · exact NPQ.pure _ _ (by intro cn h; cases h)
theorem identSet_any (sc : Nat) (n : Node) (fn : Frag n) (hn : n.name = "identifier") (v : Val) :
    ∀ k, k ≤ g + 2 → NP (identSet k sc n v) := by
  intro k hk
  obtain ⟨t, kids, ht, hc, hl⟩ := Frag.ident_inv fn hn
  cases k with
  | zero => unfold identSet; np
  | succ k =>
    unfold identSet; simp [tokOf, ht]
    split
    · np
    · refine NPQ.bind _ _ AccQ _ (accessString_any g ihs sc k (by omega) n t kids _ ht hc hl) (fun x _ => ?_)
      np
set_option hygiene false in
/-- the part of `evalAssign` after the left side `lhs'` (a `Frag` node, proof `$fl'`) is known -/
macro "assign_tail " fl':term : tactic => `(tactic| (
  refine NPQ.bind _ _ (fun ts => ∀ b, b ∈ ts → Frag b ∧ b.name = "identifier") _ ?_ (fun targets hts => ?_)
  · split
    · rename_i hid; exact NPQ.pure _ _ (by intro b hb; simp at hb; subst hb; exact ⟨$fl', hid⟩)
    · split
      · rename_i hli
        obtain ⟨lk, hlk, hlf, _⟩ := Frag.list_inv $fl' hli
        rw [hlk]
        refine NPQ.mapMQ _ _ _ (fun a ha => ?_)
        obtain ⟨c, hcm, rfl⟩ := List.mem_map.mp ha
        dsimp only []
        split
        · rename_i hci; exact NPQ.pure _ _ ⟨hlf c hcm, hci⟩
        · exact NPQ.throw _ _ (rtErr_ne_panic _ _)
      · exact NPQ.throw _ _ (rtErr_ne_panic _ _)
  · refine NPQ.bind _ _ (fun _ => True) _ (ih sc lhs fl) (fun _ _ => ?_)
    refine NPQ.bind _ _ (fun _ => True) _ (ih sc rhs fr) (fun v _ => ?_)
    split
    · split
      · exact NPQ.map _ _ (identSet_any g ihs sc _ (hts _ (by simp)).1 (hts _ (by simp)).2 _ g (by omega))
      · np
    · split
      · refine NPQ.bind _ _ (fun _ => True) _ (getList_np _ _) (fun vs _ => ?_)
        split
        · refine NPQ.map _ _ ?_
          refine NPQ.forIn _ _ (fun x hx _ => ?_) _
          have hx1 := (List.of_mem_zip hx).1
          refine NPQ.bind _ _ _ _ (NPQ.attemptE _ _ (identSet_any g ihs sc _ (hts _ hx1).1 (hts _ hx1).2 _ g (by omega))) (fun r hr => ?_)
          cases r with
          | ok a => dsimp only []; np
          | error e => have he : e ≠ Sig.panic := hr; dsimp only []; np
        · np
      · np))

theorem evalAssign_step (sc : Nat) (n lhs rhs : Node) (hc : n.children = [some lhs, some rhs])
    (fl : Frag lhs) (fr : Frag rhs) : NP (evalAssign (g+1) sc n) := by
  have ih := ihs g (Nat.le_refl g)
  unfold evalAssign; simp [hc, child]
  split
  · rename_i hlet
    obtain ⟨lv, hlv, flv⟩ := Frag.let_inv fl hlet
    simp [hlv]
    assign_tail flv
  · assign_tail fl
theorem evalIdent_step (sc : Nat) (n : Node) (t : Tok) (kids : List Node) (ht : n.tok = some t)
    (hc : n.children = kids.map some) (hl : ∀ c, c ∈ kids → Link c)
    (hcall : ∀ sc node path fv, Good node → NP (callFunction g sc node path fv)) :
    NP (evalIdent (g+1) sc n) := by
  unfold evalIdent; simp [tokOf, ht]
  split
  · np
  · refine NPQ.bind _ _ AccQ _ (accessString_any g ihs sc g (by omega) n t kids _ ht hc hl) (fun x hx => ?_)
    split
    · np
    · split
      · rename_i cn hcn
        split
        · refine NPQ.bind _ _ (fun _ => True) _ (getValue_np _ _) (fun _ _ => ?_)
          exact hcall _ _ _ _ (hx cn hcn)
        · np
      · refine NPQ.bind _ _ (fun _ => True) _ (getValue_np _ _) (fun _ _ => ?_)
        split
        · rename_i hany
          split
          · rename_i v0 hv0
            refine hcall _ _ _ _ ⟨t, kids, ht, hc, hl, ?_⟩
            obtain ⟨y, hy, hy2⟩ := hany
            rw [hv0] at hy
            simp only [List.mem_singleton] at hy
            subst hy
            have : some v0 ∈ List.map some kids := by rw [← hc, hv0]; simp
            obtain ⟨k0, hk0, hk1⟩ := List.mem_map.mp this
            cases hk1
            exact ⟨v0, hk0, by simpa using hy2⟩
          · np
        · np
theorem evalIdent_any (sc : Nat) (n : Node) (t : Tok) (kids : List Node) (ht : n.tok = some t)
    (hc : n.children = kids.map some) (hl : ∀ c, c ∈ kids → Link c)
    (hcall : ∀ k, k ≤ g → ∀ sc node path fv, Good node → NP (callFunction k sc node path fv)) :
    NP (evalIdent g sc n) := by
  cases g with
  | zero => unfold evalIdent; np
  | succ g' => exact evalIdent_step g' (fun g'' h => ihs g'' (by omega)) sc n t kids ht hc hl (hcall g' (by omega))
theorem exceptHandler_step (sc : Nat) (c : Node) (t : Tok) (kids : List Node) (ht : c.tok = some t)
    (hc : c.children = kids.map some) (hne : kids ≠ []) (hk : ∀ k, k ∈ kids → Frag k)
    (hfirst : ∀ k0 k1 rest, kids = k0 :: k1 :: rest → ∃ t0, k0.tok = some t0) (e : Sig) :
    NP (exceptHandler (g+1) sc c e) := by
  have ih := ihs g (Nat.le_refl g)
  have hsn := scopeName_np c t ht
  unfold exceptHandler
  dsimp only []
  obtain ⟨k0, krest, rfl⟩ := List.exists_cons_of_ne_nil hne
  have f0 : Frag k0 := hk k0 (by simp)
  cases krest with
  | nil => simp [hc, child]; np
  | cons k1 krest =>
    have f1 : Frag k1 := hk k1 (by simp)
    have h0t := hfirst k0 k1 krest rfl
    simp [hc, child]
    split
    · -- binding form `except e { }` / `except as e { }`
      by_cases has : k0.name = "as"
      · obtain ⟨v, hv, fv, hvt⟩ := Frag.as_inv f0 has
        simp [has, hv, child]; np
      · simp [has]; np
    · -- typed clause
      refine NPQ.bind _ _ (fun r => ∀ b, b ∈ r → Frag b) _ ?_ (fun kids' hk' => ?_)
      · refine NPQ.mapMQ Frag krest _ (fun a ha => ?_)
        simp only [Function.comp_apply]
        exact NPQ.pure _ _ (hk a (by simp [ha]))
      · have hfull : ∀ b, b ∈ k0 :: k1 :: kids' → Frag b := by
          intro b hb
          simp only [List.mem_cons] at hb
          rcases hb with hb | hb | hb
          · subst hb; exact f0
          · subst hb; exact f1
          · exact hk' b hb
        have hdrop : ∀ b, b ∈ List.dropWhile (fun x => x.name == "string") (k0 :: k1 :: kids') → Frag b :=
          fun b hb => hfull b ((List.dropWhile_sublist _).subset hb)
        have htake : ∀ b, b ∈ List.takeWhile (fun x => x.name == "string") (k0 :: k1 :: kids') → Frag b :=
          fun b hb => hfull b ((List.takeWhile_sublist _).subset hb)
        refine NPQ.bind _ _ (fun x => Frag x.2) _ ?_ (fun x hx => ?_)
        · split
          · rename_i st heq
            have fst : Frag st := hdrop st (by rw [heq]; simp)
            split
            · exact NPQ.pure _ _ fst
            · np
          · rename_i a st heq
            have fa : Frag a := hdrop a (by rw [heq]; simp)
            have fst : Frag st := hdrop st (by rw [heq]; simp)
            split
            · rename_i hcond
              have has : a.name = "as" := hcond.1
              obtain ⟨v, hv, fv, hvt⟩ := Frag.as_inv fa has
              simp [hv, child]
              refine NPQ.bind _ _ (fun _ => True) _ (tokOf_np v hvt) (fun _ _ => NPQ.pure _ _ fst)
            · split
              · exact NPQ.pure _ _ fst
              · np
          · np
        · refine NPQ.bind _ _ (fun _ => True) _ (typedMatch_np _ _ _ (by
            intro m hm
            obtain ⟨ch, hch, rfl⟩ := List.mem_map.mp hm
            exact ih sc ch (htake ch hch))) (fun _ _ => ?_)
          np
theorem exceptHandler_any (sc : Nat) (c : Node) (t : Tok) (kids : List Node) (ht : c.tok = some t)
    (hc : c.children = kids.map some) (hne : kids ≠ []) (hk : ∀ k, k ∈ kids → Frag k)
    (hfirst : ∀ k0 k1 rest, kids = k0 :: k1 :: rest → ∃ t0, k0.tok = some t0) (e : Sig) :
    NP (exceptHandler g sc c e) := by
  cases g with
  | zero => unfold exceptHandler; np
  | succ g' => exact exceptHandler_step g' (fun g'' h => ihs g'' (by omega)) sc c t kids ht hc hne hk hfirst e
theorem evalTry_step (sc : Nat) (n : Node) (t : Tok) (body : Node) (clauses : List Node) (ht : n.tok = some t)
    (hc : n.children = some body :: clauses.map some) (fb : Frag body) (hbn : body.name ≠ "finally")
    (hcl : ∀ c, c ∈ clauses → Clause c) : NP (evalTry (g+1) sc n) := by
  have ih := ihs g (Nat.le_refl g)
  unfold evalTry
  simp only [hc, List.drop_succ_cons, List.drop_zero]
  refine NPQ.bind _ _ (fun l => l.name = "finally" → ∃ (tl : Tok) (b : Node), l.tok = some tl ∧ l.children = [some b] ∧ Frag b) _ ?_ (fun last hlast => ?_)
  · rcases List.eq_nil_or_concat clauses with rfl | ⟨init, lc, rfl⟩
    · simp; exact NPQ.pure _ _ (fun h => absurd h hbn)
    · have hL : (some body :: List.map some (init.concat lc)).getLast? = some (some lc) := by
        rw [List.concat_eq_append, List.map_append]
        exact getLast?_cons_append_singleton _ _ _
      rw [hL]; dsimp only []
      refine NPQ.pure _ _ ?_
      intro hf
      cases hcl lc (by simp) with
      | exc c t kids hn ht hc hne hk hfirst => simp_all
      | blk c t b hn ht hc fb => exact ⟨t, b, ht, hc, fb⟩
      | other c hn => exact absurd hf hn.2.2
  · refine NPQ.bind _ _ (fun fin => ∀ fi, fin = some fi → NP fi) _ ?_ (fun fin hfin => ?_)
    · split
      · rename_i hfn
        obtain ⟨tl, b, htl, hcl', fbl⟩ := hlast (by simpa using hfn)
        refine NPQ.bind _ _ (fun _ => True) _ (scopeName_np last tl htl) (fun _ _ => ?_)
        refine NPQ.bind _ _ (fun _ => True) _ (newChild_np _ _) (fun fs _ => ?_)
        refine NPQ.pure _ _ ?_
        intro fi hfi
        cases hfi
        simp [child, hcl']
        exact ih _ _ fbl
      · exact NPQ.pure _ _ (by intro fi h; cases h)
    · refine tryFinally_np _ _ ?_ hfin
      refine NPQ.bind _ _ (fun _ => True) _ (scopeName_np n t ht) (fun _ _ => ?_)
      refine NPQ.bind _ _ (fun _ => True) _ (newChild_np _ _) (fun tvs _ => ?_)
      refine tryCore_np _ _ _ ?_ ?_ ?_
      · simp [hc, child]; exact ih _ _ fb
      · intro h hm e
        obtain ⟨a, ha, hha⟩ := List.mem_filterMap.mp hm
        obtain ⟨c, hcm, rfl⟩ := List.mem_map.mp ha
        dsimp only [] at hha
        split at hha
        · cases hha
          rename_i hex
          cases hcl c hcm with
          | exc c t kids hn ht hc hne hk hfirst => exact exceptHandler_any g ihs sc c t kids ht hc hne hk hfirst e
          | blk c t b hn ht hc fb => simp_all
          | other c hn => simp_all
        · cases hha
      · intro o ho
        split at ho
        · rename_i o' heq
          cases ho
          have hm : o' ∈ clauses := by
            have := List.mem_of_find?_eq_some heq
            obtain ⟨x, hx, hx'⟩ := List.mem_map.mp this
            cases hx'; exact hx
          have hname : o'.name = "otherwise" := by
            have := List.find?_some heq
            simpa using this
          cases hcl o' hm with
          | exc c t kids hn ht hc hne hk hfirst => simp_all
          | blk c t b hn ht hc' fb' =>
            refine NPQ.bind _ _ (fun _ => True) _ (scopeName_np o' t ht) (fun _ _ => ?_)
            refine NPQ.bind _ _ (fun _ => True) _ (newChild_np _ _) (fun ovs _ => ?_)
            simp [child, hc']
            exact ih _ _ fb'
          | other c hn => simp_all
        · cases ho
/-- function.Run: any entry of the function table (under `Inv`: a `Frag` declaration), any arguments -/
theorem runFunction_any (sc id : Nat) (args : List Val) : ∀ k, k ≤ g + 1 → NP (runFunction k sc id args) := by
  intro k hk
  cases k with
  | zero => unfold runFunction; np
  | succ k =>
    have ihe := ihs k (by omega)
    unfold runFunction
    refine NPQ.bind (get : M St) _ Inv _ NPQ.get (fun s hs => ?_)
    split
    · rename_i fr hfr
      have hmem : fr ∈ s.funcs.toList := by
        have := Array.mem_of_getElem? hfr
        exact Array.mem_toList_iff.mpr this
      obtain ⟨fd, hfn⟩ := hs.1 fr hmem
      obtain ⟨params, body, ps, hp, hps, fb, hshape⟩ := Frag.func_inv fd hfn
      rcases hshape with ⟨c0, hc, h0⟩ | ⟨hc, h0⟩
      · simp [hc, child, h0, hp]
        refine NPQ.bind _ _ (fun _ => True) _ (buildFrame_np _ (fun d fdd => ihe sc d fdd) fr ps hps args) (fun fvs _ => ?_)
        exact callCore_np _ (withFreshIs_np _ (ihe fvs body fb))
      · simp [hc, child, h0, hp]
        refine NPQ.bind _ _ (fun _ => True) _ (buildFrame_np _ (fun d fdd => ihe sc d fdd) fr ps hps args) (fun fvs _ => ?_)
        exact callCore_np _ (withFreshIs_np _ (ihe fvs body fb))
    · exact NPQ.bind _ _ (fun _ => False) _ (NPQ.throw _ _ (by simp)) (fun _ h => h.elim)
theorem runBuiltin_any (sc : Nat) (node : Node) (t : Tok) (ht : node.tok = some t) (b : String) (args : List Val) :
    ∀ k, k ≤ g + 2 → NP (runBuiltin k sc node b args) := by
  intro k hk
  cases k with
  | zero => unfold runBuiltin; np
  | succ k =>
    have hnew : NP (newB (fun id rest => do
        let ivs ← newScope "newfunc"
        withFreshIs (runFunction k ivs id rest)) args) :=
      newB_np _ (fun id rest => NPQ.bind _ _ (fun _ => True) _ (newScope_np _ _)
        (fun ivs _ => withFreshIs_np _ (runFunction_any g ihs ivs id rest k (by omega)))) args
    have hlen := lenB_np args
    have hdel := delB_np args
    have hadd := addB_np args
    have hcat := concatB_np args
    unfold runBuiltin
    simp only [tokOf, ht]
    np
theorem callFunction_any (sc : Nat) (node : Node) (path : List Nat) (fv : Val) (hgood : Good node) :
    ∀ k, k ≤ g + 1 → NP (callFunction k sc node path fv) := by
  intro k hk
  obtain ⟨t, _, ht, _⟩ := id hgood
  cases k with
  | zero => unfold callFunction; np
  | succ k =>
    have ihe := ihs k (by omega)
    unfold callFunction
    refine NPQ.bind _ _ (fun fc => ∃ args : List Node, fc.children = args.map some ∧ ∀ a, a ∈ args → Frag a) _ ?_ (fun fc hfc => ?_)
    · split
      · rename_i fc heq
        exact NPQ.pure _ _ (hgood.find_some _ (fun c => rfl) fc heq)
      · rename_i hne
        exact (hgood.find_none _ (fun c => rfl) (fun fc h => hne fc h)).elim
    · extract_lets pathS isLog target
      have htarget : ∀ tv, target = some tv → (∃ id, tv = Val.func id) ∨ (∃ b, tv = Val.builtin b) := by
        intro tv h
        simp only [target] at h
        repeat' split at h
        all_goals first
          | (cases h; exact Or.inr ⟨_, rfl⟩)
          | (cases h; exact Or.inl ⟨_, rfl⟩)
          | cases h
      rename_i jp
      have hjp : ∀ u, NP (jp u) := by
        intro u
        simp only [jp]
        cases htv : target with
        | none => np
        | some tv =>
          dsimp only []
          obtain ⟨args, hfcc, hargs⟩ := hfc
          rw [hfcc]
          refine NPQ.bind _ _ (fun _ => True) _ ?_ (fun argv _ => ?_)
          · refine NPQ.mapM _ _ (fun a ha => ?_)
            obtain ⟨c, hc, rfl⟩ := List.mem_map.mp ha
            dsimp only []
            exact withFreshIs_np _ (ihe sc c (hargs c hc))
          · refine NPQ.bind _ _ _ _ (NPQ.attemptE _ (fun _ => True) ?_) (fun r hr => ?_)
            · split
              · exact runFunction_any g ihs sc _ _ k (by omega)
              · exact runBuiltin_any g ihs sc node t ht _ _ k (by omega)
              · rename_i h1 h2
                rcases htarget tv htv with ⟨id, hid⟩ | ⟨b, hb⟩
                · exact (h1 id hid).elim
                · exact (h2 b hb).elim
            · cases r with
              | ok v => np
              | error e =>
                have he : e ≠ Sig.panic := hr
                exact NPQ.throw _ _ (wrapCallErr_ne_panic node e he)
      split
      · np
      · exact hjp ()
theorem ifBranches_any (sc : Nat) : ∀ (pairs : List (Node × Node)), (∀ p, p ∈ pairs → Frag p.1) → (∀ p, p ∈ pairs → Frag p.2) →
    ∀ k, k ≤ g + 1 → NPQ (ifBranches k sc (pairs.flatMap (fun p => [some p.1, some p.2])))
      (fun l => ∀ q, q ∈ l → NP q.1 ∧ NP q.2) := by
  intro pairs; induction pairs with
  | nil =>
    intro _ _ k _
    cases k with
    | zero => unfold ifBranches; exact NPQ.throw _ _ (by simp)
    | succ k => simp only [List.flatMap_nil]; unfold ifBranches; exact NPQ.pure _ _ (by intro q hq; simp at hq)
  | cons p rest ihp =>
    intro hg hb k hk
    cases k with
    | zero => unfold ifBranches; exact NPQ.throw _ _ (by simp)
    | succ k =>
      simp only [List.flatMap_cons, List.cons_append, List.nil_append]
      unfold ifBranches
      refine NPQ.bind _ _ _ _ (ihp (fun q hq => hg q (by simp [hq])) (fun q hq => hb q (by simp [hq])) k (by omega)) (fun l hl => ?_)
      refine NPQ.pure _ _ ?_
      intro q hq
      simp only [List.mem_cons] at hq
      rcases hq with hq | hq
      · subst hq
        exact ⟨ihs k (by omega) sc _ (hg p (by simp)), ihs k (by omega) sc _ (hb p (by simp))⟩
      · exact hl q hq
theorem iterNext_any (ls : Nat) (loopNode it : Node) (fit : Frag it) :
    ∀ k, k ≤ g + 1 → ∀ s, NP (iterNext k ls loopNode it s) := by
  intro k hk s
  cases k with
  | zero => unfold iterNext; np
  | succ k =>
    have ihe := ihs k (by omega)
    unfold iterNext; np
theorem evalLoop_step (sc : Nat) (n c0 body : Node) (t : Tok) (ht : n.tok = some t)
    (hc : n.children = [some c0, some body]) (f0 : Frag c0) (fb : Frag body) :
    NP (evalLoop (g+1) sc n) := by
  have ih := ihs g (Nat.le_refl g)
  by_cases hin : c0.name = "in"
  · obtain ⟨iv, it, hcc, fiv, fit⟩ := Frag.in_inv f0 hin
    unfold evalLoop; simp [hc, child, hin, hcc]
    refine NPQ.bind _ _ (fun _ => True) _ ?_ (fun vars _ => ?_)
    · split
      · np
      · split
        · rename_i hli
          obtain ⟨lk, hlk, hlf, hlt⟩ := Frag.list_inv fiv hli
          rw [hlk]
          refine NPQ.mapM _ _ (fun a ha => ?_)
          obtain ⟨c, hcm, rfl⟩ := List.mem_map.mp ha
          have fc := hlf c hcm
          have fct := hlt c hcm
          dsimp only []; np
        · np
    · refine NPQ.bind _ _ (fun _ => True) _ (scopeName_np n t ht) (fun _ _ => ?_)
      refine NPQ.bind _ _ (fun _ => True) _ (newChild_np _ _) (fun ls _ => ?_)
      refine withFreshIs_np _ ?_
      refine NPQ.bind _ _ _ _ (NPQ.attemptE _ _ (ih ls it fit)) (fun x hx => ?_)
      refine NPQ.bind _ _ (fun _ => True) _ ?_ (fun start _ => ?_)
      · np
      · exact iterLoop_np _ _ _ (fun s => iterNext_any g ihs ls n it fit g (by omega) s)
          (fun v => bindLoopVars_np _ _ _ _) (ih ls body fb) g _
  · unfold evalLoop; simp [hc, child, hin]
    refine NPQ.bind _ _ (fun _ => True) _ (scopeName_np n t ht) (fun _ _ => ?_)
    refine NPQ.bind _ _ (fun _ => True) _ (newChild_np _ _) (fun ls _ => ?_)
    split
    · exact withFreshIs_np _ (guardLoop_np _ _ (ih ls c0 f0) (ih ls body fb) g)
    · np
theorem interpolate_any (sc : Nat) (n : Node) (t : Tok) (ht : n.tok = some t) :
    ∀ k, k ≤ g + 1 → ∀ rest, NP (interpolate k sc n rest) := by
  intro k; induction k with
  | zero => intro _ rest; unfold interpolate; np
  | succ k ihk =>
    intro hk rest
    have ihk' := ihk (by omega)
    unfold interpolate
    split
    · np
    · try dsimp only []
      split
      · np
      · try dsimp only []
        refine NPQ.bind (get : M St) _ Inv _ NPQ.get (fun st hst => ?_)
        refine NPQ.bind _ _ (fun _ => True) _ ?_ (fun repl _ => ?_)
        · split
          · np
          · np
          · rename_i heq
            have fa := hst.2 _ _ (List.mem_of_find?_eq_some heq)
            refine NPQ.bind _ _ (fun _ => True) _ (scopeName_np n t ht) (fun _ _ => ?_)
            refine NPQ.bind _ _ (fun _ => True) _ (newChild_np _ _) (fun cs _ => ?_)
            refine NPQ.bind _ _ _ _ (NPQ.attemptE _ _ (withFreshIs_np _ (ihs k (by omega) cs _ fa))) (fun r hr => ?_)
            cases r with
            | ok v => dsimp only []; np
            | error e => have he : e ≠ Sig.panic := hr; dsimp only []; np
        · np
end ops

theorem eval_frag_np : ∀ (f sc : Nat) (n : Node), Frag n → NP (eval f sc n) := by
  intro f
  induction f using Nat.strongRecOn with
  | _ f ih =>
    intro sc n hn
    cases f with
    | zero => unfold eval; np
    | succ f =>
      have ihs : ∀ g', g' ≤ f → ∀ sc n, Frag n → NP (eval g' sc n) := fun g' hg => ih g' (by omega)
      have ih0 : ∀ sc n, Frag n → NP (eval f sc n) := ih f (by omega)
      cases hn with
      | const n h => rcases h with h | h | h <;> (unfold eval; simp [h]; np)
      | number n t ht h => unfold eval; simp [h, tokOf, ht]; np
      | rawString n t ht h hr => unfold eval; simp [h, tokOf, ht, hr]; np
      | unary n t c ht h hc fc =>
        rcases h with h | h | h
        · unfold eval; simp [h, hc]; exact numVal_any f ihs sc n c hc fc _
        · unfold eval; simp [h, hc]; exact numVal_any f ihs sc n c hc fc _
        · unfold eval; simp [h, hc, child]; np
      | guardN n c h hc fc => unfold eval; simp [h, hc, child]; np
      | binary n t a b ht h hc fa fb =>
        rcases h with h | h | h | h | h | h | h | h | h | h | h | h | h | h | h | h | h | h
        · unfold eval; simp [h, hc]; exact numOp_any f ihs sc n a b hc fa fb _
        · unfold eval; simp [h, hc]; exact numOp_any f ihs sc n a b hc fa fb _
        · unfold eval; simp [h]; exact numOp_any f ihs sc n a b hc fa fb _
        · unfold eval; simp [h]; exact numOp_any f ihs sc n a b hc fa fb _
        · unfold eval; simp [h]; exact numOp_any f ihs sc n a b hc fa fb _
        · unfold eval; simp [h, hc, child]; np
        · unfold eval; simp [h]; exact boolOp_any f ihs sc n a b hc fa fb _
        · unfold eval; simp [h]; exact boolOp_any f ihs sc n a b hc fa fb _
        · unfold eval; simp [h, hc, child]; np
        · unfold eval; simp [h, hc, child]; np
        · unfold eval; simp [h]; exact cmpOp_any f ihs sc n a b hc fa fb _ _
        · unfold eval; simp [h]; exact cmpOp_any f ihs sc n a b hc fa fb _ _
        · unfold eval; simp [h]; exact cmpOp_any f ihs sc n a b hc fa fb _ _
        · unfold eval; simp [h]; exact cmpOp_any f ihs sc n a b hc fa fb _ _
        · unfold eval; simp [h]; exact inOp_any f ihs sc n a b hc fa fb
        · unfold eval; simp [h]
          exact NPQ.bind _ _ (fun _ => True) _ (inOp_any f ihs sc n a b hc fa fb) (fun _ _ => by np)
        · unfold eval; simp [h]; exact strOp_any f ihs sc n a b hc fa fb _
        · unfold eval; simp [h]; exact strOp_any f ihs sc n a b hc fa fb _
      | signal n t ht h => rcases h with h | h <;> (unfold eval; simp [h]; np)
      | ret0 n t ht h hc => unfold eval; simp [h, hc]; np
      | ret1 n t c ht h hc fc => unfold eval; simp [h, hc, child]; np
      | statements n kids h hc hk => unfold eval; simp [h, hc]; np
      | list n t kids ht h hc hk hkt => unfold eval; simp [h, hc]; np
      | map n t kids ht h hc hk =>
        unfold eval; simp [h, hc]
        refine NPQ.bind _ _ (fun _ => True) _ ?_ (fun _ _ => by np)
        apply NPQ.forIn; intro a ha y
        cases hk a ha with
        | bad c hb =>
          have hb' : ¬a.name = "kvp" ∨ ¬a.children.length = 2 := hb
          simp only [hb', if_true]; np
        | kvp c k v hcc fk fv => simp [hcc, child]; np
      | ident n t kids ht h hc hl =>
        unfold eval; simp [h]
        exact evalIdent_any f ihs sc n t kids ht hc hl
          (fun k hk sc' node path fv hg => callFunction_any f ihs sc' node path fv hg k (by omega))
      | assign n t lhs rhs ht h hc fl fr =>
        unfold eval; simp [h]
        cases f with
        | zero => unfold evalAssign; np
        | succ f' => exact evalAssign_step f' (fun g'' hg => ihs g'' (by omega)) sc n lhs rhs hc fl fr
      | letN n t lv ht h hc fl =>
        unfold eval; simp [h, hc, child]
        split
        · np
        · split
          · rename_i hl
            obtain ⟨kids, hk, hf, hft⟩ := Frag.list_inv fl hl
            simp [hk]; np
          · np
      | ifN n t pairs ht h hc hg hb =>
        unfold eval; simp [h]
        refine NPQ.bind _ _ (fun _ => True) _ (scopeName_np n t ht) (fun _ _ => ?_)
        refine NPQ.bind _ _ (fun _ => True) _ (newChild_np _ _) (fun bs _ => ?_)
        rw [hc]
        exact NPQ.bind _ _ _ _ (ifBranches_any f ihs bs pairs hg hb f (by omega)) (fun l hl => ifChain_np l hl)
      | loop n t c0 body ht h hc f0 fb =>
        unfold eval; simp [h]
        cases f with
        | zero => unfold evalLoop; np
        | succ f' => exact evalLoop_step f' (fun g'' hg => ihs g'' (by omega)) sc n c0 body t ht hc f0 fb
      | istring n t ht h =>
        unfold eval; simp [h, tokOf, ht]
        split
        · exact NPQ.map _ _ (interpolate_any f ihs sc n t ht f (by omega) _)
        · np
      | asN n t v ht h hc fv hvt => unfold eval; simp [h]; np
      | tryN n t body clauses ht h hc fb hbn hcl =>
        unfold eval; simp [h]
        cases f with
        | zero => unfold evalTry; np
        | succ f' => exact evalTry_step f' (fun g'' hg => ihs g'' (by omega)) sc n t body clauses ht hc fb hbn hcl
      | funcNamed n t t0 c0 params body ps ht h hc h0 ht0 hp hps fb =>
        have hn' : Frag n := Frag.funcNamed n t t0 c0 params body ps ht h hc h0 ht0 hp hps fb
        unfold eval; simp [h, hc, child, h0, tokOf, ht0]
        refine NPQ.bind (get : M St) _ Inv _ NPQ.get (fun s hs => ?_)
        refine NPQ.bind _ _ (fun _ => True) _ (NPQ.set _ ?_) (fun _ _ => by np)
        refine ⟨?_, hs.2⟩
        intro fr hfr
        simp only [Array.toList_push, List.mem_append, List.mem_singleton] at hfr
        rcases hfr with hfr | hfr
        · exact hs.1 fr hfr
        · subst hfr; exact ⟨hn', h⟩
      | funcAnon n t params body ps ht h hc h0 hp hps fb =>
        have hn' : Frag n := Frag.funcAnon n t params body ps ht h hc h0 hp hps fb
        unfold eval; simp [h, hc, child, h0]
        refine NPQ.bind (get : M St) _ Inv _ NPQ.get (fun s hs => ?_)
        refine NPQ.bind _ _ (fun _ => True) _ (NPQ.set _ ?_) (fun _ _ => by np)
        refine ⟨?_, hs.2⟩
        intro fr hfr
        simp only [Array.toList_push, List.mem_append, List.mem_singleton] at hfr
        rcases hfr with hfr | hfr
        · exact hs.1 fr hfr
        · subst hfr; exact ⟨hn', h⟩
      | inert n h =>
        rcases h with h | h | h | h | h | h | h | h | h | h | h | h | h | h | h | h | h | h <;> (unfold eval; simp [h]; np)

/-- running ANY entry of the function table with ANY arguments never panics (under `Inv`) -/
theorem runFunction_np (k sc id : Nat) (args : List Val) : NP (runFunction k sc id args) :=
  runFunction_any k (fun g' _ => eval_frag_np g') sc id args k (by omega)

/-- the statement in the shape used by `Props/C06.lean` -/
theorem eval_frag_no_panic (f sc : Nat) (n : Node) (hn : Frag n) (s : St) (hs : Inv s) :
    ((eval f sc n).run.run s).1 ≠ .error Sig.panic ∧ Inv ((eval f sc n).run.run s).2 := by
  have h := eval_frag_np f sc n hn s hs
  refine ⟨?_, h.1⟩
  intro he
  have h2 := h.2
  rw [he] at h2
  exact h2 rfl

theorem inv_empty : Inv {} := by
  constructor
  · intro fr h; simp at h
  · intro c n h; simp at h

def exTok (v : List Nat) : Tok :=
  { id := 0, pos := 0, val := v, identifier := false, allowEscapes := false, prefixNl := 0, line := 1, col := 1 }
def exNode (name : String) (v : List Nat) (kids : List (Option Node)) : Node :=
  Node.mk name (some (exTok v)) 0 default default kids []
/-- `a := [not (5 % true), {1}]` -/
def fragExample : Node :=
  exNode ":=" [] [some (exNode "identifier" [97] []),
    some (exNode "list" [] [
      some (exNode "not" [] [some (exNode "modint" [37] [some (exNode "number" [53] []), some (exNode "true" [] [])])]),
      some (exNode "map" [] [some (exNode "number" [49] [])])])]

theorem fragExample_ok : Frag fragExample := by
  refine Frag.assign _ (exTok []) (exNode "identifier" [97] []) _ rfl rfl rfl
    (Frag.ident _ (exTok [97]) [] rfl rfl rfl (by intro c hc; cases hc)) ?_
  refine Frag.list _ (exTok []) [_, _] rfl rfl rfl ?_ (by intro c hc; simp at hc; rcases hc with rfl | rfl <;> exact ⟨_, rfl⟩)
  intro c hc
  simp only [List.mem_cons, List.not_mem_nil, or_false] at hc
  rcases hc with hc | hc
  · subst hc
    exact Frag.unary _ (exTok []) _ rfl (Or.inr (Or.inr rfl)) rfl
      (Frag.binary _ (exTok [37]) _ _ rfl (Or.inr (Or.inr (Or.inr (Or.inr (Or.inr (Or.inl rfl)))))) rfl
        (Frag.number _ (exTok [53]) rfl rfl) (Frag.const _ (Or.inl rfl)))
  · subst hc
    refine Frag.map _ (exTok []) [_] rfl rfl rfl ?_
    intro e he
    simp only [List.mem_cons, List.not_mem_nil, or_false] at he
    subst he
    exact FragEntry.bad _ (Or.inl (by decide))

end Ecal.Lemmas.C06
