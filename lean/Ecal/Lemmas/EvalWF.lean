import Ecal.Lemmas.EvalFrame
import Ecal.Lemmas.EvalPaths
/-!
Shape of the scope table of `Model/Eval.lean`: every parent has a smaller index than its child and every listed
child points back to its parent (`ScopesWF`).  Preserved by the functions that create or link scopes (`newScope`,
`newChild`, the link of `buildFrame`) and by variable writes; consequence: parent chains strictly decrease, so a block
scope is never on the chain of its parent and a call frame never on the chain of an existing scope.
-/
namespace Ecal.Ev

structure ScopesWF (st : St) : Prop where
  parentBelow : ∀ i p, i < st.scopes.size → (st.scope i).parent = some p → p < i
  childOk : ∀ p c, p < st.scopes.size → c ∈ (st.scope p).children → c < st.scopes.size ∧ (st.scope c).parent = some p

theorem chain_le (st : St) (h : ScopesWF st) : ∀ (f sc : Nat), sc < st.scopes.size → ∀ x ∈ st.chain f sc, x ≤ sc := by
  intro f
  induction f with
  | zero => intro sc _ x hx; simp [St.chain] at hx
  | succ f ih =>
    intro sc hsc x hx
    simp only [St.chain, List.mem_cons] at hx
    rcases hx with e | hx
    · exact Nat.le_of_eq e
    · cases hp : (st.scope sc).parent with
      | none => simp [hp] at hx
      | some p =>
        simp only [hp] at hx
        have hlt := h.parentBelow sc p hsc hp
        exact Nat.le_trans (ih p (Nat.lt_trans hlt hsc) x hx) (Nat.le_of_lt hlt)

/-- a scope with a larger index is never on the chain -/
theorem above_not_on_chain (st : St) (h : ScopesWF st) (f sc t : Nat) (hsc : sc < st.scopes.size) (ht : sc < t) :
    t ∉ st.chain f sc := fun hm => Nat.lt_irrefl _ (Nat.lt_of_lt_of_le ht (chain_le st h f sc hsc t hm))

theorem scope_push_old (st : St) (s : Scope) (i : Nat) (hi : i < st.scopes.size) :
    ({ st with scopes := st.scopes.push s } : St).scope i = st.scope i := by
  simp [St.scope, Array.getElem?_push, Nat.ne_of_lt hi, hi]

theorem scope_push_new (st : St) (s : Scope) : ({ st with scopes := st.scopes.push s } : St).scope st.scopes.size = s := by
  simp [St.scope]

/-- a new ROOT scope (call frames start like this) keeps the table well-formed -/
theorem wf_newRoot (st : St) (h : ScopesWF st) (name : String) :
    ScopesWF { st with scopes := st.scopes.push { name := name, parent := none, children := [], vars := [] } } := by
  constructor
  · intro i p hi hp
    simp only [Array.size_push] at hi
    by_cases hlt : i < st.scopes.size
    · rw [scope_push_old st _ i hlt] at hp; exact h.parentBelow i p hlt hp
    · have : i = st.scopes.size := by omega
      subst this; rw [scope_push_new] at hp; cases hp
  · intro p c hp hc
    simp only [Array.size_push] at hp ⊢
    by_cases hlt : p < st.scopes.size
    · rw [scope_push_old st _ p hlt] at hc
      obtain ⟨h1, h2⟩ := h.childOk p c hlt hc
      exact ⟨by omega, by rw [scope_push_old st _ c h1]; exact h2⟩
    · have : p = st.scopes.size := by omega
      subst this; rw [scope_push_new] at hc; simp at hc

/-- variable writes do not touch the shape -/
theorem wf_withVar (st : St) (h : ScopesWF st) (sc : Nat) (v : String) (x : Val) : ScopesWF (st.withVar sc v x) := by
  have hshape : ∀ i, ((st.withVar sc v x).scope i).parent = (st.scope i).parent ∧
      ((st.withVar sc v x).scope i).children = (st.scope i).children := by
    intro i
    by_cases hi : i = sc
    · subst hi
      by_cases hb : i < st.scopes.size
      · rw [withVar_scope_same st i v x hb]; exact ⟨rfl, rfl⟩
      · simp [St.withVar, St.scope, hb]
    · rw [withVar_scope_other st sc i v x hi]; exact ⟨rfl, rfl⟩
  have hsz := (withVar_heap st sc v x).2.2
  constructor
  · intro i p hi hp
    rw [hsz] at hi; rw [(hshape i).1] at hp; exact h.parentBelow i p hi hp
  · intro p c hp hc
    rw [hsz] at hp ⊢; rw [(hshape p).2] at hc; rw [(hshape c).1]
    exact h.childOk p c hp hc

/-- `NewChild`: what the evaluator does for every block (if / loop / try / except / otherwise / finally /
    interpolation): the child of the CURRENT scope with the block's name — the existing one when the block is entered
    again (its variables are still there), otherwise a new scope hanging under the current scope.  Either way the
    table stays well-formed, the child's parent is the current scope, and the child is NOT on the chain of the current
    scope: with `inner_not_visible_outside`, nothing defined in the block is visible from outside. -/
theorem newChild_spec (st st' : St) (h : ScopesWF st) (parent c : Nat) (name : String) (hp : parent < st.scopes.size)
    (hr : runM (newChild parent name) st = (.ok c, st')) :
    ScopesWF st' ∧ (st'.scope c).parent = some parent ∧ c < st'.scopes.size ∧ parent < st'.scopes.size ∧
    c ∉ st'.chain 10000 parent ∧
    ((st' = st ∧ c ∈ (st.scope parent).children) ∨ (c = st.scopes.size ∧ ∀ i, i < st.scopes.size → i ≠ parent → st'.scope i = st.scope i)) := by
  unfold newChild at hr
  rw [runM_bind, getScope_run] at hr
  simp only at hr
  rw [runM_bind] at hr
  have hget : runM (get : M St) st = (.ok st, st) := rfl
  rw [hget] at hr
  simp only at hr
  cases hf : (st.scope parent).children.find? (fun c => (st.scopes.getD c default).name == name) with
  | some c0 =>
    simp only [hf, runM_pure] at hr
    injection hr with h1 h2; injection h1 with h1; subst h1; subst h2
    have hmem : c0 ∈ (st.scope parent).children := List.mem_of_find?_eq_some hf
    obtain ⟨hc1, hc2⟩ := h.childOk parent c0 hp hmem
    have hlt : parent < c0 := h.parentBelow c0 parent hc1 hc2
    exact ⟨h, hc2, hc1, hp, above_not_on_chain st h 10000 parent c0 hp hlt, Or.inl ⟨rfl, hmem⟩⟩
  | none =>
    simp only [hf] at hr
    rw [runM_bind, newScope_run] at hr
    simp only at hr
    rw [runM_bind, setScope_run] at hr
    simp only [runM_pure] at hr
    injection hr with h1 h2; injection h1 with h1; subst h1
    -- the final table: pushed child, then the parent's children extended
    have hsz : st'.scopes.size = st.scopes.size + 1 := by rw [← h2]; simp
    have hsc : ∀ i, st'.scope i =
        if i = parent then { st.scope parent with children := (st.scope parent).children ++ [st.scopes.size] }
        else if i = st.scopes.size then { name := name, parent := some parent, children := [], vars := [] }
        else st.scope i := by
      intro i
      rw [← h2]
      by_cases hi : i = parent
      · subst hi; simp [St.scope, hp, Nat.lt_succ_of_lt hp]
      · simp only [hi, if_false]
        simp only [St.scope, Array.getD_eq_getD_getElem?]
        rw [Array.getElem?_setIfInBounds_ne (Ne.symm hi)]
        by_cases hn : i = st.scopes.size
        · subst hn; simp
        · simp only [hn, if_false, Array.getElem?_push]
    have hne : parent ≠ st.scopes.size := Nat.ne_of_lt hp
    have wf' : ScopesWF st' := by
      constructor
      · intro i p hi hpar
        rw [hsz] at hi
        rw [hsc i] at hpar
        by_cases h1 : i = parent
        · simp only [h1, if_true] at hpar; rw [h1]; exact h.parentBelow parent p hp hpar
        · simp only [h1, if_false] at hpar
          by_cases h2' : i = st.scopes.size
          · simp only [h2', if_true] at hpar; injection hpar with e; rw [← e, h2']; exact hp
          · simp only [h2', if_false] at hpar; exact h.parentBelow i p (by omega) hpar
      · intro p c hpl hc
        rw [hsz] at hpl ⊢
        rw [hsc p] at hc
        by_cases h1 : p = parent
        · simp only [h1, if_true, List.mem_append, List.mem_singleton] at hc
          rcases hc with hc | hc
          · obtain ⟨a1, a2⟩ := h.childOk parent c hp hc
            have hcp : c ≠ parent := by
              intro e; rw [e] at a2; exact Nat.lt_irrefl _ (h.parentBelow parent parent hp a2)
            refine ⟨by omega, ?_⟩
            rw [hsc c]; simp only [hcp, if_false, Nat.ne_of_lt a1]; rw [h1]; exact a2
          · subst hc
            refine ⟨by omega, ?_⟩
            rw [hsc st.scopes.size]; simp [Ne.symm hne, h1]
        · simp only [h1, if_false] at hc
          by_cases h2' : p = st.scopes.size
          · simp only [h2', if_true] at hc; simp at hc
          · simp only [h2', if_false] at hc
            obtain ⟨a1, a2⟩ := h.childOk p c (by omega) hc
            refine ⟨by omega, ?_⟩
            rw [hsc c]
            by_cases hcp : c = parent
            · simp only [hcp, if_true]; rw [← hcp]; exact a2
            · simp only [hcp, if_false, Nat.ne_of_lt a1]; exact a2
    have hpar : (st'.scope st.scopes.size).parent = some parent := by rw [hsc]; simp [Ne.symm hne]
    refine ⟨wf', hpar, by omega, by omega, above_not_on_chain st' wf' 10000 parent _ (by omega) hp, Or.inr ⟨rfl, ?_⟩⟩
    intro i hi hip
    rw [hsc i]; simp [hip, Nat.ne_of_lt hi]

/-- chains of existing scopes only look at scopes with smaller or equal index -/
theorem chain_congr_below (st st' : St) (h : ScopesWF st) : ∀ (f sc : Nat), sc < st.scopes.size →
    (∀ t, t ≤ sc → st'.scope t = st.scope t) → st'.chain f sc = st.chain f sc := by
  intro f
  induction f with
  | zero => intro sc _ _; rfl
  | succ f ih =>
    intro sc hsc heq
    simp only [St.chain, heq sc (Nat.le_refl _)]
    cases hp : (st.scope sc).parent with
    | none => rfl
    | some p =>
      have hlt := h.parentBelow sc p hsc hp
      simp only
      rw [ih p (Nat.lt_trans hlt hsc) (fun t ht => heq t (Nat.le_trans ht (Nat.le_of_lt hlt)))]

/-- a call frame (the new index `st.scopes.size`) is on the chain of NO scope that existed before the call, whatever
    the call did to the new frame — so nothing the call defines in its frame is visible from the caller's or any
    other existing scope (`inner_not_visible_outside`) -/
theorem frame_not_on_existing_chains (st st' : St) (h : ScopesWF st) (f sc : Nat) (hsc : sc < st.scopes.size)
    (hkeep : ∀ t, t < st.scopes.size → st'.scope t = st.scope t) : st.scopes.size ∉ st'.chain f sc := by
  rw [chain_congr_below st st' h f sc hsc (fun t ht => hkeep t (Nat.lt_of_le_of_lt ht hsc))]
  exact above_not_on_chain st h f sc _ hsc hsc

/-- the initial table — one global scope — is well-formed -/
theorem wf_initial (name : String) : ScopesWF { scopes := #[{ name := name, parent := none, children := [], vars := [] }] } := by
  constructor
  · intro i p hi hp
    have : i = 0 := by simp at hi; omega
    subst this; simp [St.scope] at hp
  · intro p c hp hc
    have : p = 0 := by simp at hp; omega
    subst this; simp [St.scope] at hc

/-! ### the frame link of `buildFrame` and `buildFrame` as a whole -/

/-- linking a root scope `n` (no parent; therefore listed as a child nowhere) to a scope with a smaller index keeps the
    table well-formed -/
theorem wf_link (s : St) (h : ScopesWF s) (n ds : Nat) (hn : n < s.scopes.size) (hroot : (s.scope n).parent = none)
    (hds : ds < n) :
    ScopesWF { s with scopes := s.scopes.setIfInBounds n { s.scope n with parent := some ds } } := by
  have hsc : ∀ i, ({ s with scopes := s.scopes.setIfInBounds n { s.scope n with parent := some ds } } : St).scope i =
      if i = n then { s.scope n with parent := some ds } else s.scope i := by
    intro i
    by_cases hi : i = n
    · subst hi; simp [St.scope, hn]
    · simp only [hi, if_false, St.scope, Array.getD_eq_getD_getElem?]
      rw [Array.getElem?_setIfInBounds_ne (Ne.symm hi)]
  constructor
  · intro i p hi hp
    simp only [Array.size_setIfInBounds] at hi
    rw [hsc i] at hp
    by_cases h1 : i = n
    · simp only [h1, if_true] at hp; injection hp with e; rw [h1, ← e]; exact hds
    · simp only [h1, if_false] at hp; exact h.parentBelow i p hi hp
  · intro p c hp hc
    simp only [Array.size_setIfInBounds] at hp ⊢
    have hc' : c ∈ (s.scope p).children := by
      rw [hsc p] at hc
      by_cases h1 : p = n
      · simpa [h1] using hc
      · simpa [h1] using hc
    obtain ⟨a1, a2⟩ := h.childOk p c hp hc'
    refine ⟨a1, ?_⟩
    rw [hsc c]
    have hcn : c ≠ n := by intro e; rw [e, hroot] at a2; cases a2
    simp only [hcn, if_false]; exact a2

/-- the invariant of a frame under construction as far as the SHAPE of the scope table goes: the table is well-formed,
    the frame is in bounds and still a root -/
def FrameWF (n : Nat) (s : St) : Prop := ScopesWF s ∧ n < s.scopes.size ∧ (s.scope n).parent = none

theorem frameWF_withVar (n : Nat) (s : St) (v : String) (x : Val) (h : FrameWF n s) : FrameWF n (s.withVar n v x) :=
  ⟨wf_withVar s h.1 n v x, by rw [(withVar_heap s n v x).2.2]; exact h.2.1, by rw [withVar_scope_same s n v x h.2.1]; exact h.2.2⟩

/-- `buildFrame` keeps the scope table well-formed — for EVERY outcome (a default that raises an error leaves an
    unlinked root behind, which is well-formed too).  Hypotheses: the declaration scope of the function exists, the
    parameter names are plain identifiers, and evaluating the defaults of this parameter list preserves `FrameWF`
    (`buildFrame_wf_noDefaults`: no such hypothesis when the list has no defaults). -/
theorem buildFrame_wf (ev : Ecal.Parse.Node → M Val) (fr : FuncRec) (params : List (Option Ecal.Parse.Node)) (args : List Val)
    (st st' : St) (r : Except Sig Nat) (h : ScopesWF st) (hds : fr.declScope < st.scopes.size)
    (hpl : ∀ p nm, some p ∈ params → nodeParamName p = some nm → PlainName nm)
    (hev : DefaultPreserves ev params (FrameWF st.scopes.size))
    (hr : runM (buildFrame ev fr params args) st = (r, st')) :
    ScopesWF st' ∧ st.scopes.size < st'.scopes.size := by
  unfold buildFrame at hr
  rw [runM_bind, newScope_run] at hr
  simp only at hr
  have h0 : FrameWF st.scopes.size
      { st with scopes := st.scopes.push { name := s!"func: {fr.name}", parent := none, children := [], vars := [] } } :=
    ⟨wf_newRoot st h _, by simp, by simp [St.scope]⟩
  have hpar : ∀ s, FrameWF st.scopes.size s → (s.scope st.scopes.size).parent = none := fun s hs => hs.2.2
  have hwv : ∀ s v x, FrameWF st.scopes.size s → True → FrameWF st.scopes.size (s.withVar st.scopes.size v x) :=
    fun s v x hs _ => frameWF_withVar _ s v x hs
  rw [runM_bind] at hr
  obtain ⟨s1, hs1, hi1⟩ := bindContext_gen st.scopes.size (FrameWF st.scopes.size) (fun _ => True) hpar hwv
    thisName fr.this _ plain_this trivial h0
  rw [hs1] at hr
  simp only at hr
  rw [runM_bind] at hr
  obtain ⟨s2, hs2, hi2⟩ := bindContext_gen st.scopes.size (FrameWF st.scopes.size) (fun _ => True) hpar hwv
    superName fr.super s1 plain_super trivial hi1
  rw [hs2] at hr
  simp only at hr
  rw [runM_bind] at hr
  cases hb : runM (bindParamNodes ev st.scopes.size params 0 args) s2 with
  | mk rb s3 =>
    have hi3 := bindParamNodes_gen ev st.scopes.size (FrameWF st.scopes.size) (fun _ => True) hpar hwv args params 0 s2 s3 rb
      hev (fun p nm hp hn => ⟨hpl p nm hp hn, trivial⟩) hi2 hb
    rw [hb] at hr
    cases rb with
    | error e =>
      simp only at hr
      injection hr with _ h2
      rw [← h2]; exact ⟨hi3.1, hi3.2.1⟩
    | ok u =>
      simp only at hr
      rw [runM_bind, getScope_run] at hr
      simp only at hr
      rw [runM_bind, setScope_run] at hr
      simp only [runM_pure] at hr
      injection hr with _ h2
      rw [← h2]
      exact ⟨wf_link s3 hi3.1 st.scopes.size fr.declScope hi3.2.1 hi3.2.2 hds, by simpa using hi3.2.1⟩

theorem buildFrame_wf_noDefaults (ev : Ecal.Parse.Node → M Val) (fr : FuncRec) (params : List (Option Ecal.Parse.Node))
    (args : List Val) (st st' : St) (r : Except Sig Nat) (h : ScopesWF st) (hds : fr.declScope < st.scopes.size)
    (hpl : ∀ p nm, some p ∈ params → nodeParamName p = some nm → PlainName nm) (hnp : NoPreset params)
    (hr : runM (buildFrame ev fr params args) st = (r, st')) :
    ScopesWF st' ∧ st.scopes.size < st'.scopes.size := by
  rw [buildFrame_noPreset ev (fun _ => pure Val.null) fr params args hnp] at hr
  exact buildFrame_wf _ fr params args st st' r h hds hpl (defaultPreserves_const params _) hr

/-! ### writes: `setValue` / `setLocalValue` for every name and every outcome -/

/-- a computation that never changes the scope table (whatever it returns, also when it fails) -/
def ScopesSame {α : Type} (m : M α) : Prop := ∀ st r st', runM m st = (r, st') → st'.scopes = st.scopes

theorem ScopesSame.pure {α : Type} (a : α) : ScopesSame (pure a : M α) := by
  intro st r st' h; simp only [runM_pure] at h; injection h with _ h2; rw [← h2]
theorem ScopesSame.throw {α : Type} (e : Sig) : ScopesSame (throw e : M α) := by
  intro st r st' h; simp only [runM_throw] at h; injection h with _ h2; rw [← h2]
theorem ScopesSame.bind {α β : Type} (m : M α) (k : α → M β) (hm : ScopesSame m) (hk : ∀ a, ScopesSame (k a)) :
    ScopesSame (m >>= k) := by
  intro st r st' h
  rw [runM_bind] at h
  cases hr : runM m st with
  | mk r1 s1 =>
    rw [hr] at h
    have e1 := hm st r1 s1 hr
    cases r1 with
    | ok a => exact (hk a s1 r st' h).trans e1
    | error e => simp only at h; injection h with _ h2; rw [← h2]; exact e1

theorem getMap_same (r : Nat) : ScopesSame (getMap r) := by
  intro st x st' h; rw [getMap_run] at h; injection h with _ h2; rw [← h2]
theorem setMap_same (r : Nat) (kvs : List (Val × Val)) : ScopesSame (setMap r kvs) := by
  intro st x st' h; rw [setMap_run] at h; injection h with _ h2; rw [← h2]
theorem getBacking_same (r : Nat) : ScopesSame (getBacking r) := by
  intro st x st' h; rw [getBacking_run] at h; injection h with _ h2; rw [← h2]
theorem setBacking_same (r : Nat) (b : List Val) : ScopesSame (setBacking r b) := by
  intro st x st' h; rw [setBacking_run] at h; injection h with _ h2; rw [← h2]
theorem listIndex_same (fld : List Nat) (len : Nat) : ScopesSame (listIndex fld len) := by
  intro st x st' h
  rw [listIndex_run] at h
  cases hl : listIdx fld len with
  | some i => rw [hl] at h; injection h with _ h2; rw [← h2]
  | none =>
    rw [hl] at h
    cases ha : atoi fld <;> (rw [ha] at h; injection h with _ h2; rw [← h2])

theorem containerWalk_same : ∀ (f : Nat) (flds : List (List Nat)) (c : Val), ScopesSame (containerWalk f flds c) := by
  intro f
  induction f with
  | zero => intro flds c; unfold containerWalk; exact ScopesSame.throw _
  | succ f ih =>
    intro flds c
    cases flds with
    | nil => unfold containerWalk; exact ScopesSame.pure _
    | cons fld rest =>
      unfold containerWalk
      refine ScopesSame.bind _ _ ?_ (fun nxt => ?_)
      · cases c with
        | map r =>
          refine ScopesSame.bind _ _ (getMap_same r) (fun kvs => ?_)
          cases mapFieldLookup kvs fld with
          | some v => exact ScopesSame.pure _
          | none => exact ScopesSame.throw _
        | list r l =>
          refine ScopesSame.bind _ _ (listIndex_same fld l) (fun i => ?_)
          exact ScopesSame.bind _ _ (getBacking_same r) (fun b => ScopesSame.pure _)
        | _ => exact ScopesSame.throw _
      · split
        · exact ih rest nxt
        · exact ScopesSame.pure _

theorem scopeFor_state (v : String) (st : St) : ∀ (f sc : Nat) (r : Except Sig (Option Nat)) (s' : St),
    runM (scopeFor f sc v) st = (r, s') → s' = st := by
  intro f
  induction f with
  | zero => intro sc r s' hh; rw [scopeFor_zero] at hh; injection hh with _ h2; exact h2.symm
  | succ f ih =>
    intro sc r s' hh
    rw [scopeFor_succ] at hh
    split at hh
    · injection hh with _ h2; exact h2.symm
    · split at hh
      · exact ih _ r s' hh
      · injection hh with _ h2; exact h2.symm

theorem lookupVar_same (sc : Nat) (v : String) : ScopesSame (lookupVar sc v) := by
  intro st r st' h
  unfold lookupVar at h
  rw [runM_bind] at h
  cases hs : runM (scopeFor 10000 sc v) st with
  | mk r1 s1 =>
    rw [hs] at h
    have e1 : s1 = st := scopeFor_state v st 10000 sc r1 s1 hs
    subst e1
    cases r1 with
    | error e => simp only at h; injection h with _ h2; rw [← h2]
    | ok o =>
      cases o with
      | none => simp only [runM_pure] at h; injection h with _ h2; rw [← h2]
      | some s =>
        simp only at h
        rw [runM_bind, getScope_run] at h
        simp only [runM_pure] at h
        injection h with _ h2; rw [← h2]

/-- `setValue`, ANY name and ANY outcome: the scope table stays well-formed and keeps its size (a plain name writes
    one variable, a dotted name writes the heap only) -/
theorem setValue_wf (sc : Nat) (name : List Nat) (x : Val) (st st' : St) (r : Except Sig Unit) (h : ScopesWF st)
    (hr : runM (setValue sc name x) st = (r, st')) : ScopesWF st' ∧ st'.scopes.size = st.scopes.size := by
  unfold setValue at hr
  cases hsd : splitDots name with
  | nil =>
    simp only [hsd, runM_pure] at hr
    injection hr with _ h2; rw [← h2]; exact ⟨h, rfl⟩
  | cons v rest =>
    cases rest with
    | nil =>
      simp only [hsd] at hr
      rw [runM_bind] at hr
      cases hs : runM (scopeFor 10000 sc (bytesToString v)) st with
      | mk r1 s1 =>
        rw [hs] at hr
        cases r1 with
        | error e =>
          simp only at hr; injection hr with _ h2
          have e1 : s1 = st := scopeFor_state _ st 10000 sc _ s1 hs
          rw [← h2, e1]; exact ⟨h, rfl⟩
        | ok o =>
          obtain ⟨e1, _⟩ := scopeFor_ok _ _ _ _ _ _ hs
          subst e1
          cases o with
          | none =>
            simp only at hr; rw [setVar_run] at hr
            injection hr with _ h2; rw [← h2]
            exact ⟨wf_withVar s1 h sc _ x, (withVar_heap s1 sc _ x).2.2⟩
          | some s =>
            simp only at hr; rw [setVar_run] at hr
            injection hr with _ h2; rw [← h2]
            exact ⟨wf_withVar s1 h s _ x, (withVar_heap s1 s _ x).2.2⟩
    | cons f1 more =>
      -- dotted name: only the heap is written
      have hsame : ScopesSame (setValue sc name x) := by
        unfold setValue
        simp only [hsd]
        refine ScopesSame.bind _ _ (lookupVar_same sc _) (fun o => ?_)
        cases o with
        | none => exact ScopesSame.throw _
        | some c =>
          simp only
          refine ScopesSame.bind _ _ ?_ (fun cont => ?_)
          · split
            · exact containerWalk_same _ _ _
            · exact ScopesSame.pure _
          · cases cont with
            | null => exact ScopesSame.pure _
            | map r =>
              exact ScopesSame.bind _ _ (getMap_same r) (fun kvs => setMap_same r _)
            | list r l =>
              refine ScopesSame.bind _ _ (listIndex_same _ l) (fun i => ?_)
              exact ScopesSame.bind _ _ (getBacking_same r) (fun b => setBacking_same r _)
            | _ => exact ScopesSame.throw _
      have e := hsame st r st' (by unfold setValue; exact hr)
      have hscope : ∀ i, st'.scope i = st.scope i := fun i => by simp [St.scope, e]
      exact ⟨⟨fun i p hi hp => h.parentBelow i p (by rw [← e]; exact hi) (by rw [← hscope i]; exact hp),
        fun p c hp hc => by
          have := h.childOk p c (by rw [← e]; exact hp) (by rw [← hscope p]; exact hc)
          exact ⟨by rw [e]; exact this.1, by rw [hscope c]; exact this.2⟩⟩, by rw [e]⟩

/-- `setLocalValue` (the `let` node), any name and outcome -/
theorem setLocalValue_wf (sc : Nat) (name : List Nat) (x : Val) (st st' : St) (r : Except Sig Unit) (h : ScopesWF st)
    (hr : runM (setLocalValue sc name x) st = (r, st')) : ScopesWF st' ∧ st'.scopes.size = st.scopes.size := by
  unfold setLocalValue at hr
  rw [runM_bind, setVar_run] at hr
  simp only at hr
  have h1 := wf_withVar st h sc (bytesToString ((splitDots name).headD [])) Val.null
  obtain ⟨h2, h3⟩ := setValue_wf sc name x _ st' r h1 hr
  exact ⟨h2, by rw [h3]; exact (withVar_heap st sc _ _).2.2⟩

end Ecal.Ev
