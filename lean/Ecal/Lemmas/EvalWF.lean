import Ecal.Lemmas.EvalFrame
/-!
Shape of the scope table of `Model/Eval.lean`: every parent has a smaller index than its child and every listed
child points back to its parent (`ScopesWF`).  Preserved by the functions that create or link scopes (`newScope`,
`newChild`, the link of `buildFrame`) and by variable writes; consequence: parent chains strictly decrease, so a block
scope is never on the chain of its parent and a call frame never on the chain of an existing scope.
-/
namespace Ecal.Ev

structure ScopesWF (st : St) : Prop where
  parentBelow : ∀ i p, i < st.scopes.size → (st.scope i).parent = some p → p < i
  childOk : ∀ p c, p < st.scopes.size → c ∈ (st.scope p).children → c < st.scopes.size ∧ (st.scope c).parent = some p

theorem chain_le (st : St) (h : ScopesWF st) : ∀ (f sc : Nat), sc < st.scopes.size → ∀ x ∈ st.chain f sc, x ≤ sc := by
  intro f
  induction f with
  | zero => intro sc _ x hx; simp [St.chain] at hx
  | succ f ih =>
    intro sc hsc x hx
    simp only [St.chain, List.mem_cons] at hx
    rcases hx with e | hx
    · exact Nat.le_of_eq e
    · cases hp : (st.scope sc).parent with
      | none => simp [hp] at hx
      | some p =>
        simp only [hp] at hx
        have hlt := h.parentBelow sc p hsc hp
        exact Nat.le_trans (ih p (Nat.lt_trans hlt hsc) x hx) (Nat.le_of_lt hlt)

/-- a scope with a larger index is never on the chain -/
theorem above_not_on_chain (st : St) (h : ScopesWF st) (f sc t : Nat) (hsc : sc < st.scopes.size) (ht : sc < t) :
    t ∉ st.chain f sc := fun hm => Nat.lt_irrefl _ (Nat.lt_of_lt_of_le ht (chain_le st h f sc hsc t hm))

theorem scope_push_old (st : St) (s : Scope) (i : Nat) (hi : i < st.scopes.size) :
    ({ st with scopes := st.scopes.push s } : St).scope i = st.scope i := by
  simp [St.scope, Array.getElem?_push, Nat.ne_of_lt hi, hi]

theorem scope_push_new (st : St) (s : Scope) : ({ st with scopes := st.scopes.push s } : St).scope st.scopes.size = s := by
  simp [St.scope]

/-- a new ROOT scope (call frames start like this) keeps the table well-formed -/
theorem wf_newRoot (st : St) (h : ScopesWF st) (name : String) :
    ScopesWF { st with scopes := st.scopes.push { name := name, parent := none, children := [], vars := [] } } := by
  constructor
  · intro i p hi hp
    simp only [Array.size_push] at hi
    by_cases hlt : i < st.scopes.size
    · rw [scope_push_old st _ i hlt] at hp; exact h.parentBelow i p hlt hp
    · have : i = st.scopes.size := by omega
      subst this; rw [scope_push_new] at hp; cases hp
  · intro p c hp hc
    simp only [Array.size_push] at hp ⊢
    by_cases hlt : p < st.scopes.size
    · rw [scope_push_old st _ p hlt] at hc
      obtain ⟨h1, h2⟩ := h.childOk p c hlt hc
      exact ⟨by omega, by rw [scope_push_old st _ c h1]; exact h2⟩
    · have : p = st.scopes.size := by omega
      subst this; rw [scope_push_new] at hc; simp at hc

/-- variable writes do not touch the shape -/
theorem wf_withVar (st : St) (h : ScopesWF st) (sc : Nat) (v : String) (x : Val) : ScopesWF (st.withVar sc v x) := by
  have hshape : ∀ i, ((st.withVar sc v x).scope i).parent = (st.scope i).parent ∧
      ((st.withVar sc v x).scope i).children = (st.scope i).children := by
    intro i
    by_cases hi : i = sc
    · subst hi
      by_cases hb : i < st.scopes.size
      · rw [withVar_scope_same st i v x hb]; exact ⟨rfl, rfl⟩
      · simp [St.withVar, St.scope, hb]
    · rw [withVar_scope_other st sc i v x hi]; exact ⟨rfl, rfl⟩
  have hsz := (withVar_heap st sc v x).2.2
  constructor
  · intro i p hi hp
    rw [hsz] at hi; rw [(hshape i).1] at hp; exact h.parentBelow i p hi hp
  · intro p c hp hc
    rw [hsz] at hp ⊢; rw [(hshape p).2] at hc; rw [(hshape c).1]
    exact h.childOk p c hp hc

/-- `NewChild`: what the evaluator does for every block (if / loop / try / except / otherwise / finally /
    interpolation): the child of the CURRENT scope with the block's name — the existing one when the block is entered
    again (its variables are still there), otherwise a new scope hanging under the current scope.  Either way the
    table stays well-formed, the child's parent is the current scope, and the child is NOT on the chain of the current
    scope: with `inner_not_visible_outside`, nothing defined in the block is visible from outside. -/
theorem newChild_spec (st st' : St) (h : ScopesWF st) (parent c : Nat) (name : String) (hp : parent < st.scopes.size)
    (hr : runM (newChild parent name) st = (.ok c, st')) :
    ScopesWF st' ∧ (st'.scope c).parent = some parent ∧ c < st'.scopes.size ∧ parent < st'.scopes.size ∧
    c ∉ st'.chain 10000 parent ∧
    ((st' = st ∧ c ∈ (st.scope parent).children) ∨ (c = st.scopes.size ∧ ∀ i, i < st.scopes.size → i ≠ parent → st'.scope i = st.scope i)) := by
  unfold newChild at hr
  rw [runM_bind, getScope_run] at hr
  simp only at hr
  rw [runM_bind] at hr
  have hget : runM (get : M St) st = (.ok st, st) := rfl
  rw [hget] at hr
  simp only at hr
  cases hf : (st.scope parent).children.find? (fun c => (st.scopes.getD c default).name == name) with
  | some c0 =>
    simp only [hf, runM_pure] at hr
    injection hr with h1 h2; injection h1 with h1; subst h1; subst h2
    have hmem : c0 ∈ (st.scope parent).children := List.mem_of_find?_eq_some hf
    obtain ⟨hc1, hc2⟩ := h.childOk parent c0 hp hmem
    have hlt : parent < c0 := h.parentBelow c0 parent hc1 hc2
    exact ⟨h, hc2, hc1, hp, above_not_on_chain st h 10000 parent c0 hp hlt, Or.inl ⟨rfl, hmem⟩⟩
  | none =>
    simp only [hf] at hr
    rw [runM_bind, newScope_run] at hr
    simp only at hr
    rw [runM_bind, setScope_run] at hr
    simp only [runM_pure] at hr
    injection hr with h1 h2; injection h1 with h1; subst h1
    -- the final table: pushed child, then the parent's children extended
    have hsz : st'.scopes.size = st.scopes.size + 1 := by rw [← h2]; simp
    have hsc : ∀ i, st'.scope i =
        if i = parent then { st.scope parent with children := (st.scope parent).children ++ [st.scopes.size] }
        else if i = st.scopes.size then { name := name, parent := some parent, children := [], vars := [] }
        else st.scope i := by
      intro i
      rw [← h2]
      by_cases hi : i = parent
      · subst hi; simp [St.scope, hp, Nat.lt_succ_of_lt hp]
      · simp only [hi, if_false]
        simp only [St.scope, Array.getD_eq_getD_getElem?]
        rw [Array.getElem?_setIfInBounds_ne (Ne.symm hi)]
        by_cases hn : i = st.scopes.size
        · subst hn; simp
        · simp only [hn, if_false, Array.getElem?_push]
    have hne : parent ≠ st.scopes.size := Nat.ne_of_lt hp
    have wf' : ScopesWF st' := by
      constructor
      · intro i p hi hpar
        rw [hsz] at hi
        rw [hsc i] at hpar
        by_cases h1 : i = parent
        · simp only [h1, if_true] at hpar; rw [h1]; exact h.parentBelow parent p hp hpar
        · simp only [h1, if_false] at hpar
          by_cases h2' : i = st.scopes.size
          · simp only [h2', if_true] at hpar; injection hpar with e; rw [← e, h2']; exact hp
          · simp only [h2', if_false] at hpar; exact h.parentBelow i p (by omega) hpar
      · intro p c hpl hc
        rw [hsz] at hpl ⊢
        rw [hsc p] at hc
        by_cases h1 : p = parent
        · simp only [h1, if_true, List.mem_append, List.mem_singleton] at hc
          rcases hc with hc | hc
          · obtain ⟨a1, a2⟩ := h.childOk parent c hp hc
            have hcp : c ≠ parent := by
              intro e; rw [e] at a2; exact Nat.lt_irrefl _ (h.parentBelow parent parent hp a2)
            refine ⟨by omega, ?_⟩
            rw [hsc c]; simp only [hcp, if_false, Nat.ne_of_lt a1]; rw [h1]; exact a2
          · subst hc
            refine ⟨by omega, ?_⟩
            rw [hsc st.scopes.size]; simp [Ne.symm hne, h1]
        · simp only [h1, if_false] at hc
          by_cases h2' : p = st.scopes.size
          · simp only [h2', if_true] at hc; simp at hc
          · simp only [h2', if_false] at hc
            obtain ⟨a1, a2⟩ := h.childOk p c (by omega) hc
            refine ⟨by omega, ?_⟩
            rw [hsc c]
            by_cases hcp : c = parent
            · simp only [hcp, if_true]; rw [← hcp]; exact a2
            · simp only [hcp, if_false, Nat.ne_of_lt a1]; exact a2
    have hpar : (st'.scope st.scopes.size).parent = some parent := by rw [hsc]; simp [Ne.symm hne]
    refine ⟨wf', hpar, by omega, by omega, above_not_on_chain st' wf' 10000 parent _ (by omega) hp, Or.inr ⟨rfl, ?_⟩⟩
    intro i hi hip
    rw [hsc i]; simp [hip, Nat.ne_of_lt hi]

/-- chains of existing scopes only look at scopes with smaller or equal index -/
theorem chain_congr_below (st st' : St) (h : ScopesWF st) : ∀ (f sc : Nat), sc < st.scopes.size →
    (∀ t, t ≤ sc → st'.scope t = st.scope t) → st'.chain f sc = st.chain f sc := by
  intro f
  induction f with
  | zero => intro sc _ _; rfl
  | succ f ih =>
    intro sc hsc heq
    simp only [St.chain, heq sc (Nat.le_refl _)]
    cases hp : (st.scope sc).parent with
    | none => rfl
    | some p =>
      have hlt := h.parentBelow sc p hsc hp
      simp only
      rw [ih p (Nat.lt_trans hlt hsc) (fun t ht => heq t (Nat.le_trans ht (Nat.le_of_lt hlt)))]

/-- a call frame (the new index `st.scopes.size`) is on the chain of NO scope that existed before the call, whatever
    the call did to the new frame — so nothing the call defines in its frame is visible from the caller's or any
    other existing scope (`inner_not_visible_outside`) -/
theorem frame_not_on_existing_chains (st st' : St) (h : ScopesWF st) (f sc : Nat) (hsc : sc < st.scopes.size)
    (hkeep : ∀ t, t < st.scopes.size → st'.scope t = st.scope t) : st.scopes.size ∉ st'.chain f sc := by
  rw [chain_congr_below st st' h f sc hsc (fun t ht => hkeep t (Nat.lt_of_le_of_lt ht hsc))]
  exact above_not_on_chain st h f sc _ hsc hsc

/-- the initial table — one global scope — is well-formed -/
theorem wf_initial (name : String) : ScopesWF { scopes := #[{ name := name, parent := none, children := [], vars := [] }] } := by
  constructor
  · intro i p hi hp
    have : i = 0 := by simp at hi; omega
    subst this; simp [St.scope] at hp
  · intro p c hp hc
    have : p = 0 := by simp at hp; omega
    subst this; simp [St.scope] at hc

end Ecal.Ev
