import Ecal.Model.DebugCmd
/-!
No command changes the debugger's reference to the global scope (`DbgState.globalScope`):
`Keeps m`: whatever the outcome of `m`, the state it ends in has the `globalScope` flag it started with.
-/
namespace Ecal.DebugCmd

def Res.state {α : Type} : Res α → DbgState
  | .ok _ s => s
  | .panic _ s => s
  | .deadlock s => s
  | .evaluating s => s

def Keeps {α : Type} (m : M α) : Prop := ∀ s, (m s).state.globalScope = s.globalScope

theorem keeps_pure {α : Type} (a : α) : Keeps (pure a : M α) := fun _ => rfl

theorem keeps_bind {α β : Type} {m : M α} {f : α → M β} (hm : Keeps m) (hf : ∀ a, Keeps (f a)) :
    Keeps (m >>= f) := by
  intro s
  have h1 := hm s
  simp only [bind]
  cases hr : m s with
  | ok a t => rw [hr] at h1; simp only [Res.state] at h1; rw [← h1]; exact hf a t
  | panic p t => rw [hr] at h1; exact h1
  | deadlock t => rw [hr] at h1; exact h1
  | evaluating t => rw [hr] at h1; exact h1

theorem keeps_getS : Keeps getS := fun _ => rfl
theorem keeps_modS {f : DbgState → DbgState} (h : ∀ s, (f s).globalScope = s.globalScope) : Keeps (modS f) :=
  fun s => h s
theorem keeps_panicAt {α : Type} (site : String) : Keeps (panicAt site : M α) := fun _ => rfl

theorem keeps_deref (b : Bool) (site : String) : Keeps (deref b site) := by
  unfold deref; split
  · exact keeps_pure _
  · exact keeps_panicAt _

theorem keeps_idx {α : Type} (l : List α) (i : Nat) (site : String) : Keeps (idx l i site) := by
  unfold idx; split
  · exact keeps_pure _
  · exact keeps_panicAt _

theorem keeps_sliceFrom {α : Type} (l : List α) (i : Nat) (site : String) : Keeps (sliceFrom l i site) := by
  unfold sliceFrom; split
  · exact keeps_pure _
  · exact keeps_panicAt _

theorem keeps_sliceTo {α : Type} (l : List α) (n : Int) (site : String) : Keeps (sliceTo l n site) := by
  unfold sliceTo; split
  · exact keeps_pure _
  · exact keeps_panicAt _

theorem keeps_locked {α : Type} {body : M α} (hb : Keeps body) : Keeps (locked body) := by
  intro s
  simp only [locked]
  split
  · rfl
  · have h1 := hb { s with lock := 1 }
    cases hr : body { s with lock := 1 } with
    | ok a t => rw [hr] at h1; exact h1
    | panic p t => rw [hr] at h1; exact h1
    | deadlock t => rw [hr] at h1; exact h1
    | evaluating t => rw [hr] at h1; exact h1

theorem keeps_evalExpr (o : EvalOutcome) : Keeps (evalExpr o) := by
  intro s
  cases o with
  | ok => rfl
  | error => rfl
  | diverges => rfl
  | visits r => simp only [evalExpr]; split <;> rfl

/-- closes `Keeps` goals of straight-line handler code -/
syntax "keeps" : tactic
macro_rules
  | `(tactic| keeps) => `(tactic| first
    | exact keeps_pure _
    | exact keeps_getS
    | exact keeps_panicAt _
    | exact keeps_deref _ _
    | exact keeps_idx _ _ _
    | exact keeps_sliceFrom _ _ _
    | exact keeps_sliceTo _ _ _
    | exact keeps_evalExpr _
    | assumption
    | (apply keeps_modS; intro _; rfl)
    | (apply keeps_locked; keeps)
    | (apply keeps_bind; (· keeps); (· intro _; keeps))
    | (split <;> keeps)
    | (dsimp only; keeps))

theorem keeps_setBreakPoint (a : Str) (l : Int) (v : Bool) : Keeps (setBreakPoint a l v) := by
  unfold setBreakPoint; keeps
theorem keeps_removeBreakPoint (a : Str) (l : Int) : Keeps (removeBreakPoint a l) := by
  unfold removeBreakPoint; keeps
theorem keeps_breakOnStart (b : Bool) : Keeps (breakOnStart b) := by
  unfold breakOnStart; keeps
theorem keeps_continueThread (g : Guards) (tid : Nat) (ct : ContType) : Keeps (continueThread g tid ct) := by
  unfold continueThread; keeps
theorem keeps_statusOf (g : Guards) : Keeps (statusOf g) := by
  unfold statusOf; keeps
theorem keeps_lockState (g : Guards) : Keeps (lockState g) := by
  unfold lockState; keeps
theorem keeps_describeThread (g : Guards) (tid : Nat) : Keeps (describeThread g tid) := by
  unfold describeThread; keeps
theorem keeps_extractValue (tid : Nat) (a b : Str) : Keeps (extractValue tid a b) := by
  unfold extractValue; keeps
theorem keeps_setInThread (env : Env) (tid : Nat) (v : Str) (s : DbgState) (is : Interro) :
    Keeps (setInThread env tid v s is) := by
  unfold setInThread; keeps

macro_rules
  | `(tactic| keeps) => `(tactic| first
    | exact keeps_setBreakPoint _ _ _
    | exact keeps_removeBreakPoint _ _
    | exact keeps_breakOnStart _
    | exact keeps_continueThread _ _ _
    | exact keeps_describeThread _ _
    | exact keeps_extractValue _ _ _
    | exact keeps_setInThread _ _ _ _ _)

theorem keeps_injectSecond (env : Env) (tid : Nat) (v : Str) : Keeps (injectSecond env tid v) := by
  unfold injectSecond; keeps

theorem keeps_injectValue (g : Guards) (env : Env) (tid : Nat) (v e : Str) :
    Keeps (injectValue g env tid v e) := by
  have h2 := keeps_injectSecond env tid v
  unfold injectValue; keeps

theorem keeps_runSetBreak (v : Bool) (args : List Str) : Keeps (runSetBreak v args) := by
  unfold runSetBreak; keeps
theorem keeps_runRmBreak (args : List Str) : Keeps (runRmBreak args) := by
  unfold runRmBreak; keeps
theorem keeps_runBreakOnStart (args : List Str) : Keeps (runBreakOnStart args) := by
  unfold runBreakOnStart; keeps
theorem keeps_runCont (g : Guards) (args : List Str) : Keeps (runCont g args) := by
  unfold runCont; keeps
theorem keeps_runDescribe (g : Guards) (args : List Str) : Keeps (runDescribe g args) := by
  unfold runDescribe; keeps
theorem keeps_runExtract (args : List Str) : Keeps (runExtract args) := by
  unfold runExtract; keeps
theorem keeps_runInject (g : Guards) (env : Env) (args : List Str) : Keeps (runInject g env args) := by
  unfold runInject
  split
  · keeps
  · apply keeps_bind; (· keeps); intro _
    split
    · keeps
    · apply keeps_bind; (· keeps); intro _
      apply keeps_bind; (· keeps); intro _
      apply keeps_bind
      · exact keeps_injectValue g env _ _ _
      · intro _; keeps

theorem keeps_run (g : Guards) (env : Env) (c : Cmd) (args : List Str) : Keeps (c.run g env args) := by
  cases c <;> simp only [Cmd.run]
  · exact keeps_runSetBreak _ _
  · exact keeps_runBreakOnStart _
  · exact keeps_runCont _ _
  · exact keeps_runDescribe _ _
  · exact keeps_runSetBreak _ _
  · exact keeps_runExtract _
  · exact keeps_runInject _ _ _
  · exact keeps_lockState _
  · exact keeps_runRmBreak _
  · exact keeps_statusOf _

theorem keeps_handleInput (g : Guards) (env : Env) (line : Str) : Keeps (handleInput g env line) := by
  unfold handleInput
  dsimp only
  split
  · apply keeps_bind; (· keeps); intro _
    split
    · split
      · apply keeps_bind; (· keeps); intro _
        exact keeps_run g env _ _
      · exact keeps_run g env _ _
    · keeps
  · keeps

/-- no command line changes the debugger's global scope reference -/
theorem handleG_keeps_globalScope (g : Guards) (env : Env) (s : DbgState) (line : Str) :
    (handleG g env s line).1.globalScope = s.globalScope := by
  have h := keeps_handleInput g env line s
  unfold handleG
  cases hr : handleInput g env line s <;> (rw [hr] at h; exact h)

end Ecal.DebugCmd
