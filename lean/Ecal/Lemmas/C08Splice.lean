import Ecal.Lemmas.C08Pratt
/-!
C08, known finding `mul-right-brackets` made precise on the expression-level model: when `x * R` is printed
without brackets around `R` (a product / quotient with a pure chain), the printed tokens are those of the
SPLICED tree — `x` multiplied into the leftmost operand of `R`'s chain — and under re-association of `*` and `/`
the spliced tree has the same value.
-/
namespace Ecal.C08

/-- the tree the parser reads for `x * R` printed without brackets around `R`: `x` is multiplied into the
    leftmost operand of the chain of operators of `T`'s binding that fall under the exception -/
def splice (P : Powers) (exc : Nat → Nat → Bool) (T : Nat) (x : Expr) : Expr → Expr
  | .bin k l r => if P.bp k = P.bp T && exc T k then .bin k (splice P exc T x l) r else .bin T x (.bin k l r)
  | e => .bin T x e

/-- an interpretation of operator trees -/
structure Alg (α : Type) where
  atom : Nat → α
  op : Nat → α → α → α
  pre : Nat → α → α

def eval {α : Type} (A : Alg α) : Expr → α
  | .atom n => A.atom n
  | .bin k l r => A.op k (eval A l) (eval A r)
  | .pre k x => A.pre k (eval A x)

/-- **Value preserved under re-association**: if `T` re-associates with every operator under its exception
    (`x * (y * z) = (x * y) * z`, `x * (y / z) = (x * y) / z`), the spliced tree has the value of `x T R`. -/
theorem splice_value {α : Type} (A : Alg α) (P : Powers) (exc : Nat → Nat → Bool) (T : Nat)
    (hassoc : ∀ k, exc T k = true → ∀ a b c, A.op T a (A.op k b c) = A.op k (A.op T a b) c) (x : Expr) :
    ∀ R, eval A (splice P exc T x R) = eval A (.bin T x R) := by
  intro R
  induction R with
  | atom n => rfl
  | pre k y _ => rfl
  | bin k l r ihl _ =>
    simp only [splice]
    split
    · rename_i h
      simp only [Bool.and_eq_true, decide_eq_true_eq] at h
      simp only [eval] at ihl ⊢
      rw [ihl, hassoc k h.2]
    · rfl

theorem splice_head (P : Powers) (exc : Nat → Nat → Bool) (T : Nat) (x R : Expr) :
    ∃ k', (splice P exc T x R).head = .bin k' ∧ P.bp k' = P.bp T := by
  cases R with
  | atom n => exact ⟨T, rfl, rfl⟩
  | pre k y => exact ⟨T, rfl, rfl⟩
  | bin k l r =>
    simp only [splice]
    split
    · rename_i h
      simp only [Bool.and_eq_true, decide_eq_true_eq] at h
      exact ⟨k, rfl, h.1⟩
    · exact ⟨T, rfl, rfl⟩

/-- a left operand of equal binding is never parenthesised -/
theorem nb_left_equal (P : Powers) (exc : Nat → Nat → Bool) (k k' : Nat) (pure : Bool) (h : P.bp k' = P.bp k) :
    nb P exc (.bin k) (.bin k') 0 pure = false := by
  simp only [nb]
  split
  · rfl
  · simp [h]

/-- **The printed tokens of `x T R` are the printed tokens of the spliced tree** when `R`'s chain is pure
    (so that the exception leaves out the brackets), for an exception that only relates operators of equal
    binding. -/
theorem splice_print (P : Powers) (exc : Nat → Nat → Bool) (T : Nat)
    (hexcEq : ∀ K k, exc K k = true → P.bp K = P.bp k) (x : Expr) :
    ∀ R, chainPure P exc T (P.bp T) R = true →
      (annot P exc (splice P exc T x R)).flat = (annot P exc (.bin T x R)).flat := by
  intro R
  induction R with
  | atom n => intro _; rfl
  | pre k y _ => intro _; rfl
  | bin k l r ihl _ =>
    intro hp
    simp only [splice]
    split
    · rename_i hc
      simp only [Bool.and_eq_true, decide_eq_true_eq] at hc
      obtain ⟨hbk, hek⟩ := hc
      -- purity of the chain below
      have hpl : chainPure P exc T (P.bp T) l = true := by
        simp only [chainPure, hbk, if_true, Bool.and_eq_true] at hp; exact hp.2
      have ih := ihl hpl
      obtain ⟨k', hk', hbk'⟩ := splice_head P exc T x l
      -- left: the spliced left operand is not parenthesised under k
      have hL : (annot P exc (.bin k (splice P exc T x l) r)).flat =
          (annot P exc (splice P exc T x l)).flat ++
            (Tok.op k :: (wrap (nb P exc (.bin k) r.head 1 (chainPure P exc k (P.bp k) r)) (annot P exc r)).flat) := by
        simp only [annot, PExpr.flat, hk', nb_left_equal P exc k k' _ (by rw [hbk', hbk]), wrap,
          Bool.false_eq_true, if_false]
      -- right: R itself is not parenthesised under T (the exception), and l keeps its parentheses
      have hR : nb P exc (.bin T) (.bin k) 1 (chainPure P exc T (P.bp T) (.bin k l r)) = false := by
        simp only [nb, hek, hp, Bool.and_self, if_true]
      have hl : (wrap (nb P exc (.bin T) l.head 1 (chainPure P exc T (P.bp T) l)) (annot P exc l)).flat =
          (wrap (nb P exc (.bin k) l.head 0 (chainPure P exc k (P.bp k) l)) (annot P exc l)).flat := by
        cases l with
        | atom n => rfl
        | pre k2 y => simp only [Expr.head, nb, hbk]
        | bin k2 l2 r2 =>
          simp only [Expr.head]
          by_cases hb2 : P.bp k2 = P.bp T
          · -- on the chain: neither side parenthesises
            have he2 : exc T k2 = true := by
              simp only [chainPure, hb2, if_true, Bool.and_eq_true] at hpl; exact hpl.1
            have d1 : nb P exc (.bin T) (.bin k2) 1 (chainPure P exc T (P.bp T) (.bin k2 l2 r2)) = false := by
              simp only [nb, he2, hpl, Bool.and_self, if_true]
            have d2 := nb_left_equal P exc k k2 (chainPure P exc k (P.bp k) (.bin k2 l2 r2)) (by rw [hb2, hbk])
            rw [d1, d2]
          · -- off the chain: the exception applies on neither side, the comparison is the same
            have e1 : exc T k2 = false := by
              cases h : exc T k2 with
              | false => rfl
              | true => exact absurd (hexcEq T k2 h).symm hb2
            have e2 : exc k k2 = false := by
              cases h : exc k k2 with
              | false => rfl
              | true => exact absurd ((hexcEq k k2 h).symm.trans hbk) hb2
            have hne : ¬ P.bp T = P.bp k2 := fun h => hb2 h.symm
            have hne' : ¬ P.bp k = P.bp k2 := fun h => hb2 (h.symm.trans hbk)
            simp only [nb, e1, e2, Bool.false_and, Bool.false_eq_true, if_false, hne, hne', decide_false,
              Bool.false_and, Bool.or_false, hbk]
      rw [hL, ih]
      have e1 : (annot P exc (.bin T x l)).flat =
          (wrap (nb P exc (.bin T) x.head 0 (chainPure P exc T (P.bp T) x)) (annot P exc x)).flat ++
            (Tok.op T :: (wrap (nb P exc (.bin T) l.head 1 (chainPure P exc T (P.bp T) l)) (annot P exc l)).flat) := by
        simp only [annot, PExpr.flat]
      have e2 : (annot P exc (.bin T x (.bin k l r))).flat =
          (wrap (nb P exc (.bin T) x.head 0 (chainPure P exc T (P.bp T) x)) (annot P exc x)).flat ++
            (Tok.op T :: ((wrap (nb P exc (.bin k) l.head 0 (chainPure P exc k (P.bp k) l)) (annot P exc l)).flat ++
              (Tok.op k :: (wrap (nb P exc (.bin k) r.head 1 (chainPure P exc k (P.bp k) r)) (annot P exc r)).flat))) := by
        have hh : (Expr.bin k l r).head = Head.bin k := rfl
        simp only [annot, PExpr.flat]
        rw [hh, hR]
        simp only [wrap, Bool.false_eq_true, if_false, PExpr.flat]
      rw [e1, e2, hl]
      simp only [List.append_assoc, List.cons_append]
    · rfl

end Ecal.C08
