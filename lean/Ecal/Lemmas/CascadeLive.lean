import Ecal.Lemmas.CascadeAux
import Ecal.Lemmas.CascadeShared
/-!
Proof bodies of `measure_decreases`, `conc_refines`, `conc_view_reachable` (stated in
`Ecal.Props.C02`) and the lemmas of the fairness argument (`fair_run_reaches_quiescence`).
-/
namespace Ecal.Cascade

theorem measure_decreases_lem {s s' : State} {e : Event} (h : Reachable s) (he : e.internal = true)
    (hs : step s e = some s') : workLeft s' < workLeft s := by
  have hi := inv_reachable h
  have hle := hi.post_le
  cases e with
  | register => simp [Event.internal] at he
  | regHandler => simp [Event.internal] at he
  | addEvent _ _ _ => simp [Event.internal] at he
  | newChild _ => simp [Event.internal] at he
  | waitReturns => simp [Event.internal] at he
  | allErrors => simp [Event.internal] at he
  | pop w i =>
    simp only [step] at hs
    split at hs
    · split at hs
      · rename_i m hm
        split at hs
        · rename_i hph
          cases hs
          exact workLeft_setMon hm (by simp [Mon.weight, hph])
        · cases hs
      · cases hs
    · cases hs
  | ruleReturns i ok =>
    simp only [step] at hs
    split at hs
    · rename_i m hm
      split at hs
      · rename_i w r rest hph htodo
        cases hs
        apply workLeft_setMon hm
        simp only [Mon.weight, hph, htodo]
        split <;> simp
      · cases hs
    · cases hs
  | taskDone i =>
    simp only [step] at hs
    split at hs
    · rename_i m hm
      split at hs
      · rename_i w hph htodo
        split at hs
        · cases hs
          rw [workLeft_finishOne]
          exact workLeft_setMon hm (by simp [Mon.weight, hph])
        · cases hs
          exact workLeft_setMon hm (by simp [Mon.weight, hph])
      · cases hs
    · cases hs
  | setErrors i =>
    simp only [step] at hs
    split at hs
    · rename_i m hm
      split at hs
      · rename_i w hph
        cases hs
        exact workLeft_setMon hm (by simp [Mon.weight, hph])
      all_goals cases hs
    · cases hs
  | errFinish i =>
    simp only [step] at hs
    split at hs
    · rename_i m hm
      split at hs
      · rename_i w hph
        cases hs
        rw [workLeft_finishOne]
        exact workLeft_setMon hm (by simp [Mon.weight, hph])
      all_goals cases hs
    · cases hs
  | notified i =>
    simp only [step] at hs
    split at hs
    · rename_i m hm
      split at hs
      · rename_i w hph
        cases hs
        exact workLeft_setMon hm (by simp [Mon.weight, hph])
      all_goals cases hs
    · cases hs
  | dropQueue =>
    simp only [step] at hs
    split at hs
    · rename_i hc
      cases hs
      simp [workLeft, hc.1]
    · cases hs
  | post =>
    simp only [step] at hs
    split at hs
    · cases hs
    · rename_i hpp
      cases hs
      have hp0 : s.posted = 0 := by omega
      simp [workLeft, hp0]
      omega
  | observerRuns o =>
    cases o with
    | wait =>
      simp only [step] at hs
      split at hs
      · cases hs
      · rename_i hd
        cases hs
        have hp1 : s.posted = 1 := by
          by_cases hp0 : s.posted = 0
          · exact absurd (hi.pre hp0).1 hd
          · omega
        simp [workLeft, State.clearObs, hp1]
        omega
    | handler =>
      simp only [step] at hs
      split at hs
      · cases hs
      · rename_i hd
        cases hs
        have hp1 : s.posted = 1 := by
          by_cases hp0 : s.posted = 0
          · exact absurd (hi.pre hp0).2.1 hd
          · omega
        simp [workLeft, State.clearObs, hp1]
        omega
    | queue =>
      simp only [step] at hs
      split at hs
      · cases hs
      · rename_i hd
        cases hs
        have hp1 : s.posted = 1 := by
          by_cases hp0 : s.posted = 0
          · exact absurd (hi.pre hp0).2.2.1 hd
          · omega
        simp [workLeft, State.clearObs, hp1]
        omega

theorem conc_refines_lem {C C' : Conc} {r : Nat} {e : Event} (hs : Conc.step C r e = some C') :
    ∃ v v', C.view r = some v ∧ step v e = some v' ∧ C'.view r = some v' ∧
      ∀ r', r' ≠ r → C'.view r' = C.view r' := by
  simp only [Conc.step] at hs
  split at hs
  · cases hs
  · rename_i v hv
    split at hs
    · split at hs
      · cases hs
      · rename_i v' hstep
        cases hs
        have hv2 := hv
        rw [view_eq] at hv2
        obtain ⟨s0, hs0, hs0v⟩ := Option.map_eq_some_iff.mp hv2
        have hr : r < C.roots.length := (List.getElem?_eq_some_iff.mp hs0).1
        have hsf : v.sharedFields = counters C.table C.pending C.queues r := by
          rw [← hs0v]; rfl
        refine ⟨v, v', hv, hstep, ?_, ?_⟩
        · rw [view_eq, shared_roots]
          have hc := shared_counts_self { C with roots := C.roots.set r v'.local } r e v hsf
          rw [hc, ← step_shared_fields hstep]
          simp [List.getElem?_set_self hr, withCounters_local]
        · intro r' hne
          rw [view_eq, view_eq, shared_roots, shared_counts_other _ _ _ hne]
          simp [List.getElem?_set_ne (Ne.symm hne)]
    · cases hs

theorem conc_view_reachable_lem {C : Conc} (h : C.Reachable) {r : Nat} {v : State} (hv : C.view r = some v) :
    Reachable v := by
  obtain ⟨w, ff, es, hr⟩ := h
  let J (C : Conc) : Prop :=
    (∀ r', C.roots.length ≤ r' → counters C.table C.pending C.queues r' = (0, 0, 0, false, 0, 0, 0)) ∧
    (∀ r v, C.view r = some v → Reachable v)
  suffices ∀ (es : List ConcEvent) (C0 : Conc), J C0 → Conc.run C0 es = some C → J C from
    (this es _ ⟨by intro r' _; simp [Conc.init, counters, cnt], by intro r v hv; simp [Conc.init, Conc.view] at hv⟩ hr).2 r v hv
  intro es
  induction es with
  | nil => intro C0 h0 hr; simp [Conc.run] at hr; exact hr ▸ h0
  | cons e es ih =>
    intro C0 h0 hr
    simp only [Conc.run, List.foldlM_cons] at hr
    cases hstep : Conc.stepE C0 e with
    | none => simp [hstep] at hr
    | some C1 =>
      simp [hstep] at hr
      refine ih C1 ?_ hr
      cases e with
      | newRoot =>
        simp only [Conc.stepE] at hstep
        cases hstep
        constructor
        · intro r' hr'
          apply h0.1
          simp at hr'
          omega
        · intro r v hv
          rw [view_eq] at hv
          obtain ⟨s0, hs0, hs0v⟩ := Option.map_eq_some_iff.mp hv
          by_cases hlt : r < C0.roots.length
          · have hs0' : C0.roots[r]? = some s0 := by
              have : (C0.roots ++ [(Cascade.init C0.workers C0.failFirst).local])[r]? = some s0 := hs0
              rwa [List.getElem?_append_left hlt] at this
            exact h0.2 r v (by rw [view_eq, hs0']; exact congrArg some hs0v)
          · have hlen := (List.getElem?_eq_some_iff.mp hs0).1
            simp at hlen
            have hreq : r = C0.roots.length := by omega
            subst hreq
            have : (C0.roots ++ [(Cascade.init C0.workers C0.failFirst).local])[C0.roots.length]? = some s0 := hs0
            simp at this
            have hz := h0.1 C0.roots.length (Nat.le_refl _)
            have hz' : counters C0.table C0.pending C0.queues C0.roots.length = (0, 0, 0, false, 0, 0, 0) := hz
            rw [← hs0v, ← this]
            show Reachable (withCounters _ (counters C0.table C0.pending C0.queues C0.roots.length))
            rw [hz']
            exact ⟨C0.workers, C0.failFirst, [], rfl⟩
      | «at» r e =>
        simp only [Conc.stepE] at hstep
        obtain ⟨v0, v1, hv0, hs01, hv1, hoth⟩ := conc_refines_lem hstep
        have hrlt : r < C0.roots.length := by
          rw [view_eq] at hv0
          obtain ⟨s0, hs0, _⟩ := Option.map_eq_some_iff.mp hv0
          exact (List.getElem?_eq_some_iff.mp hs0).1
        have hlen : C1.roots.length = C0.roots.length := by
          simp only [Conc.step] at hstep
          rw [hv0] at hstep
          simp only at hstep
          split at hstep
          · rw [hs01] at hstep
            cases hstep
            rw [shared_roots]
            simp
          · cases hstep
        constructor
        · intro r' hr'
          rw [hlen] at hr'
          have hne : r' ≠ r := by omega
          have := h0.1 r' hr'
          simp only [Conc.step] at hstep
          rw [hv0] at hstep
          simp only at hstep
          split at hstep
          · rw [hs01] at hstep
            cases hstep
            rw [shared_counts_other _ _ _ hne]
            exact this
          · cases hstep
        · intro r' v hv
          by_cases hrr : r' = r
          · subst hrr
            rw [hv1] at hv
            cases hv
            exact reachable_step (h0.2 r' v0 hv0) hs01
          · rw [hoth r' hrr] at hv
            exact h0.2 r' v hv

/-! ### fairness argument -/

theorem conc_reachable_stepE {C C' : Conc} {e : ConcEvent} (h : C.Reachable) (hs : Conc.stepE C e = some C') :
    C'.Reachable := by
  obtain ⟨w, ff, es, hr⟩ := h
  refine ⟨w, ff, es ++ [e], ?_⟩
  simp [Conc.run, List.foldlM_append] at hr ⊢
  simp [hr, hs]

theorem exec_reachable (X : Exec) (n : Nat) : (X.C n).Reachable := by
  induction n with
  | zero => exact X.start
  | succ n ih =>
    rw [X.next n]
    cases he : X.ev n with
    | none => simpa using ih
    | some e =>
      simp only
      cases hs : Conc.stepE (X.C n) e with
      | none => simpa using ih
      | some C' => simpa using conc_reachable_stepE ih hs

theorem step_roots_length {C C' : Conc} {r : Nat} {e : Event} (hs : Conc.step C r e = some C') :
    C'.roots.length = C.roots.length := by
  simp only [Conc.step] at hs
  split at hs
  · cases hs
  · split at hs
    · split at hs
      · cases hs
      · cases hs
        rw [shared_roots]
        simp
    · cases hs

theorem sum_map_lt {l : List Nat} (hn : l.Nodup) {f g : Nat → Nat} {r : Nat} (hr : r ∈ l)
    (hlt : g r < f r) (heq : ∀ r', r' ≠ r → g r' = f r') : (l.map g).sum < (l.map f).sum := by
  induction l with
  | nil => cases hr
  | cons a l ih =>
    have hn' := List.nodup_cons.mp hn
    simp only [List.map_cons, List.sum_cons]
    by_cases ha : a = r
    · subst ha
      have : (l.map g) = (l.map f) := by
        apply List.map_congr_left
        intro x hx
        exact heq x (fun h => hn'.1 (h ▸ hx))
      rw [this]
      omega
    · have hr' : r ∈ l := by
        rcases List.mem_cons.mp hr with h | h
        · exact absurd h.symm ha
        · exact h
      have := ih hn'.2 hr'
      rw [heq a ha]
      omega

theorem sum_map_eq {l : List Nat} {f g : Nat → Nat} (heq : ∀ r', r' ∈ l → g r' = f r') :
    (l.map g).sum = (l.map f).sum := by
  rw [List.map_congr_left heq]

/-- a step of cascade `r` changes the total work exactly by the change of `r`'s own work -/
theorem work_step {C C' : Conc} {r : Nat} {e : Event} (hs : Conc.step C r e = some C') :
    ∃ v v', C.view r = some v ∧ step v e = some v' ∧
      (workLeft v' < workLeft v → C'.work < C.work) ∧ (workLeft v' = workLeft v → C'.work = C.work) := by
  obtain ⟨v, v', hv, hstep, hv', hoth⟩ := conc_refines_lem hs
  have hlen := step_roots_length hs
  have hrlt : r < C.roots.length := by
    rw [view_eq] at hv
    obtain ⟨s0, hs0, _⟩ := Option.map_eq_some_iff.mp hv
    exact (List.getElem?_eq_some_iff.mp hs0).1
  refine ⟨v, v', hv, hstep, ?_, ?_⟩
  · intro hlt
    simp only [Conc.work, hlen]
    apply sum_map_lt List.nodup_range (List.mem_range.mpr hrlt)
    · simp [Conc.viewWork, hv, hv', hlt]
    · intro r' hne
      simp [Conc.viewWork, hoth r' hne]
  · intro heq
    simp only [Conc.work, hlen]
    apply sum_map_eq
    intro r' _
    by_cases hne : r' = r
    · subst hne; simp [Conc.viewWork, hv, hv', heq]
    · simp [Conc.viewWork, hoth r' hne]

/-- events that are neither engine steps nor additions (`waitReturns`, `allErrors`) leave the work as it is -/
theorem neutral_work {v v' : State} {e : Event} (hi : e.internal = false)
    (ha : ∀ r, (ConcEvent.at r e).adds = false) (hs : step v e = some v') : workLeft v' = workLeft v := by
  cases e with
  | waitReturns =>
    simp only [step] at hs
    split at hs
    · cases hs; rfl
    · cases hs
  | allErrors => simp only [step] at hs; cases hs; rfl
  | register => have := ha 0; simp [ConcEvent.adds] at this
  | regHandler => have := ha 0; simp [ConcEvent.adds] at this
  | addEvent _ _ _ => have := ha 0; simp [ConcEvent.adds] at this
  | newChild _ => have := ha 0; simp [ConcEvent.adds] at this
  | pop _ _ => simp [Event.internal] at hi
  | ruleReturns _ _ => simp [Event.internal] at hi
  | taskDone _ => simp [Event.internal] at hi
  | setErrors _ => simp [Event.internal] at hi
  | errFinish _ => simp [Event.internal] at hi
  | notified _ => simp [Event.internal] at hi
  | dropQueue => simp [Event.internal] at hi
  | post => simp [Event.internal] at hi
  | observerRuns _ => simp [Event.internal] at hi

/-- after the additions have stopped the total work never grows, and shrinks at every engine step taken -/
theorem exec_work_step (X : Exec) {N n : Nat} (ha : X.AddsStopAt N) (hn : N ≤ n) :
    (X.C (n + 1)).work ≤ (X.C n).work ∧ (X.tookInternal n → (X.C (n + 1)).work < (X.C n).work) := by
  have hreach := exec_reachable X n
  rw [X.next n]
  cases he : X.ev n with
  | none =>
    refine ⟨Nat.le_refl _, ?_⟩
    rintro ⟨e, he', _⟩
    rw [he] at he'; cases he'
  | some e =>
    simp only
    have hadd := ha n hn e he
    cases hs : Conc.stepE (X.C n) e with
    | none =>
      refine ⟨by simp, ?_⟩
      rintro ⟨e', he', _, hsome⟩
      rw [he] at he'; cases he'
      rw [hs] at hsome; cases hsome
    | some C' =>
      simp only [Option.getD_some]
      cases e with
      | newRoot => simp [ConcEvent.adds] at hadd
      | «at» r e0 =>
        simp only [Conc.stepE] at hs
        obtain ⟨v, v', hv, hstep, hlt, heq⟩ := work_step hs
        cases hint : e0.internal with
        | true =>
          have hdec := measure_decreases_lem (conc_view_reachable_lem hreach hv) hint hstep
          exact ⟨Nat.le_of_lt (hlt hdec), fun _ => hlt hdec⟩
        | false =>
          have hneu := neutral_work hint (fun r' => by
            cases e0 <;> simp_all [ConcEvent.adds]) hstep
          refine ⟨Nat.le_of_eq (heq hneu), ?_⟩
          rintro ⟨e', he', hi', _⟩
          rw [he] at he'; cases he'
          simp [ConcEvent.internal, hint] at hi'

theorem exec_work_mono (X : Exec) {N : Nat} (ha : X.AddsStopAt N) {n : Nat} (hn : N ≤ n) (k : Nat) :
    (X.C (n + k)).work ≤ (X.C n).work := by
  induction k with
  | zero => simp
  | succ k ih =>
    have := (exec_work_step X ha (n := n + k) (by omega)).1
    have h2 : n + (k + 1) = n + k + 1 := by omega
    rw [h2]
    omega

/-- the core of the liveness proof: a fair execution in which the additions stop reaches a state in
    which no engine step is enabled -/
theorem fair_quiescence (X : Exec) (hf : X.Fair) {N : Nat} (ha : X.AddsStopAt N) :
    ∃ n, N ≤ n ∧ ¬ (X.C n).enabledInternal := by
  suffices ∀ k n, N ≤ n → (X.C n).work ≤ k → ∃ m, n ≤ m ∧ ¬ (X.C m).enabledInternal by
    obtain ⟨m, hm, hq⟩ := this _ N (Nat.le_refl _) (Nat.le_refl _)
    exact ⟨m, hm, hq⟩
  intro k
  induction k with
  | zero =>
    intro n hn hk
    by_cases hq : (X.C n).enabledInternal
    · obtain ⟨m, hm, ht⟩ := hf n hq
      obtain ⟨d, rfl⟩ := Nat.exists_eq_add_of_le hm
      have h1 := exec_work_mono X ha hn d
      have h2 := (exec_work_step X ha (n := n + d) (by omega)).2 ht
      omega
    · exact ⟨n, Nat.le_refl _, hq⟩
  | succ k ih =>
    intro n hn hk
    by_cases hq : (X.C n).enabledInternal
    · obtain ⟨m, hm, ht⟩ := hf n hq
      obtain ⟨d, rfl⟩ := Nat.exists_eq_add_of_le hm
      have h1 := exec_work_mono X ha hn d
      have h2 := (exec_work_step X ha (n := n + d) (by omega)).2 ht
      obtain ⟨m', hm', hq'⟩ := ih (n + d + 1) (by omega) (by omega)
      exact ⟨m', by omega, hq'⟩
    · exact ⟨n, Nat.le_refl _, hq⟩

/-- no engine step enabled in the shared system ⇒ none enabled in any cascade's own system (a `pop`
    refused only because its worker is busy elsewhere would leave that worker's next step enabled) -/
theorem conc_quiescent_view {C : Conc} (hq : ¬ C.enabledInternal) {r : Nat} {v : State}
    (hv : C.view r = some v) : ∀ e, e.internal = true → step v e = none := by
  intro e he
  cases hse : step v e with
  | none => rfl
  | some v' =>
    exfalso
    cases ha : C.allows e with
    | true =>
      exact hq ⟨r, e, he, by simp [Conc.step, hv, ha, hse]⟩
    | false =>
      -- only a pop can be refused by the shared system
      cases e with
      | pop w i =>
        simp only [Conc.allows, Conc.workerFree, List.all_eq_false] at ha
        obtain ⟨s', hs', hbusy⟩ := ha
        obtain ⟨r', hr', hs'r⟩ := List.mem_iff_getElem.mp hs'
        have hroot : C.roots[r']? = some s' := by simp [List.getElem?_eq_getElem hr', hs'r]
        have hb : s'.workerFree w = false := by simpa using hbusy
        simp only [State.workerFree, List.all_eq_false] at hb
        obtain ⟨m, hmem, hw⟩ := hb
        have hw' : m.phase.worker = some w := by simpa using hw
        obtain ⟨j, hj, hmj⟩ := List.mem_iff_getElem.mp hmem
        let v2 := withCounters s' (counters C.table C.pending C.queues r')
        have hv2 : C.view r' = some v2 := by rw [view_eq, hroot]; rfl
        have hget : v2.mons[j]? = some m := by
          show s'.mons[j]? = some m
          simp [List.getElem?_eq_getElem hj, hmj]
        obtain ⟨e', hi', hnp, hs2⟩ := busy_step hget hw'
        cases hs3 : step v2 e' with
        | none => simp [hs3] at hs2
        | some v3 =>
          have hal : C.allows e' = true := by cases e' <;> simp_all [Conc.allows, Event.isPop]
          exact hq ⟨r', e', hi', by simp [Conc.step, hv2, hal, hs3]⟩
      | _ => simp [Conc.allows] at ha

/-! ### fairness split into its two sources: the Go scheduler and the pool -/

/-- fairness demanded only from tick `N` on (all the liveness proof uses) -/
def Exec.FairFrom (X : Exec) (N : Nat) : Prop :=
  ∀ n, N ≤ n → (X.C n).enabledInternal → ∃ m, n ≤ m ∧ X.tookInternal m

/-- a task of some cascade waits in the queue -/
def Conc.taskQueued (C : Conc) : Prop :=
  ∃ (r : Nat) (v : State) (i : Nat) (m : Mon), C.view r = some v ∧ v.mons[i]? = some m ∧ m.phase = .queued

/-- a worker is inside a task of some cascade (running its rules, handling its error) -/
def Conc.taskRunning (C : Conc) : Prop :=
  ∃ (r : Nat) (v : State) (j : Nat) (m : Mon) (w : Nat), C.view r = some v ∧ v.mons[j]? = some m ∧ m.phase.worker = some w

/-- at tick `m` a worker takes a task from the queue -/
def Exec.tookPop (X : Exec) (m : Nat) : Prop :=
  ∃ r w i, X.ev m = some (.at r (.pop w i)) ∧ (Conc.stepE (X.C m) (.at r (.pop w i))).isSome = true

/-- SCHEDULER side (F1 of C09's header; assumed): from `N` on, whenever an engine step OTHER than a pop
    is enabled — a worker inside a task, the poster, a pending callback, the queue clean-up: a runnable
    goroutine — an engine step is eventually taken -/
def Exec.SchedFairFrom (X : Exec) (N : Nat) : Prop :=
  ∀ n, N ≤ n → (∃ r e, e.internal = true ∧ e.isPop = false ∧ ((X.C n).step r e).isSome = true) →
    ∃ m, n ≤ m ∧ X.tookInternal m

/-- POOL side (what C09 provides, see `fairFrom_of_scheduler_and_pool`): from `N` on, whenever a task
    is queued, at some later tick a worker pops a task, or a worker is inside a task (the pool is
    busy; then the scheduler side applies to that worker) -/
def Exec.PoolStartsFrom (X : Exec) (N : Nat) : Prop :=
  ∀ n, N ≤ n → (X.C n).taskQueued → ∃ m, n ≤ m ∧ (X.tookPop m ∨ (X.C m).taskRunning)

theorem queued_of_pop_enabled {C : Conc} {r w i : Nat} (h : (C.step r (.pop w i)).isSome = true) : C.taskQueued := by
  simp only [Conc.step] at h
  split at h
  · cases h
  · rename_i v hv
    split at h
    · cases hs : step v (.pop w i) with
      | none => simp [hs] at h
      | some v' =>
        simp only [step] at hs
        split at hs
        · split at hs
          · rename_i m hm
            split at hs
            · rename_i hph
              exact ⟨r, v, i, m, hv, hm, hph⟩
            · cases hs
          · cases hs
        · cases hs
    · cases h

theorem nonpop_enabled_of_running {C : Conc} (h : C.taskRunning) :
    ∃ r e, e.internal = true ∧ e.isPop = false ∧ (C.step r e).isSome = true := by
  obtain ⟨r, v, j, m, w, hv, hm, hw⟩ := h
  obtain ⟨e, hi, hnp, hs⟩ := busy_step hm hw
  cases hse : step v e with
  | none => simp [hse] at hs
  | some v' =>
    have hal : C.allows e = true := by cases e <;> simp_all [Conc.allows, Event.isPop]
    exact ⟨r, e, hi, hnp, by simp [Conc.step, hv, hal, hse]⟩

theorem tookInternal_of_tookPop {X : Exec} {m : Nat} (h : X.tookPop m) : X.tookInternal m := by
  obtain ⟨r, w, i, he, hs⟩ := h
  exact ⟨.at r (.pop w i), he, rfl, hs⟩

theorem fairFrom_of_parts {X : Exec} {N : Nat} (hs : X.SchedFairFrom N) (hp : X.PoolStartsFrom N) : X.FairFrom N := by
  intro n hn ⟨r, e, hi, hen⟩
  cases hpop : e.isPop with
  | false => exact hs n hn ⟨r, e, hi, hpop, hen⟩
  | true =>
    cases e with
    | pop w i =>
      obtain ⟨m, hnm, h⟩ := hp n hn (queued_of_pop_enabled hen)
      rcases h with h | h
      · exact ⟨m, hnm, tookInternal_of_tookPop h⟩
      · obtain ⟨m', hmm', ht⟩ := hs m (by omega) (nonpop_enabled_of_running h)
        exact ⟨m', by omega, ht⟩
    | _ => simp [Event.isPop] at hpop

/-- `fair_quiescence` with fairness demanded only from `N` on -/
theorem fair_quiescence_from (X : Exec) {N : Nat} (hf : X.FairFrom N) (ha : X.AddsStopAt N) :
    ∃ n, N ≤ n ∧ ¬ (X.C n).enabledInternal := by
  suffices ∀ k n, N ≤ n → (X.C n).work ≤ k → ∃ m, n ≤ m ∧ ¬ (X.C m).enabledInternal by
    obtain ⟨m, hm, hq⟩ := this _ N (Nat.le_refl _) (Nat.le_refl _)
    exact ⟨m, hm, hq⟩
  intro k
  induction k with
  | zero =>
    intro n hn hk
    by_cases hq : (X.C n).enabledInternal
    · obtain ⟨m, hm, ht⟩ := hf n hn hq
      obtain ⟨d, rfl⟩ := Nat.exists_eq_add_of_le hm
      have h1 := exec_work_mono X ha hn d
      have h2 := (exec_work_step X ha (n := n + d) (by omega)).2 ht
      omega
    · exact ⟨n, Nat.le_refl _, hq⟩
  | succ k ih =>
    intro n hn hk
    by_cases hq : (X.C n).enabledInternal
    · obtain ⟨m, hm, ht⟩ := hf n hn hq
      obtain ⟨d, rfl⟩ := Nat.exists_eq_add_of_le hm
      have h1 := exec_work_mono X ha hn d
      have h2 := (exec_work_step X ha (n := n + d) (by omega)).2 ht
      obtain ⟨m', hm', hq'⟩ := ih (n + d + 1) (by omega) (by omega)
      exact ⟨m', by omega, hq'⟩
    · exact ⟨n, Nat.le_refl _, hq⟩

/-! ### an execution built from a finite run

`execOfRun` turns a finite run `Conc.run C0 es = some Cf` into the infinite execution that performs
the events of `es` one per tick — every one of them is taken, none stutters — and rests afterwards. -/

theorem run_append (C0 : Conc) (l1 l2 : List ConcEvent) :
    Conc.run C0 (l1 ++ l2) = (Conc.run C0 l1).bind fun C1 => Conc.run C1 l2 := by
  simp [Conc.run, List.foldlM_append]

theorem run_take_step {C0 Cf : Conc} {es : List ConcEvent} (h : Conc.run C0 es = some Cf) {n : Nat}
    (hn : n < es.length) :
    ∃ Cn Cn1, Conc.run C0 (es.take n) = some Cn ∧ Conc.stepE Cn es[n] = some Cn1 ∧
      Conc.run C0 (es.take (n + 1)) = some Cn1 := by
  have h' : Conc.run C0 (es.take n ++ (es[n] :: es.drop (n + 1))) = some Cf := by
    rw [← List.drop_eq_getElem_cons hn, List.take_append_drop]; exact h
  rw [run_append] at h'
  cases hrun : Conc.run C0 (es.take n) with
  | none => simp [hrun] at h'
  | some Cn =>
    simp only [hrun, Option.bind_some] at h'
    simp only [Conc.run, List.foldlM_cons] at h'
    cases hstep : Conc.stepE Cn es[n] with
    | none => simp [hstep] at h'
    | some Cn1 =>
      refine ⟨Cn, Cn1, rfl, hstep, ?_⟩
      rw [List.take_succ_eq_append_getElem hn, run_append, hrun]
      simp [Conc.run, hstep]

def execState (C0 : Conc) (es : List ConcEvent) (n : Nat) : Conc := (Conc.run C0 (es.take n)).getD C0

theorem execState_step {C0 Cf : Conc} {es : List ConcEvent} (h : Conc.run C0 es = some Cf) {n : Nat}
    (hn : n < es.length) :
    Conc.stepE (execState C0 es n) es[n] = some (execState C0 es (n + 1)) := by
  obtain ⟨Cn, Cn1, h1, h2, h3⟩ := run_take_step h hn
  simp [execState, h1, h2, h3]

theorem execState_final {C0 Cf : Conc} {es : List ConcEvent} (h : Conc.run C0 es = some Cf) {n : Nat}
    (hn : es.length ≤ n) : execState C0 es n = Cf := by
  simp [execState, List.take_of_length_le hn, h]

/-- the execution that performs `es` (one event per tick, all of them succeed) and then rests -/
def execOfRun (C0 Cf : Conc) (es : List ConcEvent) (h0 : C0.Reachable) (h : Conc.run C0 es = some Cf) : Exec where
  C := execState C0 es
  ev := fun n => es[n]?
  start := by simpa [execState, Conc.run] using h0
  next := by
    intro n
    by_cases hn : n < es.length
    · simp only [List.getElem?_eq_getElem hn]
      rw [execState_step h hn]
      rfl
    · have hn' : es.length ≤ n := by omega
      simp only [List.getElem?_eq_none hn']
      rw [execState_final h hn', execState_final h (by omega)]

/-- such an execution is fair when its last event is an engine step and its final state is quiescent:
    from every tick before the end the last tick takes an engine step; afterwards nothing is enabled -/
theorem execOfRun_fair {C0 Cf : Conc} {es : List ConcEvent} (h0 : C0.Reachable) (h : Conc.run C0 es = some Cf)
    (hne : es ≠ []) (hlast : (es.getLast hne).internal = true) (hq : ¬ Cf.enabledInternal) :
    (execOfRun C0 Cf es h0 h).Fair := by
  intro n hen
  by_cases hn : n < es.length
  · have hpos : 0 < es.length := by omega
    have hm : es.length - 1 < es.length := by omega
    refine ⟨es.length - 1, by omega, es[es.length - 1], ?_, ?_, ?_⟩
    · show es[es.length - 1]? = _
      exact List.getElem?_eq_getElem hm
    · rw [List.getLast_eq_getElem] at hlast; exact hlast
    · show (Conc.stepE (execState C0 es (es.length - 1)) es[es.length - 1]).isSome = true
      rw [execState_step h hm]; rfl
  · exfalso
    have : (execOfRun C0 Cf es h0 h).C n = Cf := execState_final h (by omega)
    rw [this] at hen
    exact hq hen

/-- … and its additions stop at `N` when no event from position `N` on adds work -/
theorem execOfRun_addsStop {C0 Cf : Conc} {es : List ConcEvent} (h0 : C0.Reachable) (h : Conc.run C0 es = some Cf)
    {N : Nat} (hN : (es.drop N).all (fun e => !e.adds) = true) : (execOfRun C0 Cf es h0 h).AddsStopAt N := by
  intro n hn e he
  have he' : es[n]? = some e := he
  obtain ⟨hlt, heq⟩ := List.getElem?_eq_some_iff.mp he'
  have hmem : e ∈ es.drop N := by
    apply List.mem_drop_iff_getElem.mpr
    exact ⟨n - N, by omega, by simp [show N + (n - N) = n by omega, heq]⟩
  have := List.all_eq_true.mp hN e hmem
  simpa using this

/-! ### a concrete execution: root event + two child events, one failing, two workers -/

/-- the events of the witness run: `AddEventAndWait` on a new root (register, handler observer,
    push), worker 0 runs the root's rule which adds two children, worker 1 runs child 1 (its rule
    fails: SetErrors, Finish, error observer), worker 0 runs child 2, the last finisher posts, the
    three callbacks run, the wait returns -/
def wEvs : List ConcEvent := [.newRoot, .at 0 .register, .at 0 .regHandler, .at 0 (.addEvent 0 true [0]),
  .at 0 (.pop 0 0), .at 0 (.newChild 0), .at 0 (.addEvent 1 true [0]), .at 0 (.newChild 0), .at 0 (.addEvent 2 true [0]),
  .at 0 (.pop 1 1), .at 0 (.ruleReturns 0 true), .at 0 (.ruleReturns 1 false), .at 0 (.taskDone 0), .at 0 (.pop 0 2),
  .at 0 (.taskDone 1), .at 0 (.ruleReturns 2 true), .at 0 (.setErrors 1), .at 0 (.taskDone 2), .at 0 (.errFinish 1),
  .at 0 (.notified 1), .at 0 .dropQueue, .at 0 .post, .at 0 (.observerRuns .wait), .at 0 .waitReturns,
  .at 0 (.observerRuns .handler), .at 0 (.observerRuns .queue)]

/-- the cascade's state at the end of the witness run -/
def wEnd : State :=
  { workers := 2, failFirst := false,
    mons := [{ parent := none, phase := .done },
             { parent := some 0, phase := .done, failed := [0], err := some [0], inErrors := true },
             { parent := some 0, phase := .done }],
    unfinished := 0, posted := 1, waiting := true, handlerReg := true, released := 1, waitReturned := true,
    handlerCalls := 1 }

def wC : Conc := { workers := 2, failFirst := false, roots := [wEnd.local] }

theorem wRun : Conc.run (Conc.init 2 false) wEvs = some wC := rfl

theorem wEnd_quiescent : ∀ e, e.internal = true → step wEnd e = none := by
  intro e he
  cases e with
  | pop w i => rcases i with _ | _ | _ | i <;> simp [step, wEnd]
  | ruleReturns i ok => rcases i with _ | _ | _ | i <;> simp [step, wEnd]
  | taskDone i => rcases i with _ | _ | _ | i <;> simp [step, wEnd]
  | setErrors i => rcases i with _ | _ | _ | i <;> simp [step, wEnd]
  | errFinish i => rcases i with _ | _ | _ | i <;> simp [step, wEnd]
  | notified i => rcases i with _ | _ | _ | i <;> simp [step, wEnd]
  | dropQueue => decide
  | post => decide
  | observerRuns o => cases o <;> decide
  | _ => simp [Event.internal] at he

theorem wC_quiescent : ¬ wC.enabledInternal := by
  rintro ⟨r, e, he, hs⟩
  have hview : wC.view 0 = some wEnd := rfl
  cases r with
  | zero =>
    simp only [Conc.step, hview] at hs
    split at hs
    · rw [wEnd_quiescent e he] at hs; cases hs
    · cases hs
  | succ r => simp [Conc.step, Conc.view, wC] at hs

/-- the witness execution: one event of `wEvs` per tick, then rest -/
def wExec : Exec := execOfRun (Conc.init 2 false) wC wEvs ⟨2, false, [], rfl⟩ wRun

theorem wExec_fair : wExec.Fair :=
  execOfRun_fair _ wRun (by decide) (by decide) wC_quiescent

theorem wExec_addsStop : wExec.AddsStopAt 9 :=
  execOfRun_addsStop _ wRun (by decide)

/-- no tick of the run stutters: each of the 26 events is enabled when it is attempted -/
theorem wExec_no_stutter : ∀ n, n < 26 → ∃ e, wExec.ev n = some e ∧
    Conc.stepE (wExec.C n) e = some (wExec.C (n + 1)) := by
  intro n hn
  have hn' : n < wEvs.length := hn
  exact ⟨wEvs[n], List.getElem?_eq_getElem hn', execState_step wRun hn'⟩

theorem handed_of_roots {C : Conc}
    (h : C.roots.all (fun s => decide (0 < s.workers) && s.mons.all (fun m => m.phase != .fresh)) = true) :
    ∀ r v, C.view r = some v → 0 < v.workers ∧ ∀ m ∈ v.mons, m.phase ≠ .fresh := by
  intro r v hv
  rw [view_eq] at hv
  obtain ⟨s0, hs0, hs0v⟩ := Option.map_eq_some_iff.mp hv
  have := List.all_eq_true.mp h s0 (List.mem_of_getElem? hs0)
  simp only [Bool.and_eq_true, decide_eq_true_eq, List.all_eq_true] at this
  subst hs0v
  refine ⟨this.1, ?_⟩
  intro m hm
  have := this.2 m hm
  simpa using this


/-- the shared system at tick 9 of the witness run: the root's action is executing (worker 0), both
    children are queued, the three observers are registered -/
def wC9 : Conc :=
  { workers := 2, failFirst := false,
    roots := [{ workers := 2, failFirst := false,
                mons := [{ parent := none, phase := .running 0, todo := [0] },
                         { parent := some 0, phase := .queued, todo := [0] },
                         { parent := some 0, phase := .queued, todo := [0] }],
                unfinished := 3, waiting := true, handlerReg := true }],
    table := [(0, .wait), (0, .handler), (0, .queue)], pending := [], queues := [0] }

theorem wRun9 : Conc.run (Conc.init 2 false) (wEvs.take 9) = some wC9 := rfl

theorem wExec_at_9 : wExec.C 9 = wC9 := by
  show execState (Conc.init 2 false) wEvs 9 = wC9
  unfold execState
  rw [wRun9]
  rfl

theorem wExec_handed_at_9 : ∀ r v, (wExec.C 9).view r = some v → 0 < v.workers ∧ ∀ m ∈ v.mons, m.phase ≠ .fresh := by
  rw [wExec_at_9]
  exact handed_of_roots (by decide)

theorem wExec_final : wExec.C 26 = wC := by
  show execState (Conc.init 2 false) wEvs 26 = wC
  have hlen : wEvs.length ≤ 26 := by decide
  exact execState_final wRun hlen

theorem noQueued_of_roots {C : Conc}
    (h : C.roots.all (fun s => s.mons.all (fun m => m.phase != .queued)) = true) : ¬ C.taskQueued := by
  rintro ⟨r, v, i, m, hv, hm, hph⟩
  rw [view_eq] at hv
  obtain ⟨s0, hs0, hs0v⟩ := Option.map_eq_some_iff.mp hv
  have h1 := List.all_eq_true.mp h s0 (List.mem_of_getElem? hs0)
  subst hs0v
  have hm' : s0.mons[i]? = some m := hm
  have h2 := List.all_eq_true.mp h1 m (List.mem_of_getElem? hm')
  simp [hph] at h2

theorem wNoQueuedB : ∀ k, k < 12 →
    ((execState (Conc.init 2 false) wEvs (14 + k)).roots.all fun s => s.mons.all fun m => m.phase != .queued) = true := by
  decide

/-- after tick 13 of the witness run (the second child popped) no task is queued any more -/
theorem wExec_no_queued_after_13 : ∀ n, 14 ≤ n → ¬ (wExec.C n).taskQueued := by
  intro n hn
  by_cases h26 : 26 ≤ n
  · have hlen : wEvs.length ≤ n := by
      have : wEvs.length = 26 := by decide
      omega
    have : wExec.C n = wC := execState_final wRun hlen
    rw [this]
    exact noQueued_of_roots (by decide)
  · have hk : n - 14 < 12 := by omega
    have := wNoQueuedB (n - 14) hk
    rw [show 14 + (n - 14) = n by omega] at this
    exact noQueued_of_roots this

end Ecal.Cascade
