import Ecal.Model.ParserWF
/-!
A small Hoare logic for the parser monad `M` and the specifications of the primitive parser
actions (`advance`, `skipToken`, `acceptChild`, the look-ahead tests).
-/
namespace Ecal.Parse
open Ecal.Lex

/-- `m` started in `p`: a normal result satisfies `Q`, an error satisfies `E` -/
def Sat {α : Type} (m : M α) (p : P) (Q : α → P → Prop) (E : Err → Prop) : Prop :=
  match m p with
  | .ok a p' => Q a p'
  | .err e _ => E e

theorem bind_def {α β : Type} (m : M α) (k : α → M β) (p : P) :
    (m >>= k) p = match m p with | .ok a p' => k a p' | .err e p' => .err e p' := rfl

theorem pure_def {α : Type} (a : α) (p : P) : (pure a : M α) p = .ok a p := rfl

theorem Sat.bind {α β : Type} {m : M α} {k : α → M β} {p : P} {Q1 : α → P → Prop} {Q : β → P → Prop}
    {E1 E : Err → Prop} (h1 : Sat m p Q1 E1) (hE : ∀ e, E1 e → E e) (h2 : ∀ a p', Q1 a p' → Sat (k a) p' Q E) :
    Sat (m >>= k) p Q E := by
  unfold Sat at *
  rw [bind_def]
  cases h : m p with
  | ok a p' => rw [h] at h1; exact h2 a p' h1
  | err e p' => rw [h] at h1; exact hE e h1

theorem Sat.mono {α : Type} {m : M α} {p : P} {Q1 Q : α → P → Prop} {E1 E : Err → Prop}
    (h1 : Sat m p Q1 E1) (hE : ∀ e, E1 e → E e) (h2 : ∀ a p', Q1 a p' → Q a p') : Sat m p Q E := by
  unfold Sat at *
  cases h : m p with
  | ok a p' => rw [h] at h1; exact h2 a p' h1
  | err e p' => rw [h] at h1; exact hE e h1

theorem Sat.pure {α : Type} {a : α} {p : P} {Q : α → P → Prop} {E : Err → Prop} (h : Q a p) :
    Sat (Pure.pure a : M α) p Q E := h

theorem Sat.throw {α : Type} {e : Err} {p : P} {Q : α → P → Prop} {E : Err → Prop} (h : E e) :
    Sat (throwE e : M α) p Q E := h

theorem Sat.getP {p : P} {Q : P → P → Prop} {E : Err → Prop} (h : Q p p) : Sat getP p Q E := h

theorem Sat.modifyP {f : P → P} {p : P} {Q : Unit → P → Prop} {E : Err → Prop} (h : Q () (f p)) :
    Sat (modifyP f) p Q E := h

theorem Sat.mkNode {id : Nat} {t : Option Tok} {p : P} {Q : Node → P → Prop} {E : Err → Prop}
    (h : Q (instanceOf p.braceBlock id t) p) : Sat (mkNode id t) p Q E := h

theorem Sat.attempt {α : Type} {m : M α} {p : P} {Q : Except Err α → P → Prop} {E E' : Err → Prop}
    (h : Sat m p (fun a p' => Q (.ok a) p') E') (he : ∀ e, E' e → ∀ p', Q (.error e) p') :
    Sat (attempt m) p Q E := by
  unfold Sat at *
  unfold Ecal.Parse.attempt
  cases hm : m p with
  | ok a p' => rw [hm] at h; exact h
  | err e p' => rw [hm] at h; exact he e h p'

/-! ### node facts -/

@[simp] theorem Node.add_name (n : Node) (c) : (n.add c).name = n.name := by cases n; rfl
@[simp] theorem Node.add_tok (n : Node) (c) : (n.add c).tok = n.tok := by cases n; rfl
@[simp] theorem Node.add_children (n : Node) (c) : (n.add c).children = n.children ++ [c] := by cases n; rfl
@[simp] theorem Node.addMeta_name (n : Node) (c) : (n.addMeta c).name = n.name := by cases n; rfl
@[simp] theorem Node.addMeta_tok (n : Node) (c) : (n.addMeta c).tok = n.tok := by cases n; rfl
@[simp] theorem Node.addMeta_children (n : Node) (c) : (n.addMeta c).children = n.children := by cases n; rfl
@[simp] theorem Node.addMeta_nud (n : Node) (c) : (n.addMeta c).nud = n.nud := by cases n; rfl
@[simp] theorem Node.addMeta_led (n : Node) (c) : (n.addMeta c).led = n.led := by cases n; rfl
@[simp] theorem Node.addMeta_binding (n : Node) (c) : (n.addMeta c).binding = n.binding := by cases n; rfl
theorem Node.addMeta_addMeta (n : Node) (a b) : (n.addMeta a).addMeta b = n.addMeta (a ++ b) := by
  cases n; simp [Node.addMeta]

/-- a node as `p.next()` makes it: instance of the grammar entry of its own token, no children yet -/
def Fresh (n : Node) : Prop :=
  ∃ bb t ms, (table t.id).isSome = true ∧ n = (instanceOf bb t.id (some t)).addMeta ms

theorem Fresh.addMeta {n : Node} (h : Fresh n) (ms) : Fresh (n.addMeta ms) := by
  obtain ⟨bb, t, ms0, ht, rfl⟩ := h
  exact ⟨bb, t, ms0 ++ ms, ht, Node.addMeta_addMeta _ _ _⟩

theorem instanceOf_children (bb id t) : (instanceOf bb id t).children = [] := by
  unfold instanceOf; split
  · rfl
  · split <;> rfl

theorem instanceOf_tok (bb id t) : (instanceOf bb id t).tok = t := by
  unfold instanceOf; split
  · rfl
  · split <;> rfl

theorem Fresh.children {n : Node} (h : Fresh n) : n.children = [] := by
  obtain ⟨bb, t, ms, _, rfl⟩ := h; simp [instanceOf_children]

theorem Fresh.tok {n : Node} (h : Fresh n) : ∃ t, n.tok = some t := by
  obtain ⟨bb, t, ms, _, rfl⟩ := h; exact ⟨t, by simp [instanceOf_tok]⟩

/-- the name of a fresh node is the one the grammar table gives for its token id (except a block brace) -/
theorem Fresh.name_of_id {n : Node} (h : Fresh n) {t : Tok} (ht : n.tok = some t) {nm b x l}
    (hid : t.id ≠ 26) (htab : table t.id = some (nm, b, x, l)) : n.name = nm := by
  obtain ⟨bb, t', ms, _, rfl⟩ := h
  simp [instanceOf_tok] at ht; subst ht
  simp [instanceOf, T_LBRACE, hid, htab]
  simp [Node.name]

/-! ### state predicates -/

/-- the six error kinds of parser/parsererror.go -/
def sixKinds (k : String) : Prop :=
  k = "Unexpected end" ∨ k = "Lexical error" ∨ k = "Unknown term" ∨ k = "Term cannot start an expression" ∨
  k = "Term can only start an expression" ∨ k = "Unexpected term"

/-- what is known, per error kind, about the token an error points at (`nudless` / `ledless` refer to the grammar
    table entry of the token's id; id 26 is `{`, which has no null denotation while it starts a block) -/
def kindTok (k : String) (t : Tok) : Prop :=
  (k = "Lexical error" → t.id = 0) ∧
  (k = "Unknown term" → t.id ≠ 0 ∧ table t.id = none) ∧
  (k = "Term cannot start an expression" → t.id = 26 ∨ ∃ nm b l, table t.id = some (nm, b, .none, l)) ∧
  (k = "Term can only start an expression" → ∃ nm b x, table t.id = some (nm, b, x, .none) ∧ 0 < b)

/-- where a parser error points: at a token of the input `ts` which is not a comment token and fits the error
    kind (`kindTok`), or nowhere (line 0, pos 0) for the `Unexpected end` which `p.next()` builds from the zero
    token after the stream is exhausted -/
def EPos (ts : List Tok) : Err → Prop
  | .perr k l c => sixKinds k ∧
      ((∃ t ∈ ts, t.id ≠ 3 ∧ t.id ≠ 4 ∧ t.line = l ∧ t.col = c ∧ kindTok k t) ∨ (k = "Unexpected end" ∧ l = 0 ∧ c = 0))
  | _ => True

theorem EPos.at {ts : List Tok} {t : Tok} {k : String} (h : t ∈ ts) (hnc : t.id ≠ 3 ∧ t.id ≠ 4) (hk : sixKinds k)
    (hkt : kindTok k t) : EPos ts (errAt k t) :=
  ⟨hk, Or.inl ⟨t, h, hnc.1, hnc.2, rfl, rfl, hkt⟩⟩

/-- a fresh node's token has a grammar entry, so it is not a comment token -/
theorem Fresh.not_comment {n : Node} (h : Fresh n) {t : Tok} (ht : n.tok = some t) : t.id ≠ 3 ∧ t.id ≠ 4 := by
  obtain ⟨bb, t', ms, htab, rfl⟩ := h
  simp [instanceOf_tok] at ht; subst ht
  constructor <;> (intro hid; rw [hid] at htab; simp [table] at htab)

/-- a fresh node without null denotation: `{` (as block start) or a table entry without one -/
theorem Fresh.nud_none_tok {n : Node} (h : Fresh n) {t : Tok} (ht : n.tok = some t) (hn : n.nud = .none) :
    t.id = 26 ∨ ∃ nm b l, table t.id = some (nm, b, .none, l) := by
  obtain ⟨bb, t', ms, htab, rfl⟩ := h
  simp [instanceOf_tok] at ht; subst ht
  unfold instanceOf at hn
  split at hn
  · next hc => exact Or.inl hc.1
  · cases hv : table t'.id with
    | none => simp [hv] at htab
    | some v =>
      obtain ⟨nm, b, x, l⟩ := v
      simp [hv, Node.nud, Node.addMeta] at hn
      exact Or.inr ⟨nm, b, l, by rw [hn]⟩

/-- a fresh node without left denotation but with a positive binding is a table entry of that kind -/
theorem Fresh.led_none_tok {n : Node} (h : Fresh n) {t : Tok} (ht : n.tok = some t) (hl : n.led = .none)
    (hb : 0 < n.binding) : ∃ nm b x, table t.id = some (nm, b, x, .none) ∧ 0 < b := by
  obtain ⟨bb, t', ms, htab, rfl⟩ := h
  simp [instanceOf_tok] at ht; subst ht
  by_cases hc : t'.id = T_LBRACE ∧ bb > 0
  · simp [instanceOf, hc, Node.binding, Node.addMeta] at hb
  · cases hv : table t'.id with
    | none => simp [hv] at htab
    | some v =>
      obtain ⟨nm, b, x, l⟩ := v
      simp [instanceOf, hc, hv, Node.led, Node.binding, Node.addMeta] at hl hb
      exact ⟨nm, b, x, by rw [hl], hb⟩

/-- the token of a node is a token of the input -/
def NodeIn (ts : List Tok) (n : Node) : Prop := ∀ t, n.tok = some t → t ∈ ts

/-- the tokens still to be read are input tokens; the current node, if there is one, is fresh and carries an input token -/
def Inv (ts : List Tok) (p : P) : Prop :=
  (∀ t ∈ p.toks, t ∈ ts) ∧ ∀ n, p.node = some n → Fresh n ∧ NodeIn ts n
/-- … and there is one -/
def Cur (ts : List Tok) (p : P) : Prop := Inv ts p ∧ ∃ n, p.node = some n

theorem Inv.fresh {ts : List Tok} {p : P} (h : Inv ts p) (n : Node) (hn : p.node = some n) : Fresh n := (h.2 n hn).1
theorem Inv.nodeIn {ts : List Tok} {p : P} (h : Inv ts p) (n : Node) (hn : p.node = some n) : NodeIn ts n := (h.2 n hn).2

variable {ts : List Tok}

theorem Cur.toks {p : P} (h : Cur ts p) : ∀ t ∈ p.toks, t ∈ ts := h.1.1

theorem splitComments_sub : ∀ (l : List Tok) (pre post : List Meta) (rest : List Tok),
    splitComments l = (pre, post, rest) → ∀ t ∈ rest, t ∈ l := by
  intro l
  induction l with
  | nil => intro pre post rest h; simp [splitComments] at h; simp [h]
  | cons x xs ih =>
    intro pre post rest h
    rcases hs : splitComments xs with ⟨a, b, r⟩
    have := ih a b r hs
    simp only [splitComments, hs] at h
    split at h
    · simp at h; obtain ⟨_, _, rfl⟩ := h; intro t ht; exact List.mem_cons_of_mem _ (this t ht)
    · split at h
      · simp at h; obtain ⟨_, _, rfl⟩ := h; intro t ht; exact List.mem_cons_of_mem _ (this t ht)
      · simp at h; obtain ⟨_, _, rfl⟩ := h; intro t ht; exact ht

theorem splitComments_length : ∀ (ts : List Tok) (pre post : List Meta) (rest : List Tok),
    splitComments ts = (pre, post, rest) → rest.length ≤ ts.length := by
  intro ts
  induction ts with
  | nil => intro pre post rest h; simp [splitComments] at h; simp [h]
  | cons t ts ih =>
    intro pre post rest h
    rcases hs : splitComments ts with ⟨a, b, r⟩
    have := ih a b r hs
    simp only [splitComments, hs] at h
    split at h
    · simp at h; obtain ⟨_, _, rfl⟩ := h; simp; omega
    · split at h
      · simp at h; obtain ⟨_, _, rfl⟩ := h; simp; omega
      · simp at h; obtain ⟨_, _, rfl⟩ := h; simp

theorem splitComments_head : ∀ (l : List Tok) (pre post : List Meta) (t : Tok) (rest : List Tok),
    splitComments l = (pre, post, t :: rest) → t.id ≠ 3 ∧ t.id ≠ 4 := by
  intro l
  induction l with
  | nil => intro pre post t rest h; simp [splitComments] at h
  | cons x xs ih =>
    intro pre post t rest h
    rcases hs : splitComments xs with ⟨a, b, r⟩
    simp only [splitComments, hs] at h
    split at h
    · simp at h; obtain ⟨_, _, rfl⟩ := h; exact ih a b t rest hs
    · split at h
      · simp at h; obtain ⟨_, _, rfl⟩ := h; exact ih a b t rest hs
      · next h3 h4 => simp at h; obtain ⟨_, _, rfl, _⟩ := h; exact ⟨h3, h4⟩

theorem nextNode_spec (p : P) (hp : ∀ t ∈ p.toks, t ∈ ts) :
    Sat nextNode p (fun r p' => Fresh r.1 ∧ NodeIn ts r.1 ∧ p'.node = p.node ∧ p'.toks.length < p.toks.length ∧
        ∀ t ∈ p'.toks, t ∈ ts)
      (fun e => e ≠ .panic ∧ e ≠ .fuel ∧ EPos ts e) := by
  unfold Sat
  cases hn : nextNode p with
  | ok r p' =>
    unfold nextNode at hn
    split at hn
    · simp at hn
    · next pre post t rest hs =>
      have hl := splitComments_length _ _ _ _ hs
      have hsub := splitComments_sub _ _ _ _ hs
      split at hn
      · simp at hn
      · split at hn
        · next v hv =>
          simp at hn
          obtain ⟨rfl, rfl⟩ := hn
          refine ⟨⟨p.braceBlock, t, pre, by simp [hv], rfl⟩, ?_, rfl, ?_, ?_⟩
          · intro t' ht'
            simp [instanceOf_tok] at ht'
            subst ht'
            exact hp _ (hsub _ (by simp))
          · simp at hl ⊢; omega
          · intro t' ht'; exact hp _ (hsub _ (by simp [ht']))
        · simp at hn
  | err e p' =>
    unfold nextNode at hn
    split at hn
    · simp at hn; obtain ⟨rfl, _⟩ := hn
      exact ⟨by simp, by simp, by simp [sixKinds], Or.inr ⟨rfl, rfl, rfl⟩⟩
    · next pre post t rest hs =>
      have hsub := splitComments_sub _ _ _ _ hs
      have hmem : t ∈ ts := hp _ (hsub _ (by simp))
      have hnc := splitComments_head _ _ _ _ _ hs
      split at hn
      · next hid0 =>
        simp at hn; obtain ⟨rfl, _⟩ := hn
        exact ⟨by simp [errAt], by simp [errAt], EPos.at hmem hnc (by simp [sixKinds]) (by simp [kindTok, hid0])⟩
      · next hid0 =>
        split at hn
        · simp at hn
        · next hnone =>
          simp at hn; obtain ⟨rfl, _⟩ := hn
          exact ⟨by simp [errAt], by simp [errAt], EPos.at hmem hnc (by simp [sixKinds]) (by simp [kindTok, hid0, hnone])⟩

/-- errors of the primitive actions: parser errors only -/
abbrev EPrim (ts : List Tok) (e : Err) : Prop := e ≠ .panic ∧ e ≠ .fuel ∧ EPos ts e
/-- errors of a fuel-indexed function called with fuel `f` in state `p`: never a nil dereference, and
    not the fuel marker if the fuel covers `4·(tokens left) + c` -/
abbrev EFuel (ts : List Tok) (p : P) (c f : Nat) (e : Err) : Prop :=
  e ≠ .panic ∧ (4 * p.toks.length + c ≤ f → e ≠ .fuel) ∧ EPos ts e

theorem EPrim.toFuel {p c f e} (h : EPrim ts e) : EFuel ts p c f e := ⟨h.1, fun _ => h.2.1, h.2.2⟩

theorem advance_spec (p : P) (hp : ∀ t ∈ p.toks, t ∈ ts) :
    Sat advance p (fun _ p' => Cur ts p' ∧ p'.toks.length < p.toks.length) (EPrim ts) := by
  have h := nextNode_spec p hp
  unfold Sat at *
  unfold advance
  cases hn : nextNode p with
  | ok r p' =>
    rw [hn] at h; obtain ⟨n, post⟩ := r
    exact ⟨⟨⟨h.2.2.2.2, fun m hm => by simp at hm; subst hm; exact ⟨h.1, h.2.1⟩⟩, n, rfl⟩, h.2.2.2.1⟩
  | err e p' => rw [hn] at h; exact h

theorem cur_spec {p : P} (h : Cur ts p) : Sat cur p (fun n p' => p = p' ∧ p.node = some n ∧ Fresh n ∧ NodeIn ts n) (EPrim ts) := by
  obtain ⟨hi, n, hn⟩ := h
  unfold Sat cur; rw [hn]; exact ⟨rfl, rfl, hi.fresh n hn, hi.nodeIn n hn⟩

theorem tokOf_spec {n : Node} {t : Tok} (p : P) (h : n.tok = some t) :
    Sat (tokOf n) p (fun a p' => p = p' ∧ a = t) (EPrim ts) := by
  unfold Sat tokOf; rw [h]; exact ⟨rfl, rfl⟩

theorem curId_spec {p : P} (h : Cur ts p) :
    Sat curId p (fun id p' => p = p' ∧ ∃ n t, p.node = some n ∧ Fresh n ∧ n.tok = some t ∧ t.id = id) (EPrim ts) := by
  unfold curId
  apply Sat.bind (cur_spec h) (fun _ h => h)
  rintro n p' ⟨rfl, hn, hf, hin⟩
  obtain ⟨t, ht⟩ := hf.tok
  apply Sat.bind (tokOf_spec _ ht) (fun _ h => h)
  rintro t' p'' ⟨rfl, rfl⟩
  exact Sat.pure ⟨rfl, n, t', hn, hf, ht, rfl⟩

theorem skipToken_spec {p : P} (ids : List Nat) (h : Cur ts p) :
    Sat (skipToken ids) p (fun _ p' => Cur ts p' ∧ p'.toks.length < p.toks.length) (EPrim ts) := by
  unfold skipToken
  apply Sat.bind (cur_spec h) (fun _ h => h)
  rintro n p' ⟨rfl, hn, hf, hin⟩
  obtain ⟨t, ht⟩ := hf.tok
  apply Sat.bind (tokOf_spec _ ht) (fun _ h => h)
  rintro t' p'' ⟨rfl, rfl⟩
  split
  · split
    · exact Sat.throw ⟨by simp [errAt], by simp [errAt], EPos.at (hin _ ht) (hf.not_comment ht) (by simp [sixKinds]) (by simp [kindTok])⟩
    · exact Sat.throw ⟨by simp [errAt], by simp [errAt], EPos.at (hin _ ht) (hf.not_comment ht) (by simp [sixKinds]) (by simp [kindTok])⟩
  · apply Sat.bind (advance_spec _ (Cur.toks (by assumption))) (fun _ h => h)
    intro _ p2 h2
    exact Sat.pure h2

theorem acceptChild_spec {p : P} (id : Nat) (h : Cur ts p) :
    Sat (acceptChild id) p (fun c p' => Cur ts p' ∧ p'.toks.length < p.toks.length ∧ Fresh c ∧
      ∃ t, c.tok = some t ∧ t.id = id) (EPrim ts) := by
  unfold acceptChild
  apply Sat.bind (Sat.getP (Q := fun a p' => a = p ∧ p' = p) ⟨rfl, rfl⟩) (fun _ h => h)
  rintro _ _ ⟨rfl, rfl⟩
  apply Sat.bind (advance_spec _ (Cur.toks (by assumption))) (fun _ h => h)
  intro post p2 ⟨hc, hl⟩
  obtain ⟨hi, n, hn⟩ := h
  simp only [hn]
  have hf := (hi.fresh n hn).addMeta post
  have hin : NodeIn ts (n.addMeta post) := fun t h => hi.nodeIn n hn t (by simpa using h)
  obtain ⟨t, ht⟩ := hf.tok
  apply Sat.bind (tokOf_spec _ ht) (fun _ h => h)
  rintro t' p'' ⟨rfl, rfl⟩
  split
  · next hid => exact Sat.pure ⟨hc, hl, hf, t', ht, hid⟩
  · exact Sat.throw ⟨by simp [errAt], by simp [errAt], EPos.at (hin _ ht) (hf.not_comment ht) (by simp [sixKinds]) (by simp [kindTok])⟩

theorem isNotEndAndNotTokens_spec {p : P} (ids : List Nat) (h : Cur ts p) :
    Sat (isNotEndAndNotTokens ids) p (fun _ p' => p = p') (EPrim ts) := by
  unfold isNotEndAndNotTokens
  apply Sat.bind (Sat.getP (Q := fun a p' => a = p ∧ p' = p) ⟨rfl, rfl⟩) (fun _ h => h)
  rintro _ _ ⟨rfl, rfl⟩
  obtain ⟨hi, n, hn⟩ := h
  simp only [hn]
  split
  · exact Sat.pure rfl
  · obtain ⟨t, ht⟩ := (hi.fresh n hn).tok
    apply Sat.bind (tokOf_spec _ ht) (fun _ h => h)
    rintro t' p'' ⟨rfl, rfl⟩
    exact Sat.pure rfl

theorem isNotEndAndToken_spec {p : P} (id : Nat) (h : Cur ts p) :
    Sat (isNotEndAndToken id) p (fun _ p' => p = p') (EPrim ts) := by
  unfold isNotEndAndToken
  apply Sat.bind (Sat.getP (Q := fun a p' => a = p ∧ p' = p) ⟨rfl, rfl⟩) (fun _ h => h)
  rintro _ _ ⟨rfl, rfl⟩
  obtain ⟨hi, n, hn⟩ := h
  simp only [hn]
  split
  · exact Sat.pure rfl
  · obtain ⟨t, ht⟩ := (hi.fresh n hn).tok
    apply Sat.bind (tokOf_spec _ ht) (fun _ h => h)
    rintro t' p'' ⟨rfl, rfl⟩
    exact Sat.pure rfl

theorem hasMoreStatements_spec {p : P} {current : Node} {ct : Tok} (hct : current.tok = some ct) (h : Cur ts p) :
    Sat (hasMoreStatements current) p (fun _ p' => p = p') (EPrim ts) := by
  unfold hasMoreStatements
  apply Sat.bind (Sat.getP (Q := fun a p' => a = p ∧ p' = p) ⟨rfl, rfl⟩) (fun _ h => h)
  rintro _ _ ⟨rfl, rfl⟩
  obtain ⟨hi, n, hn⟩ := h
  simp only [hn]
  obtain ⟨t, ht⟩ := (hi.fresh n hn).tok
  apply Sat.bind (tokOf_spec _ ht) (fun _ h => h)
  rintro t' p'' ⟨rfl, rfl⟩
  split
  · exact Sat.pure rfl
  · split
    · exact Sat.pure rfl
    · apply Sat.bind (tokOf_spec _ hct) (fun _ h => h)
      rintro t' p'' ⟨rfl, rfl⟩
      exact Sat.pure rfl

theorem curIsNot_spec {p : P} (id : Nat) (h : Cur ts p) :
    Sat (curIsNot id) p (fun _ p' => p = p') (EPrim ts) := by
  unfold curIsNot
  apply Sat.bind (Sat.getP (Q := fun a p' => a = p ∧ p' = p) ⟨rfl, rfl⟩) (fun _ h => h)
  rintro _ _ ⟨rfl, rfl⟩
  obtain ⟨hi, n, hn⟩ := h
  simp only [hn]
  obtain ⟨t, ht⟩ := (hi.fresh n hn).tok
  apply Sat.bind (tokOf_spec _ ht) (fun _ h => h)
  rintro t' p'' ⟨rfl, rfl⟩
  exact Sat.pure rfl

theorem skipOpt_spec {p : P} (id : Nat) (h : Cur ts p) :
    Sat (skipOpt id) p (fun _ p' => Cur ts p' ∧ p'.toks.length ≤ p.toks.length) (EPrim ts) := by
  unfold skipOpt
  apply Sat.bind (curId_spec h) (fun _ h => h)
  rintro id p' ⟨rfl, _⟩
  split
  · exact Sat.mono (skipToken_spec _ h) (fun _ h => h) (fun _ _ h => ⟨h.1, Nat.le_of_lt h.2⟩)
  · exact Sat.pure ⟨h, Nat.le_refl _⟩

theorem skipComma_spec {p : P} (h : Cur ts p) :
    Sat skipComma p (fun _ p' => Cur ts p' ∧ p'.toks.length ≤ p.toks.length) (EPrim ts) := skipOpt_spec _ h

/-- `Cur` and the token list do not depend on the block-start counter -/
theorem withBraceBlock_spec {p : P} {m : M Node} {R : Node → Prop} {E : Err → Prop} {k : Nat} (h : Cur ts p)
    (hm : ∀ q, Cur ts q → q.toks = p.toks → Sat m q (fun a q' => Cur ts q' ∧ q'.toks.length < k ∧ R a) E) :
    Sat (withBraceBlock m) p (fun a p' => Cur ts p' ∧ p'.toks.length < k ∧ R a) E := by
  unfold withBraceBlock
  apply Sat.bind (Sat.modifyP (Q := fun _ q => Cur ts q ∧ q.toks = p.toks) ⟨h, rfl⟩) (fun _ h => h)
  rintro _ q ⟨hq, hqt⟩
  apply Sat.bind (E1 := fun _ => False) (Q1 := fun r q' => match r with
      | .ok a => Cur ts q' ∧ q'.toks.length < k ∧ R a
      | .error e => E e) _ (fun _ h => h.elim)
  · rintro r q' hr
    apply Sat.bind (Sat.modifyP (Q := fun _ q'' => match r with
      | .ok a => Cur ts q'' ∧ q''.toks.length < k ∧ R a
      | .error e => E e) (by cases r <;> exact hr)) (fun _ h => h)
    rintro _ q'' hr'
    cases r with
    | ok a => exact Sat.pure hr'
    | error e => exact Sat.throw hr'
  · exact Sat.attempt (E' := E) (hm q hq hqt) (fun e he _ => he)

end Ecal.Parse
