import Ecal.Model.DebugCmd
/-!
`evaluating` (a command that has not returned because it evaluates the expression handed to
`inject`) has exactly one source: `evalExpr` on an expression whose outcome is `diverges`.
`NoEval m`: `m` never ends in `evaluating`.
-/
namespace Ecal.DebugCmd

def NoEval {α : Type} (m : M α) : Prop := ∀ s s', m s ≠ .evaluating s'

theorem noEval_pure {α : Type} (a : α) : NoEval (pure a : M α) := by
  intro s s' h; cases h

theorem noEval_bind {α β : Type} {m : M α} {f : α → M β} (hm : NoEval m) (hf : ∀ a, NoEval (f a)) :
    NoEval (m >>= f) := by
  intro s s' h
  simp only [bind] at h
  cases hr : m s with
  | ok a t => rw [hr] at h; exact hf a t s' h
  | panic p t => rw [hr] at h; cases h
  | deadlock t => rw [hr] at h; cases h
  | evaluating t => exact hm s t hr

theorem noEval_getS : NoEval getS := by intro s s' h; cases h
theorem noEval_modS (f : DbgState → DbgState) : NoEval (modS f) := by intro s s' h; cases h
theorem noEval_panicAt {α : Type} (site : String) : NoEval (panicAt site : M α) := by intro s s' h; cases h

theorem noEval_deref (b : Bool) (site : String) : NoEval (deref b site) := by
  unfold deref; split
  · exact noEval_pure _
  · exact noEval_panicAt _

theorem noEval_idx {α : Type} (l : List α) (i : Nat) (site : String) : NoEval (idx l i site) := by
  unfold idx; split
  · exact noEval_pure _
  · exact noEval_panicAt _

theorem noEval_sliceFrom {α : Type} (l : List α) (i : Nat) (site : String) : NoEval (sliceFrom l i site) := by
  unfold sliceFrom; split
  · exact noEval_pure _
  · exact noEval_panicAt _

theorem noEval_sliceTo {α : Type} (l : List α) (n : Int) (site : String) : NoEval (sliceTo l n site) := by
  unfold sliceTo; split
  · exact noEval_pure _
  · exact noEval_panicAt _

theorem noEval_locked {α : Type} {body : M α} (hb : NoEval body) : NoEval (locked body) := by
  intro s s' h
  simp only [locked] at h
  split at h
  · cases h
  · cases hr : body { s with lock := 1 } with
    | ok a t => rw [hr] at h; cases h
    | panic p t => rw [hr] at h; cases h
    | deadlock t => rw [hr] at h; cases h
    | evaluating t => exact hb _ t hr

theorem noEval_evalExpr {o : EvalOutcome} (h : o ≠ .diverges) : NoEval (evalExpr o) := by
  intro s s' hr
  cases o with
  | ok => cases hr
  | error => cases hr
  | diverges => exact h rfl
  | visits r =>
    simp only [evalExpr] at hr
    split at hr <;> cases hr

/-- closes `NoEval` goals of straight-line handler code -/
syntax "noeval" : tactic
macro_rules
  | `(tactic| noeval) => `(tactic| first
    | exact noEval_pure _
    | exact noEval_getS
    | exact noEval_modS _
    | exact noEval_panicAt _
    | exact noEval_deref _ _
    | exact noEval_idx _ _ _
    | exact noEval_sliceFrom _ _ _
    | exact noEval_sliceTo _ _ _
    | assumption
    | (apply noEval_locked; noeval)
    | (apply noEval_bind; (· noeval); (· intro _; noeval))
    | (split <;> noeval)
    | (dsimp only; noeval))

theorem noEval_setBreakPoint (a : Str) (l : Int) (v : Bool) : NoEval (setBreakPoint a l v) := by
  unfold setBreakPoint; noeval
theorem noEval_removeBreakPoint (a : Str) (l : Int) : NoEval (removeBreakPoint a l) := by
  unfold removeBreakPoint; noeval
theorem noEval_breakOnStart (b : Bool) : NoEval (breakOnStart b) := by
  unfold breakOnStart; noeval
theorem noEval_continueThread (g : Guards) (tid : Nat) (ct : ContType) : NoEval (continueThread g tid ct) := by
  unfold continueThread; noeval
theorem noEval_statusOf (g : Guards) : NoEval (statusOf g) := by
  unfold statusOf; noeval
theorem noEval_lockState (g : Guards) : NoEval (lockState g) := by
  unfold lockState; noeval
theorem noEval_describeThread (g : Guards) (tid : Nat) : NoEval (describeThread g tid) := by
  unfold describeThread; noeval
theorem noEval_extractValue (tid : Nat) (a b : Str) : NoEval (extractValue tid a b) := by
  unfold extractValue; noeval
theorem noEval_setInThread (env : Env) (tid : Nat) (v : Str) (s : DbgState) (is : Interro) :
    NoEval (setInThread env tid v s is) := by
  unfold setInThread; noeval

macro_rules
  | `(tactic| noeval) => `(tactic| first
    | exact noEval_setBreakPoint _ _ _
    | exact noEval_removeBreakPoint _ _
    | exact noEval_breakOnStart _
    | exact noEval_continueThread _ _ _
    | exact noEval_describeThread _ _
    | exact noEval_extractValue _ _ _
    | exact noEval_setInThread _ _ _ _ _)

theorem noEval_injectSecond (env : Env) (tid : Nat) (v : Str) : NoEval (injectSecond env tid v) := by
  have hs := noEval_setInThread env tid v
  unfold injectSecond; noeval

theorem noEval_injectValue (g : Guards) (env : Env) (tid : Nat) (v e : Str) (h : env.eval e ≠ .diverges) :
    NoEval (injectValue g env tid v e) := by
  have he := noEval_evalExpr h
  have h2 := noEval_injectSecond env tid v
  unfold injectValue; noeval


/-- no expression handed to `inject` diverges -/
def Terminating (env : Env) : Prop := ∀ e, env.eval e ≠ .diverges

theorem noEval_runSetBreak (v : Bool) (args : List Str) : NoEval (runSetBreak v args) := by
  unfold runSetBreak; noeval
theorem noEval_runRmBreak (args : List Str) : NoEval (runRmBreak args) := by
  unfold runRmBreak; noeval
theorem noEval_runBreakOnStart (args : List Str) : NoEval (runBreakOnStart args) := by
  unfold runBreakOnStart; noeval
theorem noEval_runCont (g : Guards) (args : List Str) : NoEval (runCont g args) := by
  unfold runCont; noeval
theorem noEval_runDescribe (g : Guards) (args : List Str) : NoEval (runDescribe g args) := by
  unfold runDescribe; noeval
theorem noEval_runExtract (args : List Str) : NoEval (runExtract args) := by
  unfold runExtract; noeval
theorem noEval_runInject (g : Guards) (env : Env) (args : List Str) (ht : Terminating env) :
    NoEval (runInject g env args) := by
  unfold runInject
  split
  · noeval
  · apply noEval_bind; (· noeval); intro _
    split
    · noeval
    · apply noEval_bind; (· noeval); intro _
      apply noEval_bind; (· noeval); intro _
      apply noEval_bind
      · exact noEval_injectValue g env _ _ _ (ht _)
      · intro _; noeval

theorem noEval_run (g : Guards) (env : Env) (c : Cmd) (args : List Str) (ht : Terminating env) :
    NoEval (c.run g env args) := by
  cases c <;> simp only [Cmd.run]
  · exact noEval_runSetBreak _ _
  · exact noEval_runBreakOnStart _
  · exact noEval_runCont _ _
  · exact noEval_runDescribe _ _
  · exact noEval_runSetBreak _ _
  · exact noEval_runExtract _
  · exact noEval_runInject _ _ _ ht
  · exact noEval_lockState _
  · exact noEval_runRmBreak _
  · exact noEval_statusOf _

theorem noEval_handleInput (g : Guards) (env : Env) (line : Str) (ht : Terminating env) :
    NoEval (handleInput g env line) := by
  unfold handleInput
  dsimp only
  split
  · apply noEval_bind; (· noeval); intro _
    split
    · split
      · apply noEval_bind; (· noeval); intro _
        exact noEval_run g env _ _ ht
      · exact noEval_run g env _ _ ht
    · noeval
  · noeval

end Ecal.DebugCmd
