import Ecal.Lemmas.PoolTasks
/-! Enabledness of pool-internal steps: every worker that is not parked in `Wait` (and does not
need the lock while somebody else holds it) has a step. -/
namespace Ecal.Pool

theorem length_eq_sum (pcs : List PC) :
    pcs.length = cntOf pcs .head + cntOf pcs .chkT + cntOf pcs .chkF + cntOf pcs .run + cntOf pcs .noTask + cntOf pcs .idleReg
      + cntOf pcs .hasL + cntOf pcs .readQT + cntOf pcs .readQF + cntOf pcs .readKT + cntOf pcs .willWait + cntOf pcs .waiting
      + cntOf pcs .woken + cntOf pcs .unlocking + cntOf pcs .unreg + cntOf pcs .drained + cntOf pcs .exiting
      + cntOf pcs .gone := by
  induction pcs with
  | nil => simp [cntOf]
  | cons x xs ih =>
    simp only [cntOf_cons, List.length_cons, ih]
    cases x <;> simp [PC.cls] <;> (try (rename_i b; cases b <;> simp)) <;> omega

theorem exists_of_cntOf_pos {pcs : List PC} {c : Cls} (h : 0 < cntOf pcs c) :
    ∃ (i : Nat) (p : PC), pcs[i]? = some p ∧ p.cls = c := by
  simp only [cntOf, List.countP_pos_iff] at h
  obtain ⟨p, hp, hc⟩ := h
  obtain ⟨i, hi⟩ := List.getElem?_of_mem hp
  exact ⟨i, p, hi, by simpa using hc⟩

theorem lt_of_getElem? {pcs : List PC} {i : Nat} {p : PC} (h : pcs[i]? = some p) : i < pcs.length := by
  rcases Nat.lt_or_ge i pcs.length with h' | h'
  · exact h'
  · simp [List.getElem?_eq_none h'] at h

/-- `task.Run` returning: the only internal event whose occurrence depends on the task's code -/
def isFinish : Event → Bool
  | .finish _ => true
  | _ => false

/-- events the pool performs on its own: worker steps and the rest of calls already in flight
    (not: a new AddTask / SetWorkerCount / JoinAll, a polling broadcast) -/
def isInternal : Event → Bool
  | .aPush _ | .swcUp _ | .swcDown _ | .swcSet _ | .joinKill | .bcast => false
  | _ => true

/-- a worker takes a task from the queue = the task is started -/
def isPop : Event → Bool
  | .pop _ _ => true
  | _ => false

/-- a worker takes a kill request (workerKill--) and leaves -/
def isKillExit : Event → Bool
  | .killExit _ => true
  | _ => false

theorem isKillExit_abs (s : State) (e : Event) : (absEvent s e).isKillExit = isKillExit e := by
  cases e with
  | readQ i =>
    simp only [absEvent, isKillExit]
    generalize s.pcs[i]? = o
    rcases o with _ | p
    · rfl
    · cases p <;> first | rfl | (rename_i b; cases b <;> rfl)
  | readKill i =>
    simp only [absEvent, isKillExit]
    generalize s.pcs[i]? = o
    rcases o with _ | p
    · rfl
    · cases p <;> first | rfl | (rename_i b; cases b <;> rfl)
  | _ => simp [absEvent, CEvent.isKillExit, isKillExit]

theorem internal_abs (s : State) (e : Event) : (absEvent s e).internal = isInternal e := by
  cases e with
  | readQ i =>
    simp only [absEvent, isInternal]
    generalize s.pcs[i]? = o
    rcases o with _ | p
    · rfl
    · cases p <;> first | rfl | (rename_i b; cases b <;> rfl)
  | readKill i =>
    simp only [absEvent, isInternal]
    generalize s.pcs[i]? = o
    rcases o with _ | p
    · rfl
    · cases p <;> first | rfl | (rename_i b; cases b <;> rfl)
  | _ => simp [absEvent, CEvent.internal, isInternal]

theorem isPop_abs (s : State) (e : Event) : (absEvent s e).isPop = isPop e := by
  cases e with
  | readQ i =>
    simp only [absEvent, isPop]
    generalize s.pcs[i]? = o
    rcases o with _ | p
    · rfl
    · cases p <;> first | rfl | (rename_i b; cases b <;> rfl)
  | readKill i =>
    simp only [absEvent, isPop]
    generalize s.pcs[i]? = o
    rcases o with _ | p
    · rfl
    · cases p <;> first | rfl | (rename_i b; cases b <;> rfl)
  | _ => simp [absEvent, CEvent.isPop, isPop]

theorem mem_internal_worker {s : State} {i : Nat} {e : Event} (hi : i < s.pcs.length)
    (he : e ∈ workerEvents i s) : e ∈ internalEvents s := by
  simp only [internalEvents, List.mem_append, List.mem_flatMap, List.mem_range]
  exact Or.inl ⟨i, hi, Or.inl he⟩

/-- a worker that is not parked (`waiting`), not gone, and does not need `L` while it is taken can step -/
theorem worker_enabled {s : State} {i : Nat} {p : PC} (h : s.pcs[i]? = some p)
    (hb : p.cls ≠ .waiting ∧ p.cls ≠ .gone ∧ p.cls ≠ .run)
    (hl : lockFree s = true ∨ (p.cls ≠ .idleReg ∧ p.cls ≠ .woken)) :
    ∃ e ∈ internalEvents s, isFinish e = false ∧ (step repaired s e).isSome := by
  have hlt := lt_of_getElem? h
  cases p with
  | head =>
    by_cases hk : 0 < s.kill
    · exact ⟨.killExit i, mem_internal_worker hlt (by simp [workerEvents]), rfl, by simp [step, h, hk]⟩
    · exact ⟨.killPass i, mem_internal_worker hlt (by simp [workerEvents]), rfl, by simp [step, h, hk]⟩
  | chk ok =>
    cases hq : s.queue with
    | nil => exact ⟨.popNone i, mem_internal_worker hlt (by simp [workerEvents]), rfl, by simp [step, h, hq]⟩
    | cons t rest =>
      exact ⟨.pop i t, mem_internal_worker hlt (by simp [workerEvents, hq]), rfl, by simp [step, h, hq]⟩
  | run t => simp [PC.cls] at hb
  | noTask => exact ⟨.regIdle i, mem_internal_worker hlt (by simp [workerEvents]), rfl, by simp [step, h]⟩
  | drained => exact ⟨.drainExit i, mem_internal_worker hlt (by simp [workerEvents]), rfl, by simp [step, h]⟩
  | idleReg =>
    have hf : lockFree s = true := by
      rcases hl with hl | hl
      · exact hl
      · simp [PC.cls] at hl
    exact ⟨.wLock i, mem_internal_worker hlt (by simp [workerEvents]), rfl, by simp [step, h, hf]⟩
  | hasL => exact ⟨.readQ i, mem_internal_worker hlt (by simp [workerEvents]), rfl, by simp [step, h]⟩
  | readQ b => exact ⟨.readKill i, mem_internal_worker hlt (by simp [workerEvents]), rfl, by simp [step, h]⟩
  | readK z => exact ⟨.readQ i, mem_internal_worker hlt (by simp [workerEvents]), rfl, by simp [step, h]⟩
  | willWait => exact ⟨.wWait i, mem_internal_worker hlt (by simp [workerEvents]), rfl, by simp [step, h]⟩
  | waiting => simp [PC.cls] at hb
  | woken =>
    have hf : lockFree s = true := by
      rcases hl with hl | hl
      · exact hl
      · simp [PC.cls] at hl
    exact ⟨.wRelock i, mem_internal_worker hlt (by simp [workerEvents]), rfl, by simp [step, h, hf]⟩
  | unlocking => exact ⟨.wUnlock i, mem_internal_worker hlt (by simp [workerEvents]), rfl, by simp [step, h]⟩
  | unreg => exact ⟨.unregIdle i, mem_internal_worker hlt (by simp [workerEvents]), rfl, by simp [step, h]⟩
  | exiting => exact ⟨.exit i, mem_internal_worker hlt (by simp [workerEvents]), rfl, by simp [step, h]⟩
  | gone => simp [PC.cls] at hb

/-- a worker running a task: the return of the task is a pool-internal event -/
theorem run_enabled {s : State} (hc : 0 < cntOf s.pcs .run) :
    ∃ e ∈ internalEvents s, (step repaired s e).isSome := by
  obtain ⟨i, p, hi, hcls⟩ := exists_of_cntOf_pos hc
  have hlt := lt_of_getElem? hi
  cases p with
  | run t => exact ⟨.finish i, mem_internal_worker hlt (by simp [workerEvents]), by simp [step, hi]⟩
  | chk b => cases b <;> simp [PC.cls] at hcls
  | readQ b => cases b <;> simp [PC.cls] at hcls
  | readK b => cases b <;> simp [PC.cls] at hcls
  | _ => simp [PC.cls] at hcls

theorem class_enabled {s : State} (c : Cls) (hc : 0 < cntOf s.pcs c)
    (hb : c ≠ .waiting ∧ c ≠ .gone ∧ c ≠ .run) (hl : lockFree s = true ∨ (c ≠ .idleReg ∧ c ≠ .woken)) :
    ∃ e ∈ internalEvents s, isFinish e = false ∧ (step repaired s e).isSome := by
  obtain ⟨i, p, hi, rfl⟩ := exists_of_cntOf_pos hc
  exact worker_enabled hi hb hl

/-- the only states of the repaired pool in which no internal step other than the return of a task is
    enabled: every worker runs a task, is parked in `Wait` or gone, and nothing is in flight -/
theorem enabled_or_parked {s : State} (hr : Reachable repaired s) :
    (∃ e ∈ internalEvents s, isFinish e = false ∧ (step repaired s e).isSome) ∨
    (s.pcs.length = cntOf s.pcs .run + cntOf s.pcs .waiting + cntOf s.pcs .gone ∧ (abs s).inflight = 0) := by
  have hinv := inv_reachable hr
  have hx := hinv.excl
  simp only [abs, holders] at hx
  have hlen := length_eq_sum s.pcs
  by_cases h1 : 0 < cntOf s.pcs .head; · exact Or.inl (class_enabled _ h1 (by decide) (Or.inr (by decide)))
  by_cases h2 : 0 < cntOf s.pcs .chkT; · exact Or.inl (class_enabled _ h2 (by decide) (Or.inr (by decide)))
  by_cases h2' : 0 < cntOf s.pcs .chkF; · exact Or.inl (class_enabled _ h2' (by decide) (Or.inr (by decide)))
  by_cases h3 : 0 < cntOf s.pcs .drained; · exact Or.inl (class_enabled _ h3 (by decide) (Or.inr (by decide)))
  by_cases h4 : 0 < cntOf s.pcs .noTask; · exact Or.inl (class_enabled _ h4 (by decide) (Or.inr (by decide)))
  by_cases h5 : 0 < cntOf s.pcs .hasL; · exact Or.inl (class_enabled _ h5 (by decide) (Or.inr (by decide)))
  by_cases h6 : 0 < cntOf s.pcs .readQT; · exact Or.inl (class_enabled _ h6 (by decide) (Or.inr (by decide)))
  by_cases h7 : 0 < cntOf s.pcs .readQF; · exact Or.inl (class_enabled _ h7 (by decide) (Or.inr (by decide)))
  by_cases h7' : 0 < cntOf s.pcs .readKT; · exact Or.inl (class_enabled _ h7' (by decide) (Or.inr (by decide)))
  by_cases h8 : 0 < cntOf s.pcs .willWait; · exact Or.inl (class_enabled _ h8 (by decide) (Or.inr (by decide)))
  by_cases h9 : 0 < cntOf s.pcs .unlocking; · exact Or.inl (class_enabled _ h9 (by decide) (Or.inr (by decide)))
  by_cases h10 : 0 < cntOf s.pcs .unreg; · exact Or.inl (class_enabled _ h10 (by decide) (Or.inr (by decide)))
  by_cases h11 : 0 < cntOf s.pcs .exiting; · exact Or.inl (class_enabled _ h11 (by decide) (Or.inr (by decide)))
  by_cases ha' : 0 < s.adderL
  · -- an AddTask holds L: its Signal is enabled
    have ha1 : s.adderL = 1 := by omega
    left
    by_cases hw : cntOf s.pcs .waiting = 0
    · exact ⟨.aSignal none, by simp [internalEvents], rfl, by simp [step, repaired, ha1, hw]⟩
    · obtain ⟨i, p, hi, hc⟩ := exists_of_cntOf_pos (Nat.pos_of_ne_zero hw)
      have hp : p = .waiting := (cls_waiting p).1 hc
      subst hp
      refine ⟨.aSignal (some i), ?_, rfl, by simp [step, repaired, ha1, hi]⟩
      simp only [internalEvents, List.mem_append, List.mem_flatMap, List.mem_range]
      exact Or.inl ⟨i, lt_of_getElem? hi, Or.inr (by simp)⟩
  have ha : s.adderL = 0 := by omega
  by_cases hs' : 0 < s.swcL
  · have hs1 : s.swcL = 1 := by omega
    exact Or.inl ⟨.swcBcast, by simp [internalEvents], rfl, by simp [step, hs1]⟩
  have hs : s.swcL = 0 := by omega
  have hfree : lockFree s = true := by
    simp [lockFree, holders, ha, hs]; omega
  by_cases h12 : 0 < cntOf s.pcs .idleReg; · exact Or.inl (class_enabled _ h12 (by decide) (Or.inl hfree))
  by_cases h13 : 0 < cntOf s.pcs .woken; · exact Or.inl (class_enabled _ h13 (by decide) (Or.inl hfree))
  by_cases hp : 0 < s.pushed
  · exact Or.inl ⟨.aLock, by simp [internalEvents], rfl, by simp [step, repaired, hp, hfree]⟩
  by_cases hsp : 0 < s.swcPend
  · exact Or.inl ⟨.swcLock, by simp [internalEvents], rfl, by simp [step, hsp, hfree]⟩
  right
  refine ⟨by omega, ?_⟩
  simp [CState.inflight, abs]; omega

theorem running_nil_of_count {pcs : List PC} (h : cntOf pcs .run = 0) : pcs.filterMap PC.task? = [] := by
  simp only [cntOf, List.countP_eq_zero] at h
  rw [List.filterMap_eq_nil_iff]
  intro p hp
  have := h p hp
  cases p <;> simp_all [PC.task?, PC.cls]


end Ecal.Pool
