import Ecal.Lemmas.EvalLists
import Ecal.Lemmas.EvalHeap
/-!
Objects: `bindToObject`, `copyProp`, `copyProps`, `newB` of `Model/Eval.lean` (called by `addSuperClasses` and by
`runBuiltin "new"`).
-/
namespace Ecal.Ev

/-- a computation that leaves maps, functions and scopes alone (it may allocate / write list cells) -/
def ListsOnly {α : Type} (m : M α) : Prop :=
  ∀ st r st', runM m st = (r, st') → st'.maps = st.maps ∧ st'.funcs = st.funcs ∧ st'.scopes = st.scopes

theorem appendVals_listsOnly (r l : Nat) (vs : List Val) : ListsOnly (appendVals r l vs) := by
  intro st res st' h
  by_cases hne : vs = []
  · subst hne; rw [appendVals_nil] at h; injection h with _ h2; subst h2; exact ⟨rfl, rfl, rfl⟩
  · by_cases hfit : l + vs.length ≤ (st.backing r).length
    · rw [appendVals_fits r l vs st hne hfit] at h; injection h with _ h2; subst h2; exact ⟨rfl, rfl, rfl⟩
    · cases hc : growCap (st.backing r).length (l + vs.length) with
      | some c => rw [appendVals_grows r l c vs st hne hfit hc] at h; injection h with _ h2; subst h2; exact ⟨rfl, rfl, rfl⟩
      | none =>
        have he : vs.isEmpty = false := by cases vs <;> simp_all
        unfold appendVals at h
        simp only [he, Bool.false_eq_true, if_false] at h
        rw [runM_bind, getBacking_run] at h
        simp only [hfit, if_false, hc, runM_throw] at h
        injection h with _ h2; subst h2; exact ⟨rfl, rfl, rfl⟩

theorem appendEach_listsOnly : ∀ (vs : List Val) (r l : Nat), ListsOnly (appendEach vs r l) := by
  intro vs
  induction vs with
  | nil => intro r l st res st' h; simp only [appendEach, runM_pure] at h; injection h with _ h2; subst h2; exact ⟨rfl, rfl, rfl⟩
  | cons v vs ih =>
    intro r l st res st' h
    simp only [appendEach] at h
    rw [runM_bind] at h
    cases ha : runM (appendVals r l [v]) st with
    | mk ra s1 =>
      have h1 := appendVals_listsOnly r l [v] st ra s1 ha
      rw [ha] at h
      cases ra with
      | error e => simp only at h; injection h with _ h2; subst h2; exact h1
      | ok x =>
        simp only at h
        cases x with
        | list r' l' =>
          have h2 := ih r' l' s1 res st' h
          exact ⟨h2.1.trans h1.1, h2.2.1.trans h1.2.1, h2.2.2.trans h1.2.2⟩
        | _ => simp only [runM_pure] at h; injection h with _ h2; subst h2; exact h1

theorem newListLit_listsOnly (vs : List Val) : ListsOnly (newListLit vs) := appendEach_listsOnly vs 0 0

/-- a function value copied into an object is a NEW function record: same name, declaration and declaration
    scope, bound to the object CELL (`this` = the object, by reference) -/
theorem bindToObject_run (obj : Nat) (sup : Option Val) (id : Nat) (fr : FuncRec) (st : St) (hf : st.funcs[id]? = some fr) :
    runM (bindToObject obj sup id) st =
      (.ok (.func st.funcs.size), { st with funcs := st.funcs.push { fr with this := some (.map obj), super := sup } }) := by
  unfold bindToObject
  simp [runM, hf, bind, ExceptT.bind, ExceptT.mk, ExceptT.run, StateT.bind, StateT.run, ExceptT.bindCont, pure,
    ExceptT.pure, StateT.pure, get, getThe, MonadStateOf.get, liftM, monadLift, MonadLift.monadLift, ExceptT.lift,
    StateT.get, Functor.map, StateT.map, set, StateT.set, MonadStateOf.set]

theorem bindToObject_dangling (obj : Nat) (sup : Option Val) (id : Nat) (st : St) (hf : st.funcs[id]? = none) :
    runM (bindToObject obj sup id) st = (.error (Sig.unsupported "dangling function id"), st) := by
  unfold bindToObject
  simp [runM, hf, bind, ExceptT.bind, ExceptT.mk, ExceptT.run, StateT.bind, StateT.run, ExceptT.bindCont, pure,
    ExceptT.pure, StateT.pure, get, getThe, MonadStateOf.get, liftM, monadLift, MonadLift.monadLift, ExceptT.lift,
    StateT.get, Functor.map, StateT.map, throw, throwThe, MonadExceptOf.throw]

def hasKey (kvs : List (Val × Val)) (k : Val) : Bool := (mapLookup kvs k).isSome

theorem entries_setMap_same (st : St) (r : Nat) (kvs : List (Val × Val)) (hr : r < st.maps.size) :
    ({ st with maps := st.maps.setIfInBounds r kvs } : St).entries r = kvs := by
  simp [St.entries, hr]
theorem entries_setMap_other (st : St) (r q : Nat) (kvs : List (Val × Val)) (h : q ≠ r) :
    ({ st with maps := st.maps.setIfInBounds r kvs } : St).entries q = st.entries q := by
  simp only [St.entries, Array.getD_eq_getD_getElem?]
  rw [Array.getElem?_setIfInBounds_ne (Ne.symm h)]

/-- what one copied property does to the heap: exactly one `mapStore` into the object's cell -/
structure CopyResult (st st' : St) (obj : Nat) (k v nv : Val) : Prop where
  stored : st'.entries obj = mapStore (st.entries obj) k nv
  size : st'.maps.size = st.maps.size
  others : ∀ q, q ≠ obj → st'.entries q = st.entries q
  plain : isFunc v = false → nv = v ∧ st'.funcs = st.funcs
  bound : ∀ id, v = .func id → ∃ fr sup, st.funcs[id]? = some fr ∧ nv = .func st.funcs.size ∧
            st'.funcs = st.funcs.push { fr with this := some (.map obj), super := sup }

theorem copyProp_spec (obj : Nat) (initSuper : List Val) (k v nv : Val) (st st' : St) (ho : obj < st.maps.size)
    (h : runM (copyProp obj initSuper k v) st = (.ok nv, st')) : CopyResult st st' obj k v nv := by
  have plainCase : ∀ (hv : isFunc v = false),
      runM (do setMap obj (mapStore (← getMap obj) k v); pure v : M Val) st = (.ok nv, st') → CopyResult st st' obj k v nv := by
    intro hv h
    rw [runM_bind, getMap_run] at h
    simp only at h
    rw [runM_bind, setMap_run] at h
    simp only [runM_pure] at h
    injection h with h1 h2; injection h1 with h1; subst h1; subst h2
    exact ⟨entries_setMap_same st obj _ ho, by simp, fun q hq => entries_setMap_other st obj q _ hq,
      fun _ => ⟨rfl, rfl⟩, fun id hid => by rw [hid] at hv; simp [isFunc] at hv⟩
  cases v
  case func id =>
    simp only [copyProp] at h
    rw [runM_bind] at h
    -- the `super` list: lists only
    generalize hsupm : (if (keyEq k (Val.str initName) && !initSuper.isEmpty) = true then
        (do pure (some (← newListLit initSuper)) : M (Option Val)) else pure none) = supm at h
    have hlo : ListsOnly supm := by
      rw [← hsupm]
      split
      · intro s r s' hr
        rw [runM_bind] at hr
        cases hn : runM (newListLit initSuper) s with
        | mk rn sn =>
          have := newListLit_listsOnly initSuper s rn sn hn
          rw [hn] at hr
          cases rn with
          | error e => simp only at hr; injection hr with _ h2; subst h2; exact this
          | ok x => simp only [runM_pure] at hr; injection hr with _ h2; subst h2; exact this
      · intro s r s' hr; simp only [runM_pure] at hr; injection hr with _ h2; subst h2; exact ⟨rfl, rfl, rfl⟩
    cases hs : runM supm st with
    | mk rs s1 =>
      obtain ⟨e1, e2, _⟩ := hlo st rs s1 hs
      rw [hs] at h
      cases rs with
      | error e => simp at h
      | ok sup =>
        simp only at h
        rw [runM_bind] at h
        cases hfr : s1.funcs[id]? with
        | none => rw [bindToObject_dangling obj sup id s1 hfr] at h; simp at h
        | some fr =>
          rw [bindToObject_run obj sup id fr s1 hfr] at h
          simp only at h
          rw [runM_bind, getMap_run] at h
          simp only at h
          rw [runM_bind, setMap_run] at h
          simp only [runM_pure] at h
          injection h with h1 h2; injection h1 with h1; subst h1; subst h2
          have ho1 : obj < s1.maps.size := by rw [e1]; exact ho
          refine ⟨?_, by simp [e1], ?_, fun hv => by simp [isFunc] at hv, ?_⟩
          · have hset : ∀ (A : Array (List (Val × Val))) (kv : List (Val × Val)), obj < A.size →
                (A.setIfInBounds obj kv).getD obj [] = kv := by intro A kv hA; simp [hA]
            simp only [St.entries]
            rw [hset _ _ ho1, e1, e2]
          · intro q hq
            simp only [St.entries, Array.getD_eq_getD_getElem?]
            rw [Array.getElem?_setIfInBounds_ne (Ne.symm hq)]
            simp [e1]
          · intro id' hid
            injection hid with hid; subst hid
            exact ⟨fr, sup, by rw [← e2]; exact hfr, by rw [e2], by simp [e2]⟩
  all_goals exact plainCase rfl (by simpa only [copyProp] using h)


theorem keyEq_eq_str (a : Val) (s : List Nat) (h : keyEq a (.str s) = true) : a = .str s := by
  cases a <;> simp_all [keyEq]
theorem keyEq_str_eq (k : Val) (s : List Nat) (h : keyEq (.str s) k = true) : k = .str s := by
  cases k <;> simp_all [keyEq]

theorem hasKey_mapStore_self (kvs : List (Val × Val)) (s : List Nat) (v : Val) : hasKey (mapStore kvs (.str s) v) (.str s) = true := by
  simp [hasKey, mapLookup_mapStore_same kvs (.str s) v (keyEq_str_self s)]

theorem hasKey_mapStore_mono (kvs : List (Val × Val)) (k v : Val) (s : List Nat) (h : hasKey kvs (.str s) = true) :
    hasKey (mapStore kvs k v) (.str s) = true := by
  cases hk : keyEq k (.str s) with
  | true => rw [keyEq_eq_str k s hk]; exact hasKey_mapStore_self kvs s v
  | false =>
    have hdis : ∀ a : Val, keyEq a k = true → keyEq a (.str s) = false := by
      intro a ha
      cases has : keyEq a (.str s) with
      | false => rfl
      | true =>
        have e := keyEq_eq_str a s has
        subst e
        have := keyEq_str_eq k s ha
        subst this
        rw [keyEq_str_self] at hk; cases hk
    simp only [hasKey, mapLookup_mapStore_other kvs k (.str s) v hk hdis]
    exact h

/-- the copy loop: every (string) key of the template becomes a key of the object, and every key the object
    already had (copied from a super template before) stays -/
theorem copyProps_keys (obj : Nat) (initSuper : List Val) : ∀ (tkvs : List (Val × Val)) (init0 r : Val) (st st' : St),
    obj < st.maps.size → runM (copyProps obj initSuper tkvs init0) st = (.ok r, st') →
    obj < st'.maps.size ∧
    (∀ s, hasKey (st.entries obj) (.str s) = true → hasKey (st'.entries obj) (.str s) = true) ∧
    (∀ s v, (Val.str s, v) ∈ tkvs → hasKey (st'.entries obj) (.str s) = true) := by
  intro tkvs
  induction tkvs with
  | nil =>
    intro init0 r st st' ho h
    simp only [copyProps, runM_pure] at h
    injection h with _ h2; subst h2
    exact ⟨ho, fun _ h => h, fun _ _ hm => by cases hm⟩
  | cons kv rest ih =>
    intro init0 r st st' ho h
    obtain ⟨k, v⟩ := kv
    simp only [copyProps] at h
    rw [runM_bind] at h
    cases hc : runM (copyProp obj initSuper k v) st with
    | mk rc s1 =>
      rw [hc] at h
      cases rc with
      | error e => simp at h
      | ok nv =>
        simp only at h
        have cr := copyProp_spec obj initSuper k v nv st s1 ho hc
        have ho1 : obj < s1.maps.size := by rw [cr.size]; exact ho
        obtain ⟨h1, h2, h3⟩ := ih _ r s1 st' ho1 h
        refine ⟨h1, ?_, ?_⟩
        · intro s hs
          apply h2
          rw [cr.stored]
          exact hasKey_mapStore_mono _ k nv s hs
        · intro s w hm
          simp only [List.mem_cons, Prod.mk.injEq] at hm
          rcases hm with ⟨e1, _⟩ | hm
          · apply h2
            rw [cr.stored, ← e1]
            exact hasKey_mapStore_self _ s nv
          · exact h3 s w hm

/-- own template wins: a non-function property copied LAST under a string key is what the object holds -/
theorem copyProp_value (obj : Nat) (initSuper : List Val) (s : List Nat) (v nv : Val) (st st' : St) (ho : obj < st.maps.size)
    (hv : isFunc v = false) (h : runM (copyProp obj initSuper (.str s) v) st = (.ok nv, st')) :
    mapLookup (st'.entries obj) (.str s) = some v := by
  have cr := copyProp_spec obj initSuper (.str s) v nv st st' ho h
  rw [cr.stored, (cr.plain hv).1]
  exact mapLookup_mapStore_same _ _ _ (keyEq_str_self s)

theorem runM_attemptE {α : Type} (m : M α) (st : St) :
    runM (attemptE m) st = match runM m st with
      | (.ok a, s) => (.ok (.ok a), s)
      | (.error e, s) => (.ok (.error e), s) := by
  simp only [attemptE, runM, ExceptT.run, ExceptT.mk, StateT.run, bind, StateT.bind, pure, StateT.pure]
  cases h : m st with
  | mk r s => cases r <;> rfl

/-- `new(template, args…)`: after `addSuperClasses` has filled the fresh object, the `init` it holds (the bound init
    of the template, or — when the template has none — the inherited one copied from a super template) runs
    exactly ONCE, with the constructor arguments after the template, and nothing runs after it: its outcome
    decides the result (error: the call fails with it; otherwise the object). -/
theorem new_runs_init_once (runInit : Nat → List Val → M Val) (tr id : Nat) (rest : List Val) (st s1 : St)
    (r0 : Val) (err : Option Sig)
    (hadd : runM (addSuperClasses 200 st.maps.size tr) { st with maps := st.maps.push [] } = (.ok (r0, err), s1))
    (hinit : mapLookup (s1.entries st.maps.size) (.str initName) = some (.func id)) :
    runM (newB runInit (.map tr :: rest)) st =
      match runM (runInit id rest) s1 with
      | (.ok _, s2) => (.ok (.map st.maps.size), s2)
      | (.error e, s2) => (.error e, s2) := by
  unfold newB
  rw [runM_bind]
  have hnm : runM (newMap []) st = (.ok (.map st.maps.size), { st with maps := st.maps.push [] }) := rfl
  rw [hnm]
  simp only
  rw [runM_bind, hadd]
  simp only
  rw [runM_bind, getMap_run]
  simp only [hinit]
  rw [runM_bind, runM_bind, runM_attemptE]
  cases hr : runM (runInit id rest) s1 with
  | mk rr s2 =>
    cases rr with
    | ok v => rfl
    | error e =>
      simp only
      cases hfe : e.isFatal <;> simp [hfe, runM_throw, runM_pure] <;> rfl

end Ecal.Ev
