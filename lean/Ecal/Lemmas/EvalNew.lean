import Ecal.Lemmas.EvalLists
import Ecal.Lemmas.EvalHeap
/-!
Objects: `bindToObject`, `copyProp`, `copyProps`, `newB` of `Model/Eval.lean` (called by `addSuperClasses` and by
`runBuiltin "new"`).
-/
namespace Ecal.Ev

/-- a computation that leaves maps, functions and scopes alone (it may allocate / write list cells) -/
def ListsOnly {α : Type} (m : M α) : Prop :=
  ∀ st r st', runM m st = (r, st') → st'.maps = st.maps ∧ st'.funcs = st.funcs ∧ st'.scopes = st.scopes

theorem appendVals_listsOnly (r l : Nat) (vs : List Val) : ListsOnly (appendVals r l vs) := by
  intro st res st' h
  by_cases hne : vs = []
  · subst hne; rw [appendVals_nil] at h; injection h with _ h2; subst h2; exact ⟨rfl, rfl, rfl⟩
  · by_cases hfit : l + vs.length ≤ (st.backing r).length
    · rw [appendVals_fits r l vs st hne hfit] at h; injection h with _ h2; subst h2; exact ⟨rfl, rfl, rfl⟩
    · cases hc : growCap (st.backing r).length (l + vs.length) with
      | some c => rw [appendVals_grows r l c vs st hne hfit hc] at h; injection h with _ h2; subst h2; exact ⟨rfl, rfl, rfl⟩
      | none =>
        have he : vs.isEmpty = false := by cases vs <;> simp_all
        unfold appendVals at h
        simp only [he, Bool.false_eq_true, if_false] at h
        rw [runM_bind, getBacking_run] at h
        simp only [hfit, if_false, hc, runM_throw] at h
        injection h with _ h2; subst h2; exact ⟨rfl, rfl, rfl⟩

theorem appendEach_listsOnly : ∀ (vs : List Val) (r l : Nat), ListsOnly (appendEach vs r l) := by
  intro vs
  induction vs with
  | nil => intro r l st res st' h; simp only [appendEach, runM_pure] at h; injection h with _ h2; subst h2; exact ⟨rfl, rfl, rfl⟩
  | cons v vs ih =>
    intro r l st res st' h
    simp only [appendEach] at h
    rw [runM_bind] at h
    cases ha : runM (appendVals r l [v]) st with
    | mk ra s1 =>
      have h1 := appendVals_listsOnly r l [v] st ra s1 ha
      rw [ha] at h
      cases ra with
      | error e => simp only at h; injection h with _ h2; subst h2; exact h1
      | ok x =>
        simp only at h
        cases x with
        | list r' l' =>
          have h2 := ih r' l' s1 res st' h
          exact ⟨h2.1.trans h1.1, h2.2.1.trans h1.2.1, h2.2.2.trans h1.2.2⟩
        | _ => simp only [runM_pure] at h; injection h with _ h2; subst h2; exact h1

theorem newListLit_listsOnly (vs : List Val) : ListsOnly (newListLit vs) := appendEach_listsOnly vs 0 0

/-- list cells below `n0` are as before and the list store did not shrink -/
def ListsKept (n0 : Nat) (st st' : St) : Prop :=
  (∀ q, q < n0 → st'.backing q = st.backing q) ∧ st.lists.size ≤ st'.lists.size

theorem listsKept_refl (n0 : Nat) (st : St) : ListsKept n0 st st := ⟨fun _ _ => rfl, Nat.le_refl _⟩
theorem listsKept_trans (n0 : Nat) (a b c : St) (h1 : ListsKept n0 a b) (h2 : ListsKept n0 b c) : ListsKept n0 a c :=
  ⟨fun q hq => (h2.1 q hq).trans (h1.1 q hq), Nat.le_trans h1.2 h2.2⟩

/-- appending one element at a time to a slice that lives at or above `n0` -/
theorem appendEach_ge (n0 : Nat) : ∀ (vs : List Val) (r l : Nat) (s s' : St) (res : Val),
    n0 ≤ r → r < s.lists.size → l ≤ (s.backing r).length →
    runM (appendEach vs r l) s = (.ok res, s') →
    ∃ r' l', res = .list r' l' ∧ s'.elems r' l' = s.elems r l ++ vs ∧ ListsKept n0 s s' := by
  intro vs
  induction vs with
  | nil =>
    intro r l s s' res _ _ _ h
    simp only [appendEach, runM_pure] at h
    injection h with h1 h2; injection h1 with h1; subst h1; subst h2
    exact ⟨r, l, rfl, by simp, listsKept_refl _ _⟩
  | cons v vs ih =>
    intro r l s s' res hge hr hl h
    simp only [appendEach] at h
    rw [runM_bind] at h
    cases ha : runM (appendVals r l [v]) s with
    | mk ra s1 =>
      rw [ha] at h
      cases ra with
      | error e => simp at h
      | ok x =>
        obtain ⟨r', hx, hel, hoth, hcase⟩ := append_model r l [v] s s1 x hr hl ha
        subst hx
        have hb := append_inBounds r l [v] s s1 r' _ hr ha
        simp only at h
        have hr'ge : n0 ≤ r' := by
          rcases hcase with ⟨e, _⟩ | ⟨e, _⟩
          · rw [e]; exact hge
          · rw [e]; omega
        have hl1 : l + [v].length ≤ (s1.backing r').length := by
          have h5 : (s1.elems r' (l + [v].length)).length = l + [v].length := by
            rw [hel, List.length_append, elems_length s r l hl]
          have h6 : (s1.elems r' (l + [v].length)).length = min (l + [v].length) (s1.backing r').length := by simp [St.elems]
          omega
        obtain ⟨r2, l2, e1, e2, e3⟩ := ih r' _ s1 s' res hr'ge hb.1 hl1 h
        refine ⟨r2, l2, e1, ?_, listsKept_trans n0 s s1 s' ⟨fun q hq => hoth q (by omega), hb.2⟩ e3⟩
        rw [e2, hel]; simp

/-- a list literal built from the nil slice: its elements are `vs`; no existing list cell changes (slot 0, the nil
    slice, has no capacity, so the first append allocates) -/
theorem newListLit_model (vs : List Val) (st st' : St) (res : Val) (h0 : st.backing 0 = []) (hsz : 0 < st.lists.size)
    (h : runM (newListLit vs) st = (.ok res, st')) :
    ∃ r l, res = .list r l ∧ st'.elems r l = vs ∧ ListsKept st.lists.size st st' := by
  unfold newListLit at h
  cases vs with
  | nil =>
    simp only [appendEach, runM_pure] at h
    injection h with h1 h2; injection h1 with h1; subst h1; subst h2
    exact ⟨0, 0, rfl, by simp [St.elems], listsKept_refl _ _⟩
  | cons v vs =>
    simp only [appendEach] at h
    rw [runM_bind] at h
    have hbig : ¬ 0 + [v].length ≤ (st.backing 0).length := by rw [h0]; simp
    cases hc : growCap (st.backing 0).length (0 + [v].length) with
    | none =>
      cases ha : runM (appendVals 0 0 [v]) st with
      | mk ra s1 =>
        cases ra with
        | error e => rw [ha] at h; simp at h
        | ok x => exact absurd ha (appendVals_noCap 0 0 [v] st s1 x (by simp) hbig hc)
    | some c =>
      rw [appendVals_grows 0 0 c [v] st (by simp) hbig hc] at h
      simp only at h
      have hkept0 : ListsKept st.lists.size st
          { st with lists := st.lists.push ((st.backing 0).take 0 ++ [v] ++ List.replicate (c - (0 + [v].length)) Val.null) } :=
        ⟨fun q hq => backing_push_old st q _ (Nat.ne_of_lt hq), by simp⟩
      obtain ⟨r2, l2, e1, e2, e3⟩ := appendEach_ge st.lists.size vs st.lists.size (0 + [v].length) _ st' res (Nat.le_refl _)
        (by simp) (by rw [backing_push_new]; simp) h
      refine ⟨r2, l2, e1, ?_, listsKept_trans _ _ _ _ hkept0 e3⟩
      rw [e2]
      simp [St.elems, backing_push_new]

/-- a function value copied into an object is a NEW function record: same name, declaration and declaration
    scope, bound to the object CELL (`this` = the object, by reference) -/
theorem bindToObject_run (obj : Nat) (sup : Option Val) (id : Nat) (fr : FuncRec) (st : St) (hf : st.funcs[id]? = some fr) :
    runM (bindToObject obj sup id) st =
      (.ok (.func st.funcs.size), { st with funcs := st.funcs.push { fr with this := some (.map obj), super := sup } }) := by
  unfold bindToObject
  simp [runM, hf, bind, ExceptT.bind, ExceptT.mk, ExceptT.run, StateT.bind, StateT.run, ExceptT.bindCont, pure,
    ExceptT.pure, StateT.pure, get, getThe, MonadStateOf.get, liftM, monadLift, MonadLift.monadLift, ExceptT.lift,
    StateT.get, Functor.map, StateT.map, set, StateT.set, MonadStateOf.set]

theorem bindToObject_dangling (obj : Nat) (sup : Option Val) (id : Nat) (st : St) (hf : st.funcs[id]? = none) :
    runM (bindToObject obj sup id) st = (.error (Sig.unsupported "dangling function id"), st) := by
  unfold bindToObject
  simp [runM, hf, bind, ExceptT.bind, ExceptT.mk, ExceptT.run, StateT.bind, StateT.run, ExceptT.bindCont, pure,
    ExceptT.pure, StateT.pure, get, getThe, MonadStateOf.get, liftM, monadLift, MonadLift.monadLift, ExceptT.lift,
    StateT.get, Functor.map, StateT.map, throw, throwThe, MonadExceptOf.throw]

def hasKey (kvs : List (Val × Val)) (k : Val) : Bool := (mapLookup kvs k).isSome

theorem entries_setMap_same (st : St) (r : Nat) (kvs : List (Val × Val)) (hr : r < st.maps.size) :
    ({ st with maps := st.maps.setIfInBounds r kvs } : St).entries r = kvs := by
  simp [St.entries, hr]
theorem entries_setMap_other (st : St) (r q : Nat) (kvs : List (Val × Val)) (h : q ≠ r) :
    ({ st with maps := st.maps.setIfInBounds r kvs } : St).entries q = st.entries q := by
  simp only [St.entries, Array.getD_eq_getD_getElem?]
  rw [Array.getElem?_setIfInBounds_ne (Ne.symm h)]

/-- what one copied property does to the heap: exactly one `mapStore` into the object's cell -/
structure CopyResult (st st' : St) (obj : Nat) (initSuper : List Val) (k v nv : Val) : Prop where
  stored : st'.entries obj = mapStore (st.entries obj) k nv
  size : st'.maps.size = st.maps.size
  others : ∀ q, q ≠ obj → st'.entries q = st.entries q
  plain : isFunc v = false → nv = v ∧ st'.funcs = st.funcs
  bound : ∀ id, v = .func id → ∃ fr sup, st.funcs[id]? = some fr ∧ nv = .func st.funcs.size ∧
            st'.funcs = st.funcs.push { fr with this := some (.map obj), super := sup } ∧
            ((keyEq k (.str initName) && !initSuper.isEmpty) = true → st.backing 0 = [] → 0 < st.lists.size →
              ∃ r l, sup = some (.list r l) ∧ st'.elems r l = initSuper) ∧
            ((keyEq k (.str initName) && !initSuper.isEmpty) = false → sup = none)
  lists : st.backing 0 = [] → 0 < st.lists.size → ListsKept st.lists.size st st'

theorem copyProp_spec (obj : Nat) (initSuper : List Val) (k v nv : Val) (st st' : St) (ho : obj < st.maps.size)
    (h : runM (copyProp obj initSuper k v) st = (.ok nv, st')) : CopyResult st st' obj initSuper k v nv := by
  have plainCase : ∀ (hv : isFunc v = false),
      runM (do setMap obj (mapStore (← getMap obj) k v); pure v : M Val) st = (.ok nv, st') → CopyResult st st' obj initSuper k v nv := by
    intro hv h
    rw [runM_bind, getMap_run] at h
    simp only at h
    rw [runM_bind, setMap_run] at h
    simp only [runM_pure] at h
    injection h with h1 h2; injection h1 with h1; subst h1; subst h2
    exact ⟨entries_setMap_same st obj _ ho, by simp, fun q hq => entries_setMap_other st obj q _ hq,
      fun _ => ⟨rfl, rfl⟩, fun id hid => by rw [hid] at hv; simp [isFunc] at hv, fun _ _ => ⟨fun _ _ => rfl, Nat.le_refl _⟩⟩
  cases v
  case func id =>
    simp only [copyProp] at h
    rw [runM_bind] at h
    -- the `super` list: lists only
    generalize hsupm : (if (keyEq k (Val.str initName) && !initSuper.isEmpty) = true then
        (do pure (some (← newListLit initSuper)) : M (Option Val)) else pure none) = supm at h
    have hlo : ListsOnly supm := by
      rw [← hsupm]
      split
      · intro s r s' hr
        rw [runM_bind] at hr
        cases hn : runM (newListLit initSuper) s with
        | mk rn sn =>
          have := newListLit_listsOnly initSuper s rn sn hn
          rw [hn] at hr
          cases rn with
          | error e => simp only at hr; injection hr with _ h2; subst h2; exact this
          | ok x => simp only [runM_pure] at hr; injection hr with _ h2; subst h2; exact this
      · intro s r s' hr; simp only [runM_pure] at hr; injection hr with _ h2; subst h2; exact ⟨rfl, rfl, rfl⟩
    have hinfo : ∀ sup s1, runM supm st = (.ok sup, s1) →
        (st.backing 0 = [] → 0 < st.lists.size → ListsKept st.lists.size st s1) ∧
        ((keyEq k (.str initName) && !initSuper.isEmpty) = true → st.backing 0 = [] → 0 < st.lists.size →
          ∃ r l, sup = some (.list r l) ∧ s1.elems r l = initSuper) ∧
        ((keyEq k (.str initName) && !initSuper.isEmpty) = false → sup = none) := by
      intro sup s1 hr
      rw [← hsupm] at hr
      by_cases hcond : (keyEq k (Val.str initName) && !initSuper.isEmpty) = true
      · simp only [hcond, if_true] at hr
        rw [runM_bind] at hr
        cases hn : runM (newListLit initSuper) st with
        | mk rn sn =>
          rw [hn] at hr
          cases rn with
          | error e => simp at hr
          | ok x =>
            simp only [runM_pure] at hr
            injection hr with h1 h2; injection h1 with h1; subst h1; subst h2
            refine ⟨fun h0 hsz => ?_, fun _ h0 hsz => ?_, fun hc => by rw [hcond] at hc; cases hc⟩
            · obtain ⟨_, _, _, _, hk⟩ := newListLit_model initSuper st sn x h0 hsz hn; exact hk
            · obtain ⟨r, l, e1, e2, _⟩ := newListLit_model initSuper st sn x h0 hsz hn
              exact ⟨r, l, by rw [e1], e2⟩
      · simp only [hcond, if_false, runM_pure] at hr
        injection hr with h1 h2; injection h1 with h1; subst h1; subst h2
        exact ⟨fun _ _ => listsKept_refl _ _, fun hc => absurd hc hcond, fun _ => rfl⟩
    cases hs : runM supm st with
    | mk rs s1 =>
      obtain ⟨e1, e2, _⟩ := hlo st rs s1 hs
      rw [hs] at h
      cases rs with
      | error e => simp at h
      | ok sup =>
        simp only at h
        rw [runM_bind] at h
        cases hfr : s1.funcs[id]? with
        | none => rw [bindToObject_dangling obj sup id s1 hfr] at h; simp at h
        | some fr =>
          rw [bindToObject_run obj sup id fr s1 hfr] at h
          simp only at h
          rw [runM_bind, getMap_run] at h
          simp only at h
          rw [runM_bind, setMap_run] at h
          simp only [runM_pure] at h
          injection h with h1 h2; injection h1 with h1; subst h1; subst h2
          have ho1 : obj < s1.maps.size := by rw [e1]; exact ho
          obtain ⟨hk, hsupT, hsupF⟩ := hinfo sup s1 hs
          refine ⟨?_, by simp [e1], ?_, fun hv => by simp [isFunc] at hv, ?_, fun h0 hsz => hk h0 hsz⟩
          · have hset : ∀ (A : Array (List (Val × Val))) (kv : List (Val × Val)), obj < A.size →
                (A.setIfInBounds obj kv).getD obj [] = kv := by intro A kv hA; simp [hA]
            simp only [St.entries]
            rw [hset _ _ ho1, e1, e2]
          · intro q hq
            simp only [St.entries, Array.getD_eq_getD_getElem?]
            rw [Array.getElem?_setIfInBounds_ne (Ne.symm hq)]
            simp [e1]
          · intro id' hid
            injection hid with hid; subst hid
            exact ⟨fr, sup, by rw [← e2]; exact hfr, by rw [e2], by simp [e2], hsupT, hsupF⟩
  all_goals exact plainCase rfl (by simpa only [copyProp] using h)


theorem keyEq_eq_str (a : Val) (s : List Nat) (h : keyEq a (.str s) = true) : a = .str s := by
  cases a <;> simp_all [keyEq]
theorem keyEq_str_eq (k : Val) (s : List Nat) (h : keyEq (.str s) k = true) : k = .str s := by
  cases k <;> simp_all [keyEq]

theorem hasKey_mapStore_self (kvs : List (Val × Val)) (s : List Nat) (v : Val) : hasKey (mapStore kvs (.str s) v) (.str s) = true := by
  simp [hasKey, mapLookup_mapStore_same kvs (.str s) v (keyEq_str_self s)]

theorem hasKey_mapStore_mono (kvs : List (Val × Val)) (k v : Val) (s : List Nat) (h : hasKey kvs (.str s) = true) :
    hasKey (mapStore kvs k v) (.str s) = true := by
  cases hk : keyEq k (.str s) with
  | true => rw [keyEq_eq_str k s hk]; exact hasKey_mapStore_self kvs s v
  | false =>
    have hdis : ∀ a : Val, keyEq a k = true → keyEq a (.str s) = false := by
      intro a ha
      cases has : keyEq a (.str s) with
      | false => rfl
      | true =>
        have e := keyEq_eq_str a s has
        subst e
        have := keyEq_str_eq k s ha
        subst this
        rw [keyEq_str_self] at hk; cases hk
    simp only [hasKey, mapLookup_mapStore_other kvs k (.str s) v hk hdis]
    exact h

/-- the copy loop: every (string) key of the template becomes a key of the object, and every key the object
    already had (copied from a super template before) stays -/
theorem copyProps_keys (obj : Nat) (initSuper : List Val) : ∀ (tkvs : List (Val × Val)) (init0 r : Val) (st st' : St),
    obj < st.maps.size → runM (copyProps obj initSuper tkvs init0) st = (.ok r, st') →
    obj < st'.maps.size ∧
    (∀ s, hasKey (st.entries obj) (.str s) = true → hasKey (st'.entries obj) (.str s) = true) ∧
    (∀ s v, (Val.str s, v) ∈ tkvs → hasKey (st'.entries obj) (.str s) = true) := by
  intro tkvs
  induction tkvs with
  | nil =>
    intro init0 r st st' ho h
    simp only [copyProps, runM_pure] at h
    injection h with _ h2; subst h2
    exact ⟨ho, fun _ h => h, fun _ _ hm => by cases hm⟩
  | cons kv rest ih =>
    intro init0 r st st' ho h
    obtain ⟨k, v⟩ := kv
    simp only [copyProps] at h
    rw [runM_bind] at h
    cases hc : runM (copyProp obj initSuper k v) st with
    | mk rc s1 =>
      rw [hc] at h
      cases rc with
      | error e => simp at h
      | ok nv =>
        simp only at h
        have cr := copyProp_spec obj initSuper k v nv st s1 ho hc
        have ho1 : obj < s1.maps.size := by rw [cr.size]; exact ho
        obtain ⟨h1, h2, h3⟩ := ih _ r s1 st' ho1 h
        refine ⟨h1, ?_, ?_⟩
        · intro s hs
          apply h2
          rw [cr.stored]
          exact hasKey_mapStore_mono _ k nv s hs
        · intro s w hm
          simp only [List.mem_cons, Prod.mk.injEq] at hm
          rcases hm with ⟨e1, _⟩ | hm
          · apply h2
            rw [cr.stored, ← e1]
            exact hasKey_mapStore_self _ s nv
          · exact h3 s w hm

/-- own template wins: a non-function property copied LAST under a string key is what the object holds -/
theorem copyProp_value (obj : Nat) (initSuper : List Val) (s : List Nat) (v nv : Val) (st st' : St) (ho : obj < st.maps.size)
    (hv : isFunc v = false) (h : runM (copyProp obj initSuper (.str s) v) st = (.ok nv, st')) :
    mapLookup (st'.entries obj) (.str s) = some v := by
  have cr := copyProp_spec obj initSuper (.str s) v nv st st' ho h
  rw [cr.stored, (cr.plain hv).1]
  exact mapLookup_mapStore_same _ _ _ (keyEq_str_self s)

theorem runM_attemptE {α : Type} (m : M α) (st : St) :
    runM (attemptE m) st = match runM m st with
      | (.ok a, s) => (.ok (.ok a), s)
      | (.error e, s) => (.ok (.error e), s) := by
  simp only [attemptE, runM, ExceptT.run, ExceptT.mk, StateT.run, bind, StateT.bind, pure, StateT.pure]
  cases h : m st with
  | mk r s => cases r <;> rfl

/-- `new(template, args…)`: after `addSuperClasses` has filled the fresh object, the `init` it holds (the bound init
    of the template, or — when the template has none — the inherited one copied from a super template) runs
    exactly ONCE, with the constructor arguments after the template, and nothing runs after it: its outcome
    decides the result (error: the call fails with it; otherwise the object). -/
theorem new_runs_init_once (runInit : Nat → List Val → M Val) (tr id : Nat) (rest : List Val) (st s1 : St)
    (r0 : Val) (err : Option Sig)
    (hadd : runM (addSuperClasses 200 st.maps.size [] tr) { st with maps := st.maps.push [] } = (.ok (r0, err), s1))
    (hinit : mapLookup (s1.entries st.maps.size) (.str initName) = some (.func id)) :
    runM (newB runInit (.map tr :: rest)) st =
      match runM (runInit id rest) s1 with
      | (.ok _, s2) => (.ok (.map st.maps.size), s2)
      | (.error e, s2) => (.error e, s2) := by
  unfold newB
  rw [runM_bind]
  have hnm : runM (newMap []) st = (.ok (.map st.maps.size), { st with maps := st.maps.push [] }) := rfl
  rw [hnm]
  simp only
  rw [runM_bind, hadd]
  simp only
  rw [runM_bind, getMap_run]
  simp only [hinit]
  rw [runM_bind, runM_bind, runM_attemptE]
  cases hr : runM (runInit id rest) s1 with
  | mk rr s2 =>
    cases rr with
    | ok v => rfl
    | error e =>
      simp only
      cases hfe : e.isFatal <;> simp [hfe, runM_throw, runM_pure] <;> rfl


/-! ### all templates: induction over the super lists -/

theorem mapLookup_mapStore_str_other (kvs : List (Val × Val)) (k nv : Val) (key : List Nat) (hk : keyEq k (.str key) = false) :
    mapLookup (mapStore kvs k nv) (.str key) = mapLookup kvs (.str key) := by
  have hdis : ∀ a : Val, keyEq a k = true → keyEq a (.str key) = false := by
    intro a ha
    cases has : keyEq a (.str key) with
    | false => rfl
    | true =>
      have e := keyEq_eq_str a key has
      subst e
      have := keyEq_str_eq k key ha
      subst this
      rw [keyEq_str_self] at hk; cases hk
  exact mapLookup_mapStore_other kvs k (.str key) nv hk hdis

/-- last write wins in the copy loop: if every entry of the template under `key` carries the non-function value `v`
    (map keys are unique), the object holds `v` under `key` afterwards when the template has the key, and what it
    held before otherwise -/
theorem copyProps_value (obj : Nat) (initSuper : List Val) (key : List Nat) (v : Val) (hv : isFunc v = false) :
    ∀ (tkvs : List (Val × Val)) (init0 r : Val) (s s' : St), obj < s.maps.size →
    (∀ k w, (k, w) ∈ tkvs → keyEq k (.str key) = true → w = v) →
    runM (copyProps obj initSuper tkvs init0) s = (.ok r, s') →
    mapLookup (s'.entries obj) (.str key) =
      if tkvs.any (fun kw => keyEq kw.1 (.str key)) then some v else mapLookup (s.entries obj) (.str key) := by
  intro tkvs
  induction tkvs with
  | nil =>
    intro init0 r s s' _ _ h
    simp only [copyProps, runM_pure] at h
    injection h with _ h2; subst h2; simp
  | cons kw rest ih =>
    intro init0 r s s' ho huniq h
    obtain ⟨k, w⟩ := kw
    simp only [copyProps] at h
    rw [runM_bind] at h
    cases hc : runM (copyProp obj initSuper k w) s with
    | mk rc s1 =>
      rw [hc] at h
      cases rc with
      | error e => simp at h
      | ok nv =>
        simp only at h
        have cr := copyProp_spec obj initSuper k w nv s s1 ho hc
        have ho1 : obj < s1.maps.size := by rw [cr.size]; exact ho
        have := ih _ r s1 s' ho1 (fun k' w' hm hk => huniq k' w' (by simp [hm]) hk) h
        rw [this]
        cases hk : keyEq k (.str key) with
        | true =>
          have hw : w = v := huniq k w (by simp) hk
          have hkk := keyEq_eq_str k key hk
          subst hw; subst hkk
          have : mapLookup (s1.entries obj) (.str key) = some w := by
            rw [cr.stored, (cr.plain hv).1]; exact mapLookup_mapStore_same _ _ _ (keyEq_str_self key)
          simp [List.any_cons, hk, this]
        | false =>
          have : mapLookup (s1.entries obj) (.str key) = mapLookup (s.entries obj) (.str key) := by
            rw [cr.stored]; exact mapLookup_mapStore_str_other _ k nv key hk
          rw [this]
          simp only [List.any_cons, hk, Bool.false_or]

/-- while an object is filled: every map cell except the object's, and every list cell that existed at the start, is
    as in `st0` -/
def Filling (st0 : St) (obj : Nat) (s : St) : Prop :=
  obj < s.maps.size ∧ s.maps.size = st0.maps.size ∧ (∀ q, q ≠ obj → s.entries q = st0.entries q) ∧
  ListsKept st0.lists.size st0 s

theorem filling_zero (st0 : St) (obj : Nat) (s : St) (h0 : st0.backing 0 = []) (hsz : 0 < st0.lists.size)
    (h : Filling st0 obj s) : s.backing 0 = [] ∧ 0 < s.lists.size :=
  ⟨by rw [h.2.2.2.1 0 hsz]; exact h0, Nat.lt_of_lt_of_le hsz h.2.2.2.2⟩

theorem copyProp_filling (st0 : St) (obj : Nat) (h0 : st0.backing 0 = []) (hsz : 0 < st0.lists.size)
    (initSuper : List Val) (k v nv : Val) (s s' : St) (hf : Filling st0 obj s)
    (h : runM (copyProp obj initSuper k v) s = (.ok nv, s')) : Filling st0 obj s' := by
  have cr := copyProp_spec obj initSuper k v nv s s' hf.1 h
  obtain ⟨z1, z2⟩ := filling_zero st0 obj s h0 hsz hf
  have hl := cr.lists z1 z2
  refine ⟨by rw [cr.size]; exact hf.1, by rw [cr.size]; exact hf.2.1, fun q hq => by rw [cr.others q hq]; exact hf.2.2.1 q hq, ?_⟩
  exact listsKept_trans _ _ _ _ hf.2.2.2 ⟨fun q hq => hl.1 q (Nat.lt_of_lt_of_le hq hf.2.2.2.2), hl.2⟩

theorem copyProps_filling (st0 : St) (obj : Nat) (h0 : st0.backing 0 = []) (hsz : 0 < st0.lists.size) (initSuper : List Val) :
    ∀ (tkvs : List (Val × Val)) (init0 r : Val) (s s' : St), Filling st0 obj s →
    runM (copyProps obj initSuper tkvs init0) s = (.ok r, s') → Filling st0 obj s' := by
  intro tkvs
  induction tkvs with
  | nil => intro init0 r s s' hf h; simp only [copyProps, runM_pure] at h; injection h with _ h2; subst h2; exact hf
  | cons kw rest ih =>
    intro init0 r s s' hf h
    obtain ⟨k, w⟩ := kw
    simp only [copyProps] at h
    rw [runM_bind] at h
    cases hc : runM (copyProp obj initSuper k w) s with
    | mk rc s1 =>
      rw [hc] at h
      cases rc with
      | error e => simp at h
      | ok nv => exact ih _ r s1 s' (copyProp_filling st0 obj h0 hsz initSuper k w nv s s1 hf hc) h

/-- `key` is a string key of template `tr` or of a super template reachable from it within `f` levels along a path
    that does not revisit a template (`path` = the templates being processed; a template that is its own super is cut
    there, as `addSuperClassesOnPath` does); read in the state `st0` in which `new` started; templates are cells other
    than the fresh object -/
inductive TKey (st0 : St) (obj : Nat) : Nat → List Nat → Nat → List Nat → Prop
  | own (f : Nat) (path : List Nat) (tr : Nat) (key : List Nat) (v : Val) : path.contains tr = false → tr ≠ obj →
      (Val.str key, v) ∈ st0.entries tr → TKey st0 obj (f + 1) path tr key
  | sup (f : Nat) (path : List Nat) (tr r l sr : Nat) (key : List Nat) : path.contains tr = false → tr ≠ obj →
      mapLookup (st0.entries tr) (.str superName) = some (.list r l) → r < st0.lists.size →
      Val.map sr ∈ st0.elems r l → TKey st0 obj f (tr :: path) sr key → TKey st0 obj (f + 1) path tr key

/-- what one `addSuperClasses` call guarantees -/
structure AddResult (st0 : St) (obj f : Nat) (path : List Nat) (tr : Nat) (s s' : St) : Prop where
  filling : Filling st0 obj s'
  mono : ∀ key, hasKey (s.entries obj) (.str key) = true → hasKey (s'.entries obj) (.str key) = true
  keys : ∀ key, TKey st0 obj f path tr key → hasKey (s'.entries obj) (.str key) = true
  ownWins : ∀ key v, path.contains tr = false → tr ≠ obj → (Val.str key, v) ∈ st0.entries tr → isFunc v = false →
    (∀ k w, (k, w) ∈ st0.entries tr → keyEq k (.str key) = true → w = v) →
    mapLookup (s'.entries obj) (.str key) = some v

theorem superLoop_keys (st0 : St) (obj f : Nat) (path : List Nat)
    (ih : ∀ tr s s' res, Filling st0 obj s → runM (addSuperClasses f obj path tr) s = (.ok res, s') → AddResult st0 obj f path tr s s') :
    ∀ (vs : List Val) (err : Option Sig) (acc : List Val) (s s' : St) (out : Option Sig × List Val),
    Filling st0 obj s → runM (superLoop (addSuperClasses f obj path) vs err acc) s = (.ok out, s') →
    Filling st0 obj s' ∧
    (∀ key, hasKey (s.entries obj) (.str key) = true → hasKey (s'.entries obj) (.str key) = true) ∧
    (∀ sr key, Val.map sr ∈ vs → TKey st0 obj f path sr key → hasKey (s'.entries obj) (.str key) = true) := by
  intro vs
  induction vs with
  | nil =>
    intro err acc s s' out hf h
    simp only [superLoop, runM_pure] at h
    injection h with _ h2; subst h2
    exact ⟨hf, fun _ h => h, fun _ _ hm => by cases hm⟩
  | cons a rest ihl =>
    intro err acc s s' out hf h
    cases a with
    | map sr =>
      simp only [superLoop] at h
      rw [runM_bind] at h
      cases hr : runM (addSuperClasses f obj path sr) s with
      | mk rr s1 =>
        rw [hr] at h
        cases rr with
        | error e => simp at h
        | ok res1 =>
          simp only at h
          have ar := ih sr s s1 res1 hf hr
          obtain ⟨g1, g2, g3⟩ := ihl _ _ s1 s' out ar.filling h
          refine ⟨g1, fun key hk => g2 key (ar.mono key hk), ?_⟩
          intro sr' key hm hT
          simp only [List.mem_cons] at hm
          rcases hm with e | hm
          · injection e with e; subst e
            exact g2 key (ar.keys key hT)
          · exact g3 sr' key hm hT
    | _ =>
      simp only [superLoop] at h
      obtain ⟨g1, g2, g3⟩ := ihl _ _ s s' out hf h
      refine ⟨g1, g2, ?_⟩
      intro sr' key hm hT
      simp only [List.mem_cons] at hm
      rcases hm with e | hm
      · cases e
      · exact g3 sr' key hm hT

/-- `addSuperClasses`, all levels: every string key of the template and of every super template reachable through the
    "super" lists is a key of the object afterwards; keys never disappear; the template's own non-function property
    is what the object finally holds (own template over supers) -/
theorem addSuperClasses_keys (st0 : St) (obj : Nat) (h0 : st0.backing 0 = []) (hsz : 0 < st0.lists.size) :
    ∀ (f : Nat) (path : List Nat) (tr : Nat) (s s' : St) (res : Val × Option Sig), Filling st0 obj s →
    runM (addSuperClasses f obj path tr) s = (.ok res, s') → AddResult st0 obj f path tr s s' := by
  intro f
  induction f with
  | zero => intro path tr s s' res _ h; simp [addSuperClasses, runM_throw] at h
  | succ f ih =>
    intro path tr s s' res hf h
    simp only [addSuperClasses] at h
    cases hcyc : path.contains tr with
    | true =>
      simp only [hcyc, if_true, runM_pure] at h
      injection h with _ h2; subst h2
      refine ⟨hf, fun _ hk => hk, ?_, ?_⟩
      · intro key hT
        cases hT with
        | own _ _ _ _ _ hp => rw [hcyc] at hp; cases hp
        | sup _ _ _ _ _ _ _ hp => rw [hcyc] at hp; cases hp
      · intro key v hp; rw [hcyc] at hp; cases hp
    | false =>
    simp only [hcyc, Bool.false_eq_true, if_false] at h
    rw [runM_bind, getMap_run] at h
    simp only at h
    rw [runM_bind] at h
    -- the copy loop at the end, given what the super part established
    have tail : ∀ (initSuper : List Val) (s1 s2 : St) (initFn : Val), Filling st0 obj s1 →
        (∀ key, hasKey (s.entries obj) (.str key) = true → hasKey (s1.entries obj) (.str key) = true) →
        (∀ r l sr key, mapLookup (s.entries tr) (.str superName) = some (.list r l) → Val.map sr ∈ s.elems r l →
          TKey st0 obj f (tr :: path) sr key → hasKey (s1.entries obj) (.str key) = true) →
        runM (copyProps obj initSuper (s.entries tr) Val.null) s1 = (.ok initFn, s2) →
        AddResult st0 obj (f + 1) path tr s s2 := by
      intro initSuper s1 s2 initFn f1 m1 k1 hc
      have f2 := copyProps_filling st0 obj h0 hsz initSuper _ _ _ s1 s2 f1 hc
      obtain ⟨_, m2, k2⟩ := copyProps_keys obj initSuper _ _ _ s1 s2 f1.1 hc
      refine ⟨f2, fun key hk => m2 key (m1 key hk), ?_, ?_⟩
      · intro key hT
        cases hT with
        | own f' path' tr' key' v hp hne hmem =>
          rw [← hf.2.2.1 tr hne] at hmem
          exact k2 key v hmem
        | sup f' path' tr' r l sr key' hp hne hlook hr hmem hT' =>
          rw [← hf.2.2.1 tr hne] at hlook
          have : s.elems r l = st0.elems r l := by simp only [St.elems, hf.2.2.2.1 r hr]
          rw [← this] at hmem
          exact m2 key (k1 r l sr key hlook hmem hT')
      · intro key v _ hne hmem hv huniq
        rw [← hf.2.2.1 tr hne] at hmem huniq
        have := copyProps_value obj initSuper key v hv _ _ _ s1 s2 f1.1 huniq hc
        rw [this]
        have hany : (s.entries tr).any (fun kw => keyEq kw.1 (.str key)) = true := by
          rw [List.any_eq_true]; exact ⟨_, hmem, keyEq_str_self key⟩
        simp [hany]
    cases hm : mapLookup (s.entries tr) (.str superName) with
    | none =>
      simp only [hm, runM_pure] at h
      rw [runM_bind] at h
      cases hc : runM (copyProps obj [] (s.entries tr) Val.null) s with
      | mk rc s2 =>
        rw [hc] at h
        cases rc with
        | error e => simp at h
        | ok initFn =>
          simp only [runM_pure] at h
          injection h with _ h2; subst h2
          exact tail [] s s2 initFn hf (fun _ hk => hk) (fun _ _ _ _ e => by rw [hm] at e; cases e) hc
    | some sv =>
      cases sv with
      | list r l =>
        simp only [hm] at h
        rw [runM_bind, getList_run] at h
        simp only at h
        cases hs : runM (superLoop (addSuperClasses f obj (tr :: path)) (s.elems r l) none []) s with
        | mk rs s1 =>
          rw [hs] at h
          cases rs with
          | error e => simp at h
          | ok out =>
            obtain ⟨g1, g2, g3⟩ := superLoop_keys st0 obj f (tr :: path) (ih (tr :: path)) (s.elems r l) none [] s s1 out hf hs
            obtain ⟨err, initSuper⟩ := out
            simp only at h
            rw [runM_bind] at h
            cases hc : runM (copyProps obj initSuper (s.entries tr) Val.null) s1 with
            | mk rc s2 =>
              rw [hc] at h
              cases rc with
              | error e => simp at h
              | ok initFn =>
                simp only [runM_pure] at h
                injection h with _ h2; subst h2
                refine tail initSuper s1 s2 initFn g1 g2 ?_ hc
                intro r' l' sr key e hmem hT
                rw [hm] at e
                injection e with e; injection e with e1 e2; subst e1; subst e2
                exact g3 sr key hmem hT
      | _ =>
        simp only [hm, runM_pure] at h
        rw [runM_bind] at h
        cases hc : runM (copyProps obj [] (s.entries tr) Val.null) s with
        | mk rc s2 =>
          rw [hc] at h
          cases rc with
          | error e => simp at h
          | ok initFn =>
            simp only [runM_pure] at h
            injection h with _ h2; subst h2
            exact tail [] s s2 initFn hf (fun _ hk => hk) (fun _ _ _ _ e => by rw [hm] at e; cases e) hc

end Ecal.Ev
