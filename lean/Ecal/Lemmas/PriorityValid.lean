import Ecal.Model.Priority
/-!
The validator `validRun` accepts exactly the runs of `processRules` under some admissible sort.
-/
namespace Ecal.Priority

theorem sortedB_iff : ∀ l : List Rule, sortedB l = true ↔ l.Pairwise (fun a b => a.prio ≤ b.prio)
  | [] => by simp [sortedB]
  | [_] => by simp [sortedB]
  | a :: b :: t => by
    rw [sortedB, Bool.and_eq_true, decide_eq_true_eq, sortedB_iff (b :: t)]
    constructor
    · rintro ⟨hab, hp⟩
      refine List.pairwise_cons.mpr ⟨?_, hp⟩
      intro x hx
      rcases List.mem_cons.mp hx with rfl | hx
      · exact hab
      · have := (List.pairwise_cons.mp hp).1 x hx; omega
    · intro hp
      have h := List.pairwise_cons.mp hp
      exact ⟨h.1 b (List.mem_cons_self), h.2⟩

theorem insertRule_perm' (r : Rule) : ∀ l, (insertRule r l).Perm (r :: l)
  | [] => List.Perm.refl _
  | x :: xs => by
    unfold insertRule
    split
    · exact List.Perm.refl _
    · exact ((insertRule_perm' r xs).cons x).trans (List.Perm.swap r x xs)

theorem insertRule_sorted' (r : Rule) : ∀ l, l.Pairwise (fun a b => a.prio ≤ b.prio) →
    (insertRule r l).Pairwise (fun a b => a.prio ≤ b.prio)
  | [], _ => by simp [insertRule]
  | x :: xs, h => by
    unfold insertRule
    have hx := List.pairwise_cons.mp h
    split
    · rename_i hle
      refine List.pairwise_cons.mpr ⟨?_, h⟩
      intro y hy
      rcases List.mem_cons.mp hy with rfl | hy
      · exact hle
      · have := hx.1 y hy; omega
    · rename_i hle
      refine List.pairwise_cons.mpr ⟨?_, insertRule_sorted' r xs hx.2⟩
      intro y hy
      have := (insertRule_perm' r xs).mem_iff.mp hy
      rcases List.mem_cons.mp this with rfl | hy
      · omega
      · exact hx.1 y hy

theorem stableSort_perm : ∀ l, (stableSort l).Perm l
  | [] => List.Perm.refl _
  | r :: rs => (insertRule_perm' r _).trans ((stableSort_perm rs).cons r)

theorem stableSort_sorted : ∀ l, (stableSort l).Pairwise (fun a b => a.prio ≤ b.prio)
  | [] => by simp [stableSort]
  | r :: rs => insertRule_sorted' r _ (stableSort_sorted rs)

theorem stableSort_isPrioSort' : IsPrioSort stableSort := ⟨stableSort_perm, stableSort_sorted⟩

/-- **Soundness of the validator**: an accepted observation is the run of the model's rule loop
    under some admissible result of `SortRuleSlice` (the error report compared as a set). -/
theorem validRun_sound (flag : Bool) (rules : List Rule) (exec errs : List Nat)
    (h : validRun flag rules exec errs = true) :
    ∃ sort, IsPrioSort sort ∧ (processRules sort flag rules).1.map (·.name) = exec ∧
      ((processRules sort flag rules).2.map (·.name)).Perm errs := by
  unfold validRun at h
  simp only [Bool.and_eq_true, beq_iff_eq] at h
  obtain ⟨⟨⟨hperm, hsorted⟩, hexec⟩, herrs⟩ := h
  generalize hc : (List.filterMap (fun i => rules[i]?) exec ++
    stableSort (List.filter (fun r => !exec.contains r.name) rules)) = cand at hperm hsorted hexec herrs
  refine ⟨fun l => if l = rules then cand else stableSort l, ⟨?_, ?_⟩, ?_, ?_⟩
  · intro l
    by_cases hl : l = rules
    · simp only [hl, if_true]; exact List.isPerm_iff.mp hperm
    · simp only [hl, if_false]; exact stableSort_perm l
  · intro l
    by_cases hl : l = rules
    · simp only [hl, if_true]; exact (sortedB_iff cand).mp hsorted
    · simp only [hl, if_false]; exact stableSort_sorted l
  · simp only [processRules, if_true]; exact hexec
  · simp only [processRules, if_true]; exact List.isPerm_iff.mp herrs

/-! ### completeness -/

theorem execLoop_true_append (pre : List Rule) (r : Rule) (post : List Rule)
    (hpre : ∀ x ∈ pre, x.fails = false) (hr : r.fails = true) :
    execLoop true (pre ++ r :: post) [] = (pre ++ [r], [r]) := by
  induction pre with
  | nil => simp [execLoop, hr]
  | cons a as ih =>
    have ha : a.fails = false := hpre a (List.mem_cons_self)
    have := ih (fun x hx => hpre x (List.mem_cons_of_mem _ hx))
    simp [execLoop, ha, this]

theorem execLoop_true_nofail (l : List Rule) (h : ∀ x ∈ l, x.fails = false) :
    execLoop true l [] = (l, []) := by
  induction l with
  | nil => rfl
  | cons a as ih =>
    have ha : a.fails = false := h a (List.mem_cons_self)
    have := ih (fun x hx => h x (List.mem_cons_of_mem _ hx))
    simp [execLoop, ha, this]

theorem execLoop_false (l : List Rule) : ∀ errs, execLoop false l errs = (l, errs ++ l.filter (·.fails)) := by
  induction l with
  | nil => intro errs; simp [execLoop]
  | cons a as ih =>
    intro errs
    cases ha : a.fails <;> simp [execLoop, ha, ih]

theorem exists_first_fail : ∀ (S : List Rule), (¬ ∀ x ∈ S, x.fails = false) →
    ∃ pre r post, S = pre ++ r :: post ∧ (∀ x ∈ pre, x.fails = false) ∧ r.fails = true
  | [], hf => absurd (by simp) hf
  | a :: as, hf => by
    cases ha : a.fails with
    | true => exact ⟨[], a, as, rfl, by simp, ha⟩
    | false =>
      have : ¬ ∀ x ∈ as, x.fails = false := by
        intro hall; apply hf; intro x hx
        rcases List.mem_cons.mp hx with rfl | hx
        · exact ha
        · exact hall x hx
      obtain ⟨pre, r, post, h1, h2, h3⟩ := exists_first_fail as this
      refine ⟨a :: pre, r, post, by simp [h1], ?_, h3⟩
      intro x hx
      rcases List.mem_cons.mp hx with rfl | hx
      · exact ha
      · exact h2 x hx

/-- the started rules are a prefix `E` of the sorted list `S = E ++ T`, and re-running the loop on
    `E` followed by *anything* that is empty whenever `T` is gives the same result -/
theorem execLoop_prefix_stable (flag : Bool) (S : List Rule) :
    ∃ T, S = (execLoop flag S []).1 ++ T ∧
      ∀ X, (T = [] → X = []) → execLoop flag ((execLoop flag S []).1 ++ X) [] = execLoop flag S [] := by
  cases flag with
  | false =>
    refine ⟨[], by simp [execLoop_false], ?_⟩
    intro X hX
    simp [execLoop_false, hX rfl]
  | true =>
    by_cases hf : ∀ x ∈ S, x.fails = false
    · refine ⟨[], by simp [execLoop_true_nofail S hf], ?_⟩
      intro X hX
      simp [execLoop_true_nofail S hf, hX rfl]
    · -- split at the first failing rule
      have := exists_first_fail S hf
      obtain ⟨pre, r, post, h1, h2, h3⟩ := this
      subst h1
      rw [execLoop_true_append pre r post h2 h3]
      refine ⟨post, by simp, ?_⟩
      intro X _
      have : pre ++ [r] ++ X = pre ++ r :: X := by simp
      rw [this, execLoop_true_append pre r X h2 h3]

/-- **Completeness of the validator** (rules named by their position, as the harness does): every
    run of the model's rule loop under an admissible sort is accepted. -/
theorem validRun_complete (flag : Bool) (rules : List Rule)
    (hn : ∀ (i : Nat) (r : Rule), rules[i]? = some r → r.name = i)
    (sort : List Rule → List Rule) (hs : IsPrioSort sort) :
    validRun flag rules ((processRules sort flag rules).1.map (·.name))
      ((processRules sort flag rules).2.map (·.name)) = true := by
  unfold processRules
  generalize hS : sort rules = S
  have hperm : S.Perm rules := hS ▸ hs.perm rules
  have hsorted : S.Pairwise (fun a b => a.prio ≤ b.prio) := hS ▸ hs.sorted rules
  obtain ⟨T, hST, hstable⟩ := execLoop_prefix_stable flag S
  generalize hE : (execLoop flag S []).1 = E at hST hstable
  -- names are positions, hence distinct, and `rules[r.name]? = some r`
  have hidx : ∀ r ∈ rules, rules[r.name]? = some r := by
    intro r hr
    obtain ⟨i, hi, rfl⟩ := List.mem_iff_getElem.mp hr
    have := hn i rules[i] (List.getElem?_eq_getElem hi)
    rw [this]; exact List.getElem?_eq_getElem hi
  have hinj : ∀ a ∈ rules, ∀ b ∈ rules, a.name = b.name → a = b := by
    intro a ha b hb hab
    have h1 := hidx a ha; have h2 := hidx b hb
    rw [hab, h2] at h1; cases h1; rfl
  have hnd : rules.Nodup := by
    rw [List.nodup_iff_pairwise_ne] 
    rw [List.pairwise_iff_getElem]
    intro i j hi hj hij heq
    have h1 := hn i rules[i] (List.getElem?_eq_getElem hi)
    have h2 := hn j rules[j] (List.getElem?_eq_getElem hj)
    rw [heq] at h1; omega
  have hSnd : S.Nodup := hperm.nodup_iff.mpr hnd
  have hEsub : ∀ r ∈ E, r ∈ rules := fun r hr => hperm.mem_iff.mp (hST ▸ List.mem_append_left _ hr)
  have hTsub : ∀ r ∈ T, r ∈ rules := fun r hr => hperm.mem_iff.mp (hST ▸ List.mem_append_right _ hr)
  have hdisj : ∀ r ∈ E, r ∉ T := by
    intro r hr hr'
    rw [hST] at hSnd
    exact (List.nodup_append.mp hSnd).2.2 r hr r hr' rfl
  -- the started rules are recovered from their names
  have hexecR : (E.map (·.name)).filterMap (fun i => rules[i]?) = E := by
    rw [List.filterMap_map]
    have : ∀ l : List Rule, (∀ r ∈ l, r ∈ rules) →
        l.filterMap ((fun i => rules[i]?) ∘ fun r => r.name) = l := by
      intro l
      induction l with
      | nil => intro _; rfl
      | cons a as ih =>
        intro h
        simp only [List.filterMap_cons, Function.comp, hidx a (h a List.mem_cons_self)]
        rw [ih (fun r hr => h r (List.mem_cons_of_mem _ hr))]
    exact this E hEsub
  -- the rules left out are a permutation of T
  have hrest : (rules.filter fun r => !(E.map (·.name)).contains r.name).Perm T := by
    have h1 := (hperm.symm.filter (fun r => !(E.map (·.name)).contains r.name))
    rw [hST, List.filter_append] at h1
    have hE0 : E.filter (fun r => !(E.map (·.name)).contains r.name) = [] := by
      rw [List.filter_eq_nil_iff]
      intro r hr
      simp only [Bool.not_eq_true', Bool.not_eq_false, List.contains_eq_mem, decide_eq_true_eq]
      simpa using List.mem_map_of_mem (f := (·.name)) hr
    have hT0 : T.filter (fun r => !(E.map (·.name)).contains r.name) = T := by
      rw [List.filter_eq_self]
      intro r hr
      simp only [Bool.not_eq_true', List.contains_eq_mem, decide_eq_false_iff_not, List.mem_map, not_exists, not_and]
      intro e he heq
      have := hinj e (hEsub e he) r (hTsub r hr) heq
      subst this
      exact hdisj e he hr
    rw [hE0, hT0] at h1
    simpa using h1
  unfold validRun
  simp only [hexecR]
  generalize hR : stableSort (rules.filter fun r => !(E.map (·.name)).contains r.name) = R
  have hRT : R.Perm T := hR ▸ (stableSort_perm _).trans hrest
  have hRsorted : R.Pairwise (fun a b => a.prio ≤ b.prio) := hR ▸ stableSort_sorted _
  have hloop : execLoop flag (E ++ R) [] = execLoop flag S [] := by
    apply hstable
    intro hT
    rw [hT] at hRT
    exact List.Perm.eq_nil hRT
  simp only [Bool.and_eq_true, beq_iff_eq]
  refine ⟨⟨⟨?_, ?_⟩, ?_⟩, ?_⟩
  · rw [List.isPerm_iff]
    have : (E ++ R).Perm (E ++ T) := List.Perm.append_left E hRT
    rw [← hST] at this
    exact this.trans hperm
  · rw [sortedB_iff, List.pairwise_append]
    rw [hST, List.pairwise_append] at hsorted
    refine ⟨hsorted.1, hRsorted, ?_⟩
    intro a ha b hb
    exact hsorted.2.2 a ha b (hRT.mem_iff.mp hb)
  · rw [hloop, hE]
  · rw [hloop]; exact List.isPerm_iff.mpr (List.Perm.refl _)

end Ecal.Priority
