import Ecal.Model.Parser
import Ecal.Lemmas.ParserSat
/-!
C08, "each template re-parses" on the REAL parser model (`Ecal.Parse.run` / `nudOf` / `loopLed`, the model
C07 proves `parse_wellformed` for), on token level: the building blocks every template needs.
Comment-free token sequences; `bb` = the brace-block counter of the parser state.
-/
namespace Ecal.C08.TP
open Ecal.Lex Ecal.Parse

/-- a token the parser turns into a node: no comment, no lexer error, known id -/
def Real (t : Tok) : Prop := t.id ≠ 0 ∧ t.id ≠ 3 ∧ t.id ≠ 4 ∧ (table t.id).isSome = true

/-- the node `p.next()` builds for a token -/
abbrev nodeOf (bb : Nat) (t : Tok) : Node := instanceOf bb t.id (some t)

theorem addMeta_nil (n : Node) : n.addMeta [] = n := by
  cases n; simp [Node.addMeta]

theorem advance_real (bb : Nat) (c : Option Node) (t : Tok) (ts : List Tok) (h : Real t) :
    advance { toks := t :: ts, node := c, braceBlock := bb } =
      .ok [] { toks := ts, node := some (nodeOf bb t), braceBlock := bb } := by
  obtain ⟨h0, h3, h4, hk⟩ := h
  cases hk' : table t.id with
  | none => rw [hk'] at hk; simp at hk
  | some x =>
    simp [advance, nextNode, splitComments, h0, h3, h4, hk', addMeta_nil]

/-- the parser state: current node `c`, unread tokens `ts` -/
abbrev st (bb : Nat) (c : Node) (ts : List Tok) : P := { toks := ts, node := some c, braceBlock := bb }

/-- `loopLed` stops in front of a token that does not bind tighter than the right binding in force. -/
theorem loopLed_stop (f rbp bb : Nat) (left nx : Node) (ts : List Tok) (hb : nx.binding ≤ rbp) :
    loopLed (f+1) rbp left (st bb nx ts) = .ok left (st bb nx ts) := by
  have : ¬ rbp < nx.binding := by omega
  simp [loopLed, cur, bind, this, pure]

/-- **Terminal template** (`break`, `continue`, `true`, `false`, `null`, numbers, string literals, bare
    `return` has its own null denotation): a token whose null denotation is `ndTerm`, followed by a token
    that does not bind tighter than `rbp`, is read back as its own node; the parser stops at the follower. -/
theorem run_term (f rbp bb : Nat) (t nx : Tok) (rest : List Tok) (hn : Real nx)
    (hterm : (nodeOf bb t).nud = .term) (hb : (nodeOf bb nx).binding ≤ rbp) :
    run (f+2) rbp (st bb (nodeOf bb t) (nx :: rest)) = .ok (nodeOf bb t) (st bb (nodeOf bb nx) rest) := by
  have hl := loopLed_stop f rbp bb (nodeOf bb t) (nodeOf bb nx) rest hb
  have e : ((nodeOf bb t).addMeta []).nud = Nud.term := by rw [addMeta_nil]; exact hterm
  have hne : ¬ (((nodeOf bb t).addMeta []).nud = Nud.none) := by rw [e]; simp
  rw [run, bind_def]
  simp only [getP]
  rw [bind_def, advance_real bb _ nx rest hn]
  simp only [if_neg hne]
  rw [bind_def, nudOf, e]
  simp only [pure, addMeta_nil]
  exact hl

/-- **Prefix template** (`not x`, `-x`, `+x`, `let x`, and the sink attributes `kindmatch x` …
    `suppresses x` — everything with the null denotation `ndPrefix`): if the tokens of the hole are read
    back as `v` with right binding `binding + 20`, stopping in front of a token that does not bind tighter
    than `rbp`, then keyword + hole is read back as the keyword's node with the single child `v`. -/
theorem run_prefix (f rbp bb : Nat) (t h : Tok) (ts' : List Tok) (v nxn : Node) (rest : List Tok)
    (hh : Real h) (hpre : (nodeOf bb t).nud = .prefix)
    (hole : run (f+1) ((nodeOf bb t).binding + 20) (st bb (nodeOf bb h) ts') = .ok v (st bb nxn rest))
    (hb : nxn.binding ≤ rbp) :
    run (f+3) rbp (st bb (nodeOf bb t) (h :: ts')) = .ok ((nodeOf bb t).add (some v)) (st bb nxn rest) := by
  have hl := loopLed_stop (f+1) rbp bb ((nodeOf bb t).add (some v)) nxn rest hb
  have e : ((nodeOf bb t).addMeta []).nud = Nud.prefix := by rw [addMeta_nil]; exact hpre
  have hne : ¬ (((nodeOf bb t).addMeta []).nud = Nud.none) := by rw [e]; simp
  rw [run, bind_def]
  simp only [getP]
  rw [bind_def, advance_real bb _ h ts' hh]
  simp only [if_neg hne]
  rw [bind_def, nudOf, e]
  simp only [addMeta_nil]
  rw [bind_def, hole]
  simp only [pure]
  exact hl

end Ecal.C08.TP
