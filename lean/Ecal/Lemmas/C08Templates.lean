import Ecal.Model.Parser
import Ecal.Lemmas.ParserSat
/-!
C08, "each template re-parses" on the REAL parser model (`Ecal.Parse.run` / `nudOf` / `loopLed`, the model
C07 proves `parse_wellformed` for), on token level: the building blocks every template needs.
Comment-free token sequences; `bb` = the brace-block counter of the parser state.
-/
namespace Ecal.C08.TP
open Ecal.Lex Ecal.Parse

/-- a token the parser turns into a node: no comment, no lexer error, known id -/
def Real (t : Tok) : Prop := t.id ≠ 0 ∧ t.id ≠ 3 ∧ t.id ≠ 4 ∧ (table t.id).isSome = true

/-- the node `p.next()` builds for a token -/
abbrev nodeOf (bb : Nat) (t : Tok) : Node := instanceOf bb t.id (some t)

theorem addMeta_nil (n : Node) : n.addMeta [] = n := by
  cases n; simp [Node.addMeta]

theorem advance_real (bb : Nat) (c : Option Node) (t : Tok) (ts : List Tok) (h : Real t) :
    advance { toks := t :: ts, node := c, braceBlock := bb } =
      .ok [] { toks := ts, node := some (nodeOf bb t), braceBlock := bb } := by
  obtain ⟨h0, h3, h4, hk⟩ := h
  cases hk' : table t.id with
  | none => rw [hk'] at hk; simp at hk
  | some x =>
    simp [advance, nextNode, splitComments, h0, h3, h4, hk', addMeta_nil]

/-- the parser state: current node `c`, unread tokens `ts` -/
abbrev st (bb : Nat) (c : Node) (ts : List Tok) : P := { toks := ts, node := some c, braceBlock := bb }

/-- `loopLed` stops in front of a token that does not bind tighter than the right binding in force. -/
theorem loopLed_stop (f rbp bb : Nat) (left nx : Node) (ts : List Tok) (hb : nx.binding ≤ rbp) :
    loopLed (f+1) rbp left (st bb nx ts) = .ok left (st bb nx ts) := by
  have : ¬ rbp < nx.binding := by omega
  simp [loopLed, cur, bind, this, pure]

/-- **Terminal template** (`break`, `continue`, `true`, `false`, `null`, numbers, string literals, bare
    `return` has its own null denotation): a token whose null denotation is `ndTerm`, followed by a token
    that does not bind tighter than `rbp`, is read back as its own node; the parser stops at the follower. -/
theorem run_term (f rbp bb : Nat) (t nx : Tok) (rest : List Tok) (hn : Real nx)
    (hterm : (nodeOf bb t).nud = .term) (hb : (nodeOf bb nx).binding ≤ rbp) :
    run (f+2) rbp (st bb (nodeOf bb t) (nx :: rest)) = .ok (nodeOf bb t) (st bb (nodeOf bb nx) rest) := by
  have hl := loopLed_stop f rbp bb (nodeOf bb t) (nodeOf bb nx) rest hb
  have e : ((nodeOf bb t).addMeta []).nud = Nud.term := by rw [addMeta_nil]; exact hterm
  have hne : ¬ (((nodeOf bb t).addMeta []).nud = Nud.none) := by rw [e]; simp
  rw [run, bind_def]
  simp only [getP]
  rw [bind_def, advance_real bb _ nx rest hn]
  simp only [if_neg hne]
  rw [bind_def, nudOf, e]
  simp only [pure, addMeta_nil]
  exact hl

/-- **Prefix template** (`not x`, `-x`, `+x`, `let x`, and the sink attributes `kindmatch x` …
    `suppresses x` — everything with the null denotation `ndPrefix`): if the tokens of the hole are read
    back as `v` with right binding `binding + 20`, stopping in front of a token that does not bind tighter
    than `rbp`, then keyword + hole is read back as the keyword's node with the single child `v`. -/
theorem run_prefix (f rbp bb : Nat) (t h : Tok) (ts' : List Tok) (v nxn : Node) (rest : List Tok)
    (hh : Real h) (hpre : (nodeOf bb t).nud = .prefix)
    (hole : run (f+1) ((nodeOf bb t).binding + 20) (st bb (nodeOf bb h) ts') = .ok v (st bb nxn rest))
    (hb : nxn.binding ≤ rbp) :
    run (f+3) rbp (st bb (nodeOf bb t) (h :: ts')) = .ok ((nodeOf bb t).add (some v)) (st bb nxn rest) := by
  have hl := loopLed_stop (f+1) rbp bb ((nodeOf bb t).add (some v)) nxn rest hb
  have e : ((nodeOf bb t).addMeta []).nud = Nud.prefix := by rw [addMeta_nil]; exact hpre
  have hne : ¬ (((nodeOf bb t).addMeta []).nud = Nud.none) := by rw [e]; simp
  rw [run, bind_def]
  simp only [getP]
  rw [bind_def, advance_real bb _ h ts' hh]
  simp only [if_neg hne]
  rw [bind_def, nudOf, e]
  simp only [addMeta_nil]
  rw [bind_def, hole]
  simp only [pure]
  exact hl

/-- **One infix step of the loop** (`ldInfix`): in front of an infix operator that binds tighter than `rbp`, if the
    tokens of the right operand are read back as `right` with the operator's binding, the loop continues with
    the node `op(left, right)`. (Continuation form: `res` is whatever the rest of the loop returns.) -/
theorem loopLed_infix (f rbp bb : Nat) (left : Node) (o h : Tok) (ts' : List Tok) (right nxn : Node)
    (rest : List Tok) (res : Res Node) (hh : Real h)
    (hled : (nodeOf bb o).led ≠ Led.none) (hb : rbp < (nodeOf bb o).binding)
    (hole : run f (nodeOf bb o).binding (st bb (nodeOf bb h) ts') = .ok right (st bb nxn rest))
    (hk : loopLed f rbp (((nodeOf bb o).add (some left)).add (some right)) (st bb nxn rest) = res) :
    loopLed (f+1) rbp left (st bb (nodeOf bb o) (h :: ts')) = res := by
  rw [loopLed, bind_def]
  simp only [cur]
  rw [if_pos hb, if_neg hled, bind_def, advance_real bb _ h ts' hh]
  simp only [addMeta_nil]
  rw [bind_def, hole]
  exact hk

theorem tokOf_some (n : Node) (t : Tok) (p : P) (h : n.tok = some t) : tokOf n p = .ok t p := by
  simp [tokOf, h]

theorem curId_st (bb : Nat) (c : Node) (t : Tok) (ts : List Tok) (h : c.tok = some t) :
    curId (st bb c ts) = .ok t.id (st bb c ts) := by
  unfold curId
  rw [bind_def]
  have : cur (st bb c ts) = .ok c (st bb c ts) := rfl
  rw [this]
  simp only
  rw [bind_def, tokOf_some c t _ h]
  rfl

/-- **A terminal that is an identifier** (`ndIdentifier` without segment, call or access): followed by a token that
    is neither `.`, `(` nor `[` and does not bind tighter than `rbp`. -/
theorem run_identifier (f rbp bb : Nat) (t nx : Tok) (rest : List Tok) (hn : Real nx)
    (hid : (nodeOf bb t).nud = .identifier) (htok : (nodeOf bb t).tok = some t)
    (hnt : (nodeOf bb nx).tok = some nx)
    (h1 : nx.id ≠ T_DOT) (h2 : nx.id ≠ T_LPAREN) (h3 : nx.id ≠ T_LBRACK)
    (hb : (nodeOf bb nx).binding ≤ rbp) :
    run (f+3) rbp (st bb (nodeOf bb t) (nx :: rest)) = .ok (nodeOf bb t) (st bb (nodeOf bb nx) rest) := by
  have hl := loopLed_stop (f+1) rbp bb (nodeOf bb t) (nodeOf bb nx) rest hb
  have e : ((nodeOf bb t).addMeta []).nud = Nud.identifier := by rw [addMeta_nil]; exact hid
  have hne : ¬ (((nodeOf bb t).addMeta []).nud = Nud.none) := by rw [e]; simp
  rw [run, bind_def]
  simp only [getP]
  rw [bind_def, advance_real bb _ nx rest hn]
  simp only [if_neg hne]
  rw [bind_def, nudOf, e]
  simp only [addMeta_nil]
  rw [parseMore, bind_def, curId_st bb _ nx rest hnt]
  simp only [h1, h2, if_false]
  rw [bind_def]
  have hc : cur (st bb (nodeOf bb nx) rest) = .ok (nodeOf bb nx) (st bb (nodeOf bb nx) rest) := rfl
  rw [hc]
  simp only
  rw [bind_def, tokOf_some _ nx _ hnt]
  simp only
  rw [bind_def, tokOf_some _ t _ htok]
  simp only [h3, false_and, if_false, pure_def]
  exact hl

theorem skipToken_st (bb : Nat) (ids : List Nat) (c : Node) (t nx : Tok) (rest : List Tok)
    (hc : c.tok = some t) (hin : ids.contains t.id = true) (hn : Real nx) :
    skipToken ids (st bb c (nx :: rest)) = .ok () (st bb (nodeOf bb nx) rest) := by
  unfold skipToken
  rw [bind_def]
  have h0 : cur (st bb c (nx :: rest)) = .ok c (st bb c (nx :: rest)) := rfl
  rw [h0]
  simp only
  rw [bind_def, tokOf_some c t _ hc]
  simp only [hin, Bool.not_true, Bool.false_eq_true, if_false]
  rw [bind_def, advance_real bb _ nx rest hn]
  rfl

/-- **Parentheses** (`ndInner`): `(` hole `)`: if the hole's tokens are read back as `e` with right binding 0 and
    the parser then stands at `)`, the parenthesised text is read back as `e` itself (no node for the brackets) and
    the loop continues behind the `)`. (Continuation form.) -/
theorem run_inner (f rbp bb : Nat) (lp h rp nx : Tok) (ts' rest : List Tok) (e : Node) (res : Res Node)
    (hh : Real h) (hn : Real nx) (hnud : (nodeOf bb lp).nud = .inner)
    (hrp : (nodeOf bb rp).tok = some rp) (hrpid : rp.id = T_RPAREN)
    (hole : run f 0 (st bb (nodeOf bb h) ts') = .ok e (st bb (nodeOf bb rp) (nx :: rest)))
    (hk : loopLed (f+1) rbp e (st bb (nodeOf bb nx) rest) = res) :
    run (f+2) rbp (st bb (nodeOf bb lp) (h :: ts')) = res := by
  have e1 : ((nodeOf bb lp).addMeta []).nud = Nud.inner := by rw [addMeta_nil]; exact hnud
  have hne : ¬ (((nodeOf bb lp).addMeta []).nud = Nud.none) := by rw [e1]; simp
  rw [run, bind_def]
  simp only [getP]
  rw [bind_def, advance_real bb _ h ts' hh]
  simp only [if_neg hne]
  rw [bind_def, nudOf, e1]
  simp only
  rw [bind_def, hole]
  simp only
  rw [bind_def, skipToken_st bb [T_RPAREN] _ rp nx rest hrp (by simp [hrpid]) hn]
  simp only [pure_def]
  exact hk

/-- terminal, continuation form -/
theorem run_term_k (f rbp bb : Nat) (t nx : Tok) (rest : List Tok) (res : Res Node) (hn : Real nx)
    (hterm : (nodeOf bb t).nud = .term)
    (hk : loopLed (f+1) rbp (nodeOf bb t) (st bb (nodeOf bb nx) rest) = res) :
    run (f+2) rbp (st bb (nodeOf bb t) (nx :: rest)) = res := by
  have e : ((nodeOf bb t).addMeta []).nud = Nud.term := by rw [addMeta_nil]; exact hterm
  have hne : ¬ (((nodeOf bb t).addMeta []).nud = Nud.none) := by rw [e]; simp
  rw [run, bind_def]
  simp only [getP]
  rw [bind_def, advance_real bb _ nx rest hn]
  simp only [if_neg hne]
  rw [bind_def, nudOf, e]
  simp only [pure, addMeta_nil]
  exact hk

/-- keyword + operand, continuation form -/
theorem run_prefix_k (f rbp bb : Nat) (t h : Tok) (ts' : List Tok) (v nxn : Node) (rest : List Tok) (res : Res Node)
    (hh : Real h) (hpre : (nodeOf bb t).nud = .prefix)
    (hole : run (f+1) ((nodeOf bb t).binding + 20) (st bb (nodeOf bb h) ts') = .ok v (st bb nxn rest))
    (hk : loopLed (f+2) rbp ((nodeOf bb t).add (some v)) (st bb nxn rest) = res) :
    run (f+3) rbp (st bb (nodeOf bb t) (h :: ts')) = res := by
  have e : ((nodeOf bb t).addMeta []).nud = Nud.prefix := by rw [addMeta_nil]; exact hpre
  have hne : ¬ (((nodeOf bb t).addMeta []).nud = Nud.none) := by rw [e]; simp
  rw [run, bind_def]
  simp only [getP]
  rw [bind_def, advance_real bb _ h ts' hh]
  simp only [if_neg hne]
  rw [bind_def, nudOf, e]
  simp only [addMeta_nil]
  rw [bind_def, hole]
  simp only [pure]
  exact hk

/-- identifier terminal, continuation form -/
theorem run_identifier_k (f rbp bb : Nat) (t nx : Tok) (rest : List Tok) (res : Res Node) (hn : Real nx)
    (hid : (nodeOf bb t).nud = .identifier) (htok : (nodeOf bb t).tok = some t)
    (hnt : (nodeOf bb nx).tok = some nx)
    (h1 : nx.id ≠ T_DOT) (h2 : nx.id ≠ T_LPAREN) (h3 : nx.id ≠ T_LBRACK)
    (hk : loopLed (f+2) rbp (nodeOf bb t) (st bb (nodeOf bb nx) rest) = res) :
    run (f+3) rbp (st bb (nodeOf bb t) (nx :: rest)) = res := by
  have e : ((nodeOf bb t).addMeta []).nud = Nud.identifier := by rw [addMeta_nil]; exact hid
  have hne : ¬ (((nodeOf bb t).addMeta []).nud = Nud.none) := by rw [e]; simp
  rw [run, bind_def]
  simp only [getP]
  rw [bind_def, advance_real bb _ nx rest hn]
  simp only [if_neg hne]
  rw [bind_def, nudOf, e]
  simp only [addMeta_nil]
  rw [parseMore, bind_def, curId_st bb _ nx rest hnt]
  simp only [h1, h2, if_false]
  rw [bind_def]
  have hc : cur (st bb (nodeOf bb nx) rest) = .ok (nodeOf bb nx) (st bb (nodeOf bb nx) rest) := rfl
  rw [hc]
  simp only
  rw [bind_def, tokOf_some _ nx _ hnt]
  simp only
  rw [bind_def, tokOf_some _ t _ htok]
  simp only [h3, false_and, if_false, pure_def]
  exact hk

end Ecal.C08.TP
