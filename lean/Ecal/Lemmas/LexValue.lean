import Ecal.Lemmas.C08QuoteReal
import Ecal.Lemmas.LexerInv
/-!
The string lexer of the lexer model (`lexValueOpen` / `lexValueLoop` / `lexValueClose`) on byte
lists: where a literal ends and what its token value is (C14, lexer clauses).
-/
namespace Ecal.LexValue
open Ecal.Lex Ecal.Print Ecal.C08.QR

/-- `body` is the body of a literal with end quote `q`, read with the flag `esc` (= the next
    byte is escaped: it follows an unescaped backslash):
    raw literal (`ae = false`): `q` does not occur in `body`;
    quoted literal (`ae = true`): `q` occurs in `body` only escaped, and `body` does not end in
    an unescaped backslash (so the `q` that follows `body` closes the literal). -/
def Body (ae : Bool) (q : Nat) : Bool → List Nat → Prop
  | esc, [] => ae = true → esc = false
  | esc, c :: cs => (c = q → ae = true ∧ esc = true) ∧ Body ae q (!esc && c == 92) cs

instance Body.dec (ae : Bool) (q : Nat) : ∀ (esc : Bool) (body : List Nat), Decidable (Body ae q esc body)
  | _, [] => by unfold Body; infer_instance
  | esc, c :: cs => by
    unfold Body
    exact @instDecidableAnd _ _ _ (Body.dec ae q (!esc && c == 92) cs)

theorem Body.skip {ae : Bool} {q : Nat} : ∀ (w : Nat) (body : List Nat) (esc : Bool), 1 ≤ w → w ≤ body.length →
    (∀ i, i < w → 128 ≤ body.getD i 0) → Body ae q esc body → Body ae q false (body.drop w)
  | 0, _, _, h, _, _, _ => by omega
  | w+1, [], _, _, h, _, _ => by simp at h
  | w+1, c :: cs, esc, _, hl, hb, h => by
    have hc : 128 ≤ c := by simpa using hb 0 (by omega)
    have h92 : (!esc && c == 92) = false := by
      have : c ≠ 92 := by omega
      simp [this]
    have h' := h.2
    rw [h92] at h'
    cases w with
    | zero => simpa using h'
    | succ w =>
      simp only [List.drop_succ_cons]
      exact Body.skip (w+1) cs false (by omega) (by simpa using hl)
        (fun i hi => by simpa using hb (i+1) (by omega)) h'

theorem getD_append_right (a : List Nat) (x : Nat) (t : List Nat) : (a ++ x :: t).getD a.length 0 = x := by
  simp [List.getD]

theorem getD_append_left (a t : List Nat) (i : Nat) (h : i < a.length) : (a ++ t).getD i 0 = a.getD i 0 := by
  simp [List.getD, List.getElem?_append_left h]

/-- the rune at the head of `c :: cs ++ q :: rest`: either the ASCII byte `c` itself, or a rune
    ≥ 0x80 that covers only bytes ≥ 0x80 — it does not reach the `q` -/
theorem head_cases (c : Nat) (cs : List Nat) (q : Nat) (hq : q < 128) (rest : List Nat) :
    let d := decodeHead (c :: cs ++ q :: rest)
    (d.1 = c ∧ c < 128 ∧ d.2 = 1) ∨
    (128 ≤ d.1 ∧ 1 ≤ d.2 ∧ d.2 ≤ (c :: cs).length ∧ ∀ i, i < d.2 → 128 ≤ (c :: cs).getD i 0) := by
  intro d
  have hs := decodeBytes_spec (c :: cs ++ q :: rest).length ((c :: cs ++ q :: rest).getD 0 0)
    ((c :: cs ++ q :: rest).getD 1 0) ((c :: cs ++ q :: rest).getD 2 0) ((c :: cs ++ q :: rest).getD 3 0)
    (by simp) d.1 d.2 rfl
  obtain ⟨h1, h2, h3, h4, h5⟩ := hs
  by_cases hlt : d.1 < 128
  · obtain ⟨hw, hc⟩ := h4 hlt
    left
    have : (c :: cs ++ q :: rest).getD 0 0 = c := by simp
    rw [this] at hc
    exact ⟨hc.symm, by omega, hw⟩
  · right
    obtain ⟨g0, g1, g2, g3⟩ := h5 (by omega)
    -- every byte of the rune is ≥ 0x80, in the whole text
    have hall : ∀ i, i < d.2 → 128 ≤ (c :: cs ++ q :: rest).getD i 0 := by
      intro i hi
      have : i = 0 ∨ i = 1 ∨ i = 2 ∨ i = 3 := by omega
      rcases this with rfl | rfl | rfl | rfl
      · exact g0
      · exact g1 (by omega)
      · exact g2 (by omega)
      · exact g3 (by omega)
    have hlen : d.2 ≤ (c :: cs).length := by
      apply Nat.le_of_not_lt; intro hgt
      have := hall (c :: cs).length hgt
      rw [getD_append_right] at this
      omega
    refine ⟨by omega, h1, hlen, fun i hi => ?_⟩
    have := hall i hi
    rwa [getD_append_left _ _ _ (by omega)] at this

/-- **The loop of the string lexer on the unread bytes.** If the unread bytes are `body ++ q :: rest`
    with `body` a literal body in the sense of `Body`, the loop ends at that `q`: it returns the
    state just behind it. -/
theorem loop_scan (ae : Bool) (q : Nat) (hq : q < 128) (rest : List Nat) :
    ∀ (fuel : Nat) (body : List Nat) (lp : L) (esc : Bool) (ln lnl : Nat),
    rem lp = body ++ q :: rest → Body ae q esc body → body.length < fuel →
    ∃ l' ln' lnl', lexValueLoop ae (some q) fuel (lp.next).1 (lp.next).2 esc ln lnl = some (l', ln', lnl') ∧
      l'.inp = lp.inp ∧ l'.start = lp.start ∧ l'.toks = lp.toks ∧ l'.skippedNl = lp.skippedNl ∧
      rem l' = rest ∧ l'.pos = lp.pos + body.length + 1
  | 0, _, _, _, _, _, _, _, h => by omega
  | fuel+1, [], lp, esc, ln, lnl, hr, hb, _ => by
    obtain ⟨h2, hrem, hinp, hst, htk, hsk, hpos⟩ := next_rem lp q rest hr
    rw [decodeHead_ascii q rest hq] at h2 hrem hpos
    rw [lexValueLoop, h2]
    have hc : ((!ae && some q != some q) || (ae && (some q != some q || esc))) = false := by
      cases ae with
      | false => simp
      | true => simp [hb rfl]
    simp only [hc, Bool.false_eq_true, ↓reduceIte]
    exact ⟨_, _, _, rfl, hinp, hst, htk, hsk, by simpa using hrem, by simpa using hpos⟩
  | fuel+1, c :: cs, lp, esc, ln, lnl, hr, hb, hf => by
    have hr' : rem lp = c :: (cs ++ q :: rest) := by simpa using hr
    obtain ⟨h2, hrem, hinp, hst, htk, hsk, hpos⟩ := next_rem lp c (cs ++ q :: rest) hr'
    have hcases := head_cases c cs q hq rest
    simp only [List.cons_append] at hcases
    -- the rune is not the closing quote (or it is escaped), and the body continues behind it
    have key : ((!ae && some (decodeHead (c :: (cs ++ q :: rest))).1 != some q) ||
          (ae && (some (decodeHead (c :: (cs ++ q :: rest))).1 != some q || esc))) = true ∧
        (decodeHead (c :: (cs ++ q :: rest))).2 ≤ (c :: cs).length ∧
        1 ≤ (decodeHead (c :: (cs ++ q :: rest))).2 ∧
        Body ae q (!esc && decide (some (decodeHead (c :: (cs ++ q :: rest))).1 = some 92))
          ((c :: cs).drop (decodeHead (c :: (cs ++ q :: rest))).2) := by
      rcases hcases with ⟨e1, e2, e3⟩ | ⟨e1, e2, e3, e4⟩
      · rw [e1, e3]
        refine ⟨?_, by simp, by omega, ?_⟩
        · by_cases hcq : c = q
          · obtain ⟨ha, he⟩ := hb.1 hcq
            simp [ha, he]
          · cases ae <;> simp [hcq]
        · have := hb.2
          have e : (!esc && decide (some c = some 92)) = (!esc && c == 92) := by
            by_cases h : c = 92 <;> simp [h]
          rw [e]; exact this
      · refine ⟨?_, e3, e2, ?_⟩
        · have : (decodeHead (c :: (cs ++ q :: rest))).1 ≠ q := by omega
          cases ae <;> simp [this]
        · have h92 : (decodeHead (c :: (cs ++ q :: rest))).1 ≠ 92 := by omega
          simp only [Option.some.injEq, h92, decide_false, Bool.and_false]
          exact Body.skip _ _ esc e2 e3 e4 hb
    obtain ⟨k1, k2, k3, k4⟩ := key
    rw [lexValueLoop, h2]
    simp only [k1, ↓reduceIte]
    -- what is unread after this rune
    have hrem2 : rem (lp.next).1 = (c :: cs).drop (decodeHead (c :: (cs ++ q :: rest))).2 ++ q :: rest := by
      rw [hrem]
      exact List.drop_append_of_le_length (l₂ := q :: rest) k2
    have hlen : ((c :: cs).drop (decodeHead (c :: (cs ++ q :: rest))).2).length < fuel := by
      simp only [List.length_drop, List.length_cons] at hf ⊢; omega
    obtain ⟨l', ln', lnl', hl, a1, a2, a3, a4, a5, a6⟩ := loop_scan ae q hq rest fuel _ (lp.next).1
      (!esc && decide (some (decodeHead (c :: (cs ++ q :: rest))).1 = some 92))
      (trackPair (some (decodeHead (c :: (cs ++ q :: rest))).1) (lp.next).1.pos (ln, lnl)).1
      (trackPair (some (decodeHead (c :: (cs ++ q :: rest))).1) (lp.next).1.pos (ln, lnl)).2 hrem2 k4 hlen
    have hnn : ¬ (((lp.next).1.next).2 = none) := by
      cases hd : (c :: cs).drop (decodeHead (c :: (cs ++ q :: rest))).2 with
      | nil => rw [hd] at hrem2; rw [(next_rem _ q rest (by simpa using hrem2)).1]; simp
      | cons x xs => rw [hd] at hrem2; rw [(next_rem _ x (xs ++ q :: rest) (by simpa using hrem2)).1]; simp
    rw [if_neg hnn]
    refine ⟨l', ln', lnl', hl, a1.trans hinp, a2.trans hst, a3.trans htk, a4.trans hsk, a5, ?_⟩
    rw [a6, hpos]
    simp only [List.length_drop, List.length_cons] at k2 ⊢
    omega


theorem Body.raw {q : Nat} : ∀ (body : List Nat) (esc : Bool), q ∉ body → Body false q esc body
  | [], _, _ => by simp [Body]
  | c :: cs, esc, h => by
    simp only [List.mem_cons, not_or] at h
    exact ⟨fun hc => absurd hc.symm h.1, Body.raw cs _ h.2⟩

theorem slice_app (l : L) (A B C : List Nat) (h : l.inp = (A ++ (B ++ C)).toArray) (a b : Nat)
    (ha : a = A.length) (hb : b = A.length + B.length) : l.slice a b = B := by
  subst ha hb
  simp only [L.slice, Array.toList_extract, h, List.extract]
  have h1 : (A ++ (B ++ C)).take (A.length + B.length) = A ++ B := by
    rw [← List.append_assoc]; exact List.take_left' (by simp)
  simp [h1]

/-- size of the input and fuel -/
theorem size_eq (l : L) (x : List Nat) (h : l.inp = x.toArray) : l.inp.size = x.length := by
  rw [h]; simp

/-- **Raw literal.** Wherever `r q body q` stands in the input (after `pre`, before `rest`) with `q`
    not in `body`, `lexValue` started at the `r` emits exactly one string token with value `body`,
    `allowEscapes = false`, and stops directly behind the closing quote. -/
theorem lexValue_raw (l0 : L) (pre body rest : List Nat) (q : Nat) (hq : q = 34 ∨ q = 39) (hb : q ∉ body)
    (hinp : l0.inp = (pre ++ (114 :: q :: (body ++ q :: rest))).toArray) (hpos : l0.pos = pre.length) :
    ∃ t : Tok, (lexValue l0).2 = Next.token ∧ (lexValue l0).1.toks = l0.toks.push t ∧
      t.id = tSTRING ∧ t.val = body ∧ t.allowEscapes = false ∧ t.identifier = false ∧ t.pos = pre.length ∧
      (lexValue l0).1.pos = pre.length + body.length + 3 ∧ (lexValue l0).1.inp = l0.inp := by
  have hq128 : q < 128 := by rcases hq with rfl | rfl <;> omega
  let la : L := { l0 with start := l0.pos }
  have hla : rem la = 114 :: q :: (body ++ q :: rest) := by
    show l0.inp.toList.drop l0.pos = _
    rw [hinp, hpos]; simp
  obtain ⟨n1, r1, i1, s1, t1, k1, p1⟩ := next_rem la 114 _ hla
  rw [decodeHead_ascii 114 _ (by omega)] at n1 r1 p1
  simp only [List.drop_succ_cons, List.drop_zero] at r1
  obtain ⟨n2, r2, i2, s2, t2, k2, p2⟩ := next_rem la.next.1 q _ r1
  rw [decodeHead_ascii q _ hq128] at n2 r2 p2
  simp only [List.drop_succ_cons, List.drop_zero] at r2
  have hopen : lexValueOpen l0 = (la.next.1.next.1, false, some q) := by
    unfold lexValueOpen
    show (if (la.next).2 = some 114 && ((la.next).1.peek 1 = some 34 || (la.next).1.peek 1 = some 39) then _ else _) = _
    rw [n1, peek1_eq, n2]
    rcases hq with rfl | rfl <;> (simp; try rfl)
  have hsize : l0.inp.size = pre.length + (body.length + rest.length + 3) := by
    rw [size_eq _ _ hinp]; simp; omega
  obtain ⟨l', ln', lnl', hloop, a1, a2, a3, a4, a5, a6⟩ :=
    loop_scan false q hq128 rest (la.next.1.next.1.next.1.inp.size + 2) body la.next.1.next.1 false
      (la.next.1.next.1.next.1).line (la.next.1.next.1.next.1).lastnl r2 (Body.raw body false hb)
      (by rw [next_inp, i2, i1]; show body.length < l0.inp.size + 2; omega)
  have hinp' : l'.inp = l0.inp := a1.trans (i2.trans i1)
  have hstart' : l'.start = pre.length := by rw [a2, s2, s1]; exact hpos
  have hpos' : l'.pos = pre.length + body.length + 3 := by
    rw [a6, p2, p1]; show l0.pos + 1 + 1 + body.length + 1 = _; omega
  have hval : l'.slice (l'.start + 2) (l'.pos - 1) = body := by
    refine slice_app l' (pre ++ [114, q]) body (q :: rest) ?_ _ _ (by rw [hstart']; simp) (by rw [hpos']; simp; omega)
    rw [hinp', hinp]; simp
  refine ⟨Tok.mk tSTRING l'.start body false false l'.skippedNl l'.stamp.1 l'.stamp.2, ?_⟩
  have hres : lexValue l0 =
      ({ (l'.emit tSTRING body false false) with line := ln', lastnl := lnl' }, Next.token) := by
    unfold lexValue
    rw [hopen]
    dsimp only
    rw [hloop]
    simp only [lexValueClose, Bool.false_eq_true, if_false, hval]
  rw [hres]
  refine ⟨rfl, ?_, rfl, rfl, rfl, rfl, hstart', hpos', hinp'⟩
  simp [L.emit, a3, t2, t1]
  rfl

/-- what the code unquotes: in a single-quoted literal every `"` of the body is escaped first -/
def prep (q : Nat) (body : List Nat) : List Nat := if q = 39 then replaceQuotes body else body

/-- **Quoted literal.** Wherever `q body q` stands in the input with `body` a literal body
    (`Body true q false body`), `lexValue` started at the opening quote ends the literal at that
    closing `q`; it emits one token: the string token with the unquoted value and
    `allowEscapes = true` if `strconv.Unquote` (model: `unquoteBody`) accepts the prepared body,
    an Error token (and the lexer stops) if not. -/
theorem lexValue_quoted (l0 : L) (pre body rest : List Nat) (q : Nat) (hq : q = 34 ∨ q = 39)
    (hb : Body true q false body)
    (hinp : l0.inp = (pre ++ (q :: (body ++ q :: rest))).toArray) (hpos : l0.pos = pre.length) :
    ∃ t : Tok, (lexValue l0).1.toks = l0.toks.push t ∧ t.pos = pre.length ∧ t.identifier = false ∧
      (lexValue l0).1.pos = pre.length + body.length + 2 ∧ (lexValue l0).1.inp = l0.inp ∧
      (match unquoteBody ((prep q body).length + 2) (prep q body) with
       | some s => (lexValue l0).2 = Next.token ∧ t.id = tSTRING ∧ t.val = s ∧ t.allowEscapes = true
       | none => (lexValue l0).2 = Next.stop ∧ t.id = tERROR) := by
  have hq128 : q < 128 := by rcases hq with rfl | rfl <;> omega
  let la : L := { l0 with start := l0.pos }
  have hla : rem la = q :: (body ++ q :: rest) := by
    show l0.inp.toList.drop l0.pos = _
    rw [hinp, hpos]; simp
  obtain ⟨n1, r1, i1, s1, t1, k1, p1⟩ := next_rem la q _ hla
  rw [decodeHead_ascii q _ hq128] at n1 r1 p1
  simp only [List.drop_succ_cons, List.drop_zero] at r1
  have hopen : lexValueOpen l0 = (la.next.1, true, some q) := by
    unfold lexValueOpen
    show (if (la.next).2 = some 114 && _ then _ else _) = _
    rw [n1]
    rcases hq with rfl | rfl <;> simp <;> rfl
  have hsize : l0.inp.size = pre.length + (body.length + rest.length + 2) := by
    rw [size_eq _ _ hinp]; simp; omega
  obtain ⟨l', ln', lnl', hloop, a1, a2, a3, a4, a5, a6⟩ :=
    loop_scan true q hq128 rest (la.next.1.next.1.inp.size + 2) body la.next.1 false
      (la.next.1.next.1).line (la.next.1.next.1).lastnl r1 hb
      (by rw [next_inp, i1]; show body.length < l0.inp.size + 2; omega)
  have hinp' : l'.inp = l0.inp := a1.trans i1
  have hstart' : l'.start = pre.length := by rw [a2, s1]; exact hpos
  have hpos' : l'.pos = pre.length + body.length + 2 := by
    rw [a6, p1]; show l0.pos + 1 + body.length + 1 = _; omega
  have hval : l'.slice (l'.start + 1) (l'.pos - 1) = body := by
    refine slice_app l' (pre ++ [q]) body (q :: rest) ?_ _ _ (by rw [hstart']; simp) (by rw [hpos']; simp; omega)
    rw [hinp', hinp]; simp
  have hprep : (if some q = some 39 then replaceQuotes body else body) = prep q body := by
    unfold prep; by_cases h : q = 39 <;> simp [h]
  cases hu : unquoteBody ((prep q body).length + 2) (prep q body) with
  | none =>
    have hres : lexValue l0 = (l'.emitError "invalid syntax while parsing string", Next.stop) := by
      unfold lexValue
      rw [hopen]
      dsimp only
      rw [hloop]
      simp only [lexValueClose, if_true, hval, hprep, hu]
    rw [hres]
    refine ⟨Tok.mk tERROR l'.start (str "invalid syntax while parsing string") false false l'.skippedNl
      l'.stamp.1 l'.stamp.2, ?_, hstart', rfl, hpos', hinp', rfl, rfl⟩
    simp [L.emitError, L.emit, a3, t1]
    rfl
  | some v =>
    have hres : lexValue l0 =
        ({ (l'.emit tSTRING v false true) with line := ln', lastnl := lnl' }, Next.token) := by
      unfold lexValue
      rw [hopen]
      dsimp only
      rw [hloop]
      simp only [lexValueClose, if_true, hval, hprep, hu]
    rw [hres]
    refine ⟨Tok.mk tSTRING l'.start v false true l'.skippedNl l'.stamp.1 l'.stamp.2, ?_, hstart', rfl,
      hpos', hinp', rfl, rfl, rfl, rfl⟩
    simp [L.emit, a3, t1]
    rfl

end Ecal.LexValue
