/-! GENERATED on every run by `harness C18 -tool extract` (go/ast over the tree under test) — do not edit.
Where the code copies a token's position into something the user sees. Verdicts: 0 established, 1 refuted, 2 unknown shape. -/
namespace Ecal.Gen.C18

/-- (kind, verdict, site, the Line-operand / the Pos-operand as written in the source); kinds: 1 construct parser.Error,
    2 construct util.RuntimeError, 3 text of (*parser.Error).Error, 4 text of (*util.RuntimeError).Error, 5 other message text,
    6 stack trace entry, 7 break point key in VisitState, 8 break point key elsewhere, 9 / 10 except object line / pos -/
def sites : List (Nat × Nat × String × String) :=
  [(8, 0, "break point key in interpreter.ecalDebugger.DisableBreakPoint", "source / line"),
   (8, 0, "break point key in interpreter.ecalDebugger.RemoveBreakPoint", "source / line"),
   (8, 0, "break point key in interpreter.ecalDebugger.SetBreakPoint", "source / line"),
   (7, 0, "break point key in interpreter.ecalDebugger.VisitState", "node.Token.Lline / node.Token.Lsource"),
   (1, 0, "construct parser.Error in parser.parser.newParserError", "token.Lline / token.Lpos"),
   (2, 0, "construct util.RuntimeError in util.NewRuntimeError", "node.Token.Lline / node.Token.Lpos"),
   (2, 0, "construct util.RuntimeError in util.NewRuntimeError", "0 / 0"),
   (9, 0, "except object line in interpreter.tryRuntime.Eval", "rtError.Line"),
   (9, 0, "except object line in interpreter.tryRuntime.Eval", "rtError.Line"),
   (10, 0, "except object pos in interpreter.tryRuntime.Eval", "rtError.Pos"),
   (10, 0, "except object pos in interpreter.tryRuntime.Eval", "rtError.Pos"),
   (3, 0, "message text in parser.Error.Error", "pe.Line / pe.Pos"),
   (5, 0, "message text in scope.NameFromASTNode", "node.Token.Lline / node.Token.Lpos"),
   (4, 0, "message text in util.RuntimeError.Error", "re.Line / re.Pos"),
   (6, 0, "stack trace entry in util.RuntimeError.GetTraceString", "t.Token.Lline / t.Token.Lsource")]

end Ecal.Gen.C18
