namespace Ecal.Gen.C12
def skeleton : List String := [
    "T.Lock", "get M[N]", "if !found", "new M", "set M[N]=M", "end",
    "get O[N]", "T.Unlock",
    "if !found || O != tid",
    "M.Lock",
    "T.Lock", "set O[N]=tid", "T.Unlock",
    "defer", "T.Lock", "set O[N]=0", "T.Unlock", "M.Unlock", "end",
    "else if O == tid", "end",
    "body"]
end Ecal.Gen.C12
