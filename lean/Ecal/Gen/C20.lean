/-! GENERATED on every run by `harness C20 -tool extract` (go/ast over cli/tool/pack.go) — do not edit.
Geometry of the marker scan in RunPackedBinary and the assembly of the marker string. -/
namespace Ecal.Gen.C20

/-- `packmarkerend` -/
def markerEnd : List Nat := [35, 35, 35, 35]

/-- the pieces `packmarker` is assembled from at run time: `fmt.Sprintf("\n%v%v%v\n", packmarkerend, "ECALSRC", packmarkerend)` -/
def markerPieces : List (List Nat) :=
  [[10],
   [35, 35, 35, 35],
   [69, 67, 65, 76, 83, 82, 67],
   [35, 35, 35, 35],
   [10]]

/-- `packmarker` -/
def marker : List Nat := markerPieces.flatten

/-- `b1` -/
def b1 : Nat := 4096

/-- `b2` -/
def b2 : Nat := (marker.length + 11)

/-- size of the buffer handed to `f.Read`: `buf := make([]byte, b1+b2)` -/
def bufSize : Nat := (b1 + b2)

/-- bytes of a block kept for the next window: `keep := len(packmarker) - 1` -/
def keep : Nat := (marker.length - 1)

/-- for every byte value: is it skipped after the marker? Evaluated from the predicate of the skip loop
    with Go's unicode functions: `stop when rerr != nil || !(unicode.IsSpace(rune(c[0])) || unicode.IsControl(rune(c[0])))` -/
def skipTable : List Bool :=
  [true, true, true, true, true, true, true, true, true, true, true, true, true, true, true, true, true, true, true, true, true, true, true, true, true, true, true, true, true, true, true, true, true, false, false, false, false, false, false, false, false, false, false, false, false, false, false, false, false, false, false, false, false, false, false, false, false, false, false, false, false, false, false, false, false, false, false, false, false, false, false, false, false, false, false, false, false, false, false, false, false, false, false, false, false, false, false, false, false, false, false, false, false, false, false, false, false, false, false, false, false, false, false, false, false, false, false, false, false, false, false, false, false, false, false, false, false, false, false, false, false, false, false, false, false, false, false, true, true, true, true, true, true, true, true, true, true, true, true, true, true, true, true, true, true, true, true, true, true, true, true, true, true, true, true, true, true, true, true, true, true, false, false, false, false, false, false, false, false, false, false, false, false, false, false, false, false, false, false, false, false, false, false, false, false, false, false, false, false, false, false, false, false, false, false, false, false, false, false, false, false, false, false, false, false, false, false, false, false, false, false, false, false, false, false, false, false, false, false, false, false, false, false, false, false, false, false, false, false, false, false, false, false, false, false, false, false, false, false, false, false, false, false, false, false, false, false, false, false, false, false, false, false, false, false, false]

/-- what the extractor could NOT translate (reference values were used there); must be empty -/
def extractProblems : List String := []

/-! Three-valued facts: `some true` / `some false` = established from the source, `none` = not established
(the check then relies on the correspondence cases alone and amplifies them). -/

/-- cli/ecal.go: is the first statement of `main` the unconditional call `tool.RunPackedBinary()`?
    Found: `tool.RunPackedBinary()` -/
def mainCallsRunPackedFirst : Option Bool := some true

/-- is the file to scan determined with `os.Executable()`? Found: `osExecutable() (osExecutable = os.Executable)` -/
def locateUsesOsExecutable : Option Bool := some true

/-- information only (no obligation; the sequence cases decide): Pack opens the target with `os.Create` / `O_TRUNC`?
    Found: `os.Create(*p.TargetBinary)` -/
def targetOpenTruncates : Option Bool := some true

/-- information only (no obligation; case `realbin` is the evidence): `packmarker` is built by a call at run time -/
def markerBuiltByCall : Bool := true

end Ecal.Gen.C20
