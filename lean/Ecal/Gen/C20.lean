/-! GENERATED on every run by `harness C20 -tool extract` (go/ast over cli/tool/pack.go) — do not edit.
Geometry of the marker scan in RunPackedBinary and the assembly of the marker string. -/
namespace Ecal.Gen.C20

/-- `packmarkerend` -/
def markerEnd : List Nat := [35, 35, 35, 35]

/-- the pieces `packmarker` is assembled from at run time: `fmt.Sprintf("\n%v%v%v\n", packmarkerend, "ECALSRC", packmarkerend)` -/
def markerPieces : List (List Nat) :=
  [[10],
   [35, 35, 35, 35],
   [69, 67, 65, 76, 83, 82, 67],
   [35, 35, 35, 35],
   [10]]

/-- `packmarker` -/
def marker : List Nat := markerPieces.flatten

/-- `b1` -/
def b1 : Nat := 4096

/-- `b2` -/
def b2 : Nat := (marker.length + 11)

/-- size of the buffer handed to `f.Read`: `buf := make([]byte, b1+b2)` -/
def bufSize : Nat := (b1 + b2)

/-- bytes of a block kept for the next window: `keep := len(packmarker) - 1` -/
def keep : Nat := (marker.length - 1)

/-- for every byte value: is it skipped after the marker? Evaluated from the predicate of the skip loop
    with Go's unicode functions: `stop when rerr != nil || !(unicode.IsSpace(rune(c[0])) || unicode.IsControl(rune(c[0])))` -/
def skipTable : List Bool :=
  [true, true, true, true, true, true, true, true, true, true, true, true, true, true, true, true, true, true, true, true, true, true, true, true, true, true, true, true, true, true, true, true, true, false, false, false, false, false, false, false, false, false, false, false, false, false, false, false, false, false, false, false, false, false, false, false, false, false, false, false, false, false, false, false, false, false, false, false, false, false, false, false, false, false, false, false, false, false, false, false, false, false, false, false, false, false, false, false, false, false, false, false, false, false, false, false, false, false, false, false, false, false, false, false, false, false, false, false, false, false, false, false, false, false, false, false, false, false, false, false, false, false, false, false, false, false, false, true, true, true, true, true, true, true, true, true, true, true, true, true, true, true, true, true, true, true, true, true, true, true, true, true, true, true, true, true, true, true, true, true, true, false, false, false, false, false, false, false, false, false, false, false, false, false, false, false, false, false, false, false, false, false, false, false, false, false, false, false, false, false, false, false, false, false, false, false, false, false, false, false, false, false, false, false, false, false, false, false, false, false, false, false, false, false, false, false, false, false, false, false, false, false, false, false, false, false, false, false, false, false, false, false, false, false, false, false, false, false, false, false, false, false, false, false, false, false, false, false, false, false, false, false, false, false, false, false]

/-- what the extractor could NOT translate (reference values were used there); must be empty -/
def extractProblems : List String := []

/-- cli/ecal.go: is the first statement of `main` the unconditional call `tool.RunPackedBinary()`?
    First statement found: `tool.RunPackedBinary()` -/
def mainCallsRunPackedFirst : Bool := true

/-- Pack: is the target opened so that its old content is discarded (`os.Create`, or `os.OpenFile` with
    `O_TRUNC`)? Found: `os.Create(*p.TargetBinary)` -/
def targetOpenTruncates : Bool := true

/-- is the file to scan determined with `os.Executable()`? Found: `osExecutable() (osExecutable = os.Executable)` -/
def locateUsesOsExecutable : Bool := true

/-- is `packmarker` the result of a function call at run time (not a constant expression, which the
    compiler would fold into one literal inside the interpreter binary)? -/
def markerBuiltByCall : Bool := true

end Ecal.Gen.C20
