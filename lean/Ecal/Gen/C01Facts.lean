/-! Regenerated on every run from engine/processor.go of the tree under test by
`harness C01 -tool extract` (go/cmd/harness/c01facts.go). Do not edit. -/
namespace Ecal.Gen.C01

/-- how the trigger cache of eventProcessor.IsTriggering is keyed:
    0 = established injective rendering of event.Kind(), 1 = not established, 2 = refuted -/
def cacheKey : Nat := 0

def cacheKeyExpr : String := "fmt.Sprintf(\"%q\", event.Kind())"

def cacheKeyWhy : String := "the key is the %q rendering of the kind slice (quotes every segment: injective)"

end Ecal.Gen.C01
