/-! GENERATED on every run by `harness C17 -tool extract` (go/ast over cli, cli/tool, interpreter, util
of the tree under test, outside tests) — do not edit.
Where the `Root` of every `util.FileImportLocator` composite literal comes from. -/
namespace Ecal.Gen.C17

/-- (site, Root expression, verdict, reason) — verdict `configured` / `REFUTED` / `unknown` -/
def locatorRoots : List (String × String × String × String) := [
  ("cli/tool:tool.CLIInterpreter.CreateRuntimeProvider", "*i.Dir", "configured", ""),
  ("interpreter:interpreter.NewECALRuntimeProvider", "filepath.Dir(os.Args[0])", "configured", "")
]

/-- roots positively refuted: the value passes through a transformation whose error is discarded -/
def refuted : List String :=
  (locatorRoots.filter fun f => f.2.2.1 == "REFUTED").map fun f => f.1 ++ ": " ++ f.2.2.2

/-- roots the extractor could not follow (not a violation; the T / J cases are amplified) -/
def notEstablished : List String :=
  (locatorRoots.filter fun f => f.2.2.1 == "unknown").map fun f => f.1 ++ ": " ++ f.2.2.2

end Ecal.Gen.C17
