import Ecal.Model.Path
/-! GENERATED on every run by `harness C17 -tool extract` (go/ast over cli, cli/tool, interpreter, util
of the tree under test, outside tests) — do not edit. Verdicts: `configured` (established) / `REFUTED` / `unknown`. -/
namespace Ecal.Gen.C17

/-- where the `Root` of every `util.FileImportLocator` composite literal comes from:
    (site, Root expression, verdict, reason, is it the configured value itself) -/
def locatorRoots : List (String × String × String × String × String) := [
  ("cli/tool:tool.CLIInterpreter.CreateRuntimeProvider", "*i.Dir", "configured", "default through `wd, _ := os.Getwd()`: if Getwd fails the root is \"\" which denotes the same working directory", "configured"),
  ("interpreter:interpreter.NewECALRuntimeProvider", "filepath.Dir(os.Args[0])", "configured", "", "REFUTED")
]

/-- roots positively refuted: the value passes through a transformation whose discarded error moves the root to another directory -/
def refuted : List String :=
  (locatorRoots.filter fun f => f.2.2.1 == "REFUTED").map fun f => f.1 ++ ": " ++ f.2.2.2.1

/-- roots the extractor could not follow (not a violation; the T / U / J cases are amplified) -/
def notEstablished : List String :=
  (locatorRoots.filter fun f => f.2.2.1 == "unknown").map fun f => f.1 ++ ": " ++ f.2.2.2.1

/-- `CLIInterpreter.CreateRuntimeProvider`: is the locator's Root the configured `Dir` value itself?
    `some true` established, `some false` refuted, `none` not established (no literal found / not followed) -/
def toolRootFact : Option Bool := some true

/-- what the driver instantiates the model with: not refuted -/
def toolRootIsDir : Bool := toolRootFact.getD true

/-- every call reachable from `FileImportLocator.Resolve` that touches the file system (or cannot be classified):
    (site, call, verdict, reason). `configured` = after the containment test, guarded by its result, argument = the tested value. -/
def resolveCalls : List (String × String × String × String) := [
  ("cli/tool:tool.CLIInterpreter.LoadInitialFile", "ioutil.ReadFile(i.EntryFile)", "configured", "the program's own entry / log / configuration file, named by the user"),
  ("cli/tool:tool.CLIInterpreter.LoadStdlibPlugins", "ioutil.ReadFile(confFile)", "configured", "the program's own entry / log / configuration file, named by the user"),
  ("util:util.FileImportLocator.Resolve", "ioutil.ReadFile(importPath)", "configured", "")
]

def openRefuted : List String :=
  (resolveCalls.filter fun f => f.2.2.1 == "REFUTED").map fun f => f.1 ++ ": " ++ f.2.1 ++ " — " ++ f.2.2.2

def openNotEstablished : List String :=
  (resolveCalls.filter fun f => f.2.2.1 == "unknown").map fun f => f.1 ++ ": " ++ f.2.1 ++ " — " ++ f.2.2.2

/-- the `Resolve` calls reachable from `importRuntime.Eval`: (site, receiver, verdict, reason, argument, verdict, reason) -/
def importResolveCalls : List (String × String × String × String × String × String × String) := [
  ("interpreter:interpreter.importRuntime.Eval", "rt.erp.ImportLocator", "configured", "", "fmt.Sprint(importPath)", "configured", "")
]

/-- is the receiver of every `Resolve` call reachable from `importRuntime.Eval` the provider's configured locator?
    (`none`: not established, e.g. no call found) -/
def receiverFact : Option Bool := some true

/-- is its argument `fmt.Sprint` of the value of the path expression (child 0)? -/
def argumentFact : Option Bool := some true

/-- what the driver instantiates the import model with: every fact that is not refuted -/
def importFacts : Ecal.Path.ImportFacts :=
  { receiverIsConfiguredLocator := receiverFact.getD true, argumentIsPathValue := argumentFact.getD true }

end Ecal.Gen.C17
