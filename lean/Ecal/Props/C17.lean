import Ecal.Model.Path
namespace Ecal.Props.C17
open Ecal.Path
theorem placeholder : cleanStr [] = dot := by decide
end Ecal.Props.C17
