import Ecal.Model.Path
import Ecal.Lemmas.Path
import Ecal.Gen.C17
/-!
# C17 — file imports cannot escape the configured root directory

Theorems about `Ecal.Path` (the model of Go's Unix `filepath.Clean/Join/Rel` and of
`util/import.go`). `root` and `p` range over **all** byte strings (any length, any
bytes: `..`, `/`, repeated separators, NUL, non-UTF-8 …); `cwd` over all positions.

`resolve root p` is `FileImportLocator{Root: root}.Resolve(p)` up to the file
system: `.opened q` means `ioutil.ReadFile(q)` is called and its result returned,
`.rejected` / `.relError` mean an error is returned and no file is touched.
-/
namespace Ecal.Props.C17
open Ecal.Path

/-- bytes of a string literal (for the examples) -/
def b (s : String) : Str := s.toList.map Char.toNat

/-! ## The shape of cleaned paths -/

/-- **clean_dotdot_only_leading.** In a cleaned path `..` occurs only as a leading block, and
    not at all if the path is rooted; everything after the block is an ordinary name (not empty,
    not `.`, not `..`, without `/`). -/
theorem clean_dotdot_only_leading (s : Str) :
    ∃ (k : Nat) (names : List Seg), (cleanP s).segs = List.replicate k dotdot ++ names ∧
      (∀ n ∈ names, n ≠ [] ∧ n ≠ dot ∧ n ≠ dotdot ∧ 47 ∉ n) ∧ (isRooted s = true → k = 0) := by
  obtain ⟨k, names, h1, h2, h3⟩ := cleanP_good s
  exact ⟨k, names, h1, fun n hn => ⟨(h2 n hn).1.1, (h2 n hn).1.2.1, (h2 n hn).1.2.2, (h2 n hn).2⟩, h3⟩

example : cleanStr (b "a/../../b/./c//") = b "../b/c" := by decide
example : cleanStr (b "/a/../../b") = b "/b" := by decide

/-- **clean_idempotent.** `Clean(Clean(s)) = Clean(s)` (Go's documented law). -/
theorem clean_idempotent (s : Str) : cleanStr (cleanStr s) = cleanStr s := by
  unfold cleanStr
  rw [cleanP_render _ (cleanP_good s)]

/-- The string `Clean` returns is the string of its own cleaned form: splitting it at `/` gives
    back exactly the cleaned elements (`cleanP` is a left inverse of rendering on clean paths). -/
theorem clean_render_roundtrip (s : Str) : cleanP (cleanStr s) = cleanP s :=
  cleanP_render _ (cleanP_good s)

/-- **join_clean.** `Join(a, b)` with a non-empty `a` is `Clean(a + "/" + b)`, its elements are
    the cleaned concatenation of the two element lists (rootedness that of `a`), and every
    result of `Join` other than `""` is clean; empty arguments are ignored. -/
theorem join_clean (a b : Str) :
    (a ≠ [] → joinStr a b = cleanStr (a ++ 47 :: b) ∧
      cleanP (a ++ 47 :: b) = ⟨isRooted a, (cleanFold (isRooted a) (elems a ++ elems b)).toSegs⟩) ∧
    (joinStr [] b = if b = [] then [] else cleanStr b) ∧
    (a ≠ [] ∨ b ≠ [] → cleanStr (joinStr a b) = joinStr a b) := by
  refine ⟨?_, ?_, ?_⟩
  · intro ha
    refine ⟨by simp [joinStr, ha], ?_⟩
    have hr : isRooted (a ++ 47 :: b) = isRooted a := by
      cases a with
      | nil => exact absurd rfl ha
      | cons c a => unfold isRooted; split <;> split <;> simp_all
    simp [cleanP, hr, elems_append_slash]
  · by_cases hb : b = [] <;> simp [joinStr, hb]
  · intro h
    unfold joinStr
    by_cases ha : a = []
    · have hb : b ≠ [] := by rcases h with h | h; exact absurd ha h; exact h
      simp [ha, hb, clean_idempotent]
    · simp [ha, clean_idempotent]

example : joinStr (b "root/") (b "/../x") = b "x" := by decide
example : joinStr [] (b "/etc") = b "/etc" := by decide

/-! ## Confinement -/

/-- `isSubpath(root, sub)` accepting (`ok = true`, `err = nil`) implies `sub` lies inside `root`. -/
theorem isSubpath_inside (root sub : Str) (h : isSubpath root sub = (true, true)) : inside root sub := by
  unfold isSubpath at h
  split at h
  · simp at h
  · rename_i rel hrel
    unfold relStr at hrel
    obtain ⟨rs, hrs, hj⟩ := Option.map_eq_some_iff.mp hrel
    subst hj
    have hok : hasUpPrefix (joinSep rs) = false ∧ joinSep rs ≠ dotdot := by
      simp only [Prod.mk.injEq, Bool.and_eq_true, Bool.not_eq_eq_eq_not, Bool.not_true, bne_iff_ne,
        ne_eq, and_true] at h
      exact h
    have hgr := cleanP_good root
    have hdot : dot ∉ (cleanP root).segs := by
      obtain ⟨k, names, h1, h2, _⟩ := hgr
      rw [h1]
      intro hm
      simp only [List.mem_append, List.mem_replicate] at hm
      rcases hm with ⟨_, hd⟩ | hm
      · simp [dot, dotdot] at hd
      · exact (h2 dot hm).1.2.1 rfl
    obtain ⟨hroot, r, hseg, hhead⟩ := relSegs_accepted (cleanP root) (cleanP sub) rs hdot hrs hok
    have hnames := good_suffix_names (cleanP sub) (cleanP_good sub) (cleanP root).segs r hseg hhead
    exact ⟨hroot, r, hseg, fun hm => (hnames _ hm).1.2.2 rfl, fun hm => (hnames _ hm).1.2.1 rfl,
      fun hm => (hnames _ hm).1.1 rfl⟩

/-- `Resolve` opens at most one file, namely `Clean(Join(root, p))`, and only if `isSubpath`
    accepts it; in every other case it returns an error and touches no file. -/
theorem resolve_cases (root p : Str) :
    (resolve root p = .opened (cleanStr (joinStr root p)) ∧
      isSubpath root (cleanStr (joinStr root p)) = (true, true)) ∨
    resolve root p = .rejected ∨ resolve root p = .relError := by
  unfold resolve
  simp only
  split
  · right; right; rfl
  · right; left; rfl
  · rename_i h; left; exact ⟨rfl, h⟩

/-- **resolve_confined.** Whatever `root` and `p` are: if `Resolve` opens a file `q`, then `q` lies
    lexically inside the root — same rootedness as the cleaned root, the cleaned root's elements
    are a prefix of `q`'s, and the rest consists of ordinary names (no `..`, `.`, empty element). -/
theorem resolve_confined (root p q : Str) (h : resolve root p = .opened q) : inside root q := by
  rcases resolve_cases root p with ⟨h1, h2⟩ | h1 | h1
  · rw [h1] at h
    injection h with h
    subst h
    exact isSubpath_inside root _ h2
  · rw [h1] at h; exact absurd h (by simp)
  · rw [h1] at h; exact absurd h (by simp)

/-- **resolve_exact.** `Resolve` opens `q` exactly when `q` is the cleaned join of root and path and
    lies inside the root: the test neither lets anything escape nor rejects anything inside. -/
theorem resolve_exact (root p q : Str) :
    resolve root p = .opened q ↔ q = cleanStr (joinStr root p) ∧ inside root q := by
  constructor
  · intro h
    refine ⟨?_, resolve_confined root p q h⟩
    rcases resolve_cases root p with ⟨h1, _⟩ | h1 | h1
    · rw [h1] at h; injection h with h; exact h.symm
    · rw [h1] at h; exact absurd h (by simp)
    · rw [h1] at h; exact absurd h (by simp)
  · rintro ⟨rfl, hin⟩
    have := inside_isSubpath root _ hin
    unfold resolve
    simp only [this]

/-- non-vacuity: an accepted path (with `..`, `.` and doubled separators inside the root) … -/
example : resolve (b "top/root") (b "sub/.././/nm") = .opened (b "top/root/nm") := by decide
/-- … rejected ones: `..` out of the root, the sibling whose name extends the root's, an absolute
    path with the empty root … -/
example : resolve (b "top/root") (b "../nm") = .rejected := by decide
example : resolve (b "top/root") (b "../rootX/nm") = .rejected := by decide
example : resolve (b "/top/root/") (b "sub/../../../etc/passwd") = .rejected := by decide
example : resolve (b "") (b "/etc/passwd") = .relError := by decide
/-- … and `..` that stays inside is accepted (as `util/import_test.go` expects). -/
example : resolve (b "root") (b "../root/x") = .opened (b "root/x") := by decide

/-- **resolve_opens_clean.** The string handed to `ReadFile` is its own cleaned form: the kernel
    sees exactly the elements `inside` talks about (no `..` after the root's own leading block,
    no `.`, no empty element to be reinterpreted). -/
theorem resolve_opens_clean (root p q : Str) (h : resolve root p = .opened q) :
    cleanStr q = q ∧ cleanP q = cleanP (joinStr root p) := by
  rcases resolve_cases root p with ⟨h1, _⟩ | h1 | h1
  · rw [h1] at h
    injection h with h
    subst h
    exact ⟨clean_idempotent _, clean_render_roundtrip _⟩
  · rw [h1] at h; exact absurd h (by simp)
  · rw [h1] at h; exact absurd h (by simp)

/-! ## The import statement and the code that configures the locator -/

/-- **import_ignores_source_name.** The outcome of an import statement — the module reached and every
    file opened on the way, through any number of nested imports — is the same under every source
    name of the importing program (a name with directories, starting with `..`, absolute, equal to
    a file outside the root): only the configured root and the import path take part. -/
theorem import_ignores_source_name (fs : FS) (root : Str) (fuel : Nat) (src src' p : Str) :
    importEval fs root fuel src p = importEval fs root fuel src' p := by
  cases fuel <;> rfl

/-- **import_opens_only_inside.** Every string handed to `ReadFile` while an import statement is
    evaluated — including those of nested imports, whatever the imported modules name — lies inside
    the CONFIGURED root; in particular the result of `resolve` on the import path alone decides
    the first file, and no other locator is ever consulted. -/
theorem import_opens_only_inside (fs : FS) (root : Str) (fuel : Nat) (src p : Str) :
    ∀ q ∈ (importEval fs root fuel src p).2, inside root q := by
  induction fuel generalizing src p with
  | zero => intro q hq; simp [importEval] at hq
  | succ fuel ih =>
    intro q hq
    unfold importEval at hq
    split at hq
    · rename_i q0 hres
      have hin := resolve_confined root p q0 hres
      split at hq
      · simp only [List.mem_singleton] at hq; subst hq; exact hin
      · simp only [List.mem_singleton] at hq; subst hq; exact hin
      · simp only [List.mem_cons] at hq
        rcases hq with rfl | hq
        · exact hin
        · exact ih _ _ q hq
    · simp at hq

/-- non-vacuity: a module inside the root that imports `../nm` does not get the file next to the
    root; one that imports `./nm` gets the root's `nm` whatever directory the module lies in. -/
example :
    let fs : FS := fun q =>
      if q = b "root/sub/m" then some (.imports (b "../nm"))
      else if q = b "root/sub/k" then some (.imports (b "./nm"))
      else if q = b "root/nm" then some (.sentinel 0)
      else if q = b "nm" then some (.sentinel 1)
      else if q = b "root/sub/nm" then some (.sentinel 2) else none
    importEval fs (b "root") 4 (b "../main.ecal") (b "sub/m") = (none, [b "root/sub/m"]) ∧
    importEval fs (b "root") 4 (b "../main.ecal") (b "./sub/k") = (some 0, [b "root/sub/k", b "root/nm"]) := by
  decide

/-- **locator_roots_configured.** Regenerated on every run from the tree under test
    (`harness C17 -tool extract`, go/ast, follows local definitions and same-package calls): no
    `util.FileImportLocator` composite literal in cli, cli/tool, interpreter, util (outside tests)
    takes its `Root` from a transformation whose error is discarded — such a root silently becomes
    `""` (the process working directory) when the transformation fails, and every theorem above
    would then speak about a root nobody configured. Three-valued: only a positively refuted root
    breaks this; roots the extractor cannot follow are listed in `Gen.C17.notEstablished` and
    amplify the tool / import cases of the same run. -/
theorem locator_roots_configured : Ecal.Gen.C17.refuted = [] := by decide

/-- the tool's locator root is the configured directory string itself (what the `T` cases tie to
    `CLIInterpreter.CreateRuntimeProvider`): a missing or dangling directory stays the root, and
    with it every import fails instead of falling back to another directory -/
theorem tool_root_is_configured (dir : Str) : toolLocatorRoot dir = dir := rfl

/-! ## What "inside" means in a directory tree -/

/-- **clean_preserves_walk.** In a tree without symbolic links a string and its cleaned form denote
    the same node, from every working directory (`walkStr` is the kernel's walk: empty and `.`
    elements stay, `..` goes to the parent, the root is its own parent). -/
theorem clean_preserves_walk (cwd : Pos) (s : Str) : walkStr cwd s = walkP cwd (cleanP s) :=
  walkStr_eq_walkP cwd s

/-- **confined_walk.** If `Resolve` opens `q`, then for every working directory: the node `q` denotes
    is the node the root denotes followed by a descending sequence `r` of ordinary names; the nodes
    visited walking `q`'s elements are those visited walking the cleaned root's elements, followed by
    nodes that all lie in the sub-tree of the root's node. Holds in every directory tree without
    symbolic links (each is a sub-tree of the free tree of positions). -/
theorem confined_walk (root p q : Str) (h : resolve root p = .opened q) (cwd : Pos) :
    ∃ r : List Seg, (∀ n ∈ r, n ≠ [] ∧ n ≠ dot ∧ n ≠ dotdot) ∧
      walkStr cwd q = walkStr cwd root ++ r ∧
      visited (startPos cwd (cleanP q).rooted) (cleanP q).segs =
        visited (startPos cwd (cleanP root).rooted) (cleanP root).segs ++
          (visited (walkStr cwd root) r).tail ∧
      ∀ pos ∈ visited (walkStr cwd root) r, walkStr cwd root <+: pos := by
  obtain ⟨hroot, r, hseg, h1, h2, h3⟩ := resolve_confined root p q h
  have hn : ∀ n ∈ r, IsName n := by
    intro n hm
    exact ⟨fun e => h3 (e ▸ hm), fun e => h2 (e ▸ hm), fun e => h1 (e ▸ hm)⟩
  have hwr : walkStr cwd root = (cleanP root).segs.foldl walkStep (startPos cwd (cleanP root).rooted) := by
    rw [walkStr_eq_walkP]; rfl
  refine ⟨r, hn, ?_, ?_, ?_⟩
  · rw [walkStr_eq_walkP cwd q]
    unfold walkP
    rw [hseg, List.foldl_append, ← hroot, ← hwr, foldl_walkStep_names r hn]
  · rw [hseg, visited_append, ← hroot, ← hwr]
  · exact visited_names_below r hn _

/-- non-vacuity: the accepted path above, seen from the working directory `/w`: root node
    `/w/top/root`, file node `/w/top/root/nm`. -/
example : walkStr [b "w"] (b "top/root/nm") = walkStr [b "w"] (b "top/root") ++ [b "nm"] := by decide

/-- Why a string-prefix test would not do: `top/rootX/nm` has the string `top/root` as a prefix but
    is not inside `top/root` (and `resolve` rejects the path leading there, see above). -/
example : ¬ inside (b "top/root") (b "top/rootX/nm") := by
  intro ⟨_, r, h, _⟩
  have h' : [b "top", b "rootX", b "nm"] = [b "top", b "root"] ++ r := by
    have e1 : (cleanP (b "top/rootX/nm")).segs = [b "top", b "rootX", b "nm"] := by decide
    have e2 : (cleanP (b "top/root")).segs = [b "top", b "root"] := by decide
    rw [e1, e2] at h; exact h
  simp only [List.cons_append, List.nil_append, List.cons.injEq] at h'
  exact absurd h'.2.1 (by decide)

end Ecal.Props.C17
