import Ecal.Model.Path
import Ecal.Lemmas.Path
import Ecal.Lemmas.PathBytes
import Ecal.Gen.C17
/-!
# C17 — file imports cannot escape the configured root directory

Theorems about `Ecal.Path` (the model of Go's Unix `filepath.Clean/Join/Rel` and of
`util/import.go`). `root` and `p` range over **all** byte strings (any length, any
bytes: `..`, `/`, repeated separators, NUL, non-UTF-8 …); `cwd` over all positions.

`resolve root p` is `FileImportLocator{Root: root}.Resolve(p)` up to the file
system: `.opened q` means `ioutil.ReadFile(q)` is called and its result returned,
`.rejected` / `.relError` mean an error is returned and no file is touched.
-/
namespace Ecal.Props.C17
open Ecal.Path

/-- bytes of a string literal (for the examples) -/
def b (s : String) : Str := s.toList.map Char.toNat

/-! ## The shape of cleaned paths -/

/-- **clean_dotdot_only_leading.** In a cleaned path `..` occurs only as a leading block, and
    not at all if the path is rooted; everything after the block is an ordinary name (not empty,
    not `.`, not `..`, without `/`). -/
theorem clean_dotdot_only_leading (s : Str) :
    ∃ (k : Nat) (names : List Seg), (cleanP s).segs = List.replicate k dotdot ++ names ∧
      (∀ n ∈ names, n ≠ [] ∧ n ≠ dot ∧ n ≠ dotdot ∧ 47 ∉ n) ∧ (isRooted s = true → k = 0) := by
  obtain ⟨k, names, h1, h2, h3⟩ := cleanP_good s
  exact ⟨k, names, h1, fun n hn => ⟨(h2 n hn).1.1, (h2 n hn).1.2.1, (h2 n hn).1.2.2, (h2 n hn).2⟩, h3⟩

example : cleanStr (b "a/../../b/./c//") = b "../b/c" := by decide
example : cleanStr (b "/a/../../b") = b "/b" := by decide

/-- **clean_idempotent.** `Clean(Clean(s)) = Clean(s)` (Go's documented law). -/
theorem clean_idempotent (s : Str) : cleanStr (cleanStr s) = cleanStr s := by
  unfold cleanStr
  rw [cleanP_render _ (cleanP_good s)]

/-- **join_clean.** `Join(a, b)` with a non-empty `a` is `Clean(a + "/" + b)`, its elements are
    the cleaned concatenation of the two element lists (rootedness that of `a`), and every
    result of `Join` other than `""` is clean; empty arguments are ignored. -/
theorem join_clean (a b : Str) :
    (a ≠ [] → joinStr a b = cleanStr (a ++ 47 :: b) ∧
      cleanP (a ++ 47 :: b) = ⟨isRooted a, (cleanFold (isRooted a) (elems a ++ elems b)).toSegs⟩) ∧
    (joinStr [] b = if b = [] then [] else cleanStr b) ∧
    (a ≠ [] ∨ b ≠ [] → cleanStr (joinStr a b) = joinStr a b) := by
  refine ⟨?_, ?_, ?_⟩
  · intro ha
    refine ⟨by simp [joinStr, ha], ?_⟩
    have hr : isRooted (a ++ 47 :: b) = isRooted a := by
      cases a with
      | nil => exact absurd rfl ha
      | cons c a => unfold isRooted; split <;> split <;> simp_all
    simp [cleanP, hr, elems_append_slash]
  · by_cases hb : b = [] <;> simp [joinStr, hb]
  · intro h
    unfold joinStr
    by_cases ha : a = []
    · have hb : b ≠ [] := by rcases h with h | h; exact absurd ha h; exact h
      simp [ha, hb, clean_idempotent]
    · simp [ha, clean_idempotent]

example : joinStr (b "root/") (b "/../x") = b "x" := by decide
example : joinStr [] (b "/etc") = b "/etc" := by decide

/-! ## Confinement -/

/-- **resolve_confined.** Whatever `root` and `p` are: if `Resolve` opens a file `q`, then `q` lies
    lexically inside the root — same rootedness as the cleaned root, the cleaned root's elements
    are a prefix of `q`'s, and the rest consists of ordinary names (no `..`, `.`, empty element). -/
theorem resolve_confined (root p q : Str) (h : resolve root p = .opened q) : inside root q := by
  rcases resolve_cases root p with ⟨h1, h2⟩ | h1 | h1
  · rw [h1] at h
    injection h with h
    subst h
    exact isSubpath_inside root _ h2
  · rw [h1] at h; exact absurd h (by simp)
  · rw [h1] at h; exact absurd h (by simp)

/-- **resolve_exact.** `Resolve` opens `q` exactly when `q` is the cleaned join of root and path and
    lies inside the root: the test neither lets anything escape nor rejects anything inside. -/
theorem resolve_exact (root p q : Str) :
    resolve root p = .opened q ↔ q = cleanStr (joinStr root p) ∧ inside root q := by
  constructor
  · intro h
    refine ⟨?_, resolve_confined root p q h⟩
    rcases resolve_cases root p with ⟨h1, _⟩ | h1 | h1
    · rw [h1] at h; injection h with h; exact h.symm
    · rw [h1] at h; exact absurd h (by simp)
    · rw [h1] at h; exact absurd h (by simp)
  · rintro ⟨rfl, hin⟩
    have := inside_isSubpath root _ hin
    unfold resolve
    simp only [this]

/-- non-vacuity: an accepted path (with `..`, `.` and doubled separators inside the root) … -/
example : resolve (b "top/root") (b "sub/.././/nm") = .opened (b "top/root/nm") := by decide
/-- … rejected ones: `..` out of the root, the sibling whose name extends the root's, an absolute
    path with the empty root … -/
example : resolve (b "top/root") (b "../nm") = .rejected := by decide
example : resolve (b "top/root") (b "../rootX/nm") = .rejected := by decide
example : resolve (b "/top/root/") (b "sub/../../../etc/passwd") = .rejected := by decide
example : resolve (b "") (b "/etc/passwd") = .relError := by decide
/-- … and `..` that stays inside is accepted (as `util/import_test.go` expects). -/
example : resolve (b "root") (b "../root/x") = .opened (b "root/x") := by decide

/-- **resolve_opens_clean.** The string handed to `ReadFile` is its own cleaned form: the kernel
    sees exactly the elements `inside` talks about (no `..` after the root's own leading block,
    no `.`, no empty element to be reinterpreted). -/
theorem resolve_opens_clean (root p q : Str) (h : resolve root p = .opened q) :
    cleanStr q = q ∧ cleanP q = cleanP (joinStr root p) := by
  rcases resolve_cases root p with ⟨h1, _⟩ | h1 | h1
  · rw [h1] at h
    injection h with h
    subst h
    exact ⟨clean_idempotent _, clean_render_roundtrip _⟩
  · rw [h1] at h; exact absurd h (by simp)
  · rw [h1] at h; exact absurd h (by simp)

/-! ## The byte loops of Go's `Clean` and `Rel`

The theorems above are about functions on ELEMENT lists. `cleanBytes`, `relBytes`, `resolveBytes`
(Model/Path.lean) follow Go's loops index by index — lazybuf, `dotdot` index and byte-wise
backtracking in `Clean`; the `b0/bi/t0/ti` walk, the separator count and the result assembly in `Rel`.
They are what the driver runs against `path/filepath` and `util/import.go`. -/

/-- **clean_bytes_refines.** The byte loop of `Clean` computes the element-level `cleanStr`, for every byte string. -/
theorem clean_bytes_refines (s : Str) : cleanBytes s = cleanStr s := cleanBytes_eq_cleanStr s

/-- **rel_bytes_refines.** The index walk of `Rel` computes the element-level `relStr` (same result, same
    error cases), for all byte strings. -/
theorem rel_bytes_refines (base targ : Str) : relBytes base targ = relStr base targ := relBytes_eq_relStr base targ

/-- **resolve_bytes_confined.** Confinement for the byte-level model of `Resolve` (Join, Clean, Rel, the
    string test of `isSubpath` composed as in util/import.go): it is the element-level `resolve`, hence
    whatever it opens lies inside the root, and it opens exactly `Clean(Join(root, p))` when that is inside. -/
theorem resolve_bytes_confined (root p : Str) :
    resolveBytes root p = resolve root p ∧
      (∀ q, resolveBytes root p = .opened q → inside root q) ∧
      (∀ q, resolveBytes root p = .opened q ↔ q = cleanBytes (joinBytes root p) ∧ inside root q) := by
  refine ⟨resolveBytes_eq_resolve root p, ?_, ?_⟩
  · intro q h
    rw [resolveBytes_eq_resolve] at h
    exact resolve_confined root p q h
  · intro q
    rw [resolveBytes_eq_resolve, cleanBytes_eq_cleanStr, joinBytes_eq_joinStr]
    exact resolve_exact root p q

example : cleanBytes (b "a/../../b/./c//") = b "../b/c" := by decide
example : relBytes (b "a") (b ".") = some (b "../.") := by decide
example : resolveBytes (b "top/root") (b "../rootX/nm") = .rejected := by decide
example : resolveBytes (b "top/root") (b "sub/.././/nm") = .opened (b "top/root/nm") := by decide

/-! ## The import statement and the code that configures the locator

These theorems are about the model INSTANTIATED WITH FACTS REGENERATED FROM THE TREE UNDER TEST on every
run (`Ecal.Gen.C17`, go/ast over rt_general.go and cli/tool): which locator `importRuntime.Eval` calls
`Resolve` on, what it hands to it, and what `CreateRuntimeProvider` uses as `Root`. A tree in which a
fact is positively refuted breaks the `by decide` below. -/

/-- If the receiver of `Resolve` is the configured locator, every string handed to `ReadFile` while an
    import statement is evaluated — through any number of nested imports, whatever path value reaches
    the locator, whatever the adversary does with the rest — lies inside the configured root. -/
theorem import_opens_only_inside (F : ImportFacts) (hF : F.receiverIsConfiguredLocator = true)
    (adv : Str → Str → Str → Str × Str) (fs : FS) (root : Str) (fuel : Nat) (src p : Str) :
    ∀ q ∈ (importEval F adv fs root fuel src p).2, inside root q := by
  induction fuel generalizing src p with
  | zero => intro q hq; simp [importEval] at hq
  | succ fuel ih =>
    intro q hq
    unfold importEval at hq
    simp only [hF, if_true] at hq
    split at hq
    · rename_i q0 hres
      have hin := resolve_confined root _ q0 hres
      split at hq
      · simp only [List.mem_singleton] at hq; subst hq; exact hin
      · simp only [List.mem_singleton] at hq; subst hq; exact hin
      · simp only [List.mem_cons] at hq
        rcases hq with rfl | hq
        · exact hin
        · exact ih _ _ q hq
    · simp at hq

/-- **import_statement_confined.** If the fact of this run ESTABLISHES that `importRuntime.Eval` calls `Resolve` on the
    provider's configured locator (`Ecal.Gen.C17.receiverFact = some true`; `none` = the extractor could not
    establish it, `some false` = refuted, which breaks `Props/C17Facts.lean`), then with the model the driver
    runs every file opened by an import statement, nested imports included, lies inside the root the provider
    was configured with — for every source name, path value, file system and nesting depth. -/
theorem import_statement_confined (h : Ecal.Gen.C17.receiverFact = some true)
    (adv : Str → Str → Str → Str × Str) (fs : FS) (root : Str) (fuel : Nat)
    (src p : Str) : ∀ q ∈ (importEval Ecal.Gen.C17.importFacts adv fs root fuel src p).2, inside root q :=
  import_opens_only_inside _ (by simp [Ecal.Gen.C17.importFacts, h]) adv fs root fuel src p

/-- by construction of `importEval` (once both facts hold it never looks at the source name or the adversary):
    an example, not a property theorem -/
example (F : ImportFacts) (h1 : F.receiverIsConfiguredLocator = true) (h2 : F.argumentIsPathValue = true)
    (adv adv' : Str → Str → Str → Str × Str) (fs : FS) (root : Str) (fuel : Nat) (src src' p : Str) :
    importEval F adv fs root fuel src p = importEval F adv' fs root fuel src' p := by
  induction fuel generalizing src src' p with
  | zero => rfl
  | succ fuel ih =>
    unfold importEval
    simp only [h1, h2, if_true]
    split
    · split
      · rfl
      · rfl
      · rw [ih p p]
    · rfl

/-- non-vacuity: a module inside the root that imports `../nm` does not get the file next to the
    root; one that imports `./nm` gets the root's `nm` whatever directory the module lies in. -/
example :
    let fs : FS := fun q =>
      if q = b "root/sub/m" then some (.imports (b "../nm"))
      else if q = b "root/sub/k" then some (.imports (b "./nm"))
      else if q = b "root/nm" then some (.sentinel 0)
      else if q = b "nm" then some (.sentinel 1)
      else if q = b "root/sub/nm" then some (.sentinel 2) else none
    let F : ImportFacts := ⟨true, true⟩
    importEval F (fun r _ p => (r, p)) fs (b "root") 4 (b "../main.ecal") (b "sub/m") = (none, [b "root/sub/m"]) ∧
    importEval F (fun r _ p => (r, p)) fs (b "root") 4 (b "../main.ecal") (b "./sub/k") =
      (some 0, [b "root/sub/k", b "root/nm"]) := by
  decide

/-- without the receiver fact nothing is confined (the hypothesis of `import_opens_only_inside` is needed):
    an implementation that derives a locator from the source name opens a file next to the root -/
example :
    let fs : FS := fun q => if q = b "nm" then some (.sentinel 1) else none
    importEval ⟨false, true⟩ (fun _ _ p => (b "", p)) fs (b "root") 2 (b "../main.ecal") (b "./nm") = (some 1, [b "nm"]) := by
  decide

/-- by construction of `toolRoot`: with the fact not refuted the locator's root is the configured string itself
    (an example, not a property theorem; the T / U / V lines tie it to `CreateRuntimeProvider`) -/
example (adv : Str → Str) (dir : Str) : toolRoot true adv dir = dir := rfl

/-! ## What "inside" means in a directory tree -/

/-- **clean_preserves_walk.** In a tree without symbolic links a string and its cleaned form denote
    the same node, from every working directory (`walkStr` is the kernel's walk: empty and `.`
    elements stay, `..` goes to the parent, the root is its own parent). -/
theorem clean_preserves_walk (cwd : Pos) (s : Str) : walkStr cwd s = walkP cwd (cleanP s) :=
  walkStr_eq_walkP cwd s

/-- **confined_walk.** If `Resolve` opens `q`, then for every working directory: the node `q` denotes
    is the node the root denotes followed by a descending sequence `r` of ordinary names; the nodes
    visited walking `q`'s elements are those visited walking the cleaned root's elements, followed by
    nodes that all lie in the sub-tree of the root's node. Holds in every directory tree without
    symbolic links (each is a sub-tree of the free tree of positions). -/
theorem confined_walk (root p q : Str) (h : resolve root p = .opened q) (cwd : Pos) :
    ∃ r : List Seg, (∀ n ∈ r, n ≠ [] ∧ n ≠ dot ∧ n ≠ dotdot) ∧
      walkStr cwd q = walkStr cwd root ++ r ∧
      visited (startPos cwd (cleanP q).rooted) (cleanP q).segs =
        visited (startPos cwd (cleanP root).rooted) (cleanP root).segs ++
          (visited (walkStr cwd root) r).tail ∧
      ∀ pos ∈ visited (walkStr cwd root) r, walkStr cwd root <+: pos := by
  obtain ⟨hroot, r, hseg, h1, h2, h3⟩ := resolve_confined root p q h
  have hn : ∀ n ∈ r, IsName n := by
    intro n hm
    exact ⟨fun e => h3 (e ▸ hm), fun e => h2 (e ▸ hm), fun e => h1 (e ▸ hm)⟩
  have hwr : walkStr cwd root = (cleanP root).segs.foldl walkStep (startPos cwd (cleanP root).rooted) := by
    rw [walkStr_eq_walkP]; rfl
  refine ⟨r, hn, ?_, ?_, ?_⟩
  · rw [walkStr_eq_walkP cwd q]
    unfold walkP
    rw [hseg, List.foldl_append, ← hroot, ← hwr, foldl_walkStep_names r hn]
  · rw [hseg, visited_append, ← hroot, ← hwr]
  · exact visited_names_below r hn _

/-- non-vacuity: the accepted path above, seen from the working directory `/w`: root node
    `/w/top/root`, file node `/w/top/root/nm`. -/
example : walkStr [b "w"] (b "top/root/nm") = walkStr [b "w"] (b "top/root") ++ [b "nm"] := by decide

/-- Why a string-prefix test would not do: `top/rootX/nm` has the string `top/root` as a prefix but
    is not inside `top/root` (and `resolve` rejects the path leading there, see above). -/
example : ¬ inside (b "top/root") (b "top/rootX/nm") := by
  intro ⟨_, r, h, _⟩
  have h' : [b "top", b "rootX", b "nm"] = [b "top", b "root"] ++ r := by
    have e1 : (cleanP (b "top/rootX/nm")).segs = [b "top", b "rootX", b "nm"] := by decide
    have e2 : (cleanP (b "top/root")).segs = [b "top", b "root"] := by decide
    rw [e1, e2] at h; exact h
  simp only [List.cons_append, List.nil_append, List.cons.injEq] at h'
  exact absurd h'.2.1 (by decide)

end Ecal.Props.C17
