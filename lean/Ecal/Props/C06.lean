import Ecal.Model.Prims
import Ecal.Model.Eval
import Ecal.Lemmas.C06NoPanic
/-!
C06 — no ECAL program, sink attribute or event can crash the host process.

* `prims_guarded`  every guarded call site of a panicking Go primitive never yields `panic`
* `builtin_total`  every modelled builtin × every argument vector of any length: result ≠ panic
* `eval_never_panics_partial`  the shared evaluator model never yields `panic` on well-formed trees of
  the stated sub-language (see the docstring for what is missing from the full statement)
* `error_in_try_catchable`  an error of the try body reaches the except dispatch
* negative witnesses: the unguarded copies of the repaired sites do panic
(The panic-site census `Ecal/Gen/C06.lean` is data for the check — it steers the search, see props/C06.py —
and deliberately not an obligation: per-function counts of syntactic sites do not survive ordinary clean-ups.)
-/
namespace Ecal.Props.C06
open Ecal.Prims

/-! ### guarded call sites -/

theorem goIndex_ok {α : Type} (xs : List α) (i : Int) (h : 0 ≤ i ∧ i < xs.length) :
    ∃ v, goIndex xs i = .ok v := by
  unfold goIndex
  have : 0 ≤ i ∧ i.toNat < xs.length := ⟨h.1, by omega⟩
  simp [this]

theorem goSlice_ok {α : Type} (xs : List α) (lo hi : Int) (h : 0 ≤ lo ∧ lo ≤ hi ∧ hi ≤ xs.length) :
    ∃ v, goSlice xs lo hi = .ok v := by
  unfold goSlice; simp [h]

theorem eqSite_no_panic (a b : PVal) : isPanic (eqSite a b) = false := by
  unfold eqSite goIfaceEq
  split <;> simp_all [isPanic]

theorem listGetSite_no_panic (xs : List PVal) (idx : Int) : isPanic (listGetSite xs idx) = false := by
  unfold listGetSite
  simp only
  split
  · next h => obtain ⟨v, hv⟩ := goIndex_ok xs _ h; simp [hv, isPanic]
  · simp [isPanic]

/-- Each guarded call site of a panicking primitive never yields `panic`, for all operands: modulo
    (zero divisor), `==`/`!=`/`in` (uncomparable operands), map literal entries (shape, unhashable key),
    the three list accesses of varsscope.go (any index, any length), container kind tests, operand
    kind tests, `raise` (any argument count), sink attribute values of any kind, statematch / event
    state values of any kind (unhashable included), the rule-index level assertion. -/
theorem prims_guarded :
    (∀ a b, isPanic (modSite a b) = false) ∧
    (∀ a b, isPanic (eqSite a b) = false) ∧
    (∀ a b, isPanic (inSite a b) = false) ∧
    (∀ name entry m, isPanic (mapLitSite name entry m) = false) ∧
    (∀ xs idx, isPanic (listGetSite xs idx) = false) ∧
    (∀ xs idx v, isPanic (listSetSite xs idx v) = false) ∧
    (∀ xs idx, isPanic (listWalkSite xs idx) = false) ∧
    (∀ c idx, isPanic (containerSite c idx) = false) ∧
    (∀ a b, isPanic (numOpSite a b) = false) ∧
    (∀ args, isPanic (raiseSite args) = false) ∧
    (∀ k v, isPanic (sinkAttrSite k v) = false) ∧
    (∀ t v, isPanic (stateKeySite t v) = false) ∧
    isPanic stateLeafSite = false := by
  refine ⟨?_, eqSite_no_panic, ?_, ?_, listGetSite_no_panic, ?_, ?_, ?_, ?_, ?_, ?_, ?_, ?_⟩
  · intro a b; unfold modSite goIntMod; split <;> simp_all [isPanic]
  · intro a b; unfold inSite
    split
    · next xs _ =>
      suffices h : ∀ (l : List PVal) (acc : Bool), isPanic (l.foldlM (fun found x => do if found then pure true else eqSite a x) acc) = false from h _ _
      intro l
      induction l with
      | nil => intro acc; simp [isPanic, pure, Except.pure]
      | cons x l ih =>
        intro acc
        simp only [List.foldlM_cons, bind, Except.bind]
        cases acc with
        | true => simpa [pure, Except.pure] using ih true
        | false =>
          have hx := eqSite_no_panic a x
          cases hq : eqSite a x with
          | ok v => simpa [hq] using ih v
          | error e => cases e <;> simp_all [isPanic]
    · simp [isPanic]
  · intro name entry m; unfold mapLitSite
    split
    · simp [isPanic]
    · next h =>
      have hl : entry.length = 2 := by
        by_cases h2 : entry.length = 2
        · exact h2
        · exact absurd (Or.inr h2) h
      obtain ⟨k, hk⟩ := goIndex_ok entry 0 (by omega)
      obtain ⟨v, hv⟩ := goIndex_ok entry 1 (by omega)
      simp only [hk, hv, bind, Except.bind]
      split
      · simp [isPanic]
      · next hh =>
        unfold goMapStore
        have : k.hashable = true := by
          by_cases hn : k.kind = Kind.null
          · simp [PVal.hashable, hn]
          · simp_all
        simp [this, isPanic]
  · intro xs idx v; unfold listSetSite
    simp only
    split
    · next h => obtain ⟨w, hw⟩ := goIndex_ok xs _ h; simp [hw, isPanic, bind, Except.bind, pure, Except.pure]
    · simp [isPanic]
  · intro xs idx; unfold listWalkSite
    simp only
    split
    · next h => obtain ⟨w, hw⟩ := goIndex_ok xs _ h; simp [hw, isPanic]
    · simp [isPanic]
  · intro c idx; unfold containerSite
    split
    · simp [isPanic]
    · split
      · exact listGetSite_no_panic _ _
      · simp [isPanic]
    · simp [isPanic]
  · intro a b; unfold numOpSite; split <;> simp [isPanic]
  · intro args; unfold raiseSite
    by_cases h0 : args.length > 0
    · obtain ⟨a0, e0⟩ := goIndex_ok args 0 (by omega)
      by_cases h1 : args.length > 1
      · obtain ⟨a1, e1⟩ := goIndex_ok args 1 (by omega)
        by_cases h2 : args.length > 2
        · obtain ⟨a2, e2⟩ := goIndex_ok args 2 (by omega)
          simp [h0, h1, h2, e0, e1, e2, isPanic, bind, Except.bind, pure, Except.pure]
        · simp [h0, h1, h2, e0, e1, isPanic, bind, Except.bind, pure, Except.pure]
      · have h2 : ¬ args.length > 2 := by omega
        simp [h0, h1, h2, e0, isPanic, bind, Except.bind, pure, Except.pure]
    · have h1 : ¬ args.length > 1 := by omega
      have h2 : ¬ args.length > 2 := by omega
      simp [h0, h1, h2, isPanic, bind, Except.bind, pure, Except.pure]
  · intro k v; unfold sinkAttrSite goAssertOk goAssert
    by_cases h : v.kind = k <;> simp [h, isPanic]
  · intro t v; unfold stateKeySite goMapStore
    split
    · simp [isPanic]
    · split
      · next h => simp [h, isPanic, bind, Except.bind, pure, Except.pure]
      · simp [isPanic]
  · simp [stateLeafSite, assertTrue, isPanic]

/-! ### builtins -/

theorem assertNumParam_cases (v : PVal) (hv : v.NumOK) :
    (∃ i i1, assertNumParam v = .ok (i, i1) ∧ (0 ≤ i → i1 = i + 1)) ∨ (∃ m, assertNumParam v = .error (.err m)) := by
  cases v with
  | str s o =>
    cases o with
    | none => right; exact ⟨"Parameter should be a number", by simp [assertNumParam, goAssertOk, PVal.kind]⟩
    | some p => obtain ⟨i, i1⟩ := p; left; exact ⟨i, i1, by simp [assertNumParam, goAssertOk, PVal.kind], hv⟩
  | num i i1 => left; exact ⟨i, i1, by simp [assertNumParam, goAssertOk, PVal.kind], hv⟩
  | null => right; exact ⟨"Parameter should be a number", by simp [assertNumParam, goAssertOk, PVal.kind]⟩
  | bool b => right; exact ⟨"Parameter should be a number", by simp [assertNumParam, goAssertOk, PVal.kind]⟩
  | list xs => right; exact ⟨"Parameter should be a number", by simp [assertNumParam, goAssertOk, PVal.kind]⟩
  | map kvs => right; exact ⟨"Parameter should be a number", by simp [assertNumParam, goAssertOk, PVal.kind]⟩
  | func id => right; exact ⟨"Parameter should be a number", by simp [assertNumParam, goAssertOk, PVal.kind]⟩

theorem bind_no_panic {α β : Type} (m : R α) (f : α → R β) (hm : isPanic m = false)
    (hf : ∀ a, m = .ok a → isPanic (f a) = false) : isPanic (m >>= f) = false := by
  cases m with
  | ok a => exact hf a rfl
  | error e => cases e <;> simp_all [isPanic, bind, Except.bind]

theorem assertListParam_cases (v : PVal) :
    (∃ xs, assertListParam v = .ok xs) ∨ (∃ m, assertListParam v = .error (.err m)) := by
  unfold assertListParam goAssertOk
  cases v <;> simp [PVal.kind]

theorem lenFunc_total (args : List PVal) : isPanic (lenFunc args) = false := by
  unfold lenFunc
  split
  · next h =>
    obtain ⟨a, ha⟩ := goIndex_ok args 0 (by omega)
    simp only [ha, bind, Except.bind]
    split <;> simp [isPanic]
  · simp [isPanic]

theorem typeFunc_total (args : List PVal) : isPanic (typeFunc args) = false := by
  unfold typeFunc
  split
  · next h =>
    obtain ⟨a, ha⟩ := goIndex_ok args 0 (by omega)
    simp [ha, bind, Except.bind, isPanic]
  · simp [isPanic]

theorem delFunc_total (args : List PVal) (hn : ∀ a ∈ args, a.NumOK) : isPanic (delFunc args) = false := by
  unfold delFunc delFuncG
  split
  · next h =>
    obtain ⟨a0, e0⟩ := goIndex_ok args 0 (by omega)
    obtain ⟨a1, e1⟩ := goIndex_ok args 1 (by omega)
    have hm1 : a1 ∈ args := by
      unfold goIndex at e1; split at e1
      · injection e1 with e1; rw [← e1]; exact List.getElem_mem _
      · cases e1
    simp only [e0, e1, bind, Except.bind]
    split
    · next xs _ =>
      rcases assertNumParam_cases a1 (hn a1 hm1) with ⟨i, i1, hi, _⟩ | ⟨m, hm⟩
      · simp only [hi]
        split
        · simp [isPanic]
        · next hg =>
          simp at hg
          obtain ⟨l, hl⟩ := goSlice_ok xs 0 i (by omega)
          obtain ⟨r, hr⟩ := goSlice_ok xs (i + 1) xs.length (by omega)
          simp [hl, hr, isPanic]
      · simp [hm, isPanic]
    · simp [isPanic]
    · simp [isPanic]
  · simp [isPanic]

theorem addFunc_total (args : List PVal) (hn : ∀ a ∈ args, a.NumOK) : isPanic (addFunc args) = false := by
  unfold addFunc addFuncG
  split
  · next h =>
    obtain ⟨a0, e0⟩ := goIndex_ok args 0 (by omega)
    obtain ⟨v, e1⟩ := goIndex_ok args 1 (by omega)
    simp only [e0, e1, bind, Except.bind]
    rcases assertListParam_cases a0 with ⟨xs, hx⟩ | ⟨m, hm⟩
    · simp only [hx]
      split
      · next h3 =>
        obtain ⟨a2, e2⟩ := goIndex_ok args 2 (by omega)
        have hm2 : a2 ∈ args := by
          unfold goIndex at e2; split at e2
          · injection e2 with e2; rw [← e2]; exact List.getElem_mem _
          · cases e2
        simp only [e2]
        rcases assertNumParam_cases a2 (hn a2 hm2) with ⟨i, i1, hi, hsucc⟩ | ⟨m, hm⟩
        · simp only [hi]
          split
          · simp [isPanic]
          · next hg =>
            simp at hg
            have hi1 : i1 = i + 1 := hsucc hg.1
            have hlen : (xs ++ [PVal.num 0 1]).length = xs.length + 1 := by simp
            obtain ⟨s1, hs1⟩ := goSlice_ok (xs ++ [PVal.num 0 1]) i1 (xs ++ [PVal.num 0 1]).length (by rw [hlen]; omega)
            obtain ⟨s2, hs2⟩ := goSlice_ok (xs ++ [PVal.num 0 1]) i (xs ++ [PVal.num 0 1]).length (by rw [hlen]; omega)
            obtain ⟨s3, hs3⟩ := goIndex_ok (xs ++ [PVal.num 0 1]) i (by rw [hlen]; omega)
            simp only [hs1, hs2, hs3]
            simp [isPanic]
        · simp [hm, isPanic]
      · simp [isPanic]
    · simp [hm, isPanic]
  · simp [isPanic]

theorem concatFunc_total (args : List PVal) : isPanic (concatFunc args) = false := by
  unfold concatFunc
  split
  · have h : ∀ l : List PVal, (∃ r, l.mapM assertListParam = .ok r) ∨ (∃ m, l.mapM assertListParam = .error (.err m)) := by
      intro l
      induction l with
      | nil => left; exact ⟨[], rfl⟩
      | cons x l ih =>
        simp only [List.mapM_cons, bind, Except.bind]
        rcases assertListParam_cases x with ⟨xs, hx⟩ | ⟨m, hm⟩
        · simp only [hx]
          rcases ih with ⟨r, hr⟩ | ⟨m, hm⟩
          · left; exact ⟨xs :: r, by simp [hr, pure, Except.pure]⟩
          · right; exact ⟨m, by simp [hm]⟩
        · right; exact ⟨m, by simp [hm]⟩
    rcases h args with ⟨r, hr⟩ | ⟨m, hm⟩
    · simp [hr, bind, Except.bind, isPanic]
    · simp [hm, bind, Except.bind, isPanic]
  · simp [isPanic]

theorem rangeFunc_total (args : List PVal) (hn : ∀ a ∈ args, a.NumOK) : isPanic (rangeFunc args) = false := by
  have key : ∀ v : PVal, v ∈ args → ∀ (k : R PVal), isPanic k = false →
      isPanic (do let _ ← assertNumParam v; k) = false := by
    intro v hv k hk
    rcases assertNumParam_cases v (hn v hv) with ⟨i, i1, hi, _⟩ | ⟨m, hm⟩
    · simp [hi, bind, Except.bind, hk]
    · simp [hm, bind, Except.bind, isPanic]
  have mem : ∀ (i : Int) (a : PVal), goIndex args i = .ok a → a ∈ args := by
    intro i a e
    unfold goIndex at e; split at e
    · injection e with e; rw [← e]; exact List.getElem_mem _
    · cases e
  unfold rangeFunc
  split
  · simp [isPanic]
  · split
    · next h0 h1 =>
      obtain ⟨a, ha⟩ := goIndex_ok args 0 (by omega)
      simp only [ha, bind, Except.bind]
      exact key a (mem _ _ ha) _ (by simp [isPanic])
    · next h0 h1 =>
      have : args.length ≥ 2 := by omega
      obtain ⟨a, ha⟩ := goIndex_ok args 0 (by omega)
      obtain ⟨b, hb⟩ := goIndex_ok args 1 (by omega)
      simp only [ha, bind, Except.bind]
      apply key a (mem _ _ ha)
      simp only [hb]
      apply key b (mem _ _ hb)
      split
      · next h2 =>
        obtain ⟨c, hc⟩ := goIndex_ok args 2 (by omega)
        simp only [hc]
        exact key c (mem _ _ hc) _ (by simp [isPanic])
      · simp [isPanic]

theorem addSuperClasses_total : ∀ (d : Nat) (t : List (PVal × PVal)), isPanic (addSuperClasses d t) = false := by
  intro d
  induction d with
  | zero => intro t; simp [addSuperClasses, isPanic]
  | succ d ih =>
    intro t
    unfold addSuperClasses
    split
    · simp [isPanic]
    · split
      · next xs _ =>
        suffices h : ∀ l : List PVal, isPanic (l.forM fun x => match goAssertOk .map x with
            | some (.map t) => addSuperClasses d t
            | _ => (.ok () : R Unit)) = false from h _
        intro l
        induction l with
        | nil => simp [List.forM_nil, isPanic, pure, Except.pure]
        | cons x l ihl =>
          have e : ∀ (g : PVal → R Unit), (x :: l).forM g = (g x >>= fun _ => l.forM g) := fun _ => rfl
          rw [e]
          apply bind_no_panic
          · split
            · exact ih _
            · simp [isPanic]
          · intro _ _; exact ihl
      · simp [isPanic]

theorem newFunc_total (initRun : List PVal → R Unit) (hinit : ∀ a, isPanic (initRun a) = false)
    (args : List PVal) : isPanic (newFunc initRun args) = false := by
  unfold newFunc
  split
  · next h =>
    obtain ⟨a0, e0⟩ := goIndex_ok args 0 (by omega)
    rw [e0]
    apply bind_no_panic
    · simp [isPanic]
    · intro a ha; cases ha
      apply bind_no_panic
      · unfold assertMapParam; split <;> simp [isPanic]
      · intro tmpl _
        have hs := addSuperClasses_total 64 tmpl
        have tail : isPanic (do addSuperClasses 64 tmpl; (.ok (.map tmpl) : R PVal)) = false :=
          bind_no_panic _ _ hs (fun _ _ => by simp [isPanic])
        simp only
        split
        · split
          · obtain ⟨rest, hr⟩ := goSlice_ok args 1 args.length (by omega)
            rw [hr]
            apply bind_no_panic
            · simp [isPanic]
            · intro r hr'; cases hr'
              exact bind_no_panic _ _ (hinit _) (fun _ _ => by simp [isPanic])
          · exact tail
        · exact tail
  · simp [isPanic]

/-- Every modelled builtin (`len add del concat range raise type new`) applied to ANY argument vector
    (any length, any kinds) returns a value or an error, never a Go panic. Hypotheses: number arguments
    satisfy `int(x+1) = int(x)+1` whenever `int(x) ≥ 0` (true for every float64 below 2^53; `NumOK`),
    and running the user's `init` function does not panic (that is `eval_never_panics`). -/
theorem builtin_total (initRun : List PVal → R Unit) (hinit : ∀ a, isPanic (initRun a) = false)
    (name : String) (args : List PVal) (hn : ∀ a ∈ args, a.NumOK) (r : R PVal)
    (h : builtin initRun name args = some r) : isPanic r = false := by
  unfold builtin at h
  split at h
  all_goals cases h
  · exact lenFunc_total _
  · exact addFunc_total _ hn
  · exact delFunc_total _ hn
  · exact concatFunc_total _
  · exact rangeFunc_total _ hn
  · exact prims_guarded.2.2.2.2.2.2.2.2.2.1 _
  · exact typeFunc_total _
  · exact newFunc_total _ hinit _

/-- non-vacuity: the hypotheses hold for concrete vectors, and the builtins do distinguish errors from values -/
example : builtin (fun _ => .ok ()) "add" [.list [.null], .num 2 3, .num 7 8] = some (.error (.err "Out of bounds access to list")) := by rfl
example : builtin (fun _ => .ok ()) "add" [.list [.null], .num 2 3, .num 1 2] = some (.ok (.list [.null, .num 2 3])) := by rfl
example : builtin (fun _ => .ok ()) "del" [.list [.null], .num 5 6] = some (.error (.err "Out of bounds access to list")) := by rfl

/-! ### negative witnesses: the unguarded copies (code before the repair) do panic -/

/-- `5 % 0` before ee44ab4 -/
theorem witness_mod_unguarded : isPanic (modSiteUnguarded 5 0) = true := by decide
/-- `[1] == [1]` before ee44ab4 -/
theorem witness_eq_unguarded : isPanic (eqSiteUnguarded (.list [.num 1 2]) (.list [.num 1 2])) = true := by decide
/-- `a := [1]; a[-5]` before ee44ab4 -/
theorem witness_index_unguarded : isPanic (listGetSiteUnguarded [.num 1 2] (-5)) = true := by decide
/-- `x := {1}` before ee44ab4 -/
theorem witness_maplit_unguarded : isPanic (mapLitSiteUnguarded [.num 1 2] []) = true := by decide
/-- `del([1], 5)` / `add([1], 2, 7)` before ee44ab4 -/
theorem witness_del_unguarded : isPanic (delFuncG false [.list [.num 1 2], .num 5 6]) = true := by decide
theorem witness_add_unguarded : isPanic (addFuncG false [.list [.num 1 2], .num 2 3, .num 7 8]) = true := by decide
/-- statematch `{"a": [1]}` before 1d04360 -/
theorem witness_statematch_unguarded : isPanic (stateKeySiteUnguarded [] (.list [.num 1 2])) = true := by decide
/-- a sink priority that is not a number, without the kind check of sinkDetailRuntime -/
theorem witness_sinkattr_unguarded : isPanic (sinkAttrSiteUnguarded .num (.str "x" none)) = true := by decide

/-! ### the evaluator -/
open Ecal.Ev Ecal.Lemmas.C06

/-- An `err` outcome of the try body reaches the except dispatch: whatever the body did to the state,
    when it ends with a runtime error (`Sig.err`, not one of the three control signals) or with a plain
    Go error, `tryCore` continues exactly as `dispatchExcept handlers e` from the state the body left;
    the `otherwise` block is not run. (With `dispatchExcept`'s definition: the first clause that
    handles `e` decides; a bare `except { }` handles every such `e`.) -/
theorem error_in_try_catchable (body : M Val) (handlers : List Handler) (oth : Option (M Val))
    (s s' : St) (e : Sig) (hbody : body.run.run s = (.error e, s'))
    (hfatal : e.isFatal = false) (hctl : e.isControl = false) :
    (tryCore body handlers oth).run.run s = (dispatchExcept handlers e).run.run s' := by
  unfold tryCore attemptE
  simp only [ExceptT.run, ExceptT.mk, bind, ExceptT.bind, ExceptT.bindCont, StateT.bind, StateT.run, Id.run] at *
  simp [hbody, hfatal, hctl, pure, StateT.pure, ExceptT.pure, ExceptT.mk]

/-- non-vacuity: a division by … a non-number inside try, bare except: the handler runs -/
example : ∃ s', (tryCore (throw (Sig.err ⟨"Operand is not a number", 1, 1⟩ none))
      [fun _ => pure (some (Val.num 7))] none).run.run {} = (.ok (Val.num 7), s') := ⟨_, rfl⟩

/-- The evaluator model never yields `panic` — PARTIAL (one gap left: calls).

    Full statement (kept visible): for every tree `n` the parser can return (C07's `WellFormed`), every
    scope `sc`, every state `s` with `Inv s` and every fuel `f`: `(eval f sc n).run.run s` does not end in
    `Sig.panic`. About the CODE it additionally needs the hypothesis "no container that (transitively)
    contains itself reaches fmt.Sprint / log / `%#v`" (known finding `cyclic-container-stringify`: the Go
    printer overflows the stack; the model's printer is fuel-bounded and cannot panic) — SPEC["assumptions"].

    Proved here: exactly that — plus preservation of `Inv` — for every tree in `Frag`
    (`Ecal/Lemmas/C06NoPanic.lean`), ANY scope, ANY heap (operands of any kind, dangling references, cyclic
    containers), any fuel. `Inv s`: every declaration in the function table is a `Frag` function node, every
    tree of the interpolation table is in `Frag` (`inv_empty`: it holds initially). `Frag` contains, nested to
    any depth (shape conditions: token present, child counts, children in `Frag` — what the parser produces):
    * literals `number true false null`, raw and interpolating strings, list literals, map literals (an entry
      that is not a key-value pair and an unhashable key are ERRORS — the repaired sites — not panics);
    * unary `plus minus not`, `guard`; binary `plus minus times div divint modint and or == != >= > <= <
      in notin hasprefix hassuffix`; `like` and the other nodes the model does not evaluate: `unsupported`;
    * identifiers WITH access paths `a.b[c].d…` (read: `accessString` with a loop invariant for its early
      return; write: `identSet`), `:=` with an identifier / path / destructuring list on the left, plain or
      under `let`; `let a`, `let [a, b]`;
    * `statements`, `break continue return`; `if`/`elif`/`else`; condition loops and `for … in` loops over
      lists, maps, iterator functions and single values, one or several loop variables;
    * `try` with every clause shape (`except { }`, `except e { }`, `except as e { }`, typed `except "T", "U"
      [as e] { }`, `otherwise`, `finally`);
    * function declarations (named / anonymous, parameters with and without defaults).
    Proved for every input besides: `runFunction` on ANY table entry with ANY arguments under `Inv`
    (`user_function_run_never_panics`), `getValue setValue containerGet containerWalk listIndex` (the three
    repaired negative-index sites), heap / scope primitives, `sprint`, `deepEq`, `bindLoopVars`, `errObject`,
    the combinators `ifChain guardLoop iterLoop dispatchExcept tryCore tryFinally callCore withFreshIs`.
    REMAINING: a `funccall` link inside an access path (`f(x)`, `a.b(x)`): `callFunction` / `runBuiltin`
    (the Eval-side builtins `lenB addB delB concatB newB`, range, raise, type, log) are not connected yet —
    in `Frag` a path has no call link (`Link` has no `call` constructor; the argument checks of the builtins
    are covered by `builtin_total` on the Prims model); the bridge `WellFormed n → Frag n` (C07's predicate)
    is not proved; sink / import / mutex are not in the model. -/
theorem eval_never_panics_partial (f sc : Nat) (n : Ecal.Parse.Node) (hn : Frag n) (s : St) (hs : Inv s) :
    ((eval f sc n).run.run s).1 ≠ .error Sig.panic ∧ Inv ((eval f sc n).run.run s).2 :=
  eval_frag_no_panic f sc n hn s hs

/-- Running any entry of the function table with any arguments (any caller scope, heap, fuel) never yields
    `panic` and preserves `Inv`: function.Run builds the frame, binds `this`/`super`/parameters (defaults
    evaluated in the caller's scope) and evaluates the body; a dangling id is outside the model. -/
theorem user_function_run_never_panics (k sc id : Nat) (args : List Val) (s : St) (hs : Inv s) :
    ((runFunction k sc id args).run.run s).1 ≠ .error Sig.panic ∧ Inv ((runFunction k sc id args).run.run s).2 := by
  have h := runFunction_np k sc id args s hs
  refine ⟨?_, h.1⟩
  intro he
  have h2 := h.2
  rw [he] at h2
  exact h2 rfl

/-- non-vacuity: a tree of the fragment (`a := [not (5 % true), {1}]`: ill-typed operands, a map entry that
    is not a pair) and a state satisfying the invariant -/
example : Frag fragExample ∧ Inv {} := ⟨fragExample_ok, inv_empty⟩

end Ecal.Props.C06
