import Ecal.Model.Prims
import Ecal.Lemmas.C06Guards
import Ecal.Lemmas.C06EvalSites
import Ecal.Lemmas.C06PrimsTie
import Ecal.Model.Eval
import Ecal.Lemmas.C06NoPanic
import Ecal.Lemmas.C06FragB
import Ecal.Lemmas.C06Bridge
import Ecal.Lemmas.C06Validate
import Ecal.Props.C07
/-!
C06 — no ECAL program, sink attribute or event can crash the host process.

* `prims_guarded`  every guarded call site of a panicking Go primitive never yields `panic`
* `builtin_total`  every modelled builtin × every argument vector of any length: result ≠ panic
* `eval_never_panics_frag`  the shared evaluator model never yields `panic` on well-formed trees of
  the stated sub-language (see the docstring for what is missing from the full statement)
* `error_in_try_catchable`  an error of the try body reaches the except dispatch
* negative witnesses: the unguarded copies of the repaired sites do panic
(The panic-site census `Ecal/Gen/C06.lean` is data for the check — it steers the search, see props/C06.py —
and deliberately not an obligation: per-function counts of syntactic sites do not survive ordinary clean-ups.)
-/
namespace Ecal.Props.C06
open Ecal.Prims

/-! ### guarded call sites -/

theorem goIndex_ok {α : Type} (xs : List α) (i : Int) (h : 0 ≤ i ∧ i < xs.length) :
    ∃ v, goIndex xs i = .ok v := by
  unfold goIndex
  have : 0 ≤ i ∧ i.toNat < xs.length := ⟨h.1, by omega⟩
  simp [this]

theorem goSlice_ok {α : Type} (xs : List α) (lo hi : Int) (h : 0 ≤ lo ∧ lo ≤ hi ∧ hi ≤ xs.length) :
    ∃ v, goSlice xs lo hi = .ok v := by
  unfold goSlice; simp [h]

/-- The transcribed sites OUTSIDE the evaluator model never yield `panic`: `raise` (any argument count),
    a sink attribute value of any kind (comma-ok check, then the unchecked assertion of the same type),
    a statematch / event-state value of any kind (hashable ⇒ Go map key, otherwise the deep-compared side
    list).  In the last two the guard and the primitive's panic condition are the same predicate BY
    TRANSCRIPTION: what can be wrong is the transcription (which node kind is checked against which Go
    type), and that is tied to /repo only by the test families A (5 attributes × value kinds) and E
    (statematch × state, real worker), not by a theorem. -/
theorem engine_sites_guarded :
    (∀ args, isPanic (raiseSite args) = false) ∧
    (∀ k v, isPanic (sinkAttrSite k v) = false) ∧
    (∀ t v, isPanic (stateKeySite t v) = false) := by
  refine ⟨?_, ?_, ?_⟩
  · intro args; unfold raiseSite
    by_cases h0 : args.length > 0
    · obtain ⟨a0, e0⟩ := goIndex_ok args 0 (by omega)
      by_cases h1 : args.length > 1
      · obtain ⟨a1, e1⟩ := goIndex_ok args 1 (by omega)
        by_cases h2 : args.length > 2
        · obtain ⟨a2, e2⟩ := goIndex_ok args 2 (by omega)
          simp [h0, h1, h2, e0, e1, e2, isPanic, bind, Except.bind, pure, Except.pure]
        · simp [h0, h1, h2, e0, e1, isPanic, bind, Except.bind, pure, Except.pure]
      · have h2 : ¬ args.length > 2 := by omega
        simp [h0, h1, h2, e0, isPanic, bind, Except.bind, pure, Except.pure]
    · have h1 : ¬ args.length > 1 := by omega
      have h2 : ¬ args.length > 2 := by omega
      simp [h0, h1, h2, isPanic, bind, Except.bind, pure, Except.pure]
  · intro k v; unfold sinkAttrSite goAssertOk goAssert
    by_cases h : v.kind = k <;> simp [h, isPanic]
  · intro t v; unfold stateKeySite goMapStore
    split
    · simp [isPanic]
    · split
      · next h => simp [h, isPanic, bind, Except.bind, pure, Except.pure]
      · simp [isPanic]

/-! ### builtins -/

theorem assertNumParam_cases (v : PVal) (hv : v.NumOK) :
    (∃ i i1, assertNumParam v = .ok (i, i1) ∧ (0 ≤ i → i ≤ i1 ∧ i1 ≤ i + 1)) ∨ (∃ m, assertNumParam v = .error (.err m)) := by
  cases v with
  | str s o =>
    cases o with
    | none => right; exact ⟨"Parameter should be a number", by simp [assertNumParam, goAssertOk, PVal.kind]⟩
    | some p => obtain ⟨i, i1⟩ := p; left; exact ⟨i, i1, by simp [assertNumParam, goAssertOk, PVal.kind], hv⟩
  | num i i1 => left; exact ⟨i, i1, by simp [assertNumParam, goAssertOk, PVal.kind], hv⟩
  | null => right; exact ⟨"Parameter should be a number", by simp [assertNumParam, goAssertOk, PVal.kind]⟩
  | bool b => right; exact ⟨"Parameter should be a number", by simp [assertNumParam, goAssertOk, PVal.kind]⟩
  | list xs => right; exact ⟨"Parameter should be a number", by simp [assertNumParam, goAssertOk, PVal.kind]⟩
  | map kvs => right; exact ⟨"Parameter should be a number", by simp [assertNumParam, goAssertOk, PVal.kind]⟩
  | func id => right; exact ⟨"Parameter should be a number", by simp [assertNumParam, goAssertOk, PVal.kind]⟩

theorem bind_no_panic {α β : Type} (m : R α) (f : α → R β) (hm : isPanic m = false)
    (hf : ∀ a, m = .ok a → isPanic (f a) = false) : isPanic (m >>= f) = false := by
  cases m with
  | ok a => exact hf a rfl
  | error e => cases e <;> simp_all [isPanic, bind, Except.bind]

theorem assertListParam_cases (v : PVal) :
    (∃ xs, assertListParam v = .ok xs) ∨ (∃ m, assertListParam v = .error (.err m)) := by
  unfold assertListParam goAssertOk
  cases v <;> simp [PVal.kind]

theorem lenFunc_total (args : List PVal) : isPanic (lenFunc args) = false := by
  unfold lenFunc
  split
  · next h =>
    obtain ⟨a, ha⟩ := goIndex_ok args 0 (by omega)
    simp only [ha, bind, Except.bind]
    split <;> simp [isPanic]
  · simp [isPanic]

theorem typeFunc_total (args : List PVal) : isPanic (typeFunc args) = false := by
  unfold typeFunc
  split
  · next h =>
    obtain ⟨a, ha⟩ := goIndex_ok args 0 (by omega)
    simp [ha, bind, Except.bind, isPanic]
  · simp [isPanic]

theorem delFunc_total (args : List PVal) (hn : ∀ a ∈ args, a.NumOK) : isPanic (delFunc args) = false := by
  unfold delFunc delFuncG
  split
  · next h =>
    obtain ⟨a0, e0⟩ := goIndex_ok args 0 (by omega)
    obtain ⟨a1, e1⟩ := goIndex_ok args 1 (by omega)
    have hm1 : a1 ∈ args := by
      unfold goIndex at e1; split at e1
      · injection e1 with e1; rw [← e1]; exact List.getElem_mem _
      · cases e1
    simp only [e0, e1, bind, Except.bind]
    split
    · next xs _ =>
      rcases assertNumParam_cases a1 (hn a1 hm1) with ⟨i, i1, hi, _⟩ | ⟨m, hm⟩
      · simp only [hi]
        split
        · simp [isPanic]
        · next hg =>
          simp at hg
          obtain ⟨l, hl⟩ := goSlice_ok xs 0 i (by omega)
          obtain ⟨r, hr⟩ := goSlice_ok xs (i + 1) xs.length (by omega)
          simp [hl, hr, isPanic]
      · simp [hm, isPanic]
    · simp [isPanic]
    · simp [isPanic]
  · simp [isPanic]

theorem addFunc_total (args : List PVal) (hn : ∀ a ∈ args, a.NumOK) : isPanic (addFunc args) = false := by
  unfold addFunc addFuncG
  split
  · next h =>
    obtain ⟨a0, e0⟩ := goIndex_ok args 0 (by omega)
    obtain ⟨v, e1⟩ := goIndex_ok args 1 (by omega)
    simp only [e0, e1, bind, Except.bind]
    rcases assertListParam_cases a0 with ⟨xs, hx⟩ | ⟨m, hm⟩
    · simp only [hx]
      split
      · next h3 =>
        obtain ⟨a2, e2⟩ := goIndex_ok args 2 (by omega)
        have hm2 : a2 ∈ args := by
          unfold goIndex at e2; split at e2
          · injection e2 with e2; rw [← e2]; exact List.getElem_mem _
          · cases e2
        simp only [e2]
        rcases assertNumParam_cases a2 (hn a2 hm2) with ⟨i, i1, hi, hsucc⟩ | ⟨m, hm⟩
        · simp only [hi]
          split
          · simp [isPanic]
          · next hg =>
            simp at hg
            obtain ⟨s1, hs1⟩ := goSlice_ok xs 0 i (by omega)
            obtain ⟨s2, hs2⟩ := goSlice_ok xs i xs.length (by omega)
            simp only [hs1, hs2]
            simp [isPanic]
        · simp [hm, isPanic]
      · simp [isPanic]
    · simp [hm, isPanic]
  · simp [isPanic]

theorem concatFunc_total (args : List PVal) : isPanic (concatFunc args) = false := by
  unfold concatFunc
  split
  · have h : ∀ l : List PVal, (∃ r, l.mapM assertListParam = .ok r) ∨ (∃ m, l.mapM assertListParam = .error (.err m)) := by
      intro l
      induction l with
      | nil => left; exact ⟨[], rfl⟩
      | cons x l ih =>
        simp only [List.mapM_cons, bind, Except.bind]
        rcases assertListParam_cases x with ⟨xs, hx⟩ | ⟨m, hm⟩
        · simp only [hx]
          rcases ih with ⟨r, hr⟩ | ⟨m, hm⟩
          · left; exact ⟨xs :: r, by simp [hr, pure, Except.pure]⟩
          · right; exact ⟨m, by simp [hm]⟩
        · right; exact ⟨m, by simp [hm]⟩
    rcases h args with ⟨r, hr⟩ | ⟨m, hm⟩
    · simp [hr, bind, Except.bind, isPanic]
    · simp [hm, bind, Except.bind, isPanic]
  · simp [isPanic]

theorem rangeFunc_total (args : List PVal) (hn : ∀ a ∈ args, a.NumOK) : isPanic (rangeFunc args) = false := by
  have key : ∀ v : PVal, v ∈ args → ∀ (k : R PVal), isPanic k = false →
      isPanic (do let _ ← assertNumParam v; k) = false := by
    intro v hv k hk
    rcases assertNumParam_cases v (hn v hv) with ⟨i, i1, hi, _⟩ | ⟨m, hm⟩
    · simp [hi, bind, Except.bind, hk]
    · simp [hm, bind, Except.bind, isPanic]
  have mem : ∀ (i : Int) (a : PVal), goIndex args i = .ok a → a ∈ args := by
    intro i a e
    unfold goIndex at e; split at e
    · injection e with e; rw [← e]; exact List.getElem_mem _
    · cases e
  unfold rangeFunc
  split
  · simp [isPanic]
  · split
    · next h0 h1 =>
      obtain ⟨a, ha⟩ := goIndex_ok args 0 (by omega)
      simp only [ha, bind, Except.bind]
      exact key a (mem _ _ ha) _ (by simp [isPanic])
    · next h0 h1 =>
      have : args.length ≥ 2 := by omega
      obtain ⟨a, ha⟩ := goIndex_ok args 0 (by omega)
      obtain ⟨b, hb⟩ := goIndex_ok args 1 (by omega)
      simp only [ha, bind, Except.bind]
      apply key a (mem _ _ ha)
      simp only [hb]
      apply key b (mem _ _ hb)
      split
      · next h2 =>
        obtain ⟨c, hc⟩ := goIndex_ok args 2 (by omega)
        simp only [hc]
        exact key c (mem _ _ hc) _ (by simp [isPanic])
      · simp [isPanic]

/-- Every builtin transcribed in `Prims` (`len add del concat range raise type`) applied to ANY argument
    vector (any length, any kinds) returns a value or an error, never a Go panic. Hypothesis `NumOK`:
    `0 ≤ int(x) → int(x) ≤ int(x+1) ≤ int(x)+1` for number arguments (true for every float64, NaN and ±Inf
    included, on every platform). This is a statement about the TRANSCRIPTION; it is compared with Go only
    where the driver falls back to it (≈13 % of the builtin cases); the builtins the correspondence compares
    everywhere are `Ecal.Ev`'s `lenB addB delB concatB newB` (see `eval_never_panics_frag`: calls are the
    remaining gap). `new` is not transcribed here any more (the model is `Ecal.Ev.newB`). For `len add del concat
    raise type` the transcription is tied to the evaluator by `prims_builtins_agree_with_ev` (same class on every
    argument vector); `range` stays transcription-only. -/
theorem builtin_total (name : String) (args : List PVal) (hn : ∀ a ∈ args, a.NumOK) (r : R PVal)
    (h : builtin name args = some r) : isPanic r = false := by
  unfold builtin at h
  split at h
  all_goals cases h
  · exact lenFunc_total _
  · exact addFunc_total _ hn
  · exact delFunc_total _ hn
  · exact concatFunc_total _
  · exact rangeFunc_total _ hn
  · exact engine_sites_guarded.1 _
  · exact typeFunc_total _

open Ecal.Lemmas.C06PrimsTie Ecal.Ev in
/-- **The Prims transcriptions of `len`, `del`, `add`, `concat`, `raise`, `type` are tied to the evaluator model** (six
    of the seven builtins in `Prims.builtin`). For every argument vector (any length, any kinds) and every heap,
    `Prims.lenFunc / delFunc / addFunc / concatFunc / raiseSite / typeFunc` on the abstraction of the arguments
    (`absV`: kind, list length, map size, `int(x)`) and the evaluator's `lenB / delB / addB / concatB` and the
    `"raise"` and `"type"` branches of `runBuiltin` (any fuel > 0, scope, call node) — the functions the driver runs —
    end in the same class (value / error value), unless the evaluator model leaves itself (`unsupported` or fuel: a
    string / opaque / NaN / ±9e18 / non-integral index, a map key its printer does not cover; for `concat` a result
    whose capacity is beyond the size classes `appendVals` models; for `raise` an error type or detail its printer
    does not cover; for `type` a value its `%#v` printer `goSyntax` does not cover — a map, a function, a non-integral
    number, a string that needs quoting — `goSyntax_out`, induction on the fuel). So for these six `builtin_total` is a
    statement about the compared model's argument checks. Compared is the CLASS only, not the error text, the
    resulting list or the printed type.
    Still transcription-only (no theorem ties them to `Ecal.Ev`): `range` in `Prims.builtin` (it returns iterator
    state the abstraction does not carry), and the two engine transcriptions `sinkAttrSite`, `stateKeySite` (the
    rule engine is not in the evaluator model). -/
theorem prims_builtins_agree_with_ev :
    (∀ (args : List Val) (s : St), Agree ((lenB args).run.run s).1 (lenFunc (args.map (absV s)))) ∧
    (∀ (args : List Val) (s : St), Agree ((delB args).run.run s).1 (delFunc (args.map (absV s)))) ∧
    (∀ (args : List Val) (s : St), Agree ((addB args).run.run s).1 (addFunc (args.map (absV s)))) ∧
    (∀ (args : List Val) (s : St), Agree ((concatB args).run.run s).1 (concatFunc (args.map (absV s)))) ∧
    (∀ (f sc : Nat) (node : Ecal.Parse.Node) (args : List Val) (s : St),
      Agree ((runBuiltin (f+1) sc node "raise" args).run.run s).1 (raiseSite (args.map (absV s)))) ∧
    (∀ (f sc : Nat) (node : Ecal.Parse.Node) (args : List Val) (s : St),
      Agree ((runBuiltin (f+1) sc node "type" args).run.run s).1 (typeFunc (args.map (absV s)))) :=
  ⟨len_agree, del_agree, add_agree, concat_agree, raise_agree, type_agree⟩

/-- non-vacuity: the hypotheses hold for concrete vectors (also a negative fraction: int(-0.5) = int(0.5) = 0),
    and the builtins do distinguish errors from values -/
example : builtin "add" [.list [.null], .num 2 3, .num 7 8] = some (.error (.err "Out of bounds access to list")) := by rfl
example : builtin "add" [.list [.null], .num 2 3, .num 1 2] = some (.ok (.list [.null, .num 2 3])) := by rfl
example : (PVal.num 0 0).NumOK := fun _ => ⟨by omega, by omega⟩
example : builtin "del" [.list [.null], .num 5 6] = some (.error (.err "Out of bounds access to list")) := by rfl

/-! ### negative witnesses: the unguarded copies (code before the repair) do panic -/

/-- `del([1], 5)` / `add([1], 2, 7)` before ee44ab4, in the transcription (the evaluator-side witnesses: `guards_necessary`) -/
theorem witness_del_unguarded : isPanic (delFuncG false [.list [.num 1 2], .num 5 6]) = true := by decide
theorem witness_add_unguarded : isPanic (addFuncG false [.list [.num 1 2], .num 2 3, .num 7 8]) = true := by decide
/-- statematch `{"a": [1]}` before 1d04360 -/
theorem witness_statematch_unguarded : isPanic (stateKeySiteUnguarded [] (.list [.num 1 2])) = true := by decide
/-- a sink priority that is not a number, without the kind check of sinkDetailRuntime -/
theorem witness_sinkattr_unguarded : isPanic (sinkAttrSiteUnguarded .num (.str "x" none)) = true := by decide

/-! ### the guards of the interpreter: sufficient, used by the model, necessary -/
open Ecal.GoPrim Ecal.Lemmas.C06Guards in
/-- SUFFICIENCY. Every guarded value-level site of the interpreter (`Ecal.GoPrim.Site`: the Go code shape
    "guard, then the panicking primitive") never yields `panic`, for all operands: list read / nested read
    and list write with any index text (the three varsscope.go sites), delete and insert with any index
    (backing array at least as long as the slice), map-literal store with any key, `%` with any divisor,
    `==` / `!=` / `in` on any two values, the operand assertions of the arithmetic operators. -/
theorem guards_sufficient :
    (∀ xs fld, noPanic (Site.listRead xs fld)) ∧
    (∀ xs fld v, noPanic (Site.listWrite xs fld v)) ∧
    (∀ xs i, noPanic (Site.del xs i)) ∧
    (∀ xs v i, noPanic (Site.insert xs v i)) ∧
    (∀ kvs k v err, err ≠ Ecal.Ev.Sig.panic → noPanic (Site.mapLit kvs k v err)) ∧
    (∀ a b err, err ≠ Ecal.Ev.Sig.panic → noPanic (Site.modint a b err)) ∧
    (∀ a b deep, noPanic (Site.valuesEqual a b deep)) ∧
    (∀ a b eA eB, eA ≠ Ecal.Ev.Sig.panic → eB ≠ Ecal.Ev.Sig.panic → noPanic (Site.numOperands a b eA eB)) :=
  ⟨listRead_noPanic, listWrite_noPanic, del_noPanic, insert_noPanic, mapLit_noPanic, modint_noPanic,
   valuesEqual_noPanic, numOperands_noPanic⟩

open Ecal.GoPrim Ecal.Lemmas.C06Guards Ecal.Ev in
/-- REFINEMENT, part 1 (normal forms and the three sites that are definitions of `Ecal.Ev`). Conjuncts 1, 2, 5 are
    equations about definitions of `Ecal.Ev`: its list read (`listIndex`, then the backing array) IS `Site.listRead` on
    the slice's elements, `Site.mapLit` stores with `Ev.mapStore`, the comparable branch of `Site.valuesEqual` is
    `Ev.keyEq`. Conjuncts 3, 4, 6, 7 give the NORMAL FORMS of `Site.modint`, `Site.numOperands`, `Site.del`,
    `Site.insert`; that `eval` / `numOp` / `delB` / `addB` compute exactly these sites is part 2:
    `ev_computes_guarded_sites` below (equations about the evaluator's own definitions). -/
theorem model_is_guard_then_primitive :
    (∀ (fld : List Nat) (b : List Val) (l : Nat) (s : St), l ≤ b.length →
      ((do let i ← listIndex fld l; pure (b.getD i Val.null) : M Val).run.run s) = (Site.listRead (b.take l) fld, s)) ∧
    (∀ kvs k v err, Site.mapLit kvs k v err = if !(hashable k) then .error err else .ok (Ecal.Ev.mapStore kvs k v)) ∧
    (∀ a b err, Site.modint a b err = if b = 0 then .error err else .ok (a.tmod b)) ∧
    (∀ a b eA eB, Site.numOperands a b eA eB =
      (match a, b with | .num x, .num y => .ok (x, y) | .num _, _ => .error eB | _, _ => .error eA)) ∧
    (∀ a b deep, (sameDyn a b && uncomparable a) = false → Site.valuesEqual a b deep = .ok (keyEq a b)) ∧
    (∀ (xs : List Val) (i : Int), Site.del xs i = if i < 0 ∨ i ≥ xs.length then .error (plain "Out of bounds access to list")
      else .ok (xs.take i.toNat ++ xs.drop (i.toNat + 1))) ∧
    (∀ (xs : List Val) (v : Val) (i : Int), Site.insert xs v i = if i < 0 ∨ i > xs.length then .error (plain "Out of bounds access to list")
      else .ok (xs.take i.toNat ++ [v] ++ xs.drop i.toNat)) :=
  ⟨fun fld b l s h => listRead_refines fld b l h s, mapLit_refines, modint_refines, numOperands_refines,
   valuesEqual_refines, del_eq, insert_eq⟩

open Ecal.GoPrim Ecal.Ev Ecal.Lemmas.C06Sites in
/-- REFINEMENT, part 2: the evaluator model — the definitions the driver runs — computes the remaining four sites.
    (1) `eval` on a `modint` node = evaluate both operands, then `modintTail`: operand kinds, the two integer
        conversions, then `Site.modint` (guard `int64(b) == 0`, then Go's `%`);
    (2) `numOp` (to which `eval` reduces on `plus minus times div divint` with two operands: `eval_arith`) = evaluate
        both operands, then `Site.numOperands` (comma-ok tests, then the unchecked assertions), then the operation;
    (3) `delB` on a list = the conversions, then `Site.del` on the slice's elements, the result as a NEW list;
    (4) `addB` with an index = the conversions, then `Site.insert` on the slice's elements; only after the site the
        model leaves itself for a non-integral index.
    (3), (4) for every state in which the slice does not reach beyond its backing array. Together with
    `guards_sufficient` this is: at all seven value-level sites the compared model computes guard → primitive, and
    under the guard the primitive cannot panic. Deleting a guard in Model/Eval.lean breaks these proofs. -/
theorem ev_computes_guarded_sites :
    (∀ (f sc : Nat) (n ca cb : Ecal.Parse.Node), n.name = "modint" → n.children = [some ca, some cb] →
      eval (f+1) sc n = (do let a ← eval f sc ca; let b ← eval f sc cb; modintTail n ca cb a b)) ∧
    (∀ (f sc : Nat) (n ca cb : Ecal.Parse.Node) (op : Float → Float → Val), n.children = [some ca, some cb] →
      numOp (f+1) sc n op = (do let a ← eval f sc ca; let b ← eval f sc cb; numOpTail ca cb op a b)) ∧
    (∀ (r l : Nat) (k : Val) (s : St), l ≤ (s.lists.getD r []).length →
      (delB [.list r l, k]).run.run s =
        (do let x ← numParamB 2 k
            let i ← goInt x
            let xs ← getList r l
            let ys ← liftR (Site.del xs i)
            newListExact ys : M Val).run.run s) ∧
    (∀ (r l : Nat) (v ix : Val) (s : St), l ≤ (s.lists.getD r []).length →
      (addB [.list r l, v, ix]).run.run s =
        (do let x ← numParamB 3 ix
            let i ← goInt x
            let xs ← getList r l
            match Site.insert xs v i with
            | .error e => throw e
            | .ok ys => if !(isIntegral x) then throw (Sig.unsupported "add with a non-integral index") else newListExact ys : M Val).run.run s) :=
  ⟨fun f sc n ca cb h hc => eval_modint f sc n ca cb h hc, fun f sc n ca cb op hc => numOp_site f sc n ca cb hc op,
   fun r l k s h => delB_site r l k s h, fun r l v ix s h => addB_site r l v ix s h⟩

/-- non-vacuity of the heap hypothesis: the initial heap (slot 0 is the nil slice) and the empty list -/
example : (0 : Nat) ≤ ((({} : Ecal.Ev.St).lists).getD 0 []).length := Nat.zero_le _

open Ecal.GoPrim Ecal.Lemmas.C06Guards in
/-- NECESSITY (negative witnesses). The same sites WITHOUT their guard — the code before ee44ab4 — panic on
    the inputs of the repaired defects: `a[-5]` read and write on a one-element list, `del([1], 5)` and
    `add([1], 2, 7)` (the current copying code without its test AND the in-place code before ee44ab4), `{[1]:2}`, `5 % 0`, `[1] == [1]`, an unchecked operand assertion. A proof of
    `guards_sufficient` that did not use the guards would prove these too — it cannot. -/
theorem guards_necessary :
    Site.listReadUnguarded [Ecal.Ev.Val.null] [45, 53] = .error Ecal.Ev.Sig.panic ∧
    Site.listWriteUnguarded [Ecal.Ev.Val.null] [45, 53] Ecal.Ev.Val.null = .error Ecal.Ev.Sig.panic ∧
    Site.delUnguarded [Ecal.Ev.Val.null] 5 = .error Ecal.Ev.Sig.panic ∧
    Site.delOldUnguarded [Ecal.Ev.Val.null] 1 5 = .error Ecal.Ev.Sig.panic ∧
    Site.insertUnguarded [Ecal.Ev.Val.null] Ecal.Ev.Val.null 7 = .error Ecal.Ev.Sig.panic ∧
    Site.insertOldUnguarded [Ecal.Ev.Val.null, Ecal.Ev.Val.null] Ecal.Ev.Val.null 7 = .error Ecal.Ev.Sig.panic ∧
    Site.mapLitUnguarded [] (Ecal.Ev.Val.list 1 1) Ecal.Ev.Val.null = .error Ecal.Ev.Sig.panic ∧
    Site.modintUnguarded 5 0 = .error Ecal.Ev.Sig.panic ∧
    Site.valuesEqualUnguarded (Ecal.Ev.Val.list 1 1) (Ecal.Ev.Val.list 2 1) = .error Ecal.Ev.Sig.panic ∧
    Site.numOperandsUnguarded (Ecal.Ev.Val.num 1) (Ecal.Ev.Val.str []) = .error Ecal.Ev.Sig.panic :=
  ⟨witness_listRead, witness_listWrite, witness_del, witness_del_old, witness_insert, witness_insert_old, witness_mapLit, witness_modint,
   witness_valuesEqual, witness_numOperands⟩

/-! ### the evaluator -/
open Ecal.Ev Ecal.Lemmas.C06

/-- An `err` outcome of the try body reaches the except dispatch: whatever the body did to the state,
    when it ends with a runtime error (`Sig.err`, not one of the three control signals) or with a plain
    Go error, `tryCore` continues exactly as `dispatchExcept handlers e` from the state the body left;
    the `otherwise` block is not run. (With `dispatchExcept`'s definition: the first clause that
    handles `e` decides; a bare `except { }` handles every such `e`.) -/
theorem error_in_try_catchable (body : M Val) (handlers : List Handler) (oth : Option (M Val))
    (s s' : St) (e : Sig) (hbody : body.run.run s = (.error e, s'))
    (hfatal : e.isFatal = false) (hctl : e.isControl = false) :
    (tryCore body handlers oth).run.run s = (dispatchExcept handlers e).run.run s' := by
  unfold tryCore attemptE
  simp only [ExceptT.run, ExceptT.mk, bind, ExceptT.bind, ExceptT.bindCont, StateT.bind, StateT.run, Id.run] at *
  simp [hbody, hfatal, hctl, pure, StateT.pure, ExceptT.pure, ExceptT.mk]

/-- non-vacuity: a division by … a non-number inside try, bare except: the handler runs -/
example : ∃ s', (tryCore (throw (Sig.err ⟨"Operand is not a number", 1, 1⟩ none))
      [fun _ => pure (some (Val.num 7))] none).run.run {} = (.ok (Val.num 7), s') := ⟨_, rfl⟩

/-- **eval_never_panics.** For EVERY tree the parser model returns (any token list), every scope, every fuel and
    every state satisfying `Inv`, the evaluator model does not end in `panic`, and `Inv` holds afterwards.
    Chain: C07's `parse_wellformed_strict` (every returned tree is `WellFormedRoot`) → `wellformed_frag`
    (`Lemmas/C06Bridge.lean`: strictly well-formed trees are in `Frag`, induction on the size of the tree, one case
    per node kind) → `eval_never_panics_frag`. Constructs outside the model (`sink import mutex like`, builtins the
    model does not have) end in `unsupported`, never `panic`; what the statement says about the CODE and what it
    needs besides (value-level guards, the two recorded findings) is spelled out at `eval_never_panics_frag`. -/
theorem eval_never_panics (ts : List Ecal.Lex.Tok) (t : Ecal.Parse.Node)
    (hparse : Ecal.Parse.parseToks ts = (some t, none)) (f sc : Nat) (s : St) (hs : Inv s) :
    ((eval f sc t).run.run s).1 ≠ .error Sig.panic ∧ Inv ((eval f sc t).run.run s).2 :=
  eval_frag_no_panic f sc t (wellformed_frag t (Ecal.Props.C07.parse_wellformed_strict ts t hparse)) s hs

/-- **validate_never_panics.** For every tree the parser model returns, the validation the C06 driver runs
    (`Ecal.ValidateS.validateS`: the structural twin of the shared model's `partial def validate`, cross-checked
    against it by the driver on every case and compared with Go's `Validate` through the outcome class) ends in a
    value or an error, never in a panic, for every fuel. -/
theorem validate_never_panics (ts : List Ecal.Lex.Tok) (t : Ecal.Parse.Node)
    (hparse : Ecal.Parse.parseToks ts = (some t, none)) (k : Nat) :
    Ecal.ValidateS.validateS k t ≠ .error Sig.panic := by
  have hw := Ecal.Props.C07.parse_wellformed_strict ts t hparse
  simp only [Ecal.Parse.WellFormedRoot, Bool.and_eq_true] at hw
  intro he
  exact validateS_no_panic k t hw.1 _ he rfl

/-- `Inv` holds for the state a run starts from when the trees of the interpolation table are parser results too
    (they are: `evPayload` builds the table with the same parser) and no function has been declared yet. -/
theorem inv_initial (interp : List (List Nat × InterpEntry))
    (h : ∀ code n, (code, InterpEntry.ast n) ∈ interp → ∃ ts, Ecal.Parse.parseToks ts = (some n, none)) :
    Inv { interp := interp } := by
  constructor
  · intro fr hfr; simp at hfr
  · intro code n hm
    obtain ⟨ts, hts⟩ := h code n hm
    exact wellformed_frag n (Ecal.Props.C07.parse_wellformed_strict ts n hts)

/-- The evaluator model never yields `panic` on the fragment `Frag` (all constructs of the model, calls included).

    Statement: for every tree `n` in `Frag`, every scope `sc`, every state `s` with `Inv s` and every fuel `f`:
    `(eval f sc n).run.run s` does not end in `Sig.panic`, and `Inv` holds afterwards. ANY heap: operands of any
    kind, dangling references, cyclic containers. `Inv s`: every declaration in the function table is a `Frag`
    function node, every tree of the interpolation table is in `Frag` (`inv_empty`: holds initially).
    What kind of theorem this is: in `Ecal.Ev` a `panic` can only come from the SHAPE of the tree (nil child,
    missing token, arity) — the value-level panics of Go are transcribed there as guarded errors; that these
    guards are the right ones is `guards_sufficient` + `model_is_guard_then_primitive` + `guards_necessary`
    above, and that the transcription matches /repo is the correspondence run. About the CODE the statement
    additionally needs: no container that (transitively) contains itself reaches fmt.Sprint / log / `%#v`
    (known finding `cyclic-container-stringify`; the model's printer is fuel-bounded), and no container is
    used by two ECAL threads outside `mutex` (known finding `unsynchronised-shared-container`; the model is
    sequential).
    `Frag` contains, nested to any depth (shape conditions: token present, child counts, children in `Frag`):
    * literals `number true false null`, raw and interpolating strings, list literals, map literals (an entry
      that is not a key-value pair and an unhashable key are ERRORS — the repaired sites — not panics);
    * unary `plus minus not`, `guard`; binary `plus minus times div divint modint and or == != >= > <= <
      in notin hasprefix hassuffix`; `like` and the other nodes the model does not evaluate: `unsupported`;
    * identifiers with access paths `a.b[c].d…` INCLUDING call links `f(x)`, `a.b(x)`, `a[i](x)`: user
      functions (`runFunction` under `Inv`: frame, `this`/`super`, parameters with defaults, body) and the
      builtins of the model `log error debug x.mark len type del add concat new raise range` (`lenB addB delB
      concatB newB` with `addSuperClasses`, `goSyntax`, `prettyArg`); any other builtin name: `unsupported`;
    * `:=` with an identifier / path / destructuring list on the left, plain or under `let`; `let a`, `let [a, b]`;
    * `statements`, `break continue return`; `if`/`elif`/`else`; condition loops and `for … in` loops over
      lists, maps, iterator functions and single values, one or several loop variables;
    * `try` with every clause shape (`except { }`, `except e { }`, `except as e { }`, typed `except "T", "U"
      [as e] { }`, `otherwise`, `finally`);
    * function declarations (named / anonymous, parameters with and without defaults).
    The bridge from the parser is `wellformed_frag` (→ `eval_never_panics`); `fragB` decides membership on the
    trees of the REAL Go parser (driver: `frag=1`, evidence `frag_share`), which ties the parser MODEL's claim to
    the real parser's output on every generated case. `validate`: see `validate_never_panics`.
    sink / import / mutex are not in the model (engine path: test families A, E, K, modes s/d/w). -/
theorem eval_never_panics_frag (f sc : Nat) (n : Ecal.Parse.Node) (hn : Frag n) (s : St) (hs : Inv s) :
    ((eval f sc n).run.run s).1 ≠ .error Sig.panic ∧ Inv ((eval f sc n).run.run s).2 :=
  eval_frag_no_panic f sc n hn s hs

/-- The decidable form the driver uses: `fragB` (run on the tree the REAL parser produced for every generated
    case; `frag=1` in the driver output, share in the evidence) implies the hypothesis of
    `eval_never_panics_frag`. -/
theorem eval_never_panics_checked (k f sc : Nat) (n : Ecal.Parse.Node) (hb : Ecal.FragB.fragB k n = true) (s : St) (hs : Inv s) :
    ((eval f sc n).run.run s).1 ≠ .error Sig.panic ∧ Inv ((eval f sc n).run.run s).2 :=
  eval_frag_no_panic f sc n (fragB_sound k n hb) s hs

/-- Running any entry of the function table with any arguments (any caller scope, heap, fuel) never yields
    `panic` and preserves `Inv`: function.Run builds the frame, binds `this`/`super`/parameters (defaults
    evaluated in the caller's scope) and evaluates the body; a dangling id is outside the model. -/
theorem user_function_run_never_panics (k sc id : Nat) (args : List Val) (s : St) (hs : Inv s) :
    ((runFunction k sc id args).run.run s).1 ≠ .error Sig.panic ∧ Inv ((runFunction k sc id args).run.run s).2 := by
  have h := runFunction_np k sc id args s hs
  refine ⟨?_, h.1⟩
  intro he
  have h2 := h.2
  rw [he] at h2
  exact h2 rfl

/-- non-vacuity: a tree of the fragment (`a := [not (5 % true), {1}]`: ill-typed operands, a map entry that
    is not a pair) and a state satisfying the invariant -/
example : Frag fragExample ∧ Inv {} := ⟨fragExample_ok, inv_empty⟩

end Ecal.Props.C06
