import Ecal.Model.Eval
/-!
# C04 — control flow and try/except/otherwise/finally follow the reference semantics

The evaluator `Ecal.Ev.eval` (Model/Eval.lean) hands every control-flow decision to combinators that
are defined outside its mutual block and that it calls with closures over itself:
`ifChain`, `guardLoop`, `iterLoop`, `tryCore`, `dispatchExcept`, `typedMatch`, `tryFinally`, `callCore`,
`raiseSig`/`errObject`, `rangeDone`, `sortBy`.  The theorems below are about these definitions, for
ARBITRARY sub-computations (guards, blocks, handlers are any `M Val`), so they hold for every nesting
depth; no theorem needs a fact about `Float` (the range theorems use the `Int` instance of the same
polymorphic end test the evaluator runs on `Float`).

`run m s` is the outcome and final state of computation `m` started in state `s`; the marker trace of
a program is the `log` field of the state.
-/
namespace Ecal.Props.C04
open Ecal.Ev

/-- outcome and final state of a computation -/
def run {α : Type} (m : M α) (s : St) : Except Sig α × St := (m.run).run s

/-! ### small algebra of `run` -/
@[simp] theorem run_pure {α} (a : α) (s : St) : run (pure a : M α) s = (.ok a, s) := rfl
@[simp] theorem run_throw {α} (e : Sig) (s : St) : run (throw e : M α) s = (.error e, s) := rfl
theorem run_bind {α β} (m : M α) (k : α → M β) (s : St) :
    run (m >>= k) s = match run m s with
      | (.ok a, s1) => run (k a) s1
      | (.error e, s1) => (.error e, s1) := by
  simp only [run, ExceptT.run_bind, StateT.run_bind]
  cases h : (m.run).run s with
  | mk r s1 => cases r <;> simp_all <;> rfl
theorem run_attempt {α} (m : M α) (s : St) :
    run (attemptE m) s = (.ok (run m s).1, (run m s).2) := by
  simp [run, attemptE, ExceptT.run_mk]
  rfl

theorem run_ite {α} (c : Prop) [Decidable c] (a b : M α) (s : St) :
    run (if c then a else b) s = if c then run a s else run b s := by split <;> rfl

/-! ### if / elif / else -/

/-- the guards of `bs` run in order from `s` to `s'` and none of them yields `true` -/
inductive GuardsFalse : List (M Val × M Val) → St → St → Prop
  | nil (s : St) : GuardsFalse [] s s
  | cons {g b : M Val} {rest s s1 s2 v} : run g s = (.ok v, s1) → v ≠ .bool true →
      GuardsFalse rest s1 s2 → GuardsFalse ((g, b) :: rest) s s2

/-- one unfolding of the branch selection -/
theorem ifChain_cons (g b : M Val) (rest : List (M Val × M Val)) (s : St) :
    run (ifChain ((g, b) :: rest)) s = match run g s with
      | (.ok (.bool true), s1) => run b s1
      | (.ok _, s1) => run (ifChain rest) s1
      | (.error e, s1) => (.error e, s1) := by
  simp only [ifChain, run_bind]
  rcases h : run g s with ⟨r, s1⟩
  cases r with
  | error e => rfl
  | ok v => cases v <;> try rfl
            case bool b => cases b <;> rfl

/-- **if_first_true**: the block of the first guard whose value is `true` runs (in the state the guard
    evaluations left), and nothing else of the statement -/
theorem if_first_true (pre post : List (M Val × M Val)) (g b : M Val) (s s1 s2 : St)
    (h : GuardsFalse pre s s1) (hg : run g s1 = (.ok (.bool true), s2)) :
    run (ifChain (pre ++ (g, b) :: post)) s = run b s2 := by
  induction h with
  | nil s => simp [ifChain_cons, hg]
  | cons hg' hv _ ih =>
    rename_i v
    simp only [List.cons_append, ifChain_cons, hg']
    cases v <;> simp_all

/-- no guard true: the statement does nothing but evaluate its guards -/
theorem if_none_true (bs : List (M Val × M Val)) (s s1 : St) (h : GuardsFalse bs s s1) :
    run (ifChain bs) s = (.ok .null, s1) := by
  induction h with
  | nil s => rfl
  | cons hg' hv _ ih =>
    rename_i v
    simp only [ifChain_cons, hg']
    cases v <;> simp_all

/-- an error of a guard ends the statement with that error -/
theorem if_guard_error (pre post : List (M Val × M Val)) (g b : M Val) (s s1 s2 : St) (e : Sig)
    (h : GuardsFalse pre s s1) (hg : run g s1 = (.error e, s2)) :
    run (ifChain (pre ++ (g, b) :: post)) s = (.error e, s2) := by
  induction h with
  | nil s => simp [ifChain_cons, hg]
  | cons hg' hv _ ih =>
    rename_i v
    simp only [List.cons_append, ifChain_cons, hg']
    cases v <;> simp_all

example : run (ifChain [(pure (.bool false), throw .panic), (pure (.bool true), pure (.str [1]))]) {} =
    run (pure (.str [1]) : M Val) {} :=
  if_first_true [(pure (.bool false), throw .panic)] [] _ _ _ _ _
    (.cons (v := .bool false) rfl (by simp) (.nil _)) rfl

/-! ### loops -/

/-- what a loop does with the outcome of one round of its block -/
def afterBody (r : Except Sig Val × St) (again : St → Except Sig Val × St) : Except Sig Val × St :=
  match r with
  | (.ok _, s2) => again s2
  | (.error e, s2) =>
    if e.isContinue then again s2 else if e.isBreak then (.ok .null, s2) else (.error e, s2)

/-- **loop_guard**: a condition loop evaluates its guard; a value other than `true` ends it; otherwise
    the block runs and the loop goes on after a normal end or `continue`, ends normally after `break`
    and ends with the error (or return signal) of the block otherwise -/
theorem loop_guard (g b : M Val) (f : Nat) (s : St) :
    run (guardLoop g b (f+1)) s = match run g s with
      | (.ok (.bool true), s1) => afterBody (run b s1) (run (guardLoop g b f))
      | (.ok _, s1) => (.ok .null, s1)
      | (.error e, s1) => if e.isBreak then (.ok .null, s1) else (.error e, s1) := by
  simp only [guardLoop, run_bind, run_attempt]
  rcases hg : run g s with ⟨r, s1⟩
  cases r with
  | error e => simp only [run_ite, run_pure, run_throw]
  | ok v =>
    cases v <;> try rfl
    case bool bv =>
      cases bv
      · rfl
      · simp only [run_bind, run_attempt, afterBody]
        rcases hb : run b s1 with ⟨rb, s2⟩
        cases rb with
        | ok _ => rfl
        | error e => simp only [run_ite, run_pure, run_throw]

/-- one round of a `for … in` loop: next element (the iterator's own `break` signal ends the loop),
    loop variables, block -/
theorem loop_iter_step {σ : Type} (next : σ → M (Val × σ)) (bind : Val → M Unit) (body : M Val)
    (f : Nat) (st : σ) (s : St) :
    run (iterLoop next bind body (f+1) st) s = match run (next st) s with
      | (.ok (v, st'), s1) =>
        (match run (bind v) s1 with
         | (.ok _, s2) => afterBody (run body s2) (run (iterLoop next bind body f st'))
         | (.error e, s2) => (.error e, s2))
      | (.error e, s1) =>
        if e.isContinue then run (iterLoop next bind body f st) s1
        else if e.isBreak then (.ok .null, s1) else (.error e, s1) := by
  simp only [iterLoop, run_bind, run_attempt]
  rcases hn : run (next st) s with ⟨r, s1⟩
  cases r with
  | error e => simp only [run_ite, run_pure, run_throw]
  | ok p =>
    obtain ⟨v, st'⟩ := p
    simp only [run_bind, run_attempt]
    rcases hbd : run (bind v) s1 with ⟨rb, s2⟩
    cases rb with
    | error e => rfl
    | ok _ =>
      simp only [run_bind, run_attempt, afterBody]
      rcases hb : run body s2 with ⟨rb, s3⟩
      cases rb with
      | ok _ => rfl
      | error e => simp only [run_ite, run_pure, run_throw]

/-- reference semantics of "once per element, in order": defined by recursion over the elements -/
def forEach (bind : Val → M Unit) (body : M Val) : List Val → M Val
  | [] => pure .null
  | x :: xs => do
    bind x
    match ← attemptE body with
    | .ok _ => forEach bind body xs
    | .error e =>
      if e.isContinue then forEach bind body xs
      else if e.isBreak then pure .null
      else throw e

/-- the iterator of a list: element `i`, or the end-of-iteration signal -/
def listNext (xs : List Val) (brk : Sig) (i : Nat) : M (Val × Nat) :=
  match xs[i]? with
  | some v => pure (v, i + 1)
  | none => throw brk

/-- the loop driver over a PURE list iterator (a fixed list) runs the block once per element in list order,
    `continue` goes to the next element, `break` ends the loop, any other signal leaves it unchanged.
    (The evaluator's list iterator reads the backing array live: see `loop_list` in Props/C04Loops.lean.) -/
theorem loop_pure_list_iterator (xs : List Val) (brk : Sig) (hb : brk.isBreak = true) (hc : brk.isContinue = false)
    (bind : Val → M Unit) (body : M Val) (f i : Nat) (s : St) (hf : xs.length - i < f) :
    run (iterLoop (listNext xs brk) bind body f i) s = run (forEach bind body (xs.drop i)) s := by
  induction f generalizing i s with
  | zero => omega
  | succ f ih =>
    rw [loop_iter_step]
    by_cases hi : i < xs.length
    · have hx : xs[i]? = some xs[i] := List.getElem?_eq_getElem hi
      have hd : xs.drop i = xs[i] :: xs.drop (i+1) := List.drop_eq_getElem_cons hi
      simp only [listNext, hx, run_pure, hd, forEach, run_bind, run_attempt]
      rcases hbd : run (bind xs[i]) s with ⟨rb, s2⟩
      cases rb with
      | error e => rfl
      | ok _ =>
        simp only [afterBody]
        have ih' : ∀ s', run (iterLoop (listNext xs brk) bind body f (i+1)) s' =
            run (forEach bind body (xs.drop (i+1))) s' := fun s' => ih (i+1) s' (by omega)
        rcases hbo : run body s2 with ⟨rbo, s3⟩
        cases rbo with
        | ok _ => simp [ih']
        | error e => simp only [run_ite, run_pure, run_throw, ih']
    · have hx : xs[i]? = none := by simp; omega
      have hd : xs.drop i = [] := by simp; omega
      simp [listNext, hx, hd, forEach, hb, hc]

/-- **break_innermost** (condition loop): a break signal never leaves the loop that receives it -/
theorem break_innermost_guard (g b : M Val) (f : Nat) (s s' : St) (e : Sig)
    (h : run (guardLoop g b f) s = (.error e, s')) : e.isBreak = false := by
  induction f generalizing s with
  | zero => simp [guardLoop] at h; cases h.1; rfl
  | succ f ih =>
    rw [loop_guard] at h
    rcases hg : run g s with ⟨r, s1⟩
    rw [hg] at h
    cases r with
    | error e1 =>
      (try simp only [] at h)
      split at h
      · cases h
      · cases h; simp_all
    | ok v =>
      cases v <;> (try simp only [] at h) <;> try cases h
      case bool bv =>
        cases bv
        · cases h
        · simp only [afterBody] at h
          rcases hb : run b s1 with ⟨rb, s2⟩
          rw [hb] at h
          cases rb with
          | ok _ => exact ih _ h
          | error e2 =>
            (try simp only [] at h)
            split at h
            · exact ih _ h
            · split at h
              · cases h
              · cases h; simp_all

/-- **break_innermost** / **continue_innermost** (`for … in` loop): neither signal leaves the loop whose
    block raised it (setting the loop variables raises neither) -/
theorem break_continue_innermost_iter {σ : Type} (next : σ → M (Val × σ)) (bind : Val → M Unit) (body : M Val)
    (hbind : ∀ v s e s', run (bind v) s = (.error e, s') → e.isBreak = false ∧ e.isContinue = false)
    (f : Nat) (st : σ) (s s' : St) (e : Sig)
    (h : run (iterLoop next bind body f st) s = (.error e, s')) : e.isBreak = false ∧ e.isContinue = false := by
  induction f generalizing s st with
  | zero => simp [iterLoop] at h; cases h.1; exact ⟨rfl, rfl⟩
  | succ f ih =>
    rw [loop_iter_step] at h
    rcases hn : run (next st) s with ⟨r, s1⟩
    rw [hn] at h
    cases r with
    | error e1 =>
      (try simp only [] at h)
      split at h
      · exact ih _ _ h
      · split at h
        · cases h
        · cases h; simp_all
    | ok p =>
      obtain ⟨v, st'⟩ := p
      (try simp only [] at h)
      rcases hbd : run (bind v) s1 with ⟨rb, s2⟩
      rw [hbd] at h
      cases rb with
      | error e2 => simp only [] at h; cases h; exact hbind _ _ _ _ hbd
      | ok _ =>
        simp only [afterBody] at h
        rcases hb : run body s2 with ⟨rbo, s3⟩
        rw [hb] at h
        cases rbo with
        | ok _ => exact ih _ _ h
        | error e3 =>
          (try simp only [] at h)
          split at h
          · exact ih _ _ h
          · split at h
            · cases h
            · cases h; simp_all

/-- **continue_innermost** (condition loop): `continue` in the block starts the next round of this loop -/
theorem continue_innermost_guard (g b : M Val) (f : Nat) (s s1 s2 : St) (e : Sig)
    (hg : run g s = (.ok (.bool true), s1)) (hb : run b s1 = (.error e, s2)) (hc : e.isContinue = true) :
    run (guardLoop g b (f+1)) s = run (guardLoop g b f) s2 := by
  rw [loop_guard, hg]; simp [afterBody, hb, hc]

/-- **break_innermost**, positive form: `break` in the block ends this loop normally, in the state the
    block left -/
theorem break_ends_guard (g b : M Val) (f : Nat) (s s1 s2 : St) (e : Sig)
    (hg : run g s = (.ok (.bool true), s1)) (hb : run b s1 = (.error e, s2))
    (hc : e.isContinue = false) (hbr : e.isBreak = true) :
    run (guardLoop g b (f+1)) s = (.ok .null, s2) := by
  rw [loop_guard, hg]; simp [afterBody, hb, hc, hbr]

/-- a return signal (or an error) of the block leaves a condition loop unchanged -/
theorem return_leaves_guard (g b : M Val) (f : Nat) (s s1 s2 : St) (e : Sig)
    (hg : run g s = (.ok (.bool true), s1)) (hb : run b s1 = (.error e, s2))
    (hc : e.isContinue = false) (hbr : e.isBreak = false) :
    run (guardLoop g b (f+1)) s = (.error e, s2) := by
  rw [loop_guard, hg]; simp [afterBody, hb, hc, hbr]

/-! ### try / except / otherwise / finally -/

/-- the clauses of `hs` are asked in order from `s` to `s'` and all decline the error -/
inductive Decline (e : Sig) : List Handler → St → St → Prop
  | nil (s : St) : Decline e [] s s
  | cons {h : Handler} {rest s s1 s2} : run (h e) s = (.ok none, s1) → Decline e rest s1 s2 →
      Decline e (h :: rest) s s2

theorem dispatch_cons (h : Handler) (hs : List Handler) (e : Sig) (s : St) :
    run (dispatchExcept (h :: hs) e) s = match run (h e) s with
      | (.ok (some v), s1) => (.ok v, s1)
      | (.ok none, s1) => run (dispatchExcept hs e) s1
      | (.error e', s1) => (.error e', s1) := by
  simp only [dispatchExcept, run_bind]
  rcases hh : run (h e) s with ⟨r, s1⟩
  cases r with
  | error e' => rfl
  | ok o => cases o <;> rfl

/-- **try_first_matching_except**: the first clause (in source order) that accepts the error handles it;
    its result — value or the error its block raised — is the result, later clauses are not consulted -/
theorem try_first_matching_except (pre post : List Handler) (h : Handler) (e : Sig) (s s1 : St)
    (hd : Decline e pre s s1) :
    run (dispatchExcept (pre ++ h :: post) e) s = match run (h e) s1 with
      | (.ok (some v), s2) => (.ok v, s2)
      | (.ok none, s2) => run (dispatchExcept post e) s2
      | (.error e', s2) => (.error e', s2) := by
  induction hd with
  | nil s => simp [dispatch_cons]
  | cons hh _ ih => simp only [List.cons_append, dispatch_cons, hh, ih]

/-- **unhandled_propagates_unchanged**: an error that every clause declines leaves the statement as the
    very same error value (type, detail, data, position) -/
theorem unhandled_propagates_unchanged (hs : List Handler) (e : Sig) (s s1 : St) (hd : Decline e hs s s1) :
    run (dispatchExcept hs e) s = (.error e, s1) := by
  induction hd with
  | nil s => rfl
  | cons hh _ ih => simp only [dispatch_cons, hh, ih]

/-- the type test of a clause whose strings are plain values: it accepts exactly the listed types -/
theorem typedMatch_pure (ty : String) (toName : List Nat → String) (vals : List Val) (s : St) :
    run (typedMatch ty toName (vals.map pure)) s =
      (.ok (vals.any fun v => match v with | .str b => toName b == ty | _ => false), s) := by
  induction vals with
  | nil => rfl
  | cons v vs ih =>
    simp only [List.map_cons, typedMatch, run_bind, run_pure, List.any_cons]
    cases v <;> simp only [ih, Bool.false_or]
    case str b => by_cases hb : toName b == ty <;> simp [hb, ih]

/-- one unfolding of try without finally -/
theorem tryCore_eq (body : M Val) (hs : List Handler) (oth : Option (M Val)) (s : St) :
    run (tryCore body hs oth) s = match run body s with
      | (.ok v, s1) =>
        (match oth with
         | some o => (match run o s1 with
            | (.ok _, s2) => (.ok v, s2)
            | (.error e, s2) => (.error e, s2))
         | none => (.ok v, s1))
      | (.error e, s1) =>
        if e.isFatal || e.isControl then (.error e, s1) else run (dispatchExcept hs e) s1 := by
  simp only [tryCore, run_bind, run_attempt]
  rcases hb : run body s with ⟨r, s1⟩
  cases r with
  | error e => simp only [run_ite, run_throw]
  | ok v =>
    cases oth with
    | none => rfl
    | some o =>
      simp only [run_bind]
      rcases ho : run o s1 with ⟨ro, s2⟩
      cases ro <;> rfl

/-- **try_otherwise_iff_no_error** (⇐): the try block ended normally — `otherwise` runs, once, right after
    it; the value of the statement is the value of the try block -/
theorem try_otherwise_if_no_error (body o : M Val) (hs : List Handler) (s s1 : St) (v : Val)
    (hb : run body s = (.ok v, s1)) :
    run (tryCore body hs (some o)) s = match run o s1 with
      | (.ok _, s2) => (.ok v, s2)
      | (.error e, s2) => (.error e, s2) := by
  rw [tryCore_eq, hb]

/-- **try_otherwise_iff_no_error** (⇒): the try block raised anything — the statement behaves exactly as
    if it had no `otherwise` clause -/
theorem try_otherwise_only_if_no_error (body o : M Val) (hs : List Handler) (s s1 : St) (e : Sig)
    (hb : run body s = (.error e, s1)) :
    run (tryCore body hs (some o)) s = run (tryCore body hs none) s := by
  rw [tryCore_eq, tryCore_eq, hb]

/-- return / break / continue raised in the try block are not errors: no clause is consulted, the signal
    travels on unchanged -/
theorem try_control_passes (body : M Val) (hs : List Handler) (oth : Option (M Val)) (s s1 : St) (e : Sig)
    (hb : run body s = (.error e, s1)) (hc : e.isControl = true) :
    run (tryCore body hs oth) s = (.error e, s1) := by
  rw [tryCore_eq, hb]; simp [hc]

/-- an error (not a control signal) goes to the except clauses, in the state the try block left -/
theorem try_error_dispatched (body : M Val) (hs : List Handler) (oth : Option (M Val)) (s s1 : St) (e : Sig)
    (hb : run body s = (.error e, s1)) (hc : e.isControl = false) (hf : e.isFatal = false) :
    run (tryCore body hs oth) s = run (dispatchExcept hs e) s1 := by
  rw [tryCore_eq, hb]; simp [hc, hf]

/-- what is left of the outcome `r` of the statement after the finally block ended with `r2` -/
def afterFinally (r : Except Sig Val) (r2 : Except Sig Val × St) : Except Sig Val × St :=
  match r2 with
  | (.error e, s2) => if e.isFatal then (.error e, s2) else (r, s2)
  | (.ok _, s2) => (r, s2)

/-- **finally_exactly_once**: whatever the way out of try block / handler / otherwise — value, error,
    return, break, continue (`r` is any outcome but a process-level stop) — the finally block runs exactly
    once, after everything else of the statement, and the outcome `r` is kept (value and error of the
    finally block are dropped) -/
theorem finally_exactly_once (main fin : M Val) (s s1 : St) (r : Except Sig Val)
    (hm : run main s = (r, s1))
    (hr : ∀ w, r ≠ .error (.unsupported w)) (hr' : r ≠ .error .fuel) :
    run (tryFinally main (some fin)) s = afterFinally r (run fin s1) := by
  unfold Ecal.Ev.tryFinally
  simp only [run_bind, run_attempt, hm]
  have hskip : (match r with
      | .error Sig.fuel => true | .error (Sig.unsupported _) => true | _ => false) = false := by
    cases r with
    | ok _ => rfl
    | error e =>
      cases e <;> try rfl
      · exact absurd rfl hr'
      · exact absurd rfl (hr _)
  simp only [hskip, Bool.not_false, ite_true, run_bind, run_attempt, afterFinally]
  rcases hf : run fin s1 with ⟨r2, s2⟩
  cases r2 with
  | ok _ => cases r <;> rfl
  | error e2 =>
    simp only [run_ite, run_throw, run_pure]
    by_cases hfat : e2.isFatal = true
    · simp [hfat]
    · simp only [hfat]; cases r <;> rfl

/-- the five exit kinds: instances of `finally_exactly_once` -/
theorem finally_after_value (main fin : M Val) (s s1 : St) (v : Val) (hm : run main s = (.ok v, s1)) :
    run (tryFinally main (some fin)) s = afterFinally (.ok v) (run fin s1) :=
  finally_exactly_once main fin s s1 _ hm (by simp) (by simp)
theorem finally_after_error (main fin : M Val) (s s1 : St) (e : RtErr) (wd) (hm : run main s = (.error (.err e wd), s1)) :
    run (tryFinally main (some fin)) s = afterFinally (.error (.err e wd)) (run fin s1) :=
  finally_exactly_once main fin s s1 _ hm (by simp) (by simp)
theorem finally_after_return (main fin : M Val) (s s1 : St) (e : RtErr) (v : Val) (hm : run main s = (.error (.ret e v), s1)) :
    run (tryFinally main (some fin)) s = afterFinally (.error (.ret e v)) (run fin s1) :=
  finally_exactly_once main fin s s1 _ hm (by simp) (by simp)
theorem finally_after_break_continue (main fin : M Val) (s s1 : St) (e : Sig) (hm : run main s = (.error e, s1))
    (hc : e.isBreak = true ∨ e.isContinue = true) :
    run (tryFinally main (some fin)) s = afterFinally (.error e) (run fin s1) :=
  finally_exactly_once main fin s s1 _ hm
    (by intro w h; cases h; cases hc <;> simp_all [Sig.isBreak, Sig.isContinue])
    (by intro h; cases h; cases hc <;> simp_all [Sig.isBreak, Sig.isContinue])

/-- trace form: the marker trace of the statement is the trace up to the end of its main part followed by
    the trace of the finally block, once, last -/
theorem finally_trace_last (main fin : M Val) (s s1 : St) (r : Except Sig Val) (t : Array String)
    (hm : run main s = (r, s1)) (hr : ∀ w, r ≠ .error (.unsupported w)) (hr' : r ≠ .error .fuel)
    (hfin : (run fin s1).2.log = s1.log ++ t) :
    (run (tryFinally main (some fin)) s).2.log = s1.log ++ t := by
  rw [finally_exactly_once main fin s s1 r hm hr hr']
  rcases hf : run fin s1 with ⟨r2, s2⟩
  rw [hf] at hfin
  cases r2 with
  | ok _ => exact hfin
  | error e => simp only [afterFinally]; split <;> exact hfin

/-- without a finally clause nothing is added -/
theorem no_finally (main : M Val) (s : St) : run (tryFinally main none) s = run main s := by
  unfold Ecal.Ev.tryFinally
  simp only [run_bind, run_attempt, run_pure]
  rcases hm : run main s with ⟨r, s1⟩
  cases r <;> rfl

/-! ### functions and raise -/

/-- **return_innermost_function**: a return signal ends the function that is being called — the call
    yields the returned value; every other outcome of the body is the outcome of the call -/
theorem return_innermost_function (body : M Val) (s : St) :
    run (callCore body) s = match run body s with
      | (.ok v, s1) => (.ok v, s1)
      | (.error (.ret _ v), s1) => (.ok v, s1)
      | (.error e, s1) => (.error e, s1) := by
  simp only [callCore, run_bind, run_attempt]
  rcases hb : run body s with ⟨r, s1⟩
  cases r with
  | ok v => rfl
  | error e => cases e <;> rfl

/-- … and it never leaves the call: the caller does not see a return signal -/
theorem return_stops_at_call (body : M Val) (s s' : St) (e : RtErr) (v : Val) :
    run (callCore body) s ≠ (.error (.ret e v), s') := by
  rw [return_innermost_function]
  rcases hb : run body s with ⟨r, s1⟩
  cases r with
  | ok v => simp
  | error e => cases e <;> simp

/-- **raise_fields**: `raise(type, detail, data)` is an error (not a control signal) that carries exactly
    the given type, detail and data … -/
theorem raise_fields (ty : String) (detail : List Nat) (data : Val) (line : Nat) (pos : Int) :
    raiseSig ty detail data line pos = .err ⟨ty, line, pos⟩ (some (detail, data)) ∧
    (raiseSig ty detail data line pos).isControl = false ∧
    (raiseSig ty detail data line pos).isFatal = false := by
  refine ⟨rfl, ?_, rfl⟩
  simp [raiseSig, Sig.isControl, Sig.isBreak, Sig.isContinue]

/-- the entries of the error object of a raised error: `type`, `detail` and `data` are the arguments of
    `raise`; the other entries are values outside this model -/
def raisedObject (ty : String) (detail : List Nat) (data : Val) : List (Val × Val) :=
  [(.str (Ecal.Lex.str "type"), .str (Ecal.Lex.str ty)), (.str (Ecal.Lex.str "error"), .opaque "error text"),
   (.str (Ecal.Lex.str "detail"), .str detail), (.str (Ecal.Lex.str "pos"), .opaque "int"),
   (.str (Ecal.Lex.str "line"), .opaque "int"), (.str (Ecal.Lex.str "source"), .opaque "source name"),
   (.str (Ecal.Lex.str "trace"), .opaque "trace"), (.str (Ecal.Lex.str "data"), data)]

/-- … and the error object a handler receives for it (`as e`) is a new map with them under `type`,
    `detail`, `data` -/
theorem raise_fields_seen_by_handler (ty : String) (detail : List Nat) (data : Val) (line : Nat) (pos : Int) (s : St) :
    run (errObject (raiseSig ty detail data line pos)) s =
      (.ok (.map s.maps.size), { s with maps := s.maps.push (raisedObject ty detail data) }) := rfl

/-! ### range (the end test the evaluator runs on `Float`, here at `Int`) and map order -/

/-- **loop_range_inclusive**, positive step: a value at or after the start is delivered exactly when it
    is not beyond `to` — the end is inclusive (no assumption on the order of the bounds) -/
theorem loop_range_inclusive_pos (fr to step cur : Int) (hs : 0 < step) (hc : fr ≤ cur) :
    rangeDone intOps fr to step cur = false ↔ cur ≤ to := by
  simp only [rangeDone, intOps, Bool.or_eq_false_iff, Bool.and_eq_false_iff, decide_eq_false_iff_not,
    Bool.not_eq_false', beq_iff_eq, beq_eq_false_iff_ne, ne_eq, Int.not_lt]
  omega

/-- **loop_range_inclusive**, negative step: a value at or before the start is delivered exactly when it
    is not below `to` -/
theorem loop_range_inclusive_neg (fr to step cur : Int) (hs : step < 0) (hc : cur ≤ fr) :
    rangeDone intOps fr to step cur = false ↔ to ≤ cur := by
  simp only [rangeDone, intOps, Bool.or_eq_false_iff, Bool.and_eq_false_iff, decide_eq_false_iff_not,
    Bool.not_eq_false', beq_iff_eq, beq_eq_false_iff_ne, ne_eq, Int.not_lt]
  omega

/-- **loop_range_inclusive**, equal bounds: `range(a, a, step)` delivers `a` and nothing else, whatever the step -/
theorem loop_range_equal_bounds (a step c : Int) :
    rangeDone intOps a a step a = false ∧ (c ≠ a → rangeDone intOps a a step c = true) := by
  constructor
  · simp [rangeDone, intOps]
  · intro h; simp [rangeDone, intOps, h]

/-- **loop_range_wrong_direction_empty**: a step that points away from the end — positive with
    `to < from`, negative with `from < to` — gives a range without elements: zero iterations, for all
    bounds and every number of allowed steps -/
theorem loop_range_wrong_direction_empty (fr to step : Int) (n : Nat)
    (h : (0 < step ∧ to < fr) ∨ (step < 0 ∧ fr < to)) :
    rangeVals intOps fr to step n fr = [] := by
  cases n with
  | zero => rfl
  | succ n =>
    have hd : rangeDone intOps fr to step fr = true := by
      simp only [rangeDone, intOps, Bool.or_eq_true, Bool.and_eq_true, decide_eq_true_eq, Bool.not_eq_true',
        beq_iff_eq, beq_eq_false_iff_ne, ne_eq]
      omega
    simp [rangeVals, hd]

/-- closed form, positive step: the delivered values are exactly `cur, cur+step, cur+2·step, …` as long
    as they are within the inclusive end (from any position `cur` at or after the start) -/
theorem loop_range_values_pos (fr to step : Int) (hs : 0 < step) (n : Nat) (cur : Int) (hc : fr ≤ cur) :
    rangeVals intOps fr to step n cur =
      ((List.range n).map fun (i : Nat) => cur + (i : Int) * step).takeWhile (fun x => decide (x ≤ to)) := by
  induction n generalizing cur with
  | zero => rfl
  | succ n ih =>
    rw [List.range_succ_eq_map, rangeVals]
    simp only [List.map_cons, List.map_map, Int.natCast_zero, Int.zero_mul, Int.add_zero, List.takeWhile_cons]
    by_cases hle : cur ≤ to
    · have hd := (loop_range_inclusive_pos fr to step cur hs hc).2 hle
      simp only [hd, Bool.false_eq_true, ↓reduceIte, hle, decide_true]
      have hadd : intOps.add cur step = cur + step := rfl
      rw [hadd, ih (cur + step) (by omega)]
      congr 2
      apply List.map_congr_left
      intro i _
      simp only [Function.comp, Int.natCast_succ, Int.add_mul, Int.one_mul]
      omega
    · have hd : rangeDone intOps fr to step cur = true := by
        cases h : rangeDone intOps fr to step cur
        · exact absurd ((loop_range_inclusive_pos fr to step cur hs hc).1 h) hle
        · rfl
      simp [hd, hle]

/-- closed form, negative step: `cur, cur+step, …` as long as they are not below the inclusive end -/
theorem loop_range_values_neg (fr to step : Int) (hs : step < 0) (n : Nat) (cur : Int) (hc : cur ≤ fr) :
    rangeVals intOps fr to step n cur =
      ((List.range n).map fun (i : Nat) => cur + (i : Int) * step).takeWhile (fun x => decide (to ≤ x)) := by
  induction n generalizing cur with
  | zero => rfl
  | succ n ih =>
    rw [List.range_succ_eq_map, rangeVals]
    simp only [List.map_cons, List.map_map, Int.natCast_zero, Int.zero_mul, Int.add_zero, List.takeWhile_cons]
    by_cases hle : to ≤ cur
    · have hd := (loop_range_inclusive_neg fr to step cur hs hc).2 hle
      simp only [hd, Bool.false_eq_true, ↓reduceIte, hle, decide_true]
      have hadd : intOps.add cur step = cur + step := rfl
      rw [hadd, ih (cur + step) (by omega)]
      congr 2
      apply List.map_congr_left
      intro i _
      simp only [Function.comp, Int.natCast_succ, Int.add_mul, Int.one_mul]
      omega
    · have hd : rangeDone intOps fr to step cur = true := by
        cases h : rangeDone intOps fr to step cur
        · exact absurd ((loop_range_inclusive_neg fr to step cur hs hc).1 h) hle
        · rfl
      simp [hd, hle]

example : rangeVals intOps 1 3 1 10 1 = [1, 2, 3] := by decide
example : rangeVals intOps 5 1 (-2) 10 5 = [5, 3, 1] := by decide
example : rangeVals intOps 3 3 1 10 3 = [3] := by decide
example : rangeVals intOps 1 0 1 10 1 = [] := loop_range_wrong_direction_empty 1 0 1 10 (.inl ⟨by decide, by decide⟩)
example : rangeVals intOps 0 10 (-1) 10 0 = [] := by decide

theorem insertBy_perm {α : Type} (lt : α → α → Bool) (x : α) (ys : List α) : (insertBy lt x ys).Perm (x :: ys) := by
  induction ys with
  | nil => exact List.Perm.refl _
  | cons y ys ih =>
    simp only [insertBy]
    split
    · exact List.Perm.refl _
    · exact (List.Perm.cons y ih).trans (List.Perm.swap x y ys)

/-- **loop_map_sorted**: the key order of a map loop is a permutation of the keys … -/
theorem sortBy_perm {α : Type} (lt : α → α → Bool) (xs : List α) : (sortBy lt xs).Perm xs := by
  induction xs with
  | nil => exact List.Perm.refl _
  | cons x xs ih => exact (insertBy_perm lt x _).trans (List.Perm.cons x ih)

/-- … in ascending order of `lt` (no element is smaller than one before it), for every order `lt` that is
    asymmetric and whose "not greater" is transitive — as the byte order of the keys' string forms is -/
theorem sortBy_sorted {α : Type} (lt : α → α → Bool)
    (asym : ∀ a b, lt a b = true → lt b a = false)
    (trans : ∀ a b c, lt b a = false → lt c b = false → lt c a = false) (xs : List α) :
    (sortBy lt xs).Pairwise (fun a b => lt b a = false) := by
  have hins : ∀ (x : α) (ys : List α), ys.Pairwise (fun a b => lt b a = false) →
      (insertBy lt x ys).Pairwise (fun a b => lt b a = false) := by
    intro x ys
    induction ys with
    | nil => intro _; simp [insertBy]
    | cons y ys ih =>
      intro hp
      rw [List.pairwise_cons] at hp
      simp only [insertBy]
      split
      · rename_i hxy
        refine List.pairwise_cons.2 ⟨?_, List.pairwise_cons.2 hp⟩
        intro z hz
        rcases List.mem_cons.1 hz with rfl | hz
        · exact asym _ _ hxy
        · exact trans _ _ _ (asym _ _ hxy) (hp.1 z hz)
      · rename_i hxy
        refine List.pairwise_cons.2 ⟨?_, ih hp.2⟩
        intro z hz
        have hm : z ∈ x :: ys := (insertBy_perm lt x ys).mem_iff.1 hz
        rcases List.mem_cons.1 hm with rfl | hz'
        · simpa using hxy
        · exact hp.1 z hz'
  induction xs with
  | nil => exact List.Pairwise.nil
  | cons x xs ih => exact hins x _ ih

end Ecal.Props.C04
