import Ecal.Lemmas.ExprFuel
import Ecal.Lemmas.C03Aux
import Ecal.Lemmas.C03NumberBlock
import Ecal.Lemmas.C03FirstNumber
import Ecal.Lemmas.ExprTotal
import Ecal.Lemmas.ExprSound
import Ecal.Gen.C03
import Ecal.Model.ExprLex
import Ecal.Props.C18
/-!
# C03 — expressions evaluate per the documented operator semantics and precedence

Model: `Ecal/Model/Expr.lean`. `T` below is the table regenerated from
`/repo/parser/parser.go` (`Ecal/Gen/C03.lean`) on every run; every fact about it is
re-checked by `decide`.

Precedence: `pratt_print`, `pratt_print_redundant`, the converse `parse_sound`, `layout_irrelevant_partial` and the
corollaries `left_assoc`, `tighter_first`, `prefix_sign_tightest`,
`not_takes_comparison`. Semantics: `eval_eq_quirk_spec`, `eval_refines_spec_partial`, `wrong_kind_*`.
-/
namespace Ecal.Props.C03
open Ecal.Expr Ecal.Expr.Spec

/-! ## Obligations on the generated table (re-checked on every run) -/

/-- multiplicative > additive > comparison/membership > and > or > assignment -/
theorem table_order :
    (∀ m ∈ [BinOp.times, .div, .divint, .modint], ∀ a ∈ [BinOp.plus, .minus], bp T a < bp T m) ∧
    (∀ a ∈ [BinOp.plus, .minus],
      ∀ c ∈ [BinOp.geq, .leq, .neq, .eq, .gt, .lt, .like, .isin, .hasprefix, .hassuffix, .notin], bp T c < bp T a) ∧
    (∀ c ∈ [BinOp.geq, .leq, .neq, .eq, .gt, .lt, .like, .isin, .hasprefix, .hassuffix, .notin], bp T .and < bp T c) ∧
    bp T .or < bp T .and ∧ bp T .assign < bp T .or ∧ 0 < bp T .assign := by decide

/-- operators of one documented level have one binding power -/
theorem table_levels : ∀ a ∈ BinOp.all, ∀ b ∈ BinOp.all, (lvl a = lvl b ↔ bp T a = bp T b) := by decide

/-- prefix `-`/`+` parse their operand tighter than every binary operator binds -/
theorem table_prefix_tightest : ∀ o ∈ BinOp.all, bp T o < pbp T .neg ∧ bp T o < pbp T .pos := by decide

/-- `not` sits between `and` and the comparisons: its operand takes every comparison,
    membership and arithmetic operator, but neither `and` nor `or` nor `:=` -/
theorem table_not_between : ∀ o ∈ BinOp.all, (pbp T .not < bp T o ↔ lvl .and < lvl o) := by decide

/-- every token of the fragment has the expected denotations and closing tokens bind 0 -/
theorem table_denotations :
    T.nud .num = .term ∧ T.nud .str = .term ∧ T.nud .tru = .term ∧ T.nud .fls = .term ∧
    T.nud .null = .term ∧ T.nud .ident = .ident ∧ T.nud .lp = .inner ∧ T.nud .lb = .list ∧
    (∀ p ∈ PreOp.all, T.nud (preKind p) = .pre) ∧ T.led .not = .none ∧
    (∀ o ∈ BinOp.all, T.led (.op o) = .infix) ∧
    (∀ o ∈ BinOp.all, o ≠ .plus → o ≠ .minus → T.nud (.op o) = .none) ∧
    (∀ k ∈ [Kind.num, .str, .ident, .tru, .fls, .null, .rp, .rb, .comma, .eof], T.binding k = 0 ∧ T.led k = .none) ∧
    T.led .lp = .none ∧ T.led .lb = .none ∧
    T.infixExtra = 0 ∧ T.infixSub = 0 ∧ T.innerBinding = 0 ∧ T.listBinding = 0 := by decide

/-- every operator token is tied to its own node kind (the map node kind → runtime constructor,
    `providerMap`, is not extracted: that step is covered by the value comparison only) -/
theorem table_nodes :
    BinOp.all.map (fun o => T.node (.op o)) =
      ["NodeGEQ", "NodeLEQ", "NodeNEQ", "NodeEQ", "NodeGT", "NodeLT", "NodePLUS", "NodeMINUS", "NodeTIMES",
       "NodeDIV", "NodeDIVINT", "NodeMODINT", "NodeAND", "NodeOR", "NodeLIKE", "NodeIN", "NodeHASPREFIX",
       "NodeHASSUFFIX", "NodeNOTIN", "NodeASSIGN"] ∧
    [Kind.not, .num, .str, .ident, .tru, .fls, .null].map T.node =
      ["NodeNOT", "NodeNUMBER", "NodeSTRING", "NodeIDENTIFIER", "NodeTRUE", "NodeFALSE", "NodeNULL"] := by decide

/-- the generated table meets everything the parsing proof needs: the documented grammar
    (`Spec.fitsBin`, `Spec.fitsPre`) and the binding powers agree on EVERY pair -/
theorem table_compat : Compat T where
  bin := fun mc o => table_fits_bin mc (MCtx.mem_all mc) o (BinOp.mem_all o)
  pre := fun fc p => table_fits_pre fc (FCtx.mem_all fc) p (PreOp.mem_all p)
  pos := fun o => by
    have h : ∀ o ∈ BinOp.all, 0 < bp T o := by decide
    exact h o (BinOp.mem_all o)
  rp0 := by decide
  rb0 := by decide
  comma0 := by decide
  atom0 := fun a => by cases a <;> simp only [Atom.kind] <;> decide
  lpHigh := fun o => (table_open_high o (BinOp.mem_all o)).1
  lbHigh := fun o => (table_open_high o (BinOp.mem_all o)).2
  nudNum := by decide
  nudStr := by decide
  nudIdent := by decide
  nudTru := by decide
  nudFls := by decide
  nudNull := by decide
  nudLp := by decide
  nudLb := by decide
  nudPre := fun p => table_denotations.2.2.2.2.2.2.2.2.1 p (PreOp.mem_all p)
  ledOp := fun o => table_denotations.2.2.2.2.2.2.2.2.2.2.1 o (BinOp.mem_all o)
  infix0 := by decide
  infixSub0 := by decide
  inner0 := by decide
  list0 := by decide

/-! ## Precedence -/

/-- the tokens of a program: the given lexer tokens and the EOF token -/
def program (ts : List LTok) (eofLine : Nat) : List LTok := ts ++ [LTok.mk .eof eofLine]

/-- C03 (precedence, all trees): for every expression tree `e` of any depth, the real
    binding table makes the Pratt loop read the minimally parenthesised print of `e`
    (per the documented grammar) back as `e` — on whatever lines the tokens stand. -/
theorem pratt_print (e : Expr) (ts : List LTok) (eofLine : Nat)
    (h : ts.map (·.tk) = pr e .top .none) : Impl.parse T (program ts eofLine) = .ok e :=
  parse_prints table_compat (by decide) (pr_prints e .top .none) ts eofLine h

/-- C03 (redundant parentheses): the same for every way of writing `e` with at least the
    needed parentheses and any number of further ones around any sub-expression. -/
theorem pratt_print_redundant (e : Expr) (ks : List TK) (hp : Prints e .top .none ks)
    (ts : List LTok) (eofLine : Nat) (h : ts.map (·.tk) = ks) :
    Impl.parse T (program ts eofLine) = .ok e :=
  parse_prints table_compat (by decide) hp ts eofLine h

/-- C03 (comma-less lists, forward direction): a list literal whose elements are literals or
    identifiers written WITHOUT commas (`[1 2]`, `[a "x" true null]`) parses — on whatever lines
    its tokens stand — to the list of these elements. More generally `Spec.PrintsItems.juxt` admits
    a missing comma before every element that starts with a literal or an identifier, and
    `pratt_print_redundant` / `parse_then_eval` / `prints_unambiguous` hold for all such writings.
    (Before `(`, `[`, `not` the parser accepts a missing comma only after a line end; before
    `-`/`+` it reads one element: those are not admitted, see `parse_sound` for the converse.) -/
theorem commaless_atom_list_parses (as : List Atom) (ts : List LTok) (eofLine : Nat)
    (h : ts.map (·.tk) = .lb :: (as.map TK.atom ++ [.rb])) :
    Impl.parse T (program ts eofLine) = .ok (.list (atomItems as)) :=
  pratt_print_redundant _ _ (Prints.list (atomItems_prints as)) ts eofLine h

/- Full statement (not provable in this file, which starts from tokens):
     for source texts s1 s2 that differ only in blanks / tabs / newlines between tokens and are one
     statement each, `Impl.parse (lex s1) = Impl.parse (lex s2)`.
   Proved below: the part after the lexer — the parse does not depend on the line numbers of the
   tokens. Missing: that the real lexer yields the same token texts for s1 and s2 (lexer model,
   owned by C18/C08); this part is covered by the differential run only (random layouts, tokens
   taken from the real lexer). -/
/-- C03 (layout, the part after the lexer): two token lists that write the same admissible
    print — same tokens, ANY line numbers — give the same tree. -/
theorem layout_irrelevant_partial (e : Expr) (ks : List TK) (hp : Prints e .top .none ks)
    (ts1 ts2 : List LTok) (l1 l2 : Nat) (h1 : ts1.map (·.tk) = ks) (h2 : ts2.map (·.tk) = ks) :
    Impl.parse T (program ts1 l1) = Impl.parse T (program ts2 l2) := by
  rw [pratt_print_redundant e ks hp ts1 l1 h1, pratt_print_redundant e ks hp ts2 l2 h2]

/-- C03 (model adequacy): on EVERY token list — well formed or not — the fuel of the
    executable parser suffices; fuel is only a device for structural recursion. -/
theorem parse_fuel_suffices (ts : List LTok) : Impl.parse T ts ≠ .error .fuel :=
  parse_never_out_of_fuel T ts

/-- C03 (the driver runs the function the theorems are about): the driver parses with
    `Impl.parseProgram` (programs of several expression statements); on every token list for which
    `Impl.parse` returns a tree it returns exactly that one statement, and whenever it returns a
    single statement `Impl.parse` returns it — so `pratt_print`, `parse_sound`, … speak about what the
    correspondence run compares. -/
theorem parseProgram_single (ts : List LTok) (e : Expr) (n : Nat) :
    Impl.parse T ts = .ok e ↔ Impl.parseProgram T (n + 1) ts = .ok [e] := by
  simp only [Impl.parse, Impl.parseFuel, Impl.parseProgram]
  cases hr : Impl.run T (2 * ts.length + 4) 0 ts with
  | error x => simp
  | ok res =>
    obtain ⟨e', ln, rest⟩ := res
    cases rest with
    | nil => simp
    | cons t rest' =>
      simp only
      by_cases heof : t.tk = .eof
      · simp [heof]
      · simp only [heof, if_false]
        by_cases hl : ln < t.line
        · simp only [hl, if_true]
          constructor
          · intro h; cases h
          · intro h
            cases hp : Impl.parseProgram T n (t :: rest') with
            | error x => rw [hp] at h; cases h
            | ok es =>
              rw [hp] at h
              simp only [Except.ok.injEq, List.cons.injEq] at h
              obtain ⟨_, rfl⟩ := h
              -- a further statement was parsed: impossible, `parseProgram` never returns the empty list
              exfalso
              cases n with
              | zero => simp [Impl.parseProgram] at hp
              | succ m =>
                simp only [Impl.parseProgram] at hp
                split at hp
                · split at hp
                  · cases hp
                  · split at hp
                    · cases hp
                    · split at hp
                      · split at hp <;> cases hp
                      · cases hp
                · cases hp
        · simp [hl]

/-- C03 (converse — the parser accepts nothing but the documented grammar): whenever the parser
    with the real table returns a tree for a token list (on whatever lines), the tokens before
    the EOF token are a writing of THAT tree per the documented precedence grammar — needed
    parentheses present, any further ones allowed; the only liberty beyond `Prints` is that the
    elements of a list literal need no commas (`PrintsW`). Scope: token lists of the fragment's
    alphabet (every other token is refused by the driver before parsing). With
    `pratt_print_redundant` and `prints_unambiguous` the parser is the grammar on comma-separated
    lists; comma-less writings are excepted: they are ambiguous as writings (`[1 -2]` writes
    `[1-2]` and, per `PrintsW.juxt`, `[1, -2]`), the parser picks the first, and which one it
    accepts at all depends on the lines (not captured by `PrintsW`). -/
theorem parse_sound (ts : List LTok) (e : Expr) (h : Impl.parse T ts = .ok e) :
    ∃ ks rest, ts.map (·.tk) = ks ++ (.eof :: rest) ∧ PrintsW e .top .none ks :=
  parse_sound_gen table_compat ts e h

/-- C03 (the documented grammar is unambiguous): a token sequence is an admissible writing
    of at most one tree — a consequence of the parser reading every writing back. -/
theorem prints_unambiguous (e1 e2 : Expr) (ks : List TK) (h1 : Prints e1 .top .none ks)
    (h2 : Prints e2 .top .none ks) : e1 = e2 := by
  have a := pratt_print_redundant e1 ks h1 (ks.map (LTok.mk · 1)) 1 (by simp [Function.comp_def])
  have b := pratt_print_redundant e2 ks h2 (ks.map (LTok.mk · 1)) 1 (by simp [Function.comp_def])
  rw [a] at b
  exact Except.ok.inj b

/-- C03 (left associativity and equal levels): `a o1 b o2 c` with operators of one level
    is `(a o1 b) o2 c` — for arbitrary operand trees written with their own minimal
    parentheses. -/
theorem left_assoc (o1 o2 : BinOp) (t1 t2 : Str) (a b c : Expr) (h : lvl o1 = lvl o2) :
    Impl.parse T (program (line1 (pr a (.leftOf o1) (.before o1) ++ (.op o1 t1 :: pr b (.rightOf o1) (.before o2))
        ++ (.op o2 t2 :: pr c (.rightOf o2) .none))) 1)
      = .ok (.bin o2 t2 (.bin o1 t1 a b) c) := by
  apply pratt_print
  rw [line1_map]
  simp [pr, fitsBin, h]

/-- C03 (precedence between levels): in `a o1 b o2 c` the operator of the higher level
    takes `b`: `a o1 (b o2 c)` when `o2` binds tighter. -/
theorem tighter_first (o1 o2 : BinOp) (t1 t2 : Str) (a b c : Expr) (h : lvl o1 < lvl o2) :
    Impl.parse T (program (line1 (pr a (.leftOf o1) (.before o1) ++ (.op o1 t1 :: (pr b (.leftOf o2) (.before o2)
        ++ (.op o2 t2 :: pr c (.rightOf o2) .none))))) 1)
      = .ok (.bin o1 t1 a (.bin o2 t2 b c)) := by
  apply pratt_print
  rw [line1_map]
  simp [pr, fitsBin, h]

/-- C03 (prefix sign): `- a o b` is `(-a) o b` for every binary operator `o` and arbitrary
    operand trees (`a` written as an operand of the sign, `b` as a right operand of `o`). -/
theorem prefix_sign_tightest (o : BinOp) (t1 t2 : Str) (a b : Expr) :
    Impl.parse T (program (line1 (.op .minus t1 :: (pr a (.operandOf .neg) (.before o) ++
        (.op o t2 :: pr b (.rightOf o) .none)))) 1)
      = .ok (.bin o t2 (.pre .neg t1 a) b) := by
  apply pratt_print
  rw [line1_map]
  cases o <;> simp [pr, fitsBin, fitsPre, lvl, plvl, preTok]

/-- C03 (`not` takes the comparison): `not a o b` is `not (a o b)` for a comparison,
    membership or arithmetic operator `o`, for arbitrary operand trees. -/
theorem not_takes_comparison (o : BinOp) (t1 t2 : Str) (a b : Expr) (h : lvl .and < lvl o) :
    Impl.parse T (program (line1 (.not t1 :: (pr a (.leftOf o) (.before o) ++ (.op o t2 :: pr b (.rightOf o) .none)))) 1)
      = .ok (.pre .not t1 (.bin o t2 a b)) := by
  apply pratt_print
  rw [line1_map]
  cases o <;> simp [lvl] at h <;> simp [pr, fitsBin, fitsPre, lvl, plvl, preTok]

/-- C03 (`not` leaves and/or): `not a o b` is `(not a) o b` for `and`, `or` (and `:=`). -/
theorem not_leaves_logic (o : BinOp) (t1 t2 : Str) (a b : Expr) (h : lvl o ≤ lvl .and) :
    Impl.parse T (program (line1 (.not t1 :: (pr a (.operandOf .not) (.before o) ++ (.op o t2 :: pr b (.rightOf o) .none)))) 1)
      = .ok (.bin o t2 (.pre .not t1 a) b) := by
  apply pratt_print
  rw [line1_map]
  cases o <;> simp [lvl] at h <;> simp [pr, fitsBin, fitsPre, lvl, plvl, preTok]

/-! ### non-vacuity and negative witnesses (tests, not proofs of the property) -/

def n1 : Atom := .num [49] 0x3ff0000000000000
def n2 : Atom := .num [50] 0x4000000000000000
def n3 : Atom := .num [51] 0x4008000000000000
def tPlus : Str := [43]
def tTimes : Str := [42]
def tMinus : Str := [45]

/-- `1 + 2 * 3` : the hypothesis of `pratt_print` is satisfiable, and the tree is the expected one -/
example : pr (.bin .plus tPlus (.atom n1) (.bin .times tTimes (.atom n2) (.atom n3))) .top .none
    = [.atom n1, .op .plus tPlus, .atom n2, .op .times tTimes, .atom n3] := by decide

example : Impl.parse T (program (line1 [.atom n1, .op .plus tPlus, .atom n2, .op .times tTimes, .atom n3]) 1)
    = .ok (.bin .plus tPlus (.atom n1) (.bin .times tTimes (.atom n2) (.atom n3))) := by rfl

/-- non-vacuity of `parseProgram_single`: `1 + 2 * 3` is one statement for both -/
example : Impl.parseProgram T 7 (program (line1 [.atom n1, .op .plus tPlus, .atom n2, .op .times tTimes, .atom n3]) 1)
    = .ok [.bin .plus tPlus (.atom n1) (.bin .times tTimes (.atom n2) (.atom n3))] := by rfl

/-- non-vacuity of `commaless_atom_list_parses`: `[1 2 3]` with the tokens on three different lines -/
example : Impl.parse T (program [⟨.lb, 1⟩, ⟨.atom n1, 1⟩, ⟨.atom n2, 2⟩, ⟨.atom n3, 3⟩, ⟨.rb, 3⟩] 4)
    = .ok (.list (atomItems [n1, n2, n3])) := commaless_atom_list_parses [n1, n2, n3] _ 4 rfl

/-- `(1 + 2) * 3` needs its brackets; `1 - (2 - 3)` too (left associativity) -/
example : pr (.bin .times tTimes (.bin .plus tPlus (.atom n1) (.atom n2)) (.atom n3)) .top .none
    = [.lp, .atom n1, .op .plus tPlus, .atom n2, .rp, .op .times tTimes, .atom n3] := by decide

example : pr (.bin .minus tMinus (.atom n1) (.bin .minus tMinus (.atom n2) (.atom n3))) .top .none
    = [.atom n1, .op .minus tMinus, .lp, .atom n2, .op .minus tMinus, .atom n3, .rp] := by decide

/-- the same tokens spread over three lines -/
example : Impl.parse T [⟨.atom n1, 1⟩, ⟨.op .plus tPlus, 2⟩, ⟨.atom n2, 2⟩, ⟨.op .times tTimes, 3⟩, ⟨.atom n3, 3⟩, ⟨.eof, 3⟩]
    = .ok (.bin .plus tPlus (.atom n1) (.bin .times tTimes (.atom n2) (.atom n3))) := by rfl

/-- the line rule is live: `1 (2)` on one line is an error, with `(2)` on the next line the
    expression ends after `1` (a second statement follows — outside the fragment) -/
example : Impl.parse T [⟨.atom n1, 1⟩, ⟨.lp, 1⟩, ⟨.atom n2, 1⟩, ⟨.rp, 1⟩, ⟨.eof, 1⟩] = .error .noLed := by rfl
example : Impl.parse T [⟨.atom n1, 1⟩, ⟨.lp, 2⟩, ⟨.atom n2, 2⟩, ⟨.rp, 2⟩, ⟨.eof, 2⟩] = .error .unsupported := by rfl

/-- `[1 2]` (no comma) is accepted: the hypothesis of `parse_sound` is satisfiable outside `Prints` -/
example : Impl.parse T [⟨.lb, 1⟩, ⟨.atom n1, 1⟩, ⟨.atom n2, 1⟩, ⟨.rb, 1⟩, ⟨.eof, 1⟩]
    = .ok (.list (.cons (.atom n1) (.cons (.atom n2) .nil))) := by rfl

/-- redundant brackets: `((1)) + (2 * 3)` is an admissible writing of `1 + 2 * 3` -/
example : Prints (.bin .plus tPlus (.atom n1) (.bin .times tTimes (.atom n2) (.atom n3))) .top .none
    ([.lp, .lp, .atom n1, .rp, .rp] ++ (.op .plus tPlus :: [.lp, .atom n2, .op .times tTimes, .atom n3, .rp])) :=
  Prints.bin rfl (Prints.paren (ts := [.lp, .atom n1, .rp]) (Prints.paren (ts := [.atom n1]) Prints.atom))
    (Prints.paren (ts := [.atom n2] ++ (.op .times tTimes :: [.atom n3])) (Prints.bin rfl Prints.atom Prints.atom))

/-! ## Semantics -/

section Sem
variable {N : Type} (G : Cfg N)

/-- evaluation as the interpreter does it = the reference semantics, except for the node an
    error about the right operand of and/or/in/notin is attached to (`Out.quirk`) — for trees
    whose `%` operands stay inside the int64 range -/
theorem eval_eq_quirk_spec (e : Expr) (h : Spec.modInRange G e = true) : Impl.eval G e = (Spec.eval G e).quirk :=
  eval_eq_quirk_spec_aux G e h

/- Full statement (FALSE for the code as it is — two known findings):
     `hasAssign e = false → Impl.eval G e = Spec.eval G e`.
   It fails (1) where `Out.quirk` is not the identity: `true and 5`, `1 in 5` attach the error
   naming operand 1 to child 0 (`error-node-left-operand`, pinned by TestOperatorRuntimeErrors);
   (2) where `%` gets an operand outside the int64 range: `1e+308 % 3`, `(1/0) % 2`
   (`mod-out-of-int64-range`: the result is the platform's float→int64 conversion's).
   Proved: for trees whose `%` operands stay in range, equality of value / error kind / named
   operand (`eval_refines_spec_partial`) and the exact equation with deviation (1) spelled out
   (`eval_eq_quirk_spec`). -/
/-- C03 (semantics): for every tree without assignment whose `%` operands stay inside the int64
    range, every environment, numeric carrier and regular-expression oracle, evaluation as the
    interpreter does it (helper functions, evaluation order, comparison falling back to text on
    ANY error of the numeric attempt, both operands of and/or evaluated) yields the value, or the
    error kind and the named operand, of the per-operator reference semantics. (The reference was
    written from the language reference AND the code; arithmetic is the abstract carrier's.) -/
theorem eval_refines_spec_partial (e : Expr) (_h : hasAssign e = false) (hm : Spec.modInRange G e = true) :
    (Impl.eval G e).core = (Spec.eval G e).core := by
  rw [eval_eq_quirk_spec G e hm, core_quirk]

/-- … and values are exactly the reference's values -/
theorem eval_value_iff (e : Expr) (_h : hasAssign e = false) (hm : Spec.modInRange G e = true) (v : Val N) :
    Impl.eval G e = .val v ↔ Spec.eval G e = .val v := by
  rw [eval_eq_quirk_spec G e hm]
  constructor
  · exact quirk_val _ v
  · intro h; rw [h]; rfl

/-- C03 (the error names an offending operand): whenever evaluation as the interpreter does it
    ends in an error, that error is one of the ADMISSIBLE errors of the tree (`Spec.errSet`): the
    propagated error of an operand that fails, a kind error naming an operand that evaluated to a
    value of the wrong kind for its operator (attached to it — or, for the right operand of
    and/or/in/notin, to child 0: the known finding), or the operator's own runtime error (`%` by
    zero, invalid pattern). Which of several offending operands is reported is NOT fixed by the
    property; the correspondence accepts any member of this set. -/
theorem impl_error_admissible (e : Expr) (hm : Spec.modInRange G e = true) (k : ErrKind) (s : Str) (p : Option Nat)
    (h : Impl.eval G e = .err k s p) : (k, s, p) ∈ Spec.errSet G e := by
  rw [eval_eq_quirk_spec G e hm] at h
  cases hs : Spec.eval G e with
  | val v => rw [hs] at h; simp [Out.quirk] at h
  | err k' s' p' =>
    rw [hs] at h
    simp only [Out.quirk, Out.err.injEq] at h
    obtain ⟨rfl, rfl, rfl⟩ := h
    exact (spec_err_mem G e _ _ _ hs).2

/-- one level: an operator on operands without admissible errors whose meaning is a value has no
    admissible error -/
theorem errSet_bin_value (o : BinOp) (t : Str) (l r : Expr) (v1 v2 v : Val N)
    (h1 : Spec.eval G l = .val v1) (h2 : Spec.eval G r = .val v2) (hl : Spec.errSet G l = []) (hr : Spec.errSet G r = [])
    (hv : Spec.binSem G o (opName l) (opName r) v1 v2 = .val v) : Spec.errSet G (.bin o t l r) = [] := by
  simp only [Spec.errSet, hl, hr, h1, h2, List.nil_append]
  cases o <;> cases v1 <;> cases v2 <;>
    simp_all [Spec.binSem, Spec.arith, Spec.logic, Spec.member, Spec.compare, ownLeft, ownRight, ownBoth] <;>
    (try (split at hv)) <;> (try (split at hv)) <;> (try split) <;> (try split) <;> simp_all

mutual
/-- C03 (the admissible set blesses no error where there must be a value): for EVERY tree whose
    reference evaluation yields a value the set of admissible errors is empty — so with
    `SPEC["equal"]` accepting any member of `Spec.errSet`, an error is never accepted for an
    expression that has a value (and, by `impl_error_admissible`, never rejected when it is about an
    offending operand). -/
theorem value_has_no_admissible_error : ∀ (e : Expr) (v : Val N), Spec.eval G e = .val v → Spec.errSet G e = []
  | .atom a, _, _ => by simp [Spec.errSet]
  | .list its, v, h => by
    simp only [Spec.eval] at h
    simp only [Spec.errSet]
    cases hi : Spec.evalItems G its with
    | ok vs => exact items_have_no_admissible_error its vs hi
    | error x => obtain ⟨k, s, p⟩ := x; rw [hi] at h; cases h
  | .bin o t l r, v, h => by
    simp only [Spec.eval] at h
    cases hl : Spec.eval G l with
    | err k s p => rw [hl] at h; cases h
    | val v1 =>
      rw [hl] at h
      cases hr : Spec.eval G r with
      | err k s p => rw [hr] at h; cases h
      | val v2 =>
        rw [hr] at h
        exact errSet_bin_value G o t l r v1 v2 v hl hr (value_has_no_admissible_error l v1 hl)
          (value_has_no_admissible_error r v2 hr) h
  | .pre q t x, v, h => by
    simp only [Spec.eval] at h
    simp only [Spec.errSet]
    cases hx : Spec.eval G x with
    | err k s p => rw [hx] at h; cases h
    | val vx =>
      rw [hx] at h
      simp [value_has_no_admissible_error x vx hx, h]
theorem items_have_no_admissible_error : ∀ (its : Items) (vs : Vals N), Spec.evalItems G its = .ok vs →
    Spec.errSetItems G its = []
  | .nil, _, _ => by simp [Spec.errSetItems]
  | .cons e rest, vs, h => by
    simp only [Spec.evalItems] at h
    simp only [Spec.errSetItems]
    cases he : Spec.eval G e with
    | err k s p => rw [he] at h; cases h
    | val v =>
      rw [he] at h
      cases hr : Spec.evalItems G rest with
      | error x => rw [hr] at h; cases h
      | ok vs' =>
        simp [value_has_no_admissible_error e v he, items_have_no_admissible_error rest vs' hr]
end

/-- C03 (exactly the failing trees have admissible errors): the admissible set is empty if and
    only if the reference evaluation yields a value. -/
theorem errSet_empty_iff_value (e : Expr) : Spec.errSet G e = [] ↔ ∃ v, Spec.eval G e = .val v := by
  constructor
  · intro h
    cases hs : Spec.eval G e with
    | val v => exact ⟨v, rfl⟩
    | err k s p =>
      have := (spec_err_mem G e k s p hs).1
      rw [h] at this
      cases this
  · rintro ⟨v, hv⟩
    exact value_has_no_admissible_error G e v hv

def BinOp.arith : BinOp → Bool
  | .plus | .minus | .times | .div | .divint | .modint => true
  | _ => false

def BinOp.logic : BinOp → Bool
  | .and | .or => true
  | _ => false

def BinOp.member : BinOp → Bool
  | .isin | .notin => true
  | _ => false

def Val.isNum : Val N → Bool
  | .num _ => true
  | _ => false

def Val.isBool : Val N → Bool
  | .bool _ => true
  | _ => false

def Val.isList : Val N → Bool
  | .list _ _ _ => true
  | _ => false

def Out.isVal : Out N → Bool
  | .val _ => true
  | .err _ _ _ => false

/-- C03 (operand kinds, left): an arithmetic operator whose LEFT operand evaluates to
    something that is not a number yields the error `NotANumber` naming that operand and
    attached to it (whenever the right operand evaluates at all). -/
theorem wrong_kind_left_arith (o : BinOp) (t : Str) (l r : Expr) (v1 v2 : Val N) (ho : BinOp.arith o = true)
    (h1 : Impl.eval G l = .val v1) (h2 : Impl.eval G r = .val v2) (hk : Val.isNum v1 = false) :
    Impl.eval G (.bin o t l r) = .err .notANumber (opName l) (some 0) := by
  simp only [Impl.eval, h1, h2]
  cases o <;> simp [BinOp.arith] at ho <;> cases v1 <;> simp [Val.isNum] at hk <;>
    simp [Impl.binOp, Impl.numOp]

/-- C03 (operand kinds, right): … and with a number on the left and a non-number on the
    right it names the right operand and is attached to it. -/
theorem wrong_kind_right_arith (o : BinOp) (t : Str) (l r : Expr) (a : N) (v2 : Val N) (ho : BinOp.arith o = true)
    (h1 : Impl.eval G l = .val (.num a)) (h2 : Impl.eval G r = .val v2) (hk : Val.isNum v2 = false) :
    Impl.eval G (.bin o t l r) = .err .notANumber (opName r) (some 1) := by
  simp only [Impl.eval, h1, h2]
  cases o <;> simp [BinOp.arith] at ho <;> cases v2 <;> simp [Val.isNum] at hk <;>
    simp [Impl.binOp, Impl.numOp]

/-- C03 (operand kinds, and/or): `and`/`or` on a non-boolean yield `NotABoolean` NAMING the
    first offending operand — also when the other operand alone would decide the result
    (`false and 5`, `true or 5`). The error is attached to child 0 in both cases: for the right
    operand that is the known deviation `error-node-left-operand`. -/
theorem wrong_kind_logic (o : BinOp) (t : Str) (l r : Expr) (v1 v2 : Val N) (ho : BinOp.logic o = true)
    (h1 : Impl.eval G l = .val v1) (h2 : Impl.eval G r = .val v2)
    (hk : Val.isBool v1 = false ∨ Val.isBool v2 = false) :
    Impl.eval G (.bin o t l r) =
      .err .notABoolean (if Val.isBool v1 = false then opName l else opName r) (some 0) := by
  simp only [Impl.eval, h1, h2]
  cases o <;> simp [BinOp.logic] at ho <;> cases v1 <;> cases v2 <;> simp [Val.isBool] at hk <;>
    simp [Impl.binOp, Impl.boolOp, Val.isBool]

/-- C03 (operand kinds, in/notin): a right operand that is not a list yields `NotAList`
    NAMING it (attached to child 0: known deviation `error-node-left-operand`). -/
theorem wrong_kind_member (o : BinOp) (t : Str) (l r : Expr) (v1 v2 : Val N) (ho : BinOp.member o = true)
    (h1 : Impl.eval G l = .val v1) (h2 : Impl.eval G r = .val v2) (hk : Val.isList v2 = false) :
    Impl.eval G (.bin o t l r) = .err .notAList (opName r) (some 0) := by
  simp only [Impl.eval, h1, h2]
  cases o <;> simp [BinOp.member] at ho <;> cases v2 <;> simp [Val.isList] at hk <;>
    simp [Impl.binOp, Impl.listOp]

/-- C03 (operand kinds, prefix): `-x`, `+x` on a non-number and `not x` on a non-boolean
    are errors naming `x`, attached to `x`. -/
theorem wrong_kind_prefix (p : PreOp) (t : Str) (x : Expr) (v : Val N) (h : Impl.eval G x = .val v)
    (hk : (if p = .not then Val.isBool v else Val.isNum v) = false) :
    Impl.eval G (.pre p t x) =
      .err (if p = .not then .notABoolean else .notANumber) (opName x) (some 0) := by
  simp only [Impl.eval, h]
  cases p <;> cases v <;> simp [Val.isBool, Val.isNum] at hk <;>
    simp [Impl.preOp, Impl.numVal, Impl.boolVal]

/-- C03 (never a value): an arithmetic or boolean operator with an operand of the wrong
    kind never yields a value — whatever the other operand does. -/
theorem wrong_kind_is_error (o : BinOp) (t : Str) (l r : Expr) (ho : BinOp.arith o = true ∨ BinOp.logic o = true)
    (hk : (∃ v, Impl.eval G l = .val v ∧ (if BinOp.arith o then Val.isNum v else Val.isBool v) = false) ∨
          (∃ v, Impl.eval G r = .val v ∧ (if BinOp.arith o then Val.isNum v else Val.isBool v) = false)) :
    Out.isVal (Impl.eval G (.bin o t l r)) = false := by
  simp only [Impl.eval]
  rcases hk with ⟨v, hv, hk⟩ | ⟨v, hv, hk⟩
  · rw [hv]
    cases hr : Impl.eval G r with
    | err k s p => simp [binOp_errR, Out.isVal]
    | val v2 =>
      cases o <;> simp [BinOp.arith, BinOp.logic] at ho <;> cases v <;> simp [BinOp.arith, Val.isNum, Val.isBool] at hk <;>
        cases v2 <;> simp [Impl.binOp, Impl.numOp, Impl.boolOp, Out.isVal]
  · rw [hv]
    cases hl : Impl.eval G l with
    | err k s p => simp [binOp_errL, Out.isVal]
    | val v1 =>
      cases o <;> simp [BinOp.arith, BinOp.logic] at ho <;> cases v <;> simp [BinOp.arith, Val.isNum, Val.isBool] at hk <;>
        cases v1 <;> simp [Impl.binOp, Impl.numOp, Impl.boolOp, Out.isVal]

end Sem

/-! ## End to end -/

/-- C03 (source to value): every admissible writing of a tree `e` (no assignment, `%` operands in
    range), on whatever lines, is parsed with the real table and evaluated the interpreter's way
    to the value — or the error kind and named operand — the reference semantics gives `e`. -/
theorem parse_then_eval {N : Type} (G : Cfg N) (e : Expr) (ks : List TK) (hp : Prints e .top .none ks)
    (ts : List LTok) (eofLine : Nat) (h : ts.map (·.tk) = ks)
    (ha : hasAssign e = false) (hm : Spec.modInRange G e = true) :
    ∃ e', Impl.parse T (program ts eofLine) = .ok e' ∧ (Impl.eval G e').core = (Spec.eval G e).core :=
  ⟨e, pratt_print_redundant e ks hp ts eofLine h, eval_refines_spec_partial G e ha hm⟩

/-! ## Semantic content: an EXACT carrier (rationals) and sanity lemmas

With the abstract carrier the theorems above say nothing about what `//` and `%` compute.
Here the carrier is exact rational arithmetic: `//` is the floor of the exact quotient and `%`
the remainder of the truncated operands, for ALL rational operands. (IEEE rounding, NaN, infinities
are the differential run's business.) -/

def truncQ (x : Rat) : Int := if 0 ≤ x then x.floor else -((-x).floor)

def ratNum : Num Rat where
  ofBits := fun b => (b : Rat)
  add := (· + ·)
  sub := (· - ·)
  mul := (· * ·)
  div := (· / ·)
  neg := fun a => -a
  floor := fun a => (a.floor : Rat)
  lt := fun a b => decide (a < b)
  le := fun a b => decide (a ≤ b)
  eq := fun a b => decide (a = b)
  toInt := truncQ
  ofInt := fun i => (i : Rat)
  text := fun _ => []
  inInt64 := fun _ => true
  wideMod := fun a b => if truncQ b = 0 then none else some ((Int.tmod (truncQ a) (truncQ b) : Int) : Rat)

/-- variables `x`, `y` hold the two operands -/
def ratCfg (a b : Rat) : Cfg Rat where
  C := ratNum
  re := fun _ _ => none
  var := fun n => if n = [120] then .num a else if n = [121] then .num b else .null

def vx : Expr := .atom (.ident [120])
def vy : Expr := .atom (.ident [121])

/-- `x // y` evaluates to the FLOOR of the exact quotient: the integer `q` with `q ≤ a/b < q+1`
    — for all rationals (`-7 // 2 = -4`, not `-3`). -/
theorem floordiv_is_floor (a b : Rat) :
    ∃ q : Int, Impl.eval (ratCfg a b) (.bin .divint [47, 47] vx vy) = .val (.num (q : Rat)) ∧
      (q : Rat) ≤ a / b ∧ a / b < ((q + 1 : Int) : Rat) :=
  ⟨(a / b).floor, by simp [Impl.eval, Impl.binOp, Impl.numOp, Impl.atomVal, ratCfg, ratNum, vx, vy],
    Rat.floor_le _, Rat.lt_floor_add_one _⟩

/-- `x % y` is the TRUNCATED remainder of the operands' integer parts, for ALL rational operands
    (fractional and negative ones included): with `A = trunc a`, `B = trunc b ≠ 0` the result `r`
    satisfies `A = (A quot B)·B + r`, `|r| < |B|`, and `r` has the sign of the dividend
    (`-7 % 2 = -1`, `7 % -2 = 1`, `7.5 % 2.5 = 7 % 2 = 1`). -/
theorem mod_is_truncated_remainder (a b : Rat) (hb : truncQ b ≠ 0) :
    ∃ r : Int, Impl.eval (ratCfg a b) (.bin .modint [37] vx vy) = .val (.num (r : Rat)) ∧
      truncQ a = Int.tdiv (truncQ a) (truncQ b) * truncQ b + r ∧ r.natAbs < (truncQ b).natAbs ∧
      (0 ≤ truncQ a → 0 ≤ r) ∧ (truncQ a ≤ 0 → r ≤ 0) := by
  refine ⟨Int.tmod (truncQ a) (truncQ b), ?_, ?_, ?_, ?_, ?_⟩
  · simp [Impl.eval, Impl.binOp, Impl.numOp, Impl.modOp, Impl.atomVal, ratCfg, ratNum, vx, vy, hb]
  · have := Int.mul_tdiv_add_tmod (truncQ a) (truncQ b); rw [Int.mul_comm] at this; omega
  · rw [Int.natAbs_tmod]
    exact Nat.mod_lt _ (by omega)
  · intro h; exact Int.tmod_nonneg (truncQ b) h
  · intro h
    have := Int.tmod_nonneg (a := -(truncQ a)) (truncQ b) (by omega)
    rw [Int.neg_tmod] at this; omega

/-- the integer part of a rational: toward zero (`trunc 7.5 = 7`, `trunc (-7.5) = -7`, `trunc 0.5 = 0`) -/
example : truncQ (15 / 2) = 7 ∧ truncQ (-15 / 2) = -7 ∧ truncQ (1 / 2) = 0 ∧ truncQ (-1 / 2) = 0 := by decide +kernel

/-- with the exact carrier `+ - * /` are the field operations and `< <=` the order of the
    rationals (definitional; stated so that the list of laws that hold exactly is complete). What
    does NOT transfer to float64 and is only tested there: exactness and associativity (rounding),
    `x / 0` (±Inf / NaN in Go, no error), NaN comparisons (all false), -0, overflow to ±Inf, and
    `int64(x)` outside the int64 range (known finding `mod-out-of-int64-range`). What transfers
    unchanged: the structure around the carrier — operand order, kind checks, error naming, the
    text fallback of comparisons, `//` = floor∘div and `%` = ofInt∘tmod∘toInt as compositions. -/
example (a b : Rat) :
    Impl.eval (ratCfg a b) (.bin .plus [43] vx vy) = .val (.num (a + b)) ∧
    Impl.eval (ratCfg a b) (.bin .minus [45] vx vy) = .val (.num (a - b)) ∧
    Impl.eval (ratCfg a b) (.bin .times [42] vx vy) = .val (.num (a * b)) ∧
    Impl.eval (ratCfg a b) (.bin .div [47] vx vy) = .val (.num (a / b)) ∧
    Impl.eval (ratCfg a b) (.bin .lt [60] vx vy) = .val (.bool (decide (a < b))) ∧
    Impl.eval (ratCfg a b) (.bin .geq [62, 61] vx vy) = .val (.bool (decide (b ≤ a))) := by
  simp [Impl.eval, Impl.binOp, Impl.numOp, Impl.cmpOp, Impl.atomVal, ratCfg, ratNum, vx, vy]

/-- a divisor whose integer part is 0 (`0`, `0.5`, `-0.9`) is a runtime error, never a value -/
theorem mod_by_zero_is_error (a b : Rat) (hb : truncQ b = 0) :
    Impl.eval (ratCfg a b) (.bin .modint [37] vx vy) = .err .runtime [] none := by
  simp [Impl.eval, Impl.binOp, Impl.numOp, Impl.modOp, Impl.atomVal, ratCfg, ratNum, vx, vy, hb]

section Sanity
variable {N : Type} (G : Cfg N)

/-- `!=` is the negation of `==` -/
example (n1 n2 : Str) (v1 v2 : Val N) :
    Impl.binOp G .neq n1 n2 (.val v1) (.val v2) = .val (.bool (!Val.eqv G.C v1 v2)) ∧
    Impl.binOp G .eq n1 n2 (.val v1) (.val v2) = .val (.bool (Val.eqv G.C v1 v2)) := by
  simp [Impl.binOp, Impl.genOp]

/-- on two strings `>=` is the negation of `<`, `<=` of `>`, and `>` is `<` with the operands swapped -/
theorem string_comparisons (n1 n2 : Str) (a b : Str) :
    Impl.binOp G .lt n1 n2 (.val (.str a)) (.val (.str b)) = .val (.bool (strLt a b)) ∧
    Impl.binOp G .geq n1 n2 (.val (.str a)) (.val (.str b)) = .val (.bool (!strLt a b)) ∧
    Impl.binOp G .gt n1 n2 (.val (.str a)) (.val (.str b)) = .val (.bool (strLt b a)) ∧
    Impl.binOp G .leq n1 n2 (.val (.str a)) (.val (.str b)) = .val (.bool (!strLt b a)) := by
  simp [Impl.binOp, Impl.cmpOp, Impl.numOp, Impl.strOp, Val.text]

/-- `notin` is the negation of `in` -/
example (n1 n2 : Str) (v : Val N) (a : Nat) (n : Bool) (vs : Vals N) :
    Impl.binOp G .notin n1 n2 (.val v) (.val (.list a n vs)) = .val (.bool (!Vals.has G.C v vs)) ∧
    Impl.binOp G .isin n1 n2 (.val v) (.val (.list a n vs)) = .val (.bool (Vals.has G.C v vs)) := by
  simp [Impl.binOp, Impl.listOp]

end Sanity

/-- the lexical order on byte strings is a strict total order -/
theorem strLt_irrefl : ∀ a : Str, strLt a a = false
  | [] => rfl
  | x :: xs => by simp [strLt, strLt_irrefl xs]

theorem strLt_trichotomy : ∀ a b : Str, strLt a b = true ∨ a = b ∨ strLt b a = true
  | [], [] => by simp
  | [], _ :: _ => by simp [strLt]
  | _ :: _, [] => by simp [strLt]
  | x :: xs, y :: ys => by
    rcases Nat.lt_trichotomy x y with h | h | h
    · left; simp [strLt, h]
    · subst h
      rcases strLt_trichotomy xs ys with h' | h' | h'
      · left; simp [strLt, h']
      · right; left; rw [h']
      · right; right; simp [strLt, h']
    · right; right; simp [strLt, h]

theorem strLt_asymm : ∀ a b : Str, strLt a b = true → strLt b a = false
  | [], [], h => by simp [strLt] at h
  | [], _ :: _, _ => by simp [strLt]
  | _ :: _, [], h => by simp [strLt] at h
  | x :: xs, y :: ys, h => by
    simp only [strLt] at h ⊢
    split at h
    · rename_i hxy
      have : ¬ y < x := by omega
      simp [this]; omega
    · split at h
      · simp at h
      · rename_i h1 h2
        have : x = y := by omega
        subst this
        simp [strLt_asymm xs ys h]

theorem strLt_trans : ∀ a b c : Str, strLt a b = true → strLt b c = true → strLt a c = true
  | [], [], _, h, _ => by simp [strLt] at h
  | [], _ :: _, [], _, h => by simp [strLt] at h
  | [], _ :: _, _ :: _, _, _ => by simp [strLt]
  | _ :: _, [], _, h, _ => by simp [strLt] at h
  | _ :: _, _ :: _, [], _, h => by simp [strLt] at h
  | x :: xs, y :: ys, z :: zs, h1, h2 => by
    simp only [strLt] at h1 h2 ⊢
    split at h1
    · split at h2
      · have : x < z := by omega
        simp [this]
      · split at h2
        · simp at h2
        · have : x < z := by omega
          simp [this]
    · split at h1
      · simp at h1
      · have hxy : x = y := by omega
        subst hxy
        split at h2
        · rename_i h; simp [h]
        · split at h2
          · simp at h2
          · rename_i h3 h4 h5 h6
            have : x = z := by omega
            subst this
            simp [strLt_trans xs ys zs h1 h2]

/-! ## Lists as Go compares them -/

/-- a list held by the environment equals itself whatever it holds (reflect.DeepEqual stops at
    identical backing arrays): `l == l` is true even for `l = [NaN]` -/
example {N : Type} (C : Num N) (a : Nat) (n : Bool) (vs : Vals N) (ha : a ≠ 0) :
    Val.eqv C (.list a n vs) (.list a n vs) = true := by
  simp [Val.eqv, ha]

/-- a nil list (the value of `[]`) and an empty non-nil list are NOT equal -/
example {N : Type} (C : Num N) (a b : Nat) :
    Val.eqv C (.list a true .nil) (.list b false .nil) = false := by
  simp [Val.eqv]

/-! ## From source bytes: what the lexer model guarantees to the parser (C18's theorems) -/

/-- C03 (source level, by C18's `lexer_always_closes`): for EVERY source text the token list handed
    to the parser is not empty and ends with the EOF token or with the lexer's error token — the
    shape `tokens ++ [EOF]` that `pratt_print` and `parse_sound` speak about is the only one a
    successfully lexed source has. -/
theorem lexed_source_closes (num : List (Str × Nat)) (src : List Nat) (ts : List LTok)
    (h : lexTokens num src = some ts) :
    ∃ t, ts.getLast? = some t ∧ (t.tk = .eof ∨ t.tk = .other errorName) := by
  obtain ⟨t, hb, hid⟩ := Ecal.Props.C18.lexer_always_closes src
  have hl : (Ecal.Lex.lex src).toList.getLast? = some t := by
    rw [← hb]; simp [Array.back?, List.getLast?_eq_getElem?]
  have hnc : (!(t.id == Ecal.Lex.tPRECOMMENT || t.id == Ecal.Lex.tPOSTCOMMENT)) = true := by
    rcases hid with hid | hid <;> rw [hid] <;> decide
  have hl' := filter_getLast (fun t => !(t.id == Ecal.Lex.tPRECOMMENT || t.id == Ecal.Lex.tPOSTCOMMENT)) _ t hl hnc
  obtain ⟨t', h1, h2⟩ := convAll_last num _ ts t h hl'
  refine ⟨t', h1, ?_⟩
  simp only [convTok, Option.map_eq_some_iff] at h2
  obtain ⟨k, hk, rfl⟩ := h2
  rcases hid with hid | hid
  · left
    simp [tkOfLex, hid] at hk
    exact hk.symm
  · right
    simp [tkOfLex, hid, Ecal.Lex.tERROR, Ecal.Lex.tEOF, Ecal.Lex.tSTRING, Ecal.Lex.tIDENTIFIER, Ecal.Lex.tNUMBER] at hk
    exact hk.symm

/-- C03 (number literals, lexer level): for EVERY input, every NUMBER token of the lexer model the
    driver runs carries a text that passed the number test of `lexToken`: it starts with a digit
    `0`–`9`, contains no line end, and `strconv.ParseFloat` (model: `validFloat`) accepts it. So
    whatever the splitting of `lexNumberBlock` does (`1e5` → `1`, `e5`; `1.2.3` → error), a NUMBER
    token never carries a text that is not a number — in particular never `1e`, `1.2.3`, `1e+999`. -/
theorem number_tokens_are_numbers (input : List Nat) :
    ∀ t ∈ (Ecal.Lex.lex input).toList, t.id = Ecal.Lex.tNUMBER →
      (∃ c rest, t.val = c :: rest ∧ 48 ≤ c ∧ c ≤ 57) ∧ t.val.contains 10 = false ∧ Ecal.Lex.validFloat t.val = true := by
  intro t ht hid
  have h := Ecal.Lex.number_tokens_pass_number_test input t ht hid
  simp only [Ecal.Lex.numberCandidate, Bool.and_eq_true, Bool.not_eq_true'] at h
  obtain ⟨⟨h1, h2⟩, h3⟩ := h
  refine ⟨?_, h2, h3⟩
  cases hv : t.val with
  | nil => rw [hv] at h1; simp at h1
  | cons c rest =>
    rw [hv] at h1
    simp only [Bool.and_eq_true, decide_eq_true_eq] at h1
    exact ⟨c, rest, rfl, h1.1, h1.2⟩

/-- C03 (number literals, what the parser gets): every number atom in the token list the driver
    hands to `Impl.parseProgram` is such a text (with the float bits supplied for exactly that text);
    comments are dropped, nothing else is added. -/
theorem parser_number_atoms_are_numbers (num : List (Str × Nat)) (src : List Nat) (ts : List LTok)
    (h : lexTokens num src = some ts) (txt : Str) (bits line : Nat) (hm : LTok.mk (.atom (.num txt bits)) line ∈ ts) :
    Ecal.Lex.numberCandidate txt = true := by
  obtain ⟨t, ht, hc⟩ := convAll_mem num _ ts h _ hm
  simp only [convTok, Option.map_eq_some_iff] at hc
  obtain ⟨k, hk, hk'⟩ := hc
  simp only [LTok.mk.injEq] at hk'
  obtain ⟨rfl, _⟩ := hk'
  obtain ⟨hid, rfl⟩ := tkOfLex_num num t txt bits hk
  have hmem : t ∈ (Ecal.Lex.lex src).toList := (List.mem_filter.1 ht).1
  exact Ecal.Lex.number_tokens_pass_number_test src t hmem hid

/-- non-vacuity: `1e5 + 1.5` has two NUMBER tokens (`1`, `1.5`); the number test rejects `1.2.3`,
    `1e+999`, `1e`, `e5` and an empty text -/
example : ((Ecal.Lex.lex (Ecal.Lex.str "1e5 + 1.5")).toList.filter (·.id = Ecal.Lex.tNUMBER)).map (·.val)
    = [[49], [49, 46, 53]] := by decide +kernel
example : Ecal.Lex.numberCandidate (Ecal.Lex.str "1.2.3") = false ∧ Ecal.Lex.numberCandidate (Ecal.Lex.str "1e+999") = false ∧
    Ecal.Lex.numberCandidate (Ecal.Lex.str "1e") = false ∧ Ecal.Lex.numberCandidate (Ecal.Lex.str "e5") = false ∧
    Ecal.Lex.numberCandidate [] = false ∧ Ecal.Lex.numberCandidate (Ecal.Lex.str "1.5") = true := by decide +kernel

/-! ### where a number literal ends (the block grammar of `lexNumberBlock`)

`Ecal.Lex.blockLen s` is the length of the longest prefix of `s` of the form
(digit | `.` | `e` `+` digit)* — an `e` belongs to the block only when `+` and a digit follow.
`Ecal.Lex.rem l` is the input from the lexer's position on. The statements are for input that is
ASCII from that position on (the loop of the model decodes runes; number literals are ASCII). -/

/-- C03 (number literals: where the block ends): `lexNumberBlock` advances by exactly the longest
    prefix of the remaining input that the block grammar (digit | `.` | `e+`digit)* accepts —
    in every lexer state, for every ASCII remainder. -/
theorem number_block_is_longest_prefix (l : Ecal.Lex.L) (hasc : ∀ x ∈ Ecal.Lex.rem l, x < 128) :
    (Ecal.Lex.lexNumberBlock l).pos = l.pos + Ecal.Lex.blockLen (Ecal.Lex.rem l) :=
  Ecal.Lex.numberBlock_ascii l hasc

/-- C03 (number literals: the token): started at the first byte of a word (`start = pos`, as
    `lexToken` does) whose block passes the number test, `lexWord` pushes exactly one token, the
    NUMBER whose text is that block (lower-cased) — nothing shorter, nothing longer. -/
theorem number_token_text_is_block (l : Ecal.Lex.L) (hs : l.start = l.pos) (hasc : ∀ x ∈ Ecal.Lex.rem l, x < 128)
    (hcand : Ecal.Lex.numberCandidate (Ecal.Lex.lowerGo ((Ecal.Lex.rem l).take (Ecal.Lex.blockLen (Ecal.Lex.rem l)))) = true) :
    (Ecal.Lex.lexWord l).1.toks =
      l.toks.push (Ecal.Lex.Tok.mk Ecal.Lex.tNUMBER l.start
        (Ecal.Lex.lowerGo ((Ecal.Lex.rem l).take (Ecal.Lex.blockLen (Ecal.Lex.rem l)))) false false
        l.skippedNl l.stamp.1 l.stamp.2) :=
  Ecal.Lex.lexWord_number l hs hasc hcand

/-- C03 (known finding `number-exponent-split`, formal statement): when the remaining input is
    `<digits>e<x>…` with `x` not `+` — `1e5`, `2e-1`, `1.5e-3` after the dot part — `lexWord` pushes
    the NUMBER `<digits>` only and stops in front of the `e`: the exponent the language reference
    allows ("all common notations") is split off and lexed as an identifier next. The same holds
    for an upper-case `E` whatever follows (`1E+5`). -/
theorem exponent_is_split (l : Ecal.Lex.L) (ds : List Nat) (x : Nat) (rest : List Nat)
    (hs : l.start = l.pos) (hds : Ecal.Lex.allDig ds)
    (hrem : Ecal.Lex.rem l = ds ++ 101 :: x :: rest ∧ x ≠ 43 ∨ Ecal.Lex.rem l = ds ++ 69 :: x :: rest)
    (hasc : ∀ y ∈ Ecal.Lex.rem l, y < 128) (hcand : Ecal.Lex.numberCandidate (Ecal.Lex.lowerGo ds) = true) :
    (Ecal.Lex.lexWord l).1.toks =
      l.toks.push (Ecal.Lex.Tok.mk Ecal.Lex.tNUMBER l.start (Ecal.Lex.lowerGo ds) false false
        l.skippedNl l.stamp.1 l.stamp.2) ∧
    (Ecal.Lex.lexNumberBlock l).pos = l.pos + ds.length := by
  have hb : Ecal.Lex.blockLen (Ecal.Lex.rem l) = ds.length := by
    rcases hrem with ⟨h, hx⟩ | h
    · rw [h]; exact Ecal.Lex.blockLen_exponent_without_plus ds hds x rest hx
    · rw [h]; exact Ecal.Lex.blockLen_upper_exponent ds hds (x :: rest)
  have ht : (Ecal.Lex.rem l).take (Ecal.Lex.blockLen (Ecal.Lex.rem l)) = ds := by
    rw [hb]
    rcases hrem with ⟨h, _⟩ | h <;> rw [h] <;> simp
  constructor
  · have := Ecal.Lex.lexWord_number l hs hasc (by rw [ht]; exact hcand)
    rw [ht] at this
    exact this
  · rw [Ecal.Lex.numberBlock_ascii l hasc, hb]

/-- C03 (the documented exponent form is kept): `<digits>e+<digit>…` belongs to the block as a whole
    (`1.234560e+02`). -/
theorem exponent_plus_is_kept (l : Ecal.Lex.L) (ds : List Nat) (d : Nat) (rest : List Nat) (hds : Ecal.Lex.allDig ds)
    (hd : Ecal.Lex.isDig d = true) (hrem : Ecal.Lex.rem l = ds ++ 101 :: 43 :: d :: rest) (hasc : ∀ y ∈ Ecal.Lex.rem l, y < 128) :
    (Ecal.Lex.lexNumberBlock l).pos = l.pos + (ds.length + 3 + Ecal.Lex.blockLen rest) := by
  rw [Ecal.Lex.numberBlock_ascii l hasc, hrem, Ecal.Lex.blockLen_exponent_plus ds hds d hd rest]

/-- C03 (`1 -2`): a blank, an operator, a bracket — any byte that is neither a digit, a dot nor `e` —
    ends the block: `1 -2` is the number `1`, then other tokens. -/
theorem other_character_ends_number (l : Ecal.Lex.L) (ds : List Nat) (c : Nat) (rest : List Nat) (hds : Ecal.Lex.allDig ds)
    (hc : (Ecal.Lex.isDig c || c == 46) = false) (he : c ≠ 101) (hrem : Ecal.Lex.rem l = ds ++ c :: rest)
    (hasc : ∀ y ∈ Ecal.Lex.rem l, y < 128) :
    (Ecal.Lex.lexNumberBlock l).pos = l.pos + ds.length := by
  rw [Ecal.Lex.numberBlock_ascii l hasc, hrem, Ecal.Lex.blockLen_digits_then_other ds hds c rest hc he]

/-- C03 (number literals, complete lexer run): for every ASCII source that starts with a digit, the
    FIRST token of the complete token list `Ecal.Lex.lex` yields (the list the driver parses) is the
    NUMBER at offset 0, line 1, column 1 whose text is the longest prefix of the source of the form
    (digit | `.` | `e+`digit)* — provided that prefix passes the number test — whatever follows. -/
theorem first_number_token_of_source (input : List Nat) (d : Nat) (tl : List Nat) (hin : input = d :: tl)
    (hd : Ecal.Lex.isDig d = true) (hasc : ∀ x ∈ input, x < 128)
    (hcand : Ecal.Lex.numberCandidate (Ecal.Lex.lowerGo (input.take (Ecal.Lex.blockLen input))) = true) :
    (Ecal.Lex.lex input).toList.head? =
      some (Ecal.Lex.Tok.mk Ecal.Lex.tNUMBER 0 (Ecal.Lex.lowerGo (input.take (Ecal.Lex.blockLen input))) false false 0 1 1) :=
  Ecal.Lex.lex_first_number input d tl hin hd hasc hcand

/-- C03 (known finding `number-exponent-split`, complete lexer run): a source `<digits>e<x>…` with `x`
    not `+` (`1e5`, `2e-1 …`), or `<digits>E…` (`1E+5`), lexes to a token list whose first token is the
    NUMBER `<digits>` — never a NUMBER containing the exponent. (What follows, `e5` as an identifier,
    is shown by the `decide` instances below.) -/
theorem source_exponent_is_split (d : Nat) (ds : List Nat) (x : Nat) (rest : List Nat) (input : List Nat)
    (hds : Ecal.Lex.allDig (d :: ds))
    (hin : input = (d :: ds) ++ 101 :: x :: rest ∧ x ≠ 43 ∨ input = (d :: ds) ++ 69 :: x :: rest)
    (hasc : ∀ y ∈ input, y < 128) (hcand : Ecal.Lex.numberCandidate (Ecal.Lex.lowerGo (d :: ds)) = true) :
    (Ecal.Lex.lex input).toList.head? =
      some (Ecal.Lex.Tok.mk Ecal.Lex.tNUMBER 0 (Ecal.Lex.lowerGo (d :: ds)) false false 0 1 1) := by
  have hb : Ecal.Lex.blockLen input = (d :: ds).length := by
    rcases hin with ⟨h, hx⟩ | h
    · rw [h]; exact Ecal.Lex.blockLen_exponent_without_plus _ hds x rest hx
    · rw [h]; exact Ecal.Lex.blockLen_upper_exponent _ hds (x :: rest)
  have ht : input.take (Ecal.Lex.blockLen input) = d :: ds := by
    rw [hb]
    rcases hin with ⟨h, _⟩ | h <;> rw [h] <;> simp
  have hhead : ∃ tl, input = d :: tl := by
    rcases hin with ⟨h, _⟩ | h <;> exact ⟨_, by rw [h]; rfl⟩
  obtain ⟨tl, htl⟩ := hhead
  have := first_number_token_of_source input d tl htl (hds d (by simp)) hasc (by rw [ht]; exact hcand)
  rw [ht] at this
  exact this

/-- non-vacuity of `source_exponent_is_split`: the source `1e5` -/
example : (Ecal.Lex.lex [49, 101, 53]).toList.head? = some (Ecal.Lex.Tok.mk Ecal.Lex.tNUMBER 0 [49] false false 0 1 1) :=
  source_exponent_is_split 49 [] 53 [] [49, 101, 53] (by intro d hd; simp at hd; subst hd; decide)
    (Or.inl ⟨rfl, by decide⟩) (by intro y hy; simp at hy; omega) (by decide +kernel)

/-- non-vacuity: the hypotheses of `exponent_is_split` hold for the source `1e5` in the start state, and
    for `1E+5`; `1e+5` is kept; `1 -2` ends after `1` -/
example : (Ecal.Lex.lexWord ({ inp := #[49, 101, 53] } : Ecal.Lex.L)).1.toks.toList.map (fun t => (t.id, t.val))
    = [(6, [49])] := by decide +kernel
example : Ecal.Lex.rem ({ inp := #[49, 101, 53] } : Ecal.Lex.L) = [49] ++ 101 :: 53 :: [] ∧ Ecal.Lex.allDig [49] ∧
    Ecal.Lex.numberCandidate (Ecal.Lex.lowerGo [49]) = true := by
  refine ⟨by decide +kernel, ?_, by decide +kernel⟩
  intro d hd; simp at hd; subst hd; decide
example : (Ecal.Lex.lexNumberBlock ({ inp := #[49, 69, 43, 53] } : Ecal.Lex.L)).pos = 1 ∧
    (Ecal.Lex.lexNumberBlock ({ inp := #[49, 101, 43, 53] } : Ecal.Lex.L)).pos = 4 ∧
    (Ecal.Lex.lexNumberBlock ({ inp := #[49, 32, 45, 50] } : Ecal.Lex.L)).pos = 1 := by decide +kernel

/-- kinds and texts of the tokens of a source (for the instances below) -/
def lexKinds (src : String) : List (Nat × List Nat) :=
  (Ecal.Lex.lex (Ecal.Lex.str src)).toList.map fun t => (t.id, t.val)

/-! ### number-literal splitting: instances (tests of the lexer model the driver runs). Proved in
    general above: a NUMBER token's text starts with a digit and is accepted by ParseFloat. Proved in general
    above as well (ASCII input): where `lexNumberBlock` ends the block, and the split of `1e5` / `1E+5`.
    Proved for the complete run of `lex`: the FIRST token of such a source. NOT proved in general:
    the tokens after it (that `e5` then lexes as an identifier) — the instances below show it -/

/-- `1 -2` : number, minus, number -/
example : lexKinds "1 -2" = [(6, [49]), (34, [45]), (6, [50]), (1, [])] := by decide +kernel
/-- `1e5` : the number ends before `e` (no `+`): number `1`, identifier `e5` -/
example : lexKinds "1e5" = [(6, [49]), (7, [101, 53]), (1, [])] := by decide +kernel
/-- `1e+5` is one number -/
example : lexKinds "1e+5" = [(6, [49, 101, 43, 53]), (1, [])] := by decide +kernel
/-- `1.2.3` and `1e+999` are not numbers (ParseFloat rejects them): the lexer ends with an error token -/
example : ((lexKinds "1.2.3").getLast?.map (·.1)) = some 0 ∧ ((lexKinds "1e+999").getLast?.map (·.1)) = some 0 := by
  decide +kernel
/-- `5.` is the number `5.` -/
example : lexKinds "5." = [(6, [53, 46]), (1, [])] := by decide +kernel

/-! ### non-vacuity of the semantic theorems: a toy carrier (integers) -/

def toyNum : Num Int where
  ofBits := fun b => (b : Int)
  add := (· + ·)
  sub := (· - ·)
  mul := (· * ·)
  div := Int.tdiv
  neg := fun a => -a
  floor := id
  lt := fun a b => decide (a < b)
  le := fun a b => decide (a ≤ b)
  eq := fun a b => decide (a = b)
  toInt := id
  ofInt := id
  text := fun a => if a = 10 then [49, 48] else [57]   -- "10" / "9"
  inInt64 := fun _ => true
  wideMod := fun a b => if b = 0 then none else some (Int.tmod a b)

def toy : Cfg Int where
  C := toyNum
  re := fun _ _ => none
  var := fun _ => .null

def isErr {N : Type} (k : ErrKind) (name : Str) : Out N → Bool
  | .err k' n _ => k = k' ∧ n = name
  | .val _ => false

def isBoolVal {N : Type} (b : Bool) : Out N → Bool
  | .val (.bool b') => b = b'
  | _ => false

/-- non-vacuity of `value_has_no_admissible_error` / `errSet_empty_iff_value`: `1 + 2` has a value and
    no admissible error; `"a" + true` has two admissible errors (one per offending operand) -/
example : Spec.errSet toy (.bin .plus [43] (.atom (.num [49] 1)) (.atom (.num [50] 2))) = [] := by decide
example : Spec.errSet toy (.bin .plus [43] (.atom (.str [97])) (.atom (.tru [116]))) =
    [(.notANumber, [97], some 0), (.notANumber, [116], some 1)] := by decide

/-- `"a" + 1` : NotANumber naming `a` (hypotheses of `wrong_kind_left_arith` are satisfiable) -/
example : isErr .notANumber [97] (Impl.eval toy (.bin .plus [43] (.atom (.str [97])) (.atom (.num [49] 1)))) = true := by
  decide
/-- `false and 5` : NotABoolean naming `5` — no short circuit -/
example : isErr .notABoolean [53] (Impl.eval toy (.bin .and [97] (.atom (.fls [102])) (.atom (.num [53] 5)))) = true := by
  decide
/-- `"10" < 9` compares the texts: true; `10 < 9` compares the numbers: false -/
example : isBoolVal true (Impl.eval toy (.bin .lt [60] (.atom (.str [49, 48])) (.atom (.num [57] 9)))) = true := by decide
example : isBoolVal false (Impl.eval toy (.bin .lt [60] (.atom (.num [49, 48] 10)) (.atom (.num [57] 9)))) = true := by decide
/-- `5 % 0` is a runtime error, `[1] == [1]` is true -/
example : isErr .runtime [] (Impl.eval toy (.bin .modint [37] (.atom (.num [53] 5)) (.atom (.num [48] 0)))) = true := by decide
example : isBoolVal true (Impl.eval toy (.bin .eq [61] (.list (.cons (.atom (.num [49] 1)) .nil))
    (.list (.cons (.atom (.num [49] 1)) .nil)))) = true := by decide

end Ecal.Props.C03
