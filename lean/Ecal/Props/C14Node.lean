import Ecal.Model.InterpImpl
import Ecal.Props.C14Impl
import Ecal.Props.C14Lex
/-!
# C14 — the string node: raw flag, error marker, and the lexer in front of it

`evalNode` (Model/InterpImpl.lean) is `stringValueRuntime.Eval` on a string token; the driver runs it. The
theorems here are about that function and about `Ecal.Lex.lex` in front of it (the literal theorems of
`Props/C14Lex.lean`, lifted to whole sources by the C18 builder).
-/
namespace Ecal.Props.C14
open Ecal.Interp Ecal.InterpImpl Ecal.Lex Ecal.LexValue Ecal.Props.C14Lex

/-- **A raw string is returned untouched** — no expression is evaluated, the state does not change. -/
theorem raw_node_untouched {σ : Type} (marker : Str) (ev : σ → Str → EvOut × σ) (st : σ) (val : Str) :
    evalNode marker ev st false val = Out.ok val st := by
  simp [evalNode]

/-- **An interpolating literal never crashes or loops** and is the left-to-right fold over its own
    segmentation with the rendered outcomes, whatever the expressions yield. -/
theorem node_refines_spec {σ : Type} (marker : Str) (ev : σ → Str → EvOut × σ) (st : σ) (val : Str) :
    evalNode marker ev st true val =
      Out.ok (interpS (fun s c => (render marker (ev s c).1, (ev s c).2)) st val).1
             (interpS (fun s c => (render marker (ev s c).1, (ev s c).2)) st val).2 := by
  simp only [evalNode, if_true]; exact impl_refines_spec _ st val

/-- **Inline error marker**: an expression that fails is replaced by the marker followed by the message of
    ITS error, in its own place; the text before it is kept and the rest of the literal is processed as if
    nothing had happened (in the state the failed evaluation left). -/
theorem failing_expression_marked {σ : Type} (marker : Str) (ev : σ → Str → EvOut × σ) (st : σ)
    (pre c post m : Str) (h1 : hasOpen (pre ++ [123]) = false) (h2 : hasClose (c ++ [125]) = false)
    (hf : (ev st c).1 = EvOut.err m) :
    ∃ out st', evalNode marker ev (ev st c).2 true post = Out.ok out st' ∧
      evalNode marker ev st true (pre ++ 123 :: 123 :: (c ++ 125 :: 125 :: post)) =
        Out.ok (pre ++ (marker ++ m) ++ out) st' := by
  refine ⟨_, _, node_refines_spec marker ev _ post, ?_⟩
  rw [node_refines_spec, interpS_pair _ st pre c post h1 h2]
  simp [hf, render]

/-- … and one that succeeds by the text of its value, verbatim (even if that text contains the marker
    characters, a `%`, or `{{`). -/
theorem succeeding_expression_replaced {σ : Type} (marker : Str) (ev : σ → Str → EvOut × σ) (st : σ)
    (pre c post t : Str) (h1 : hasOpen (pre ++ [123]) = false) (h2 : hasClose (c ++ [125]) = false)
    (hv : (ev st c).1 = EvOut.val t) :
    ∃ out st', evalNode marker ev (ev st c).2 true post = Out.ok out st' ∧
      evalNode marker ev st true (pre ++ 123 :: 123 :: (c ++ 125 :: 125 :: post)) =
        Out.ok (pre ++ t ++ out) st' := by
  refine ⟨_, _, node_refines_spec marker ev _ post, ?_⟩
  rw [node_refines_spec, interpS_pair _ st pre c post h1 h2]
  simp [hv, render]

/-! ### The lexer in front of the node (`evalSource` on a literal standing anywhere in a source text) -/

/-- **Raw literal in a source**: wherever `r q body q` stands, the string token the lexer produces for it
    evaluates to `body`, byte for byte — escape sequences and `{{ }}` inside it are data. -/
theorem raw_source_literal_is_its_body {σ : Type} (marker : Str) (ev : σ → Str → EvOut × σ) (st : σ)
    (pre body rest : List Nat) (q : Nat) (hq : q = 34 ∨ q = 39) (hb : q ∉ body)
    (t : Tok) (ht : t ∈ (lex (pre ++ (114 :: q :: (body ++ q :: rest)))).toList) (hpos : t.pos = pre.length)
    (h1 : t.id ≠ tEOF) (h2 : t.id ≠ tPOSTCOMMENT) (h3 : t.id ≠ tPRECOMMENT) (h4 : t.id ≠ tERROR) :
    evalNode marker ev st t.allowEscapes t.val = Out.ok body st := by
  obtain ⟨_, hv, ha⟩ := raw_literal_in_source pre body rest q hq hb t ht hpos h1 h2 h3 h4
  rw [hv, ha]; exact raw_node_untouched marker ev st body

/-- **Quoted literal in a source: escapes first, then interpolation.** Wherever `q body q` stands (its
    prepared body accepted by the unquote step with value `s'`), the token evaluates to the interpolation of
    the UNESCAPED value `s'` — so a marker written with escape sequences is a marker, and an escape sequence
    inside a substituted value is not interpreted. -/
theorem quoted_source_literal_unescapes_then_interpolates {σ : Type} (marker : Str) (ev : σ → Str → EvOut × σ)
    (st : σ) (pre body rest s' : List Nat) (q : Nat) (hq : q = 34 ∨ q = 39) (hb : Body true q false body)
    (hu : unquoteBody ((prep q body).length + 2) (prep q body) = some s')
    (t : Tok) (ht : t ∈ (lex (pre ++ (q :: (body ++ q :: rest)))).toList) (hpos : t.pos = pre.length)
    (h1 : t.id ≠ tEOF) (h2 : t.id ≠ tPOSTCOMMENT) (h3 : t.id ≠ tPRECOMMENT) (h4 : t.id ≠ tERROR) :
    evalNode marker ev st t.allowEscapes t.val = evalNode marker ev st true s' := by
  obtain ⟨_, hv, ha⟩ := quoted_literal_in_source pre body rest s' q hq hb hu t ht hpos h1 h2 h3 h4
  rw [hv, ha]

/-! Non-vacuity -/

-- "x{{a}}y" where `a` fails with message "E": the marker `#` and the message stand in its place
example : evalNode [35] (fun (n : Nat) (_ : Str) => (EvOut.err [69], n + 1)) 0 true [120,123,123,97,125,125,121]
    = Out.ok [120, 35, 69, 121] 1 := by decide
-- the same literal as a raw node: untouched, nothing evaluated
example : evalNode [35] (fun (n : Nat) (_ : Str) => (EvOut.err [69], n + 1)) 0 false [120,123,123,97,125,125,121]
    = Out.ok [120,123,123,97,125,125,121] 0 := by decide

end Ecal.Props.C14
