import Ecal.Model.Sink
import Ecal.Props.C01
/-!
# C01 at the level of sink declarations

`Ecal.Sink` models how `createRule` turns the attributes of a sink into an engine rule and how `addEvent`
turns its arguments into an engine event and a cascade scope. This file proves that the translation
preserves the meaning of the declaration — *exactly the sinks whose declared attributes match fire* —
under three explicit hypotheses that exclude the three known deviations of the code:

* `DeclOK.strKeys`  — statematch keys are strings (else: known finding statematch-nonstring-key),
* `ValuesFaithful`   — the engine's pattern / value of an ECAL state value decides "null or an equal value"
                       as the property means it (else: empty-list-not-equal, statematch-values-aliased),

each followed by a negative example showing that the hypothesis is needed / not automatically true.
The translation itself (`Ecal.Sink.createRule`, `eventOf`, `scopeDefs`) is not run by the driver: at the
ECAL level the harness implements it when it encodes a case; the tie of this layer to the Go code is the
ECAL-level correspondence (real sinks, real `addEvent`).
-/
namespace Ecal.Props.C01Sink
open Ecal.Engine Ecal.Sink

variable {Item PV : Type}

/-- the hypotheses on one declaration -/
structure DeclOK (d : Decl Item PV) : Prop where
  strKeys : ∀ kp ∈ d.statematch.getD [], kp.1.isStr = true
  keysNodup : ((d.statematch.getD []).map (·.1.text)).Nodup

/-- the engine's reading of state values agrees with the property's: a pattern admits a value iff it is
    null or the two are equal values -/
def ValuesFaithful (rx : Nat → Val → Bool) (c : Ctx Item PV) (isNull : PV → Bool) (same : PV → PV → Bool) : Prop :=
  ∀ p v, Spec.admits rx (c.patOf p) (c.valOf v) = (isNull p || same p v)

theorem alookup_stateOf (c : Ctx Item PV) (s : String) (st : List (Key × PV)) :
    alookup s (stateOf c st) = (alookup (Key.str s) st).map c.valOf := by
  induction st with
  | nil => rfl
  | cons kv rest ih =>
    obtain ⟨k, v⟩ := kv
    cases k with
    | str s' =>
      simp only [stateOf, List.filterMap_cons, alookup]
      by_cases h : s' = s
      · subst h; simp
      · have h' : ¬ Key.str s' = Key.str s := fun hc => h (by injection hc)
        simp only [h, h', if_false]
        exact ih
    | other t =>
      simp only [stateOf, List.filterMap_cons, alookup]
      have h' : ¬ Key.other t = Key.str s := fun hc => by cases hc
      simp only [h', if_false]
      exact ih

/-- **statematch.** For a declaration whose statematch keys are strings, the rule `createRule` builds
    admits the state of an event exactly if the declaration does: every required key — as an ECAL key — is
    present with null pattern or an equal value. (`stateMatch[fmt.Sprint(k)] = v` is harmless for string keys.) -/
theorem stateOK_createRule (rx : Nat → Val → Bool) (c : Ctx Item PV) (isNull : PV → Bool) (same : PV → PV → Bool)
    (hval : ValuesFaithful rx c isNull same) (d : Decl Item PV)
    (hkeys : ∀ kp ∈ d.statematch.getD [], kp.1.isStr = true) (e : EventArg Item PV) :
    Spec.stateOK rx (createRule c d) (eventOf c e) = declStateOK isNull same d e := by
  have hstate : (createRule c d).state.getD [] =
      (d.statematch.getD []).map fun kp => (kp.1.text, c.patOf kp.2) := by
    cases h : d.statematch <;> simp [createRule, h]
  unfold Spec.stateOK declStateOK
  rw [hstate]
  generalize d.statematch.getD [] = st at hkeys
  induction st with
  | nil => rfl
  | cons kp rest ih =>
    have hk := hkeys kp (List.mem_cons_self ..)
    have ih' := ih (fun q hq => hkeys q (List.mem_cons_of_mem _ hq))
    simp only [List.map_cons, List.all_cons, ih']
    congr 1
    obtain ⟨k, p⟩ := kp
    cases k with
    | other t => simp [Key.isStr] at hk
    | str s =>
      simp only [Key.text, eventOf, alookup_stateOf]
      cases alookup (Key.str s) e.state with
      | none => rfl
      | some v => simp [hval p v]

/-- Negative example (known finding statematch-nonstring-key): with the number key `1` — text "1" — on both
    sides the declaration is satisfied, yet the rule built by `createRule` does not admit the event; and it
    admits an event that has the STRING key "1" instead, which the declaration does not ask for. -/
example :
    let c : Ctx String Nat := { sprint := id, split := fun s => [s], floorOf := fun _ => 0,
                                 patOf := fun n => if n = 0 then .any else .atom n, valOf := .atom }
    let d : Decl String Nat := { name := "s", kindmatch := ["a"], scopematch := none,
                                  statematch := some [(.other "1", 5)], priority := none, suppresses := [] }
    let e1 : EventArg String Nat := { name := "e", kind := "a", state := [(.other "1", 5)], scope := none }
    let e2 : EventArg String Nat := { name := "e", kind := "a", state := [(.str "1", 5)], scope := none }
    declStateOK (· == 0) (· == ·) d e1 = true ∧ Spec.stateOK (fun _ _ => false) (createRule c d) (eventOf c e1) = false ∧
    declStateOK (· == 0) (· == ·) d e2 = false ∧ Spec.stateOK (fun _ _ => false) (createRule c d) (eventOf c e2) = true := by
  decide

/-- `ValuesFaithful` is satisfiable: scalar values compared by `==`. -/
example : ValuesFaithful (fun _ _ => false)
    ({ sprint := id, split := fun s => [s], floorOf := fun _ => 0,
       patOf := fun n => if n = 0 then .any else .atom n, valOf := .atom } : Ctx String Nat)
    (· == 0) (· == ·) := by
  intro p v
  by_cases h : p = 0
  · simp [h, Spec.admits]
  · have h0 : (p == 0) = false := by simp [h]
    simp only [h, if_false, Spec.admits, h0, Bool.false_or]
    by_cases hv : p = v
    · subst hv; simp
    · have hv' : ¬ v = p := fun hc => hv hc.symm
      simp [hv, hv']

/-- Negative example (known finding empty-list-not-equal): ECAL's two empty lists — `[]`, a nil slice, here
    `false`, and `del([1],0)`, an empty one, here `true` — are equal values, but the code's deep comparison
    puts them into different classes: `ValuesFaithful` fails. -/
example : ¬ ValuesFaithful (fun _ _ => false)
    ({ sprint := id, split := fun s => [s], floorOf := fun _ => 0,
       patOf := fun b => .deep (if b then 1 else 0), valOf := fun b => .deep (if b then 1 else 0) } : Ctx String Bool)
    (fun _ => false) (fun _ _ => true) := by
  intro h
  have := h false true
  simp [Spec.admits] at this

/-- Negative example (known finding statematch-values-aliased): a list pattern is stored by reference, so
    what the engine compares with is the content of the variable at match time (second component), not the
    declared value (first component): `ValuesFaithful` fails as soon as the program changed the variable. -/
example : ¬ ValuesFaithful (fun _ _ => false)
    ({ sprint := id, split := fun s => [s], floorOf := fun _ => 0,
       patOf := fun p => .deep p.2, valOf := fun v => .deep v.1 } : Ctx String (Nat × Nat))
    (fun _ => false) (fun p v => p.1 == v.1) := by
  intro h
  have := h (1, 2) (1, 1)
  simp [Spec.admits] at this

/-- **kindmatch.** -/
theorem kindOK_createRule (c : Ctx Item PV) (d : Decl Item PV) (e : EventArg Item PV) :
    Spec.kindOK (createRule c d) (eventOf c e) = declKindOK c d e := by
  simp [Spec.kindOK, declKindOK, createRule, eventOf, List.any_map, Function.comp_def]

/-- **scopematch** against the scope map of the cascade. -/
theorem scopeOK_createRule (c : Ctx Item PV) (d : Decl Item PV) (e : EventArg Item PV) :
    Spec.scopeOK (fun p => (Spec.longest (Spec.lastDef (scopeDefs c e.scope)) p).getD false) (createRule c d) =
      declScopeOK c d e := by
  simp [Spec.scopeOK, declScopeOK, createRule, List.all_map, Function.comp_def]

theorem triggers_createRule (rx : Nat → Val → Bool) (c : Ctx Item PV) (isNull : PV → Bool) (same : PV → PV → Bool)
    (hval : ValuesFaithful rx c isNull same) (d : Decl Item PV) (hd : DeclOK d) (e : EventArg Item PV) :
    Spec.triggers rx (fun p => (Spec.longest (Spec.lastDef (scopeDefs c e.scope)) p).getD false)
      (eventOf c e) (createRule c d) = declTriggers c isNull same d e := by
  unfold Spec.triggers declTriggers
  rw [kindOK_createRule, stateOK_createRule rx c isNull same hval d hd.strKeys e, scopeOK_createRule]

theorem createRule_wf (c : Ctx Item PV) (hsplit : ∀ s, c.split s ≠ []) (d : Decl Item PV) (hd : DeclOK d) :
    (createRule c d).WF := by
  refine ⟨?_, ?_⟩
  · intro p hp
    simp only [createRule, List.mem_map] at hp
    obtain ⟨it, _, rfl⟩ := hp
    exact hsplit _
  · have : ((createRule c d).state.getD []).map (·.1) = (d.statematch.getD []).map (·.1.text) := by
      cases h : d.statematch <;> simp [createRule, h, Function.comp_def]
    rw [this]
    exact hd.keysNodup

/-- the declaration was accepted by `AddRule` (it has a kind match, its scopematch is not the literal `[]`,
    no earlier accepted sink has its name) -/
def Accepted (c : Ctx Item PV) (sinks : List (Decl Item PV)) (d : Decl Item PV) : Prop :=
  createRule c d ∈ (Root.build (sinks.map (createRule c))).indexed

/-- what the declarations say: sink `n` must run for the event -/
def DeclFires (c : Ctx Item PV) (isNull : PV → Bool) (same : PV → PV → Bool)
    (sinks : List (Decl Item PV)) (e : EventArg Item PV) (n : String) : Prop :=
  (∃ d ∈ sinks, Accepted c sinks d ∧ d.name = n ∧ declTriggers c isNull same d e = true) ∧
  ¬ ∃ d' ∈ sinks, Accepted c sinks d' ∧ declTriggers c isNull same d' e = true ∧ n ∈ d'.suppresses.map c.sprint

/-- **Exactly the sinks whose declared attributes match fire.** For any list of sink declarations with
    string statematch keys, any `addEvent(name, kind, state, scope?)`: processing the event the call creates,
    in the cascade scope the call creates, against the rules `createRule` builds, determines a duplicate-free
    list of rules whose names are exactly the accepted sinks whose kindmatch matches the kind, whose
    statematch is satisfied by the state (keys as ECAL keys, null or an equal value), whose scopematch items
    are all allowed by the scope map (longest defined prefix, default scope `{"": true}`), and which are not
    named in `suppresses` of a sink satisfying those three. -/
theorem sinks_fire_exact (rx : Nat → Val → Bool) (c : Ctx Item PV) (isNull : PV → Bool) (same : PV → PV → Bool)
    (hsplit : ∀ s, c.split s ≠ []) (hval : ValuesFaithful rx c isNull same)
    (sinks : List (Decl Item PV)) (hok : ∀ d ∈ sinks, DeclOK d) (e : EventArg Item PV) :
    ∃ l, processEvent rx (Root.build (sinks.map (createRule c))) (Scope.build (scopeDefs c e.scope)) (eventOf c e) = .ok l ∧
      (l.map (·.name)).Nodup ∧
      ∀ n, n ∈ l.map (·.name) ↔ DeclFires c isNull same sinks e n := by
  have hwf : ∀ r ∈ sinks.map (createRule c), r.WF := by
    intro r hr
    obtain ⟨d, hd, rfl⟩ := List.mem_map.mp hr
    exact createRule_wf c hsplit d (hok d hd)
  obtain ⟨l, h1, h2, h3⟩ := Ecal.Props.C01.processEvent_exact_scope rx (sinks.map (createRule c)) hwf (scopeDefs c e.scope) (eventOf c e)
  refine ⟨l, h1, h2, ?_⟩
  intro n
  rw [h3 n]
  have hsub := (Ecal.Props.C01.indexed_nodup (sinks.map (createRule c))).2
  -- every indexed rule is the rule of a declaration
  have hdecl : ∀ r ∈ (Root.build (sinks.map (createRule c))).indexed, ∃ d ∈ sinks, createRule c d = r := by
    intro r hr
    obtain ⟨d, hd, rfl⟩ := List.mem_map.mp (hsub r hr)
    exact ⟨d, hd, rfl⟩
  unfold Spec.fires DeclFires Accepted
  constructor
  · rintro ⟨⟨r, hr, hn, ht⟩, hno⟩
    obtain ⟨d, hd, rfl⟩ := hdecl r hr
    refine ⟨⟨d, hd, hr, hn, ?_⟩, ?_⟩
    · rw [← triggers_createRule rx c isNull same hval d (hok d hd) e]; exact ht
    · rintro ⟨d', hd', hr', ht', hs⟩
      refine hno ⟨createRule c d', hr', ?_, hs⟩
      rw [triggers_createRule rx c isNull same hval d' (hok d' hd') e]; exact ht'
  · rintro ⟨⟨d, hd, hr, hn, ht⟩, hno⟩
    refine ⟨⟨createRule c d, hr, hn, ?_⟩, ?_⟩
    · rw [triggers_createRule rx c isNull same hval d (hok d hd) e]; exact ht
    · rintro ⟨r', hr', ht', hs⟩
      obtain ⟨d', hd', rfl⟩ := hdecl r' hr'
      refine hno ⟨d', hd', hr', ?_, hs⟩
      rw [← triggers_createRule rx c isNull same hval d' (hok d' hd') e]; exact ht'

/-- the hypotheses of `sinks_fire_exact` are satisfiable together (scalar values, one-segment split) -/
example :
    let d : Decl String Nat := { name := "s", kindmatch := ["a"], scopematch := some ["p"],
                                  statematch := some [(.str "k", 5), (.str "l", 0)], priority := none, suppresses := ["t"] }
    DeclOK d ∧ (∀ s : String, (fun s => [s]) s ≠ []) := by
  refine ⟨⟨?_, ?_⟩, ?_⟩
  · intro kp hkp
    simp at hkp
    rcases hkp with rfl | rfl <;> rfl
  · decide
  · intro s; simp

/-- **Default scope.** Without a scope argument the cascade has the global scope: every scopematch item is
    allowed, whatever the sink asks for. -/
theorem default_scope_allows (c : Ctx Item PV) (d : Decl Item PV) (e : EventArg Item PV) (h : e.scope = none) :
    declScopeOK c d e = true := by
  have hall : ∀ p : List Seg, (Spec.longest (Spec.lastDef [(([] : List Seg), true)]) p).getD false = true := by
    intro p
    cases p with
    | nil => simp [Spec.longest, Spec.lastDef]
    | cons s rest =>
      simp only [Spec.longest]
      rw [Spec.longest_none]
      · simp [Spec.lastDef]
      · intro q; simp [Spec.lastDef]
  simp [declScopeOK, h, scopeDefs, hall]

/-- the scope map of `addEvent`: spellings `strconv.ParseBool` accepts are true, everything else (including
    spellings it rejects) is false; the empty path is the root -/
example : parseBool "true" = true ∧ parseBool "1" = true ∧ parseBool "T" = true ∧ parseBool "false" = false ∧
    parseBool "no" = false ∧ parseBool "<nil>" = false := by decide

example : scopeDefs ({ sprint := id, split := fun s => [s], floorOf := fun _ => 0, patOf := fun _ => .any,
                       valOf := fun _ => .null } : Ctx String Nat) (some [("", "1"), ("data", "no")]) =
    [([], true), (["data"], false)] := by decide

end Ecal.Props.C01Sink
