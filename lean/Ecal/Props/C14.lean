import Ecal.Model.Interp
import Ecal.Lemmas.Interp
import Ecal.Model.InterpPristine
/-!
# C14 — string interpolation evaluates only the literal's own expressions, once

Property theorems about `Ecal.Interp` (the model of `stringValueRuntime.Eval`).
`ev` — the evaluation of an embedded expression to its replacement text — is
universally quantified: it may return text full of markers, the text of the
literal itself, anything.
-/
namespace Ecal.Props.C14
open Ecal.Interp

/-- The segments are *written in the literal*: putting the markers back around the code
    segments and concatenating gives the literal back, byte for byte. -/
theorem segments_reassemble (s : Str) : (segments s).flatMap Seg.src = s := by
  induction s using segments.induct with
  | case1 s h1 => simp [segments_none h1, Seg.src]
  | case2 s before afterOpen h1 h2 => simp [segments_open_only h1 h2, Seg.src]
  | case3 s before afterOpen h1 code afterClose h2 ih =>
    simp [segments_both h1 h2, Seg.src]
    rw [ih]
    obtain ⟨e1, _⟩ := splitOpen_spec h1
    obtain ⟨e2, _⟩ := splitClose_spec h2
    rw [e1, e2]

/-- A code segment ends at the *first* closing marker after its opening marker. -/
theorem code_has_no_close (s : Str) : ∀ c, Seg.code c ∈ segments s → hasClose c = false := by
  induction s using segments.induct with
  | case1 s h1 => intro c h; simp [segments_none h1] at h
  | case2 s before afterOpen h1 h2 => intro c h; simp [segments_open_only h1 h2] at h
  | case3 s before afterOpen h1 code afterClose h2 ih =>
    intro c h
    simp [segments_both h1 h2] at h
    rcases h with rfl | h
    · exact (splitClose_spec h2).2
    · exact ih c h

/-- C14 (once, left to right): whatever the substitutions return — even text full of
    markers — the calls made to `ev` are exactly the literal's own expressions, each
    once, in order. -/
theorem calls_are_the_literals_own (ev : Str → Str) (s : Str) :
    (interpLog ev s).2 = evaluated s := by
  simp [interpLog, evaluated, foldl_log]

/-- the instrumented run computes the same text as `interp` -/
theorem interpLog_fst (ev : Str → Str) (s : Str) : (interpLog ev s).1 = interp ev s := by
  simp [interpLog, interp, foldl_log]

/-- C14 (no rescan): the output is the concatenation of the literal's own text segments
    and the raw results of `ev`, copied verbatim. -/
theorem interp_is_concat (ev : Str → Str) (s : Str) :
    interp ev s = ((segments s).map (Seg.out ev)).flatten := by
  simp [interp, List.flatMap]

/-- C14 (data cannot become code): two evaluators that agree on the literal's own
    expressions produce the same string — what a substitution returns has no influence on
    which further expressions are evaluated. -/
theorem substitution_not_rescanned (ev ev' : Str → Str) (s : Str)
    (h : ∀ c ∈ evaluated s, ev c = ev' c) : interp ev s = interp ev' s := by
  unfold interp
  suffices h' : ∀ segs : List Seg, (∀ c, Seg.code c ∈ segs → ev c = ev' c) →
      segs.flatMap (Seg.out ev) = segs.flatMap (Seg.out ev') by
    apply h'
    intro c hc
    apply h
    exact mem_codes _ c hc
  intro segs
  induction segs with
  | nil => intro _; rfl
  | cons seg segs ih =>
    intro hh
    simp only [List.flatMap_cons]
    rw [ih (fun c hc => hh c (List.mem_cons_of_mem _ hc))]
    cases seg with
    | text t => rfl
    | code c => simp only [Seg.out]; rw [hh c (List.mem_cons_self)]

/-- C14 (one pass, total): interpolation is a total function (structural recursion on the
    remaining suffix, accepted by the kernel) and evaluates at most `|literal| / 4`
    expressions, for every arrangement of markers. -/
theorem interp_total_bounded (ev : Str → Str) (s : Str) :
    ∃ out, interp ev s = out ∧ 4 * (interpLog ev s).2.length ≤ s.length :=
  ⟨_, rfl, by rw [calls_are_the_literals_own]; exact evaluated_len s⟩

/-- a literal without an opening marker is returned untouched -/
theorem interp_no_marker (ev : Str → Str) (s : Str) (h : splitOpen s = none) : interp ev s = s := by
  simp [interp, segments_none h, Seg.out]

/-- a raw string is returned untouched -/
theorem raw_untouched (ev : Str → Str) (s : Str) : evalLiteral false ev s = s := rfl

/-! Non-vacuity: concrete literals (as byte lists) exercising the statements. -/

-- "x{{a}}y}}{{" where `a` evaluates to "{{b}}": the substitution is copied verbatim,
-- unmatched markers stay
example : interp (fun c => if c = [97] then [123,123,98,125,125] else [63])
    [120,123,123,97,125,125,121,125,125,123,123]
    = [120,123,123,98,125,125,121,125,125,123,123] := by
  rw [interp, segments_fuel]; decide
-- "}} {{" (closing marker before the opening one) is returned as it is
example : interp (fun _ => [63]) [125,125,32,123,123] = [125,125,32,123,123] := by
  rw [interp, segments_fuel]; decide
-- "{{a}}{{b}}" evaluates a then b
example : evaluated [123,123,97,125,125,123,123,98,125,125] = [[97],[98]] := by
  rw [evaluated, segments_fuel]; decide
-- "{{a{{b}}c}}" evaluates the single expression "a{{b"
example : evaluated [123,123,97,123,123,98,125,125,99,125,125] = [[97,123,123,98]] := by
  rw [evaluated, segments_fuel]; decide

end Ecal.Props.C14

/-! ## Negative witnesses: the loop as it was before the repair violates the property -/
namespace Ecal.Props.C14
open Ecal.Interp Ecal.InterpPristine

/-- `a` holds the text `{{b}}`, `b` holds `B`: the old loop evaluated the substituted text
    again (`"{{a}}"` gave `B`), the one-pass model returns `{{b}}`. -/
theorem rescan_witness :
    let ev : Str → Str := fun c => if c = [97] then [123,123,98,125,125] else if c = [98] then [66] else [63]
    loop ev 10 [123,123,97,125,125] = Out.ok [66] ∧
    interp ev [123,123,97,125,125] = [123,123,98,125,125] := by
  refine ⟨by decide, ?_⟩
  rw [interp, segments_fuel]; decide

/-- `"}} {{"` made the old loop slice out of range. -/
theorem slice_panic_witness : loop (fun _ => []) 10 [125,125,32,123,123] = Out.panic := by decide

/-- A value that reproduces itself (`c` holds `{{c}}`) kept the old loop running for ever:
    no amount of fuel suffices. -/
theorem self_reproducing_diverges (fuel : Nat) :
    loop (fun _ => [123,123,99,125,125]) fuel [123,123,99,125,125] = Out.outOfFuel := by
  induction fuel with
  | zero => rfl
  | succ n ih =>
    have h : loop (fun _ => [123,123,99,125,125]) (n + 1) [123,123,99,125,125]
        = loop (fun _ => [123,123,99,125,125]) n [123,123,99,125,125] := by
      rw [loop]
      have h1 : getInfix [123,123,99,125,125] = some (some [99]) := by decide
      have h2 : replaceFirst (123 :: 123 :: [99] ++ [125, 125]) [123,123,99,125,125]
          ([123,123,99,125,125].length + 1) [123,123,99,125,125] = [123,123,99,125,125] := by decide
      simp only [h1]
      rw [if_neg (by decide), h2]
    rw [h, ih]

end Ecal.Props.C14
