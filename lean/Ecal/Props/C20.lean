import Ecal.Lemmas.Pack
import Ecal.Gen.C20
/-!
# C20 — a packed executable always finds and runs its embedded program

Model: `Ecal.Pack` (lean/Ecal/Model/Pack.lean) — the file layout written by
`CLIPacker.Pack` and the marker scan of `RunPackedBinary` (block loop with overlap,
skip of white-space/control bytes, section handed to the zip reader), over byte
lists. The geometry (`bufSize = b1+b2`, `keep`, the marker and the pieces it is
assembled from) is `Ecal.Gen.C20`, regenerated from cli/tool/pack.go on every run.

All theorems hold for **every** binary length and content, every archive, and
every read schedule `rd` (any mixture of full and short reads). What is outside
the model: the zip writer/reader pair (Go standard library) and the interpreter —
tied in by the correspondence run (files compared byte by byte, exit code).
-/
namespace Ecal.Props.C20
open Ecal.Pack

/-- the scanner geometry as regenerated from pack.go -/
def geom : Geom := { bufSize := Ecal.Gen.C20.bufSize, keep := Ecal.Gen.C20.keep, marker := Ecal.Gen.C20.marker }

instance (M l : List Nat) (i : Nat) : Decidable (occ M l i) := by unfold occ; infer_instance

/-! ## Side obligations on the generated geometry (re-checked on every run) -/

/-- the marker is not empty (`keep := len(packmarker) - 1` is not negative) -/
theorem geom_marker_nonempty : geom.marker ≠ [] := by decide

/-- the part of a block that is kept can hold a marker minus one byte: a marker that is
    not completely inside one window is completely inside the next -/
theorem geom_keep_covers_marker : geom.marker.length ≤ geom.keep + 1 := by decide

/-- the kept part leaves room in the buffer: every read gets a non-empty slice -/
theorem geom_keep_lt_buf : geom.keep < geom.bufSize := by decide

/-- the first byte of a zip archive (`P` of the local file header signature) is not one of the bytes
    the code skips after the marker (`isSkip` IS the table regenerated from the code's predicate) -/
theorem zip_signature_not_skipped : isSkip 80 = false := by decide

/-! `Ecal.Gen.C20.extractProblems` lists what the extractor could not translate (reference values
stand there). It is deliberately NOT an obligation: a rewrite the extractor does not understand is
not a defect. The check records the list in the evidence and amplifies the sweep instead; the
obligations here are about the values that WERE extracted. -/

/-- Recorded fact (three-valued, regenerated): it is NOT established that `main` reaches
    `tool.RunPackedBinary()` only under a condition. `some true` = first statement, unconditional;
    `none` = shape not recognised — then only the process cases (argument lists built from the string
    literals of cli/ecal.go) speak, and they are amplified. -/
theorem main_call_not_guarded : Ecal.Gen.C20.mainCallsRunPackedFirst ≠ some false := by decide

/-- Recorded fact (three-valued, regenerated), not a theorem about locating: it is NOT established that
    the file to scan is determined from `argv[0]` alone. The behaviour (which file is scanned for each
    way of starting, incl. a sibling `.exe`) is tied by the process / out cases only. -/
theorem locate_not_by_argv0_alone : Ecal.Gen.C20.locateUsesOsExecutable ≠ some false := by decide

/-! ## The property -/

/-- **The archive is found.** For every binary `bin` (any length, any content) such that no
    occurrence of the marker starts inside `bin` — looking at `bin` followed by the marker
    itself — every archive `zip` that starts with a byte which is neither white-space nor
    control (a zip archive starts with `P`), and every read schedule: the scan of the packed
    file returns exactly the offset of the archive, `|bin| + |marker|`.
    `hbin` also excludes the marker occurring as a string constant inside the Go binary; for the
    REAL interpreter built from the tree under test it is checked at run time on the binary itself
    (correspondence case `realbin`, and `srcmarker=0` in the process cases). -/
theorem scan_finds_archive (rd : Nat → Nat → Nat) (bin zip : List Nat) (c : Nat) (cs : List Nat)
    (hzip : zip = c :: cs) (hc : isSkip c = false)
    (hbin : ∀ j, j < bin.length → ¬ occ geom.marker (bin ++ geom.marker) j) :
    Impl.scan geom rd (layout geom.marker bin zip) = .found (bin.length + geom.marker.length) := by
  have hM := geom_marker_nonempty
  have hpre : bin ++ geom.marker <+: layout geom.marker bin zip := by
    unfold layout; exact List.prefix_append _ _
  have hfirst : ∀ j, j < bin.length → ¬ occ geom.marker (layout geom.marker bin zip) j := by
    intro j hj h
    exact hbin j hj (occ_within h hpre (by simp; omega))
  have h := Impl.scanLoop_found geom rd geom_keep_lt_buf geom_keep_covers_marker hM
    (layout geom.marker bin zip) bin.length (occ_layout _ _ _) hfirst
    ((layout geom.marker bin zip).length + 1) (layout geom.marker bin zip) [] []
    (by simp) (by simp) (by simp) (by omega)
  have hdrop : (layout geom.marker bin zip).drop (bin.length + geom.marker.length) = c :: cs := by
    have : (bin ++ geom.marker).length = bin.length + geom.marker.length := by simp
    unfold layout; rw [← this, List.drop_left, hzip]
  unfold Impl.scan
  simp only [List.length_nil] at h
  rw [h]
  simp only
  rw [Impl.skipCtl_stop _ _ c cs hdrop hc]

/-- non-vacuity: a binary that is full of marker fragments, with the real geometry -/
example : Impl.scan geom Impl.fullReads (layout geom.marker [10, 35, 35, 35, 35, 69, 10, 35] [80, 75, 3, 4])
    = .found (8 + geom.marker.length) :=
  scan_finds_archive _ _ _ 80 [75, 3, 4] rfl (by decide) (by decide)

/-- **The zip reader gets exactly the archive** (same hypotheses): the section
    `[pos, size)` of the packed file is `zip`, byte for byte. -/
theorem archive_exact (rd : Nat → Nat → Nat) (bin zip : List Nat) (c : Nat) (cs : List Nat)
    (hzip : zip = c :: cs) (hc : isSkip c = false)
    (hbin : ∀ j, j < bin.length → ¬ occ geom.marker (bin ++ geom.marker) j) :
    Impl.archive geom rd (layout geom.marker bin zip) = some zip := by
  unfold Impl.archive
  rw [scan_finds_archive rd bin zip c cs hzip hc hbin]
  have : (bin ++ geom.marker).length = bin.length + geom.marker.length := by simp
  simp only
  unfold layout; rw [← this, List.drop_left]

example : Impl.archive geom Impl.fullReads (layout geom.marker [35, 10, 35] [80, 75, 3, 4, 10, 35]) = some [80, 75, 3, 4, 10, 35] :=
  archive_exact _ _ _ 80 [75, 3, 4, 10, 35] rfl (by decide) (by decide)

/-- **The scan is the specification, on every file**: for every byte list `data` (packed or
    not, marker present or not) and every read schedule, the block loop returns what one
    `strings.Index` over the whole file would return. -/
theorem scan_eq_spec (rd : Nat → Nat → Nat) (data : List Nat) :
    Impl.scan geom rd data =
      match Spec.find geom.marker data with
      | some p => .found (Impl.skipCtl data p)
      | none => .notFound := by
  unfold Impl.scan
  rw [Impl.scanLoop_eq_spec geom rd geom_keep_lt_buf geom_keep_covers_marker geom_marker_nonempty data]
  cases Spec.find geom.marker data <;> rfl

/-- **Every partial read is covered by the schedule quantifier.** A read into a slice of `room > 0`
    bytes with `avail > 0` bytes left returns `readLen room avail want` bytes: always between 1 and
    `min room avail`, and EVERY such count `k` is produced by some `want` (namely `k`). So `∀ rd` in the
    theorems ranges over all behaviours of a reader that returns at least one byte per call before
    the end — full blocks, short reads, EINTR-style interrupted reads, one byte at a time. (Not
    covered: a read that fails with an error other than EOF — the Go loop then ends silently and
    RunPackedBinary falls through; declared assumption. `0, nil` reads do not occur with os.File.) -/
theorem read_schedule_covers_every_partial_read (room avail : Nat) (hr : 0 < room) (ha : 0 < avail) :
    (∀ want, 1 ≤ Impl.readLen room avail want ∧ Impl.readLen room avail want ≤ min room avail) ∧
    (∀ k, 1 ≤ k → k ≤ min room avail → Impl.readLen room avail k = k) := by
  constructor
  · intro want; unfold Impl.readLen; omega
  · intro k h1 h2; unfold Impl.readLen; omega

/-- **The result does not depend on how the reads are cut**: any two read schedules give the same
    scan result on every file. -/
theorem scan_independent_of_read_schedule (rd₁ rd₂ : Nat → Nat → Nat) (data : List Nat) :
    Impl.scan geom rd₁ data = Impl.scan geom rd₂ data := by
  rw [scan_eq_spec rd₁, scan_eq_spec rd₂]

example : Impl.scan geom (fun _ _ => 1) (layout geom.marker [35, 10, 35, 35] [80, 75]) = .found (4 + geom.marker.length) := by
  decide

/-- **Totality.** On every file and read schedule the loop terminates (never `hang`: every
    iteration consumes input), no slice expression of the loop is out of range (never `panic`: at
    most `keep < bufSize` bytes are carried over), an offset it returns lies inside the file (it may
    be the end of the file: an empty section, which the zip reader rejects) (nothing is indexed
    past the data; the skip loop stops at the end of the file), and a file without marker
    makes `RunPackedBinary` fall through to the normal command line. -/
theorem scan_total (rd : Nat → Nat → Nat) (data : List Nat) :
    Impl.scan geom rd data ≠ .hang ∧ Impl.scan geom rd data ≠ .panic ∧
    (∀ p, Impl.scan geom rd data = .found p → p ≤ data.length) ∧
    ((∀ j, ¬ occ geom.marker data j) → Impl.scan geom rd data = .notFound) := by
  rw [scan_eq_spec]
  unfold Spec.find
  cases hf : findFirst geom.marker data with
  | none =>
    refine ⟨by simp, by simp, by simp, by simp⟩
  | some i =>
    obtain ⟨h1, _⟩ := findFirst_some hf
    have hb := occ_bound geom_marker_nonempty h1
    refine ⟨by simp, by simp, ?_, ?_⟩
    · intro p hp
      simp only [Option.map_some, Res.found.injEq] at hp
      subst hp
      exact Impl.skipCtl_le _ _ hb
    · intro hno; exact absurd h1 (hno i)

/-- non-vacuity of the last part: a plain binary that ends inside a marker -/
example : Impl.scan geom Impl.fullReads [1, 2, 3, 10, 35, 35, 35, 35, 69, 67] = .notFound := by decide

/-- **First occurrence wins.** If the file contains the marker, the scan returns the offset
    after its FIRST occurrence (then skips white-space). In particular, when the source binary
    itself contains the complete marker, or ends with the beginning of the marker so that an
    occurrence straddles the end of the binary, that earlier occurrence is taken: such
    binaries are outside the property (ambiguous by design), see the witnesses below. -/
theorem scan_first_occurrence (rd : Nat → Nat → Nat) (data : List Nat) (idx : Nat)
    (hocc : occ geom.marker data idx) (hfirst : ∀ j, j < idx → ¬ occ geom.marker data j) :
    Impl.scan geom rd data = .found (Impl.skipCtl data (idx + geom.marker.length)) := by
  have h := Impl.scanLoop_found geom rd geom_keep_lt_buf geom_keep_covers_marker geom_marker_nonempty
    data idx hocc hfirst (data.length + 1) data [] [] (by simp) (by simp) (by simp) (by omega)
  unfold Impl.scan
  simp only [List.length_nil] at h
  rw [h]

/-- witness: a binary containing the complete marker — the scan stops there, not at the archive -/
example : Impl.scan geom Impl.fullReads (layout geom.marker ([7] ++ geom.marker ++ [65, 66]) [80, 75])
    = .found (1 + geom.marker.length) := by decide

/-- witness: a binary that does NOT contain the marker but ends with all of it except the last
    byte; the marker's last byte equals its first, so an occurrence starts inside the binary -/
example : (∀ j, ¬ occ geom.marker (7 :: geom.marker.dropLast) j) ∧
    Impl.scan geom Impl.fullReads (layout geom.marker (7 :: geom.marker.dropLast) [80, 75])
      = .found (1 + geom.marker.length) := by
  constructor
  · intro j
    by_cases h : j < 18
    · revert j; decide
    · intro ho
      have := occ_bound geom_marker_nonempty ho
      have h17 : geom.marker.length = 17 := by decide
      have h16 : (7 :: geom.marker.dropLast).length = 17 := by decide
      omega
  · decide

/-- **White-space after the marker is skipped** (what the skip loop is for: the marker line
    may end in `\r\n`, pack_test.go adds `\n\n\n`): with a run `ws` of space/control bytes
    between marker and archive the offset is the one after the run. -/
theorem scan_skips_whitespace (rd : Nat → Nat → Nat) (bin ws : List Nat) (c : Nat) (cs : List Nat)
    (hws : ∀ b ∈ ws, isSkip b = true) (hc : isSkip c = false)
    (hbin : ∀ j, j < bin.length → ¬ occ geom.marker (bin ++ geom.marker) j) :
    Impl.scan geom rd (layout geom.marker bin (ws ++ c :: cs))
      = .found (bin.length + geom.marker.length + ws.length) := by
  have hpre : bin ++ geom.marker <+: layout geom.marker bin (ws ++ c :: cs) := by
    unfold layout; exact List.prefix_append _ _
  have hfirst : ∀ j, j < bin.length → ¬ occ geom.marker (layout geom.marker bin (ws ++ c :: cs)) j := by
    intro j hj h
    exact hbin j hj (occ_within h hpre (by simp; omega))
  rw [scan_first_occurrence rd _ bin.length (occ_layout _ _ _) hfirst]
  have hdrop : (layout geom.marker bin (ws ++ c :: cs)).drop (bin.length + geom.marker.length) = ws ++ c :: cs := by
    have : (bin ++ geom.marker).length = bin.length + geom.marker.length := by simp
    unfold layout; rw [← this, List.drop_left]
  unfold Impl.skipCtl
  rw [hdrop, Impl.skipFrom_run ws c cs _ hws hc]

example : Impl.scan geom Impl.fullReads (layout geom.marker [1, 2] ([13, 10] ++ 80 :: [75]))
    = .found (2 + geom.marker.length + 2) :=
  scan_skips_whitespace _ _ _ _ _ (by decide) (by decide) (by decide)

/-! ## After the scan: exit, fall through, fail -/

/-- **A packed executable runs its entry.** Same hypotheses as `scan_finds_archive`, plus the named
    facts about the parts that are not modelled (seek works, the zip reader accepts the archive it is
    handed — by `archive_exact` exactly the one that was written —, the entry parses): the exit
    callback is reached with the entry's result. -/
theorem packed_runs_entry (rd : Nat → Nat → Nat) (bin zip : List Nat) (c : Nat) (cs : List Nat) (a : After)
    (hzip : zip = c :: cs) (hc : isSkip c = false)
    (hbin : ∀ j, j < bin.length → ¬ occ geom.marker (bin ++ geom.marker) j)
    (hseek : a.seekOk = true) (hz : a.zipOk = true) (he : a.entryOk = true) :
    outcome (Impl.scan geom rd (layout geom.marker bin zip)) a = .exit a.result := by
  rw [scan_finds_archive rd bin zip c cs hzip hc hbin]
  simp [outcome, hseek, hz, he]

/-- **It never falls through (or hangs) because of the scan**: for a packed file the only other
    outcome is `fail`, and only when one of the named facts is false. -/
theorem packed_never_falls_through (rd : Nat → Nat → Nat) (bin zip : List Nat) (c : Nat) (cs : List Nat) (a : After)
    (hzip : zip = c :: cs) (hc : isSkip c = false)
    (hbin : ∀ j, j < bin.length → ¬ occ geom.marker (bin ++ geom.marker) j) :
    outcome (Impl.scan geom rd (layout geom.marker bin zip)) a = .exit a.result ∨
    (outcome (Impl.scan geom rd (layout geom.marker bin zip)) a = .fail ∧
      (a.seekOk = false ∨ a.zipOk = false ∨ a.entryOk = false)) := by
  rw [scan_finds_archive rd bin zip c cs hzip hc hbin]
  cases h1 : a.seekOk <;> cases h2 : a.zipOk <;> cases h3 : a.entryOk <;> simp [outcome, h1, h2, h3]

/-- **A plain interpreter binary starts the normal command line**: no marker in the file ⇒ fall through,
    whatever the other facts are. -/
theorem plain_binary_falls_through (rd : Nat → Nat → Nat) (data : List Nat) (a : After)
    (h : ∀ j, ¬ occ geom.marker data j) : outcome (Impl.scan geom rd data) a = .fallThrough := by
  rw [(scan_total rd data).2.2.2 h]; rfl

example : outcome (Impl.scan geom Impl.fullReads (layout geom.marker [1, 2] [80, 75]))
    { seekOk := true, zipOk := false, entryOk := true, result := 5 } = .fail := by decide

/-! ## Packing into a target that already exists -/

/-! ### Witnesses and definitional facts (NOT obligations on the code: they are `example`s)

There is no obligation here: that an existing target does not leave a stale tail is established by the
sequence cases (byte compare with a fresh pack). What follows explains the model (`writeFrom0 .truncate`
returns the new content by definition) and what the non-truncating variant would do. -/

/-- **The layout has no memory.** With a truncating open, whatever the target contained before —
    nothing, an unrelated file of any length, or the result of an earlier pack of another project
    onto another binary — after packing it is exactly `bin₂ ++ marker ++ zip₂`. -/
example (M old bin₁ zip₁ bin₂ zip₂ : List Nat) :
    pack .truncate M (pack .truncate M old bin₁ zip₁) bin₂ zip₂ = layout M bin₂ zip₂ ∧
    pack .truncate M old bin₂ zip₂ = layout M bin₂ zip₂ := ⟨rfl, rfl⟩

/-- … and the zip reader is then handed the archive PLUS the stale tail (which ends in the old
    archive's end record): not the archive that was packed. Same hypotheses as `archive_exact`. -/
example (rd : Nat → Nat → Nat) (old bin zip : List Nat) (c : Nat) (cs : List Nat)
    (hzip : zip = c :: cs) (hc : isSkip c = false)
    (hbin : ∀ j, j < bin.length → ¬ occ geom.marker (bin ++ geom.marker) j)
    (h : (layout geom.marker bin zip).length < old.length) :
    Impl.archive geom rd (pack .keepOld geom.marker old bin zip)
      = some (zip ++ old.drop (layout geom.marker bin zip).length) ∧
    zip ++ old.drop (layout geom.marker bin zip).length ≠ zip := by
  obtain ⟨h1, h2⟩ := pack_keepOld_stale_tail geom.marker old bin zip h
  constructor
  · rw [h1]
    exact archive_exact rd bin _ c (cs ++ old.drop (layout geom.marker bin zip).length)
      (by rw [hzip]; rfl) hc hbin
  · intro heq
    have := congrArg List.length heq
    simp only [List.length_append] at this
    have : (old.drop (layout geom.marker bin zip).length).length = 0 := by omega
    exact h2 (List.length_eq_zero_iff.mp this)

/-- negative witness, two steps: a big project, then a small one into the same target, without
    truncation — the file is not the layout of the second pack; with truncation it is -/
example :
    pack .keepOld [10, 35, 10] (pack .keepOld [10, 35, 10] [] [1, 2] [80, 75, 9, 9, 9, 9, 80, 75, 5, 6]) [3] [80, 75, 5, 6]
      ≠ layout [10, 35, 10] [3] [80, 75, 5, 6] ∧
    pack .truncate [10, 35, 10] (pack .truncate [10, 35, 10] [] [1, 2] [80, 75, 9, 9, 9, 9, 80, 75, 5, 6]) [3] [80, 75, 5, 6]
      = layout [10, 35, 10] [3] [80, 75, 5, 6] := by decide

/-! ## The scanner before the repair (negative witness, reduced geometry)

`Old.scan` is the loop as it was before fix a0bf548 (stride `b1`, `#` pre-filter, second read of
`b2` bytes). Reduced geometry: `b1 = 8`, `b2 = 5`, marker `\n#\n`. -/

/-- the marker crosses the block boundary, the first block has no `#`: the old scanner misses
    the archive although the file contains the marker (the specification finds it at 10) -/
example :
    Old.scan 8 5 [10, 35, 10] (layout [10, 35, 10] (List.replicate 7 97) [80, 75]) = .notFound ∧
    Spec.find [10, 35, 10] (layout [10, 35, 10] (List.replicate 7 97) [80, 75]) = some 10 := by decide

/-- the marker ends exactly at the end of the candidate (`buf ++ buf2`): the old skip loop
    indexes one past it (Go: index out of range; real geometry: |bin| = 4107 with `#`) -/
example :
    Old.scan 8 5 [10, 35, 10] (layout [10, 35, 10] (35 :: List.replicate 9 97) [80, 75]) = .panic := by decide

/-- the loop of today's code with the same reduced sizes finds it -/
example :
    Impl.scan { bufSize := 8 + 5, keep := 2, marker := [10, 35, 10] } Impl.fullReads
      (layout [10, 35, 10] (List.replicate 7 97) [80, 75]) = .found 10 ∧
    Impl.scan { bufSize := 8 + 5, keep := 2, marker := [10, 35, 10] } Impl.fullReads
      (layout [10, 35, 10] (35 :: List.replicate 9 97) [80, 75]) = .found 13 := by decide

end Ecal.Props.C20
