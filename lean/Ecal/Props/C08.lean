import Ecal.Model.PrattTable
import Ecal.Lemmas.C08Pratt
import Ecal.Lemmas.C08Quote
import Ecal.Lemmas.C08Minimal
import Ecal.Lemmas.C08QuoteReal
import Ecal.Lemmas.C08Templates
import Ecal.Lemmas.C08Splice
import Ecal.Lemmas.C08RealParse
/-!
# C08 — formatting preserves program meaning and is idempotent

Which theorem is about which model:

* **Expression-level model** (`Ecal.C08`, Model/PrattPrint.lean + PrattTable.lean): operator trees of any
  depth over the infix/prefix operators and binding powers of the REAL table (`Ecal.Gen.C08`, regenerated
  from parser.go / prettyprinter.go on every run), the Pratt parser (`run`, `ndPrefix`, `ldInfix`,
  `ndInner`), and the printer restricted to operator trees (children first, parentheses by
  `ppNeedsBrackets` — `annotW br` for any rule `br`; the drivers run `br = realBr`, the rule extracted from the
  Go source). Theorems `printer_brackets_suffice`, `print_parse_expr_partial`, `print_parse_expr_real_rule_partial`,
  `print_idempotent_expr_partial`, `mul_right_brackets_witness` are about this model.
* **Real printer and lexer models**: `quote_lex_roundtrip` is about `Ecal.Print.quote` (Printer.lean) and
  `Ecal.Lex.lexValue` (Lexer.lean) — the functions the drivers of C08 / C07 / C18 run.
* **Simplified string-literal model** (`Ecal.C08.Q`, Lemmas/C08Quote.lean): `quote_lex_roundtrip_simple_model`,
  `string_kind_roundtrip_partial`, `raw_string_kind_witness`.
* **Full printer model** (`Ecal.Print`, Model/Printer.lean — text with templates, indentation, comments):
  tied to prettyprinter.go byte for byte by the correspondence run; theorems
  `model_rule_is_generated_rule` / `abstract_rule_is_generated_rule` pin its bracket rule and the
  expression-level rule to the rule extracted from the Go source, and the driver compares the two
  models' output on every pure operator expression. Statements, comments and blank lines are covered
  by the correspondence run only (Go's own round trip), not by a theorem.

Full-strength statement (NOT proved, and false for the code as it is):
  for every source `s` that parses to `t`: `parse (print t) ≈ t` (≈ ignores positions, comments, blank
  lines; includes the raw/interpolating kind) and `print (parse (print t)) = print t`.
Proved: the `…_partial` theorems below — operator trees of any depth without a product/quotient as the
right operand of a product; quoted (non-raw) string literals. Negative witnesses for the two excluded
classes (known findings `mul-right-brackets`, `raw-string-kind`).
-/
namespace Ecal.Props.C08
open Ecal.C08 Ecal.Gen.C08

/-! ## facts regenerated from the Go source, re-checked on every run -/

/-- The extractor understood `astNodeMap` and `ndPrefix` (the operator table below is the real one). -/
theorem gen_table_ok : tableOk = true := by decide

/-- The real table has the operators the model talks about (non-vacuity of everything below). -/
theorem gen_table_nonempty : infixOps.length ≥ 19 ∧ prefixOps.length ≥ 3 := by decide

/-- Boolean form of sufficiency over the real table: wherever parentheses are NECESSARY (`need`), the rule `br`
    writes them — except at the known exception (right operand under a product with a pure chain) -/
def suffCheck (br : Head → Head → Nat → Bool → Bool) : Bool :=
  allHeads.all fun p => allHeads.all fun c => [0, 1].all fun i => [true, false].all fun pure =>
    !(need realPowers p c i) || br p c i pure ||
      (match p, c with | .bin K, .bin k => decide (i > 0) && realExc K k && pure | _, _ => false)

/-- **The bracket rule EXTRACTED from prettyprinter.go suffices** on the real table — an obligation whenever
    `ppNeedsBrackets` could be translated (`shapeOk`). It demands sufficiency, not equality with a hand-written
    rule: a printer edit that writes MORE parentheses keeps it true, one that drops necessary parentheses breaks
    it. (If the rule could not be translated it is "not established": the check says so in its evidence and runs
    the exhaustive depth-2/3 operator nestings through the real printer instead.) -/
theorem generated_rule_suffices : shapeOk = true → suffCheck genBr = true := by decide

/-- the hand port in Printer.lean (the fallback the printer model runs when the rule is not established) suffices -/
theorem hand_port_suffices :
    suffCheck (fun p c i pure => Ecal.Print.needsBrackets (nodeOf p) (nodeOf c pure) i) = true := by decide

theorem suff_of_check (br : Head → Head → Nat → Bool → Bool) (h : suffCheck br = true) :
    Suff realPowers realExc br inTable := by
  intro p c i pure hp hc hi hn
  have hp' : p ∈ allHeads := by simpa [inTable] using hp
  have hc' : c ∈ allHeads := by simpa [inTable] using hc
  have hi' : i ∈ [0, 1] := by
    have : i = 0 ∨ i = 1 := by omega
    rcases this with rfl | rfl <;> simp
  have hpu : pure ∈ [true, false] := by cases pure <;> simp
  have := List.all_eq_true.mp (List.all_eq_true.mp (List.all_eq_true.mp (List.all_eq_true.mp h p hp') c hc') i hi') pure hpu
  simp only [hn, Bool.not_true, Bool.false_or, Bool.or_eq_true] at this
  rcases this with h1 | h2
  · exact Or.inl h1
  · right
    cases p with
    | atom => simp at h2
    | pre K => simp at h2
    | bin K =>
      cases c with
      | atom => simp at h2
      | pre k => simp at h2
      | bin k =>
        simp only [Bool.and_eq_true, decide_eq_true_eq] at h2
        exact ⟨K, k, rfl, rfl, h2.1.1, h2.1.2, h2.2⟩

/-- **Bracket rule of `return <value>`** (fixes/C08-return-operand-brackets): under every operator head of
    the real table — infix, prefix, `let`, `not`, sink attribute, either side — a return with a value is
    parenthesised, by the expression-level rule and (when translated) by the rule extracted from the Go
    source; as a parent it never parenthesises its operand (it is parsed with right binding 0 and takes
    everything that follows). -/
theorem return_operand_bracketed : realPowers.stmt iReturn = true ∧
    (allHeads.all fun p => [0, 1].all fun i =>
      (p == Head.atom || p == Head.pre iReturn || nb realPowers realExc p (.pre iReturn) i true) &&
      !(nb realPowers realExc (.pre iReturn) p i true) &&
      (!shapeOk || p == Head.atom || p == Head.pre iReturn || needsBrackets (bnOf p) (bnOf (.pre iReturn)) i)) = true := by
  decide

/-- `(return a) + b`, `not (return a) and b`, `x := (return 1) + 2` are read back unchanged. -/
example : [Expr.bin 0 (Expr.pre iReturn (Expr.atom 0)) (Expr.atom 1),
           Expr.bin 1 (Expr.atom 0) (Expr.bin 2 (Expr.pre iReturn (Expr.atom 1)) (Expr.atom 2)),
           Expr.pre 1 (Expr.bin 3 (Expr.pre iReturn (Expr.atom 0)) (Expr.atom 1))].all
    (fun e => run realPowers 40 0 (printToks realPowers realExc e) == some (e, [])) = true := by decide

theorem infix_bindings_positive : (infixOps.all fun e => decide (0 < e.2)) = true := by decide

/-- side condition: every infix operator of the real table has a positive binding -/
theorem real_bp_pos : ∀ k, 0 < realPowers.bp k := by
  intro k
  show 0 < ((infixOps[k]?).map (·.2)).getD 1
  cases hk : infixOps[k]? with
  | none => simp
  | some x =>
    have hm : x ∈ infixOps := List.mem_of_getElem? hk
    have := List.all_eq_true.mp infix_bindings_positive x hm
    simpa using this

/-- side condition: the exception only concerns children that bind at least as tightly as the parent -/
theorem real_exc_tight : ∀ K k, realExc K k = true → realPowers.bp K ≤ realPowers.bp k := by
  intro K k h
  simp only [realExc, Bool.and_eq_true, Bool.or_eq_true, decide_eq_true_eq] at h
  obtain ⟨hK, hk⟩ := h
  subst hK
  rcases hk with hk | hk <;> subst hk <;> decide

/-! ## expressions -/

/-- **The printer's brackets suffice.** For every operator tree (any depth) over the real table that has
    no product/quotient as the right operand of a product, the parentheses chosen by the local rule
    `ppNeedsBrackets` are admissible (`Ok`): every unparenthesised operator binds tighter than the right
    binding in force, and no prefix operator is followed by an operator it would capture — i.e. the
    printer parenthesises wherever the minimal unparser must. -/
theorem printer_brackets_suffice (e : Expr) (h : hasExc realPowers realExc e = false) :
    Ok realPowers (annot realPowers realExc e) 0 0 :=
  annot_ok realPowers realExc real_bp_pos real_exc_tight e 0 0 h (adm_zero realPowers real_bp_pos e)

example : hasExc realPowers realExc (Expr.bin 1 (Expr.atom 0) (Expr.bin 1 (Expr.atom 1) (Expr.pre 2 (Expr.atom 2)))) = false := by decide

/-- The same for any table: positive infix bindings, prefix operand parsed at `pb k + off`, and an
    exception that only concerns children binding at least as tightly. -/
theorem printer_brackets_suffice_any_table (P : Powers) (exc : Nat → Nat → Bool)
    (hpos : ∀ k, 0 < P.bp k) (hexc : ∀ K k, exc K k = true → P.bp K ≤ P.bp k)
    (e : Expr) (h : hasExc P exc e = false) : Ok P (annot P exc e) 0 0 :=
  annot_ok P exc hpos hexc e 0 0 h (adm_zero P hpos e)

/-- Admissible parentheses are read back: the Pratt parser (relation) returns the tree. -/
theorem admissible_parses (P : Powers) (p : PExpr) (h : Ok P p 0 0) : Run P 0 p.flat p.strip [] := by
  have := ok_parses P p 0 0 0 [] p.strip [] (Nat.le_refl _) h (by simp [lbp]) (Loop.stop (by simp [lbp]))
  simpa using this

/-- **parse (print e) = e** for every operator tree of any depth over the real table outside the known
    class `mul-right-brackets`: the executable, fuel-indexed Pratt parser reads the printed tokens back
    to exactly `e` and consumes all of them.
    (`_partial`: the full statement has no hypothesis `h`; it is false, see `mul_right_brackets_witness`.) -/
theorem print_parse_expr_partial (e : Expr) (h : hasExc realPowers realExc e = false) :
    ∃ fuel, run realPowers fuel 0 (printToks realPowers realExc e) = some (e, []) := by
  have hr := admissible_parses realPowers _ (printer_brackets_suffice e h)
  rw [strip_annot] at hr
  exact Run.toFun realPowers hr

example : run realPowers 20 0 (printToks realPowers realExc
    (Expr.bin 1 (Expr.atom 0) (Expr.bin 1 (Expr.atom 1) (Expr.pre 2 (Expr.atom 2))))) =
    some (Expr.bin 1 (Expr.atom 0) (Expr.bin 1 (Expr.atom 1) (Expr.pre 2 (Expr.atom 2))), []) := by decide

/-- the rule the driver's printers run (`realBr`: the extracted rule when established, else `nb`) suffices on the
    real table -/
theorem real_rule_suffices : Suff realPowers realExc realBr inTable := by
  unfold realBr
  by_cases h : shapeOk = true
  · rw [if_pos h]; exact suff_of_check genBr (generated_rule_suffices h)
  · rw [if_neg h]
    intro p c i pure _ _ hi hn
    exact nb_suff realPowers realExc real_bp_pos real_exc_tight p c i pure rfl rfl hi hn

/-- **parse (print e) = e with the rule the printer models RUN** (`Ecal.C08.realBr` — `Ecal.Gen.C08.needsBrackets`
    regenerated from the Go source; the full printer model `Ecal.Print.visit` applies the same extracted rule):
    for every operator tree of any depth over the real table, outside the known class mul-right-brackets, the
    fuel-indexed Pratt parser reads the printed tokens back to exactly `e`. -/
theorem print_parse_expr_real_rule_partial (e : Expr) (hin : headsIn inTable e = true)
    (h : hasExc realPowers realExc e = false) :
    ∃ fuel, run realPowers fuel 0 (annotW realPowers realExc realBr e).flat = some (e, []) := by
  have hok := annotW_ok realPowers realExc realBr inTable real_bp_pos real_rule_suffices e 0 0 hin h
    (adm_zero realPowers real_bp_pos e)
  have hr := admissible_parses realPowers _ hok
  rw [strip_annotW] at hr
  exact Run.toFun realPowers hr

/-- **Any sufficient rule works**: more parentheses than necessary never hurt. -/
theorem print_parse_expr_any_sufficient_rule (br : Head → Head → Nat → Bool → Bool) (ok : Head → Bool)
    (hs : Suff realPowers realExc br ok) (e : Expr) (hin : headsIn ok e = true)
    (h : hasExc realPowers realExc e = false) :
    ∃ fuel, run realPowers fuel 0 (annotW realPowers realExc br e).flat = some (e, []) := by
  have hok := annotW_ok realPowers realExc br ok real_bp_pos hs e 0 0 hin h (adm_zero realPowers real_bp_pos e)
  have hr := admissible_parses realPowers _ hok
  rw [strip_annotW] at hr
  exact Run.toFun realPowers hr

example : headsIn inTable (Expr.bin 1 (Expr.atom 0) (Expr.bin 1 (Expr.atom 1) (Expr.pre 2 (Expr.atom 2)))) = true := by decide

/-- **Idempotence on operator trees**: printing what the parser reads from the printed text gives the
    same text (comment-free, blank-line-free expressions; outside `mul-right-brackets`). -/
theorem print_idempotent_expr_partial (e : Expr) (h : hasExc realPowers realExc e = false) :
    ∃ fuel e', run realPowers fuel 0 (printToks realPowers realExc e) = some (e', []) ∧
      printToks realPowers realExc e' = printToks realPowers realExc e := by
  obtain ⟨fuel, hf⟩ := print_parse_expr_partial e h
  exact ⟨fuel, e, hf, rfl⟩

/-- The minimal unparser (reference the printer's rule is measured against) is read back as well:
    `parse (pr e) = e` for ALL trees and every table with positive infix bindings. -/
theorem minimal_unparser_parses (P : Powers) (hpos : ∀ k, 0 < P.bp k) (e : Expr) :
    ∃ fuel, run P fuel 0 (pr P e 0 0) = some (e, []) :=
  Run.toFun P (pr_parses P hpos e)

/-- **Negative witness, known finding `mul-right-brackets`**: `a * (b * c)` is printed as `a * b * c`,
    which the parser reads as `(a * b) * c` — a different tree. -/
theorem mul_right_brackets_witness :
    ∃ e e', hasExc realPowers realExc e = true ∧
      run realPowers 10 0 (printToks realPowers realExc e) = some (e', []) ∧ e' ≠ e :=
  ⟨Expr.bin iTimes (Expr.atom 0) (Expr.bin iTimes (Expr.atom 1) (Expr.atom 2)),
   Expr.bin iTimes (Expr.bin iTimes (Expr.atom 0) (Expr.atom 1)) (Expr.atom 2), by decide, by decide, by decide⟩

/-- … and with a quotient: `a * (b / c)` comes back as `(a * b) / c`. -/
theorem mul_right_brackets_witness_div :
    ∃ e e', hasExc realPowers realExc e = true ∧
      run realPowers 10 0 (printToks realPowers realExc e) = some (e', []) ∧ e' ≠ e :=
  ⟨Expr.bin iTimes (Expr.atom 0) (Expr.bin iDiv (Expr.atom 1) (Expr.atom 2)),
   Expr.bin iDiv (Expr.bin iTimes (Expr.atom 0) (Expr.atom 1)) (Expr.atom 2), by decide, by decide, by decide⟩

/-! ## the known finding `mul-right-brackets`, made precise -/

/-- the exception of the real rule only relates operators of equal binding -/
theorem real_exc_equal : ∀ K k, realExc K k = true → realPowers.bp K = realPowers.bp k := by
  intro K k h
  simp only [realExc, Bool.and_eq_true, Bool.or_eq_true, decide_eq_true_eq] at h
  obtain ⟨hK, hk⟩ := h
  subst hK
  rcases hk with hk | hk <;> subst hk <;> decide

/-- **What the parser reads for `x * R` printed without brackets** (R a product / quotient whose chain of
    multiplicative operators is pure, fix C08-product-chain-brackets): exactly the SPLICED tree — `x` multiplied
    into the leftmost operand of `R`'s chain — provided no further exception occurs in it.
    (`_partial`: one exception at the root of the expression; nested ones are covered by the correspondence run,
    `eqm=ok`.) -/
theorem mul_right_reads_spliced_partial (x R : Expr)
    (hpure : chainPure realPowers realExc iTimes (realPowers.bp iTimes) R = true)
    (hfree : hasExc realPowers realExc (splice realPowers realExc iTimes x R) = false) :
    ∃ fuel, run realPowers fuel 0 (printToks realPowers realExc (.bin iTimes x R)) =
      some (splice realPowers realExc iTimes x R, []) := by
  obtain ⟨fuel, hf⟩ := print_parse_expr_partial _ hfree
  refine ⟨fuel, ?_⟩
  have := splice_print realPowers realExc iTimes real_exc_equal x R hpure
  simp only [printToks] at hf ⊢
  rw [← this]; exact hf

/-- `7 * ((3 * 2) / 2)` is read back as `((7 * 3) * 2) / 2` -/
example : run realPowers 20 0 (printToks realPowers realExc
      (.bin iTimes (.atom 0) (.bin iDiv (.bin iTimes (.atom 1) (.atom 2)) (.atom 3)))) =
    some (.bin iDiv (.bin iTimes (.bin iTimes (.atom 0) (.atom 1)) (.atom 2)) (.atom 3), []) := by decide

/-- **Value preserved up to re-association of `*` and `/`**: in every interpretation in which the product
    re-associates with product and quotient (`a * (b * c) = (a * b) * c`, `a * (b / c) = (a * b) / c` — true
    for real numbers, true for floats up to rounding), the spliced tree has the value of the original. Together
    with `mul_right_reads_spliced_partial`: formatting `x * (pure chain)` does not change what it computes. -/
theorem mul_right_value_preserved {α : Type} (A : Alg α)
    (hmul : ∀ a b c, A.op iTimes a (A.op iTimes b c) = A.op iTimes (A.op iTimes a b) c)
    (hdiv : ∀ a b c, A.op iTimes a (A.op iDiv b c) = A.op iDiv (A.op iTimes a b) c) (x R : Expr) :
    eval A (splice realPowers realExc iTimes x R) = eval A (.bin iTimes x R) := by
  apply splice_value A realPowers realExc iTimes _ x R
  intro k hk a b c
  simp only [realExc, Bool.and_eq_true, Bool.or_eq_true, decide_eq_true_eq] at hk
  rcases hk.2 with rfl | rfl
  · exact hmul a b c
  · exact hdiv a b c

/-- non-vacuity: integers with exact division fail the law, rationals satisfy it; here the trivial algebra of
    operator counts (`op _ a b = a + b + 1`) satisfies both laws -/
example : eval (⟨fun _ => 0, fun _ a b => a + b + 1, fun _ a => a + 1⟩ : Alg Nat)
      (splice realPowers realExc iTimes (.atom 0) (.bin iDiv (.atom 1) (.atom 2))) =
    eval ⟨fun _ => 0, fun _ a b => a + b + 1, fun _ a => a + 1⟩ (.bin iTimes (.atom 0) (.bin iDiv (.atom 1) (.atom 2))) :=
  mul_right_value_preserved _ (by intros; show _ + (_ + _ + 1) + 1 = _ + _ + 1 + _ + 1; omega) (by intros; show _ + (_ + _ + 1) + 1 = _ + _ + 1 + _ + 1; omega) _ _

/-- **With `//` or `%` on the chain the brackets are kept** (the defect repaired by C08-product-chain-brackets:
    `7 * ((3 % 2) / 2)` was printed `7 * 3 % 2 / 2`): the rule parenthesises, and the tree is read back unchanged. -/
example : let e := Expr.bin iTimes (.atom 0) (.bin iDiv (.bin (infixOps.findIdx (·.1 = "modint")) (.atom 1) (.atom 2)) (.atom 3))
    hasExc realPowers realExc e = false ∧ run realPowers 20 0 (printToks realPowers realExc e) = some (e, []) := by
  decide

/-! ## string literals -/

/-- a string token: value and kind (`raw` = r"…" literal, not interpolated) -/
structure Lit where
  val : Q.Str
  raw : Bool
  deriving DecidableEq

/-- the printer writes every string token as a double-quoted literal (template `{{.qval}}`) -/
def printLit (isPrint : Nat → Bool) (l : Lit) : Q.Str := Q.quote isPrint l.val

/-- the lexer on a double-quoted literal: scan to the closing quote, unquote; kind = interpolating -/
def lexLit (fuel : Nat) : Q.Str → Option (Lit × Q.Str)
  | 34 :: cs =>
    match Q.scanBody cs false with
    | some (body, rest) => (Q.unq fuel body).map fun v => (⟨v, false⟩, rest)
    | none => none
  | _ => none

/-- **lex (quote v) = v on the REAL models, independent of the Unicode tables.** `Ecal.Print.quoteWith ip` is
    the printer model's strconv.Quote with printability predicate `ip` (`Ecal.Print.quote = quoteWith isPrint`
    is what the drivers run; `isPrint` consults the table regenerated from the Go toolchain);
    `Ecal.Lex.lexValue` is the string lexer of the lexer model (opener, scan for the closing quote with the
    escape tracking of fix 02ff58e, strconv.Unquote). For EVERY predicate `ip` that does not call the newline
    printable and EVERY byte string `v` (invalid UTF-8, U+FFFD, non-characters, control characters, quotes,
    backslashes, `{{`): wherever the printed literal stands in the input (after `pre`, before `rest`),
    `lexValue` started at its first byte emits exactly one token — a string token with value `v`,
    `allowEscapes = true` (interpolating kind), `identifier = false`, positioned at the literal — and stops
    directly behind the literal. -/
theorem quote_lex_roundtrip (ip : Nat → Bool) (h10 : ip 10 = false)
    (l0 : Ecal.Lex.L) (pre v rest : List Nat) (hv : ∀ b ∈ v, b < 256)
    (hinp : l0.inp = (pre ++ (Ecal.Print.quoteWith ip v ++ rest)).toArray) (hpos : l0.pos = pre.length) :
    ∃ t : Ecal.Lex.Tok, (Ecal.Lex.lexValue l0).2 = Ecal.Lex.Next.token ∧
      (Ecal.Lex.lexValue l0).1.toks = l0.toks.push t ∧
      t.id = Ecal.Lex.tSTRING ∧ t.val = v ∧ t.allowEscapes = true ∧ t.identifier = false ∧
      t.pos = pre.length ∧ (Ecal.Lex.lexValue l0).1.pos = pre.length + (Ecal.Print.quoteWith ip v).length ∧
      (Ecal.Lex.lexValue l0).1.inp = l0.inp :=
  QR.lexValue_quote ip h10 l0 pre v rest hv hinp hpos

/-- the instance the drivers run: `Ecal.Print.quote` with the model's `isPrint` -/
theorem quote_lex_roundtrip_model (l0 : Ecal.Lex.L) (pre v rest : List Nat) (hv : ∀ b ∈ v, b < 256)
    (hinp : l0.inp = (pre ++ (Ecal.Print.quote v ++ rest)).toArray) (hpos : l0.pos = pre.length) :
    ∃ t : Ecal.Lex.Tok, (Ecal.Lex.lexValue l0).2 = Ecal.Lex.Next.token ∧
      (Ecal.Lex.lexValue l0).1.toks = l0.toks.push t ∧
      t.id = Ecal.Lex.tSTRING ∧ t.val = v ∧ t.allowEscapes = true :=
  have ⟨t, h1, h2, h3, h4, h5, _⟩ :=
    quote_lex_roundtrip Ecal.Print.isPrint (by decide) l0 pre v rest hv hinp hpos
  ⟨t, h1, h2, h3, h4, h5⟩

/-- **Known finding `raw-string-kind` on the real models**: whatever the kind of the original token, the token
    read back from the printed literal is interpolating — a raw literal (`allowEscapes = false`) never comes
    back as itself. -/
theorem raw_string_kind_lost (t0 : Ecal.Lex.Tok) (hraw : t0.allowEscapes = false) (hv : ∀ b ∈ t0.val, b < 256)
    (l0 : Ecal.Lex.L) (hinp : l0.inp = (Ecal.Print.quote t0.val).toArray) (hpos : l0.pos = 0) :
    ∃ t : Ecal.Lex.Tok, (Ecal.Lex.lexValue l0).1.toks = l0.toks.push t ∧ t.val = t0.val ∧ t ≠ t0 := by
  obtain ⟨t, _, h2, _, h4, h5⟩ := quote_lex_roundtrip_model l0 [] t0.val [] hv (by simpa using hinp) (by simpa using hpos)
  exact ⟨t, h2, h4, fun e => by rw [e, hraw] at h5; exact absurd h5 (by simp)⟩

example : (Ecal.Lex.lexValue { inp := (Ecal.Print.quoteWith (fun r => decide (32 ≤ r ∧ r < 127))
      [255, 34, 92, 10, 239, 191, 189]).toArray }).1.toks.toList.map
    (fun t => (t.id, t.val, t.allowEscapes)) = [(Ecal.Lex.tSTRING, [255, 34, 92, 10, 239, 191, 189], true)] := by decide

/-- The same on the simplified string model of the prototype (escapes `\\"`, `\\\\`, `\\n`, `\\U…`;
    parametric in the printability predicate) — kept for `string_kind_roundtrip_partial`. -/
theorem quote_lex_roundtrip_simple_model (isPrint : Nat → Bool) (s rest : Q.Str) (hs : ∀ c ∈ s, c < 4294967296) :
    ∃ body, Q.scanBody (Q.quoteBody isPrint s ++ 34 :: rest) false = some (body, rest) ∧
      Q.unq (s.length + 1) body = some s :=
  Q.quote_lex_roundtrip isPrint s rest hs

/-- Round trip of string tokens including the kind — for non-raw literals.
    (`_partial`: false without `hk`, see `raw_string_kind_witness`.) -/
theorem string_kind_roundtrip_partial (isPrint : Nat → Bool) (l : Lit) (rest : Q.Str)
    (hs : ∀ c ∈ l.val, c < 4294967296) (hk : l.raw = false) :
    lexLit (l.val.length + 1) (printLit isPrint l ++ rest) = some (l, rest) := by
  obtain ⟨body, h1, h2⟩ := Q.quote_lex_roundtrip isPrint l.val rest hs
  cases l with
  | mk v r =>
    have hk' : r = false := hk
    subst hk'
    simp only [printLit, Q.quote, List.cons_append, List.append_assoc, List.nil_append, lexLit] at h1 ⊢
    rw [h1]
    simp [h2]

example : lexLit 3 (printLit (fun _ => true) ⟨[97, 92], false⟩ ++ [32]) = some (⟨[97, 92], false⟩, [32]) := by decide

/-- **Negative witness, known finding `raw-string-kind`**: a raw literal comes back interpolating. -/
theorem raw_string_kind_witness :
    ∃ l : Lit, l.raw = true ∧ ∀ fuel, lexLit fuel (printLit (fun _ => true) l) ≠ some (l, []) := by
  refine ⟨⟨[], true⟩, rfl, ?_⟩
  intro fuel
  cases fuel <;> simp [lexLit, printLit, Q.quote, Q.quoteBody, Q.scanBody, Q.unq]

/-! ## building blocks on the REAL parser model (`Ecal.Parse.run`, the model of C07's `parse_wellformed`)

Token level, comment-free; these two lemmas are about the PARSER only (hand-given token sequences of the
shape the terminal / prefix templates produce) — no printer function occurs in them. Proved so far: terminal
and prefix shape (with a hole hypothesis in continuation form). NOT proved yet (covered by the correspondence run only): infix template
on this model, assignment, if/elif/else, loops, try/except/otherwise/finally, func, return with value,
import, sink, mutex, list / map literals, funccall, composition access, statement lists — and therefore
`print_parse_stmt_partial`. -/

/-- **The parser reads a terminal** (`break`, `continue`, `true`, `false`, `null`, number and string tokens):
    a token whose null denotation is `ndTerm`, followed by a token that does not bind tighter than `rbp`, is
    read back by `run` as its own node, and the parser stops at the follower. -/
theorem parser_reads_terminal (f rbp bb : Nat) (t nx : Ecal.Lex.Tok) (rest : List Ecal.Lex.Tok)
    (hn : TP.Real nx) (hterm : (TP.nodeOf bb t).nud = .term) (hb : (TP.nodeOf bb nx).binding ≤ rbp) :
    Ecal.Parse.run (f+2) rbp (TP.st bb (TP.nodeOf bb t) (nx :: rest)) =
      .ok (TP.nodeOf bb t) (TP.st bb (TP.nodeOf bb nx) rest) :=
  TP.run_term f rbp bb t nx rest hn hterm hb

/-- **The parser reads keyword + operand** (`not x`, `-x`, `+x`, `let x`, sink attributes `kindmatch x` … `suppresses x`):
    if the hole's tokens are read back as `v` with right binding `binding + 20` and the parser then stands
    in front of a token not binding tighter than `rbp`, keyword + hole is read back as the keyword's node
    with the single child `v`. -/
theorem parser_reads_prefix (f rbp bb : Nat) (t h : Ecal.Lex.Tok) (ts' : List Ecal.Lex.Tok)
    (v nxn : Ecal.Parse.Node) (rest : List Ecal.Lex.Tok) (hh : TP.Real h)
    (hpre : (TP.nodeOf bb t).nud = .prefix)
    (hole : Ecal.Parse.run (f+1) ((TP.nodeOf bb t).binding + 20) (TP.st bb (TP.nodeOf bb h) ts') =
      .ok v (TP.st bb nxn rest))
    (hb : nxn.binding ≤ rbp) :
    Ecal.Parse.run (f+3) rbp (TP.st bb (TP.nodeOf bb t) (h :: ts')) =
      .ok ((TP.nodeOf bb t).add (some v)) (TP.st bb nxn rest) :=
  TP.run_prefix f rbp bb t h ts' v nxn rest hh hpre hole hb

/-! ## parse (print e) = e on the REAL parser model

`Ecal.Parse.run` is the parser model of C07 (`parse_wellformed`); `RP.realToks` assigns to every abstract token of the
printed tree a real token of the table in Parser.lean (number and identifier tokens for atoms), `RP.nodeE` is the node tree the real
parser builds. Parser.lean's operator table is a HAND COPY of astNodeMap; `RP.tablesAgree` (it has every operator of
the table regenerated from parser.go with the same name, denotation and binding) is a HYPOTHESIS of the theorem, its
value is reported in the evidence of every run — a renumbering of bindings in parser.go makes it false without making
anything wrong. -/

/-- the heads of the real table whose keyword is parsed by ndPrefix (not `return`) -/
def okHead : Head → Bool
  | .atom => true
  | .bin k => RP.okB k
  | .pre k => RP.okP k

theorem okHead_inTable (h : Head) (hk : okHead h = true) : inTable h = true := by
  cases h with
  | atom => decide
  | bin k =>
    have : k < infixOps.length := by simpa [okHead, RP.okB] using hk
    simp only [inTable, allHeads, List.contains_eq_mem, List.mem_cons, List.mem_append, List.mem_map, List.mem_range,
      decide_eq_true_eq]
    exact Or.inr (Or.inl ⟨k, this, rfl⟩)
  | pre k =>
    have : k < prefixOps.length := by
      simp only [okHead, RP.okP, Bool.and_eq_true, decide_eq_true_eq] at hk; exact hk.1
    simp only [inTable, allHeads, List.contains_eq_mem, List.mem_cons, List.mem_append, List.mem_map, List.mem_range,
      decide_eq_true_eq]
    exact Or.inr (Or.inr ⟨k, this, rfl⟩)

theorem pIn_annotW (br : Head → Head → Nat → Bool → Bool) (e : Expr) (h : headsIn okHead e = true) :
    RP.pIn RP.okB RP.okP (annotW realPowers realExc br e) = true := by
  induction e with
  | atom n => rfl
  | bin k l r ihl ihr =>
    simp only [headsIn, Bool.and_eq_true, okHead] at h
    have hw : ∀ b p, RP.pIn RP.okB RP.okP (wrap b p) = RP.pIn RP.okB RP.okP p := by
      intro b p; cases b <;> simp [wrap, RP.pIn]
    simp only [annotW, RP.pIn, hw, h.1.1, ihl h.1.2, ihr h.2, Bool.and_self]
  | pre k x ih =>
    simp only [headsIn, Bool.and_eq_true, okHead] at h
    have hw : ∀ b p, RP.pIn RP.okB RP.okP (wrap b p) = RP.pIn RP.okB RP.okP p := by
      intro b p; cases b <;> simp [wrap, RP.pIn]
    simp only [annotW, RP.pIn, hw, h.1, ih h.2, Bool.and_self]

/-- **parse (print e) = e on the real parser model, with the rule the printer models run.** For every operator
    tree `e` of any depth over the real table (infix operators; prefix `+ - not let` and the sink attributes; atoms
    that are number tokens — even index — or IDENTIFIER tokens — odd index, read by `ndIdentifier`), outside the known
    class mul-right-brackets: the REAL parser model `Ecal.Parse.run`, started on the real
    tokens of the printed tree (parentheses by `realBr`, the rule extracted from prettyprinter.go) followed by an
    end-of-input token, returns exactly the node tree of `e` and stops at the end token — for every fuel from
    `1 + cost` on; under the hypothesis that Parser.lean's table agrees with the regenerated one.
    The end token must not be `.`, `(` or `[` (`RP.FOK`: it would continue an identifier).
    (`_partial`: `return <value>` operands, call / access chains behind an identifier atom, comments and line
    breaks inside the expression are not covered; the printed TEXT is tied to these tokens by the correspondence run
    and by `quote_lex_roundtrip` for string atoms, not by a lexer theorem.) -/
theorem print_parse_expr_real_parser_partial (e : Expr) (hin : headsIn okHead e = true)
    (hne : hasExc realPowers realExc e = false) (hagree : RP.tablesAgree = true)
    (eof : Ecal.Lex.Tok) (heof : TP.Real eof) (hfo : RP.FOK 0 eof)
    (hb : (TP.nodeOf 0 eof).binding = 0) (F : Nat)
    (hF : 1 + RP.cost (annotW realPowers realExc realBr e) ≤ F) :
    Ecal.Parse.run F 0 (TP.st 0 (TP.nodeOf 0 (RP.hdT RP.realToks (annotW realPowers realExc realBr e)))
        (RP.tlT RP.realToks (annotW realPowers realExc realBr e) ++ [eof])) =
      .ok (RP.nodeE RP.realToks e) (TP.st 0 (TP.nodeOf 0 eof) []) := by
  have hin' : headsIn inTable e = true := by
    clear hne hF
    induction e with
    | atom n => rfl
    | bin k l r ihl ihr =>
      simp only [headsIn, Bool.and_eq_true] at hin ⊢
      exact ⟨⟨okHead_inTable _ hin.1.1, ihl hin.1.2⟩, ihr hin.2⟩
    | pre k x ih =>
      simp only [headsIn, Bool.and_eq_true] at hin ⊢
      exact ⟨okHead_inTable _ hin.1, ih hin.2⟩
  have hok := annotW_ok realPowers realExc realBr inTable real_bp_pos real_rule_suffices e 0 0 hin' hne
    (adm_zero realPowers real_bp_pos e)
  have := RP.real_ok_parses RP.realToks realPowers RP.okB RP.okP (RP.good_realToks hagree)
    (annotW realPowers realExc realBr e) 0 0 0 (Nat.le_refl _) hok (pIn_annotW realBr e hin) eof []
    (.ok (RP.nodeE RP.realToks e) (TP.st 0 (TP.nodeOf 0 eof) [])) 1 heof hfo (Nat.le_of_eq hb)
    (by
      intro F2 hF2
      obtain ⟨f2, rfl⟩ : ∃ f2, F2 = f2 + 1 := ⟨F2 - 1, by omega⟩
      rw [strip_annotW]
      exact TP.loopLed_stop f2 0 0 _ _ [] (Nat.le_of_eq hb))
    F hF
  exact this

/-- non-vacuity: `2 * (3 + 4) <EOF>` and `not (1 and 2)`-shaped trees satisfy the hypotheses -/
example : headsIn okHead (Expr.bin iTimes (.atom 2) (.bin 0 (.atom 3) (.atom 4))) = true ∧
    hasExc realPowers realExc (Expr.bin iTimes (.atom 2) (.bin 0 (.atom 3) (.atom 4))) = false ∧
    TP.Real (RP.mkTok 1) ∧ RP.FOK 0 (RP.mkTok 1) ∧ (TP.nodeOf 0 (RP.mkTok 1)).binding = 0 := by
  refine ⟨by decide, by decide, by unfold TP.Real; decide, by unfold RP.FOK; decide, by decide⟩

/-- `a * (3 + b)` with identifier atoms (odd indices) is read back by the real parser model: an instance of the theorem
    (under the table hypothesis) -/
example (hagree : RP.tablesAgree = true) :
    let e := Expr.bin iTimes (.atom 1) (.bin 0 (.atom 6) (.atom 3))
    ∀ F, 1 + RP.cost (annotW realPowers realExc realBr e) ≤ F →
      Ecal.Parse.run F 0 (TP.st 0 (TP.nodeOf 0 (RP.hdT RP.realToks (annotW realPowers realExc realBr e)))
        (RP.tlT RP.realToks (annotW realPowers realExc realBr e) ++ [RP.mkTok 1])) =
      .ok (RP.nodeE RP.realToks e) (TP.st 0 (TP.nodeOf 0 (RP.mkTok 1)) []) := by
  intro e F hF
  exact print_parse_expr_real_parser_partial e (by decide) (by decide) hagree (RP.mkTok 1) (by unfold TP.Real; decide)
    (by unfold RP.FOK; decide) (by decide) F hF

/-- non-vacuity: the tokens `true <EOF>` and `not true <EOF>` satisfy the hypotheses — `not true` is read
    back as `not(true)` by instantiating both lemmas -/
example :
    let tTrue : Ecal.Lex.Tok := ⟨61, 4, [116, 114, 117, 101], false, false, 0, 1, 5⟩
    let tNot : Ecal.Lex.Tok := ⟨54, 0, [110, 111, 116], false, false, 0, 1, 1⟩
    let tEof : Ecal.Lex.Tok := ⟨1, 8, [], false, false, 0, 1, 9⟩
    Ecal.Parse.run 4 0 (TP.st 0 (TP.nodeOf 0 tNot) [tTrue, tEof]) =
      .ok ((TP.nodeOf 0 tNot).add (some (TP.nodeOf 0 tTrue))) (TP.st 0 (TP.nodeOf 0 tEof) []) := by
  intro tTrue tNot tEof
  have hE : TP.Real tEof := by unfold TP.Real; decide
  have hT : TP.Real tTrue := by unfold TP.Real; decide
  have hole := parser_reads_terminal 0 ((TP.nodeOf 0 tNot).binding + 20) 0 tTrue tEof [] hE (by decide) (by decide)
  exact parser_reads_prefix 1 0 0 tNot tTrue [tEof] _ _ [] hT (by decide) hole (by decide)

end Ecal.Props.C08
