import Ecal.Model.DebugCmd
import Ecal.Gen.C16
namespace Ecal.Props.C16
open Ecal.DebugCmd

/-- The model dispatches on exactly the keys of `DebugCommandsMap` (regenerated from the Go
    source on every run), bound to the same Go types, with the same argument-count tests. -/
theorem vocabulary_matches : Ecal.Gen.C16.commands = vocabulary := by decide

end Ecal.Props.C16
