import Ecal.Lemmas.DebugCmdSafe
import Ecal.Lemmas.DebugCmdNoEval
import Ecal.Lemmas.DebugCmdKeeps
import Ecal.Gen.C16
/-!
# C16 — the debugger command interface is total

Theorems about `Ecal.DebugCmd` (model of `interpreter/debug_cmd.go` and the command side of
`interpreter/debug.go`). `handle env s line` is `HandleInput(line)` in debugger state `s`;
`line` ranges over all byte strings, `env` over all behaviours of the two oracles
(expression evaluation of `inject`, `Scope.SetValue` on container paths).
-/
namespace Ecal.Props.C16
open Ecal.DebugCmd

/-- The model dispatches on exactly the command WORDS of `DebugCommandsMap` (regenerated from
    the Go source on every run; the Go type names bound to them are not compared). -/
theorem vocabulary_matches : Ecal.Gen.C16.commands.map (fun e => e.1) = vocabulary.map (fun e => e.1) := by decide

/-- `HandleInput` compares the first word of a line with no literal of its own: the table is
    its whole vocabulary (a word it dispatches on besides the table would be a command the model
    does not have; the generator sends every such word as well). -/
theorem handleinput_has_no_own_words : Ecal.Gen.C16.dispatchLiterals = [] := by decide

/-- The argument-count tests, as the extractor EVALUATES them for 0..5 arguments (whatever
    their source text), do not contradict `Cmd.rejects`. -/
theorem arg_tests_not_refuted :
    (Ecal.Gen.C16.commands.zip Cmd.all).all (fun p => !tableRefuted p.1.2.2 p.2.rejectTable) = true := by decide

/-- … and `Cmd.rejects` is what the model's `Run` does: a rejected call returns the usage error
    at once, whatever the state (no lock, no table touched). -/
theorem rejects_is_what_run_does (g : Guards) (env : Env) (c : Cmd) (args : List Str) (s : DbgState)
    (h : c.rejects args.length = true) : ∃ s', c.run g env args s = .ok err s' ∧ s' = s := by
  cases c <;> simp [Cmd.rejects] at h <;>
    simp [Cmd.run, runSetBreak, runRmBreak, runCont, runDescribe, runExtract, runInject, h, pure] <;>
    first | omega | (intro h'; omega) | skip

/-- The reachability invariant: every call-stack entry is a node with a token, every
    interrogation state carries the node and the scope its thread stopped at, and no
    command is in progress (the debugger's lock is free). -/
def Inv (s : DbgState) : Prop := Inv0 s ∧ s.lock = 0

/-- a reply that is a JSON-encodable result or an error — not a result json.Marshal rejects,
    not a panic, not a self-deadlock -/
def Answers : Reply → Prop
  | .ok _ => True
  | .error => True
  | .notJson => False
  | .panic _ => False
  | .deadlock => False
  | .evaluating => False

/-- A fresh debugger (`NewECALDebugger`, with or without a global scope) satisfies the invariant. -/
theorem inv_init (gs : Bool) (globals : List Str) : Inv (init gs globals) := by
  refine ⟨⟨?_, ?_⟩, rfl⟩ <;> intro p hp <;> simp [init] at hp

theorem handle_ok (env : Env) (s : DbgState) (line : Str) (h : Inv s) :
    (∃ o s', handleInput repaired env line s = .ok o s' ∧ Inv s' ∧ o.1 ≠ .unencodable) ∨
    (∃ s', handleInput repaired env line s = .evaluating s' ∧ Inv s') := by
  have hw := handleInput_safe env line h.1 h.2
  unfold wp at hw
  cases hr : handleInput repaired env line s with
  | ok o s' => rw [hr] at hw; exact .inl ⟨o, s', rfl, hw.1, hw.2⟩
  | evaluating s' => rw [hr] at hw; exact .inr ⟨s', rfl, hw⟩
  | panic p s' => rw [hr] at hw; exact hw.elim
  | deadlock s' => rw [hr] at hw; exact hw.elim

/-- **Never panics.** In every state satisfying the invariant, for every input line (any
    byte string) and every oracle behaviour, the command returns a result or an error — no
    index, slice or nil-dereference primitive of the handler fails, the lock is not taken twice
    (in particular not by an `inject` expression that calls back into the debugger) — or it is
    `inject` still evaluating its expression (`evaluating` is produced only by `evalExpr` on an
    expression the oracle says does not return). What json.Marshal does with the result is
    modelled only for error data (`Shape.unencodable`); otherwise it is tested, not proved. -/
theorem handle_never_panics (env : Env) (s : DbgState) (line : Str) (h : Inv s) :
    Answers (handle env s line).2 ∨ (handle env s line).2 = .evaluating := by
  rcases handle_ok env s line h with ⟨o, s', hr, _, ho⟩ | ⟨s', hr, _⟩
  · left
    simp only [handle, handleG, hr, Out.reply]
    by_cases h2 : o.2 = true
    · simp [h2, Answers]
    · simp [h2, ho, Answers]
  · right
    simp only [handle, handleG, hr]

/-- **A command that does not return is `inject` evaluating an expression that does not return**:
    if no expression diverges (the oracle never answers `diverges`), no reply is `evaluating` —
    for either version of the guards, in every state. Together with `handle_never_panics`: every
    command then returns a result or an error. -/
theorem evaluating_only_if_diverges (g : Guards) (env : Env) (s : DbgState) (line : Str)
    (ht : ∀ e, env.eval e ≠ .diverges) : (handleG g env s line).2 ≠ .evaluating := by
  have h := noEval_handleInput g env line ht s
  unfold handleG
  cases hr : handleInput g env line s with
  | ok o s' =>
    simp only [Out.reply]
    split
    · simp
    · split <;> simp
  | panic p s' => simp
  | deadlock s' => simp
  | evaluating s' => exact (h s' hr).elim

/-- every command returns a result or an error when the `inject` expressions terminate -/
theorem handle_answers_if_terminating (env : Env) (s : DbgState) (line : Str) (h : Inv s)
    (ht : ∀ e, env.eval e ≠ .diverges) : Answers (handle env s line).2 := by
  rcases handle_never_panics env s line h with h1 | h1
  · exact h1
  · exact (evaluating_only_if_diverges repaired env s line ht h1).elim

/-- Every command preserves the invariant. -/
theorem handle_preserves_inv (env : Env) (s : DbgState) (line : Str) (h : Inv s) :
    Inv (handle env s line).1 := by
  rcases handle_ok env s line h with ⟨o, s', hr, hi, _⟩ | ⟨s', hr, hi⟩
  · simpa only [handle, handleG, hr] using hi
  · simpa only [handle, handleG, hr] using hi

/-- **Lock released.** After every command — on every path, error returns included — the
    debugger's lock is free again; and while `inject` evaluates its expression (reply
    `evaluating`: the state is the one every other command sees meanwhile) no debugger lock is
    held either: **no command holds a debugger lock across an evaluation**. -/
theorem lock_released (env : Env) (s : DbgState) (line : Str) (h : Inv s) :
    (handle env s line).1.lock = 0 := (handle_preserves_inv env s line h).2

/-- a thread suspended at top level (call depth 0) after break-on-start -/
def suspendedAtTop : DbgState :=
  { stacks := [(1, [])],
    istates := [(1, { running := false, cmd := .stop, hasNode := true, hasVs := true, hasErr := false,
                      errDataJson := true, stepOutStack := none, atGlobal := true, locals := [] })],
    breakPoints := [], sources := [], breakOnStart := false, ownersSet := true, mutexLogSet := true,
    threadPoolSet := true, globalScope := true, globals := [], lock := 0 }

/-- Witness (one state, one input — a test, not a theorem about all inputs): the code before
    a44f74f panics in `cont 1 stepout` at depth 0 with the lock released (the unlock is deferred). -/
theorem lock_released_even_unrepaired :
    (handleG { lockstateNil := false, stepOutLen := false, errDataConv := false, injectOutside := false } ⟨fun _ => .ok, fun _ _ => true⟩
      suspendedAtTop
      [99, 111, 110, 116, 32, 49, 32, 115, 116, 101, 112, 111, 117, 116]).1.lock = 0 := by decide

/-- Every evaluator-side event (a thread starts, runs to another call depth and is free /
    interrogated / suspended there, finishes; references and sources are recorded; global
    names change) preserves the invariant. -/
theorem event_preserves_inv (s s' : DbgState) (e : Event) (h : Inv s) (he : applyEvent s e = some s') :
    Inv s' := by
  obtain ⟨⟨hf, hs⟩, hl⟩ := h
  have frames_ok : ∀ d, ∀ f ∈ frames d, f.nonNil = true ∧ f.hasToken = true := by
    intro d f hfm
    simp only [frames, List.mem_replicate] at hfm
    rw [hfm.2]; exact ⟨rfl, rfl⟩
  cases e with
  | start tid =>
    simp only [applyEvent] at he
    split at he
    · cases he
    · cases he
      refine ⟨⟨?_, hs⟩, hl⟩
      intro p hp
      rcases mem_put hp with rfl | hp
      · intro f hfm; cases hfm
      · exact hf p hp
  | setRefs => simp only [applyEvent] at he; cases he; exact ⟨⟨hf, hs⟩, hl⟩
  | setLockingState => simp only [applyEvent] at he; cases he; exact ⟨⟨hf, hs⟩, hl⟩
  | stopThreads =>
    simp only [applyEvent] at he; cases he
    refine ⟨⟨hf, ?_⟩, hl⟩
    intro p hp
    simp only [List.mem_map] at hp
    obtain ⟨q, hq, rfl⟩ := hp
    have hg := hs q hq
    split
    · exact hg
    · exact ⟨hg.1, hg.2⟩
  | source src => simp only [applyEvent] at he; cases he; exact ⟨⟨hf, hs⟩, hl⟩
  | setGlobals names => simp only [applyEvent] at he; cases he; exact ⟨⟨hf, hs⟩, hl⟩
  | finish tid =>
    simp only [applyEvent] at he
    split at he
    · cases he
    · cases he
      exact ⟨⟨fun p hp => hf p (mem_del hp), fun p hp => hs p (mem_del hp)⟩, hl⟩
  | injectCompletes pathOk tid varName =>
    simp only [applyEvent] at he
    have hw := injectSecond_safe { eval := fun _ => .ok, setPathOk := fun _ _ => pathOk } tid varName
      (s := s) ⟨hf, hs⟩ hl
    unfold wp at hw
    split at he
    · rename_i a t hr
      cases he
      rw [hr] at hw
      exact hw
    · cases he
  | advance tid depth w =>
    simp only [applyEvent] at he
    split at he
    · cases he
    · have hst : ∀ p ∈ put tid (frames depth) s.stacks, ∀ f ∈ p.2, f.nonNil = true ∧ f.hasToken = true := by
        intro p hp
        rcases mem_put hp with rfl | hp
        · exact frames_ok depth
        · exact hf p hp
      cases w with
      | free =>
        cases he
        exact ⟨⟨hst, fun p hp => hs p (mem_del hp)⟩, hl⟩
      | running cmd hasErr errDataJson =>
        simp only at he
        split at he
        · rename_i is hlk
          cases he
          have hg : IGood is := hs _ (mem_of_lookup hlk)
          refine ⟨⟨hst, ?_⟩, hl⟩
          intro p hp
          rcases mem_put hp with rfl | hp
          · exact ⟨hg.1, hg.2⟩
          · exact hs p hp
        · cases he
      | suspended hasErr errDataJson atGlobal locals =>
        cases he
        refine ⟨⟨hst, ?_⟩, hl⟩
        intro p hp
        rcases mem_put hp with rfl | hp
        · exact ⟨rfl, rfl⟩
        · exact hs p hp

/-- **Still answers.** Whatever the command line was, a following `status` returns the
    status object (in particular it is not blocked by a lock left behind). -/
theorem still_answers (env env' : Env) (s : DbgState) (line : Str) (h : Inv s) :
    (handle env' (handle env s line).1 [115, 116, 97, 116, 117, 115]).2 = .ok .status := by
  have hi := handle_preserves_inv env s line h
  generalize (handle env s line).1 = t at hi
  have hf : fields [115, 116, 97, 116, 117, 115] = [[115, 116, 97, 116, 117, 115]] := by decide
  have hc : lookupCmd [115, 116, 97, 116, 117, 115] = some .status := by decide
  have hrun : handleInput repaired env' [115, 116, 97, 116, 117, 115] t = statusOf repaired t := by
    simp [handleInput, hf, hc, idx, Cmd.run, bind, pure]
  simp [handle, handleG, hrun, statusOf_eq hi.1 hi.2, Out.reply]

/-- the states a debugger can be in: created, then any interleaving of command lines and
    evaluator events -/
inductive Reachable : DbgState → Prop
  | init (gs : Bool) (globals : List Str) : Reachable (init gs globals)
  | command (env : Env) (line : Str) {s : DbgState} : Reachable s → Reachable (handle env s line).1
  | event (e : Event) {s s' : DbgState} : Reachable s → applyEvent s e = some s' → Reachable s'

theorem reachable_inv {s : DbgState} (h : Reachable s) : Inv s := by
  induction h with
  | init gs globals => exact inv_init gs globals
  | command env line _ ih => exact handle_preserves_inv env _ line ih
  | event e _ he ih => exact event_preserves_inv _ _ e ih he

/-- **The property**: in every reachable debugger state, every input line gets a result or
    an error, the lock is free afterwards and a following `status` is answered. -/
theorem command_interface_total {s : DbgState} (hr : Reachable s) (env env' : Env) (line : Str) :
    (Answers (handle env s line).2 ∨ (handle env s line).2 = .evaluating) ∧ (handle env s line).1.lock = 0 ∧
    (handle env' (handle env s line).1 [115, 116, 97, 116, 117, 115]).2 = .ok .status :=
  ⟨handle_never_panics env s line (reachable_inv hr), lock_released env s line (reachable_inv hr),
   still_answers env env' s line (reachable_inv hr)⟩

example : Reachable suspendedAtTop :=
  .event (.advance 1 0 (.suspended false true true [])) (.event .setRefs (.event (.start 1) (.init true []) rfl) rfl) rfl

def anyEnv : Env := ⟨fun _ => .ok, fun _ _ => true⟩

/-- non-vacuity: the repaired code answers the two critical inputs -/
example : (handle anyEnv (init true []) [108, 111, 99, 107, 115, 116, 97, 116, 101]).2 = .ok .lockstate := by decide
example : (handle anyEnv suspendedAtTop
    [99, 111, 110, 116, 32, 49, 32, 115, 116, 101, 112, 111, 117, 116]).2 = .ok .null := by decide

/-- **The `lockstate` guard is necessary**: without the nil checks added by a44f74f,
    `lockstate` before any evaluation dereferences the unset mutex log. -/
theorem unrepaired_lockstate_panics :
    (handleG { lockstateNil := false, stepOutLen := true, errDataConv := true, injectOutside := true } anyEnv (init true [])
      [108, 111, 99, 107, 115, 116, 97, 116, 101]).2 = .panic "LockState: ed.mutexLog.StringSlice()" := by
  decide

/-- **The step-out guard is necessary**: without `len(stack) > 0`, `cont 1 stepout` for a
    thread suspended at call depth 0 slices `stack[:-1]`. -/
theorem unrepaired_stepout_panics :
    (handleG { lockstateNil := true, stepOutLen := false, errDataConv := true, injectOutside := true } anyEnv suspendedAtTop
      [99, 111, 110, 116, 32, 49, 32, 115, 116, 101, 112, 111, 117, 116]).2
      = .panic "Continue: stack[:len(stack)-1]" := by
  decide

/-- the `inject` expression calls a function of the debugged program / does not return -/
def visitingEnv : Env := ⟨fun _ => .visits true, fun _ _ => true⟩
def divergingEnv : Env := ⟨fun _ => .diverges, fun _ _ => true⟩

/-- `inject 1 x f1(1)` -/
def injectLine : Str := [105, 110, 106, 101, 99, 116, 32, 49, 32, 120, 32, 102, 49, 40, 49, 41]

/-- non-vacuity: the repaired code survives an expression that visits the debugger, and is
    `evaluating` with the lock free for one that does not return -/
example : (handle visitingEnv suspendedAtTop injectLine).2 = .ok .null := by decide
example : (handle divergingEnv suspendedAtTop injectLine).2 = .evaluating ∧
    (handle divergingEnv suspendedAtTop injectLine).1.lock = 0 := by decide

/-- **Evaluating outside the lock is necessary**: with the expression evaluated under
    `ed.lock.Lock()` (before fixes/C16-inject-eval-outside-lock), an expression that calls a
    function declared by the debugged program re-enters the debugger (VisitState → RLock) and
    the command deadlocks with itself; one that does not return keeps the lock for ever, so no
    other command is answered any more. -/
theorem unrepaired_inject_deadlocks :
    (handleG { repaired with injectOutside := false } visitingEnv suspendedAtTop injectLine).2 = .deadlock ∧
    (handleG { repaired with injectOutside := false } divergingEnv suspendedAtTop injectLine).1.lock = 1 := by
  decide

/-- a thread suspended by break-on-error whose error carries an ECAL map (or a non-finite
    number) as data — reachable -/
def suspendedOnMapError : DbgState :=
  { suspendedAtTop with
    istates := [(1, { running := false, cmd := .stop, hasNode := true, hasVs := true, hasErr := true,
                      errDataJson := false, stepOutStack := none, atGlobal := true, locals := [] })] }

example : Reachable suspendedOnMapError :=
  .event (.advance 1 0 (.suspended true false true [])) (.event .setRefs (.event (.start 1) (.init true []) rfl) rfl) rfl

example : (handle anyEnv suspendedOnMapError [115, 116, 97, 116, 117, 115]).2 = .ok .status := by decide
example : (handle anyEnv suspendedOnMapError [100, 101, 115, 99, 114, 105, 98, 101, 32, 49]).2 = .ok .describe := by decide

/-- **The conversion of the error data is necessary**: with `RuntimeErrorWithDetail.ToJSONObject`
    passing `Data` through unconverted, `status` and `describe 1` return an object json.Marshal
    rejects while a thread is suspended on an error carrying an ECAL map. -/
theorem unrepaired_errdata_not_json :
    (handleG { lockstateNil := true, stepOutLen := true, errDataConv := false, injectOutside := true } anyEnv suspendedOnMapError
      [115, 116, 97, 116, 117, 115]).2 = .notJson ∧
    (handleG { lockstateNil := true, stepOutLen := true, errDataConv := false, injectOutside := true } anyEnv suspendedOnMapError
      [100, 101, 115, 99, 114, 105, 98, 101, 32, 49]).2 = .notJson := by
  decide


/-- **No lock is held while a thread is suspended** (the thread-side half of `lock_released`):
    in every branch of `VisitState`, at every point where the thread waits for a continue
    command it holds the debugger's lock zero times — so a suspended thread never blocks a
    command — and it holds none when the call returns. -/
theorem no_lock_held_while_suspended (i : VisitIn) :
    (∀ h ∈ heldAtWaits (visitEvents false i) 0, h = 0) ∧ heldAfter (visitEvents false i) 0 = 0 := by
  obtain ⟨k, t, sk, is, bp, bos⟩ := i
  rcases is with _ | ⟨c, d⟩
  · cases k <;> cases t <;> cases sk <;> cases bp <;> cases bos <;> decide
  · cases c <;> cases d <;> cases k <;> cases t <;> cases sk <;> cases bp <;> cases bos <;> decide

/-- The same for the two other methods an evaluating thread calls: VisitStepInState (which
    gives the lock up around a nested VisitState) and VisitStepOutState (which gives it up around
    the wait of break-on-error): the lock is held zero times at every wait point and at exit. -/
theorem no_lock_held_while_suspended_step (stop onError : Bool) (i : VisitIn) :
    (∀ h ∈ heldAtWaits (visitStepInEvents false stop i) 0, h = 0) ∧
    heldAfter (visitStepInEvents false stop i) 0 = 0 ∧
    (∀ h ∈ heldAtWaits (visitStepOutEvents true onError) 0, h = 0) ∧
    heldAfter (visitStepOutEvents true onError) 0 = 0 := by
  obtain ⟨k, t, sk, is, bp, bos⟩ := i
  rcases is with _ | ⟨c, d⟩
  · cases stop <;> cases onError <;> cases k <;> cases t <;> cases sk <;> cases bp <;> cases bos <;> decide
  · cases stop <;> cases onError <;> cases c <;> cases d <;> cases k <;> cases t <;> cases sk <;> cases bp <;>
      cases bos <;> decide

/-- waiting for the continue command without giving the lock up (VisitStepOutState) is the
    kind of defect this excludes -/
example : heldAtWaits (visitStepOutEvents false true) 0 = [1] := by decide

/-- non-vacuity: a thread stepping out that reaches an active break point does wait -/
example : heldAtWaits (visitEvents false
    { known := true, hasToken := true, sourceKnown := true, istate := some (.stepOut, true),
      bpActive := true, breakOnStart := false }) 0 = [0] := by decide

/-- **Releasing the read lock of the step branch by `defer` breaks this**: the thread then
    waits at the break point with the read lock held (every later `break`, `rmbreak`, `inject`
    … blocks, and with a writer pending so do `status`, `describe`, `cont`). -/
theorem deferred_unlock_holds_lock_while_suspended :
    heldAtWaits (visitEvents true
      { known := true, hasToken := true, sourceKnown := true, istate := some (.stepOut, true),
        bpActive := true, breakOnStart := false }) 0 = [1] := by decide

/-- **The lock discipline the model assumes is not refuted by the source**: for every method
    of `*ecalDebugger` (regenerated from interpreter/debug.go on every run by following all paths
    with the number of holds, calls into methods of the same receiver included) no path reaches a
    wait point, an evaluation or a second acquisition with the lock held, none leaves with the
    lock held. This is what `locked` (command side), `evalExpr` outside `locked` (inject) and
    `visitEvents` / `visitStepInEvents` / `visitStepOutEvents` (thread side) state in the model.
    "unknown" verdicts are not obligations (they amplify the search). -/
theorem lock_discipline_not_refuted : Ecal.Gen.C16.lockRefuted = [] := by decide

end Ecal.Props.C16

/-! ## Concurrent clients: a pending `inject`, and the linearisation of its two lock sections

In the model a command is one atomic function `handle`. The code justifies that for every
command except `inject` by the lock fact (`lock_discipline_not_refuted`): such a command touches
the debugger's tables only inside ONE section of `ed.lock`, and lock sections of different
clients are disjoint in time, so two such commands issued at once act in one of the two
orders — there are no other interleavings of two atomic steps. (This reading of the lock fact is
an assumption about the code, not a theorem.) `inject` is the one command with TWO lock sections
— look the thread up, then, after an evaluation that holds no lock, set the value — and
anything may happen in between. The theorems below are about that command. -/

namespace Ecal.Props.C16
open Ecal.DebugCmd

/-- first lock section of the repaired InjectValue: is the thread suspended? -/
def injectFirst (tid : Nat) : M Bool :=
  locked do
    let s ← getS
    match s.istates.lookup tid with
    | none => pure false
    | some is => pure (!is.running)

theorem restore_lock {t : DbgState} (h : t.lock = 0) : { t with lock := 1 - 1 } = t := by
  cases t; simp_all

theorem injectFirst_eq {s : DbgState} (tid : Nat) (h : s.lock = 0) :
    injectFirst tid s = .ok (isSuspended s tid) s := by
  unfold injectFirst isSuspended
  cases hl : s.istates.lookup tid <;>
    simp [locked, bind, getS, pure, h, hl, restore_lock h]

theorem evalExpr_eq {t : DbgState} {o : EvalOutcome} (h : t.lock = 0) (hd : o ≠ .diverges) :
    ∃ b, evalExpr o t = .ok b t := by
  cases o with
  | ok => exact ⟨true, rfl⟩
  | error => exact ⟨false, rfl⟩
  | visits r => exact ⟨r, by simp [evalExpr, h]⟩
  | diverges => exact (hd rfl).elim

/-- the repaired InjectValue, section by section -/
theorem injectValue_phases (env : Env) (tid : Nat) (v e : Str) {s : DbgState} (h : s.lock = 0)
    (hg : s.globalScope = true) :
    injectValue repaired env tid v e s =
      if isSuspended s tid = false then .ok true s
      else match evalExpr (env.eval e) s with
        | .ok ok s2 => if ok = false then .ok true s2 else injectSecond env tid v s2
        | .panic p s2 => .panic p s2
        | .deadlock s2 => .deadlock s2
        | .evaluating s2 => .evaluating s2 := by
  simp only [injectValue, repaired, bind, getS, hg, pure, ↓reduceIte, Bool.not_true, Bool.false_eq_true]
  unfold isSuspended
  cases hl : s.istates.lookup tid with
  | none => simp [locked, h, hl, restore_lock h]
  | some is =>
    cases hr : is.running
    · simp only [locked, h, hl, ne_eq, not_true_eq_false, ↓reduceIte, hr, Bool.not_false, restore_lock h,
        Bool.not_true, Bool.false_eq_true, Bool.true_eq_false]
      cases evalExpr (env.eval e) s with
      | ok ok s2 => cases ok <;> simp
      | panic p s2 => rfl
      | deadlock s2 => rfl
      | evaluating s2 => rfl
    · simp [locked, h, hl, hr, restore_lock h]

/-- `inject` with anything in between its two lock sections: `mid` is whatever other clients
    and threads did to the debugger meanwhile (any composition of commands and evaluator events) -/
def injectInterleaved (env : Env) (tid : Nat) (v e : Str) (mid : DbgState → DbgState) : M Bool := fun s =>
  match injectFirst tid s with
  | .ok b s1 =>
    if b = false then .ok true (mid s1)
    else match evalExpr (env.eval e) (mid s1) with
      | .ok ok s2 => if ok = false then .ok true s2 else injectSecond env tid v s2
      | .panic p s2 => .panic p s2
      | .deadlock s2 => .deadlock s2
      | .evaluating s2 => .evaluating s2
  | .panic p s1 => .panic p s1
  | .deadlock s1 => .deadlock s1
  | .evaluating s1 => .evaluating s1

theorem injectSecond_not_suspended (env : Env) (tid : Nat) (v : Str) {t : DbgState} (h : t.lock = 0)
    (hs : isSuspended t tid = false) : injectSecond env tid v t = .ok true t := by
  unfold isSuspended at hs
  unfold injectSecond
  cases hl : t.istates.lookup tid with
  | none => simp [locked, bind, getS, pure, h, hl, restore_lock h]
  | some is =>
    rw [hl] at hs
    have hr : is.running = true := by simpa using hs
    simp [locked, bind, getS, pure, h, hl, hr, restore_lock h]

/-- **`inject` linearises.** Whatever happens between the two lock sections of `inject`
    (`mid`: any transformation of the debugger state that leaves the lock free and the global scope
    reference alone — in particular any sequence of other commands and evaluator events), the reply
    and the final state are those of an ATOMIC `inject`
    * issued BEFORE all of it, if the first section found no suspended thread (it answers "no
      suspended thread" and has changed nothing), and
    * issued AFTER all of it, if the first section found the thread suspended — the second
      section looks the thread up again under the write lock, so a thread that was continued or
      has finished meanwhile yields the same error the late atomic `inject` gives.
    Hypothesis: the expression returns (`≠ diverges`; a pending inject is the subject of
    `pending_inject_never_blocks`). -/
theorem inject_linearises (env : Env) (tid : Nat) (v e : Str) (mid : DbgState → DbgState) (s : DbgState)
    (h : s.lock = 0) (hg : s.globalScope = true) (hm : (mid s).lock = 0)
    (hmg : (mid s).globalScope = true) (hd : env.eval e ≠ .diverges) :
    (isSuspended s tid = false →
      injectInterleaved env tid v e mid s = .ok true (mid s) ∧
      injectValue repaired env tid v e s = .ok true s) ∧
    (isSuspended s tid = true →
      injectInterleaved env tid v e mid s = injectValue repaired env tid v e (mid s)) := by
  refine ⟨fun hs => ?_, fun hs => ?_⟩
  · refine ⟨?_, ?_⟩
    · simp [injectInterleaved, injectFirst_eq tid h, hs]
    · rw [injectValue_phases env tid v e h hg]; simp [hs]
  · rw [injectValue_phases env tid v e hm hmg]
    simp only [injectInterleaved, injectFirst_eq tid h, hs, Bool.true_eq_false, ↓reduceIte]
    obtain ⟨b, hb⟩ := evalExpr_eq (o := env.eval e) hm hd
    rw [hb]
    cases hs2 : isSuspended (mid s) tid
    · cases b
      · simp
      · simp [injectSecond_not_suspended env tid v hm hs2]
    · simp

/-- non-vacuity (all hypotheses of `inject_linearises` hold): the thread is suspended when the
    first section looks, `cont 1 resume` from another client releases it before the second section —
    the interleaved `inject` equals the atomic one issued after the `cont` -/
example : injectInterleaved anyEnv 1 (str "x") (str "1") (fun s => (handle anyEnv s (str "cont 1 resume")).1)
      suspendedAtTop
    = injectValue repaired anyEnv 1 (str "x") (str "1") (handle anyEnv suspendedAtTop (str "cont 1 resume")).1 :=
  (inject_linearises anyEnv 1 (str "x") (str "1") (fun s => (handle anyEnv s (str "cont 1 resume")).1)
    suspendedAtTop rfl rfl (by decide) (by decide) (by simp [anyEnv])).2 (by decide)

/-- what any number of command lines of other clients make of a state -/
def afterLines (cs : List (Env × Str)) (s : DbgState) : DbgState :=
  cs.foldl (fun t c => (handle c.1 t c.2).1) s

theorem afterLines_inv (cs : List (Env × Str)) {s : DbgState} (h : Inv s) : Inv (afterLines cs s) := by
  induction cs generalizing s with
  | nil => exact h
  | cons c rest ih => exact ih (handle_preserves_inv c.1 s c.2 h)

theorem afterLines_globalScope (cs : List (Env × Str)) (s : DbgState) :
    (afterLines cs s).globalScope = s.globalScope := by
  induction cs generalizing s with
  | nil => rfl
  | cons c rest ih =>
    simp only [afterLines, List.foldl_cons] at ih ⊢
    rw [ih]
    exact handleG_keeps_globalScope repaired c.1 s c.2

/-- **`inject` linearises among the commands of other clients.** In every state satisfying the
    invariant (global scope given), for ANY sequence `cs` of command lines that other clients get
    answered between the two lock sections of an `inject` whose expression returns: the reply and
    final state of the `inject` are those of an atomic `inject` issued before all of `cs` (the
    thread was not suspended when the first section looked) or after all of `cs` (it was). So
    with `handle` as the atomic step of every other command (lock fact), every concurrent issue
    of `inject` and other commands is a sequence of `handle` steps — to which
    `command_interface_total` applies: the debugger keeps answering. -/
theorem inject_linearises_among_commands (env : Env) (tid : Nat) (v e : Str) (cs : List (Env × Str))
    (s : DbgState) (h : Inv s) (hg : s.globalScope = true) (hd : env.eval e ≠ .diverges) :
    (isSuspended s tid = false →
      injectInterleaved env tid v e (afterLines cs) s = .ok true (afterLines cs s) ∧
      injectValue repaired env tid v e s = .ok true s) ∧
    (isSuspended s tid = true →
      injectInterleaved env tid v e (afterLines cs) s = injectValue repaired env tid v e (afterLines cs s)) :=
  inject_linearises env tid v e (afterLines cs) s h.2 hg (afterLines_inv cs h).2
    (by rw [afterLines_globalScope]; exact hg) hd

/-- non-vacuity: the hypotheses hold for a suspended thread and two lines of another client -/
example : Inv suspendedAtTop ∧ suspendedAtTop.globalScope = true ∧ isSuspended suspendedAtTop 1 = true ∧
    isSuspended (afterLines [(anyEnv, str "status"), (anyEnv, str "cont 1 stepover")] suspendedAtTop) 1 = false := by
  refine ⟨reachable_inv ?_, rfl, by decide, by decide⟩
  exact .event (.advance 1 0 (.suspended false true true [])) (.event .setRefs (.event (.start 1) (.init true []) rfl) rfl) rfl

/-! ### a pending `inject` has changed nothing -/

/-- `m` started with the lock free can only be found `evaluating` in the very state it started in -/
def EvalSame {α : Type} (m : M α) : Prop := ∀ s t, s.lock = 0 → m s = .evaluating t → t = s

/-- `m` returns in the state it started in -/
def StatePure {α : Type} (m : M α) : Prop := ∀ s a t, m s = .ok a t → t = s

theorem evalSame_of_noEval {α : Type} {m : M α} (h : NoEval m) : EvalSame m :=
  fun s t _ hr => (h s t hr).elim

theorem evalSame_bind_pure {α β : Type} {m : M α} {f : α → M β} (hp : StatePure m) (hn : NoEval m)
    (hf : ∀ a, EvalSame (f a)) : EvalSame (m >>= f) := by
  intro s t hl hr
  simp only [bind] at hr
  cases hm : m s with
  | ok a s1 =>
    rw [hm] at hr
    have := hp s a s1 hm
    subst this
    exact hf a _ t hl hr
  | panic p s1 => rw [hm] at hr; cases hr
  | deadlock s1 => rw [hm] at hr; cases hr
  | evaluating s1 => exact (hn s s1 hm).elim

theorem evalSame_bind_noEval {α β : Type} {m : M α} {f : α → M β} (hm : EvalSame m) (hf : ∀ a, NoEval (f a)) :
    EvalSame (m >>= f) := by
  intro s t hl hr
  simp only [bind] at hr
  cases h1 : m s with
  | ok a s1 => rw [h1] at hr; exact (hf a s1 t hr).elim
  | panic p s1 => rw [h1] at hr; cases hr
  | deadlock s1 => rw [h1] at hr; cases hr
  | evaluating s1 => rw [h1] at hr; injection hr with h2; rw [← h2]; exact hm s s1 hl h1

theorem statePure_idx {α : Type} (l : List α) (i : Nat) (site : String) : StatePure (idx l i site) := by
  intro s a t h
  unfold idx at h
  cases hx : l[i]? with
  | none => rw [hx] at h; cases h
  | some b => rw [hx] at h; cases h; rfl

theorem statePure_sliceFrom {α : Type} (l : List α) (i : Nat) (site : String) :
    StatePure (sliceFrom l i site) := by
  intro s a t h
  unfold sliceFrom at h
  by_cases hc : i ≤ l.length
  · rw [if_pos hc] at h; cases h; rfl
  · rw [if_neg hc] at h; cases h

theorem evalSame_injectValue (env : Env) (tid : Nat) (v e : Str) :
    EvalSame (injectValue repaired env tid v e) := by
  intro s t hl hr
  cases hg : s.globalScope
  · simp [injectValue, bind, getS, pure, hg] at hr
  · rw [injectValue_phases env tid v e hl hg] at hr
    split at hr
    · cases hr
    · cases hs : env.eval e with
      | ok => simp [hs, evalExpr] at hr; exact (noEval_injectSecond env tid v s t hr).elim
      | error => simp [hs, evalExpr] at hr
      | visits r =>
        simp only [hs, evalExpr, hl, ne_eq, not_true_eq_false, ↓reduceIte] at hr
        cases r
        · simp at hr
        · simp at hr; exact (noEval_injectSecond env tid v s t hr).elim
      | diverges => simp only [hs, evalExpr] at hr; cases hr; rfl

theorem evalSame_runInject (env : Env) (args : List Str) : EvalSame (runInject repaired env args) := by
  unfold runInject
  split
  · exact evalSame_of_noEval (noEval_pure _)
  · refine evalSame_bind_pure (statePure_idx _ _ _) (noEval_idx _ _ _) fun a0 => ?_
    split
    · exact evalSame_of_noEval (noEval_pure _)
    · refine evalSame_bind_pure (statePure_idx _ _ _) (noEval_idx _ _ _) fun a1 => ?_
      refine evalSame_bind_pure (statePure_sliceFrom _ _ _) (noEval_sliceFrom _ _ _) fun rest => ?_
      exact evalSame_bind_noEval (evalSame_injectValue env _ _ _) fun _ => noEval_pure _

theorem evalSame_run (env : Env) (c : Cmd) (args : List Str) : EvalSame (c.run repaired env args) := by
  cases c <;> simp only [Cmd.run]
  · exact evalSame_of_noEval (noEval_runSetBreak _ _)
  · exact evalSame_of_noEval (noEval_runBreakOnStart _)
  · exact evalSame_of_noEval (noEval_runCont _ _)
  · exact evalSame_of_noEval (noEval_runDescribe _ _)
  · exact evalSame_of_noEval (noEval_runSetBreak _ _)
  · exact evalSame_of_noEval (noEval_runExtract _)
  · exact evalSame_runInject env _
  · exact evalSame_of_noEval (noEval_lockState _)
  · exact evalSame_of_noEval (noEval_runRmBreak _)
  · exact evalSame_of_noEval (noEval_statusOf _)

theorem evalSame_handleInput (env : Env) (line : Str) : EvalSame (handleInput repaired env line) := by
  unfold handleInput
  dsimp only
  split
  · refine evalSame_bind_pure (statePure_idx _ _ _) (noEval_idx _ _ _) fun a0 => ?_
    split
    · split
      · exact evalSame_bind_pure (statePure_sliceFrom _ _ _) (noEval_sliceFrom _ _ _) fun _ => evalSame_run env _ _
      · exact evalSame_run env _ _
    · exact evalSame_of_noEval (noEval_pure _)
  · exact evalSame_of_noEval (noEval_pure _)

/-- **A pending `inject` has changed nothing.** If a command has not returned (reply
    `evaluating`), the state every other client sees is exactly the state the command was issued
    in: the first lock section of InjectValue only looked, the evaluation runs as a thread of its
    own that the debugger does not record. -/
theorem pending_inject_changed_nothing (env : Env) (s : DbgState) (line : Str) (h : s.lock = 0)
    (hp : (handle env s line).2 = .evaluating) : (handle env s line).1 = s := by
  unfold handle handleG at hp ⊢
  cases hr : handleInput repaired env line s with
  | evaluating t => simp only [hr]; exact evalSame_handleInput env line s t h hr
  | ok o t =>
    rw [hr] at hp
    simp only [Out.reply] at hp
    split at hp
    · cases hp
    · split at hp <;> cases hp
  | panic p t => rw [hr] at hp; cases hp
  | deadlock t => rw [hr] at hp; cases hp

/-- non-vacuity: the pending `inject` of the earlier example left the state as it was -/
example : (handle divergingEnv suspendedAtTop injectLine).1 = suspendedAtTop :=
  pending_inject_changed_nothing divergingEnv suspendedAtTop injectLine rfl (by decide)

/-- **A pending `inject` blocks nobody.** If `inject` has not returned (reply `evaluating`), the
    state every other client sees satisfies the invariant with the lock free; hence every further
    command line of any client gets a result or an error (or is itself an `inject` that evaluates),
    leaves the lock free, and `status` answers — for any number of further commands and evaluator
    events, since all of them preserve the invariant (`reachable_inv`). -/
theorem pending_inject_never_blocks (env : Env) (s : DbgState) (line : Str) (h : Inv s)
    (_hp : (handle env s line).2 = .evaluating) :
    Inv (handle env s line).1 ∧ (handle env s line).1.lock = 0 ∧
    (∀ env' line', (Answers (handle env' (handle env s line).1 line').2 ∨
        (handle env' (handle env s line).1 line').2 = .evaluating) ∧
      (handle env' (handle env s line).1 line').1.lock = 0) ∧
    (∀ env', (handle env' (handle env s line).1 [115, 116, 97, 116, 117, 115]).2 = .ok .status) := by
  have hi := handle_preserves_inv env s line h
  exact ⟨hi, hi.2,
    fun env' line' => ⟨handle_never_panics env' _ line' hi, lock_released env' _ line' hi⟩,
    fun env' => still_answers env env' s line h⟩

/-- non-vacuity: an `inject` whose expression does not return is pending -/
example : (handle divergingEnv suspendedAtTop injectLine).2 = .evaluating := by decide

/-- **The late completion of a pending `inject` is always possible and harmless**: in every
    state satisfying the invariant — whatever commands and events came in between — the second
    section of InjectValue runs to its end (no panic, no deadlock, it does not evaluate again)
    and the invariant holds afterwards. -/
theorem inject_completion_enabled (s : DbgState) (h : Inv s) (pathOk : Bool) (tid : Nat) (v : Str) :
    ∃ s', applyEvent s (.injectCompletes pathOk tid v) = some s' ∧ Inv s' := by
  have hw := injectSecond_safe { eval := fun _ => .ok, setPathOk := fun _ _ => pathOk } tid v (s := s) h.1 h.2
  have hn := noEval_injectSecond { eval := fun _ => .ok, setPathOk := fun _ _ => pathOk } tid v s
  unfold wp at hw
  simp only [applyEvent]
  cases hr : injectSecond { eval := fun _ => .ok, setPathOk := fun _ _ => pathOk } tid v s with
  | ok a t => rw [hr] at hw; exact ⟨t, rfl, hw⟩
  | panic p t => rw [hr] at hw; exact hw.elim
  | deadlock t => rw [hr] at hw; exact hw.elim
  | evaluating t => exact (hn t hr).elim

end Ecal.Props.C16
