import Ecal.Model.Conc
import Ecal.Gen.C11
/-!
# C11 — concurrent sink invocations are isolated; failures go to their own event

Model: `Ecal.Conc` — any number of invocations of action closures (of one sink or of
several), each a deterministic step function over its own state (fresh scope with
`event`, locals, instance state, the value it returns) and a store of named shared
cells: the variables of the declaring evaluation the closure captured, and the global
ECAL variables behind the scope lock. The facts about the Go source are regenerated
on every run (`Ecal.Gen.C11`, extractor `harness C11 -tool extract`).
-/
namespace Ecal.Props.C11
open Ecal.Conc

/-- **Generated side obligation** (re-checked against the source on every run; three-valued:
    a fact the extractor could not establish — `…Known = false` — breaks nothing, the check then
    notes it and amplifies its stress run): the function installed as `rule.Action` (and the
    same-package helpers it calls) assigns no variable declared outside it, refers to no variable
    the enclosing function re-assigns later (or a loop variable), and `function.Run` assigns
    neither a component of the shared function object nor package-level state. -/
theorem capturedWrites_nil :
    (Ecal.Gen.C11.actionKnown = false ∨
      (Ecal.Gen.C11.capturedWrites = [] ∧ Ecal.Gen.C11.capturedReassigned = [])) ∧
    (Ecal.Gen.C11.funcRunKnown = false ∨ Ecal.Gen.C11.funcRunWrites = []) := by decide

/-- **isolation.** Let the invocations write (unprotected) only the captured variables the
    extractor lists and (atomically, under the scope lock) the global variables `globals`
    the program explicitly shares (`hW`); let the list of captured writes be empty (`hcap`);
    let `low` be a part of the invocation state computed without looking at the globals
    (`hC`) — the outcome, `event` and the locals of a program whose sinks do not branch on
    shared globals. Then for every number of invocations and every interleaving, `low`
    of every invocation equals `low` of the same invocation running alone from the same
    global state, and no cell other than the explicitly shared globals changes. -/
theorem isolation {V L O : Type} (sys : Sys String V L) (low : L → O)
    (captured globals : List String)
    (hW : WritesWithin sys (· ∈ captured ++ globals))
    (hcap : captured = [])
    (hC : Confined sys (· ∈ globals) low)
    (s : State String V L) (sched : List Nat) :
    (∀ x, x ∉ globals → (run sys s sched).shared x = s.shared x) ∧
    ∀ t, low ((run sys s sched).locals t)
        = low (alone sys t (sched.count t) s.shared (s.locals t)).2 := by
  subst hcap
  have hW' : WritesWithin sys (· ∈ globals) := by
    intro t g l x hx
    exact hW t g l x (by simpa using hx)
  exact isolation_mod sys (· ∈ globals) low hW' hC s sched

/-- non-vacuity of `isolation`: the hypotheses are satisfiable with a shared global that changes -/
example (s : State String Nat (Nat × Nat)) (sched : List Nat) (t : Nat) :
    ((run counterSys s sched).locals t).1
      = (alone counterSys t (sched.count t) s.shared (s.locals t)).2.1 :=
  (isolation counterSys (·.1) [] ["total"] counterSys_writes rfl counterSys_confined s sched).2 t

/-- `isolation` for the captured-write list extracted from the source under test. -/
theorem isolation_extracted {V L O : Type} (sys : Sys String V L) (low : L → O) (globals : List String)
    (hW : WritesWithin sys (· ∈ Ecal.Gen.C11.capturedWrites ++ globals))
    (hC : Confined sys (· ∈ globals) low)
    (hk : Ecal.Gen.C11.actionKnown = true)
    (s : State String V L) (sched : List Nat) (t : Nat) :
    low ((run sys s sched).locals t) = low (alone sys t (sched.count t) s.shared (s.locals t)).2 :=
  (isolation sys low _ globals hW
    ((capturedWrites_nil.1.resolve_left (by simp [hk])).1) hC s sched).2 t

/-- Without shared globals the whole invocation state is that of the run alone. -/
theorem isolation_no_globals {V L : Type} (sys : Sys String V L)
    (hW : WritesWithin sys (· ∈ ([] : List String)))
    (s : State String V L) (sched : List Nat) :
    (run sys s sched).shared = s.shared ∧
    ∀ t, (run sys s sched).locals t = (alone sys t (sched.count t) s.shared (s.locals t)).2 :=
  Ecal.Conc.isolation sys (fun t g l x _ => hW t g l x (by simp)) s sched

/-- **globals_schedule_independent** (commuting atomic steps). If moreover the lock-protected
    updates of the shared globals are operations determined by the private part of the
    invocation (`hU`) and operations of different invocations commute (`hcomm`: counters,
    set insertions, writes to distinct keys), then the final value of the shared globals — and
    the private part of every invocation — is the same for all interleavings of the same steps. -/
theorem globals_schedule_independent {V L O : Type} (sys : Sys String V L) (low : L → O)
    (globals : List String) (upd : Nat → O → (String → V) → (String → V))
    (hW : WritesWithin sys (· ∈ globals))
    (hC : Confined sys (· ∈ globals) low)
    (hU : UpdatesBy sys low upd)
    (hcomm : ∀ t t' o o' g, t ≠ t' → upd t o (upd t' o' g) = upd t' o' (upd t o g))
    (s : State String V L) (sched sched' : List Nat) (hp : sched.Perm sched') :
    (run sys s sched).shared = (run sys s sched').shared ∧
    ∀ t, low ((run sys s sched).locals t) = low ((run sys s sched').locals t) :=
  perm_lowEq sys (· ∈ globals) low upd hW hC hU hcomm hp s

/-- non-vacuity (`counterSys`, defined above) -/
example (s : State String Nat (Nat × Nat)) (sched sched' : List Nat) (hp : sched.Perm sched') :
    (run counterSys s sched).shared = (run counterSys s sched').shared :=
  (globals_schedule_independent counterSys (·.1) ["total"]
    (fun _ o g x => if x = "total" then g x + o else g x)
    (by intro t g l x hx
        have : x ≠ "total" := by simpa using hx
        simp [counterSys, this])
    (by intro t g g' l l' _ hl; simpa [counterSys] using hl)
    (by intro t g l; rfl)
    (by intro t t' o o' g _; funext x; by_cases h : x = "total" <;> simp [h]; omega)
    s sched sched' hp).1

/-! ### The action closure of `sinkRuntime.Eval` (`Ecal.Conc.sinkSys`) -/

/-- **errors_attributed.** With the closure as it is (no captured assignment), for every
    number of overlapping invocations (`events t` = the event of invocation `t`), every
    outcome function and every interleaving:
    * an invocation that ran to its end returned exactly what its own code produced for
      its own event (`outcome (events t)`: success or its own error) — nothing is lost and
      nothing is reported for another event — and saw its own `event`;
    * at no point of any interleaving does an invocation hold a result or an `event` other
      than its own (so no schedule duplicates an error into another invocation);
    * the shared store is untouched. -/
theorem errors_attributed (outcome : Nat → Option Nat) (events : Nat → Nat)
    (g : String → Option Nat) (sched : List Nat) :
    let fin := run (sinkSys [] outcome) ⟨g, fun t => fresh (events t)⟩ sched
    fin.shared = g ∧
    (∀ t, sched.count t ≥ 3 →
        (fin.locals t).ret = some (outcome (events t)) ∧ (fin.locals t).echo = some (events t)) ∧
    (∀ t, ((fin.locals t).ret = none ∨ (fin.locals t).ret = some (outcome (events t))) ∧
          ((fin.locals t).echo = none ∨ (fin.locals t).echo = some (events t))) := by
  intro fin
  obtain ⟨h1, h2⟩ := Ecal.Conc.isolation (sinkSys [] outcome) (sinkSys_nil_readonly outcome)
    ⟨g, fun t => fresh (events t)⟩ sched
  refine ⟨h1, ?_, ?_⟩
  · intro t ht
    obtain ⟨k, hk⟩ : ∃ k, sched.count t = k + 3 := ⟨sched.count t - 3, by omega⟩
    have := h2 t
    simp only [hk] at this
    rw [alone_fresh] at this
    simp [fin, this]
  · intro t
    have := h2 t
    have hw := alone_never_wrong outcome t (sched.count t) (events t) g
    simp only at hw
    simp only [fin, this]
    exact hw.2

/-- non-vacuity: three overlapping invocations, the middle one failing -/
example :
    let outcome := fun ev => if ev = 11 then some 500 else none
    let fin := run (sinkSys [] outcome) ⟨fun _ => none, fun t => fresh (10 + t)⟩ [0, 1, 2, 2, 1, 0, 0, 1, 2]
    (fin.locals 0).ret = some none ∧ (fin.locals 1).ret = some (some 500) ∧ (fin.locals 2).ret = some none := by
  decide

/-! ### `event` is a variable of the invocation, also when the declaring scope has one of that name -/

/-- **Generated side obligation**: inside the action closure the fresh scope receives `event`
    (by `SetValue`) while it has no parent — the link to the declaring scope comes after the
    store — and the call frame of `function.Run` receives `this`, `super` and the parameters the
    same way. (`SetValue` after the link would resolve the name through the parent chain and
    overwrite a variable of that name in the declaring scope.) -/
theorem scope_setup_local :
    (Ecal.Gen.C11.sinkSetupKnown = false ∨
      setupKeepsLocal Ecal.Gen.C11.sinkScopeSetup ["event"] = true) ∧
    (Ecal.Gen.C11.funcRunSetupKnown = false ∨
      setupKeepsLocal Ecal.Gen.C11.funcRunScopeSetup ["this", "super", "*"] = true) := by decide

/-- **event_is_local.** With a set-up that stores `event` before the scope gets its parent
    (`h`, discharged for the source under test by `scope_setup_local`): for every number of
    overlapping invocations, every interleaving and every declaring scope `g` — also one that
    defines a variable named `event` — every completed invocation read its own event both times,
    no invocation ever reads another one's event, and the declaring scope is untouched. -/
theorem event_is_local (setup : List (String × String)) (h : setupKeepsLocal setup ["event"] = true)
    (events : Nat → Nat) (g : String → Option Nat) (sched : List Nat) :
    let fin := run (scopeSys (!setupKeepsLocal setup ["event"])) ⟨g, fun t => { event := events t }⟩ sched
    fin.shared = g ∧
    (∀ t, sched.count t ≥ 3 →
        (fin.locals t).read1 = some (events t) ∧ (fin.locals t).read2 = some (events t)) ∧
    (∀ t, ((fin.locals t).read1 = none ∨ (fin.locals t).read1 = some (events t)) ∧
          ((fin.locals t).read2 = none ∨ (fin.locals t).read2 = some (events t))) := by
  rw [h]
  intro fin
  obtain ⟨h1, h2⟩ := Ecal.Conc.isolation (scopeSys false) scopeSys_local_readonly
    ⟨g, fun t => { event := events t }⟩ sched
  refine ⟨h1, ?_, ?_⟩
  · intro t ht
    obtain ⟨k, hk⟩ : ∃ k, sched.count t = k + 3 := ⟨sched.count t - 3, by omega⟩
    have := h2 t
    simp only [hk] at this
    rw [scope_alone_fresh] at this
    simp [fin, this]
  · intro t
    have := h2 t
    have hw := scope_alone_never_wrong t (sched.count t) (events t) g
    simp only at hw
    simp only [fin, Bool.not_true, this]
    exact hw

/-- `event_is_local` for the set-up extracted from the source under test -/
theorem event_is_local_extracted (events : Nat → Nat) (g : String → Option Nat) (sched : List Nat) (t : Nat)
    (hk : Ecal.Gen.C11.sinkSetupKnown = true) (ht : sched.count t ≥ 3) :
    ((run (scopeSys (!setupKeepsLocal Ecal.Gen.C11.sinkScopeSetup ["event"]))
        ⟨g, fun t => { event := events t }⟩ sched).locals t).read2 = some (events t) :=
  ((event_is_local _ (scope_setup_local.1.resolve_left (by simp [hk])) events g sched).2.1 t ht).2

/-- **parent_first_shares_event** (negative witness). With the parent attached first
    (`NewScopeWithParent` … `SetValue("event")`) and a declaring scope that defines `event`
    (here: 99), invocation 0 reads its own event, invocation 1 stores its event, invocation 0
    reads again and sees invocation 1's event; the declaring scope's variable is clobbered.
    The set-up check rejects that order. -/
theorem parent_first_shares_event :
    let g : String → Option Nat := fun x => if x = eventCell then some 99 else none
    let fin := run (scopeSys true) ⟨g, fun t => { event := t }⟩ [0, 0, 1, 0]
    (fin.locals 0).read1 = some 0 ∧ (fin.locals 0).read2 = some 1 ∧ fin.shared eventCell = some 1 ∧
    setupKeepsLocal [("NewScopeWithParent", ""), ("SetValue", "event"), ("Eval", "")] ["event"] = false ∧
    setupKeepsLocal [("NewScope", ""), ("SetParentOfScope", ""), ("SetValue", "event"), ("Eval", "")] ["event"] = false ∧
    setupKeepsLocal [("NewScopeWithParent", ""), ("SetLocalValue", "event"), ("Eval", "")] ["event"] = true := by
  decide

/-! ### Negative witness: the closure before the repair assigned the captured `err` -/

/-- invocation 0 fails with error 7, invocation 1 succeeds -/
def failThenOk : Nat → Option Nat := fun ev => if ev = 0 then some 7 else none

/-- **shared_err_interferes.** For the write set `{err}` (the unrepaired closure) there is
    a 2-invocation interleaving in which the succeeding invocation returns the other
    invocation's error (mis-attributed), and one in which the failing invocation returns
    success (lost) — although each returns its own outcome when it runs alone. -/
theorem shared_err_interferes :
    -- alone
    (alone (sinkSys ["err"] failThenOk) 0 3 (fun _ => none) (fresh 0)).2.ret = some (some 7) ∧
    (alone (sinkSys ["err"] failThenOk) 1 3 (fun _ => none) (fresh 1)).2.ret = some none ∧
    -- mis-attributed: invocation 1 returns error 7
    ((run (sinkSys ["err"] failThenOk) ⟨fun _ => none, fun t => fresh t⟩ [1, 1, 0, 0, 1, 0]).locals 1).ret
        = some (some 7) ∧
    -- lost: invocation 0 returns success
    ((run (sinkSys ["err"] failThenOk) ⟨fun _ => none, fun t => fresh t⟩ [0, 0, 1, 1, 1, 0]).locals 0).ret
        = some none := by
  decide

/-- the unrepaired closure does write the captured cell: the hypothesis of `isolation` fails -/
theorem unrepaired_writes_err (outcome : Nat → Option Nat) (h : outcome 0 = some 1) :
    ¬ WritesWithin (sinkSys ["err"] outcome) (fun _ => False) := by
  intro hW
  have := hW 0 (fun _ => none) { event := 0, pc := 1 } errCell (fun h => h)
  simp [sinkSys, sinkStep, errCell, h] at this

end Ecal.Props.C11
