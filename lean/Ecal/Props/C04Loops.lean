import Ecal.Props.C04Eval
/-!
# C04 — loops: what actually runs

* `loop_range_runs_rangeVals`: the loop driver over the range iterator step (`rangeIter`: the end test
  `rangeDone` and the addition of the step, on ANY numeric carrier — in particular `floatOps`, the one
  the evaluator runs) is `forEach` over `rangeVals` of that carrier.
* `rangeVals_emb`: on the part of a carrier where the integers embed faithfully (`NumEmbOn`), the values
  are the images of the integer range — so the Int theorems of Props/C04.lean (inclusive end, both
  directions, wrong direction empty, closed forms) transfer. For `Float` this part is the integers below
  2^53 (IEEE-754 exactness; NOT proved here, `Float` is opaque to the kernel — stated as hypothesis).
  Fractional steps are outside: the elements are those of repeated float addition, and the end is
  delivered only when the accumulation hits it exactly (`range(0, 0.3, 0.1)` gives 0, 0.1, 0.2).
* `loop_list`: over a list the evaluator's iterator `iterNext … (.list r l i)` reads the backing array
  LIVE: element i is what the array holds when step i starts (the block may write it); the length is
  the one captured at loop start.

FULL STATEMENT NOT YET PROVED (`loop_range_inclusive_partial`): for a `for v in range(a, b, s)` NODE,
`eval` runs the block once per element of `rangeVals floatOps a b s`. Proved: the node is `iterLoop`
over `iterNext … .reeval` (eval_iterloop_is_iterLoop); `eval_range_step`: that iterator — `eval` of the
call expression, through evalIdent / callFunction / the arguments / the builtin's state machine — IS the
`rangeIter floatOps` step on the cursor of the call site's entry (hypotheses: `range` not shadowed by a
function value; the re-evaluation of the arguments leaves the entry alone); `loop_range_runs_rangeVals`:
the loop over `rangeIter` is `forEach` over `rangeVals`. Missing: the induction over the rounds that
joins the two, which needs the frame condition "block, binder and arguments leave the loop's range entry
and the current instance-state map alone" as an invariant of `eval` (true by construction of the entries'
keys — a call site is only evaluated by its own loop — but a proof goes through all of `eval`).
-/
namespace Ecal.Props.C04
open Ecal.Ev
open Ecal.Parse (Node)

/-- one step of a range iterator on carrier `α`: end test, else deliver `cur` and advance by the step -/
def rangeIter {α : Type} (o : NumOps α) (fr to step : α) (inj : α → Val) (brk : Sig) (cur : α) : M (Val × α) :=
  if rangeDone o fr to step cur then throw brk else pure (inj cur, o.add cur step)

/-- **loop_range_runs_rangeVals**: for every carrier (Int, Float, …): if the range ends within `k`
    steps, the loop driver over the range iterator runs the block exactly for the values
    `rangeVals o fr to step`, in order (break / continue / errors as `forEach` says) -/
theorem loop_range_runs_rangeVals {α : Type} (o : NumOps α) (fr to step : α) (inj : α → Val) (brk : Sig)
    (hb : brk.isBreak = true) (hc : brk.isContinue = false) (bind : Val → M Unit) (body : M Val) :
    ∀ (k : Nat) (cur : α) (f : Nat) (s : St), (rangeVals o fr to step k cur).length < k → k ≤ f →
      run (iterLoop (rangeIter o fr to step inj brk) bind body f cur) s =
        run (forEach bind body ((rangeVals o fr to step k cur).map inj)) s
  | 0, _, _, _, h, _ => by simp at h
  | k+1, cur, 0, _, _, hf => by omega
  | k+1, cur, f+1, s, h, hf => by
    rw [loop_iter_step]
    by_cases hd : rangeDone o fr to step cur = true
    · simp [rangeIter, hd, rangeVals, forEach, hb, hc]
    · have hd' : rangeDone o fr to step cur = false := by simpa using hd
      have hlen : (rangeVals o fr to step k (o.add cur step)).length < k := by
        simp [rangeVals, hd'] at h; omega
      have ih := fun s' => loop_range_runs_rangeVals o fr to step inj brk hb hc bind body k (o.add cur step) f s' hlen (by omega)
      simp only [rangeIter, hd', Bool.false_eq_true, if_false, run_pure, rangeVals, List.map_cons, forEach,
        run_bind, run_attempt]
      rcases hbd : run (bind (inj cur)) s with ⟨rb, s2⟩
      cases rb with
      | error e => rfl
      | ok _ =>
        simp only [afterBody]
        rcases hbo : run body s2 with ⟨rbo, s3⟩
        cases rbo with
        | ok _ => simp [ih]
        | error e => simp only [run_ite, run_pure, run_throw, ih]

/-- `emb` embeds the integers of `Good` faithfully into the carrier of `o` -/
structure NumEmbOn {α : Type} (o : NumOps α) (emb : Int → α) (Good : Int → Prop) : Prop where
  lt : ∀ a b, Good a → Good b → o.lt (emb a) (emb b) = decide (a < b)
  eq : ∀ a b, Good a → Good b → o.eq (emb a) (emb b) = decide (a = b)
  add : ∀ a b, Good a → Good b → Good (a + b) → o.add (emb a) (emb b) = emb (a + b)
  zero : o.zero = emb 0

theorem rangeDone_emb {α : Type} {o : NumOps α} {emb : Int → α} {Good : Int → Prop} (h : NumEmbOn o emb Good)
    (fr to step cur : Int) (g0 : Good 0) (gf : Good fr) (gt : Good to) (gs : Good step) (gc : Good cur) :
    rangeDone o (emb fr) (emb to) (emb step) (emb cur) = rangeDone intOps fr to step cur := by
  simp only [rangeDone, h.zero, h.lt _ _ g0 gs, h.lt _ _ gt gc, h.lt _ _ gs g0, h.lt _ _ gc gt,
    h.eq _ _ gf gt, h.eq _ _ gc gf, intOps]
  have e1 : (fr == to) = decide (fr = to) := by by_cases hh : fr = to <;> simp [hh]
  have e2 : (cur == fr) = decide (cur = fr) := by by_cases hh : cur = fr <;> simp [hh]
  rw [e1, e2]

/-- **inclusive ranges on any carrier where the integers in play embed faithfully**: the values
    delivered are the images of the integer range (to which loop_range_inclusive_pos/_neg,
    loop_range_equal_bounds, loop_range_wrong_direction_empty, loop_range_values_pos/_neg apply).
    `hcl`: the values visited stay inside `Good`. -/
theorem rangeVals_emb {α : Type} {o : NumOps α} {emb : Int → α} {Good : Int → Prop} (h : NumEmbOn o emb Good)
    (fr to step : Int) (g0 : Good 0) (gf : Good fr) (gt : Good to) (gs : Good step)
    (hcl : ∀ x, Good x → rangeDone intOps fr to step x = false → Good (x + step)) :
    ∀ (n : Nat) (cur : Int), Good cur →
      rangeVals o (emb fr) (emb to) (emb step) n (emb cur) = (rangeVals intOps fr to step n cur).map emb
  | 0, _, _ => rfl
  | n+1, cur, gc => by
    simp only [rangeVals, rangeDone_emb h fr to step cur g0 gf gt gs gc]
    by_cases hd : rangeDone intOps fr to step cur = true
    · simp [hd]
    · have hd' : rangeDone intOps fr to step cur = false := by simpa using hd
      have gn := hcl cur gc hd'
      simp only [hd', Bool.false_eq_true, if_false, List.map_cons, h.add _ _ gc gs gn]
      rw [rangeVals_emb h fr to step g0 gf gt gs hcl n (cur + step) gn]
      rfl

/-- non-vacuity: the integers embed into themselves -/
example : NumEmbOn intOps id (fun _ => True) :=
  ⟨fun _ _ _ _ => rfl, fun a b _ _ => by by_cases hh : a = b <;> simp [intOps, hh], fun _ _ _ _ _ => rfl, rfl⟩

/-! ### lists: the iterator reads the backing array live -/

/-- reference for "once per index, in order, reading the array when the step starts" -/
def forEachLive (r : Nat) (bind : Val → M Unit) (body : M Val) : Nat → Nat → M Val
  | 0, _ => pure .null
  | k+1, i => do
    let v := (← getBacking r).getD i Val.null
    bind v
    match ← attemptE body with
    | .ok _ => forEachLive r bind body k (i + 1)
    | .error e =>
      if e.isContinue then forEachLive r bind body k (i + 1)
      else if e.isBreak then pure .null
      else throw e

/-- **loop_list**: the loop driver over the evaluator's list iterator visits the indices `i, i+1, …, l-1`
    in order; the element of step j is the content of the backing array at j WHEN THAT STEP STARTS
    (`l := [1,2,3]; for i in l { l[2] := 9 }` sees 1, 2, 9); `l` is the length captured at loop start -/
theorem loop_list (f0 ls : Nat) (n it : Node) (r l : Nat) (bind : Val → M Unit) (body : M Val) :
    ∀ (k i f : Nat) (s : St), l - i = k → i ≤ l → k < f →
      run (iterLoop (iterNext (f0+1) ls n it) bind body f (.list r l i)) s =
        run (forEachLive r bind body k i) s
  | k, i, 0, _, _, _, hf => by omega
  | 0, i, f+1, s, hk, hi, _ => by
    have : i ≥ l := by omega
    rw [loop_iter_step, iterNext_list]
    simp [this, forEachLive, (loop_end_is_break n).1, (loop_end_is_break n).2]
  | k+1, i, f+1, s, hk, hi, hf => by
    have hlt : ¬ i ≥ l := by omega
    rw [loop_iter_step, iterNext_list]
    have ih := fun s' => loop_list f0 ls n it r l bind body k (i+1) f s' (by omega) (by omega) (by omega)
    simp only [hlt, if_false, forEachLive, run_bind]
    have hg : run (getBacking r) s = (.ok (s.lists.getD r []), s) := rfl
    simp only [run_bind, hg, run_pure]
    rcases hbd : run (bind ((s.lists.getD r []).getD i Val.null)) s with ⟨rb, s2⟩
    cases rb with
    | error e => rfl
    | ok _ =>
      simp only [afterBody, run_attempt]
      rcases hbo : run body s2 with ⟨rbo, s3⟩
      cases rbo with
      | ok _ => simp [ih]
      | error e => simp only [run_ite, run_pure, run_throw, ih]

/-! ### the range call's state machine performs the `rangeIter` step -/

/-- advancing the entry of the call site at (line, col) in a list of range states -/
def advanceAt (line : Nat) (col : Int) (states : List RangeSt) : List RangeSt :=
  states.map fun q => if q.line == line && q.col == col then { q with cur := floatOps.add q.cur q.step } else q

/-- **runBuiltin_range_next**: a call of `range` whose site already has an entry `r` in the current
    instance-state map ignores its arguments: it advances the entry's cursor by the step and, exactly as
    `rangeIter floatOps r.fr r.to r.step` does on `r.cur`, either signals the end (the text that
    `wrapCallErr` turns into the loop's break signal) or delivers `r.cur` with the iterator signal -/
theorem runBuiltin_range_next (f sc : Nat) (node : Node) (t : Ecal.Lex.Tok) (a : Val) (args : List Val) (st : St)
    (r : RangeSt) (ht : node.tok = some t)
    (hfind : (st.isStore.getD st.curIs []).find? (fun q => q.line == t.line && q.col == t.col) = some r) :
    run (runBuiltin (f+1) sc node "range" (a :: args)) st =
      (.error (if rangeDone floatOps r.fr r.to r.step r.cur then plain tBreak
               else Sig.iter ⟨tIsIter, t.line, t.col⟩ r.cur),
       { st with isStore := st.isStore.setIfInBounds st.curIs (advanceAt t.line t.col (st.isStore.getD st.curIs [])) }) := by
  rw [runBuiltin.eq_def]
  simp only [List.isEmpty_cons, Bool.false_eq_true, if_false, tokOf, ht, pure_bind, run_bind, run_get, hfind,
    run_set, advanceAt]
  by_cases hd : rangeDone floatOps r.fr r.to r.step r.cur = true
  · simp [hd, run_ite]
  · simp [hd, run_ite]

/-! ### the step of a `for v in range(…)` loop at the level of `eval` -/

/-- the call site at (line, col) has the entry `r` in the current instance-state map -/
def RangeEntry (line : Nat) (col : Int) (s : St) (r : RangeSt) : Prop :=
  (s.isStore.getD s.curIs []).find? (fun q => q.line == line && q.col == col) = some r

/-- **eval_range_step**: in a `for v in range(…)` loop whose call site has the entry `r`, the iterator
    `iterNext … .reeval` — i.e. `eval` of the call expression — IS the `rangeIter floatOps` step on `r.cur`:
    it ends the loop (break signal at the call) iff `rangeDone floatOps r.fr r.to r.step r.cur`, else it
    delivers `r.cur`; the entry's cursor advances by the step. Hypotheses: `range` is not shadowed by a
    function value (`hgv`), and the (re-)evaluation of the arguments yields at least one value and leaves
    entry and current instance-state map alone (`hargs` — the frame condition for the arguments). -/
theorem eval_range_step (f ls : Nat) (n it fc : Node) (t : Ecal.Lex.Tok) (s s1 : St) (r : RangeSt)
    (v' : Val) (b : Bool) (a : Val) (as : List Val)
    (hn : it.name = "identifier") (ht : it.tok = some t) (hc : it.children = [some fc]) (hfc : fc.name = "funccall")
    (hname : bytesToString t.val = "range")
    (hmath : ((splitDots t.val).head? == some (Ecal.Lex.str "math")) = false)
    (hgv : run (getValue ls t.val) s = (.ok (v', b), s))
    (hv1 : ∀ id, v' ≠ .func id) (hv2 : ∀ nm, v' ≠ .builtin nm)
    (hargs : run (argsEval (f+1) ls fc) s = (.ok (a :: as), s1))
    (hent : RangeEntry t.line t.col s1 r) :
    run (iterNext (f+5) ls n it .reeval) s =
      (if rangeDone floatOps r.fr r.to r.step r.cur then .error (rtErr tBreak it)
       else .ok (.num r.cur, IterSt.reeval),
       { s1 with isStore := s1.isStore.setIfInBounds s1.curIs (advanceAt t.line t.col (s1.isStore.getD s1.curIs [])) }) := by
  have key : run (do
        let args ← argsEval (f+1) ls fc
        match ← attemptE (runBuiltin (f+1) ls it "range" args) with
        | .ok r => pure r
        | .error e => throw (wrapCallErr it e)) s =
      (.error (if rangeDone floatOps r.fr r.to r.step r.cur then rtErr tBreak it
               else Sig.iter ⟨tIsIter, t.line, t.col⟩ r.cur),
       { s1 with isStore := s1.isStore.setIfInBounds s1.curIs (advanceAt t.line t.col (s1.isStore.getD s1.curIs [])) }) := by
    simp only [run_bind, run_attempt, hargs, runBuiltin_range_next f ls it t a as s1 r ht hent]
    by_cases hd : rangeDone floatOps r.fr r.to r.step r.cur = true
    · simp [hd, wrapCallErr, plain, run_throw]
    · simp [hd, wrapCallErr, run_throw]
  have hE : run (eval (f+4) ls it) s =
      (.error (if rangeDone floatOps r.fr r.to r.step r.cur then rtErr tBreak it
               else Sig.iter ⟨tIsIter, t.line, t.col⟩ r.cur),
       { s1 with isStore := s1.isStore.setIfInBounds s1.curIs (advanceAt t.line t.col (s1.isStore.getD s1.curIs [])) }) := by
    rw [eval_range_call (f+1) ls it fc t hn ht hc hfc hname hmath, run_bind, hgv]
    cases v' with
    | func id => exact absurd rfl (hv1 id)
    | builtin nm => exact absurd rfl (hv2 nm)
    | _ => exact key
  rw [iterNext_reeval, run_bind, run_attempt, hE]
  by_cases hd : rangeDone floatOps r.fr r.to r.step r.cur = true
  · simp only [hd, if_true]
    unfold rtErr
    cases it.tok <;> rfl
  · simp only [hd, Bool.false_eq_true, if_false, ht, beq_self_eq_true, Bool.and_self, if_true]
    rfl

/-- **loop_range_inclusive_partial** — the PROVED parts of "a `for v in range(a, b, s)` node runs its block once per
    element of the range", under the name that says it is partial: (1) on every numeric carrier the loop over the
    range step is `forEach` over `rangeVals` (this statement = `loop_range_runs_rangeVals`); (2) `eval_range_step`:
    `eval` of the call expression in the node IS that step on the call site's entry. FULL statement not proved:
    the induction over the rounds joining (1) and (2); it needs "block, binder and arguments leave the loop's range
    entry alone" as an invariant of all of `eval`. Inclusiveness itself is proved at Int and transfers through
    `rangeVals_emb` (IEEE exactness below 2^53 assumed). -/
theorem loop_range_inclusive_partial {α : Type} (o : NumOps α) (fr to step : α) (inj : α → Val) (brk : Sig)
    (hb : brk.isBreak = true) (hc : brk.isContinue = false) (bind : Val → M Unit) (body : M Val)
    (k : Nat) (cur : α) (f : Nat) (s : St) (hk : (rangeVals o fr to step k cur).length < k) (hf : k ≤ f) :
    run (iterLoop (rangeIter o fr to step inj brk) bind body f cur) s =
      run (forEach bind body ((rangeVals o fr to step k cur).map inj)) s :=
  loop_range_runs_rangeVals o fr to step inj brk hb hc bind body k cur f s hk hf

end Ecal.Props.C04
