import Ecal.Lemmas.PriorityBook
import Ecal.Lemmas.PriorityHeapPop
import Ecal.Lemmas.PriorityHeapPush
import Ecal.Lemmas.PriorityCascade
import Ecal.Lemmas.PriorityValid
import Ecal.Gen.C10
import Ecal.Model.PriorityConc
/-!
# C10 — priorities order execution; the first failing rule ends a trigger sequence

Theorems about `Ecal.Priority` (lean/Ecal/Model/Priority.lean), the model of
engine/processor.go `ProcessEvent`, engine/taskqueue.go + sortutil.PriorityQueue, and the
priority bookkeeping of engine/monitor.go `RootMonitor`.
-/
namespace Ecal.Props.C10
open Ecal.Priority Ecal.Priority.Book Ecal.Priority.Heap

/-! ## rules of one event -/

theorem uptoFirstFail_prefix : ∀ l : List Rule, uptoFirstFail l <+: l
  | [] => List.prefix_refl _
  | r :: rs => by
    unfold uptoFirstFail
    split
    · exact ⟨rs, rfl⟩
    · exact List.cons_prefix_cons.mpr ⟨rfl, uptoFirstFail_prefix rs⟩

theorem execLoop_on : ∀ l : List Rule,
    execLoop true l [] = (uptoFirstFail l, (l.find? (·.fails)).toList)
  | [] => rfl
  | r :: rs => by
    unfold execLoop uptoFirstFail
    cases hf : r.fails
    · simp [hf, execLoop_on rs]
    · simp [hf]

theorem execLoop_off : ∀ (l errs : List Rule),
    execLoop false l errs = (l, errs ++ l.filter (·.fails))
  | [], errs => by simp [execLoop]
  | r :: rs, errs => by
    unfold execLoop
    cases hf : r.fails <;> simp [hf, execLoop_off rs]

theorem insertRule_perm (r : Rule) : ∀ l, (insertRule r l).Perm (r :: l)
  | [] => List.Perm.refl _
  | x :: xs => by
    unfold insertRule
    split
    · exact List.Perm.refl _
    · exact ((insertRule_perm r xs).cons x).trans (List.Perm.swap r x xs)

theorem insertRule_sorted (r : Rule) : ∀ l, l.Pairwise (fun a b => a.prio ≤ b.prio) →
    (insertRule r l).Pairwise (fun a b => a.prio ≤ b.prio)
  | [], _ => by simp [insertRule]
  | x :: xs, h => by
    unfold insertRule
    have hx := List.pairwise_cons.mp h
    split
    · rename_i hle
      refine List.pairwise_cons.mpr ⟨?_, h⟩
      intro y hy
      simp at hy
      rcases hy with rfl | hy
      · exact hle
      · have := hx.1 y hy; omega
    · rename_i hle
      refine List.pairwise_cons.mpr ⟨?_, insertRule_sorted r xs hx.2⟩
      intro y hy
      have := (insertRule_perm r xs).mem_iff.mp hy
      simp at this
      rcases this with rfl | hy
      · omega
      · exact hx.1 y hy

/-- the stable insertion sort used when the model is executed is an admissible `SortRuleSlice` -/
theorem stableSort_isPrioSort : IsPrioSort stableSort where
  perm l := by
    induction l with
    | nil => exact List.Perm.refl _
    | cons r rs ih => exact (insertRule_perm r _).trans (ih.cons r)
  sorted l := by
    induction l with
    | nil => simp [stableSort]
    | cons r rs ih => exact insertRule_sorted r _ ih

/-- **Rules run in ascending priority number.** Whatever admissible order `SortRuleSlice`
    produces (it is not stable), with either flag setting: the rules whose action is started
    form a prefix of the sorted rule list, so their priority numbers never decrease. -/
theorem rules_ascending (sort : List Rule → List Rule) (hs : IsPrioSort sort) (failFirst : Bool)
    (rules : List Rule) :
    (processRules sort failFirst rules).1 <+: sort rules ∧
    (processRules sort failFirst rules).1.Pairwise (fun a b => a.prio ≤ b.prio) := by
  have hp : (processRules sort failFirst rules).1 <+: sort rules := by
    unfold processRules
    cases failFirst
    · rw [execLoop_off]; exact List.prefix_refl _
    · rw [execLoop_on]; exact uptoFirstFail_prefix _
  exact ⟨hp, (hs.sorted rules).sublist hp.sublist⟩

example : (processRules stableSort true
    [⟨1, 5, false⟩, ⟨2, 0, false⟩, ⟨3, 3, true⟩, ⟨4, 4, false⟩]).1.map (·.name) = [2, 3] := by decide

/-- what "prefix up to and including the first failing rule" means -/
theorem uptoFirstFail_spec : ∀ l : List Rule,
    (∀ r ∈ l, r.fails = false) ∧ uptoFirstFail l = l ∨
    ∃ pre r post, l = pre ++ r :: post ∧ (∀ x ∈ pre, x.fails = false) ∧ r.fails = true ∧
      uptoFirstFail l = pre ++ [r] ∧ l.find? (·.fails) = some r
  | [] => Or.inl ⟨by simp, rfl⟩
  | a :: as => by
    unfold uptoFirstFail
    cases hf : a.fails
    · rcases uptoFirstFail_spec as with ⟨h1, h2⟩ | ⟨pre, r, post, h1, h2, h3, h4, h5⟩
      · left
        refine ⟨?_, by simp [h2]⟩
        intro r hr; simp at hr; rcases hr with rfl | hr
        · exact hf
        · exact h1 r hr
      · right
        refine ⟨a :: pre, r, post, by simp [h1], ?_, h3, by simp [h4], by simp [hf, h5]⟩
        intro x hx; simp at hx; rcases hx with rfl | hx
        · exact hf
        · exact h2 x hx
    · right; exact ⟨[], a, as, rfl, by simp, hf, by simp, by simp [hf]⟩

/-- **The first failing rule ends the trigger sequence** (`failOnFirstError` set, the default of
    the ECAL interpreter): the rules started are exactly the sorted rules up to and including
    the first failing one, and the error map holds exactly that rule (nothing if none fails).
    **Flag off:** every triggered rule runs and the error map holds every failing rule. -/
theorem fail_first_prefix (sort : List Rule → List Rule) (rules : List Rule) :
    processRules sort true rules
      = (uptoFirstFail (sort rules), ((sort rules).find? (·.fails)).toList) ∧
    processRules sort false rules = (sort rules, (sort rules).filter (·.fails)) := by
  unfold processRules
  rw [execLoop_on, execLoop_off]
  simp

/-- flag off, in terms of the unsorted input: the executed rules are a permutation of the
    triggered rules, and a rule is reported iff it was triggered and fails -/
theorem all_run_without_flag (sort : List Rule → List Rule) (hs : IsPrioSort sort) (rules : List Rule) :
    (processRules sort false rules).1.Perm rules ∧
    ∀ r, r ∈ (processRules sort false rules).2 ↔ r ∈ rules ∧ r.fails = true := by
  rw [(fail_first_prefix sort rules).2]
  refine ⟨hs.perm rules, ?_⟩
  intro r
  simp [(hs.perm rules).mem_iff]

/-- flag on: at most one error, and it belongs to the last executed rule -/
theorem one_error_with_flag (sort : List Rule → List Rule) (rules : List Rule) :
    (processRules sort true rules).2.length ≤ 1 ∧
    ∀ r ∈ (processRules sort true rules).2,
      (processRules sort true rules).1.getLast? = some r ∧ r.fails = true := by
  rw [(fail_first_prefix sort rules).1]
  rcases uptoFirstFail_spec (sort rules) with ⟨h1, h2⟩ | ⟨pre, r, post, h1, h2, h3, h4, h5⟩
  · have : (sort rules).find? (·.fails) = none := by
      simp [List.find?_eq_none]; exact h1
    simp [this]
  · simp [h5, h4, h3]

example : processRules stableSort false [⟨1, 5, true⟩, ⟨2, 0, false⟩, ⟨3, 3, true⟩]
    = ([⟨2, 0, false⟩, ⟨3, 3, true⟩, ⟨1, 5, true⟩], [⟨3, 3, true⟩, ⟨1, 5, true⟩]) := by decide

/-- **The flag is part of the processor's configuration, not of its run state**: no sequence of
    `Start` / `Finish` / `Reset` / `AddRule` calls changes `failOnFirstError`; after any history
    it has the value of the last `SetFailOnFirstErrorInTriggerSequence` call (the initial value
    if there was none). In particular the ECAL default set once by `NewECALRuntimeProvider`
    survives the `Finish`–`Reset`–reload–`Start` cycle of `CLIInterpreter.LoadInitialFile`. -/
theorem flag_survives_lifecycle (p : Proc) (ops : List LOp)
    (h : ∀ op ∈ ops, ∀ b, op ≠ .setFlag b) : (p.run ops).flag = p.flag := by
  unfold Proc.run
  induction ops generalizing p with
  | nil => rfl
  | cons op ops ih =>
    simp only [List.foldl_cons]
    rw [ih _ (fun o ho => h o (List.mem_cons_of_mem _ ho))]
    cases op with
    | setFlag b => exact absurd rfl (h _ (List.mem_cons_self) b)
    | start => rfl
    | finish => rfl
    | reset => simp only [Proc.step]; split <;> rfl
    | addRules => simp only [Proc.step]; split <;> rfl

theorem flag_is_last_set (p : Proc) (pre post : List LOp) (b : Bool)
    (h : ∀ op ∈ post, ∀ b', op ≠ .setFlag b') : (p.run (pre ++ .setFlag b :: post)).flag = b := by
  have : p.run (pre ++ .setFlag b :: post) = ((p.run pre).step (.setFlag b)).run post := by
    simp [Proc.run, List.foldl_append]
  rw [this, flag_survives_lifecycle _ _ h]
  rfl

/-- so the trigger sequence of an event added after a reload still ends at the first failing rule -/
theorem fail_first_after_reload (sort : List Rule → List Rule) (p : Proc) (hp : p.flag = true)
    (reloads : List LOp) (h : ∀ op ∈ reloads, ∀ b, op ≠ .setFlag b) (rules : List Rule) :
    processRulesAfter sort p reloads rules
      = (uptoFirstFail (sort rules), ((sort rules).find? (·.fails)).toList) := by
  unfold processRulesAfter
  rw [flag_survives_lifecycle p reloads h, hp]
  exact (fail_first_prefix sort rules).1

example : processRulesAfter stableSort { flag := true } [.finish, .reset, .addRules, .start]
    [⟨1, 1, true⟩, ⟨2, 2, false⟩] = ([⟨1, 1, true⟩], [⟨1, 1, true⟩]) := by decide

/-- **Equal priorities may run in any order.** `sort.Sort` promises a permutation in
    non-decreasing order and nothing about ties, and the input order comes out of a map iteration;
    the property fixes only the priority numbers. For two admissible sorts the *priorities* of the
    sorted rules coincide position by position, so with the flag off the priority sequence of the
    started actions is the same whichever tie order the sort picked. (With the flag on the
    sequence of priorities up to the first failure depends on the tie order only if rules of one
    priority differ in failing; the correspondence therefore compares priority sequences and
    generates equal-priority groups with a uniform outcome.) -/
theorem tie_order_is_free (sort₁ sort₂ : List Rule → List Rule) (h₁ : IsPrioSort sort₁)
    (h₂ : IsPrioSort sort₂) (rules : List Rule) :
    (processRules sort₁ false rules).1.map (·.prio) = (processRules sort₂ false rules).1.map (·.prio) := by
  rw [(fail_first_prefix sort₁ rules).2, (fail_first_prefix sort₂ rules).2]
  have hp : ((sort₁ rules).map (·.prio)).Perm ((sort₂ rules).map (·.prio)) :=
    ((h₁.perm rules).trans (h₂.perm rules).symm).map _
  have s1 : ((sort₁ rules).map (·.prio)).Pairwise (· ≤ ·) := List.pairwise_map.mpr (h₁.sorted rules)
  have s2 : ((sort₂ rules).map (·.prio)).Pairwise (· ≤ ·) := List.pairwise_map.mpr (h₂.sorted rules)
  exact hp.eq_of_pairwise (fun a b _ _ h1 h2 => Int.le_antisymm h1 h2) s1 s2

/-- flag on: when a rule fails, the first failing rule *was started* (so whatever events its action
    added before returning the error are in the queue) and it is the last rule started -/
theorem failing_rule_was_started (sort : List Rule → List Rule) (rules : List Rule) (r : Rule)
    (h : (sort rules).find? (·.fails) = some r) :
    r ∈ (processRules sort true rules).1 ∧ (processRules sort true rules).1.getLast? = some r ∧
    (processRules sort true rules).2 = [r] := by
  rw [(fail_first_prefix sort rules).1]
  rcases uptoFirstFail_spec (sort rules) with ⟨h1, _⟩ | ⟨pre, r', post, _, _, _, h4, h5⟩
  · have := List.find?_some h
    have hm := List.mem_of_find?_eq_some h
    rw [h1 r hm] at this; cases this
  · rw [h5] at h; cases h
    simp [h4, h5]

/-! ## facts re-extracted from engine/*.go on every run (lean/Ecal/Gen/C10.lean) -/

/-- ties the hand-written `Proc.step` (only `setFlag` writes the flag — `flag_survives_lifecycle` is
    true by that shape) to the source: no assignment in package engine stores a *constant* into
    `failOnFirstError`, nobody takes its address. It does not exclude struct copies or the
    positional literal in `NewProcessor`. (`other` = a
    right-hand side the extractor does not classify; the life-cycle cases decide then.) -/
theorem gen_flag_written_only_by_setters :
    Gen.C10.flagWriters.all (fun w => w.2 != "const") = true ∧ Gen.C10.flagAddressTaken = false := by
  decide

/-- no function of package engine uses `incomplete` / `priorities` after an `Unlock` of a
    `RootMonitor` mutex (textual lock sections; `unknown` where the extractor cannot tell). This —
    with the race run of the correspondence — is what lets the *sequential* bookkeeping theorem
    speak for cascades on several workers; it is not an interleaving proof. -/
theorem gen_bookkeeping_under_lock :
    Gen.C10.bookAccess.all (fun a => a.2 != "unlocked") = true := by decide

/-- `Book.current` (heap order re-established after `RemoveFirst`; skipped monitors not counted in
    `descendantFinished`) is the variant the source has -/
theorem gen_guards_present :
    Gen.C10.reheap ≠ "not-reestablished" ∧ Gen.C10.skipGuard ≠ "skipped-counted" := by decide

/-! ## the per-cascade queue -/

theorem itemLt_strict : StrictTotal Item.lt where
  asymm a b h := by
    unfold Item.lt at *
    split at h <;> split <;> simp_all <;> omega
  le_trans a b c h1 h2 := by
    unfold Item.lt at *
    split at h1 <;> split at h2 <;> split <;> simp_all <;> omega

theorem minItem_spec : ∀ (l : List Item) (m : Item), minItem l = some m →
    m ∈ l ∧ ∀ x ∈ l, x.lt m = false
  | [], m, h => by simp [minItem] at h
  | x :: xs, m, h => by
    unfold minItem at h
    split at h
    · rename_i hn
      cases xs with
      | nil =>
        cases h
        exact ⟨by simp, by intro y hy; simp at hy; subst hy; exact itemLt_strict.irrefl _⟩
      | cons y ys =>
        unfold minItem at hn
        split at hn <;> (try split at hn) <;> cases hn
    · rename_i m' hm'
      obtain ⟨hmem, hmin⟩ := minItem_spec xs m' hm'
      split at h
      · rename_i hlt
        cases h
        refine ⟨by simp [hmem], ?_⟩
        intro y hy
        simp at hy
        rcases hy with rfl | hy
        · exact itemLt_strict.asymm _ _ hlt
        · exact hmin y hy
      · rename_i hlt
        cases h
        refine ⟨by simp, ?_⟩
        intro y hy
        simp at hy
        rcases hy with rfl | hy
        · exact itemLt_strict.irrefl _
        · exact itemLt_strict.le_trans _ _ _ (by simpa using hlt) (hmin y hy)

/-- **Every pop returns the least `(priority, insertion number)` queued for that root**:
    nothing in the queue has a smaller priority number, and nothing with the same priority
    was inserted earlier. The rest of the queue is unchanged. -/
theorem pop_is_min (q q' : PQ) (m : Item) (h : q.pop = some (m, q')) :
    m ∈ q.items ∧
    (∀ x ∈ q.items, ¬ x.prio < m.prio ∧ ¬ (x.prio = m.prio ∧ x.seq < m.seq)) ∧
    q'.items = q.items.erase m ∧ q'.counter = q.counter := by
  unfold PQ.pop at h
  split at h
  · cases h
  · rename_i m' hm'
    cases h
    obtain ⟨hmem, hmin⟩ := minItem_spec _ _ hm'
    refine ⟨hmem, ?_, rfl, rfl⟩
    intro x hx
    have := hmin x hx
    unfold Item.lt at this
    split at this <;> simp_all <;> omega

/-- the same for the `TaskQueue` once the root whose queue is served has been picked -/
theorem tq_pop_is_min (t t' : TQ) (root : Nat) (m : Item) (h : t.pop root = some (m, t')) :
    m ∈ (t.get root).items ∧
    ∀ x ∈ (t.get root).items, ¬ x.prio < m.prio ∧ ¬ (x.prio = m.prio ∧ x.seq < m.seq) := by
  unfold TQ.pop at h
  split at h
  · cases h
  · rename_i m' q' hp
    cases h
    have := pop_is_min _ _ _ hp
    exact ⟨this.1, this.2.1⟩

/-- queues reachable from the empty queue by `Push` and `Pop` -/
inductive Reachable : PQ → Prop where
  | empty : Reachable {}
  | push {q} (val : Nat) (prio : Int) : Reachable q → Reachable (q.push val prio)
  | pop {q q' m} : Reachable q → q.pop = some (m, q') → Reachable q'

/-- items carry distinct, increasing insertion numbers below the counter; priorities are ≥ 0
    (negative monitor priorities are clamped by `Push`) -/
theorem reachable_wf {q : PQ} (h : Reachable q) :
    q.items.Pairwise (fun a b => a.seq < b.seq) ∧ ∀ x ∈ q.items, x.seq < q.counter ∧ 0 ≤ x.prio := by
  induction h with
  | empty => simp
  | push val prio _ ih =>
    obtain ⟨h1, h2⟩ := ih
    unfold PQ.push
    dsimp only
    refine ⟨?_, ?_⟩
    · rw [List.pairwise_append]
      refine ⟨h1, by simp, ?_⟩
      intro a ha b hb
      simp at hb; subst hb
      exact (h2 a ha).1
    · intro x hx
      simp at hx
      rcases hx with hx | rfl
      · have := h2 x hx; omega
      · simp; split <;> omega
  | pop _ hp ih =>
    obtain ⟨h1, h2⟩ := ih
    obtain ⟨_, _, he, hc⟩ := pop_is_min _ _ _ hp
    rw [he, hc]
    exact ⟨h1.sublist List.erase_sublist, fun x hx => h2 x (List.mem_of_mem_erase hx)⟩

/-- **An event is never taken before a higher-priority event that was queued earlier** — nor
    before any other event it should wait for: everything that stays queued when `m` is taken
    has a larger priority number, or the same and was queued later. -/
theorem no_overtaking {q q' : PQ} {m : Item} (hr : Reachable q) (h : q.pop = some (m, q')) :
    ∀ x ∈ q'.items, m.prio < x.prio ∨ (m.prio = x.prio ∧ m.seq < x.seq) := by
  obtain ⟨hmem, hmin, he, _⟩ := pop_is_min _ _ _ h
  obtain ⟨hpw, _⟩ := reachable_wf hr
  have hnd : q.items.Nodup := hpw.imp (by intro a b hab he; subst he; omega)
  intro x hx
  rw [he] at hx
  have hx' := (hnd.mem_erase_iff).mp hx
  have hne : x.seq ≠ m.seq := by
    intro hseq
    -- two different items of the queue cannot share an insertion number
    rcases List.mem_iff_getElem.mp hx'.2 with ⟨i, hi, rfl⟩
    rcases List.mem_iff_getElem.mp hmem with ⟨j, hj, rfl⟩
    have hij : i ≠ j := by intro e; subst e; exact hx'.1 rfl
    rcases Nat.lt_or_gt_of_ne hij with hlt | hgt
    · have := List.pairwise_iff_getElem.mp hpw i j hi hj hlt; omega
    · have := List.pairwise_iff_getElem.mp hpw j i hj hi hgt; omega
  have := hmin x hx'.2
  omega

example : ((({} : PQ).push 10 3).push 11 (-2)).pop.map (·.1.val) = some 11 := by decide

/-- **The real `heap.Pop` agrees with "pop = least"**: run on a `priorityQueueHeap` slice that is in
    heap order, container/heap's `Pop` (swap, sift down, cut) returns an item that no queued item
    precedes, keeps all other items, and leaves the slice in heap order
    (`heap_push_keeps_order` is the matching statement for `heap.Push`). -/
theorem heap_pop_is_min (l l' : List Item) (x : Item) (hok : Heap.Ok Item.lt l l.length 0)
    (hp : Heap.pop Item.lt l = some (x, l')) :
    (∀ y ∈ l, y.lt x = false) ∧ (x :: l').Perm l ∧ Heap.Ok Item.lt l' l'.length 0 :=
  let h := pop_spec itemLt_strict l l' x hok hp
  ⟨h.2.1, h.2.2.1, h.2.2.2⟩

example : (Heap.pop Item.lt (Heap.push Item.lt (Heap.push Item.lt (Heap.push Item.lt [] ⟨3, 0, 10⟩) ⟨0, 1, 11⟩) ⟨0, 2, 12⟩)).map
    (fun r => (r.1.val, r.2.map (·.val))) = some (11, [12, 10]) := by decide

/-! ### several workers on one `TaskQueue` -/

theorem tq_get_set_same (t : TQ) (root : Nat) (q : PQ) : (t.set root q).get root = q := by
  simp [TQ.set, TQ.get]

theorem tq_get_set_other (t : TQ) (root r : Nat) (q : PQ) (h : r ≠ root) :
    (t.set root q).get r = t.get r := by
  have hne : (root == r) = false := by simpa using fun e => h e.symm
  simp only [TQ.set, TQ.get, List.find?_cons, hne]
  have : List.find? (fun x => x.1 == r) (List.filter (fun x => x.1 != root) t)
      = List.find? (fun x => x.1 == r) t := by
    induction t with
    | nil => rfl
    | cons a as ih =>
      by_cases ha : a.1 = root
      · have h1 : (a.1 != root) = false := by simp [ha]
        have h2 : (a.1 == r) = false := by simpa [ha] using fun e => h e.symm
        simp [List.filter_cons, h1, List.find?_cons, h2, ih]
      · have h1 : (a.1 != root) = true := by simpa using ha
        simp only [List.filter_cons, h1, if_true, List.find?_cons]
        split <;> simp_all
  rw [this]

/-- `TaskQueue` states reachable by **any sequence of atomic `Push` / `Pop` calls** — by any number
    of workers and adders, on any root monitors, in any interleaving (each call holds `tq.lock`, so
    an execution with several workers *is* such a sequence: the order in which the lock was taken) -/
inductive ReachableTQ : TQ → Prop where
  | empty : ReachableTQ []
  | push {t} (root val : Nat) (prio : Int) : ReachableTQ t → ReachableTQ (t.push root val prio)
  | pop {t t' root m} : ReachableTQ t → t.pop root = some (m, t') → ReachableTQ t'

theorem reachableTQ_get {t : TQ} (h : ReachableTQ t) : ∀ root, Reachable (t.get root) := by
  induction h with
  | empty => intro root; simp only [TQ.get, List.find?_nil]; exact .empty
  | push root val prio _ ih =>
    intro r
    unfold TQ.push
    by_cases hr : r = root
    · subst hr; rw [tq_get_set_same]; exact .push val prio (ih r)
    · rw [tq_get_set_other _ _ _ _ hr]; exact ih r
  | @pop t t' root m _ hp ih =>
    intro r
    unfold TQ.pop at hp
    split at hp
    · cases hp
    · rename_i m' q' hq
      cases hp
      by_cases hr : r = root
      · subst hr; rw [tq_get_set_same]; exact .pop (ih r) hq
      · rw [tq_get_set_other _ _ _ _ hr]; exact ih r

/-- **Several workers taking events of one cascade.** (`ReachableTQ` has no notion of a worker: it
    is *every* sequence of atomic calls, which is what any number of workers produces under the
    queue lock; the statement is `no_overtaking` per root plus a frame condition.) In every
    `TaskQueue` state reachable by any interleaving of atomic pushes and pops, a pop that serves root `root` returns the least
    (priority, insertion number) queued for that root at that moment — nothing queued for the root
    precedes it, everything left for the root comes strictly after it — and leaves the queues of
    all other roots untouched. -/
theorem several_workers_pop_is_min {t t' : TQ} {root : Nat} {m : Item} (hr : ReachableTQ t)
    (hp : t.pop root = some (m, t')) :
    m ∈ (t.get root).items ∧
    (∀ x ∈ (t.get root).items, ¬ x.prio < m.prio ∧ ¬ (x.prio = m.prio ∧ x.seq < m.seq)) ∧
    (∀ x ∈ (t'.get root).items, m.prio < x.prio ∨ (m.prio = x.prio ∧ m.seq < x.seq)) ∧
    ∀ r, r ≠ root → t'.get r = t.get r := by
  have hq := reachableTQ_get hr root
  unfold TQ.pop at hp
  split at hp
  · cases hp
  · rename_i m' q' hpop
    cases hp
    obtain ⟨h1, h2, _, _⟩ := pop_is_min _ _ _ hpop
    refine ⟨h1, h2, ?_, fun r hne => tq_get_set_other _ _ _ _ hne⟩
    rw [tq_get_set_same]
    exact no_overtaking hq hpop

theorem runTrace_reachable : ∀ (tr : List QEv) (t t' : TQ), ReachableTQ t → runTrace t tr = some t' →
    ReachableTQ t'
  | [], t, t', h, hr => by simp [runTrace] at hr; subst hr; exact h
  | .push root prio mon :: rest, t, t', h, hr => by
    simp only [runTrace] at hr
    exact runTrace_reachable rest _ _ (.push root mon prio h) hr
  | .pop root mon :: rest, t, t', h, hr => by
    simp only [runTrace] at hr
    split at hr
    · rename_i m t1 hp
      split at hr
      · exact runTrace_reachable rest _ _ (.pop h hp) hr
      · cases hr
    · cases hr

theorem runTrace_append : ∀ (pre post : List QEv) (t : TQ),
    runTrace t (pre ++ post) = (runTrace t pre).bind fun t1 => runTrace t1 post
  | [], post, t => by simp [runTrace]
  | .push root prio mon :: pre, post, t => by
    simp only [List.cons_append, runTrace]; exact runTrace_append pre post _
  | .pop root mon :: pre, post, t => by
    simp only [List.cons_append, runTrace]
    split
    · split
      · exact runTrace_append pre post _
      · rfl
    · rfl

/-- the replay used by the check accepts a trace iff the model can follow it -/
theorem checkTrace_none_iff : ∀ (tr : List QEv) (t : TQ) (k : Nat),
    checkTrace t k tr = none ↔ (runTrace t tr).isSome
  | [], t, k => by simp [checkTrace, runTrace]
  | .push root prio mon :: rest, t, k => by
    simp only [checkTrace, runTrace]; exact checkTrace_none_iff rest _ _
  | .pop root mon :: rest, t, k => by
    simp only [checkTrace, runTrace]
    split
    · split
      · exact checkTrace_none_iff rest _ _
      · simp
    · simp

/-- **What an accepted trace means** (this is the statement the replay of the recorded
    `queue.push` / `queue.pop` traces checks, for any number of workers): if the replay accepts a
    trace — the sequence of `TaskQueue` calls in lock order, whoever made them — then at *every* pop
    event of the trace the task taken is the least (priority, insertion number) among the tasks
    queued for its root monitor at that moment, and every task still queued for that root comes
    strictly after it. -/
theorem accepted_trace_pops_are_min (pre post : List QEv) (root mon : Nat)
    (h : checkTrace [] 0 (pre ++ .pop root mon :: post) = none) :
    ∃ t1 m t2, runTrace [] pre = some t1 ∧ ReachableTQ t1 ∧ t1.pop root = some (m, t2) ∧ m.val = mon ∧
      (∀ x ∈ (t1.get root).items, ¬ x.prio < m.prio ∧ ¬ (x.prio = m.prio ∧ x.seq < m.seq)) ∧
      (∀ x ∈ (t2.get root).items, m.prio < x.prio ∨ (m.prio = x.prio ∧ m.seq < x.seq)) := by
  rw [checkTrace_none_iff, runTrace_append] at h
  cases h1 : runTrace [] pre with
  | none => simp [h1] at h
  | some t1 =>
    have hr1 := runTrace_reachable pre [] t1 .empty h1
    simp only [h1, Option.bind_some, runTrace] at h
    split at h
    · rename_i m t2 hp
      split at h
      · rename_i hm
        obtain ⟨_, h2, h3, _⟩ := several_workers_pop_is_min hr1 hp
        exact ⟨t1, m, t2, rfl, hr1, hp, by simpa using hm, h2, h3⟩
      · simp at h
    · simp at h

/-- `TaskQueue` histories **with workers**: any adder pushes, any worker `w` takes from the root its
    pop happens to serve; the log records for every take the worker, the root, the item taken and
    what was queued for that root at that moment (newest first) -/
inductive ReachableW : TQ → List (Nat × Nat × Item × List Item) → Prop where
  | empty : ReachableW [] []
  | push {t log} (root val : Nat) (prio : Int) : ReachableW t log → ReachableW (t.push root val prio) log
  | take {t t' log} (w root : Nat) (m : Item) : ReachableW t log → t.pop root = some (m, t') →
      ReachableW t' ((w, root, m, (t.get root).items) :: log)

theorem reachableW_forget {t : TQ} {log : List (Nat × Nat × Item × List Item)} (h : ReachableW t log) :
    ReachableTQ t := by
  induction h with
  | empty => exact .empty
  | push root val prio _ ih => exact .push root val prio ih
  | take w root m _ hp ih => exact .pop ih hp

/-- **Whichever worker takes an event, it takes the least one of that cascade**: for every take in
    every history — any number of workers, any interleaving with pushes and with takes of other
    workers — the item taken was queued for its root, nothing queued for that root preceded it,
    and every other item queued for that root comes strictly after it. -/
theorem every_worker_takes_the_least {t : TQ} {log : List (Nat × Nat × Item × List Item)}
    (h : ReachableW t log) :
    ∀ w root m queued, (w, root, m, queued) ∈ log →
      m ∈ queued ∧
      (∀ x ∈ queued, ¬ x.prio < m.prio ∧ ¬ (x.prio = m.prio ∧ x.seq < m.seq)) ∧
      (∀ x ∈ queued, x ≠ m → m.prio < x.prio ∨ (m.prio = x.prio ∧ m.seq < x.seq)) := by
  induction h with
  | empty => intro w root m queued hm; simp at hm
  | push root val prio _ ih => exact ih
  | @take t t' log w0 root0 m0 hprev hp ih =>
    intro w root m queued hm
    rcases List.mem_cons.mp hm with heq | hm
    · cases heq
      have hr := reachableW_forget hprev
      obtain ⟨h1, h2, h3, _⟩ := several_workers_pop_is_min hr hp
      refine ⟨h1, h2, ?_⟩
      intro x hx hne
      apply h3
      -- what is left for the root is the queue without the item taken
      unfold TQ.pop at hp
      split at hp
      · cases hp
      · rename_i m' q' hpop
        cases hp
        rw [tq_get_set_same]
        obtain ⟨_, _, he, _⟩ := pop_is_min _ _ _ hpop
        rw [he]
        have hnd : (t.get root0).items.Nodup :=
          (reachable_wf (reachableTQ_get hr root0)).1.imp (by intro a b hab e; subst e; omega)
        exact hnd.mem_erase_iff.mpr ⟨hne, hx⟩
    · exact ih w root m queued hm

/-- non-vacuity: worker 7 takes from root 1 while priority 3 (queued first) and 0 are queued: it gets the 0 -/
example : ∃ t log, ReachableW t log ∧ log.map (fun e => (e.1, e.2.2.1.val)) = [(7, 11)] :=
  ⟨_, _, .take 7 1 _ (.push 1 11 0 (.push 1 10 3 .empty)) rfl, rfl⟩

/-! ### the validator for runs with free tie order -/

/-- **The validator accepts exactly the runs of the rule loop under some admissible sort** (rules
    named by position; the error report compared as a set): `Ecal.Priority.validRun_sound` and
    `validRun_complete`. -/
theorem validRun_iff (flag : Bool) (rules : List Rule)
    (hn : ∀ (i : Nat) (r : Rule), rules[i]? = some r → r.name = i) (exec errs : List Nat) :
    validRun flag rules exec errs = true ↔
      ∃ sort, IsPrioSort sort ∧ (processRules sort flag rules).1.map (·.name) = exec ∧
        ((processRules sort flag rules).2.map (·.name)).Perm errs := by
  constructor
  · exact validRun_sound flag rules exec errs
  · rintro ⟨sort, hs, rfl, hperm⟩
    have h := validRun_complete flag rules hn sort hs
    unfold validRun at h ⊢
    simp only [Bool.and_eq_true] at h ⊢
    refine ⟨h.1, ?_⟩
    have h2 := List.isPerm_iff.mp h.2
    exact List.isPerm_iff.mpr (h2.trans hperm)

/-! ### priority numbers below 0 -/

/-- for a monitor priority ≥ 0 the queue orders by exactly that number … -/
theorem push_keeps_nonneg_priority (q : PQ) (val : Nat) (prio : Int) (h : 0 ≤ prio) :
    (q.push val prio).items = q.items ++ [{ prio := prio, seq := q.counter, val := val }] := by
  unfold PQ.push
  have : ¬ prio < 0 := by omega
  simp [this]

/-- **Declared deviation (negative witness).** … but a negative monitor priority is clamped to 0 by
    `PriorityQueue.Push` ("Highest priority is 0 we can't go higher"): an event queued with
    priority number 0 is taken *before* a later event with priority number −2, although −2 is the
    lower number; the root monitor does not clamp and reports −2 meanwhile. `pop_is_min`,
    `no_overtaking`, `real_pop_is_min` speak about the clamped number (`Item.prio`); they state the
    property's "lowest priority number" only for monitor priorities ≥ 0. Not reachable from ECAL
    code: the interpreter creates child monitors with `NewChildMonitor(0)` only. -/
theorem queue_clamps_negative_priorities :
    ((({} : PQ).push 10 0).push 11 (-2)).pop.map (·.1.val) = some 10 ∧
    (Book.run Book.current {} [.newChild 0, .activate 1, .newChild (-2), .activate 2]).map
      Book.highestPriority = some (-2) := by decide

/-! ### the real heap implements the abstract queue -/

/-- **`heap.Push` keeps the heap order** of a `priorityQueueHeap` slice -/
theorem heap_push_keeps_order (l : List Item) (x : Item) (h : Heap.Ok Item.lt l l.length 0) :
    Heap.Ok Item.lt (Heap.push Item.lt l x) (Heap.push Item.lt l x).length 0 :=
  push_ok itemLt_strict l x h

/-- refinement relation: the slice holds the abstract queue's items (as a multiset), the counters
    agree, and the slice is in heap order -/
structure Refines (h : HPQ) (q : PQ) : Prop where
  items   : h.heap.Perm q.items
  counter : h.counter = q.counter
  ordered : Heap.Ok Item.lt h.heap h.heap.length 0

theorem refines_push {h : HPQ} {q : PQ} (r : Refines h q) (val : Nat) (prio : Int) :
    Refines (h.push val prio) (q.push val prio) := by
  unfold HPQ.push PQ.push
  refine ⟨?_, by simp [r.counter], heap_push_keeps_order _ _ r.ordered⟩
  dsimp only
  rw [r.counter]
  refine (push_perm _ _ _).trans ((r.items.cons _).trans ?_)
  exact List.perm_append_comm (l₁ := [_])

theorem minItem_ne_none : ∀ {l : List Item}, l ≠ [] → minItem l ≠ none
  | [], h => absurd rfl h
  | x :: xs, _ => by
    unfold minItem
    split
    · simp
    · split <;> simp

theorem eq_of_seq_eq {l : List Item} (hpw : l.Pairwise (fun a b => a.seq < b.seq)) {a b : Item}
    (ha : a ∈ l) (hb : b ∈ l) (h : a.seq = b.seq) : a = b := by
  rcases List.mem_iff_getElem.mp ha with ⟨i, hi, rfl⟩
  rcases List.mem_iff_getElem.mp hb with ⟨j, hj, rfl⟩
  rcases Nat.lt_trichotomy i j with hlt | heq | hgt
  · have := List.pairwise_iff_getElem.mp hpw i j hi hj hlt; omega
  · subst heq; rfl
  · have := List.pairwise_iff_getElem.mp hpw j i hj hi hgt; omega

/-- one `Pop` of the real heap is one `pop` of the abstract queue, returning the same item -/
theorem refines_pop {h h' : HPQ} {q : PQ} {x : Item} (hr : Reachable q) (r : Refines h q)
    (hp : h.pop = some (x, h')) : ∃ q', q.pop = some (x, q') ∧ Refines h' q' := by
  unfold HPQ.pop at hp
  split at hp
  · cases hp
  · rename_i y l' hpop
    cases hp
    obtain ⟨_, hmin, hperm, hok⟩ := pop_spec itemLt_strict _ _ _ r.ordered hpop
    have hxh : x ∈ h.heap := hperm.mem_iff.mp (List.mem_cons_self)
    have hxq : x ∈ q.items := r.items.mem_iff.mp hxh
    have hne : q.items ≠ [] := List.ne_nil_of_mem hxq
    cases hm : minItem q.items with
    | none => exact absurd hm (minItem_ne_none hne)
    | some m =>
      obtain ⟨hmq, hmmin⟩ := minItem_spec _ _ hm
      -- both are least: same priority and insertion number, hence the same item
      have h1 : Item.lt m x = false := hmin m (r.items.mem_iff.mpr hmq)
      have h2 : Item.lt x m = false := hmmin x hxq
      have hseq : x.seq = m.seq := by
        unfold Item.lt at h1 h2
        split at h1 <;> split at h2 <;> simp_all <;> omega
      have hxm : x = m := eq_of_seq_eq (reachable_wf hr).1 hxq hmq hseq
      subst hxm
      refine ⟨{ q with items := q.items.erase x }, by simp [PQ.pop, hm], ?_, r.counter, hok⟩
      have := (hperm.trans r.items).erase x
      simpa using this

/-- priority queues (real representation) reachable from `NewPriorityQueue()` by `Push` and `Pop` -/
inductive ReachableH : HPQ → Prop where
  | empty : ReachableH {}
  | push {h} (val : Nat) (prio : Int) : ReachableH h → ReachableH (h.push val prio)
  | pop {h h' x} : ReachableH h → h.pop = some (x, h') → ReachableH h'

/-- **Every reachable `PriorityQueue` is heap-ordered** and refines a reachable abstract queue -/
theorem pq_reachable_heap_ordered {h : HPQ} (hr : ReachableH h) :
    Heap.Ok Item.lt h.heap h.heap.length 0 ∧ ∃ q, Reachable q ∧ Refines h q := by
  induction hr with
  | empty =>
    have : Refines {} {} := ⟨List.Perm.refl _, rfl, by intro p c _ hc; simp at hc⟩
    exact ⟨this.ordered, {}, .empty, this⟩
  | push val prio _ ih =>
    obtain ⟨_, q, hq, r⟩ := ih
    have r' := refines_push r val prio
    exact ⟨r'.ordered, _, .push val prio hq, r'⟩
  | pop _ hp ih =>
    obtain ⟨_, q, hq, r⟩ := ih
    obtain ⟨q', hp', r'⟩ := refines_pop hq r hp
    exact ⟨r'.ordered, q', .pop hq hp', r'⟩

/-- **The real heap algorithm implements `pop_is_min` in every reachable state**: whatever
    sequence of `Push`/`Pop` calls built the queue, container/heap's `Pop` returns the item with
    the least (priority, insertion number); nothing queued precedes it and everything that stays
    queued comes strictly after it. An empty result means the queue is empty. -/
theorem real_pop_is_min {h : HPQ} (hr : ReachableH h) :
    (h.pop = none → h.heap = []) ∧
    ∀ x h', h.pop = some (x, h') →
      x ∈ h.heap ∧
      (∀ y ∈ h.heap, ¬ y.prio < x.prio ∧ ¬ (y.prio = x.prio ∧ y.seq < x.seq)) ∧
      (∀ y ∈ h'.heap, x.prio < y.prio ∨ (x.prio = y.prio ∧ x.seq < y.seq)) ∧
      (x :: h'.heap).Perm h.heap := by
  obtain ⟨_, q, hq, r⟩ := pq_reachable_heap_ordered hr
  constructor
  · intro hn
    unfold HPQ.pop Heap.pop at hn
    cases hh : h.heap with
    | nil => rfl
    | cons a as =>
      rw [hh] at hn
      simp only at hn
      split at hn
      · rename_i hnone
        split at hnone
        · cases hnone
        · rename_i hidx
          have hlen : ((Heap.down Item.lt ((a :: as).length - 1) (Heap.swp (a :: as) 0 ((a :: as).length - 1)) 0 0
              ((a :: as).length - 1)).1).length = (a :: as).length :=
            ((down_perm _ _ _ _ _ _).trans (swp_perm _ _ _)).length_eq
          have := List.getElem?_eq_none_iff.mp hidx
          simp at this hlen
          omega
      · cases hn
  · intro x h' hp
    obtain ⟨q', hp', r'⟩ := refines_pop hq r hp
    obtain ⟨hmem, hmin, he, _⟩ := pop_is_min _ _ _ hp'
    have hno := no_overtaking hq hp'
    refine ⟨r.items.mem_iff.mpr hmem, fun y hy => hmin y (r.items.mem_iff.mp hy),
      fun y hy => hno y (r'.items.mem_iff.mp hy), ?_⟩
    have : (x :: q'.items).Perm q.items := by
      rw [he]; exact (List.perm_cons_erase hmem).symm
    exact ((r'.items.cons x).trans this).trans r.items.symm

/-! ## `ProcessEvent` composed with the queue: which events a trigger sequence leaves behind -/

section cascade
open Cascade
variable (cfg : Book.Cfg) (sort : List Rule → List Rule) (hs : IsPrioSort sort) (flag : Bool)
  (nodes : List Node)

/-- started (event, rule) pairs / events taken by the worker / error report of a run -/
abbrev startedRules := (runScript cfg sort flag nodes).started.map (·.1)
abbrev taken := (runScript cfg sort flag nodes).popped

include hs

/-- **Exactly the rules `ProcessEvent` starts are started, for exactly the events taken**: an action
    (event `e`, rule `k`) is started iff the worker took `e` and `k` is among the rules
    `processRules` runs for `e` (all of them without the flag, the prefix through the first failing
    one with it); the error report holds exactly the error maps of the taken events. -/
theorem started_rules_exact (e k : Nat) :
    ((e, k) ∈ startedRules cfg sort flag nodes ↔
      e ∈ taken cfg sort flag nodes ∧ k ∈ (processRules sort flag (rulesOf nodes e)).1.map (·.name)) ∧
    ((e, k) ∈ (runScript cfg sort flag nodes).errs ↔
      e ∈ taken cfg sort flag nodes ∧ k ∈ (processRules sort flag (rulesOf nodes e)).2.map (·.name)) := by
  obtain ⟨hI, _⟩ := runScript_spec cfg sort hs.perm flag nodes
  exact ⟨hI.srs e k, hI.ers e k⟩

/-- **Events added by a started rule are processed — also when that rule, or a later one, fails.**
    For every script, either flag, any admissible sort: if the action of rule `k` of event `e` was
    started, every triggering event `c` it adds is taken by the worker and the rules `ProcessEvent`
    selects for `c` are started in turn. The queue is empty at the end. -/
theorem children_of_failing_rule_still_run (e k c : Nat) (nc : Node)
    (hstart : (e, k) ∈ startedRules cfg sort flag nodes)
    (hc : nodes[c]? = some nc) (hpar : nc.parent = some (e, k)) (htrig : nc.trig = true) :
    c ∈ taken cfg sort flag nodes ∧
    (∀ k' ∈ (processRules sort flag (rulesOf nodes c)).1.map (·.name),
      (c, k') ∈ startedRules cfg sort flag nodes) ∧
    (runScript cfg sort flag nodes).q.items = [] := by
  obtain ⟨hI, hq⟩ := runScript_spec cfg sort hs.perm flag nodes
  have hq' : (runScript cfg sort flag nodes).q.items = [] := by simpa [qv] using hq
  obtain ⟨he, hk⟩ := (hI.srs e k).mp hstart
  have hct : c ∈ taken cfg sort flag nodes := by
    rcases hI.clo e he k hk c nc hc hpar htrig with h | h
    · exact h
    · rw [hq] at h; cases h
  exact ⟨hct, fun k' hk' => (hI.srs c k').mpr ⟨hct, hk'⟩, hq'⟩

/-- **Rules that were not started add nothing**: an event taken by the worker triggers a rule and
    was added from outside or by a rule whose action was started; no event is taken twice. -/
theorem unstarted_rules_add_nothing :
    (taken cfg sort flag nodes).Nodup ∧
    ∀ c ∈ taken cfg sort flag nodes, ∀ nc, nodes[c]? = some nc →
      nc.trig = true ∧ ∀ e k, nc.parent = some (e, k) → (e, k) ∈ startedRules cfg sort flag nodes := by
  obtain ⟨hI, _⟩ := runScript_spec cfg sort hs.perm flag nodes
  refine ⟨hI.n1, ?_⟩
  intro c hc nc hnc
  refine ⟨hI.trg c (Or.inl hc) nc hnc, ?_⟩
  intro e k hp
  exact (hI.srs e k).mpr (hI.par c (Or.inl hc) nc e k hnc hp)

/-- every triggering event added from outside is taken -/
theorem external_events_run (c : Nat) (nc : Node) (hc : nodes[c]? = some nc)
    (hp : nc.parent = none) (ht : nc.trig = true) : c ∈ taken cfg sort flag nodes := by
  obtain ⟨hI, hq⟩ := runScript_spec cfg sort hs.perm flag nodes
  rcases hI.ext c nc hc hp ht with h | h
  · exact h
  · rw [hq] at h; cases h

/-- **With fail-on-first-error, per event**: if a rule of a taken event fails, the first failing one
    (in the sorted order) is started, is the only entry of that event in the error report, and no
    rule sorted after it is started; rules sorted before it are started (and so are their events,
    by `children_of_failing_rule_still_run`). -/
theorem first_failure_ends_the_sequence (e : Nat) (r : Rule)
    (he : e ∈ taken cfg sort true nodes)
    (hr : (sort (rulesOf nodes e)).find? (·.fails) = some r) :
    (e, r.name) ∈ startedRules cfg sort true nodes ∧
    (∀ k, (e, k) ∈ (runScript cfg sort true nodes).errs ↔ k = r.name) ∧
    (∀ k, (e, k) ∈ startedRules cfg sort true nodes ↔
      k ∈ (uptoFirstFail (sort (rulesOf nodes e))).map (·.name)) := by
  have h1 := fun k => (started_rules_exact cfg sort hs true nodes e k)
  have hp := (fail_first_prefix sort (rulesOf nodes e)).1
  refine ⟨?_, ?_, ?_⟩
  · rw [(h1 r.name).1]
    exact ⟨he, List.mem_map_of_mem (failing_rule_was_started sort _ r hr).1⟩
  · intro k
    rw [(h1 k).2, hp, hr]
    simp [he]
  · intro k
    rw [(h1 k).1, hp]
    simp [he]

end cascade

example : ((Cascade.runScript Book.current stableSort true
    [⟨none, none, [(1, true), (0, false), (2, false)]⟩, ⟨some (0, 0), some 3, [(0, false)]⟩,
     ⟨some (0, 1), some 1, [(0, false)]⟩, ⟨some (0, 2), some 0, [(0, false)]⟩]).started.reverse.map (·.1),
    (Cascade.runScript Book.current stableSort true
    [⟨none, none, [(1, true), (0, false), (2, false)]⟩, ⟨some (0, 0), some 3, [(0, false)]⟩,
     ⟨some (0, 1), some 1, [(0, false)]⟩, ⟨some (0, 2), some 0, [(0, false)]⟩]).errs)
    = ([(0, 1), (0, 0), (2, 0), (1, 0)], [(0, 0)]) := by decide

/-! ## the root monitor's highest-priority report -/

/-- **`HighestPriority` is exact** for the current code, in every state reachable by any
    sequence of `NewChildMonitor` / `Activate` / `Skip` / `Finish` calls that the API accepts,
    for all (also negative) priorities: the root of `priorities` is the least priority of a
    monitor that was activated by a triggering event and has not finished; the heap is empty
    iff there is no such monitor. -/
theorem highest_priority_exact (ops : List Op) (s : RM) (hr : run current {} ops = some s) :
    (highest? s = none ↔ ∀ m ∈ s.mons, m.active = false) ∧
    (∀ p, highest? s = some p →
      (∃ m ∈ s.mons, m.active = true ∧ m.prio = p) ∧ ∀ m ∈ s.mons, m.active = true → p ≤ m.prio) := by
  have h := inv_run ops {} s inv_init hr
  have hpos : ∀ p, 0 < cnt s p ↔ ∃ m ∈ s.mons, m.active = true ∧ m.prio = p := by
    intro p
    rw [cnt, List.countP_pos_iff]
    simp
  unfold highest?
  constructor
  · constructor
    · intro hn m hm
      have he : s.priorities = [] := List.head?_eq_none_iff.mp hn
      cases ha : m.active with
      | false => rfl
      | true =>
        have := (h.mem m.prio).mpr ((hpos m.prio).mpr ⟨m, hm, ha, rfl⟩)
        rw [he] at this; simp at this
    · intro hall
      cases hp : s.priorities with
      | nil => rfl
      | cons x xs =>
        obtain ⟨m, hm, ha, _⟩ := (hpos x).mp ((h.mem x).mp (by simp [hp]))
        rw [hall m hm] at ha; cases ha
  · intro p hp
    have hmemp : p ∈ s.priorities := List.mem_of_mem_head? hp
    refine ⟨(hpos p).mp ((h.mem p).mp hmemp), ?_⟩
    intro m hm ha
    have hq : m.prio ∈ s.priorities := (h.mem m.prio).mpr ((hpos m.prio).mpr ⟨m, hm, ha, rfl⟩)
    obtain ⟨k, hk, hkq⟩ := List.mem_iff_getElem.mp hq
    have hroot := h.rootMin p k m.prio (by rw [← List.head?_eq_getElem?]; exact hp)
      (by rw [List.getElem?_eq_getElem hk, hkq])
    simpa [ilt] using hroot

/-- the same as an equation with the specification function -/
theorem highest_eq_true_min (ops : List Op) (s : RM) (hr : run current {} ops = some s) :
    highest? s = trueHighest? s := by
  obtain ⟨h1, h2⟩ := highest_priority_exact ops s hr
  unfold trueHighest?
  cases hh : highest? s with
  | none =>
    have := h1.mp hh
    have he : s.mons.filter Mon.active = [] := by
      rw [List.filter_eq_nil_iff]; intro m hm; simp [this m hm]
    simp [he]
  | some p =>
    obtain ⟨⟨m, hm, ha, hp⟩, hle⟩ := h2 p hh
    symm
    rw [List.min?_eq_some_iff]
    constructor
    · simp only [List.mem_map, List.mem_filter]
      exact ⟨m, ⟨hm, ha⟩, hp⟩
    · intro b hb
      simp only [List.mem_map, List.mem_filter] at hb
      obtain ⟨m', ⟨hm', ha'⟩, rfl⟩ := hb
      exact hle m' hm' ha'

/-- **The report as the integer the Go method returns**, for the documented priority domain
    (≥ 0; −1 stands for "none"): −1 iff no monitor is active, otherwise the least active priority. -/
theorem highestPriority_int (ops : List Op) (s : RM) (hr : run current {} ops = some s)
    (hnn : ∀ m ∈ s.mons, 0 ≤ m.prio) :
    (highestPriority s = -1 ↔ ∀ m ∈ s.mons, m.active = false) ∧
    ((∃ m ∈ s.mons, m.active = true) →
      (∃ m ∈ s.mons, m.active = true ∧ m.prio = highestPriority s) ∧
      ∀ m ∈ s.mons, m.active = true → highestPriority s ≤ m.prio) := by
  obtain ⟨h1, h2⟩ := highest_priority_exact ops s hr
  unfold highestPriority
  cases hh : highest? s with
  | none =>
    have := h1.mp hh
    refine ⟨⟨fun _ => this, fun _ => rfl⟩, ?_⟩
    rintro ⟨m, hm, ha⟩
    rw [this m hm] at ha; cases ha
  | some p =>
    obtain ⟨⟨m, hm, ha, hp⟩, hle⟩ := h2 p hh
    simp only [Option.getD_some]
    constructor
    · constructor
      · intro hp1
        have := hnn m hm
        omega
      · intro hall
        rw [hall m hm] at ha; cases ha
    · intro _
      exact ⟨⟨m, hm, ha, hp⟩, hle⟩

/-! ### several workers: every interleaving of atomic bookkeeping steps -/

section concurrent
open Conc

theorem run_snoc (cfg : Cfg) : ∀ (ops : List Op) (s : RM) (op : Op),
    run cfg s (ops ++ [op]) = (run cfg s ops).bind (fun s' => step cfg s' op)
  | [], s, op => by
    simp only [List.nil_append, run, Option.bind_some]
    cases step cfg s op <;> rfl
  | o :: ops, s, op => by
    simp only [List.cons_append, run]
    cases step cfg s o with
    | none => rfl
    | some s1 => exact run_snoc cfg ops s1 op

/-- **Linearisation.** Whatever the schedule, the shared root-monitor state is the state after a
    *sequential* call sequence: the calls performed so far, in the order in which they took the
    lock (the ghost log `hist`). -/
theorem interleaving_is_a_sequence {P : List (List Act)} {c : Sys} (h : Reach P c) :
    run current {} (c.hist.reverse.map (·.2)) = some c.shared := by
  induction h with
  | init => rfl
  | step _ hs ih =>
    cases hs with
    | call hp hstep =>
      simp only [List.reverse_cons, List.map_append, List.map_cons, List.map_nil]
      rw [run_snoc, ih]
      exact hstep
    | read hp => exact ih

/-- … and that sequence respects every worker's program order: what worker `w` has performed,
    followed by the calls it still has to make, is the call sequence of its program; no worker
    appears or disappears. -/
theorem program_order_kept {P : List (List Act)} {c : Sys} (h : Reach P c) :
    c.progs.length = P.length ∧
    ∀ w, doneBy c w ++ callsOf (c.progs[w]?.getD []) = callsOf (P[w]?.getD []) := by
  induction h with
  | init => exact ⟨rfl, fun w => by simp [doneBy]⟩
  | @step c c' _ hs ih =>
    obtain ⟨hlen, hw⟩ := ih
    cases hs with
    | @call w0 op rest s' hp hstep =>
      refine ⟨by simp [hlen], ?_⟩
      intro w
      have hw0 : w0 < c.progs.length := (List.getElem?_eq_some_iff.mp hp).1
      by_cases hww : w = w0
      · subst hww
        have hold := hw w
        rw [hp] at hold
        simp only [Option.getD_some, callsOf] at hold
        simp only [doneBy, List.reverse_cons, List.filter_append, List.map_append] at hold ⊢
        simp only [List.getElem?_set_self hw0, Option.getD_some]
        rw [← hold]
        simp
      · have hold := hw w
        have hne : (w0 == w) = false := by simpa using fun e => hww e.symm
        simp only [doneBy, List.reverse_cons, List.filter_append, List.map_append] at hold ⊢
        rw [List.getElem?_set_ne (fun e => hww e.symm)]
        rw [← hold]
        simp [hne]
    | @read w0 rest hp =>
      refine ⟨by simp [hlen], ?_⟩
      intro w
      have hw0 : w0 < c.progs.length := (List.getElem?_eq_some_iff.mp hp).1
      by_cases hww : w = w0
      · subst hww
        have hold := hw w
        rw [hp] at hold
        simp only [Option.getD_some, callsOf] at hold
        simp only [doneBy] at hold ⊢
        simp only [List.getElem?_set_self hw0, Option.getD_some]
        exact hold
      · have hold := hw w
        simp only [doneBy] at hold ⊢
        rw [List.getElem?_set_ne (fun e => hww e.symm)]
        exact hold

/-- **`HighestPriority` is exact under every interleaving** of any number of workers, each running
    any program of `NewChildMonitor` / `Activate` / `Skip` / `Finish` calls and reads, each action
    one atomic step (the lock sections of monitor.go): in every reachable state the heap root is
    the least priority of the monitors activated by a triggering event and not finished, and the
    heap is empty iff there is none. (The sequential theorem `highest_priority_exact` lifted over
    the linearisation `interleaving_is_a_sequence`.) -/
theorem highest_priority_exact_concurrent {P : List (List Act)} {c : Sys} (h : Reach P c) :
    (highest? c.shared = none ↔ ∀ m ∈ c.shared.mons, m.active = false) ∧
    (∀ p, highest? c.shared = some p →
      (∃ m ∈ c.shared.mons, m.active = true ∧ m.prio = p) ∧
      ∀ m ∈ c.shared.mons, m.active = true → p ≤ m.prio) :=
  highest_priority_exact _ _ (interleaving_is_a_sequence h)

/-- **Every value any worker ever reads is exact at the moment of the read**: each entry `(w, v)` of
    the read log is `HighestPriority()` of a reachable system state `c₀` (the state in which worker
    `w` held the lock), for which `highest_priority_exact_concurrent` holds; for priorities ≥ 0
    this is the integer statement: `v = -1` iff no monitor was active then, otherwise `v` is the
    least active priority. -/
theorem every_read_is_exact {P : List (List Act)} {c : Sys} (h : Reach P c) :
    ∀ w v, (w, v) ∈ c.reads → ∃ c₀, Reach P c₀ ∧ v = highestPriority c₀.shared ∧
      ((∀ m ∈ c₀.shared.mons, 0 ≤ m.prio) →
        (v = -1 ↔ ∀ m ∈ c₀.shared.mons, m.active = false) ∧
        ((∃ m ∈ c₀.shared.mons, m.active = true) →
          (∃ m ∈ c₀.shared.mons, m.active = true ∧ m.prio = v) ∧
          ∀ m ∈ c₀.shared.mons, m.active = true → v ≤ m.prio)) := by
  induction h with
  | init => intro w v hm; simp at hm
  | @step c c' hc hs ih =>
    cases hs with
    | call hp hstep => exact ih
    | @read w0 rest hp =>
      intro w v hm
      simp only [List.mem_cons, Prod.mk.injEq] at hm
      rcases hm with ⟨rfl, rfl⟩ | hm
      · refine ⟨c, hc, rfl, ?_⟩
        intro hnn
        exact highestPriority_int _ _ (interleaving_is_a_sequence hc) hnn
      · exact ih w v hm

/-- non-vacuity: two workers — one activates a monitor of priority 3 and finishes it, the other
    activates one of priority 1 and reads; in the schedule below the reader sees 1 while both are
    active (another schedule lets it see 1 after the first has finished: also exact) -/
example : ∃ c, Reach [[.call (.newChild 3), .call (.activate 1), .call (.finish 1)],
                      [.call (.newChild 1), .call (.activate 2), .read]] c ∧ c.reads = [(1, 1)] := by
  refine ⟨_, .step (.step (.step (.step (.step .init
    (.call (w := 0) rfl rfl)) (.call (w := 0) rfl rfl)) (.call (w := 1) rfl rfl))
    (.call (w := 1) rfl rfl)) (.read (w := 1) rfl), ?_⟩
  decide

end concurrent

/-- `NewChildMonitor(p)` followed by `Activate` for consecutive monitors `start, start+1, …` -/
def activateAll (ps : List Int) (start : Nat) : List Op :=
  (ps.zipIdx start).flatMap fun (p, i) => [Op.newChild p, Op.activate i]

/-- activate 5,9,3,11,8,4; finish 4; activate 6,7; finish 3 -/
def heapWitness : List Op :=
  activateAll [5, 9, 3, 11, 8, 4] 1 ++ [.finish 6] ++ activateAll [6, 7] 7 ++ [.finish 3]

/-- skipped child (priority 0) of an active root event -/
def skipWitness : List Op := [.activate 0, .newChild 0, .skip 1]

/-- non-vacuity of `highest_priority_exact`: on both witnesses the current code reports the minimum -/
example : (run current {} heapWitness).map (fun s => (highestPriority s, trueHighest? s))
    = some (5, some 5) := by decide
example : (run current {} skipWitness).map (fun s => (highestPriority s, trueHighest? s))
    = some (0, some 0) := by decide

/-- **Negative witness (the defect repaired by 5e0512e, part 1).** Without re-establishing the
    heap after `IntHeap.RemoveFirst` — which deletes by shifting the tail of the slice and then
    calls `heap.Fix` on the shifted position — the root is 6 although a monitor of priority 5
    is active. This runs the real algorithm (`up`/`down` of container/heap), not an abstraction. -/
theorem removeFirst_breaks_heap :
    (run { reheap := false, skipGuard := true } {} heapWitness).map
      (fun s => (s.priorities, highestPriority s, trueHighest? s))
      = some ([6, 5, 9, 8, 11, 7], 6, some 5) := by decide

/-- **Negative witness (part 2, the Skip defect).** When `Finish` of a skipped monitor
    decrements `incomplete` (as before 5e0512e), a skipped child event with the priority of its
    active parent empties the heap: the report is −1 while the parent (priority 0) is active. -/
theorem skip_breaks_highest :
    (run { reheap := true, skipGuard := false } {} skipWitness).map
      (fun s => (highestPriority s, trueHighest? s)) = some (-1, some 0) := by decide

/-- … and a skipped event *before* an activation of the same priority leaves the count at −1,
    so that priority never enters the heap -/
theorem skip_hides_later_activation :
    (run { reheap := true, skipGuard := false } {} [.newChild 2, .skip 1, .newChild 2, .activate 2]).map
      (fun s => (highestPriority s, trueHighest? s)) = some (-1, some 2) := by decide

end Ecal.Props.C10
