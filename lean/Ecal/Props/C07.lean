import Ecal.Model.ParserWF
import Ecal.Model.TokenChannel
import Ecal.Lemmas.ChanLemmas
import Ecal.Gen.C07
import Ecal.Lemmas.LexTerminates
import Ecal.Props.C18
import Ecal.Lemmas.PrinterNoNil
import Ecal.Lemmas.ParserMain
import Ecal.Lemmas.ParserShape
import Ecal.Lemmas.ParserShapeS
import Ecal.Lemmas.ParserWalk
/-!
# C07 — parsing is total: an error or a well-formed tree, and nothing left running
-/
namespace Ecal.Props.C07
open Ecal.Chan Ecal.Parse Ecal.Lex

/-! ## The parser (model of parser.go as it is now), on ALL token lists

`parseToks ts` is the pair `(tree?, error?)` which `ParseWithRuntime` returns when the lexer delivers
the token list `ts`. The theorems quantify over every token list — also those no lexer produces — hence
over every input text. The supporting invariant (`Ecal.Parse.specs`, one induction on the fuel over all
13 mutually recursive parser functions) is in `Lemmas/ParserMain.lean`. -/

/-- what the fuel-indexed parser returns for a given fuel -/
theorem outcome (fuel : Nat) (ts : List Tok) :
    (∃ t, parseToksWith fuel ts = (some t, none) ∧ okTree t = true) ∨
    (∃ e, parseToksWith fuel ts = (none, some e) ∧ e ≠ .panic ∧ (4 * ts.length + 4 ≤ fuel → e ≠ .fuel) ∧ EPos ts e) := by
  have h := parseBody_spec fuel ts
  unfold Sat at h
  unfold parseToksWith
  cases hb : parseBody fuel { toks := ts, node := none } with
  | ok n p => rw [hb] at h; exact Or.inl ⟨n, rfl, h⟩
  | err e p => rw [hb] at h; exact Or.inr ⟨e, rfl, h⟩

/-- **parse_total.** With the fuel `fuelFor ts` (linear in the number of tokens) — and with any larger
    fuel — the recursion budget is never exhausted: the model parser's recursion terminates on every
    token list; the argument is the code's own one (every loop iteration and every nested call first
    takes a token). -/
theorem parse_total (ts : List Tok) (fuel : Nat) (hf : 4 * ts.length + 4 ≤ fuel) :
    (parseToksWith fuel ts).2 ≠ some .fuel := by
  rcases outcome fuel ts with ⟨t, h, _⟩ | ⟨e, h, _, he, _⟩
  · rw [h]; simp
  · rw [h]; simp; exact he hf

theorem parse_total_default (ts : List Tok) : (parseToks ts).2 ≠ some .fuel :=
  parse_total ts (fuelFor ts) (by unfold fuelFor; omega)

/-- **parse_never_panics.** No nil dereference inside the parser, for every token list (the four
    inputs `a ; "`, `a["` … of the repaired defects were exactly such dereferences). -/
theorem parse_never_panics (ts : List Tok) : (parseToks ts).2 ≠ some .panic := by
  rcases outcome (fuelFor ts) ts with ⟨t, h, _⟩ | ⟨e, h, hp, _, _⟩
  · unfold parseToks; rw [h]; simp
  · unfold parseToks; rw [h]; simp; exact hp

/-- **parse_error_xor_tree.** For every token list the result is either a tree and no error, or no
    tree and a parser error (kind, line, column). "Never both, never neither" holds BY CONSTRUCTION of the model
    (`parseToksWith` builds the pair from one `Res`; the model is a short-circuit error monad, so the hazard "a
    later statement overwrites an earlier error" is not representable — for parser.go this half is TESTED: exact
    error kind+line+col, BOTH/NEITHER, NIL children in the correspondence; `errors_short_circuit` searches the
    refuting source patterns). What the invariant proves: the error is never the nil-dereference marker and never
    "out of fuel". -/
theorem parse_error_xor_tree (ts : List Tok) :
    (∃ t, parseToks ts = (some t, none)) ∨ (∃ kind line col, parseToks ts = (none, some (.perr kind line col))) := by
  rcases outcome (fuelFor ts) ts with ⟨t, h, _⟩ | ⟨e, h, hp, hfu, _⟩
  · exact Or.inl ⟨t, h⟩
  · right
    cases e with
    | perr k l c => exact ⟨k, l, c, h⟩
    | panic => exact absurd rfl hp
    | fuel => exact absurd rfl (hfu (by unfold fuelFor; omega))

/-- **error_position_from_input** ("a positioned error"). The kind of a returned error is one of the six
    kinds of parser/parsererror.go, and its line/column are those of a token OF THE INPUT — or the error is
    the `Unexpected end` which `p.next()` builds from the zero token once the token stream is exhausted
    (Line 0, Pos 0: printed without a position, parsererror.go:48; this case deviates from "positioned
    error" and is the known finding `unexpected-end-unpositioned`, pinned by parser_main_test.go:144).
    Which token, per kind (read off the model, `Lemmas/ParserSat.lean`, `ParserMain.lean`):
    `Lexical error` / `Unknown term`: the offending token itself; `Term cannot start an expression`: the token
    which was to start the expression; `Term can only start an expression`: the token found in operator
    position on the same line; `Unexpected term`: the token found instead of the expected one (or the token
    in front of it for `acceptChild`); positioned `Unexpected end`: the EOF token where another token was
    required, or the first extra token after a complete program. -/
theorem error_position_from_input (ts : List Tok) (k : String) (l : Nat) (c : Int)
    (h : parseToks ts = (none, some (.perr k l c))) :
    sixKinds k ∧ ((∃ t ∈ ts, t.line = l ∧ t.col = c) ∨ (k = "Unexpected end" ∧ l = 0 ∧ c = 0)) := by
  rcases outcome (fuelFor ts) ts with ⟨t, h', _⟩ | ⟨e, h', _, _, hpos⟩
  · unfold parseToks at h; rw [h'] at h; simp at h
  · unfold parseToks at h; rw [h'] at h; simp at h; subst h
    exact ⟨hpos.1, hpos.2.imp (fun ⟨t, ht, _, _, h1, h2, _⟩ => ⟨t, ht, h1, h2⟩) id⟩

/-- **error_token_per_kind** (sharpening of `error_position_from_input`). The token `t` of the input at whose
    line/column a positioned error stands is never a comment token, and per error kind (`kindTok`):
    `Lexical error` ⇒ `t` is the lexer's error token (id 0); `Unknown term` ⇒ `t`'s id has no grammar entry;
    `Term cannot start an expression` ⇒ `t`'s grammar entry has no null denotation (or `t` is `{` read as a block
    start); `Term can only start an expression` ⇒ `t`'s grammar entry has a positive binding and no left
    denotation. (`Unexpected term` / positioned `Unexpected end`: the token the parser stood on or had just left;
    WHICH index of the list it is — "the first unconsumed token" — is not stated: the error predicate of the
    Hoare logic does not see the state; open.) -/
theorem error_token_per_kind (ts : List Tok) (k : String) (l : Nat) (c : Int)
    (h : parseToks ts = (none, some (.perr k l c))) :
    (∃ t ∈ ts, t.id ≠ 3 ∧ t.id ≠ 4 ∧ t.line = l ∧ t.col = c ∧ kindTok k t) ∨ (k = "Unexpected end" ∧ l = 0 ∧ c = 0) := by
  rcases outcome (fuelFor ts) ts with ⟨t, h', _⟩ | ⟨e, h', _, _, hpos⟩
  · unfold parseToks at h; rw [h'] at h; simp at h
  · unfold parseToks at h; rw [h'] at h; simp at h; subst h; exact hpos.2

/-- non-vacuity of the per-kind clauses: `"` (lexer error token, id 0) and `)` (no null denotation) -/
example : (parseToks [⟨0, 0, [], false, false, 0, 1, 1⟩]).2 = some (.perr "Lexical error" 1 1) ∧
    (parseToks [⟨23, 0, [41], false, false, 0, 1, 1⟩, ⟨1, 1, [], false, false, 0, 1, 2⟩]).2
      = some (.perr "Term cannot start an expression" 1 1) := by decide

/-- **error_position_in_source** (composition with C18's lexer theorems; the statement in SOURCE positions).
    For every input TEXT: if parsing fails with `perr k l c`, then `k` is one of the six kinds and either the error is
    the unpositioned `Unexpected end` (0, 0) — or there is a token `t` of the lexer's token list, not a comment,
    fitting the kind (`kindTok`), with `l = t.line`, `c = t.col`, and `t` is the EOF token or
    * `l` is the TRUE line of the byte offset `t.pos` in the source (`lineOf`),
    * `c` is the true column of `t.pos` (`colOf`) unless the known finding `hash-comment-column` applies there
      (`afterHashComment`, C18's classifier), and
    * at `t.pos` stands the FIRST CHARACTER of the token: a rune inside the input that is not blank (or, for the
      error token of an unterminated block comment, the byte after its `/*`).
    So "the error's line/column is that of the first character of a token of the source text" — up to C18's two
    known column findings (`hash-comment-column`, and the EOF token's stale position, which is why EOF is excepted).
    Uses `token_positions_true_partial` and `token_starts_at_first_character` of Props/C18.lean. -/
theorem error_position_in_source (input : List Nat) (k : String) (l : Nat) (c : Int)
    (h : parse input = (none, some (.perr k l c))) :
    sixKinds k ∧ ((k = "Unexpected end" ∧ l = 0 ∧ c = 0) ∨
      ∃ t ∈ (lex input).toList, t.id ≠ 3 ∧ t.id ≠ 4 ∧ t.line = l ∧ t.col = c ∧ kindTok k t ∧
        (t.id = tEOF ∨
          ((l = Ecal.Lex.Spec.lineOf input.toArray t.pos ∧
            (c = Ecal.Lex.Spec.colOf input.toArray t.pos ∨
              Ecal.Lex.Spec.afterHashComment input.toArray (lex input).toList t.pos = true)) ∧
           ((t.pos < input.toArray.size ∧ Ecal.Lex.blank (some (Ecal.Lex.decodeRune input.toArray t.pos).1) = false) ∨
            (t.id = tERROR ∧ 2 ≤ t.pos ∧ input.toArray.getD (t.pos - 2) 0 = 47 ∧
              input.toArray.getD (t.pos - 1) 0 = 42))))) := by
  refine ⟨(error_position_from_input _ k l c h).1, ?_⟩
  rcases error_token_per_kind _ k l c h with ⟨t, ht, h3, h4, hl, hc, hk⟩ | hu
  · refine Or.inr ⟨t, ht, h3, h4, hl, hc, hk, ?_⟩
    by_cases he : t.id = tEOF
    · exact Or.inl he
    · right
      have hp := Ecal.Props.C18.token_positions_true_partial input t ht he
      have hs := (Ecal.Props.C18.token_starts_at_first_character input t ht he).2.2
        (by simpa [tPOSTCOMMENT] using h4) (by simpa [tPRECOMMENT] using h3)
      exact ⟨⟨by rw [← hl]; exact hp.1, by rw [← hc]; exact hp.2⟩, hs⟩
  · exact Or.inl hu

/-- non-vacuity: `a +` + EOF gives the unpositioned end, `)` + EOF an error at the token `)` -/
example : (parseToks [⟨7, 0, [97], true, false, 0, 1, 1⟩, ⟨33, 2, [43], false, false, 0, 1, 3⟩,
    ⟨1, 3, [], false, false, 0, 1, 4⟩]).2 = some (.perr "Unexpected end" 0 0) := by decide
example : (parseToks [⟨23, 0, [41], false, false, 0, 1, 1⟩, ⟨1, 1, [], false, false, 0, 1, 2⟩]).2
    = some (.perr "Term cannot start an expression" 1 1) := by decide

/-- the same for source text through the lexer model -/
theorem parse_text_error_xor_tree (input : List Nat) :
    (∃ t, parse input = (some t, none)) ∨ (∃ kind line col, parse input = (none, some (.perr kind line col))) :=
  parse_error_xor_tree _

/-- what `okTree` says, one level at a time: the node's name is a known node kind, no child is nil,
    and every child is `okTree` again -/
theorem okTree_unfold (n : Node) (h : okTree n = true) :
    knownName n.name = true ∧ ∀ c ∈ n.children, ∃ c', c = some c' ∧ okTree c' = true := by
  rw [okTree_eq] at h
  simp only [Bool.and_eq_true] at h
  refine ⟨h.1, ?_⟩
  have : ∀ cs : List (Option Node), kidsOk cs = true → ∀ c ∈ cs, ∃ c', c = some c' ∧ okTree c' = true := by
    intro cs
    induction cs with
    | nil => intro _ c hc; simp at hc
    | cons x xs ih =>
      intro hk c hc
      cases x with
      | none => simp [kidsOk] at hk
      | some x' =>
        simp only [kidsOk, Bool.and_eq_true] at hk
        rcases List.mem_cons.mp hc with rfl | hc
        · exact ⟨x', rfl, hk.1⟩
        · exact ih hk.2 c hc
  exact this _ h.2

/-- **parse_wellformed.** For every token list: a returned tree is `WellFormed` — at every depth no child
    is nil, every node has a token unless it is one of the nodes the parser constructs itself, every node
    name is a known node kind, and every node has the number and kinds of children its kind requires
    (`shapeOk` in `Model/ParserWF.lean`: binary operators 2, `plus`/`minus` 1–2, prefix operators 1,
    `if` = (guard(1), statements) pairs, `loop` = [guard(1) | in(2), statements], `try` = statements then
    except/otherwise/finally clauses each ending in / consisting of statements, `function` =
    [identifier?, params, statements], `sink` = identifier … statements, `mutex`, `import`, `return` ≤ 1,
    identifier chains of identifier/funccall/compaccess(1), `as`(1), terminals 0) — exactly what
    Validate/Eval/PrettyPrint index without checking. Full strength: all kinds, no hypothesis on the
    token list. Proof: `Ecal.Parse.specsW` (`Lemmas/ParserShape.lean`), one induction on the fuel in which
    every nd*/ld* function reports the child signatures it appended (`Ext`). -/
theorem parse_wellformed (ts : List Tok) (t : Node) (h : parseToks ts = (some t, none)) :
    WellFormed t = true := by
  have hw := parseBody_wf (fuelFor ts) ts
  unfold Sat at hw
  unfold parseToks parseToksWith at h
  cases hb : parseBody (fuelFor ts) { toks := ts, node := none } with
  | ok n p => rw [hb] at hw h; simp at h; subst h; exact hw
  | err e p => rw [hb] at h; simp at h

/-- **parse_wellformed_strict.** The strict form (`WellFormedS`, Model/ParserWFS.lean) which the consumers need
    to WALK the tree: the clauses of `WellFormed`, and additionally every child in an operand position carries
    a token (the token-less constructed nodes only where the parent's kind asks for them by name, the
    token-less `true` only as the sole child of an `else`-guard), `as` = [identifier],
    `except` = string* (as | identifier)? statements, the clauses of `try` and the name of function / sink /
    mutex carry tokens; the root carries a token unless it is the top-level `statements` node.
    All token lists, all kinds. Proof: `Ecal.Parse.S.specsW` (`Lemmas/ParserShapeS.lean`). -/
theorem parse_wellformed_strict (ts : List Tok) (t : Node) (h : parseToks ts = (some t, none)) :
    WellFormedRoot t = true := by
  have hw := Ecal.Parse.S.parseBody_wf (fuelFor ts) ts
  unfold Sat at hw
  unfold parseToks parseToksWith at h
  cases hb : parseBody (fuelFor ts) { toks := ts, node := none } with
  | ok n p => rw [hb] at hw h; simp at h; subst h; exact hw
  | err e p => rw [hb] at h; simp at h

/-- **wellformed_walkable.** On a strictly well-formed tree every dereference of the consumer census
    (`walkable`, Model/ParserWalk.lean: the unguarded `Children[k]` / `.Token` accesses of Validate, Eval and
    PrettyPrint, transcribed with their source lines) is defined. The census is a transcription (trusted);
    the harness additionally runs the real PrettyPrint and ParseWithRuntime + Validate on every returned tree. -/
theorem wellformed_walkable (t : Node) (h : WellFormedS t = true) : walkable t = true := wf_walk t h

/-- … hence every tree the parser returns can be walked -/
theorem parse_walkable (ts : List Tok) (t : Node) (h : parseToks ts = (some t, none)) : walkable t = true := by
  have := parse_wellformed_strict ts t h
  simp only [WellFormedRoot, Bool.and_eq_true] at this
  exact wf_walk t this.1

/-- the trees of the review which the weaker `WellFormed` accepted are rejected by the strict predicate and are
    indeed not walkable: `except[true(no token), statements]` (rt_statements.go:636 reads `.Token.Val`) -/
example :
    let bad : Node := .mk "except" (some ⟨70, 0, [], false, false, 0, 1, 1⟩) 0 .none .none
      [some (.mk "true" none 0 .term .none [] []), some (.mk "statements" none 0 .none .none [] [])] []
    WellFormed bad = true ∧ WellFormedS bad = false ∧ walkable bad = false := by decide

/-- the same for source text through the lexer model -/
theorem parse_text_wellformed (input : List Nat) (t : Node) (h : parse input = (some t, none)) :
    WellFormed t = true := parse_wellformed _ t h

/-- **parse_wellformed_partial** (kept; superseded by `parse_wellformed`): no nil child and only known node
    names at every depth, as a separate recursive predicate `okTree` carried by the termination/no-panic
    induction `Ecal.Parse.specs`. -/
theorem parse_wellformed_partial (ts : List Tok) (t : Node) (h : parseToks ts = (some t, none)) :
    okTree t = true := by
  rcases outcome (fuelFor ts) ts with ⟨t', h', hn⟩ | ⟨e, h', _, _, _⟩
  · unfold parseToks at h; rw [h'] at h; simp at h; subst h; exact hn
  · unfold parseToks at h; rw [h'] at h; simp at h

/-- **parse_names_known.** Readable consequence: the root of a returned tree has a known node kind, none of
    its children is nil, and the same holds below every child. -/
theorem parse_names_known (ts : List Tok) (t : Node) (h : parseToks ts = (some t, none)) :
    knownName t.name = true ∧ ∀ c ∈ t.children, ∃ c', c = some c' ∧ okTree c' = true :=
  okTree_unfold t (parse_wellformed_partial ts t h)

/-- the hypothesis of `parse_wellformed` is satisfiable: `a` followed by EOF gives a tree -/
example : (parseToks [⟨7, 0, [97], true, false, 0, 1, 1⟩, ⟨1, 1, [], false, false, 0, 1, 2⟩]).1.map WellFormed
    = some true := by decide

/-- negative witness for `okTree`/`WellFormed`: the tree the parser returned for `for a { ) ; b }`
    before 486e4c7 (a `statements` node with a nil child) is rejected -/
example : WellFormed (.mk "statements" none 0 .none .none [none] []) = false ∧
    okTree (.mk "statements" none 0 .none .none [none] []) = false := by decide

/-- negative witness for the name clause: the nameless node wrapping a `statements` node which
    `if ({ { a }) { }` produced before fixes/C07-brace-in-guard.patch is rejected by both predicates -/
example : WellFormed (.mk "" (some ⟨26, 4, [123], false, false, 0, 1, 5⟩) 0 .none .none
      [some (.mk "statements" none 0 .none .none [] [])] []) = false ∧
    okTree (.mk "" (some ⟨26, 4, [123], false, false, 0, 1, 5⟩) 0 .none .none
      [some (.mk "statements" none 0 .none .none [] [])] []) = false := by decide

/-- **printer_never_hits_nil_child.** On every tree the parser returns, the printer model's `visit`
    (`Ecal.Print.visit` = `visitFQ quote 100000`, C08's fuel-structural port of prettyprinter.go's visit) never takes
    its nil-child branch: the result is never `.error .nilNode`, whatever the parent argument. More generally
    (`Ecal.Print.visit_only_panic`): for every quoting function, every fuel and every strictly well-formed tree,
    the only error `visitFQ` can return is `PErr.panic`. This does NOT say that printing succeeds: the `panic`
    outcome (missing template for a name/arity, a node without token where the printer reads one, the slice in
    post-processing, fuel below the depth of the tree) is not excluded here (C08's domain). -/
theorem printer_never_hits_nil_child (ts : List Tok) (t : Node) (h : parseToks ts = (some t, none))
    (parent : Option Node) : Ecal.Print.visit (some t) parent ≠ .error .nilNode := by
  have hw := parse_wellformed_strict ts t h
  simp only [WellFormedRoot, Bool.and_eq_true] at hw
  intro he
  have := (Ecal.Print.visit_only_panic Ecal.Print.quote 100000 t parent hw.1).h _ he
  cases this

/-- non-vacuity (the hypothesis is satisfiable and the printer then indeed prints): `a` + EOF -/
example : (parseToks [⟨7, 0, [97], true, false, 0, 1, 1⟩, ⟨1, 1, [], false, false, 0, 1, 2⟩]).1.isSome = true := by decide

/-- negative witness: on a tree WITH a nil child the printer model does take that branch -/
example : (match Ecal.Print.visit (some (.mk "statements" none 0 .none .none [none] [])) none with
    | .error .nilNode => true | _ => false) = true := by
  decide +kernel

/-! ## The token channel: nothing of the parser is left at the return

The transition system (`Model/TokenChannel.lean`) is tied to the source by the extracted synchronisation
skeleton (`Gen/C07.lean`, regenerated on every run): package parser has exactly one `go` statement (in `Lex`,
starting `(*lexer).run`), `close(l.tokens)` is the last statement of `run`, `ParseWithRuntime` defers
`p.tokens.drain()` and `drain` is `for range b.tokens {}` in the calling goroutine. -/

/-- **source_selects_sync** (regenerated, three-valued source facts; only a REFUTED fact breaks this). The
    extractor finds the drain by what it does — a loop, reachable from a defer of `ParseWithRuntime` through
    same-package calls and closures, which receives from the token channel and whose only way out is the
    closed channel — and the close by being the last action of the producer goroutine's body in any spelling;
    a design without any goroutine alive during parsing is accepted. Refuting clauses: a `go` statement on the
    drain path (asynchronous drain), no drain although a producer goroutine exists, a second way out of the
    receive loop (select, timer, loop condition, unguarded break / return), statements after the close / an
    early return skipping it. "unknown" is not an obligation (note + amplified search in the run). -/
theorem source_selects_sync :
    Ecal.Gen.C07.syncFact ≠ "no" ∧ Ecal.Gen.C07.closeFact ≠ "no" := by decide

/-- **no_package_state_written** (regenerated source fact). Package parser writes no package-level variable
    outside `init()`: no state survives a call or is shared between concurrent calls (the class of the old
    astNodeMap rewrite, cbd1b2f, and of an unlocked package-level cache). Writes through aliases / method calls
    on package-level objects are not tracked (the concurrent-callers case of the run is the test for those). -/
theorem no_package_state_written : Ecal.Gen.C07.pkgWrites = [] := by decide

/-- **errors_short_circuit** (regenerated source fact; the obligation behind the model's error monad).
    The MODEL is a short-circuit error monad: after an error nothing else happens, so "tree xor error", "the first
    error wins" and "no child is appended after an error" hold in the model BY CONSTRUCTION. parser.go instead
    has `err` variables and a guard per site. The extractor searches the refuting patterns of that discipline
    (an error result of a same-package call discarded as an expression statement — the defect classes of
    c1d34c3 and be7569d; `err` assigned in a loop and overwritten by the next iteration untested — 486e4c7);
    finding one refutes the fact. Their absence does NOT establish the discipline ("unknown"): for parser.go
    xor / first-error-wins are TESTED by the correspondence (exact error kind+line+col, BOTH/NEITHER, NIL). -/
theorem errors_short_circuit : Ecal.Gen.C07.errFact ≠ "no" := by decide

/-- (by construction) In the synchronous-drain system a returned call is `clean`: this RESTATES the guard of the
    `drainEnd` event (`for range ch` ends when the channel is observed closed) and that mode sync never creates a
    helper; it is a lemma (`Ecal.Chan.returned_clean`), not a finding about the code. What ties it to the code is
    `source_selects_sync` (which transition system the source has) and the leak MEASUREMENT; what has content in
    the model is below: the call does return (`drain_progress`, `drain_bounded`), after the return only the
    producer's own exit is left (`producer_exits_alone`), and the two other designs fail (negative witnesses). -/
example (n : Nat) (es : List Ev) (s : St) (h : exec .sync (init n) es = some s) (hr : s.cons = .returned) :
    clean s = true := returned_clean n es s h hr

/-- **producer_exits_alone.** From a clean state the only thing that can still happen is the producer's own
    `exit` (no partner needed), after which nothing of the parser can move: the goroutine is gone. -/
theorem producer_exits_alone (s : St) (hc : clean s = true) (hr : s.cons = .returned) :
    (s.prod = .terminated ∧ canMove .sync s = false) ∨
    (∃ s', step .sync s .exit = some s' ∧ s'.prod = .terminated ∧ canMove .sync s' = false ∧
      ∀ e, e ≠ .exit → step .sync s e = none) := by
  obtain ⟨n, p, c, hp⟩ := s
  simp at hr; subst hr
  cases p <;> cases hp <;> simp_all [clean, canMove, allEv, step]
  intro e he
  cases e <;> simp_all [step]

example : ∃ s, exec .sync (init 3) [.recv, .stop, .drainRecv, .drainRecv, .close, .drainEnd] = some s ∧
    s.cons = .returned := by decide

/-- **the call does return (progress).** As long as `ParseWithRuntime` has not returned, some goroutine
    can move: the drain never blocks for good. -/
theorem drain_progress (s : St) (h : s.cons ≠ .returned) : canMove .sync s = true := by
  obtain ⟨n, p, c, hp⟩ := s
  cases c <;> cases p <;> cases n <;> simp_all [canMove, allEv, step]

/-- **the call does return (bound).** Once the consumer is in the deferred drain (and no helper exists, which
    is invariant), every schedule has at most `toSend + 3` further steps (then `ParseWithRuntime` has
    returned and nothing is left to run). -/
theorem drain_bounded (es : List Ev) (s s' : St) (hc : s.cons ≠ .parsing) (hh : s.helper = false)
    (h : exec .sync s es = some s') : es.length + todo s' ≤ todo s := by
  induction es generalizing s with
  | nil => simp [exec] at h; subst h; simp
  | cons e es ih =>
    simp only [exec] at h
    split at h
    · next s1 h1 =>
      have key : s1.cons ≠ .parsing ∧ s1.helper = false ∧ todo s1 + 1 ≤ todo s := by
        obtain ⟨n, p, c, hp⟩ := s
        cases e <;> simp only [step] at h1 <;> (repeat' split at h1) <;>
          simp_all [todo] <;> (subst h1; simp_all <;> (try split) <;> omega)
      have := ih s1 key.1 key.2.1 h
      simp only [List.length_cons]; omega
    · simp at h

/-- **negative witness (the code before f2d708b).** Without the drain there is a run — two tokens, the
    parser stops after the first — after which `ParseWithRuntime` has returned, the lexer goroutine is
    still running (blocked in its send) and nothing can ever move again: it is leaked for good. -/
theorem without_drain_producer_left :
    ∃ s, exec .none (init 2) [.recv, .stop] = some s ∧ s.cons = .returned ∧ s.prod = .running ∧
      clean s = false ∧ canMove .none s = false := by decide

/-- **negative witness (asynchronous drain).** If `drain` hands the channel to a helper goroutine and
    returns at once, the return event is enabled while the helper and the lexer goroutine are alive: two
    tokens, the parser stops after the first — at the return both outlive the call (they do end later:
    `helpRecv, close, helpEnd`, which is why a check that waits for the count to settle sees nothing). -/
theorem async_drain_outlives_call :
    ∃ s, exec .async (init 2) [.recv, .stop] = some s ∧ s.cons = .returned ∧ s.prod = .running ∧
      s.helper = true ∧ clean s = false ∧
      (∃ s', exec .async s [.helpRecv, .close, .helpEnd] = some s' ∧ clean s' = true) := by decide

/-! ## The grammar table of the model is the one in the source -/

def nudName : Ecal.Parse.Nud → String
  | .none => "nil" | .term => "ndTerm" | .identifier => "ndIdentifier" | .inner => "ndInner" | .list => "ndList"
  | .map => "ndMap" | .prefix => "ndPrefix" | .import_ => "ndImport" | .sink => "ndSkink" | .func => "ndFunc"
  | .return_ => "ndReturn" | .guard => "ndGuard" | .loop => "ndLoop" | .try_ => "ndTry" | .mutex => "ndMutex"
  | .block => "parseInnerStatements"
def ledName : Ecal.Parse.Led → String | .none => "nil" | .infix => "ldInfix"

/-- one entry of the extracted astNodeMap agrees with `Parse.table` -/
def entryAgrees (e : Nat × String × Nat × String × String) : Bool :=
  match table e.1 with
  | some (nm, b, x, l) => nm = e.2.1 && b = e.2.2.1 && nudName x = e.2.2.2.1 && ledName l = e.2.2.2.2
  | none => false

/-- **table_matches_source** (regenerated, constants and keyed literals folded). Every entry of the tree's
    `astNodeMap` which the extractor understood has the same node name, binding and null/left denotation NAME in
    `Parse.table`; if the whole table was understood, the model has no further entry (ids < 200) and the
    block-start brace entry is the one `instanceOf` uses; the ids of the error / comment tokens are the ones
    `nextNode` / `splitComments` test. Entries not understood are no obligation (note). The BODIES of the
    nd*/ld* functions are hand-transcribed into the model (tied by the correspondence only). -/
theorem table_matches_source :
    Ecal.Gen.C07.astNodeMap.all entryAgrees = true ∧
    (Ecal.Gen.C07.tableUnderstood = true →
      (List.range 200).all (fun id => (table id).isNone || Ecal.Gen.C07.astNodeMap.any (·.1 = id)) = true) ∧
    (Ecal.Gen.C07.blockBrace = none ∨ Ecal.Gen.C07.blockBrace = some (T_LBRACE, "", 0, "nil", "nil")) ∧
    Ecal.Gen.C07.tokenError = 0 ∧ Ecal.Gen.C07.tokenPreComment = 3 ∧ Ecal.Gen.C07.tokenPostComment = 4 := by decide

/-! ## End to end: source text → lexer → parser, with the token channel -/

/-- **parse_end_to_end.** For EVERY input text (any byte string), composing the lexer model, the parser model
    and the channel model:
    1. the lexer terminates with a finite, non-empty token list whose last token is EOF or an error token
       (`lexer_always_closes`, proved by the owner of the lexer model, C18) — so the producer of the channel
       model has finitely many sends, `(lex input).size`, and then closes;
    2. the parser terminates (no fuel exhaustion, no nil dereference) with EITHER a tree and no error — and the
       tree is `WellFormed`, strictly well formed (`WellFormedRoot`) and `walkable` by the consumer census — OR
       no tree and an error of one of the six kinds whose position is that of a token of the input, or the
       unpositioned `Unexpected end` (known finding `unexpected-end-unpositioned`);
    3. in the channel model selected by the source (`source_selects_sync`), started with this number of tokens,
       whenever `ParseWithRuntime` has returned no helper goroutine exists and the lexer goroutine is past its
       `close` (holds for EVERY number of tokens, by the guard of `drainEnd`: `Ecal.Chan.returned_clean`; the
       token count only says the producer's sends are finitely many; nothing links `consumed` to the receives).
    By construction of the MODEL (a short-circuit error monad): "never both, never neither" and "the first error
    wins"; proved with the invariant: no nil dereference, no fuel exhaustion, well-formedness, positions.
    What is NOT proved: that the three models equal lexer.go / parser.go / Go's channel semantics (tested by the
    correspondence runs of C18 and C07 and by the goroutine measurement). -/
theorem parse_end_to_end (input : List Nat) :
    (∃ last, (lex input).back? = some last ∧ (last.id = tEOF ∨ last.id = tERROR)) ∧
    ((∃ t, parse input = (some t, none) ∧ WellFormed t = true ∧ WellFormedRoot t = true ∧ walkable t = true) ∨
     (∃ k l c, parse input = (none, some (.perr k l c)) ∧ sixKinds k ∧
        ((∃ tk ∈ (lex input).toList, tk.line = l ∧ tk.col = c) ∨ (k = "Unexpected end" ∧ l = 0 ∧ c = 0)))) ∧
    (∀ (es : List Ev) (s : St), exec .sync (init (lex input).size) es = some s → s.cons = .returned →
        clean s = true) := by
  refine ⟨Ecal.Lex.lexer_always_closes input, ?_, fun es s h hr => returned_clean _ es s h hr⟩
  rcases parse_error_xor_tree (lex input).toList with ⟨t, ht⟩ | ⟨k, l, c, he⟩
  · exact Or.inl ⟨t, ht, parse_wellformed _ t ht, parse_wellformed_strict _ t ht, parse_walkable _ t ht⟩
  · exact Or.inr ⟨k, l, c, he, error_position_from_input _ k l c he⟩

/-- non-vacuity of both alternatives on text: `a` parses, `)` is an error at line 1, column 1 -/
example : (parse [97]).1.isSome = true ∧ (parse [41]).2 = some (.perr "Term cannot start an expression" 1 1) := by
  decide +kernel

end Ecal.Props.C07
