import Ecal.Model.ParserWF
import Ecal.Model.TokenChannel
namespace Ecal.Props.C07
end Ecal.Props.C07
